/-
Layer **C** of the JSON round trip with collections (`ContentStmt` of `RoundTripJsonCollDefs.lean`): given the heap
relation after loading, the deep content (`featContentC`) of every feature of every collected structure is the same in
the written heap `H` and in the loaded heap `HF`.
-/
import CassisModel.Proofs.RoundTripJsonCollDefs

namespace Cassis.Json
open Cassis.TS Cassis.Traverse Cassis.Lex Cassis.Xmi

namespace CC

/-! ### values -/

/-- a value a slot of a collected structure may hold: anything but a non-feature attribute -/
def noAttr : Val → Bool
  | .attr _ => false
  | _ => true

/-- the references inside `v` (the value itself, or the elements of a raw list) are collected -/
def RefsIn (H : Heap) (L : List (Int × Nat)) (v : Val) : Prop :=
  (∀ b, v = .ref b → ∃ x : Int, xidOf H b = some x ∧ (x, b) ∈ L) ∧
  (∀ l, v = .refs l → ∀ b, some b ∈ l → ∃ x : Int, xidOf H b = some x ∧ (x, b) ∈ L)

theorem refsIn_none (H : Heap) (L : List (Int × Nat)) : RefsIn H L .none :=
  ⟨fun _ h => (by cases h), fun _ h => (by cases h)⟩

theorem exp3J_none (H : Heap) (na : Int → Nat) (ci' : Nat) : exp3J H na ci' .none = .none := rfl

theorem exp3J_not_ref (H : Heap) (na : Int → Nat) (ci' : Nat) (v : Val) (h : ∀ b, v ≠ .ref b) :
    ∀ b, exp3J H na ci' v ≠ .ref b := by
  intro b
  cases v with
  | ref a => exact absurd rfl (h a)
  | ints l => simp only [exp3J, elemsExpJ]; split <;> intro e <;> cases e
  | bools l => simp only [exp3J, elemsExpJ]; split <;> intro e <;> cases e
  | floats l => simp only [exp3J, elemsExpJ]; split <;> intro e <;> cases e
  | strs l => simp only [exp3J, elemsExpJ]; split <;> intro e <;> cases e
  | _ => intro e; cases e

/-! ### the new object against the old one -/

theorem ObjRel.slot_mapJ {H : Heap} {na : Int → Nat} {ci' : Nat} {o o' : Obj} {x : Int}
    (h : ObjRel (E3J H na ci' o) o o' x) (n : String) :
    alistGet? o'.slots n = (alistGet? o.slots n).map (exp3J H na ci') := by
  cases hv : alistGet? o.slots n with
  | none =>
    have : alistGet? o'.slots n = none := by
      rw [RTB.aget_none_iff] at hv ⊢
      rw [h.2.2.1]; exact hv
    rw [this]; rfl
  | some v =>
    rw [h.2.2.2 n v hv]; rfl

section
variable {H : Heap} {L : List (Int × Nat)} {na : Int → Nat} {ci' : Nat} {HF : Heap}

/-- 1. the slots of the new object -/
theorem slot_new (hrel : HeapRel H L na (E3J H na ci') HF) {q : Int × Nat} (hq : q ∈ L) (n : String) :
    Xmi.slot HF (na q.1) n = (Xmi.slot H q.2 n).map (exp3J H na ci') := by
  obtain ⟨o, o', ho, ho', hr⟩ := hrel q hq
  simp only [Xmi.slot, Traverse.slot, ho, ho', Option.bind_some]
  exact ObjRel.slot_mapJ hr n

theorem slot_new_getD (hrel : HeapRel H L na (E3J H na ci') HF) {q : Int × Nat} (hq : q ∈ L) (n : String) :
    (Xmi.slot HF (na q.1) n).getD .none = exp3J H na ci' ((Xmi.slot H q.2 n).getD .none) := by
  rw [slot_new hrel hq n]
  cases Xmi.slot H q.2 n <;> rfl

/-- 2. the id of the new object -/
theorem xid_new (hrel : HeapRel H L na (E3J H na ci') HF) {q : Int × Nat} (hq : q ∈ L) :
    xidOf HF (na q.1) = some q.1 := by
  obtain ⟨o, o', ho, ho', hr⟩ := hrel q hq
  simp only [xidOf, ho', Option.bind_some]
  exact hr.2.1

theorem exp3J_ref {b : Nat} {x : Int} (hx : xidOf H b = some x) : exp3J H na ci' (.ref b) = .ref (na x) := by
  simp only [exp3J, exp3, hx]

theorem len_lt (hrel : HeapRel H L (naOf H L) (E3J H (naOf H L) ci') HF) {q : Int × Nat} (hq : q ∈ L) :
    H.length < HF.length := by
  obtain ⟨o, o', ho, ho', hr⟩ := hrel q hq
  have := (List.getElem?_eq_some_iff.mp ho').1
  unfold naOf at this
  omega

end

/-! ### 3. the content of a value and of its image -/

section
variable {H : Heap} {L : List (Int × Nat)} {na : Int → Nat} {ci' : Nat} {HF : Heap}

theorem xid_ref (hrel : HeapRel H L na (E3J H na ci') HF) {b : Nat} {x : Int} (hx : xidOf H b = some x)
    (hm : (x, b) ∈ L) : xidOf HF (na x) = xidOf H b := by
  rw [hx]; exact xid_new hrel hm

theorem elemVals_refs (hrel : HeapRel H L na (E3J H na ci') HF) :
    ∀ (l : List (Option Nat)), (∀ b, some b ∈ l → ∃ x : Int, xidOf H b = some x ∧ (x, b) ∈ L) →
      elemVals HF (.refs (l.map (fun r => r.bind (fun b => (xidOf H b).map na)))) = elemVals H (.refs l)
  | [], _ => rfl
  | r :: l, h => by
    have ih := elemVals_refs hrel l (fun b hb => h b (List.mem_cons_of_mem _ hb))
    simp only [elemVals, List.map_cons, List.map_map] at ih ⊢
    rw [ih]
    congr 1
    cases r with
    | none => rfl
    | some b =>
      obtain ⟨x, hx, hm⟩ := h b (List.mem_cons_self ..)
      simp only [Option.bind_some, hx, Option.map_some]
      rw [xid_ref hrel hx hm, hx]

theorem elemVals_exp (hrel : HeapRel H L na (E3J H na ci') HF) (v : Val) (hr : RefsIn H L v) :
    elemVals HF (exp3J H na ci' v) = elemVals H v := by
  cases v with
  | refs l => exact elemVals_refs hrel l (hr.2 l rfl)
  | ints l => cases l <;> rfl
  | bools l => cases l <;> rfl
  | floats l => cases l <;> rfl
  | strs l => cases l <;> rfl
  | ref b =>
    simp only [exp3J, exp3]
    cases xidOf H b <;> rfl
  | _ => rfl

theorem cval_exp (hrel : HeapRel H L na (E3J H na ci') HF) (v : Val) (ha : noAttr v = true) (hr : RefsIn H L v) :
    cvalOf HF (exp3J H na ci' v) = cvalOf H v := by
  cases v with
  | attr s => cases ha
  | ref b =>
    obtain ⟨x, hx, hm⟩ := hr.1 b rfl
    rw [exp3J_ref hx]
    simp only [cvalOf]
    rw [xid_ref hrel hx hm]
  | refs l =>
    have := elemVals_exp hrel (.refs l) hr
    simp only [exp3J, elemsExpJ] at this ⊢
    simp only [cvalOf]
    rw [this]
  | ints l => cases l <;> rfl
  | bools l => cases l <;> rfl
  | floats l => cases l <;> rfl
  | strs l => cases l <;> rfl
  | _ => rfl

theorem headVal_exp (hrel : HeapRel H L na (E3J H na ci') HF) (isStr : Bool) (v : Val) (ha : noAttr v = true)
    (hr : RefsIn H L v) : headVal HF isStr (exp3J H na ci' v) = headVal H isStr v := by
  cases v with
  | attr s => cases ha
  | ref b =>
    obtain ⟨x, hx, hm⟩ := hr.1 b rfl
    rw [exp3J_ref hx]
    simp only [headVal]
    rw [xid_ref hrel hx hm]
  | ints l => cases l <;> rfl
  | bools l => cases l <;> rfl
  | floats l => cases l <;> rfl
  | strs l => cases l <;> rfl
  | _ => rfl

end

/-! ### the slot values of a collected structure -/

section
variable {K : Consts} {ts : TypeSystem} {c : Cas} {ci : Nat} {H : Heap} {L : List (Int × Nat)}

theorem jfeat_shape {isAnn : Bool} {o : Obj} {f : Feature} (h : JFeatOk K ts c ci H isAnn o f) {v : Val}
    (hv : alistGet? o.slots f.name = some v) : noAttr v = true ∧ ∀ l, v ≠ .refs l := by
  obtain ⟨_, _, _, _, _, v0, hv0, hc⟩ := h
  rw [hv] at hv0; cases hv0
  rcases hc with ⟨_, ⟨vn, e, _⟩ | ⟨e, _⟩⟩ | ⟨_, _, e | ⟨_, i, e⟩ | ⟨_, s, e⟩ | ⟨_, b, e⟩ | ⟨_, t, e⟩⟩ |
    ⟨_, _, _, _, _, e | ⟨b, e, _⟩⟩ <;> subst e <;> exact ⟨rfl, fun l e => by cases e⟩

theorem jprim_shape {ty : String} {ev : Val} (h : JPrimElems ty ev) : noAttr ev = true := by
  rcases h with e | ⟨_, l, e⟩ | ⟨_, l, e⟩ | ⟨_, _, ⟨l, e⟩ | ⟨l, e⟩ | ⟨l, e⟩⟩ <;> subst e <;> rfl

theorem slot_shape (hL : LOkJ K ts c ci H L) {q : Int × Nat} (hq : q ∈ L) {o : Obj} (ho : H[q.2]? = some o)
    {n : String} {v : Val} (hv : alistGet? o.slots n = some v) :
    noAttr v = true ∧ ∀ l, v = .refs l → n = "elements" := by
  rcases (hL.coll q hq).1 with hg | ha
  · obtain ⟨o1, t, ho1, _, _, _, _, _, _, _, _, _, _, _, hslots, hfeat, _⟩ := hg
    rw [ho] at ho1; cases ho1
    obtain ⟨f, hf, rfl⟩ := flat_slot_feature hslots hv
    have := jfeat_shape (hfeat f hf) hv
    exact ⟨this.1, fun l e => absurd e (this.2 l)⟩
  · obtain ⟨o1, t, f, ev, ho1, _, _, _, _, _, _, hslots, _, _, hc⟩ := ha
    rw [ho] at ho1; cases ho1
    rw [hslots] at hv
    simp only [alistGet?] at hv
    by_cases hn : "elements" = n
    · rw [if_pos hn] at hv; cases hv
      refine ⟨?_, fun _ _ => hn.symm⟩
      rcases hc with ⟨_, _, l, e⟩ | ⟨_, _, hp⟩
      · subst e; rfl
      · exact jprim_shape hp
    · rw [if_neg hn] at hv; cases hv

/-- every slot value of a collected structure is a feature value whose references are collected -/
theorem slot_good (hL : LOkJ K ts c ci H L) {q : Int × Nat} (hq : q ∈ L) {o : Obj} (ho : H[q.2]? = some o)
    {n : String} {v : Val} (hv : alistGet? o.slots n = some v) : noAttr v = true ∧ RefsIn H L v := by
  have hs := slot_shape hL hq ho hv
  refine ⟨hs.1, fun b e => ?_, fun l e b hb => ?_⟩
  · subst e; exact hL.closed q hq o ho n b hv
  · have hn := hs.2 l e
    subst e; subst hn
    exact hL.closedE q hq o ho l hv b hb

/-- the same for `(slot H a n).getD .none` -/
theorem slotD_good (hL : LOkJ K ts c ci H L) {q : Int × Nat} (hq : q ∈ L) (n : String) :
    noAttr ((Xmi.slot H q.2 n).getD .none) = true ∧ RefsIn H L ((Xmi.slot H q.2 n).getD .none) := by
  cases hs : Xmi.slot H q.2 n with
  | none => exact ⟨rfl, refsIn_none H L⟩
  | some v =>
    simp only [Xmi.slot, Traverse.slot] at hs
    cases ho : H[q.2]? with
    | none => rw [ho] at hs; cases hs
    | some o =>
      rw [ho] at hs
      exact slot_good hL hq ho hs

end

/-! ### 5. the unrolling of a list -/

theorem listVals_nonref (hp : Heap) (isStr : Bool) (m : Nat) (v : Val) (h : ∀ b, v ≠ .ref b) :
    listVals hp isStr m v = [] := by
  cases m with
  | zero => rfl
  | succ m =>
    cases v with
    | ref b => exact absurd rfl (h b)
    | _ => rfl

section
variable {K : Consts} {ts : TypeSystem} {c : Cas} {ci : Nat} {H : Heap} {L : List (Int × Nat)}
  {na : Int → Nat} {ci' : Nat} {HF : Heap}

theorem slotS_good (hL : LOkJ K ts c ci H L) {q : Int × Nat} (hq : q ∈ L) {n : String} {v : Val}
    (hs : Xmi.slot H q.2 n = some v) : noAttr v = true ∧ RefsIn H L v := by
  have := slotD_good hL hq n
  rw [hs] at this
  exact this

theorem listVals_exp (hL : LOkJ K ts c ci H L) (hrel : HeapRel H L na (E3J H na ci') HF) (isStr : Bool) :
    ∀ (n : Nat) (v : Val) (hs : List Val), RefsIn H L v → collectList H n v = .ok hs →
      ∀ m, n ≤ m → listVals HF isStr m (exp3J H na ci' v) = listVals H isStr n v
  | 0, v, hs, _, h, _, _ => by simp [collectList] at h
  | n+1, v, hs, hr, h, m, hm => by
    by_cases hv : ∃ a, v = .ref a
    · obtain ⟨a, rfl⟩ := hv
      obtain ⟨x, hx, hmem⟩ := hr.1 a rfl
      cases m with
      | zero => omega
      | succ m =>
        rw [exp3J_ref hx]
        unfold listVals
        unfold collectList at h
        have e1 := slot_new hrel hmem "head"
        have e2 := slot_new_getD hrel hmem "tail"
        simp only at e1 e2
        rw [e1, e2]
        cases hh : Xmi.slot H a "head" with
        | none => rfl
        | some hd =>
          rw [hh] at h
          simp only [bind, Except.bind] at h
          cases hc : collectList H n ((Xmi.slot H a "tail").getD .none) with
          | error e => rw [hc] at h; cases h
          | ok rest =>
            have hg := slotS_good hL hmem (n := "head") hh
            simp only [Option.map_some]
            rw [headVal_exp hrel isStr hd hg.1 hg.2]
            rw [listVals_exp hL hrel isStr n _ rest (slotD_good hL hmem "tail").2 hc m (by omega)]
    · have hv' : ∀ b, v ≠ .ref b := fun b e => hv ⟨b, e⟩
      rw [listVals_nonref HF isStr m _ (exp3J_not_ref H na ci' v hv'), listVals_nonref H isStr _ v hv']

end

/-! ### 6. the content function -/

theorem fc_nonref (K : Consts) (hp : Heap) (a : Nat) (f : Feature)
    (h : ∀ b, (Xmi.slot hp a f.name).getD .none ≠ .ref b) :
    featContentC K hp a f = cvalOf hp ((Xmi.slot hp a f.name).getD .none) := by
  unfold featContentC
  simp only
  generalize (Xmi.slot hp a f.name).getD .none = v at h
  split
  · cases v with
    | ref b => exact absurd rfl (h b)
    | _ => rfl
  · rfl

theorem fc_ref (K : Consts) (hp : Heap) (a : Nat) (f : Feature) {b : Nat}
    (h : (Xmi.slot hp a f.name).getD .none = .ref b) :
    featContentC K hp a f =
      if isInline K f then
        (if isArray K f.range then .elems (elemVals hp ((Xmi.slot hp b "elements").getD .none))
         else .elems (listVals hp (f.range == STRING_LIST) (hp.length + 1) (.ref b)))
      else cvalOf hp (.ref b) := by
  unfold featContentC
  simp only [h]

section
variable {K : Consts} {ts : TypeSystem} {c : Cas} {ci : Nat} {H : Heap} {L : List (Int × Nat)}

/-- (J2) where the content function unrolls a list -/
theorem spine_of (hL : LOkJ K ts c ci H L) {q : Int × Nat} (hq : q ∈ L) {o : Obj} {t : TypeRec}
    (ho : H[q.2]? = some o) (ht : find? ts o.ty = some t) {f : Feature} (hf : f ∈ allFeatures t) {b : Nat}
    (hv : (Xmi.slot H q.2 f.name).getD .none = .ref b) (hi : isInline K f = true) (ha : isArray K f.range = false) :
    SpineEnds H b := by
  have hv' : (alistGet? o.slots f.name).getD .none = .ref b := by
    simpa only [Xmi.slot, Traverse.slot, ho, Option.bind_some] using hv
  rcases (hL.coll q hq).1 with hg | hA
  · obtain ⟨o1, t1, ho1, ht1, _, _, _, _, _, _, _, _, _, _, _, hfeat, _⟩ := hg
    rw [ho] at ho1; cases ho1
    rw [ht] at ht1; cases ht1
    obtain ⟨_, _, _, _, _, v0, hv0, hc⟩ := hfeat f hf
    rw [hv0] at hv'
    simp only [Option.getD_some] at hv'
    subst hv'
    rcases hc with ⟨_, ⟨vn, e, _⟩ | ⟨e, _⟩⟩ | ⟨_, _, e | ⟨_, i, e⟩ | ⟨_, s, e⟩ | ⟨_, b, e⟩ | ⟨_, t, e⟩⟩ |
      ⟨_, _, _, _, _, e | ⟨b', e, hsp⟩⟩
    all_goals first | cases e
    exact hsp hi ha
  · obtain ⟨o1, t1, f1, ev, ho1, _, _, _, _, _, _, hslots, _, _, hc⟩ := hA
    rw [ho] at ho1; cases ho1
    rw [hslots] at hv'
    simp only [alistGet?] at hv'
    by_cases hn : "elements" = f.name
    · rw [if_pos hn] at hv'
      simp only [Option.getD_some] at hv'
      subst hv'
      rcases hc with ⟨_, _, l, e⟩ | ⟨_, _, hp⟩
      · cases e
      · rcases hp with e | ⟨_, l, e⟩ | ⟨_, l, e⟩ | ⟨_, _, ⟨l, e⟩ | ⟨l, e⟩ | ⟨l, e⟩⟩ <;> cases e
    · rw [if_neg hn] at hv'; cases hv'

end

end CC

/-- **C** content: the deep content of every feature of every collected structure is the same on both sides -/
theorem content_collJ : ContentStmt := by
  intro K ts c ci H L ci' HF hL hrel q hq o t ho ht f hf
  have hnew := CC.slot_new_getD hrel hq f.name
  have hg := CC.slotD_good hL hq f.name
  by_cases hv : ∃ b, (Xmi.slot H q.2 f.name).getD .none = .ref b
  · obtain ⟨b, hb⟩ := hv
    obtain ⟨x, hx, hm⟩ := hg.2.1 b hb
    rw [hb, CC.exp3J_ref hx] at hnew
    rw [CC.fc_ref K HF _ f hnew, CC.fc_ref K H _ f hb]
    cases hi : isInline K f with
    | false =>
      simp only [Bool.false_eq_true, if_false]
      have := CC.cval_exp hrel (.ref b) rfl (hb ▸ hg.2)
      rw [CC.exp3J_ref hx] at this
      exact this
    | true =>
      simp only [if_true]
      cases ha : isArray K f.range with
      | true =>
        simp only [if_true]
        have e := CC.slot_new_getD hrel hm "elements"
        simp only at e
        rw [e, CC.elemVals_exp hrel _ (CC.slotD_good hL hm "elements").2]
      | false =>
        simp only [Bool.false_eq_true, if_false]
        obtain ⟨hs, hcol⟩ := CC.spine_of hL hq ho ht hf hb hi ha
        have := CC.listVals_exp hL hrel (f.range == STRING_LIST) (H.length + 1) (.ref b) hs (hb ▸ hg.2) hcol
          (HF.length + 1) (by have := CC.len_lt hrel hq; omega)
        rw [CC.exp3J_ref hx] at this
        rw [this]
  · have hv' : ∀ b, (Xmi.slot H q.2 f.name).getD .none ≠ .ref b := fun b e => hv ⟨b, e⟩
    have hn' : ∀ b, (Xmi.slot HF (naOf H L q.1) f.name).getD .none ≠ .ref b := by
      rw [hnew]; exact CC.exp3J_not_ref H _ ci' _ hv'
    rw [CC.fc_nonref K HF _ f hn', CC.fc_nonref K H _ f hv', hnew]
    exact CC.cval_exp hrel _ hg.1 hg.2

end Cassis.Json
