/-
Helper lemmas for `Properties/C10.lean`: the tree invariant `Consistent` holds for the built-in tables,
is preserved by `createType` / `addFeature` / `createFeature`, and under it the hierarchy queries
(`descendants`, `subsumes`, `isInstanceOf`) agree with the ancestor relation `Anc`.
-/
import CassisModel.Spec.BuiltinChecks

namespace Cassis.TS

/-! ### `find?` basics -/

theorem find?_name {ts : TypeSystem} {n : String} {t : TypeRec} (h : find? ts n = some t) :
    t.name = n := by
  have := List.find?_some h
  simpa using this

theorem find?_mem {ts : TypeSystem} {n : String} {t : TypeRec} (h : find? ts n = some t) :
    t ∈ ts.types := List.mem_of_find?_eq_some h

theorem hasExact_iff_mem (ts : TypeSystem) (x : String) :
    hasExact ts x = true ↔ x ∈ ts.types.map (·.name) := by
  unfold hasExact find?
  rw [List.find?_isSome]
  simp

theorem hasExact_iff_find (ts : TypeSystem) (x : String) :
    hasExact ts x = true ↔ ∃ t, find? ts x = some t := by
  unfold hasExact; exact Option.isSome_iff_exists

theorem find?_none_of_not_has {ts : TypeSystem} {x : String} (h : hasExact ts x = false) :
    find? ts x = none := by
  unfold hasExact at h; simpa using h

theorem name_inj_of_nodup : ∀ (l : List TypeRec), (l.map (·.name)).Nodup →
    ∀ x ∈ l, ∀ y ∈ l, x.name = y.name → x = y := by
  intro l
  induction l with
  | nil => intro _ x hx; cases hx
  | cons a l ih =>
    intro hn x hx y hy hxy
    simp only [List.map_cons, List.nodup_cons, List.mem_map, not_exists, not_and] at hn
    rcases List.mem_cons.mp hx with rfl | hx' <;> rcases List.mem_cons.mp hy with rfl | hy'
    · rfl
    · exact absurd hxy.symm (hn.1 y hy')
    · exact absurd hxy (hn.1 x hx')
    · exact ih hn.2 x hx' y hy' hxy

theorem find?_of_mem {ts : TypeSystem} (hn : (ts.types.map (·.name)).Nodup) {t : TypeRec}
    (ht : t ∈ ts.types) : find? ts t.name = some t := by
  have : hasExact ts t.name = true := (hasExact_iff_mem ts t.name).mpr (List.mem_map.mpr ⟨t, ht, rfl⟩)
  obtain ⟨t', ht'⟩ := (hasExact_iff_find ts t.name).mp this
  rw [ht', name_inj_of_nodup _ hn t' (find?_mem ht') t ht (find?_name ht')]

theorem find?_getElem {ts : TypeSystem} (hn : (ts.types.map (·.name)).Nodup) (i : Nat)
    (h : i < ts.types.length) : find? ts (ts.types[i]).name = some ts.types[i] :=
  find?_of_mem hn (List.getElem_mem h)

theorem idx_unique {ts : TypeSystem} (hn : (ts.types.map (·.name)).Nodup) {i j : Nat}
    (hi : i < ts.types.length) (hj : j < ts.types.length)
    (h : (ts.types[i]).name = (ts.types[j]).name) : i = j := by
  have h1 : i < (ts.types.map (·.name)).length := by simpa using hi
  have h2 : j < (ts.types.map (·.name)).length := by simpa using hj
  have : (ts.types.map (·.name))[i] = (ts.types.map (·.name))[j] := by
    simpa using h
  exact (List.getElem_inj hn).mp this

theorem find?_idx {ts : TypeSystem} {n : String} {t : TypeRec} (h : find? ts n = some t) :
    ∃ i, ∃ (hi : i < ts.types.length), ts.types[i] = t := by
  obtain ⟨i, hi, e⟩ := List.getElem_of_mem (find?_mem h)
  exact ⟨i, hi, e⟩

/-! ### The skeleton (name, super, children) determines consistency -/

/-- the tree-relevant part of a record -/
def tr (t : TypeRec) : String × Option String × List String := (t.name, t.super, t.children)

theorem tr_eq_iff (t t' : TypeRec) :
    tr t = tr t' ↔ t.name = t'.name ∧ t.super = t'.super ∧ t.children = t'.children := by
  simp [tr]

def skel (ts : TypeSystem) : List (String × Option String × List String) := ts.types.map tr

theorem names_of_skel (ts : TypeSystem) : ts.types.map (·.name) = (skel ts).map (·.1) := by
  simp [skel, tr, List.map_map, Function.comp_def]

theorem find?_skel (ts : TypeSystem) (a : String) :
    (find? ts a).map tr = (skel ts).find? (fun x => x.1 == a) := by
  unfold find? skel
  rw [List.find?_map]
  rfl

theorem find?_transfer {ts ts' : TypeSystem} (h : skel ts' = skel ts) {a : String} {t' : TypeRec}
    (hf : find? ts' a = some t') : ∃ t, find? ts a = some t ∧ tr t = tr t' := by
  have := find?_skel ts' a
  rw [h, ← find?_skel ts a, hf] at this
  cases hfa : find? ts a with
  | none => rw [hfa] at this; simp at this
  | some t =>
    rw [hfa] at this
    simp only [Option.map_some, Option.some.injEq] at this
    exact ⟨t, rfl, this.symm⟩

theorem hasExact_transfer {ts ts' : TypeSystem} (h : skel ts' = skel ts) (a : String) :
    hasExact ts' a = hasExact ts a := by
  have h1 := find?_skel ts' a
  rw [h, ← find?_skel ts a] at h1
  unfold hasExact
  have := congrArg Option.isSome h1
  simpa using this

theorem consistent_of_skel {ts ts' : TypeSystem} (h : skel ts' = skel ts) (hc : Consistent ts) :
    Consistent ts' := by
  have hlen : ts'.types.length = ts.types.length := by
    have := congrArg List.length h; simpa [skel] using this
  have hget : ∀ i (h1 : i < ts'.types.length) (h2 : i < ts.types.length),
      tr ts'.types[i] = tr ts.types[i] := by
    intro i h1 h2
    have : (skel ts')[i]? = (skel ts)[i]? := by rw [h]
    simpa [skel, h1, h2] using this
  have hmem : ∀ t' ∈ ts'.types, ∃ t ∈ ts.types, tr t = tr t' := by
    intro t' ht'
    have : tr t' ∈ skel ts' := List.mem_map.mpr ⟨t', ht', rfl⟩
    rw [h] at this
    exact List.mem_map.mp this
  refine ⟨?_, ?_, ?_, ?_, ?_, ?_, ?_⟩
  · rw [names_of_skel, h, ← names_of_skel]; exact hc.nodup
  · obtain ⟨t, ht, hs⟩ := hc.topRoot
    obtain ⟨t', ht', he⟩ := find?_transfer h.symm ht
    rw [tr_eq_iff] at he
    exact ⟨t', ht', by rw [he.2.1]; exact hs⟩
  · intro t' ht' hs
    obtain ⟨t, ht, he⟩ := hmem t' ht'
    rw [tr_eq_iff] at he
    rw [← he.1]; exact hc.onlyRoot t ht (by rw [he.2.1]; exact hs)
  · intro t' ht' s hs
    obtain ⟨t, ht, he⟩ := hmem t' ht'
    rw [tr_eq_iff] at he
    rw [hasExact_transfer h]
    exact hc.superReg t ht s (by rw [he.2.1]; exact hs)
  · intro a b
    constructor
    · rintro ⟨ta', hta', hb⟩
      obtain ⟨ta, hta, he⟩ := find?_transfer h hta'
      rw [tr_eq_iff] at he
      obtain ⟨tb, htb, hsb⟩ := (hc.link a b).mp ⟨ta, hta, by rw [he.2.2]; exact hb⟩
      obtain ⟨tb', htb', he'⟩ := find?_transfer h.symm htb
      rw [tr_eq_iff] at he'
      exact ⟨tb', htb', by rw [he'.2.1]; exact hsb⟩
    · rintro ⟨tb', htb', hsb⟩
      obtain ⟨tb, htb, he⟩ := find?_transfer h htb'
      rw [tr_eq_iff] at he
      obtain ⟨ta, hta, hm⟩ := (hc.link a b).mpr ⟨tb, htb, by rw [he.2.1]; exact hsb⟩
      obtain ⟨ta', hta', he'⟩ := find?_transfer h.symm hta
      rw [tr_eq_iff] at he'
      exact ⟨ta', hta', by rw [he'.2.2]; exact hm⟩
  · intro t' ht'
    obtain ⟨t, ht, he⟩ := hmem t' ht'
    rw [tr_eq_iff] at he
    rw [← he.2.2]; exact hc.childNodup t ht
  · intro i hi s hs
    have hi2 : i < ts.types.length := by omega
    have he := hget i hi hi2
    rw [tr_eq_iff] at he
    obtain ⟨j, hj, hjl, hname⟩ := hc.topo i hi2 s (by rw [← he.2.1]; exact hs)
    have hjl' : j < ts'.types.length := by omega
    refine ⟨j, hj, hjl', ?_⟩
    have he' := hget j hjl' hjl
    rw [tr_eq_iff] at he'
    rw [he'.1]; exact hname

theorem nodup_of_skel {ts ts' : TypeSystem} (h : skel ts' = skel ts)
    (hn : (ts.types.map (·.name)).Nodup) : (ts'.types.map (·.name)).Nodup := by
  rw [names_of_skel, h, ← names_of_skel]; exact hn

theorem skel_setRec (ts : TypeSystem) (r t : TypeRec) (hn : (ts.types.map (·.name)).Nodup)
    (hf : find? ts r.name = some t) (hr : tr r = tr t) : skel (setRec ts r) = skel ts := by
  unfold skel setRec
  simp only [List.map_map]
  apply List.map_congr_left
  intro x hx
  simp only [Function.comp]
  split
  · rename_i hxn
    have : x = t := name_inj_of_nodup _ hn x hx t (find?_mem hf)
      (by rw [find?_name hf]; simpa using hxn)
    rw [this, hr]
  · rfl

theorem skel_pushInherited (f : Feature) (fuel : Nat) (ts : TypeSystem) (cs : List String) :
    ∀ ts', (ts.types.map (·.name)).Nodup → pushInherited f fuel ts cs = .ok ts' →
      skel ts' = skel ts := by
  fun_induction pushInherited f fuel ts cs with
  | case1 => intro ts' _ h; cases h
  | case2 => intro ts' _ h; cases h; rfl
  | case3 _ _ _ _ _ ih => exact ih
  | case4 => intro ts' _ h; cases h
  | case5 _ _ _ _ _ _ _ ih => exact ih
  | case6 fuel ts c cs t hf hchk ts1 ih2 ih1 =>
    intro ts' hn h
    have h1 : skel ts1 = skel ts := by
      apply skel_setRec ts _ t hn
      · show find? ts t.name = some t
        rw [find?_name hf]; exact hf
      · rfl
    cases h2 : pushInherited f fuel ts1 t.children with
    | error e => rw [h2] at h; cases h
    | ok ts2 =>
      rw [h2] at h
      have h3 : skel ts2 = skel ts1 := ih2 ts2 (nodup_of_skel h1 hn) h2
      have h4 : skel ts' = skel ts2 := ih1 ts2 ts' (nodup_of_skel (h3.trans h1) hn) h
      exact h4.trans (h3.trans h1)

theorem skel_addFeature (ts ts' : TypeSystem) (dom : String) (f : Feature)
    (hn : (ts.types.map (·.name)).Nodup) (h : addFeature ts dom f = .ok ts') :
    skel ts' = skel ts := by
  unfold addFeature at h
  split at h
  · cases h
  · rename_i t hf
    split at h
    · cases h
    · cases h; rfl
    · split at h
      · cases h
      · have h1 : skel (setRec ts { t with own := t.own ++ [f] }) = skel ts := by
          apply skel_setRec ts _ t hn
          · show find? ts t.name = some t
            rw [find?_name hf]; exact hf
          · rfl
        exact (skel_pushInherited f _ _ _ ts' (nodup_of_skel h1 hn) h).trans h1

theorem createFeature_ok (ts ts' : TypeSystem) (dom name range : String) (elem descr : Option String)
    (multi : Option Bool) (h : createFeature ts dom name range elem descr multi = .ok ts') :
    ∃ d f, addFeature ts d f = .ok ts' := by
  unfold createFeature at h
  simp only [bind, Except.bind] at h
  cases hd : getType ts dom with
  | error e => rw [hd] at h; cases h
  | ok d =>
    rw [hd] at h; simp only at h
    cases hr : getType ts range with
    | error e => rw [hr] at h; cases h
    | ok r =>
      rw [hr] at h; simp only at h
      cases elem with
      | none => simp only [pure, Except.pure] at h; exact ⟨_, _, h⟩
      | some en =>
        simp only at h
        cases he : getType ts en with
        | error e => rw [he] at h; cases h
        | ok e => rw [he] at h; simp only [pure, Except.pure] at h; exact ⟨_, _, h⟩

theorem consistent_addFeature_aux (ts ts' : TypeSystem) (dom : String) (f : Feature)
    (hc : Consistent ts) (h : addFeature ts dom f = .ok ts') : Consistent ts' :=
  consistent_of_skel (skel_addFeature ts ts' dom f hc.nodup h) hc

theorem consistent_createFeature_aux (ts ts' : TypeSystem) (dom name range : String)
    (elem descr : Option String) (multi : Option Bool) (hc : Consistent ts)
    (h : createFeature ts dom name range elem descr multi = .ok ts') : Consistent ts' := by
  obtain ⟨d, f, h'⟩ := createFeature_ok ts ts' dom name range elem descr multi h
  exact consistent_addFeature_aux ts ts' d f hc h'

/-! ### `createType` -/

theorem inheritAll_tr : ∀ (fs : List Feature) (t t' : TypeRec), inheritAll fs t = .ok t' → tr t' = tr t := by
  intro fs
  induction fs with
  | nil => intro t t' h; unfold inheritAll at h; cases h; rfl
  | cons f fs ih =>
    intro t t' h
    unfold inheritAll at h
    split at h
    · cases h
    · first | exact ih t t' h | (have := ih _ t' h; exact this)
    · first | exact ih t t' h | (have := ih _ t' h; exact this)

theorem getType_mem {ts : TypeSystem} {s : String} {sup : TypeRec} (h : getType ts s = .ok sup) :
    sup ∈ ts.types := by
  unfold getType at h
  split at h
  · rename_i t hf; cases h; exact find?_mem hf
  · split at h
    · cases h
    · split at h
      · rename_i t hflt
        cases h
        have : sup ∈ ts.types.filter (fun t => shortName t.name == s) := by rw [hflt]; simp
        exact (List.mem_filter.mp this).1
      · cases h

theorem createType_ok (K : Consts) (ts ts' : TypeSystem) (n s : String) (d : Option String)
    (h : createType K ts n s d = .ok ts') :
    ∃ sup new1, getType ts s = .ok sup ∧
      inheritAll (allFeatures sup) { name := n, super := some sup.name, descr := d } = .ok new1 ∧
      ts' = putRec (setRec ts (if sup.children.contains n then sup
                                else { sup with children := sup.children ++ [n] })) new1 := by
  unfold createType at h
  simp only [bind, Except.bind, throw, throwThe, MonadExceptOf.throw, pure, Except.pure] at h
  split at h
  · cases h
  · split at h
    · cases h
    · split at h
      · cases h
      · rename_i sup hsup
        split at h
        · cases h
        · split at h
          · cases h
          · rename_i new1 hnew
            cases h
            exact ⟨sup, new1, hsup, hnew, rfl⟩

/-- register `n` among the children of the type named `sup` -/
def upd (sup n : String) (t : TypeRec) : TypeRec :=
  if t.name == sup then { t with children := t.children ++ [n] } else t

@[simp] theorem upd_name (sup n : String) (t : TypeRec) : (upd sup n t).name = t.name := by
  unfold upd; split <;> rfl
@[simp] theorem upd_super (sup n : String) (t : TypeRec) : (upd sup n t).super = t.super := by
  unfold upd; split <;> rfl

theorem find_map_upd (ts : TypeSystem) (red : List String) (sup n x : String) :
    find? { types := ts.types.map (upd sup n), redeclared := red } x = (find? ts x).map (upd sup n) := by
  unfold find?
  simp only
  induction ts.types with
  | nil => simp
  | cons t l ih =>
    simp only [List.map_cons, List.find?_cons, upd_name]
    split
    · simp
    · exact ih

theorem find_append_new (l : List TypeRec) (red : List String) (new : TypeRec) (x : String) :
    find? { types := l ++ [new], redeclared := red } x =
      match find? { types := l, redeclared := red } x with
      | some t => some t
      | none => if new.name == x then some new else none := by
  simp only [find?, List.find?_append]
  cases h : List.find? (fun t => t.name == x) l
  · by_cases hx : new.name = x <;> simp [hx]
  · simp

/-- `find?` in the extended type system -/
theorem find_create (ts : TypeSystem) (red : List String) (n sup : String) (new : TypeRec)
    (hnew : new.name = n) (hn : hasExact ts n = false) (x : String) :
    find? { types := ts.types.map (upd sup n) ++ [new], redeclared := red } x =
      if x = n then some new else (find? ts x).map (upd sup n) := by
  rw [find_append_new, find_map_upd]
  by_cases hx : x = n
  · subst hx
    simp [find?_none_of_not_has hn, hnew]
  · simp only [hx, if_false]
    cases hf : find? ts x with
    | none =>
      have : (new.name == x) = false := by rw [hnew]; simpa using fun h => hx h.symm
      simp [this]
    | some t => simp

theorem consistent_extend (ts : TypeSystem) (red : List String) (n sup : String) (new : TypeRec)
    (hc : Consistent ts) (hn : hasExact ts n = false) (hs : hasExact ts sup = true)
    (hnew : new.name = n) (hsuper : new.super = some sup) (hch : new.children = []) :
    Consistent { types := ts.types.map (upd sup n) ++ [new], redeclared := red } := by
  have hnmem : n ∉ ts.types.map (·.name) := by
    intro hm; have := (hasExact_iff_mem ts n).mpr hm; simp [hn] at this
  have hne : n ≠ sup := by
    intro e; subst e; simp [hn] at hs
  have hnames : (ts.types.map (upd sup n)).map (·.name) = ts.types.map (·.name) := by
    simp [List.map_map, Function.comp_def]
  have hfind := find_create ts red n sup new hnew hn
  have hnone : ∀ {x t}, find? ts x = some t → x ≠ n := by
    intro x t h e; subst e; simp [find?_none_of_not_has hn] at h
  refine ⟨?_, ?_, ?_, ?_, ?_, ?_, ?_⟩
  · -- names stay unique
    simp only [List.map_append, hnames, List.map_cons, List.map_nil]
    exact List.nodup_append.mpr ⟨hc.nodup, by simp, by
      intro a ha b hb; simp at hb; subst hb; intro e; subst e; rw [hnew] at ha; exact hnmem ha⟩
  · -- TOP stays the root
    obtain ⟨t, ht, hts⟩ := hc.topRoot
    refine ⟨upd sup n t, ?_, by simpa using hts⟩
    rw [hfind, if_neg (hnone ht), ht]; rfl
  · -- no other root
    intro t ht hts
    rcases List.mem_append.mp ht with h | h
    · obtain ⟨t0, ht0, rfl⟩ := List.mem_map.mp h
      simpa using hc.onlyRoot t0 ht0 (by simpa using hts)
    · simp at h; subst h; rw [hsuper] at hts; cases hts
  · -- supertypes are registered
    intro t ht s hts
    have hreg : ∀ s, hasExact ts s = true →
        hasExact { types := ts.types.map (upd sup n) ++ [new], redeclared := red } s = true := by
      intro s h
      rw [hasExact_iff_mem] at h ⊢
      simp only [List.map_append, hnames]
      exact List.mem_append_left _ h
    rcases List.mem_append.mp ht with h | h
    · obtain ⟨t0, ht0, rfl⟩ := List.mem_map.mp h
      exact hreg s (hc.superReg t0 ht0 s (by simpa using hts))
    · simp at h; subst h; rw [hsuper] at hts; cases hts; exact hreg _ hs
  · -- child link
    intro a b
    rw [hfind a, hfind b]
    constructor
    · rintro ⟨ta, hta, hb⟩
      by_cases han : a = n
      · simp [han] at hta; subst hta; simp [hch] at hb
      · simp only [han, if_false] at hta
        cases hfa : find? ts a with
        | none => simp [hfa] at hta
        | some t0 =>
          simp [hfa] at hta; subst hta
          have old : b ∈ t0.children → ∃ tb, (if b = n then some new else (find? ts b).map (upd sup n)) = some tb ∧
              tb.super = some a := by
            intro hb
            obtain ⟨tb, htb, hsb⟩ := (hc.link a b).mp ⟨t0, hfa, hb⟩
            exact ⟨upd sup n tb, by simp [hnone htb, htb], by simpa using hsb⟩
          unfold upd at hb
          split at hb
          · rename_i hsup
            have hasup : a = sup := by
              have := find?_name hfa
              simp at hsup; rw [← this, hsup]
            simp at hb
            rcases hb with hb | hb
            · exact old hb
            · subst hb; exact ⟨new, by simp, by rw [hsuper, hasup]⟩
          · exact old hb
    · rintro ⟨tb, htb, hsb⟩
      by_cases hbn : b = n
      · subst hbn
        simp at htb; subst htb; rw [hsuper] at hsb; cases hsb
        obtain ⟨t, ht⟩ := (hasExact_iff_find ts sup).mp hs
        have htn : t.name = sup := find?_name ht
        refine ⟨upd sup b t, by simp [Ne.symm hne, ht], ?_⟩
        simp [upd, htn]
      · simp only [hbn, if_false] at htb
        cases hfb : find? ts b with
        | none => simp [hfb] at htb
        | some t0 =>
          simp [hfb] at htb; subst htb
          simp at hsb
          obtain ⟨ta, hta, hmem⟩ := (hc.link a b).mpr ⟨t0, hfb, hsb⟩
          refine ⟨upd sup n ta, by simp [hnone hta, hta], ?_⟩
          unfold upd; split <;> simp [hmem]
  · -- children lists stay duplicate free
    intro t ht
    rcases List.mem_append.mp ht with h | h
    · obtain ⟨t0, ht0, rfl⟩ := List.mem_map.mp h
      unfold upd
      split
      · simp only
        refine List.nodup_append.mpr ⟨hc.childNodup t0 ht0, by simp, ?_⟩
        intro a ha b hb e
        simp at hb; subst hb; subst e
        obtain ⟨tb, htb, _⟩ := (hc.link t0.name a).mp ⟨t0, find?_of_mem hc.nodup ht0, ha⟩
        exact hnone htb rfl
      · exact hc.childNodup t0 ht0
    · simp at h; subst h; rw [hch]; exact List.nodup_nil
  · -- parents precede children
    intro i hi s hsuper'
    simp only [List.length_append, List.length_map, List.length_cons, List.length_nil] at hi
    by_cases hlt : i < ts.types.length
    · have hget : (ts.types.map (upd sup n) ++ [new])[i]'(by simp; omega) = upd sup n ts.types[i] := by
        simp [List.getElem_append_left, hlt]
      simp only at hsuper'
      rw [hget] at hsuper'; simp at hsuper'
      obtain ⟨j, hj, hjl, hname⟩ := hc.topo i hlt s hsuper'
      refine ⟨j, hj, by simp; omega, ?_⟩
      simp [List.getElem_append_left, hjl, hname]
    · have hi' : i = ts.types.length := by omega
      subst hi'
      simp at hsuper'; rw [hsuper] at hsuper'; cases hsuper'
      have := (hasExact_iff_mem ts sup).mp hs
      obtain ⟨j, hj, hjn⟩ := List.getElem_of_mem this
      simp at hj
      refine ⟨j, hj, by simp; omega, ?_⟩
      simp [List.getElem_append_left, hj]
      simpa using hjn

theorem consistent_createType_aux (K : Consts) (ts ts' : TypeSystem) (n s : String) (d : Option String)
    (hc : Consistent ts) (hnew : hasExact ts n = false)
    (h : createType K ts n s d = .ok ts') : Consistent ts' := by
  obtain ⟨sup, new1, hsup, hinh, rfl⟩ := createType_ok K ts ts' n s d h
  have hsm : sup ∈ ts.types := getType_mem hsup
  have hfs : find? ts sup.name = some sup := find?_of_mem hc.nodup hsm
  have hnc : sup.children.contains n = false := by
    cases hcn : sup.children.contains n with
    | false => rfl
    | true =>
      have hm : n ∈ sup.children := by simpa using hcn
      obtain ⟨tb, htb, _⟩ := (hc.link sup.name n).mp ⟨sup, hfs, hm⟩
      rw [find?_none_of_not_has hnew] at htb; cases htb
  have htr := inheritAll_tr _ _ _ hinh
  rw [tr_eq_iff] at htr
  simp only at htr
  obtain ⟨hn1, hs1, hc1⟩ := htr
  simp only [hnc, Bool.false_eq_true, if_false]
  have hset : setRec ts { sup with children := sup.children ++ [n] } =
      { types := ts.types.map (upd sup.name n), redeclared := ts.redeclared } := by
    unfold setRec
    congr 1
    apply List.map_congr_left
    intro x hx
    unfold upd
    simp only
    split
    · rename_i hxn
      have : x = sup := name_inj_of_nodup _ hc.nodup x hx sup hsm (by simpa using hxn)
      rw [this]
    · rfl
  rw [hset]
  have hnot : hasExact { types := ts.types.map (upd sup.name n), redeclared := ts.redeclared } new1.name = false := by
    rw [hn1]
    cases hx : hasExact { types := ts.types.map (upd sup.name n), redeclared := ts.redeclared } n with
    | false => rfl
    | true =>
      rw [hasExact_iff_mem] at hx
      simp only [List.map_map, Function.comp_def, upd_name] at hx
      rw [← hasExact_iff_mem, hnew] at hx; cases hx
  unfold putRec
  rw [hnot]
  simp only [Bool.false_eq_true, if_false]
  exact consistent_extend ts ts.redeclared n sup.name new1 hc hnew
    ((hasExact_iff_find ts sup.name).mpr ⟨sup, hfs⟩) hn1 hs1 hc1

/-! ### The ancestor relation -/

theorem Anc.right_reg {ts : TypeSystem} {a b : String} (h : Anc ts a b) : hasExact ts b = true := by
  cases h with
  | refl h => exact h
  | step => rename_i s tb _ _ hf; exact (hasExact_iff_find ts b).mpr ⟨tb, hf⟩

theorem Anc.left_reg {ts : TypeSystem} {a b : String} (h : Anc ts a b) : hasExact ts a = true := by
  induction h with
  | refl h => exact h
  | step _ _ _ _ _ _ ih => exact ih

theorem Anc.trans {ts : TypeSystem} {a b c : String} (h1 : Anc ts a b) (h2 : Anc ts b c) : Anc ts a c := by
  induction h2 with
  | refl _ => exact h1
  | step c s tc hf hs _ ih => exact Anc.step a c s tc hf hs ih

/-- inversion: an ancestor of `b` is `b` itself or an ancestor of the supertype of `b` -/
theorem Anc.inv {ts : TypeSystem} {a b : String} {tb : TypeRec} (h : Anc ts a b)
    (hf : find? ts b = some tb) : a = b ∨ ∃ s, tb.super = some s ∧ Anc ts a s := by
  cases h with
  | refl _ => exact Or.inl rfl
  | step =>
    rename_i s tb' hs h' hf'
    rw [hf] at hf'; cases hf'
    exact Or.inr ⟨s, hs, h'⟩

/-- ancestors come first in registration order -/
theorem Anc.idx_le {ts : TypeSystem} (hc : Consistent ts) {a b : String} (h : Anc ts a b) :
    ∀ i j (hi : i < ts.types.length) (hj : j < ts.types.length),
      (ts.types[i]).name = a → (ts.types[j]).name = b → i ≤ j := by
  induction h with
  | refl _ =>
    intro i j hi hj h1 h2
    exact Nat.le_of_eq (idx_unique hc.nodup hi hj (h1.trans h2.symm))
  | step b s tb hf hs _ ih =>
    intro i j hi hj h1 h2
    have hj' : find? ts b = some ts.types[j] := by rw [← h2]; exact find?_getElem hc.nodup j hj
    rw [hf] at hj'; cases hj'
    obtain ⟨k, hk, hkl, hkn⟩ := hc.topo j hj s hs
    have := ih i k hi hkl h1 hkn
    omega

/-- every registered type is below TOP -/
theorem anc_top {ts : TypeSystem} (hc : Consistent ts) :
    ∀ m i (hi : i < ts.types.length), i ≤ m → Anc ts TOP (ts.types[i]).name := by
  intro m
  induction m with
  | zero =>
    intro i hi him
    have hf := find?_getElem hc.nodup i hi
    cases hs : (ts.types[i]).super with
    | none =>
      rw [hc.onlyRoot _ (List.getElem_mem hi) hs]
      obtain ⟨t, ht, _⟩ := hc.topRoot
      exact Anc.refl TOP ((hasExact_iff_find ts TOP).mpr ⟨t, ht⟩)
    | some s =>
      obtain ⟨j, hj, _⟩ := hc.topo i hi s hs
      omega
  | succ m ih =>
    intro i hi him
    have hf := find?_getElem hc.nodup i hi
    cases hs : (ts.types[i]).super with
    | none =>
      rw [hc.onlyRoot _ (List.getElem_mem hi) hs]
      obtain ⟨t, ht, _⟩ := hc.topRoot
      exact Anc.refl TOP ((hasExact_iff_find ts TOP).mpr ⟨t, ht⟩)
    | some s =>
      obtain ⟨j, hj, hjl, hjn⟩ := hc.topo i hi s hs
      have := ih j hjl (by omega)
      rw [hjn] at this
      exact Anc.step TOP _ s _ hf hs this

theorem anc_top_of_reg {ts : TypeSystem} (hc : Consistent ts) {b : String} (hb : hasExact ts b = true) :
    Anc ts TOP b := by
  obtain ⟨t, ht⟩ := (hasExact_iff_find ts b).mp hb
  obtain ⟨i, hi, e⟩ := find?_idx ht
  have := anc_top hc i i hi (Nat.le_refl i)
  rw [e, find?_name ht] at this
  exact this

/-! ### `subsumes`, `isInstanceOf` -/

theorem superOf_getElem {ts : TypeSystem} (hc : Consistent ts) (i : Nat) (hi : i < ts.types.length) :
    superOf ts (ts.types[i]).name = (ts.types[i]).super := by
  unfold superOf; rw [find?_getElem hc.nodup i hi]; rfl

theorem subsumesAux_none (ts : TypeSystem) (a : String) (f : Nat) : subsumesAux ts a f none = false := by
  cases f <;> rfl

theorem isInstanceOfAux_none (ts : TypeSystem) (a : String) (f : Nat) : isInstanceOfAux ts a f none = false := by
  cases f <;> rfl

/-- with the supertype of a registered type known, `Anc` unfolds one step -/
theorem anc_step_iff {ts : TypeSystem} {a b s : String} {tb : TypeRec} (hf : find? ts b = some tb)
    (hs : tb.super = some s) (hab : a ≠ b) : Anc ts a b ↔ Anc ts a s := by
  constructor
  · intro h
    rcases h.inv hf with e | ⟨s', hs', h'⟩
    · exact absurd e hab
    · rw [hs] at hs'; cases hs'; exact h'
  · intro h; exact Anc.step a b s tb hf hs h

theorem anc_root_iff {ts : TypeSystem} {a b : String} {tb : TypeRec} (hf : find? ts b = some tb)
    (hs : tb.super = none) (hab : a ≠ b) : ¬ Anc ts a b := by
  intro h
  rcases h.inv hf with e | ⟨s', hs', _⟩
  · exact hab e
  · rw [hs] at hs'; cases hs'

theorem subsumesAux_spec {ts : TypeSystem} (hc : Consistent ts) (a : String) :
    ∀ i (hi : i < ts.types.length) fuel, i + 1 ≤ fuel →
      (subsumesAux ts a fuel (some (ts.types[i]).name) = true ↔ Anc ts a (ts.types[i]).name) := by
  intro i
  induction i using Nat.strongRecOn with
  | ind i ih =>
    intro hi fuel hfuel
    obtain ⟨f, rfl⟩ : ∃ f, fuel = f + 1 := ⟨fuel - 1, by omega⟩
    have hf := find?_getElem hc.nodup i hi
    have hreg : hasExact ts (ts.types[i]).name = true := (hasExact_iff_find _ _).mpr ⟨_, hf⟩
    simp only [subsumesAux]
    by_cases hab : a = (ts.types[i]).name
    · have : (a == (ts.types[i]).name) = true := by simpa using hab
      simp only [this, if_true, true_iff]
      rw [← hab] at hreg ⊢; exact Anc.refl a hreg
    · have : (a == (ts.types[i]).name) = false := by simpa using hab
      simp only [this, Bool.false_eq_true, if_false]
      rw [superOf_getElem hc i hi]
      cases hs : (ts.types[i]).super with
      | none =>
        rw [subsumesAux_none]
        simp only [Bool.false_eq_true, false_iff]
        exact anc_root_iff hf hs hab
      | some s =>
        obtain ⟨j, hj, hjl, hjn⟩ := hc.topo i hi s hs
        have := ih j hj hjl f (by omega)
        rw [hjn] at this
        rw [this]
        exact (anc_step_iff hf hs hab).symm

theorem subsumes_iff_ancestor_aux (ts : TypeSystem) (hc : Consistent ts) (a b : String)
    (ha : hasExact ts a = true) (hb : hasExact ts b = true) : subsumes ts a b = true ↔ Anc ts a b := by
  unfold subsumes
  split
  · rename_i h
    have : a = TOP := by simpa using h
    subst this
    simp only [true_iff]
    exact anc_top_of_reg hc hb
  · obtain ⟨t, ht⟩ := (hasExact_iff_find ts b).mp hb
    obtain ⟨i, hi, e⟩ := find?_idx ht
    have := subsumesAux_spec hc a i hi (ts.types.length + 1) (by omega)
    rw [e, find?_name ht] at this
    exact this

theorem isInstanceOfAux_spec {ts : TypeSystem} (hc : Consistent ts) (a : String) :
    ∀ i (hi : i < ts.types.length) fuel, i + 1 ≤ fuel →
      (isInstanceOfAux ts a fuel (some (ts.types[i]).name) = true ↔ Anc ts a (ts.types[i]).name) := by
  intro i
  induction i using Nat.strongRecOn with
  | ind i ih =>
    intro hi fuel hfuel
    obtain ⟨f, rfl⟩ : ∃ f, fuel = f + 1 := ⟨fuel - 1, by omega⟩
    have hf := find?_getElem hc.nodup i hi
    have hreg : hasExact ts (ts.types[i]).name = true := (hasExact_iff_find _ _).mpr ⟨_, hf⟩
    simp only [isInstanceOfAux]
    by_cases hab : a = (ts.types[i]).name
    · have : ((ts.types[i]).name == a) = true := by simpa using hab.symm
      simp only [this, if_true, true_iff]
      rw [← hab] at hreg ⊢; exact Anc.refl a hreg
    · have : ((ts.types[i]).name == a) = false := by simpa using fun e => hab e.symm
      simp only [this, Bool.false_eq_true, if_false]
      by_cases htop : (ts.types[i]).name = TOP
      · have : ((ts.types[i]).name == TOP) = true := by simpa using htop
        simp only [this, if_true, Bool.false_eq_true, false_iff]
        obtain ⟨t, ht, hts⟩ := hc.topRoot
        rw [← htop, hf] at ht; cases ht
        exact anc_root_iff hf hts hab
      · have : ((ts.types[i]).name == TOP) = false := by simpa using htop
        simp only [this, Bool.false_eq_true, if_false]
        rw [superOf_getElem hc i hi]
        cases hs : (ts.types[i]).super with
        | none =>
          rw [isInstanceOfAux_none]
          simp only [Bool.false_eq_true, false_iff]
          exact anc_root_iff hf hs hab
        | some s =>
          obtain ⟨j, hj, hjl, hjn⟩ := hc.topo i hi s hs
          have := ih j hj hjl f (by omega)
          rw [hjn] at this
          rw [this]
          exact (anc_step_iff hf hs hab).symm

theorem isInstanceOf_iff_ancestor_aux (ts : TypeSystem) (hc : Consistent ts) (a b : String)
    (_ha : hasExact ts a = true) (hb : hasExact ts b = true) : isInstanceOf ts b a = true ↔ Anc ts a b := by
  unfold isInstanceOf
  obtain ⟨t, ht⟩ := (hasExact_iff_find ts b).mp hb
  obtain ⟨i, hi, e⟩ := find?_idx ht
  have := isInstanceOfAux_spec hc a i hi (ts.types.length + 1) (by omega)
  rw [e, find?_name ht] at this
  exact this

/-! ### `descendants` -/

/-- going down: below `a` is `a` or below one of the children of `a` -/
theorem Anc.down {ts : TypeSystem} {a b : String} (h : Anc ts a b) :
    a = b ∨ ∃ c tc, find? ts c = some tc ∧ tc.super = some a ∧ Anc ts c b := by
  induction h with
  | refl _ => exact Or.inl rfl
  | step b s tb hf hs h' ih =>
    right
    rcases ih with e | ⟨c, tc, hfc, hsc, hcb⟩
    · subst e
      exact ⟨b, tb, hf, hs, Anc.refl b ((hasExact_iff_find ts b).mpr ⟨tb, hf⟩)⟩
    · exact ⟨c, tc, hfc, hsc, Anc.step c b s tb hf hs hcb⟩

theorem Anc.of_child {ts : TypeSystem} {a c b : String} {tc : TypeRec} (ha : hasExact ts a = true)
    (hfc : find? ts c = some tc) (hsc : tc.super = some a) (h : Anc ts c b) : Anc ts a b :=
  (Anc.step a c a tc hfc hsc (Anc.refl a ha)).trans h

/-- ancestors of one type are linearly ordered -/
theorem Anc.linear {ts : TypeSystem} {c1 c2 x : String} (h1 : Anc ts c1 x) (h2 : Anc ts c2 x) :
    Anc ts c1 c2 ∨ Anc ts c2 c1 := by
  induction h2 with
  | refl _ => exact Or.inl h1
  | step x s tx hf hs h' ih =>
    rcases h1.inv hf with e | ⟨s', hs', h1'⟩
    · subst e; exact Or.inr (Anc.step c2 c1 s tx hf hs h')
    · rw [hs] at hs'; cases hs'; exact ih h1'

/-- a child has a larger index than its parent -/
theorem child_idx_lt {ts : TypeSystem} (hc : Consistent ts) {i k : Nat} (hi : i < ts.types.length)
    (hk : k < ts.types.length) (hs : (ts.types[k]).super = some (ts.types[i]).name) : i < k := by
  obtain ⟨j, hj, hjl, hjn⟩ := hc.topo k hk _ hs
  have := idx_unique hc.nodup hjl hi hjn
  omega

/-- two children of the same type have disjoint subtrees -/
theorem children_disjoint {ts : TypeSystem} (hc : Consistent ts) {a c1 c2 x : String} {t1 t2 : TypeRec}
    (hf1 : find? ts c1 = some t1) (hs1 : t1.super = some a)
    (hf2 : find? ts c2 = some t2) (hs2 : t2.super = some a)
    (h1 : Anc ts c1 x) (h2 : Anc ts c2 x) : c1 = c2 := by
  -- indices
  obtain ⟨k1, hk1, e1⟩ := find?_idx hf1
  obtain ⟨k2, hk2, e2⟩ := find?_idx hf2
  obtain ⟨ta, hta⟩ := (hasExact_iff_find ts a).mp (hc.superReg t1 (find?_mem hf1) a hs1)
  obtain ⟨i, hi, ei⟩ := find?_idx hta
  have hia : (ts.types[i]).name = a := by rw [ei]; exact find?_name hta
  have hn1 : (ts.types[k1]).name = c1 := by rw [e1]; exact find?_name hf1
  have hn2 : (ts.types[k2]).name = c2 := by rw [e2]; exact find?_name hf2
  have lt1 : i < k1 := child_idx_lt hc hi hk1 (by rw [e1, hia]; exact hs1)
  have lt2 : i < k2 := child_idx_lt hc hi hk2 (by rw [e2, hia]; exact hs2)
  -- a proper ancestor relation between the two children is impossible
  have key : ∀ {c c' : String} {t' : TypeRec} {k : Nat} (hk : k < ts.types.length),
      (ts.types[k]).name = c → i < k → find? ts c' = some t' → t'.super = some a →
      Anc ts c c' → c = c' := by
    intro c c' t' k hk hn lt hf' hs' h
    rcases h.inv hf' with e | ⟨s, hs, h'⟩
    · exact e
    · rw [hs'] at hs; cases hs
      have := h'.idx_le hc k i hk hi hn hia
      omega
  rcases h1.linear h2 with h | h
  · exact key hk1 hn1 lt1 hf2 hs2 h
  · exact (key hk2 hn2 lt2 hf1 hs1 h).symm

theorem descendants_spec {ts : TypeSystem} (hc : Consistent ts) :
    ∀ m i (hi : i < ts.types.length) fuel, ts.types.length - i ≤ m → m ≤ fuel →
      (∀ b, b ∈ descendants ts fuel (ts.types[i]).name ↔ Anc ts (ts.types[i]).name b) ∧
      (descendants ts fuel (ts.types[i]).name).Nodup := by
  intro m
  induction m with
  | zero => intro i hi fuel hm _; omega
  | succ m ih =>
    intro i hi fuel hm hfuel
    obtain ⟨f, rfl⟩ : ∃ f, fuel = f + 1 := ⟨fuel - 1, by omega⟩
    have hf := find?_getElem hc.nodup i hi
    have hreg : hasExact ts (ts.types[i]).name = true := (hasExact_iff_find _ _).mpr ⟨_, hf⟩
    -- facts about each child
    have hchild : ∀ c ∈ (ts.types[i]).children, ∃ k, ∃ (hk : k < ts.types.length),
        (ts.types[k]).name = c ∧ (ts.types[k]).super = some (ts.types[i]).name ∧ i < k := by
      intro c hcm
      obtain ⟨tc, hfc, hsc⟩ := (hc.link _ c).mp ⟨_, hf, hcm⟩
      obtain ⟨k, hk, e⟩ := find?_idx hfc
      subst e
      exact ⟨k, hk, find?_name hfc, hsc, child_idx_lt hc hi hk hsc⟩
    have hrec : ∀ c ∈ (ts.types[i]).children,
        (∀ b, b ∈ descendants ts f c ↔ Anc ts c b) ∧ (descendants ts f c).Nodup := by
      intro c hcm
      obtain ⟨k, hk, hkn, _, hik⟩ := hchild c hcm
      have := ih k hk f (by omega) (by omega)
      rw [hkn] at this
      exact this
    have hunf : descendants ts (f + 1) (ts.types[i]).name =
        (ts.types[i]).name :: (ts.types[i]).children.flatMap (descendants ts f) := by
      simp only [descendants, hf]
    rw [hunf]
    constructor
    · intro b
      simp only [List.mem_cons, List.mem_flatMap]
      constructor
      · rintro (e | ⟨c, hcm, hb⟩)
        · subst e; exact Anc.refl _ hreg
        · obtain ⟨k, hk, hkn, hks, _⟩ := hchild c hcm
          have hfk := find?_getElem hc.nodup k hk
          rw [hkn] at hfk
          exact Anc.of_child hreg hfk hks (((hrec c hcm).1 b).mp hb)
      · intro h
        rcases h.down with e | ⟨c, tc, hfc, hsc, hcb⟩
        · exact Or.inl e.symm
        · right
          obtain ⟨ta, hta, hm⟩ := (hc.link _ c).mpr ⟨tc, hfc, hsc⟩
          rw [hf] at hta; cases hta
          exact ⟨c, hm, ((hrec c hm).1 b).mpr hcb⟩
    · rw [List.nodup_cons]
      constructor
      · simp only [List.mem_flatMap, not_exists, not_and]
        intro c hcm hmem
        obtain ⟨k, hk, hkn, hks, hik⟩ := hchild c hcm
        have h := ((hrec c hcm).1 _).mp hmem
        have := h.idx_le hc k i hk hi hkn rfl
        omega
      · unfold List.Nodup
        rw [List.pairwise_flatMap]
        refine ⟨fun c hcm => (hrec c hcm).2, ?_⟩
        refine List.Pairwise.imp_of_mem ?_ (hc.childNodup _ (List.getElem_mem hi))
        intro c1 c2 hm1 hm2 hne x hx1 y hx2 exy
        subst exy
        obtain ⟨k1, hk1, hkn1, hks1, _⟩ := hchild c1 hm1
        obtain ⟨k2, hk2, hkn2, hks2, _⟩ := hchild c2 hm2
        have hf1 := find?_getElem hc.nodup k1 hk1
        have hf2 := find?_getElem hc.nodup k2 hk2
        rw [hkn1] at hf1; rw [hkn2] at hf2
        exact hne (children_disjoint hc hf1 hks1 hf2 hks2
          (((hrec c1 hm1).1 x).mp hx1) (((hrec c2 hm2).1 x).mp hx2))

theorem descendants_eq_closure_aux (ts : TypeSystem) (hc : Consistent ts) (a b : String)
    (ha : hasExact ts a = true) : b ∈ descendantsOf ts a ↔ Anc ts a b := by
  obtain ⟨t, ht⟩ := (hasExact_iff_find ts a).mp ha
  obtain ⟨i, hi, e⟩ := find?_idx ht
  have := (descendants_spec hc (ts.types.length + 1) i hi (ts.types.length + 1) (by omega)
    (Nat.le_refl _)).1 b
  rw [e, find?_name ht] at this
  exact this

theorem descendants_nodup_aux (ts : TypeSystem) (hc : Consistent ts) (a : String) :
    (descendantsOf ts a).Nodup := by
  cases hfa : find? ts a with
  | none =>
    unfold descendantsOf
    simp only [descendants, hfa]
    exact List.nodup_nil
  | some t =>
    obtain ⟨i, hi, e⟩ := find?_idx hfa
    have := (descendants_spec hc (ts.types.length + 1) i hi (ts.types.length + 1) (by omega)
      (Nat.le_refl _)).2
    rw [e, find?_name hfa] at this
    exact this

/-! ### Lookup -/

theorem getType_unknown_or_ambiguous_aux (ts : TypeSystem) (n : String) (h0 : find? ts n = none)
    (h1 : hasDot n = true ∨ (ts.types.filter (fun t => shortName t.name == n)).length ≠ 1) :
    getType ts n = .error .typeNotFound := by
  unfold getType
  rw [h0]
  simp only
  split
  · rfl
  · rename_i hd
    rcases h1 with h1 | h1
    · exact absurd h1 hd
    · split
      · rename_i t hflt
        rw [hflt] at h1; simp at h1
      · rfl

theorem containsType_iff_aux (ts : TypeSystem) (n : String) :
    containsType ts n = true ↔ ∃ t, getType ts n = .ok t := by
  unfold containsType
  split
  · rename_i hd
    simp only [Bool.or_false] at hd
    rw [hasExact_iff_find]
    unfold getType
    constructor
    · rintro ⟨t, ht⟩; exact ⟨t, by rw [ht]⟩
    · rintro ⟨t, ht⟩
      cases hf : find? ts n with
      | none => rw [hf] at ht; simp only [hd, if_true] at ht; cases ht
      | some t' => exact ⟨t', rfl⟩
  · cases hg : getType ts n with
    | ok t => simp
    | error e => simp

/-! ### A structurally recursive copy of `pushInherited` (the kernel cannot unfold well-founded recursion) -/

def pushList (f : Feature) (rec : TypeSystem → List String → R TypeSystem) :
    TypeSystem → List String → R TypeSystem
  | ts, [] => .ok ts
  | ts, c :: cs =>
    match find? ts c with
    | none => pushList f rec ts cs
    | some t =>
      match addCheck t f true with
      | .conflict => .error .valueError
      | .same => pushList f rec ts cs
      | .fresh =>
        match rec (setRec ts { t with inh := t.inh ++ [f] }) t.children with
        | .error e => .error e
        | .ok ts2 => pushList f rec ts2 cs

def pushS (f : Feature) : Nat → TypeSystem → List String → R TypeSystem
  | 0 => fun _ _ => .error .outOfFuel
  | fuel+1 => pushList f (pushS f fuel)

theorem pushInherited_eq_pushS (f : Feature) (fuel : Nat) (ts : TypeSystem) (cs : List String) :
    pushInherited f fuel ts cs = pushS f fuel ts cs := by
  fun_induction pushInherited f fuel ts cs with
  | case1 => rfl
  | case2 fuel ts h =>
    cases fuel with
    | zero => exact absurd rfl h
    | succ n => rfl
  | case3 fuel ts c cs hf ih =>
    rw [ih]; simp only [pushS, pushList, hf]
  | case4 fuel ts c cs t hf hchk =>
    simp only [pushS, pushList, hf, hchk]
  | case5 fuel ts c cs t hf hchk ih =>
    rw [ih]; simp only [pushS, pushList, hf, hchk]
  | case6 fuel ts c cs t hf hchk ts1 ih2 ih1 =>
    simp only [pushS, pushList, hf, hchk]
    rw [ih2]
    cases h2 : pushS f fuel ts1 t.children with
    | error e => rfl
    | ok ts2 =>
      simp only [bind, Except.bind]
      rw [ih1]; rfl

def addFeatureS (ts : TypeSystem) (domain : String) (f : Feature) : R TypeSystem :=
  match find? ts domain with
  | none => .error .typeNotFound
  | some t =>
    match addCheck t f false with
    | .conflict => .error .valueError
    | .same => .ok ts
    | .fresh =>
      if descendantConflict ts domain f then .error .valueError
      else
        let ts1 := setRec ts { t with own := t.own ++ [f] }
        pushS f (ts.types.length + 1) ts1 t.children

theorem addFeature_eq_S (ts : TypeSystem) (domain : String) (f : Feature) :
    addFeature ts domain f = addFeatureS ts domain f := by
  unfold addFeature addFeatureS
  simp only [pushInherited_eq_pushS]
  rfl

def createFeatureS (ts : TypeSystem) (domain name range : String) (elem : Option String := none)
    (descr : Option String := none) (multi : Option Bool := none) : R TypeSystem := do
  let reserved := name == "self" || name == "type"
  let name' := if reserved then name ++ "_" else name
  let d ← getType ts domain
  let r ← getType ts range
  let e ← match elem with
    | none => pure none
    | some en => do let t ← getType ts en; pure (some t.name)
  addFeatureS ts d.name
    { name := name', domain := d.name, range := r.name, elem := e, descr := descr, multi := multi,
      reserved := reserved }

theorem createFeature_eq_S (ts : TypeSystem) (domain name range : String) (elem descr : Option String)
    (multi : Option Bool) :
    createFeature ts domain name range elem descr multi = createFeatureS ts domain name range elem descr multi := by
  unfold createFeature createFeatureS
  simp only [addFeature_eq_S]
  rfl

end Cassis.TS

namespace Cassis.Gen
open Cassis.TS

def replayStepS (K : Consts) (ts : Option TypeSystem) (s : Step) : Option TypeSystem :=
  match ts with
  | none => none
  | some ts =>
    match s with
    | .ty n sup => (createType K ts n sup none).toOption
    | .ft dom n r e m => (createFeatureS ts dom n r e none m).toOption

theorem replayStep_eq_S (K : Consts) : replayStep K = replayStepS K := by
  funext ts s
  unfold replayStep replayStepS
  simp only [createFeature_eq_S]
  rfl

def replayS (K : Consts) (script : List Step) : Option TypeSystem :=
  script.foldl (replayStepS K) (some initTS)

theorem replay_eq_S (K : Consts) (script : List Step) : replay K script = replayS K script := by
  unfold replay replayS
  rw [replayStep_eq_S]

end Cassis.Gen

namespace Cassis.TS

theorem builtins_replay_aux : Gen.replay Gen.consts Gen.builtinScript = some Gen.builtinTS := by
  rw [Gen.replay_eq_S]
  decide +kernel

/-! ### A Boolean checker for `Consistent` on concrete tables -/


theorem nodupB_sound : ∀ l, nodupB l = true → l.Nodup := by
  intro l
  induction l with
  | nil => intro _; exact List.nodup_nil
  | cons a l ih =>
    intro h
    simp only [nodupB, Bool.and_eq_true, Bool.not_eq_true', List.contains_eq_mem,
      decide_eq_false_iff_not] at h
    exact List.nodup_cons.mpr ⟨h.1, ih h.2⟩



theorem consistentB_sound (ts : TypeSystem) (h : consistentB ts = true) : Consistent ts := by
  simp only [consistentB, Bool.and_eq_true] at h
  obtain ⟨⟨⟨⟨⟨⟨⟨h1, h2⟩, h3⟩, h4⟩, h5⟩, h6⟩, h7⟩, h8⟩ := h
  rw [List.all_eq_true] at h3 h4 h5 h6 h7 h8
  refine ⟨nodupB_sound _ h1, ?_, ?_, ?_, ?_, ?_, ?_⟩
  · cases hf : find? ts TOP with
    | none => rw [hf] at h2; cases h2
    | some t =>
      rw [hf] at h2
      exact ⟨t, rfl, by simpa using h2⟩
  · intro t ht hs
    have := h3 t ht
    simpa [hs] using this
  · intro t ht s hs
    have := h4 t ht
    simpa [hs] using this
  · intro a b
    constructor
    · rintro ⟨ta, hta, hb⟩
      have := h5 ta (find?_mem hta)
      rw [List.all_eq_true] at this
      have := this b hb
      cases hfb : find? ts b with
      | none => rw [hfb] at this; cases this
      | some tb =>
        rw [hfb] at this
        refine ⟨tb, rfl, ?_⟩
        rw [← find?_name hta]
        simpa using this
    · rintro ⟨tb, htb, hs⟩
      have := h6 tb (find?_mem htb)
      rw [hs] at this
      simp only at this
      cases hfa : find? ts a with
      | none => rw [hfa] at this; cases this
      | some ta =>
        rw [hfa] at this
        refine ⟨ta, rfl, ?_⟩
        rw [← find?_name htb]
        simpa using this
  · intro t ht
    exact nodupB_sound _ (h7 t ht)
  · intro i hi s hs
    have := h8 i (List.mem_range.mpr hi)
    rw [List.getElem?_eq_getElem hi] at this
    simp only [hs, List.any_eq_true, beq_iff_eq] at this
    obtain ⟨x, hx, hxn⟩ := this
    obtain ⟨j, hj, e⟩ := List.mem_take_iff_getElem.mp hx
    exact ⟨j, by omega, by omega, by rw [e]; exact hxn⟩

theorem consistent_builtins_aux : Consistent Gen.builtinTS ∧ Consistent Gen.builtinTSNoDoc :=
  ⟨consistentB_sound _ (by decide +kernel), consistentB_sound _ (by decide +kernel)⟩

end Cassis.TS
