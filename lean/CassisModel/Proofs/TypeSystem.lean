/-
Helper lemmas for `Properties/C10.lean`: the tree invariant `Consistent` holds for the built-in tables,
is preserved by `createType` / `addFeature` / `createFeature`, and under it the hierarchy queries
(`descendants`, `subsumes`, `isInstanceOf`) agree with the ancestor relation `Anc`.
-/
import CassisModel.Spec.TypeSystem

namespace Cassis.TS

/-! ### `find?` basics -/

theorem find?_name {ts : TypeSystem} {n : String} {t : TypeRec} (h : find? ts n = some t) :
    t.name = n := by
  have := List.find?_some h
  simpa using this

theorem find?_mem {ts : TypeSystem} {n : String} {t : TypeRec} (h : find? ts n = some t) :
    t ∈ ts.types := List.mem_of_find?_eq_some h

theorem hasExact_iff_mem (ts : TypeSystem) (x : String) :
    hasExact ts x = true ↔ x ∈ ts.types.map (·.name) := by
  unfold hasExact find?
  rw [List.find?_isSome]
  simp

theorem hasExact_iff_find (ts : TypeSystem) (x : String) :
    hasExact ts x = true ↔ ∃ t, find? ts x = some t := by
  unfold hasExact; exact Option.isSome_iff_exists

theorem find?_none_of_not_has {ts : TypeSystem} {x : String} (h : hasExact ts x = false) :
    find? ts x = none := by
  unfold hasExact at h; simpa using h

theorem name_inj_of_nodup : ∀ (l : List TypeRec), (l.map (·.name)).Nodup →
    ∀ x ∈ l, ∀ y ∈ l, x.name = y.name → x = y := by
  intro l
  induction l with
  | nil => intro _ x hx; cases hx
  | cons a l ih =>
    intro hn x hx y hy hxy
    simp only [List.map_cons, List.nodup_cons, List.mem_map, not_exists, not_and] at hn
    rcases List.mem_cons.mp hx with rfl | hx' <;> rcases List.mem_cons.mp hy with rfl | hy'
    · rfl
    · exact absurd hxy.symm (hn.1 y hy')
    · exact absurd hxy (hn.1 x hx')
    · exact ih hn.2 x hx' y hy' hxy

theorem find?_of_mem {ts : TypeSystem} (hn : (ts.types.map (·.name)).Nodup) {t : TypeRec}
    (ht : t ∈ ts.types) : find? ts t.name = some t := by
  have : hasExact ts t.name = true := (hasExact_iff_mem ts t.name).mpr (List.mem_map.mpr ⟨t, ht, rfl⟩)
  obtain ⟨t', ht'⟩ := (hasExact_iff_find ts t.name).mp this
  rw [ht', name_inj_of_nodup _ hn t' (find?_mem ht') t ht (find?_name ht')]

theorem find?_getElem {ts : TypeSystem} (hn : (ts.types.map (·.name)).Nodup) (i : Nat)
    (h : i < ts.types.length) : find? ts (ts.types[i]).name = some ts.types[i] :=
  find?_of_mem hn (List.getElem_mem h)

theorem idx_unique {ts : TypeSystem} (hn : (ts.types.map (·.name)).Nodup) {i j : Nat}
    (hi : i < ts.types.length) (hj : j < ts.types.length)
    (h : (ts.types[i]).name = (ts.types[j]).name) : i = j := by
  have h1 : i < (ts.types.map (·.name)).length := by simpa using hi
  have h2 : j < (ts.types.map (·.name)).length := by simpa using hj
  have : (ts.types.map (·.name))[i] = (ts.types.map (·.name))[j] := by
    simpa using h
  exact (List.getElem_inj hn).mp this

theorem find?_idx {ts : TypeSystem} {n : String} {t : TypeRec} (h : find? ts n = some t) :
    ∃ i, ∃ (hi : i < ts.types.length), ts.types[i] = t := by
  obtain ⟨i, hi, e⟩ := List.getElem_of_mem (find?_mem h)
  exact ⟨i, hi, e⟩

/-! ### The skeleton (name, super, children) determines consistency -/

/-- the tree-relevant part of a record -/
def tr (t : TypeRec) : String × Option String × List String := (t.name, t.super, t.children)

theorem tr_eq_iff (t t' : TypeRec) :
    tr t = tr t' ↔ t.name = t'.name ∧ t.super = t'.super ∧ t.children = t'.children := by
  simp [tr]

def skel (ts : TypeSystem) : List (String × Option String × List String) := ts.types.map tr

theorem names_of_skel (ts : TypeSystem) : ts.types.map (·.name) = (skel ts).map (·.1) := by
  simp [skel, tr, List.map_map, Function.comp_def]

theorem find?_skel (ts : TypeSystem) (a : String) :
    (find? ts a).map tr = (skel ts).find? (fun x => x.1 == a) := by
  unfold find? skel
  rw [List.find?_map]
  rfl

theorem find?_transfer {ts ts' : TypeSystem} (h : skel ts' = skel ts) {a : String} {t' : TypeRec}
    (hf : find? ts' a = some t') : ∃ t, find? ts a = some t ∧ tr t = tr t' := by
  have := find?_skel ts' a
  rw [h, ← find?_skel ts a, hf] at this
  cases hfa : find? ts a with
  | none => rw [hfa] at this; simp at this
  | some t =>
    rw [hfa] at this
    simp only [Option.map_some, Option.some.injEq] at this
    exact ⟨t, rfl, this.symm⟩

theorem hasExact_transfer {ts ts' : TypeSystem} (h : skel ts' = skel ts) (a : String) :
    hasExact ts' a = hasExact ts a := by
  have h1 := find?_skel ts' a
  rw [h, ← find?_skel ts a] at h1
  unfold hasExact
  have := congrArg Option.isSome h1
  simpa using this

theorem consistent_of_skel {ts ts' : TypeSystem} (h : skel ts' = skel ts) (hc : Consistent ts) :
    Consistent ts' := by
  have hlen : ts'.types.length = ts.types.length := by
    have := congrArg List.length h; simpa [skel] using this
  have hget : ∀ i (h1 : i < ts'.types.length) (h2 : i < ts.types.length),
      tr ts'.types[i] = tr ts.types[i] := by
    intro i h1 h2
    have : (skel ts')[i]? = (skel ts)[i]? := by rw [h]
    simpa [skel, h1, h2] using this
  have hmem : ∀ t' ∈ ts'.types, ∃ t ∈ ts.types, tr t = tr t' := by
    intro t' ht'
    have : tr t' ∈ skel ts' := List.mem_map.mpr ⟨t', ht', rfl⟩
    rw [h] at this
    exact List.mem_map.mp this
  refine ⟨?_, ?_, ?_, ?_, ?_, ?_, ?_⟩
  · rw [names_of_skel, h, ← names_of_skel]; exact hc.nodup
  · obtain ⟨t, ht, hs⟩ := hc.topRoot
    obtain ⟨t', ht', he⟩ := find?_transfer h.symm ht
    rw [tr_eq_iff] at he
    exact ⟨t', ht', by rw [he.2.1]; exact hs⟩
  · intro t' ht' hs
    obtain ⟨t, ht, he⟩ := hmem t' ht'
    rw [tr_eq_iff] at he
    rw [← he.1]; exact hc.onlyRoot t ht (by rw [he.2.1]; exact hs)
  · intro t' ht' s hs
    obtain ⟨t, ht, he⟩ := hmem t' ht'
    rw [tr_eq_iff] at he
    rw [hasExact_transfer h]
    exact hc.superReg t ht s (by rw [he.2.1]; exact hs)
  · intro a b
    constructor
    · rintro ⟨ta', hta', hb⟩
      obtain ⟨ta, hta, he⟩ := find?_transfer h hta'
      rw [tr_eq_iff] at he
      obtain ⟨tb, htb, hsb⟩ := (hc.link a b).mp ⟨ta, hta, by rw [he.2.2]; exact hb⟩
      obtain ⟨tb', htb', he'⟩ := find?_transfer h.symm htb
      rw [tr_eq_iff] at he'
      exact ⟨tb', htb', by rw [he'.2.1]; exact hsb⟩
    · rintro ⟨tb', htb', hsb⟩
      obtain ⟨tb, htb, he⟩ := find?_transfer h htb'
      rw [tr_eq_iff] at he
      obtain ⟨ta, hta, hm⟩ := (hc.link a b).mpr ⟨tb, htb, by rw [he.2.1]; exact hsb⟩
      obtain ⟨ta', hta', he'⟩ := find?_transfer h.symm hta
      rw [tr_eq_iff] at he'
      exact ⟨ta', hta', by rw [he'.2.2]; exact hm⟩
  · intro t' ht'
    obtain ⟨t, ht, he⟩ := hmem t' ht'
    rw [tr_eq_iff] at he
    rw [← he.2.2]; exact hc.childNodup t ht
  · intro i hi s hs
    have hi2 : i < ts.types.length := by omega
    have he := hget i hi hi2
    rw [tr_eq_iff] at he
    obtain ⟨j, hj, hjl, hname⟩ := hc.topo i hi2 s (by rw [← he.2.1]; exact hs)
    have hjl' : j < ts'.types.length := by omega
    refine ⟨j, hj, hjl', ?_⟩
    have he' := hget j hjl' hjl
    rw [tr_eq_iff] at he'
    rw [he'.1]; exact hname

theorem nodup_of_skel {ts ts' : TypeSystem} (h : skel ts' = skel ts)
    (hn : (ts.types.map (·.name)).Nodup) : (ts'.types.map (·.name)).Nodup := by
  rw [names_of_skel, h, ← names_of_skel]; exact hn

theorem skel_setRec (ts : TypeSystem) (r t : TypeRec) (hn : (ts.types.map (·.name)).Nodup)
    (hf : find? ts r.name = some t) (hr : tr r = tr t) : skel (setRec ts r) = skel ts := by
  unfold skel setRec
  simp only [List.map_map]
  apply List.map_congr_left
  intro x hx
  simp only [Function.comp]
  split
  · rename_i hxn
    have : x = t := name_inj_of_nodup _ hn x hx t (find?_mem hf)
      (by rw [find?_name hf]; simpa using hxn)
    rw [this, hr]
  · rfl

theorem skel_pushInherited (f : Feature) (fuel : Nat) (ts : TypeSystem) (cs : List String) :
    ∀ ts', (ts.types.map (·.name)).Nodup → pushInherited f fuel ts cs = .ok ts' →
      skel ts' = skel ts := by
  fun_induction pushInherited f fuel ts cs with
  | case1 => intro ts' _ h; cases h
  | case2 => intro ts' _ h; cases h; rfl
  | case3 _ _ _ _ _ ih => exact ih
  | case4 => intro ts' _ h; cases h
  | case5 _ _ _ _ _ _ _ ih => exact ih
  | case6 fuel ts c cs t hf hchk ts1 ih2 ih1 =>
    intro ts' hn h
    have h1 : skel ts1 = skel ts := by
      apply skel_setRec ts _ t hn
      · show find? ts t.name = some t
        rw [find?_name hf]; exact hf
      · rfl
    cases h2 : pushInherited f fuel ts1 t.children with
    | error e => rw [h2] at h; cases h
    | ok ts2 =>
      rw [h2] at h
      have h3 : skel ts2 = skel ts1 := ih2 ts2 (nodup_of_skel h1 hn) h2
      have h4 : skel ts' = skel ts2 := ih1 ts2 ts' (nodup_of_skel (h3.trans h1) hn) h
      exact h4.trans (h3.trans h1)

theorem skel_addFeature (ts ts' : TypeSystem) (dom : String) (f : Feature)
    (hn : (ts.types.map (·.name)).Nodup) (h : addFeature ts dom f = .ok ts') :
    skel ts' = skel ts := by
  unfold addFeature at h
  split at h
  · cases h
  · rename_i t hf
    split at h
    · cases h
    · cases h; rfl
    · split at h
      · cases h
      · have h1 : skel (setRec ts { t with own := t.own ++ [f] }) = skel ts := by
          apply skel_setRec ts _ t hn
          · show find? ts t.name = some t
            rw [find?_name hf]; exact hf
          · rfl
        exact (skel_pushInherited f _ _ _ ts' (nodup_of_skel h1 hn) h).trans h1

theorem createFeature_ok (ts ts' : TypeSystem) (dom name range : String) (elem descr : Option String)
    (multi : Option Bool) (h : createFeature ts dom name range elem descr multi = .ok ts') :
    ∃ d f, addFeature ts d f = .ok ts' := by
  unfold createFeature at h
  simp only [bind, Except.bind] at h
  cases hd : getType ts dom with
  | error e => rw [hd] at h; cases h
  | ok d =>
    rw [hd] at h; simp only at h
    cases hr : getType ts range with
    | error e => rw [hr] at h; cases h
    | ok r =>
      rw [hr] at h; simp only at h
      cases elem with
      | none => simp only [pure, Except.pure] at h; exact ⟨_, _, h⟩
      | some en =>
        simp only at h
        cases he : getType ts en with
        | error e => rw [he] at h; cases h
        | ok e => rw [he] at h; simp only [pure, Except.pure] at h; exact ⟨_, _, h⟩

theorem consistent_addFeature_aux (ts ts' : TypeSystem) (dom : String) (f : Feature)
    (hc : Consistent ts) (h : addFeature ts dom f = .ok ts') : Consistent ts' :=
  consistent_of_skel (skel_addFeature ts ts' dom f hc.nodup h) hc

theorem consistent_createFeature_aux (ts ts' : TypeSystem) (dom name range : String)
    (elem descr : Option String) (multi : Option Bool) (hc : Consistent ts)
    (h : createFeature ts dom name range elem descr multi = .ok ts') : Consistent ts' := by
  obtain ⟨d, f, h'⟩ := createFeature_ok ts ts' dom name range elem descr multi h
  exact consistent_addFeature_aux ts ts' d f hc h'

/-! ### `createType` -/

theorem inheritAll_tr : ∀ (fs : List Feature) (t t' : TypeRec), inheritAll fs t = .ok t' → tr t' = tr t := by
  intro fs
  induction fs with
  | nil => intro t t' h; unfold inheritAll at h; cases h; rfl
  | cons f fs ih =>
    intro t t' h
    unfold inheritAll at h
    split at h
    · cases h
    · first | exact ih t t' h | (have := ih _ t' h; exact this)
    · first | exact ih t t' h | (have := ih _ t' h; exact this)

theorem getType_mem {ts : TypeSystem} {s : String} {sup : TypeRec} (h : getType ts s = .ok sup) :
    sup ∈ ts.types := by
  unfold getType at h
  split at h
  · rename_i t hf; cases h; exact find?_mem hf
  · split at h
    · cases h
    · split at h
      · rename_i t hflt
        cases h
        have : sup ∈ ts.types.filter (fun t => shortName t.name == s) := by rw [hflt]; simp
        exact (List.mem_filter.mp this).1
      · cases h

theorem createType_ok (K : Consts) (ts ts' : TypeSystem) (n s : String) (d : Option String)
    (h : createType K ts n s d = .ok ts') :
    ∃ sup new1, getType ts s = .ok sup ∧
      inheritAll (allFeatures sup) { name := n, super := some sup.name, descr := d } = .ok new1 ∧
      ts' = putRec (setRec ts (if sup.children.contains n then sup
                                else { sup with children := sup.children ++ [n] })) new1 := by
  unfold createType at h
  simp only [bind, Except.bind, throw, throwThe, MonadExceptOf.throw, pure, Except.pure] at h
  split at h
  · cases h
  · split at h
    · cases h
    · split at h
      · cases h
      · rename_i sup hsup
        split at h
        · cases h
        · rename_i new1 hnew
          cases h
          exact ⟨sup, new1, hsup, hnew, rfl⟩

/-- register `n` among the children of the type named `sup` -/
def upd (sup n : String) (t : TypeRec) : TypeRec :=
  if t.name == sup then { t with children := t.children ++ [n] } else t

@[simp] theorem upd_name (sup n : String) (t : TypeRec) : (upd sup n t).name = t.name := by
  unfold upd; split <;> rfl
@[simp] theorem upd_super (sup n : String) (t : TypeRec) : (upd sup n t).super = t.super := by
  unfold upd; split <;> rfl

theorem find_map_upd (ts : TypeSystem) (red : List String) (sup n x : String) :
    find? { types := ts.types.map (upd sup n), redeclared := red } x = (find? ts x).map (upd sup n) := by
  unfold find?
  simp only
  induction ts.types with
  | nil => simp
  | cons t l ih =>
    simp only [List.map_cons, List.find?_cons, upd_name]
    split
    · simp
    · exact ih

theorem find_append_new (l : List TypeRec) (red : List String) (new : TypeRec) (x : String) :
    find? { types := l ++ [new], redeclared := red } x =
      match find? { types := l, redeclared := red } x with
      | some t => some t
      | none => if new.name == x then some new else none := by
  simp only [find?, List.find?_append]
  cases h : List.find? (fun t => t.name == x) l
  · by_cases hx : new.name = x <;> simp [hx]
  · simp

/-- `find?` in the extended type system -/
theorem find_create (ts : TypeSystem) (red : List String) (n sup : String) (new : TypeRec)
    (hnew : new.name = n) (hn : hasExact ts n = false) (x : String) :
    find? { types := ts.types.map (upd sup n) ++ [new], redeclared := red } x =
      if x = n then some new else (find? ts x).map (upd sup n) := by
  rw [find_append_new, find_map_upd]
  by_cases hx : x = n
  · subst hx
    simp [find?_none_of_not_has hn, hnew]
  · simp only [hx, if_false]
    cases hf : find? ts x with
    | none =>
      have : (new.name == x) = false := by rw [hnew]; simpa using fun h => hx h.symm
      simp [this]
    | some t => simp

theorem consistent_extend (ts : TypeSystem) (red : List String) (n sup : String) (new : TypeRec)
    (hc : Consistent ts) (hn : hasExact ts n = false) (hs : hasExact ts sup = true)
    (hnew : new.name = n) (hsuper : new.super = some sup) (hch : new.children = []) :
    Consistent { types := ts.types.map (upd sup n) ++ [new], redeclared := red } := by
  have hnmem : n ∉ ts.types.map (·.name) := by
    intro hm; have := (hasExact_iff_mem ts n).mpr hm; simp [hn] at this
  have hne : n ≠ sup := by
    intro e; subst e; simp [hn] at hs
  have hnames : (ts.types.map (upd sup n)).map (·.name) = ts.types.map (·.name) := by
    simp [List.map_map, Function.comp_def]
  have hfind := find_create ts red n sup new hnew hn
  have hnone : ∀ {x t}, find? ts x = some t → x ≠ n := by
    intro x t h e; subst e; simp [find?_none_of_not_has hn] at h
  refine ⟨?_, ?_, ?_, ?_, ?_, ?_, ?_⟩
  · -- names stay unique
    simp only [List.map_append, hnames, List.map_cons, List.map_nil]
    exact List.nodup_append.mpr ⟨hc.nodup, by simp, by
      intro a ha b hb; simp at hb; subst hb; intro e; subst e; rw [hnew] at ha; exact hnmem ha⟩
  · -- TOP stays the root
    obtain ⟨t, ht, hts⟩ := hc.topRoot
    refine ⟨upd sup n t, ?_, by simpa using hts⟩
    rw [hfind, if_neg (hnone ht), ht]; rfl
  · -- no other root
    intro t ht hts
    rcases List.mem_append.mp ht with h | h
    · obtain ⟨t0, ht0, rfl⟩ := List.mem_map.mp h
      simpa using hc.onlyRoot t0 ht0 (by simpa using hts)
    · simp at h; subst h; rw [hsuper] at hts; cases hts
  · -- supertypes are registered
    intro t ht s hts
    have hreg : ∀ s, hasExact ts s = true →
        hasExact { types := ts.types.map (upd sup n) ++ [new], redeclared := red } s = true := by
      intro s h
      rw [hasExact_iff_mem] at h ⊢
      simp only [List.map_append, hnames]
      exact List.mem_append_left _ h
    rcases List.mem_append.mp ht with h | h
    · obtain ⟨t0, ht0, rfl⟩ := List.mem_map.mp h
      exact hreg s (hc.superReg t0 ht0 s (by simpa using hts))
    · simp at h; subst h; rw [hsuper] at hts; cases hts; exact hreg _ hs
  · -- child link
    intro a b
    rw [hfind a, hfind b]
    constructor
    · rintro ⟨ta, hta, hb⟩
      by_cases han : a = n
      · simp [han] at hta; subst hta; simp [hch] at hb
      · simp only [han, if_false] at hta
        cases hfa : find? ts a with
        | none => simp [hfa] at hta
        | some t0 =>
          simp [hfa] at hta; subst hta
          have old : b ∈ t0.children → ∃ tb, (if b = n then some new else (find? ts b).map (upd sup n)) = some tb ∧
              tb.super = some a := by
            intro hb
            obtain ⟨tb, htb, hsb⟩ := (hc.link a b).mp ⟨t0, hfa, hb⟩
            exact ⟨upd sup n tb, by simp [hnone htb, htb], by simpa using hsb⟩
          unfold upd at hb
          split at hb
          · rename_i hsup
            have hasup : a = sup := by
              have := find?_name hfa
              simp at hsup; rw [← this, hsup]
            simp at hb
            rcases hb with hb | hb
            · exact old hb
            · subst hb; exact ⟨new, by simp, by rw [hsuper, hasup]⟩
          · exact old hb
    · rintro ⟨tb, htb, hsb⟩
      by_cases hbn : b = n
      · subst hbn
        simp at htb; subst htb; rw [hsuper] at hsb; cases hsb
        obtain ⟨t, ht⟩ := (hasExact_iff_find ts sup).mp hs
        have htn : t.name = sup := find?_name ht
        refine ⟨upd sup b t, by simp [Ne.symm hne, ht], ?_⟩
        simp [upd, htn]
      · simp only [hbn, if_false] at htb
        cases hfb : find? ts b with
        | none => simp [hfb] at htb
        | some t0 =>
          simp [hfb] at htb; subst htb
          simp at hsb
          obtain ⟨ta, hta, hmem⟩ := (hc.link a b).mpr ⟨t0, hfb, hsb⟩
          refine ⟨upd sup n ta, by simp [hnone hta, hta], ?_⟩
          unfold upd; split <;> simp [hmem]
  · -- children lists stay duplicate free
    intro t ht
    rcases List.mem_append.mp ht with h | h
    · obtain ⟨t0, ht0, rfl⟩ := List.mem_map.mp h
      unfold upd
      split
      · simp only
        refine List.nodup_append.mpr ⟨hc.childNodup t0 ht0, by simp, ?_⟩
        intro a ha b hb e
        simp at hb; subst hb; subst e
        obtain ⟨tb, htb, _⟩ := (hc.link t0.name a).mp ⟨t0, find?_of_mem hc.nodup ht0, ha⟩
        exact hnone htb rfl
      · exact hc.childNodup t0 ht0
    · simp at h; subst h; rw [hch]; exact List.nodup_nil
  · -- parents precede children
    intro i hi s hsuper'
    simp only [List.length_append, List.length_map, List.length_cons, List.length_nil] at hi
    by_cases hlt : i < ts.types.length
    · have hget : (ts.types.map (upd sup n) ++ [new])[i]'(by simp; omega) = upd sup n ts.types[i] := by
        simp [List.getElem_append_left, hlt]
      simp only at hsuper'
      rw [hget] at hsuper'; simp at hsuper'
      obtain ⟨j, hj, hjl, hname⟩ := hc.topo i hlt s hsuper'
      refine ⟨j, hj, by simp; omega, ?_⟩
      simp [List.getElem_append_left, hjl, hname]
    · have hi' : i = ts.types.length := by omega
      subst hi'
      simp at hsuper'; rw [hsuper] at hsuper'; cases hsuper'
      have := (hasExact_iff_mem ts sup).mp hs
      obtain ⟨j, hj, hjn⟩ := List.getElem_of_mem this
      simp at hj
      refine ⟨j, hj, by simp; omega, ?_⟩
      simp [List.getElem_append_left, hj]
      simpa using hjn

theorem consistent_createType_aux (K : Consts) (ts ts' : TypeSystem) (n s : String) (d : Option String)
    (hc : Consistent ts) (hnew : hasExact ts n = false)
    (h : createType K ts n s d = .ok ts') : Consistent ts' := by
  obtain ⟨sup, new1, hsup, hinh, rfl⟩ := createType_ok K ts ts' n s d h
  have hsm : sup ∈ ts.types := getType_mem hsup
  have hfs : find? ts sup.name = some sup := find?_of_mem hc.nodup hsm
  have hnc : sup.children.contains n = false := by
    cases hcn : sup.children.contains n with
    | false => rfl
    | true =>
      have hm : n ∈ sup.children := by simpa using hcn
      obtain ⟨tb, htb, _⟩ := (hc.link sup.name n).mp ⟨sup, hfs, hm⟩
      rw [find?_none_of_not_has hnew] at htb; cases htb
  have htr := inheritAll_tr _ _ _ hinh
  rw [tr_eq_iff] at htr
  simp only at htr
  obtain ⟨hn1, hs1, hc1⟩ := htr
  simp only [hnc, Bool.false_eq_true, if_false]
  have hset : setRec ts { sup with children := sup.children ++ [n] } =
      { types := ts.types.map (upd sup.name n), redeclared := ts.redeclared } := by
    unfold setRec
    congr 1
    apply List.map_congr_left
    intro x hx
    unfold upd
    simp only
    split
    · rename_i hxn
      have : x = sup := name_inj_of_nodup _ hc.nodup x hx sup hsm (by simpa using hxn)
      rw [this]
    · rfl
  rw [hset]
  have hnot : hasExact { types := ts.types.map (upd sup.name n), redeclared := ts.redeclared } new1.name = false := by
    rw [hn1]
    cases hx : hasExact { types := ts.types.map (upd sup.name n), redeclared := ts.redeclared } n with
    | false => rfl
    | true =>
      rw [hasExact_iff_mem] at hx
      simp only [List.map_map, Function.comp_def, upd_name] at hx
      rw [← hasExact_iff_mem, hnew] at hx; cases hx
  unfold putRec
  rw [hnot]
  simp only [Bool.false_eq_true, if_false]
  exact consistent_extend ts ts.redeclared n sup.name new1 hc hnew
    ((hasExact_iff_find ts sup.name).mpr ⟨sup, hfs⟩) hn1 hs1 hc1

end Cassis.TS
