/-
Proofs for C02 (`TypeSystem.transitive_closure`, model `closureStep`).

Organisation: `Run` is the unfuelled search (ends only with an empty queue).  `run_of_fuel` shows, with the potential
`queue length + Σ cost of the registered, non-predefined, not yet visited first records`, that the fuelled model is a
complete run whenever the potential fits into the fuel; `closureFuel` does.  The closure invariant, the seeds property
and the "nothing added to a closed set" property are inductions along `Run`; the membership facts hold for any fuel.
-/
import CassisModel.Spec.Closure
namespace Cassis.TS
namespace Closure
variable (K : Consts) (ts : TypeSystem)

def pushed (vis : List String) (t : TypeRec) : List String :=
  (match t.super with
    | some s => if vis.contains s then [] else [s]
    | none => []) ++
  (allFeatures t).flatMap (fun f =>
    (if vis.contains f.range then [] else [f.range]) ++
    (match f.elem with | some e => if vis.contains e then [] else [e] | none => []))

def Ref (t : TypeRec) (x : String) : Prop :=
  t.super = some x ∨ ∃ f ∈ allFeatures t, f.range = x ∨ f.elem = some x

theorem mem_pushed {vis : List String} {t : TypeRec} {x : String} :
    x ∈ pushed vis t ↔ x ∉ vis ∧ Ref t x := by
  unfold pushed Ref
  rw [List.mem_append, List.mem_flatMap]
  constructor
  · rintro (h | ⟨f, hf, h⟩)
    · cases hs : t.super with
      | none => simp [hs] at h
      | some s =>
        simp only [hs] at h
        split at h
        · simp at h
        · simp at h; subst h; simp_all
    · rw [List.mem_append] at h
      rcases h with h | h
      · split at h
        · simp at h
        · simp at h; subst h; exact ⟨by simp_all, Or.inr ⟨f, hf, Or.inl rfl⟩⟩
      · cases he : f.elem with
        | none => simp [he] at h
        | some e =>
          simp only [he] at h
          split at h
          · simp at h
          · simp at h; subst h; exact ⟨by simp_all, Or.inr ⟨f, hf, Or.inr he⟩⟩
  · rintro ⟨hv, hs | ⟨f, hf, h | h⟩⟩
    · left; simp [hs, hv]
    · right; refine ⟨f, hf, ?_⟩; subst h; simp [hv]
    · right; refine ⟨f, hf, ?_⟩; simp [h, hv]

theorem length_pushed (vis : List String) (t : TypeRec) :
    (pushed vis t).length ≤ 1 + 2 * (allFeatures t).length := by
  unfold pushed
  rw [List.length_append]
  have h1 : (match t.super with
    | some s => if vis.contains s then [] else [s]
    | none => ([] : List String)).length ≤ 1 := by
    split
    · split <;> simp
    · simp
  have h2 : ∀ l : List Feature, (l.flatMap (fun f =>
      (if vis.contains f.range then [] else [f.range]) ++
      (match f.elem with | some e => if vis.contains e then [] else [e] | none => []))).length
        ≤ 2 * l.length := by
    intro l
    induction l with
    | nil => simp
    | cons f fs ih =>
      rw [List.flatMap_cons, List.length_append, List.length_append, List.length_cons]
      have a : (if vis.contains f.range then [] else [f.range]).length ≤ 1 := by split <;> simp
      have b : (match f.elem with | some e => if vis.contains e then [] else [e] | none => ([] : List String)).length ≤ 1 := by
        split
        · split <;> simp
        · simp
      omega
  have := h2 (allFeatures t)
  omega

def Skip (v : List String) (n : String) : Prop :=
  n ∈ v ∨ K.predefined.contains n = true ∨ find? ts n = none

theorem step_skip {v : List String} {n : String} (h : Skip K ts v n) (fuel : Nat) (rest : List String) :
    closureStep K ts v (fuel+1) (n :: rest) = closureStep K ts v fuel rest := by
  rw [closureStep]
  rcases h with h | h | h
  · simp [h]
  · rw [if_pos h]; split <;> rfl
  · rw [h]; split
    · rfl
    · split <;> rfl

theorem step_visit {v : List String} {n : String} {t : TypeRec} (h1 : n ∉ v)
    (h2 : K.predefined.contains n = false) (h3 : find? ts n = some t) (fuel : Nat) (rest : List String) :
    closureStep K ts v (fuel+1) (n :: rest) =
      closureStep K ts (v ++ [n]) fuel (rest ++ pushed (v ++ [n]) t) := by
  rw [closureStep]
  simp only [List.contains_iff_mem, h1, h2, h3, if_false, pushed, List.append_assoc]
  rfl

theorem find?_name' {n : String} {t : TypeRec} (h : find? ts n = some t) : t.name = n := by
  have := List.find?_some h
  simpa using this

theorem find?_mem' {n : String} {t : TypeRec} (h : find? ts n = some t) : t ∈ ts.types :=
  List.mem_of_find?_eq_some h

/-- the unfuelled search: `Run v q v'` = from visited `v` and queue `q` the search ends (queue empty) with `v'` -/
inductive Run : List String → List String → List String → Prop
  | done (v) : Run v [] v
  | skip {v n rest v'} : Skip K ts v n → Run v rest v' → Run v (n :: rest) v'
  | visit {v n rest t v'} : n ∉ v → K.predefined.contains n = false → find? ts n = some t →
      Run (v ++ [n]) (rest ++ pushed (v ++ [n]) t) v' → Run v (n :: rest) v'

/-! ### the potential -/

def cost (t : TypeRec) : Nat := 2 + 2 * (allFeatures t).length

def open? (v : List String) (t : TypeRec) : Bool :=
  find? ts t.name == some t && !K.predefined.contains t.name && !v.contains t.name

def pot (v : List String) : Nat := ((ts.types.filter (open? K ts v)).map cost).sum

theorem sum_filter_drop {α : Type} (c : α → Nat) (p q : α → Bool) (hqp : ∀ x, q x = true → p x = true)
    (l : List α) :
    ((l.filter q).map c).sum ≤ ((l.filter p).map c).sum ∧
    ∀ a ∈ l, p a = true → q a = false → ((l.filter q).map c).sum + c a ≤ ((l.filter p).map c).sum := by
  induction l with
  | nil => simp
  | cons x xs ih =>
    obtain ⟨ih1, ih2⟩ := ih
    have key : (((x :: xs).filter q).map c).sum ≤ (((x :: xs).filter p).map c).sum := by
      by_cases hq : q x = true
      · have hp := hqp x hq
        simp only [List.filter_cons, hq, hp, if_true, List.map_cons, List.sum_cons]; omega
      · by_cases hp : p x = true
        · simp only [List.filter_cons, hq, hp, if_true, List.map_cons, List.sum_cons]; simp; omega
        · simp only [List.filter_cons, hq, hp]; simpa using ih1
    refine ⟨key, ?_⟩
    intro a ha hpa hqa
    rcases List.mem_cons.1 ha with rfl | ha
    · simp only [List.filter_cons, hpa, hqa, if_true, List.map_cons, List.sum_cons]
      simp; omega
    · have := ih2 a ha hpa hqa
      by_cases hq : q x = true
      · have hp := hqp x hq
        simp only [List.filter_cons, hq, hp, if_true, List.map_cons, List.sum_cons]; omega
      · by_cases hp : p x = true
        · simp only [List.filter_cons, hq, hp, if_true, List.map_cons, List.sum_cons]; simp; omega
        · simp only [List.filter_cons, hq, hp]; simpa using this

theorem pot_visit {v : List String} {n : String} {t : TypeRec} (h1 : n ∉ v)
    (h2 : K.predefined.contains n = false) (h3 : find? ts n = some t) :
    pot K ts (v ++ [n]) + cost t ≤ pot K ts v := by
  have hn := find?_name' ts h3
  refine (sum_filter_drop cost (open? K ts v) (open? K ts (v ++ [n])) ?_ ts.types).2 t
    (find?_mem' ts h3) ?_ ?_
  · intro x hx
    simp only [open?, Bool.and_eq_true, Bool.not_eq_true', List.contains_eq_mem, List.mem_append,
      decide_eq_false_iff_not] at hx ⊢
    exact ⟨hx.1, fun h => hx.2 (Or.inl h)⟩
  · have h2' : n ∉ K.predefined := by
      intro hc; rw [← List.contains_iff_mem] at hc; rw [hc] at h2; cases h2
    simp [open?, hn, h3, h2', h1]
  · simp [open?, hn]

theorem pot_le (v : List String) : pot K ts v ≤ (ts.types.map cost).sum := by
  have := (sum_filter_drop cost (fun _ => true) (open? K ts v) (fun _ _ => rfl) ts.types).1
  have e : ts.types.filter (fun _ => true) = ts.types := List.filter_eq_self.2 (fun _ _ => rfl)
  rw [e] at this
  exact this

/-- with enough fuel the fuelled search is a complete run -/
theorem run_of_fuel : ∀ (fuel : Nat) (v q : List String), q.length + pot K ts v ≤ fuel →
    Run K ts v q (closureStep K ts v fuel q) := by
  intro fuel
  induction fuel with
  | zero =>
    intro v q h
    have : q = [] := List.eq_nil_of_length_eq_zero (by omega)
    subst this
    rw [closureStep]; exact Run.done v
  | succ fuel ih =>
    intro v q h
    cases q with
    | nil => simp only [closureStep]; exact Run.done v
    | cons n rest =>
      by_cases hs : Skip K ts v n
      · rw [step_skip K ts hs]
        exact Run.skip hs (ih v rest (by simp at h; omega))
      · have h1 : n ∉ v := fun h => hs (Or.inl h)
        have h2 : K.predefined.contains n = false := by
          cases hp : K.predefined.contains n with
          | false => rfl
          | true => exact absurd (Or.inr (Or.inl hp)) hs
        cases h3 : find? ts n with
        | none => exact absurd (Or.inr (Or.inr h3)) hs
        | some t =>
          rw [step_visit K ts h1 h2 h3]
          refine Run.visit h1 h2 h3 (ih _ _ ?_)
          have hp := pot_visit K ts h1 h2 h3
          have hl := length_pushed (v ++ [n]) t
          simp only [List.length_append, List.length_cons] at h ⊢
          unfold cost at hp
          omega

theorem run_closureFuel (seeds : List String) :
    Run K ts [] seeds (closureStep K ts [] (closureFuel ts seeds) seeds) := by
  apply run_of_fuel
  have := pot_le K ts []
  unfold closureFuel
  unfold cost at this
  omega

/-! ### invariants along a complete run -/

def Inv (v q : List String) : Prop :=
  ∀ n ∈ v, ∀ t, find? ts n = some t → ∀ x, Ref t x →
    x ∈ v ∨ x ∈ q ∨ K.predefined.contains x = true ∨ find? ts x = none

theorem run_inv {v q v' : List String} (r : Run K ts v q v') : Inv K ts v q → Inv K ts v' [] := by
  induction r with
  | done v => exact id
  | @skip v n rest v' hs _ ih =>
    intro hi
    apply ih
    intro m hm t ht x hx
    rcases hi m hm t ht x hx with h | h | h | h
    · exact Or.inl h
    · rcases List.mem_cons.1 h with rfl | h
      · rcases hs with h | h | h
        · exact Or.inl h
        · exact Or.inr (Or.inr (Or.inl h))
        · exact Or.inr (Or.inr (Or.inr h))
      · exact Or.inr (Or.inl h)
    · exact Or.inr (Or.inr (Or.inl h))
    · exact Or.inr (Or.inr (Or.inr h))
  | @visit v n rest t v' h1 h2 h3 _ ih =>
    intro hi
    apply ih
    intro m hm t' ht' x hx
    rcases List.mem_append.1 hm with hm | hm
    · rcases hi m hm t' ht' x hx with h | h | h | h
      · exact Or.inl (List.mem_append_left _ h)
      · rcases List.mem_cons.1 h with rfl | h
        · exact Or.inl (List.mem_append_right _ (List.mem_singleton.2 rfl))
        · exact Or.inr (Or.inl (List.mem_append_left _ h))
      · exact Or.inr (Or.inr (Or.inl h))
      · exact Or.inr (Or.inr (Or.inr h))
    · have : m = n := List.mem_singleton.1 hm
      subst this
      rw [h3] at ht'
      cases ht'
      by_cases hx' : x ∈ v ++ [m]
      · exact Or.inl hx'
      · exact Or.inr (Or.inl (List.mem_append_right _ (mem_pushed.2 ⟨hx', hx⟩)))

theorem closed_of_inv {v : List String} (h : Inv K ts v []) : ClosedUnder K ts v := by
  intro n hn t ht
  have key : ∀ x, Ref t x → Covered K ts v x := by
    intro x hx
    rcases h n hn t ht x hx with h | h | h | h
    · exact Or.inl h
    · cases h
    · exact Or.inr (Or.inl h)
    · exact Or.inr (Or.inr h)
  refine ⟨fun s hs => key s (Or.inl hs), fun f hf => ⟨key _ (Or.inr ⟨f, hf, Or.inl rfl⟩), fun e he => key e (Or.inr ⟨f, hf, Or.inr he⟩)⟩⟩

theorem run_seeds {v q v' : List String} (r : Run K ts v q v') :
    ∀ x, (x ∈ v ∨ x ∈ q) → K.predefined.contains x = false → (find? ts x).isSome = true → x ∈ v' := by
  induction r with
  | done v =>
    intro x hx _ _
    rcases hx with h | h
    · exact h
    · cases h
  | @skip v n rest v' hs _ ih =>
    intro x hx hp hf
    apply ih x _ hp hf
    rcases hx with h | h
    · exact Or.inl h
    · rcases List.mem_cons.1 h with rfl | h
      · rcases hs with h | h | h
        · exact Or.inl h
        · rw [h] at hp; cases hp
        · rw [h] at hf; cases hf
      · exact Or.inr h
  | @visit v n rest t v' h1 h2 h3 _ ih =>
    intro x hx hp hf
    apply ih x _ hp hf
    rcases hx with h | h
    · exact Or.inl (List.mem_append_left _ h)
    · rcases List.mem_cons.1 h with rfl | h
      · exact Or.inl (List.mem_append_right _ (List.mem_singleton.2 rfl))
      · exact Or.inr (List.mem_append_left _ h)

theorem run_sub {seeds : List String} (hc : ClosedUnder K ts seeds) {v q v' : List String}
    (r : Run K ts v q v') :
    (∀ x ∈ v, x ∈ seeds) → (∀ x ∈ q, Covered K ts seeds x) → ∀ x ∈ v', x ∈ seeds := by
  induction r with
  | done v => exact fun h _ => h
  | @skip v n rest v' hs _ ih =>
    intro hv hq
    exact ih hv (fun x hx => hq x (List.mem_cons_of_mem _ hx))
  | @visit v n rest t v' h1 h2 h3 _ ih =>
    intro hv hq
    have hn : n ∈ seeds := by
      rcases hq n (List.mem_cons_self) with h | h | h
      · exact h
      · rw [h] at h2; cases h2
      · rw [h] at h3; cases h3
    apply ih
    · intro x hx
      rcases List.mem_append.1 hx with h | h
      · exact hv x h
      · rw [List.mem_singleton.1 h]; exact hn
    · intro x hx
      rcases List.mem_append.1 hx with h | h
      · exact hq x (List.mem_cons_of_mem _ h)
      · obtain ⟨_, hr⟩ := mem_pushed.1 h
        obtain ⟨c1, c2⟩ := hc n hn t h3
        rcases hr with hr | ⟨f, hf, hr | hr⟩
        · exact c1 x hr
        · rw [← hr]; exact (c2 f hf).1
        · exact (c2 f hf).2 x hr

/-! ### members, for any fuel -/

theorem members_gen : ∀ (fuel : Nat) (v q : List String),
    (v.Nodup ∧ ∀ n ∈ v, K.predefined.contains n = false ∧ (find? ts n).isSome = true) →
    ((closureStep K ts v fuel q).Nodup ∧
      ∀ n ∈ closureStep K ts v fuel q, K.predefined.contains n = false ∧ (find? ts n).isSome = true) := by
  intro fuel
  induction fuel with
  | zero => intro v q h; rw [closureStep]; exact h
  | succ fuel ih =>
    intro v q h
    cases q with
    | nil => simp only [closureStep]; exact h
    | cons n rest =>
      by_cases hs : Skip K ts v n
      · rw [step_skip K ts hs]; exact ih v rest h
      · have h1 : n ∉ v := fun h => hs (Or.inl h)
        have h2 : K.predefined.contains n = false := by
          cases hp : K.predefined.contains n with
          | false => rfl
          | true => exact absurd (Or.inr (Or.inl hp)) hs
        cases h3 : find? ts n with
        | none => exact absurd (Or.inr (Or.inr h3)) hs
        | some t =>
          rw [step_visit K ts h1 h2 h3]
          apply ih
          refine ⟨?_, ?_⟩
          · rw [List.nodup_append]
            refine ⟨h.1, by simp, ?_⟩
            intro a ha b hb
            rw [List.mem_singleton.1 hb]
            rintro rfl; exact h1 ha
          · intro m hm
            rcases List.mem_append.1 hm with hm | hm
            · exact h.2 m hm
            · rw [List.mem_singleton.1 hm, h3]; exact ⟨h2, rfl⟩

end Closure

open Closure

theorem closure_sufficient_aux (K : Consts) (ts : TypeSystem) (seeds : List String) :
    (∀ n ∈ seeds, K.predefined.contains n = false → (find? ts n).isSome = true →
        n ∈ closureStep K ts [] (closureFuel ts seeds) seeds) ∧
    ClosedUnder K ts (closureStep K ts [] (closureFuel ts seeds) seeds) := by
  have r := run_closureFuel K ts seeds
  refine ⟨fun n hn hp hf => run_seeds K ts r n (Or.inr hn) hp hf, ?_⟩
  apply closed_of_inv
  apply run_inv K ts r
  intro n hn
  cases hn

theorem closure_members_aux (K : Consts) (ts : TypeSystem) (seeds : List String) (fuel : Nat) :
    (closureStep K ts [] fuel seeds).Nodup ∧
    ∀ n ∈ closureStep K ts [] fuel seeds, K.predefined.contains n = false ∧ (find? ts n).isSome = true :=
  members_gen K ts fuel [] seeds ⟨List.nodup_nil, fun n hn => by cases hn⟩

theorem closure_of_closed_aux (K : Consts) (ts : TypeSystem) (seeds : List String) (_hn : seeds.Nodup)
    (hreg : ∀ n ∈ seeds, K.predefined.contains n = false ∧ (find? ts n).isSome = true)
    (hc : ClosedUnder K ts seeds) :
    ∀ n, n ∈ closureStep K ts [] (closureFuel ts seeds) seeds ↔ n ∈ seeds := by
  intro n
  have r := run_closureFuel K ts seeds
  constructor
  · exact run_sub K ts hc r (fun x hx => by cases hx) (fun x hx => Or.inl hx) n
  · intro h
    exact run_seeds K ts r n (Or.inr h) (hreg n h).1 (hreg n h).2

end Cassis.TS
