/-
C03, document level, the XMI reader: the third pass (`buildCas`: the views with their members, `rehome`, the
annotations that are only referenced) is the only place where offsets are converted, and it converts annotations only:
a structure whose type is not a subtype of `uima.tcas.Annotation` keeps every slot but `sofa`.
-/
import CassisModel.Proofs.OffsetsDocXmiR
import CassisModel.Proofs.Heap

namespace Cassis.Xmi
open Cassis.Offsets Cassis.TS Cassis.OffsetsDoc

/-- all objects keep their type; objects that are not annotations keep every slot but `sofa` -/
def PlainKeep (ts : TypeSystem) (hp hp' : Heap) : Prop :=
  ∀ (a : Nat) (o : Obj), hp[a]? = some o → ∃ o', hp'[a]? = some o' ∧ o'.ty = o.ty ∧
    (isInstanceOf ts o.ty ANNOTATION = false → ∀ n, n ≠ "sofa" → alistGet? o'.slots n = alistGet? o.slots n)

theorem PlainKeep.refl (ts : TypeSystem) (hp : Heap) : PlainKeep ts hp hp :=
  fun _ o h => ⟨o, h, rfl, fun _ _ _ => rfl⟩

theorem PlainKeep.trans {ts : TypeSystem} {a b c : Heap} (h1 : PlainKeep ts a b) (h2 : PlainKeep ts b c) :
    PlainKeep ts a c := by
  intro x o ho
  obtain ⟨o1, ho1, ht1, hs1⟩ := h1 x o ho
  obtain ⟨o2, ho2, ht2, hs2⟩ := h2 x o1 ho1
  refine ⟨o2, ho2, ht2.trans ht1, ?_⟩
  intro hna n hn
  rw [hs2 (by rw [ht1]; exact hna) n hn, hs1 hna n hn]

theorem plainKeep_setSlot {ts : TypeSystem} {hp hp' : Heap} {a : Nat} {n : String} {v : Val}
    (h : Heap.setSlot hp a n v = .ok hp')
    (hc : n = "sofa" ∨ ∃ o, hp[a]? = some o ∧ isInstanceOf ts o.ty ANNOTATION = true) : PlainKeep ts hp hp' := by
  obtain ⟨o, ho, hcase⟩ := Heap.setSlot_ok_cases hp hp' a n v h
  have hlt : a < hp.length := Heap.lt_length_of_getElem?_eq_some ho
  intro b ob hob
  by_cases hb : b = a
  · subst hb
    rw [ho] at hob
    cases hob
    rcases hcase with ⟨w, _, rfl⟩ | ⟨_, _, x, rfl⟩
    · refine ⟨_, List.getElem?_set_self hlt, rfl, ?_⟩
      intro hna m hm
      rcases hc with rfl | ⟨o2, ho2, hann⟩
      · exact alistGet?_set_other _ _ _ _ hm
      · rw [ho] at ho2
        cases ho2
        rw [hann] at hna
        cases hna
    · exact ⟨_, List.getElem?_set_self hlt, rfl, fun _ _ _ => rfl⟩
  · rcases hcase with ⟨w, _, rfl⟩ | ⟨_, _, x, rfl⟩
    · exact ⟨ob, by rw [List.getElem?_set_ne (fun e => hb e.symm)]; exact hob, rfl, fun _ _ _ => rfl⟩
    · exact ⟨ob, by rw [List.getElem?_set_ne (fun e => hb e.symm)]; exact hob, rfl, fun _ _ _ => rfl⟩

theorem plainKeep_convert {ts : TypeSystem} {conv : Conv} {hp hp' : Heap} {a : Nat} {o : Obj}
    (ho : hp[a]? = some o) (hann : isInstanceOf ts o.ty ANNOTATION = true)
    (h : convertOffsets conv hp a = .ok hp') : PlainKeep ts hp hp' := by
  unfold convertOffsets at h
  simp only [bind, Except.bind, throw, throwThe, MonadExceptOf.throw] at h
  split at h
  · split at h
    · cases h
    · rename_i hp1 h1
      have k1 : PlainKeep ts hp hp1 := plainKeep_setSlot h1 (Or.inr ⟨o, ho, hann⟩)
      obtain ⟨o1, ho1, hty1, _⟩ := k1 a o ho
      split at h
      · exact k1.trans (plainKeep_setSlot h (Or.inr ⟨o1, ho1, by rw [hty1]; exact hann⟩))
      · cases h
  · cases h

theorem plainKeep_add {ts : TypeSystem} {cas : Nat} {c c' : Cas} {hp hp' : Heap} {h : Handle} {addr : Nat} {keep : Bool}
    (hadd : Cas.add ts cas c hp h addr keep = .ok (c', hp')) : PlainKeep ts hp hp' := by
  obtain ⟨_, hoth, o, o', ho, ho', hty, hsl, _⟩ := Cas.add_heap_aux ts cas c c' hp hp' h addr keep hadd
  intro b ob hob
  by_cases hb : b = addr
  · subst hb
    rw [ho] at hob
    cases hob
    exact ⟨o', ho', hty, fun _ n hn => hsl n hn⟩
  · exact ⟨ob, by rw [hoth b hb]; exact hob, rfl, fun _ _ _ => rfl⟩

theorem addMembers_plain (ts : TypeSystem) (ci : Nat) (h : Handle) (conv : Conv) (sofas : List (Int × PSofa))
    (lenientIds : List Int) (fss : List (Int × Nat)) :
    ∀ (ms : List Int) (b b' : Build), addMembers ts ci h conv sofas lenientIds fss ms b = .ok b' →
      PlainKeep ts b.heap b'.heap
  | [], b, b', hr => by
    unfold addMembers at hr
    cases hr
    exact PlainKeep.refl _ _
  | m :: ms, b, b', hr => by
    unfold addMembers at hr
    split at hr
    · exact addMembers_plain ts ci h conv sofas lenientIds fss ms b b' hr
    · split at hr
      · cases hr
      · rename_i a hl
        split at hr
        · cases hr
        · rename_i o ho
          dsimp only at hr
          split at hr
          · cases hr
          · rename_i hp1 cv1 hconv
            split at hr
            · cases hr
            · rename_i c' hp2 hadd
              have k1 : PlainKeep ts b.heap hp1 := by
                split at hconv
                · rename_i hcond
                  split at hconv
                  · cases hconv
                  · rename_i hp' hco
                    cases hconv
                    rw [Bool.and_eq_true] at hcond
                    exact plainKeep_convert ho hcond.2 hco
                · cases hconv
                  exact PlainKeep.refl _ _
              exact (k1.trans (plainKeep_add hadd)).trans
                (addMembers_plain ts ci h conv sofas lenientIds fss ms _ b' hr)

theorem buildView_plain (ts : TypeSystem) (ci : Nat) (lenient : Bool) (p : Pass1) (s : PSofa) (b b' : Build)
    (hr : buildView ts ci lenient p s b = .ok b') : PlainKeep ts b.heap b'.heap := by
  unfold buildView at hr
  dsimp only at hr
  split at hr
  · cases hr
  · split at hr
    · cases hr
    · have k := addMembers_plain ts ci _ _ _ _ _ _ _ b' hr
      exact k

theorem buildViews_plain (ts : TypeSystem) (ci : Nat) (lenient : Bool) (p : Pass1) :
    ∀ (l : List (Int × PSofa)) (b b' : Build), buildViews ts ci lenient p l b = .ok b' → PlainKeep ts b.heap b'.heap
  | [], b, b', hr => by
    unfold buildViews at hr
    cases hr
    exact PlainKeep.refl _ _
  | (_, s) :: rest, b, b', hr => by
    unfold buildViews at hr
    split at hr
    · cases hr
    · rename_i b1 h1
      exact (buildView_plain ts ci lenient p s b b1 h1).trans (buildViews_plain ts ci lenient p rest b1 b' hr)

theorem rehome_plain (ts : TypeSystem) (fss : List (Int × Nat)) :
    ∀ (l : List (Int × Val)) (heap heap' : Heap), rehome fss l heap = .ok heap' → PlainKeep ts heap heap'
  | [], heap, heap', hr => by
    unfold rehome at hr
    cases hr
    exact PlainKeep.refl _ _
  | (m, v) :: rest, heap, heap', hr => by
    unfold rehome at hr
    split at hr
    · split at hr
      · cases hr
      · split at hr
        · cases hr
        · rename_i heap1 hs
          exact (plainKeep_setSlot hs (Or.inl rfl)).trans (rehome_plain ts fss rest heap1 heap' hr)
    · exact rehome_plain ts fss rest heap heap' hr

theorem convertReferenced_plain (ts : TypeSystem) (p : Pass1) (converted : List Int) :
    ∀ (l : List (Int × Nat)) (heap heap' : Heap), convertReferenced ts p converted l heap = .ok heap' →
      PlainKeep ts heap heap'
  | [], heap, heap', hr => by
    unfold convertReferenced at hr
    cases hr
    exact PlainKeep.refl _ _
  | (i, a) :: rest, heap, heap', hr => by
    unfold convertReferenced at hr
    split at hr
    · exact convertReferenced_plain ts p converted rest heap heap' hr
    · split at hr
      · cases hr
      · rename_i o ho
        split at hr
        · rename_i hann
          split at hr
          · split at hr
            · split at hr
              · cases hr
              · rename_i heap1 hco
                exact (plainKeep_convert ho hann hco).trans (convertReferenced_plain ts p converted rest heap1 heap' hr)
            · exact convertReferenced_plain ts p converted rest heap heap' hr
          · exact convertReferenced_plain ts p converted rest heap heap' hr
        · exact convertReferenced_plain ts p converted rest heap heap' hr

theorem buildCas_plain_aux (K : Consts) (ts : TypeSystem) (ci : Nat) (lenient : Bool) (p : Pass1) (hp : Heap)
    (ld : Loaded) (h : buildCas K ts ci lenient p hp = .ok ld) (a : Nat) (o : Obj) (ho : hp[a]? = some o)
    (hna : isInstanceOf ts o.ty ANNOTATION = false) (n : String) (hn : n ≠ "sofa") :
    Traverse.slot ld.heap a n = alistGet? o.slots n := by
  unfold buildCas at h
  split at h
  · cases h
  · rename_i b0 hb
    split at h
    · cases h
    · rename_i hpR hre
      dsimp only at h
      split at h
      · cases h
      · rename_i heap hcr
        cases h
        have k := ((buildViews_plain ts ci lenient p p.sofas _ b0 hb).trans
          (rehome_plain ts p.fss _ _ hpR hre)).trans (convertReferenced_plain ts p _ p.fss hpR heap hcr)
        obtain ⟨o', ho', _, hs⟩ := k a o ho
        unfold Traverse.slot
        show (heap[a]?).bind _ = _
        rw [ho']
        exact hs hna n hn

/-- the XMI loader: after the first two passes (parsing, feature post-processing) nothing converts a structure that is
    not an annotation -/
theorem loadXmi_plain_aux (K : Consts) (ts : TypeSystem) (tsIdx ci : Nat) (lenient : Bool) (hp : Heap) (doc : XDoc)
    (ld : Loaded) (h : loadXmi K ts tsIdx ci lenient hp doc = .ok ld) :
    ∃ (p : Pass1) (hp2 : Heap), pass1 K ts tsIdx lenient doc { heap := hp } = .ok p ∧
      postAll K ts tsIdx ci p.sofas p.fss p.fss p.heap = .ok hp2 ∧
      ∀ (a : Nat) (o : Obj), hp2[a]? = some o → isInstanceOf ts o.ty ANNOTATION = false →
        ∀ n, n ≠ "sofa" → Traverse.slot ld.heap a n = alistGet? o.slots n := by
  unfold loadXmi at h
  simp only [bind, Except.bind] at h
  split at h
  · cases h
  · rename_i p hp1
    split at h
    · cases h
    · rename_i hp2 hpost
      exact ⟨p, hp2, hp1, hpost, fun a o ho hna n hn => buildCas_plain_aux K ts ci lenient p hp2 ld h a o ho hna n hn⟩

end Cassis.Xmi
