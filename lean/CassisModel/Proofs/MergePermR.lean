/-
Helper lemmas for `Properties/C13Perm.lean`, part R: re-parenting a *leaf*.

`uima.tcas.DocumentAnnotation` is registered in a fresh type system (below `uima.tcas.Annotation`) but is not a
"predefined" name, so the inputs declare it like a user type — possibly with another supertype.  Its first declaration
is then processed by the re-parenting branch of the merge loop.  At that moment the type has no subtypes yet (a subtype
is ready only after the type has been merged), so only the re-parenting of a leaf has to be understood.
-/
import CassisModel.Proofs.MergeSelfA

namespace Cassis.TS

/-! ### The branches of `processDecl` for a registered name -/

theorem processDecl_ex_cases (K : Consts) (s s' : MState) (d : Decl) (ex : TypeRec)
    (he : find? s.ts d.name = some ex) (h : processDecl K s d = .ok s') :
    (d.super = ex.super.getD "" ∧ addOwnFeatures s.ts d.name d.own = .ok s'.ts) ∨
    (d.super ≠ ex.super.getD "" ∧ subsumes s.ts (ex.super.getD "") d.super = true ∧
      ∃ ts1, reparent s.ts d.name (ex.super.getD "") d.super = .ok ts1 ∧
        addOwnFeatures ts1 d.name d.own = .ok s'.ts) ∨
    (d.super ≠ ex.super.getD "" ∧ subsumes s.ts (ex.super.getD "") d.super = false ∧
      subsumes s.ts d.super (ex.super.getD "") = true ∧ addOwnFeatures s.ts d.name d.own = .ok s'.ts) := by
  have hx : hasExact s.ts d.name = true := (hasExact_iff_find _ _).mpr ⟨ex, he⟩
  simp only [processDecl, hx, he, bind, Except.bind, pure, Except.pure, Bool.not_true,
    Bool.false_eq_true, if_false, throw, throwThe, MonadExceptOf.throw] at h
  by_cases hne : (d.super != ex.super.getD "") = true
  · have hne' : d.super ≠ ex.super.getD "" := by simpa using hne
    simp only [hne, if_true] at h
    split at h
    · split at h
      · rename_i hsub
        cases hr : reparent s.ts d.name (ex.super.getD "") d.super with
        | error e => rw [hr] at h; cases h
        | ok ts1 =>
          rw [hr] at h; simp only at h
          cases ha : addOwnFeatures ts1 d.name d.own with
          | error e => rw [ha] at h; cases h
          | ok ts2 =>
            rw [ha] at h; simp only at h
            rw [← Except.ok.inj h]
            exact Or.inr (Or.inl ⟨hne', hsub, ts1, rfl, ha⟩)
      · rename_i hsub
        split at h
        · rename_i hsub2
          cases ha : addOwnFeatures s.ts d.name d.own with
          | error e => rw [ha] at h; cases h
          | ok ts2 =>
            rw [ha] at h; simp only at h
            rw [← Except.ok.inj h]
            exact Or.inr (Or.inr ⟨hne', by simpa using hsub, hsub2, rfl⟩)
        · cases h
    · cases h
  · simp only [hne] at h
    cases ha : addOwnFeatures s.ts d.name d.own with
    | error e => rw [ha] at h; cases h
    | ok ts2 =>
      rw [ha] at h; simp only at h
      rw [← Except.ok.inj h]
      exact Or.inl ⟨by simpa using hne, rfl⟩

/-- the no-op branch: the declared supertype is a proper ancestor of the registered one -/
theorem processDecl_noop (K : Consts) (s : MState) (d : Decl) (ex : TypeRec) (exSup : String)
    (he : find? s.ts d.name = some ex) (hs : ex.super = some exSup) (hne : d.super ≠ exSup)
    (r1 : hasExact s.ts exSup = true) (r2 : hasExact s.ts d.super = true)
    (h1 : subsumes s.ts exSup d.super = false) (h2 : subsumes s.ts d.super exSup = true) :
    processDecl K s d = (match addOwnFeatures s.ts d.name d.own with
      | .error e => .error e
      | .ok ts1 => .ok { ts := ts1, merged := if s.merged.contains d.name then s.merged else s.merged ++ [d.name] }) := by
  have hx : hasExact s.ts d.name = true := (hasExact_iff_find _ _).mpr ⟨ex, he⟩
  obtain ⟨t1, ht1⟩ := (hasExact_iff_find _ _).mp r1
  obtain ⟨t2, ht2⟩ := (hasExact_iff_find _ _).mp r2
  have hb : (d.super != exSup) = true := by simpa using hne
  simp only [processDecl, hx, he, hs, hb, getType_of_find ht1, getType_of_find ht2, h1, h2,
    bind, Except.bind, pure, Except.pure, Bool.not_true,
    Option.getD_some, Bool.false_eq_true, if_false, if_true]
  cases addOwnFeatures s.ts d.name d.own <;> rfl

/-- the re-parenting branch -/
theorem processDecl_reparent (K : Consts) (s : MState) (d : Decl) (ex : TypeRec) (exSup : String)
    (he : find? s.ts d.name = some ex) (hs : ex.super = some exSup) (hne : d.super ≠ exSup)
    (r1 : hasExact s.ts exSup = true) (r2 : hasExact s.ts d.super = true)
    (h1 : subsumes s.ts exSup d.super = true) :
    processDecl K s d = (match reparent s.ts d.name exSup d.super with
      | .error e => .error e
      | .ok ts0 => match addOwnFeatures ts0 d.name d.own with
        | .error e => .error e
        | .ok ts1 => .ok { ts := ts1, merged := if s.merged.contains d.name then s.merged else s.merged ++ [d.name] }) := by
  have hx : hasExact s.ts d.name = true := (hasExact_iff_find _ _).mpr ⟨ex, he⟩
  obtain ⟨t1, ht1⟩ := (hasExact_iff_find _ _).mp r1
  obtain ⟨t2, ht2⟩ := (hasExact_iff_find _ _).mp r2
  have hb : (d.super != exSup) = true := by simpa using hne
  simp only [processDecl, hx, he, hs, hb, getType_of_find ht1, getType_of_find ht2, h1,
    bind, Except.bind, pure, Except.pure, Bool.not_true,
    Option.getD_some, Bool.false_eq_true, if_false, if_true]
  cases reparent s.ts d.name exSup d.super with
  | error e => rfl
  | ok ts0 =>
    simp only
    cases addOwnFeatures ts0 d.name d.own <;> rfl

/-! ### `pushInherited`, `subtreeClash`, `inheritFrom` on a leaf -/

theorem push_nil (f : Feature) (fuel : Nat) (ts : TypeSystem) : pushInherited f (fuel + 1) ts [] = .ok ts := by
  rw [pushInherited]; omega

theorem push_leaf (f : Feature) (fuel : Nat) (ts : TypeSystem) (c : String) (t : TypeRec)
    (hf : find? ts c = some t) (hl : t.children = []) :
    pushInherited f (fuel + 2) ts [c] =
      match addCheck t f true with
      | .conflict => .error .valueError
      | .same => .ok ts
      | .fresh => .ok (setRec ts { t with inh := t.inh ++ [f] }) := by
  rw [pushInherited]
  simp only [hf]
  cases h : addCheck t f true with
  | conflict => rfl
  | same => simp only [push_nil]
  | fresh => simp only [hl, push_nil, bind, Except.bind]

theorem descendantsOf_leaf (ts : TypeSystem) (c : String) (t : TypeRec)
    (hf : find? ts c = some t) (hl : t.children = []) : descendantsOf ts c = [c] := by
  unfold descendantsOf
  rw [descendants]
  simp [hf, hl]

theorem subtreeClash_leaf (ts : TypeSystem) (c : String) (t : TypeRec) (f : Feature)
    (hf : find? ts c = some t) (hl : t.children = []) :
    subtreeClash ts c f = true ↔ ∃ g, t.own.find? (·.name == f.name) = some g ∧ featureEq g f = false := by
  unfold subtreeClash
  rw [descendantsOf_leaf ts c t hf hl]
  simp only [List.any_cons, List.any_nil, Bool.or_false, hf]
  cases hfo : t.own.find? (·.name == f.name) with
  | none => simp
  | some g => simp

theorem length_pos_of_find {ts : TypeSystem} {c : String} {t : TypeRec} (hf : find? ts c = some t) :
    ∃ k, ts.types.length + 1 = k + 2 := by
  have := List.length_pos_of_mem (find?_mem hf)
  exact ⟨ts.types.length - 1, by omega⟩

/-- what a successful `inheritFrom` does to a leaf `c`: nothing but appending to its inherited features those of `fs`
    whose name it did not inherit yet -/
theorem inheritFrom_leaf (c : String) : ∀ (fs : List Feature) (ts ts' : TypeSystem) (t : TypeRec),
    find? ts c = some t → t.children = [] → inheritFrom ts c fs = .ok ts' →
    ∃ t', find? ts' c = some t' ∧ t'.name = t.name ∧ t'.super = t.super ∧ t'.children = [] ∧ t'.own = t.own ∧
      (∀ y, y ≠ c → find? ts' y = find? ts y) ∧
      (∀ g ∈ t.inh, g ∈ t'.inh) ∧ (∀ g ∈ t'.inh, g ∈ t.inh ∨ g ∈ fs) ∧
      (∀ f ∈ fs, ∃ g ∈ t'.inh, g.name = f.name ∧ featureEq g f = true) ∧
      (∀ f ∈ fs, ∀ g, t.own.find? (·.name == f.name) = some g → featureEq g f = true) ∧
      ((fnames t.inh).Nodup → (fnames t'.inh).Nodup) := by
  intro fs
  induction fs with
  | nil =>
    intro ts ts' t hf hl h
    simp only [inheritFrom] at h
    cases h
    exact ⟨t, hf, rfl, rfl, hl, rfl, fun _ _ => rfl, fun _ hg => hg, fun _ hg => Or.inl hg,
      (fun _ hx => by cases hx), (fun _ hx => by cases hx), fun hn => hn⟩
  | cons f fs ih =>
    intro ts ts' t hf hl h
    simp only [inheritFrom] at h
    have hnc : subtreeClash ts c f = false := by
      cases hsc : subtreeClash ts c f with
      | false => rfl
      | true => rw [hsc] at h; simp at h
    have hown : ∀ g, t.own.find? (·.name == f.name) = some g → featureEq g f = true := by
      intro g hg
      cases hfe : featureEq g f with
      | true => rfl
      | false =>
        have := (subtreeClash_leaf ts c t f hf hl).mpr ⟨g, hg, hfe⟩
        rw [hnc] at this; cases this
    rw [hnc] at h
    simp only [Bool.false_eq_true, if_false] at h
    obtain ⟨k, hk⟩ := length_pos_of_find hf
    rw [hk, push_leaf f k ts c t hf hl] at h
    cases hchk : addCheck t f true with
    | conflict => rw [hchk] at h; cases h
    | same =>
      rw [hchk] at h
      simp only at h
      obtain ⟨t', ht', e1, e2, e3, e4, hoth, hmono, hsrc, hrep, hcl, hnd⟩ := ih ts ts' t hf hl h
      obtain ⟨g0, hg0, hg0n, hg0f⟩ := addCheck_true_same hchk
      refine ⟨t', ht', e1, e2, e3, e4, hoth, hmono, ?_, ?_, ?_, hnd⟩
      · intro g hg
        rcases hsrc g hg with h1 | h1
        · exact Or.inl h1
        · exact Or.inr (List.mem_cons_of_mem _ h1)
      · intro x hx
        rcases List.mem_cons.mp hx with rfl | hx
        · exact ⟨g0, hmono g0 hg0, hg0n, hg0f⟩
        · exact hrep x hx
      · intro x hx
        rcases List.mem_cons.mp hx with rfl | hx
        · exact hown
        · exact hcl x hx
    | fresh =>
      rw [hchk] at h
      simp only at h
      have htn : t.name = c := find?_name hf
      have hf1 : find? (setRec ts { t with inh := t.inh ++ [f] }) c = some { t with inh := t.inh ++ [f] } :=
        find?_setRec_eq ts { t with inh := t.inh ++ [f] } t htn hf
      obtain ⟨t', ht', e1, e2, e3, e4, hoth, hmono, hsrc, hrep, hcl, hnd⟩ :=
        ih _ ts' { t with inh := t.inh ++ [f] } hf1 hl h
      refine ⟨t', ht', e1, e2, e3, e4, ?_, ?_, ?_, ?_, ?_, ?_⟩
      · intro y hy
        rw [hoth y hy]
        exact find_setRec_other ts _ y (by rw [htn]; exact hy)
      · intro g hg
        exact hmono g (List.mem_append_left _ hg)
      · intro g hg
        rcases hsrc g hg with h1 | h1
        · rcases List.mem_append.mp h1 with h1 | h1
          · exact Or.inl h1
          · simp only [List.mem_singleton] at h1
            subst h1
            exact Or.inr List.mem_cons_self
        · exact Or.inr (List.mem_cons_of_mem _ h1)
      · intro x hx
        rcases List.mem_cons.mp hx with rfl | hx
        · exact ⟨x, hmono x (List.mem_append_right _ (List.mem_singleton.mpr rfl)), rfl, featureEq_refl x⟩
        · exact hrep x hx
      · intro x hx
        rcases List.mem_cons.mp hx with rfl | hx
        · exact hown
        · exact hcl x hx
      · intro hn
        exact hnd (fnames_nodup_snoc hn (addCheck_true_fresh hchk))

/-- `inheritFrom` on a leaf succeeds when the features to inherit agree with what the leaf has, and with each other -/
theorem inheritFrom_leaf_ok (c : String) : ∀ (fs : List Feature) (ts : TypeSystem) (t : TypeRec),
    find? ts c = some t → t.children = [] →
    (∀ f ∈ fs, ∀ g ∈ t.own ++ t.inh ++ fs, g.name = f.name → featureEq g f = true) →
    ∃ ts', inheritFrom ts c fs = .ok ts' := by
  intro fs
  induction fs with
  | nil => intro ts t _ _ _; exact ⟨ts, rfl⟩
  | cons f fs ih =>
    intro ts t hf hl hag
    simp only [inheritFrom]
    have hnc : subtreeClash ts c f = false := by
      cases hsc : subtreeClash ts c f with
      | false => rfl
      | true =>
        exfalso
        obtain ⟨g, hfo, hgf⟩ := (subtreeClash_leaf ts c t f hf hl).mp hsc
        have := hag f List.mem_cons_self g
          (List.mem_append_left _ (List.mem_append_left _ (find_name_some hfo).1)) (find_name_some hfo).2
        rw [this] at hgf; cases hgf
    rw [hnc]
    simp only [Bool.false_eq_true, if_false]
    obtain ⟨k, hk⟩ := length_pos_of_find hf
    rw [hk, push_leaf f k ts c t hf hl]
    cases hchk : addCheck t f true with
    | conflict =>
      exfalso
      obtain ⟨g, hg, hgn, hgf⟩ := addCheck_true_conflict hchk
      have := hag f List.mem_cons_self g (List.mem_append_left _ (List.mem_append_right _ hg)) hgn
      rw [this] at hgf; cases hgf
    | same =>
      simp only
      apply ih ts t hf hl
      intro x hx g hg
      apply hag x (List.mem_cons_of_mem _ hx) g
      rcases List.mem_append.mp hg with hg | hg
      · exact List.mem_append_left _ hg
      · exact List.mem_append_right _ (List.mem_cons_of_mem _ hg)
    | fresh =>
      simp only
      have htn : t.name = c := find?_name hf
      have hf1 : find? (setRec ts { t with inh := t.inh ++ [f] }) c = some { t with inh := t.inh ++ [f] } :=
        find?_setRec_eq ts { t with inh := t.inh ++ [f] } t htn hf
      apply ih _ { t with inh := t.inh ++ [f] } hf1 hl
      intro x hx g hg
      apply hag x (List.mem_cons_of_mem _ hx) g
      rcases List.mem_append.mp hg with hg | hg
      · rcases List.mem_append.mp hg with hg | hg
        · exact List.mem_append_left _ (List.mem_append_left _ hg)
        · rcases List.mem_append.mp hg with hg | hg
          · exact List.mem_append_left _ (List.mem_append_right _ hg)
          · simp only [List.mem_singleton] at hg
            subst hg
            exact List.mem_append_right _ List.mem_cons_self
      · exact List.mem_append_right _ (List.mem_cons_of_mem _ hg)

/-! ### `reparent` on a leaf -/

theorem find_relink (ts : TypeSystem) (c a x y : String) (hn : (ts.types.map (·.name)).Nodup) :
    find? (relink ts c a x) y = (find? ts y).map (relinkRec c a x) := by
  have hn' : (({ types := ts.types.map (relinkRec c a x), redeclared := ts.redeclared } : TypeSystem).types.map
      (·.name)).Nodup := by
    simp only [List.map_map]
    have : ((fun x : TypeRec => x.name) ∘ relinkRec c a x) = (fun x => x.name) := by
      funext z; simp
    rw [this]; exact hn
  rw [find?_perm (ts := { types := ts.types.map (relinkRec c a x), redeclared := ts.redeclared })
    (relink_perm ts c a x) hn' y]
  exact find_map_of_name ts ts.redeclared (relinkRec c a x) (relinkRec_name c a x) y

theorem relinkRec_self (c a x : String) (t : TypeRec) (h : t.name = c) :
    relinkRec c a x t = { t with super := some x } := by
  unfold relinkRec
  simp [h]

@[simp] theorem relinkRec_own (c a x : String) (t : TypeRec) : (relinkRec c a x t).own = t.own := by
  unfold relinkRec
  split
  · rfl
  · split
    · rfl
    · split
      · rfl
      · split <;> rfl

@[simp] theorem relinkRec_inh (c a x : String) (t : TypeRec) : (relinkRec c a x t).inh = t.inh := by
  unfold relinkRec
  split
  · rfl
  · split
    · rfl
    · split
      · rfl
      · split <;> rfl

/-- what a successful re-parenting does when the re-parented type `c` is a leaf -/
theorem reparent_leaf (ts ts' : TypeSystem) (c a x : String) (t ns : TypeRec)
    (hn : (ts.types.map (·.name)).Nodup) (hf : find? ts c = some t) (hl : t.children = [])
    (hns : find? ts x = some ns) (h : reparent ts c a x = .ok ts') :
    ∃ t', find? ts' c = some t' ∧ t'.super = some x ∧ t'.children = [] ∧ t'.own = t.own ∧
      (∀ y, y ≠ c → find? ts' y = (find? ts y).map (relinkRec c a x)) ∧
      (∀ g ∈ t.inh, g ∈ t'.inh) ∧ (∀ g ∈ t'.inh, g ∈ t.inh ∨ g ∈ allFeatures ns) ∧
      (∀ f ∈ allFeatures ns, ∃ g ∈ t'.inh, g.name = f.name ∧ featureEq g f = true) ∧
      (∀ f ∈ allFeatures ns, ∀ g, t.own.find? (·.name == f.name) = some g → featureEq g f = true) ∧
      ((fnames t.inh).Nodup → (fnames t'.inh).Nodup) := by
  obtain ⟨_, ns', hns', hi⟩ := reparent_ok ts ts' c a x h
  rw [hns] at hns'
  cases hns'
  have htn : t.name = c := find?_name hf
  have hf1 : find? (relink ts c a x) c = some { t with super := some x } := by
    rw [find_relink ts c a x c hn, hf, Option.map_some, relinkRec_self c a x t htn]
  obtain ⟨t', ht', _, e2, e3, e4, hoth, hmono, hsrc, hrep, hcl, hnd⟩ :=
    inheritFrom_leaf c (allFeatures ns) _ ts' { t with super := some x } hf1 hl hi
  refine ⟨t', ht', e2, e3, e4, ?_, hmono, hsrc, hrep, hcl, hnd⟩
  intro y hy
  rw [hoth y hy, find_relink ts c a x y hn]

theorem reparent_leaf_ok (ts : TypeSystem) (c a x : String) (t ns : TypeRec)
    (hn : (ts.types.map (·.name)).Nodup) (hf : find? ts c = some t) (hl : t.children = [])
    (hns : find? ts x = some ns) (hnot : subsumes ts c x = false)
    (hag : ∀ f ∈ allFeatures ns, ∀ g ∈ t.own ++ t.inh ++ allFeatures ns, g.name = f.name → featureEq g f = true) :
    ∃ ts', reparent ts c a x = .ok ts' := by
  have htn : t.name = c := find?_name hf
  have hf1 : find? (relink ts c a x) c = some { t with super := some x } := by
    rw [find_relink ts c a x c hn, hf, Option.map_some, relinkRec_self c a x t htn]
  unfold reparent
  simp only [hnot, Bool.false_eq_true, if_false, hns]
  exact inheritFrom_leaf_ok c (allFeatures ns) _ { t with super := some x } hf1 hl hag

end Cassis.TS
