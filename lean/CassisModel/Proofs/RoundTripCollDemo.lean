/-
Non-vacuity of the test `collAppliesB` (`Spec/RoundTripCollCheck.lean`): it answers `true` on the hand-built instance
`CollDemo` (every collection kind, inlined and shared), hence — by `collAppliesB_hyps`
(`Proofs/RoundTripCollCheck.lean`) — every hypothesis of `xmi_roundtrip_coll` holds there.

The instance is built from literals (`Gen.builtinTS` plus a literal type record, a literal heap and CAS), so the Lean
kernel evaluates the whole test — `saveXmi` (traversal, id assignment, writer) and all checkers — by `decide +kernel`;
no rewriting lemmas are needed (unlike `demo_applies`, `Properties/C01Applies.lean`).

The second component of `CollDemo.run` (`roundTripDiffs`, which also runs the reader `loadXmi`) does not reduce in the
kernel (string primitives of the reader); its evaluated results (`#eval`) are recorded in the comments of
`Spec/RoundTripCollCheck.lean` and are not used by any proof.
-/
import CassisModel.Spec.RoundTripCollCheck
import CassisModel.Proofs.RoundTripCollCheck

namespace Cassis.Xmi

/-- the test applies to the demo instance -/
theorem collDemo_applies : collAppliesB CollDemo.K CollDemo.ts [CollDemo.cas] 0 CollDemo.hp = true := by
  decide +kernel

/-- hence all hypotheses of `xmi_roundtrip_coll` hold on the demo instance -/
theorem collDemo_hyps :
    ∃ (c : Cas) (doc : XDoc) (st : Traverse.St), [CollDemo.cas][0]? = some c ∧
      saveXmi CollDemo.K CollDemo.ts [CollDemo.cas] 0 CollDemo.hp = .ok (doc, st) ∧
      RTWf c CollDemo.hp ∧ NullOk CollDemo.ts ∧
      (∀ q ∈ st.allFs, CollFs CollDemo.K CollDemo.ts c 0 st.heap q.2) ∧
      (∀ q ∈ st.allFs, ∀ nv ∈ c.views, q.1 ≠ nv.2.sofa.xid) ∧
      (∀ nv ∈ c.views, ∀ e ∈ Index.all nv.2.idx, slot st.heap e.oid "sofa" ≠ some .none) ∧
      MembersOk c st.heap :=
  collAppliesB_hyps _ _ _ _ _ collDemo_applies

/-! ### sanity checks: the first component of the evaluated examples of `Spec/RoundTripCollCheck.lean` -/

example : CollDemo.cx_demo.1 = true := collDemo_applies

/-- the test is not constantly true: an inlined array with `elements = None` (S2) is rejected -/
example : collAppliesB CollDemo.K CollDemo.ts [CollDemo.cas] 0
    (CollDemo.hp.set 2 (CollDemo.arr "uima.cas.IntegerArray" .none)) = false := by decide +kernel

example : CollDemo.cx_fsarray_null.1 = false := by decide +kernel          -- (S1)
example : CollDemo.cx_inline_elements_none.1 = false := by decide +kernel  -- (S2)
example : CollDemo.cx_strarray_obj_none.1 = false := by decide +kernel     -- (S3)
example : CollDemo.cx_inline_strlist_empty.1 = false := by decide +kernel  -- (S4)
example : CollDemo.cx_float_token_blank.1 = false := by decide +kernel     -- (S5)
example : CollDemo.cx_byte_range.1 = false := by decide +kernel            -- (S6)
example : CollDemo.cx_cyclic_spine.1 = false := by decide +kernel          -- (S7)
/-- … and it accepts the variations that are no restriction -/
example : CollDemo.ok_obj_elements_none.1 = true := by decide +kernel
example : CollDemo.ok_inline_lists_empty.1 = true := by decide +kernel
example : CollDemo.ok_inline_and_shared.1 = true := by decide +kernel

/-! ### reserved names: instances with a feature declared as `self` / `type` (`Spec/RoundTripCollCheck.lean`, `ResDemo`)

The test accepts them (evaluated by the kernel, the writer's `String.ofList f.name.toList.dropLast` included), hence
the hypotheses of `xmi_roundtrip_coll` hold on instances whose type has a reserved feature: a primitive one written as
the attribute `self`, a StringArray written as child elements `type`, a reference, a shared FSArray. -/

theorem resDemo_applies_self_prim :
    collAppliesB CollDemo.K (ResDemo.resTs "n" "self_") [CollDemo.cas] 0 (ResDemo.resHp "n" "self_") = true := by
  decide +kernel

theorem resDemo_applies_type_kids :
    collAppliesB CollDemo.K (ResDemo.resTs "sa" "type_") [CollDemo.cas] 0 (ResDemo.resHp "sa" "type_") = true := by
  decide +kernel

example : collAppliesB CollDemo.K (ResDemo.resTs "next" "type_") [CollDemo.cas] 0 (ResDemo.resHp "next" "type_") = true := by
  decide +kernel

/-- all hypotheses of `xmi_roundtrip_coll` hold on an instance with the reserved feature `type_` (a StringArray,
    written as child elements `type`) -/
theorem resDemo_hyps :
    ∃ (c : Cas) (doc : XDoc) (st : Traverse.St), [CollDemo.cas][0]? = some c ∧
      saveXmi CollDemo.K (ResDemo.resTs "sa" "type_") [CollDemo.cas] 0 (ResDemo.resHp "sa" "type_") = .ok (doc, st) ∧
      RTWf c (ResDemo.resHp "sa" "type_") ∧ NullOk (ResDemo.resTs "sa" "type_") ∧
      (∀ q ∈ st.allFs, CollFs CollDemo.K (ResDemo.resTs "sa" "type_") c 0 st.heap q.2) ∧
      (∀ q ∈ st.allFs, ∀ nv ∈ c.views, q.1 ≠ nv.2.sofa.xid) ∧
      (∀ nv ∈ c.views, ∀ e ∈ Index.all nv.2.idx, slot st.heap e.oid "sofa" ≠ some .none) ∧
      MembersOk c st.heap :=
  collAppliesB_hyps _ _ _ _ _ resDemo_applies_type_kids

/-- the flat test (`rtAppliesB`, hypotheses of `xmi_roundtrip_flat`) accepts the flat instance whose type has the two
    reserved features `self_` (integer) and `type_` (reference) -/
theorem resDemo_flat_applies : rtAppliesB CollDemo.K ResDemo.flatTs [ResDemo.flatCas] 0 ResDemo.flatHp = true := by
  decide +kernel

/-- the type of that instance does have a reserved feature -/
example : ((TS.find? (ResDemo.resTs "sa" "type_") "x.Doc").map
    (fun t => (TS.allFeatures t).any (fun f => f.reserved && f.name == "type_"))) = some true := by decide +kernel

end Cassis.Xmi
