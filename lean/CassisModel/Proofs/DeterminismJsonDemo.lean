/-
Non-vacuity and evaluated counterexamples for `Properties/C14Json.lean`.

Instance `casD`/`hpD` (type system `demoTS'` of `Proofs/RoundTripDemo.lean`: built-ins plus the annotation type `x.Tok`):
one view whose sofa has a byte array (address 0, id 3), an indexed `x.Tok` (address 1, id 2) that refers to a second
`x.Tok` (address 2, no id yet: the traversal assigns 4).  All hypotheses of `saveJson_idempotent` hold.

Counterexamples for the statement without the two extra hypotheses:
* `casL`/`hp0` (`Proofs/RoundTripDemo.lean`): the indexed `x.Tok` has no id; the first document lists no member, the
  second lists member 3;
* `casB`/`hpB`: the sofa byte array has no id and is also referred to by the indexed `x.Tok`; the first document has
  `id := none` / `@sofaArray := null`, the second `id := some 3` / `@sofaArray := 3`.
-/
import CassisModel.Proofs.DeterminismJson
import CassisModel.Proofs.RoundTripDemo

namespace Cassis.Json.DetDemo
open Cassis Cassis.TS Cassis.Xmi Cassis.Traverse Cassis.Xmi.Demo Cassis.Json.DetJ

def sofaD : Sofa :=
  { sofaID := "_InitialView", sofaNum := 1, xid := 1, text := none, mime := some "x/y", uri := none,
    arr := .ref 0, conv := none }

def casD : Cas :=
  { views := [("_InitialView", { sofa := sofaD, idx := [("x.Tok", [{ b := 0, e := 0, oid := 1 }])] })],
    nextXid := 4, nextSofaNum := 2 }

def tok (x : Option Int) (next : Val) : Obj :=
  { ty := "x.Tok", ts := 0, xid := x,
    slots := [("n", .int 7), ("next", next), ("begin", .int 0), ("end", .int 0), ("sofa", .sofa 0 "_InitialView")] }

def hpD : Heap :=
  [ { ty := "uima.cas.ByteArray", ts := 0, xid := some 3, slots := [("elements", .ints [1, 2])] },
    tok (some 2) (.ref 2), tok none .none ]

/-- the same with an id-less byte array that the indexed structure refers to -/
def casB : Cas := { casD with nextXid := 3 }
def hpB : Heap :=
  [ { ty := "uima.cas.ByteArray", ts := 0, xid := none, slots := [("elements", .ints [1, 2])] }, tok (some 2) (.ref 0) ]

/-! ### Boolean checkers -/

def idsBelowB (hp : Heap) (nx : Int) : Bool :=
  hp.all (fun o => match o.xid with | some x => decide (x < nx) | none => true)

theorem idsBelowB_sound (hp : Heap) (nx : Int) (h : idsBelowB hp nx = true) : IdsBelow hp nx := by
  intro a ob x ha hx
  have := List.all_eq_true.mp h ob (List.mem_of_getElem? ha)
  rw [hx] at this
  exact of_decide_eq_true this

def refsHaveIdsB (hp : Heap) (a : Nat) : Bool :=
  (xidOf hp a).isSome &&
  match hp[a]? with
  | none => true
  | some o => o.slots.all (fun p =>
      match p.2 with
      | .ref t => (xidOf hp t).isSome
      | .refs l => l.all (fun r => match r with | some t => (xidOf hp t).isSome | none => true)
      | _ => true)

theorem refsHaveIdsB_sound (hp : Heap) (a : Nat) (h : refsHaveIdsB hp a = true) : RefsHaveIds hp a := by
  unfold refsHaveIdsB at h
  rw [Bool.and_eq_true] at h
  refine ⟨h.1, ?_⟩
  have h2 := h.2
  intro n
  cases ho : hp[a]? with
  | none =>
    have hs : ∀ v, Xmi.slot hp a n ≠ some v := by
      intro v hv
      unfold Xmi.slot Traverse.slot at hv
      rw [ho] at hv
      cases hv
    exact ⟨fun t ht => absurd ht (hs _), fun l t hl _ => absurd hl (hs _)⟩
  | some o =>
    rw [ho] at h2
    dsimp only at h2
    have hall := List.all_eq_true.mp h2
    have hs : ∀ v, Xmi.slot hp a n = some v → (n, v) ∈ o.slots := by
      intro v hv
      unfold Xmi.slot Traverse.slot at hv
      rw [ho] at hv
      exact Cas.alistGet?_some_mem hv
    refine ⟨fun t ht => ?_, fun l t hl hm => ?_⟩
    · exact hall _ (hs _ ht)
    · have := hall _ (hs _ hl)
      dsimp only at this
      exact List.all_eq_true.mp this (some t) hm

/-! ### the instance -/

theorem demoD_ids : ∀ nv ∈ casD.views, ∀ e ∈ Index.all nv.2.idx, (xidOf hpD e.oid).isSome = true := by
  decide +kernel

theorem demoD_arr : ∀ nv ∈ casD.views, ∀ a, nv.2.sofa.arr = .ref a → RefsHaveIds hpD a := by
  intro nv hnv a ha
  simp only [casD, List.mem_singleton] at hnv
  subst hnv
  cases ha
  exact refsHaveIdsB_sound hpD 0 (by decide +kernel)

theorem demoD_below : IdsBelow hpD casD.nextXid := idsBelowB_sound _ _ (by decide +kernel)

theorem demoD_save (mode : Mode) : (saveJson K demoTS' [casD] 0 hpD mode).toBool = true := by
  cases mode <;> decide +kernel

/-- **non-vacuity** of `saveJson_idempotent` (every mode): all hypotheses hold on the instance -/
theorem demoD_hyps (mode : Mode) : ∃ (doc : JDoc) (st : Traverse.St),
    [casD][0]? = some casD ∧ 0 < casD.nextXid ∧ IdsBelow hpD casD.nextXid ∧
    (∀ nv ∈ casD.views, ∀ e ∈ Index.all nv.2.idx, (xidOf hpD e.oid).isSome = true) ∧
    (∀ nv ∈ casD.views, ∀ a, nv.2.sofa.arr = .ref a → RefsHaveIds hpD a) ∧
    saveJson K demoTS' [casD] 0 hpD mode = .ok (doc, st) := by
  obtain ⟨r, hr⟩ := toBool_true (demoD_save mode)
  exact ⟨r.1, r.2, rfl, by decide, demoD_below, demoD_ids, demoD_arr, hr⟩

/-- the traversal of the instance does assign an id (the statement is not about a no-op) -/
theorem demoD_assigns : (saveJson K demoTS' [casD] 0 hpD .none).toOption.map (fun r => (r.2.nextXid, xidOf r.2.heap 2)) =
    some (5, some 4) := by decide +kernel

/-! ### counterexamples without the extra hypotheses (evaluated by the kernel) -/

/-- first and second serialisation, started from `c`/`hp` -/
def twice (c : Cas) (hp : Heap) : Option (JDoc × JDoc) :=
  match saveJson K demoTS' [c] 0 hp .none with
  | .error _ => none
  | .ok (d1, s1) =>
    match saveJson K demoTS' ([c].set 0 { c with nextXid := s1.nextXid }) 0 s1.heap .none with
    | .error _ => none
    | .ok (d2, _) => some (d1, d2)

/-- without `hids`: an indexed structure without id is missing from the members of the first document -/
theorem cx_members : (twice casL hp0).map (fun r => (r.1.views.map (·.members), r.2.views.map (·.members))) =
    some ([[]], [[3]]) := by decide +kernel

/-- without `harr`: a sofa byte array without id that an indexed structure refers to -/
theorem cx_sofaArray : (twice casB hpB).map (fun r => ((r.1.fss.map (·.id)), (r.2.fss.map (·.id)))) =
    some ([none, some 1, some 2, some 3], [some 3, some 1, some 2, some 3]) := by decide +kernel

end Cassis.Json.DetDemo
