/-
Cell-level sensitivity of `_render_feature_value`: which pairs of values can never be rendered to the same cell.
-/
import CassisModel.Proofs.ComparableSensUpd

namespace Cassis.Comparable
open Cassis.TS Cassis.Traverse

/-- the two values are never rendered to the same cell (whatever the recursion budgets) -/
def CellNe (K : Consts) (hp hp' : Heap) (byId byId' : List (Option Int × String)) (v v' : Val) : Prop :=
  ∀ F F' c, renderVal K hp byId F v = .ok c → renderVal K hp' byId' F' v' = .ok c → False

theorem cellNe_prim {K : Consts} {hp hp' : Heap} {byId byId' : List (Option Int × String)} {p p' : Val}
    (hd : PrimDiffer p p') : CellNe K hp hp' byId byId' p p' := by
  intro F F' c h h'
  cases p <;> cases p' <;> simp only [PrimDiffer] at hd <;>
    simp only [renderVal, Except.ok.injEq] at h h' <;> subst h <;>
    simp only [Cell.null, NULL_VALUE, Cell.int.injEq, Cell.str.injEq, Cell.bool.injEq, Cell.float.injEq,
      reduceCtorEq] at h' <;>
    first
      | exact hd h'
      | exact hd h'.symm
      | (simp only [NULL_VALUE] at hd; exact hd h')
      | (simp only [NULL_VALUE] at hd; exact hd h'.symm)

theorem map_transfer {α β γ : Type} (φ : α → β) (ψ : α → γ) (hφ : ∀ a b, φ a = φ b → ψ a = ψ b) (l l' : List α)
    (h : l.map φ = l'.map φ) : l.map ψ = l'.map ψ := by
  induction l generalizing l' with
  | nil =>
    cases l' with
    | nil => rfl
    | cons b bs => simp at h
  | cons a as ih =>
    cases l' with
    | nil => simp at h
    | cons b bs =>
      simp only [List.map_cons, List.cons.injEq] at h ⊢
      exact ⟨hφ a b h.1, ih bs h.2⟩

theorem except_map_ok {α β : Type} {f : α → β} {x : Except Err α} {c : β} (h : Except.map f x = .ok c) :
    ∃ y, x = .ok y ∧ c = f y := by
  cases x with
  | error e => cases h
  | ok y => exact ⟨y, rfl, (Except.ok.inj h).symm⟩

theorem cellNe_primArr {K : Consts} {hp hp' : Heap} {byId byId' : List (Option Int × String)} {v v' : Val}
    (hd : PrimArrDiffer v v') : CellNe K hp hp' byId byId' v v' := by
  intro F F' c h h'
  cases v <;> cases v' <;> simp only [PrimArrDiffer] at hd
  case ints.ints l l' =>
    simp only [renderVal, Except.ok.injEq] at h h'
    subst h
    simp only [Cell.list.injEq] at h'
    exact hd ((List.map_inj_right (fun _ _ e => Cell.int.inj e)).1 h').symm
  case floats.floats l l' =>
    simp only [renderVal, Except.ok.injEq] at h h'
    subst h
    simp only [Cell.list.injEq] at h'
    exact hd ((List.map_inj_right (fun _ _ e => Cell.float.inj e)).1 h').symm
  case bools.bools l l' =>
    simp only [renderVal, Except.ok.injEq] at h h'
    subst h
    simp only [Cell.list.injEq] at h'
    exact hd ((List.map_inj_right (fun _ _ e => Cell.bool.inj e)).1 h').symm
  case strs.strs l l' =>
    simp only [renderVal, Except.ok.injEq] at h h'
    subst h
    simp only [Cell.list.injEq] at h'
    apply hd
    refine (map_transfer _ _ ?_ _ _ h').symm
    intro a b hab
    cases a <;> cases b <;>
      simp only [Cell.null, NULL_VALUE, Cell.str.injEq] at hab <;> simp [NULL_VALUE, hab]

theorem cellNe_ref {K : Consts} {hp hp' : Heap} {byId byId' : List (Option Int × String)} {x y : Nat}
    (hx : isArrayFs K hp x = false) (hy : isArrayFs K hp' y = false)
    (hne : ∃ s s', getById byId (xidOf hp x) = some s ∧ getById byId' (xidOf hp' y) = some s' ∧ s ≠ s') :
    CellNe K hp hp' byId byId' (.ref x) (.ref y) := by
  intro F F' c h h'
  obtain ⟨s, s', h1, h2, h3⟩ := hne
  cases F with
  | zero => simp only [renderVal] at h; cases h
  | succ F =>
    cases F' with
    | zero => simp only [renderVal] at h'; cases h'
    | succ F' =>
      simp only [renderVal, hx, hy, h1, h2, Bool.false_eq_true, if_false, Except.ok.injEq] at h h'
      subst h
      exact h3 (Cell.str.inj h').symm

theorem mapM_ok_getElem {α β : Type} (g : α → Except Err β) (l : List α) (cs : List β) (h : l.mapM g = .ok cs)
    (i : Nat) (v : α) (hv : l[i]? = some v) : ∃ c, cs[i]? = some c ∧ g v = .ok c := by
  induction l generalizing cs i with
  | nil => simp at hv
  | cons a as ih =>
    rw [List.mapM_cons] at h
    cases ha : g a with
    | error e =>
      rw [ha] at h
      cases h
    | ok b =>
      rw [ha] at h
      cases has : as.mapM g with
      | error e =>
        rw [has] at h
        cases h
      | ok bs =>
        rw [has] at h
        have hcs : cs = b :: bs := by
          have : Except.ok (b :: bs) = Except.ok cs := h
          exact (Except.ok.inj this).symm
        subst hcs
        cases i with
        | zero =>
          simp only [List.getElem?_cons_zero, Option.some.injEq] at hv
          subst hv
          exact ⟨b, rfl, ha⟩
        | succ i =>
          simp only [List.getElem?_cons_succ] at hv ⊢
          exact ih bs has i hv

theorem cellNe_refs {K : Consts} {hp hp' : Heap} {byId byId' : List (Option Int × String)} {l l' : List (Option Nat)}
    {i x y : Nat} (hx : l[i]? = some (some x)) (hy : l'[i]? = some (some y))
    (hne : CellNe K hp hp' byId byId' (.ref x) (.ref y)) :
    CellNe K hp hp' byId byId' (.refs l) (.refs l') := by
  intro F F' c h h'
  cases F with
  | zero => simp only [renderVal] at h; cases h
  | succ F =>
    cases F' with
    | zero => simp only [renderVal] at h'; cases h'
    | succ F' =>
      simp only [renderVal] at h h'
      obtain ⟨cs, hm, e1⟩ := except_map_ok h
      obtain ⟨cs', hm', e2⟩ := except_map_ok h'
      rw [e1] at e2
      have e3 : cs = cs' := Cell.list.inj e2
      subst e3
      obtain ⟨c1, hc1, hg1⟩ := mapM_ok_getElem _ l cs hm i _ hx
      obtain ⟨c2, hc2, hg2⟩ := mapM_ok_getElem _ l' cs hm' i _ hy
      rw [hc1] at hc2
      have : c1 = c2 := Option.some.inj hc2
      subst this
      exact hne F F' c1 hg1 hg2

/-- a reference to an array is rendered as its `elements` -/
theorem cellNe_deref {K : Consts} {hp hp' : Heap} {byId byId' : List (Option Int × String)} {arr : Nat} {v v' : Val}
    (ha : isArrayFs K hp arr = true) (ha' : isArrayFs K hp' arr = true)
    (hv : slot hp arr "elements" = some v) (hv' : slot hp' arr "elements" = some v')
    (hn : v ≠ .none) (hn' : v' ≠ .none) (hne : CellNe K hp hp' byId byId' v v') :
    CellNe K hp hp' byId byId' (.ref arr) (.ref arr) := by
  intro F F' c h h'
  cases F with
  | zero => simp only [renderVal] at h; cases h
  | succ F =>
    cases F' with
    | zero => simp only [renderVal] at h'; cases h'
    | succ F' =>
      simp only [renderVal, ha, ha', hv, hv', if_true] at h h'
      have e1 : renderVal K hp byId F v = .ok c := by
        cases v <;> first | exact absurd rfl hn | exact h
      have e2 : renderVal K hp' byId' F' v' = .ok c := by
        cases v' <;> first | exact absurd rfl hn' | exact h'
      exact hne F F' c e1 e2

end Cassis.Comparable
