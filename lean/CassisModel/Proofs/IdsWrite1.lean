/-
C09, document level (1): two different reachable structures on one id make the traversal fail.

`Reach` is transported between the heap before the traversal and the heap it leaves (the traversal only assigns
missing ids, and — the generator being positive — never the NULL id); completeness (C04) then puts both structures
into `allFs` under the id they already carried, which contradicts the distinctness of the keys (C15).
-/
import CassisModel.Spec.IdsWrite
import CassisModel.Proofs.Determinism
import CassisModel.Proofs.Cas

namespace Cassis.Traverse
open Cassis.TS

/-- what the final heap knows about the initial one: same shape, generator not lowered, assigned ids are not
    below the initial generator (no `IdsBelow` needed) -/
theorem findAllFs_fut (K : Consts) (ts : TypeSystem) (o : Opts) (hp : Heap) (nx : Int) (seeds : List Nat) (st : St)
    (h : findAllFs K ts o hp nx seeds = .ok st) : Fut hp nx st.heap st.nextXid :=
  findAllFs_pres (fun hp' nx' => Fut hp nx hp' nx')
    (fun _ nx' _ _ hP hob hx => hP.trans (Fut.set hob hx nx')) K ts o hp nx seeds st (Fut.refl _ _) h

theorem Fut.noNewNull {hp hp' : Heap} {nx nx' : Int} (fut : Fut hp nx hp' nx') (hnx : 0 < nx) : NoNewNull hp hp' := by
  intro a h0
  cases h : xidOf hp a with
  | some y =>
    have := fut.shape.xidOf h
    rw [this] at h0
    exact h0
  | none =>
    have := fut.fresh a 0 h h0
    omega

/-- reachability in a later heap is reachability in the earlier one (no hypothesis on the generator) -/
theorem Reach.back {K : Consts} {ts : TypeSystem} {o : Opts} {hp hp' : Heap} {lf : Nat} {seeds : List Nat}
    (sh : SameShape hp hp') {a : Nat} (h : Reach K ts o hp' lf seeds a) : Reach K ts o hp lf seeds a := by
  induction h with
  | seed a hs => exact .seed a hs
  | step a b _ hx hb ih =>
    exact .step a b ih (fun e => hx (sh.xidOf e)) (by rw [← succsOf_shape K ts o sh]; exact hb)

theorem reach_final_iff (K : Consts) (ts : TypeSystem) (o : Opts) (hp : Heap) (nx : Int) (seeds : List Nat) (st : St)
    (hnx : 0 < nx) (h : findAllFs K ts o hp nx seeds = .ok st) (lf a : Nat) :
    Reach K ts o st.heap lf seeds a ↔ Reach K ts o hp lf seeds a := by
  have fut := findAllFs_fut K ts o hp nx seeds st h
  exact ⟨Reach.back fut.shape, Reach.mono fut.shape (fut.noNewNull hnx)⟩

theorem key_unique {l : List (Int × Nat)} (hn : (l.map (·.1)).Nodup) {x : Int} {a b : Nat}
    (ha : (x, a) ∈ l) (hb : (x, b) ∈ l) : a = b := by
  induction l with
  | nil => cases ha
  | cons p l ih =>
    rw [List.map_cons, List.nodup_cons] at hn
    rcases List.mem_cons.mp ha with ha | ha <;> rcases List.mem_cons.mp hb with hb | hb
    · rw [← ha] at hb; exact (Prod.mk.inj hb).2.symm
    · exact absurd (List.mem_map.mpr ⟨(x, b), hb, by rw [← ha]⟩) hn.1
    · exact absurd (List.mem_map.mpr ⟨(x, a), ha, by rw [← hb]⟩) hn.1
    · exact ih hn.2 ha hb

/-- a reachable structure that carried an id (not the NULL id) is collected under exactly that id -/
theorem findAllFs_kept_collected (K : Consts) (ts : TypeSystem) (o : Opts) (hp : Heap) (nx : Int) (seeds : List Nat)
    (st : St) (hnx : 0 < nx) (h : findAllFs K ts o hp nx seeds = .ok st) (a : Nat) (x : Int) (hx : x ≠ 0)
    (hr : Reach K ts o hp (hp.length + 1) seeds a) (hxa : xidOf hp a = some x) :
    (x, a) ∈ st.allFs ∧ xidOf st.heap a = some x := by
  have fut := findAllFs_fut K ts o hp nx seeds st h
  have xa : xidOf st.heap a = some x := fut.shape.xidOf hxa
  have hr' := (reach_final_iff K ts o hp nx seeds st hnx h _ a).mpr hr
  have hm := findAllFs_complete_aux K ts o hp nx seeds st hnx h a hr' (by rw [xa]; intro e; exact hx (Option.some.inj e))
  obtain ⟨⟨y, a'⟩, hma, e⟩ := List.mem_map.mp hm
  simp only at e
  subst e
  have := (findAllFs_inv K ts o hp nx seeds st h).1.link y a' hma
  rw [xa] at this
  cases this
  exact ⟨hma, xa⟩

theorem findAllFs_duplicate_not_ok_aux (K : Consts) (ts : TypeSystem) (o : Opts) (hp : Heap) (nx : Int)
    (seeds : List Nat) (hnx : 0 < nx) (hd : ReachableDuplicate K ts o hp seeds) (st : St) :
    findAllFs K ts o hp nx seeds ≠ .ok st := by
  intro h
  obtain ⟨a, b, x, hab, hx, ha, hb, hxa, hxb⟩ := hd
  have ma := (findAllFs_kept_collected K ts o hp nx seeds st hnx h a x hx ha hxa).1
  have mb := (findAllFs_kept_collected K ts o hp nx seeds st hnx h b x hx hb hxb).1
  exact hab (key_unique (findAllFs_inv K ts o hp nx seeds st h).1.nodupK ma mb)

end Cassis.Traverse
