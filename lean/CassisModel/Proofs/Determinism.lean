/-
Proofs for C14 (determinism of serialisation, idempotence of the traversal).

* the insertion sorts (`sortById`, `sortInts`, `sortByName`, `sortStrs`) return the unique sorted permutation,
  so their result does not depend on the order of the input;
* `toDescriptor` reads the registry only through name lookups and sorted filters;
* `findAllFs` run again on the state it left follows the first run step by step (`run_sim`): the visited test
  `seenId` gives the same answer against the intermediate heap of the first run and against the final heap,
  because an id that is assigned later is not below the generator and therefore not yet a key of `allFs`;
* `saveXmi` reads the CAS list only to look up views by name.
-/
import CassisModel.Spec.Determinism
import CassisModel.Proofs.Xmi
import CassisModel.Proofs.Reach

namespace Cassis

/-! ### generic helpers -/
namespace Det

theorem inj_of_nodup_map {α β : Type} (f : α → β) (l : List α) (hn : (l.map f).Nodup) {a b : α}
    (ha : a ∈ l) (hb : b ∈ l) (h : f a = f b) : a = b := by
  induction l with
  | nil => cases ha
  | cons c l ih =>
    rw [List.map_cons, List.nodup_cons] at hn
    rcases List.mem_cons.mp ha with hac | ha'
    · rcases List.mem_cons.mp hb with hbc | hb'
      · rw [hac, hbc]
      · subst hac
        exact absurd (h ▸ List.mem_map_of_mem (f := f) hb') hn.1
    · rcases List.mem_cons.mp hb with hbc | hb'
      · subst hbc
        exact absurd (h.symm ▸ List.mem_map_of_mem (f := f) ha') hn.1
      · exact ih hn.2 ha' hb'

theorem find?_perm {α : Type} (p : α → Bool) (l l' : List α) (hp : l.Perm l')
    (huniq : ∀ a b, a ∈ l → b ∈ l → p a = true → p b = true → a = b) : l.find? p = l'.find? p := by
  cases h : l.find? p with
  | none =>
    have hn := List.find?_eq_none.mp h
    symm
    apply List.find?_eq_none.mpr
    intro x hx
    exact hn x (hp.mem_iff.mpr hx)
  | some a =>
    have ha := List.mem_of_find?_eq_some h
    have hpa := List.find?_some h
    cases h' : l'.find? p with
    | none =>
      have hn := List.find?_eq_none.mp h'
      exact absurd hpa (hn a (hp.mem_iff.mp ha))
    | some b =>
      have hb := List.mem_of_find?_eq_some h'
      have hpb := List.find?_some h'
      rw [huniq a b ha (hp.mem_iff.mpr hb) hpa hpb]

theorem nodup_eraseDups_len {α : Type} [BEq α] [LawfulBEq α] (n : Nat) (l : List α) (hl : l.length ≤ n) :
    l.eraseDups.Nodup := by
  induction n generalizing l with
  | zero =>
    have : l = [] := List.eq_nil_of_length_eq_zero (Nat.le_zero.1 hl)
    subst this
    simp
  | succ n ih =>
    cases l with
    | nil => simp
    | cons a as =>
      rw [List.eraseDups_cons, List.nodup_cons]
      refine ⟨?_, ih _ ?_⟩
      · rw [List.mem_eraseDups, List.mem_filter]
        simp
      · have := List.length_filter_le (fun b => !b == a) as
        simp only [List.length_cons] at hl
        omega

theorem nodup_eraseDups {α : Type} [BEq α] [LawfulBEq α] (l : List α) : l.eraseDups.Nodup :=
  nodup_eraseDups_len l.length l (Nat.le_refl _)

theorem eraseDups_perm {α : Type} [BEq α] [LawfulBEq α] (l l' : List α) (h : l.Perm l') :
    l.eraseDups.Perm l'.eraseDups := by
  rw [List.perm_ext_iff_of_nodup (nodup_eraseDups _) (nodup_eraseDups _)]
  intro t
  rw [List.mem_eraseDups, List.mem_eraseDups]
  exact h.mem_iff

end Det

/-! ### the sorts -/

namespace Xmi
open Cassis.TS

theorem sortById_perm_invariant_aux (l l' : List (Int × Nat)) (hp : l.Perm l') (hn : (l.map (·.1)).Nodup) :
    sortById l = sortById l' := by
  refine List.Perm.eq_of_pairwise (le := fun p q => p.1 ≤ q.1) ?_ (sortById_sorted_aux l) (sortById_sorted_aux l')
    (((sortById_perm_aux l).trans hp).trans (sortById_perm_aux l').symm)
  intro a b ha hb hab hba
  have ha' : a ∈ l := (sortById_perm_aux l).mem_iff.mp ha
  have hb' : b ∈ l := hp.mem_iff.mpr ((sortById_perm_aux l').mem_iff.mp hb)
  exact Det.inj_of_nodup_map (·.1) l hn ha' hb' (Int.le_antisymm hab hba)

theorem insertInt_perm (x : Int) (l : List Int) : (insertInt x l).Perm (x :: l) := by
  induction l with
  | nil => exact List.Perm.refl _
  | cons y ys ih =>
    unfold insertInt
    split
    · exact List.Perm.refl _
    · exact (List.Perm.cons y ih).trans (List.Perm.swap x y ys)

theorem sortInts_perm (l : List Int) : (sortInts l).Perm l := by
  induction l with
  | nil => exact List.Perm.refl _
  | cons a l ih =>
    show (insertInt a (sortInts l)).Perm (a :: l)
    exact (insertInt_perm a _).trans (List.Perm.cons a ih)

theorem insertInt_sorted (x : Int) (l : List Int) (h : l.Pairwise (· ≤ ·)) :
    (insertInt x l).Pairwise (· ≤ ·) := by
  induction l with
  | nil => exact List.pairwise_singleton _ _
  | cons y ys ih =>
    unfold insertInt
    have hq := List.pairwise_cons.mp h
    split
    · rename_i hle
      refine List.pairwise_cons.mpr ⟨?_, h⟩
      intro r hr
      rcases List.mem_cons.mp hr with rfl | hr
      · exact hle
      · exact Int.le_trans hle (hq.1 r hr)
    · rename_i hle
      refine List.pairwise_cons.mpr ⟨?_, ih hq.2⟩
      intro r hr
      have hr' := (insertInt_perm x ys).mem_iff.mp hr
      rcases List.mem_cons.mp hr' with rfl | hr'
      · omega
      · exact hq.1 r hr'

theorem sortInts_sorted (l : List Int) : (sortInts l).Pairwise (· ≤ ·) := by
  induction l with
  | nil => exact List.Pairwise.nil
  | cons a l ih =>
    show (insertInt a (sortInts l)).Pairwise _
    exact insertInt_sorted a _ ih

theorem sortInts_perm_invariant_aux (l l' : List Int) (hp : l.Perm l') : sortInts l = sortInts l' := by
  refine List.Perm.eq_of_pairwise (le := (· ≤ ·)) ?_ (sortInts_sorted l) (sortInts_sorted l')
    (((sortInts_perm l).trans hp).trans (sortInts_perm l').symm)
  intro a b _ _ hab hba
  exact Int.le_antisymm hab hba

end Xmi

namespace Json
open Cassis.TS

theorem insertByName_perm (x : TypeRec) (l : List TypeRec) : (insertByName x l).Perm (x :: l) := by
  induction l with
  | nil => exact List.Perm.refl _
  | cons y ys ih =>
    unfold insertByName
    split
    · exact List.Perm.refl _
    · exact (List.Perm.cons y ih).trans (List.Perm.swap x y ys)

theorem sortByName_perm (l : List TypeRec) : (sortByName l).Perm l := by
  induction l with
  | nil => exact List.Perm.refl _
  | cons a l ih =>
    show (insertByName a (sortByName l)).Perm (a :: l)
    exact (insertByName_perm a _).trans (List.Perm.cons a ih)

theorem insertByName_sorted (x : TypeRec) (l : List TypeRec) (h : l.Pairwise (fun p q => p.name ≤ q.name)) :
    (insertByName x l).Pairwise (fun p q => p.name ≤ q.name) := by
  induction l with
  | nil => exact List.pairwise_singleton _ _
  | cons y ys ih =>
    unfold insertByName
    have hq := List.pairwise_cons.mp h
    split
    · rename_i hle
      refine List.pairwise_cons.mpr ⟨?_, h⟩
      intro r hr
      rcases List.mem_cons.mp hr with rfl | hr
      · exact hle
      · exact String.le_trans hle (hq.1 r hr)
    · rename_i hle
      refine List.pairwise_cons.mpr ⟨?_, ih hq.2⟩
      intro r hr
      have hr' := (insertByName_perm x ys).mem_iff.mp hr
      rcases List.mem_cons.mp hr' with rfl | hr'
      · rcases String.le_total y.name r.name with h | h
        · exact h
        · exact absurd h hle
      · exact hq.1 r hr'

theorem sortByName_sorted (l : List TypeRec) : (sortByName l).Pairwise (fun p q => p.name ≤ q.name) := by
  induction l with
  | nil => exact List.Pairwise.nil
  | cons a l ih =>
    show (insertByName a (sortByName l)).Pairwise _
    exact insertByName_sorted a _ ih

theorem sortByName_perm_invariant_aux (l l' : List TypeRec) (hp : l.Perm l') (hn : (l.map (·.name)).Nodup) :
    sortByName l = sortByName l' := by
  refine List.Perm.eq_of_pairwise (le := fun p q => p.name ≤ q.name) ?_ (sortByName_sorted l) (sortByName_sorted l')
    (((sortByName_perm l).trans hp).trans (sortByName_perm l').symm)
  intro a b ha hb hab hba
  have ha' : a ∈ l := (sortByName_perm l).mem_iff.mp ha
  have hb' : b ∈ l := hp.mem_iff.mpr ((sortByName_perm l').mem_iff.mp hb)
  exact Det.inj_of_nodup_map (·.name) l hn ha' hb' (String.le_antisymm hab hba)

end Json

namespace TsXml
open Cassis.TS

theorem insertStr_perm (x : String) (l : List String) : (insertStr x l).Perm (x :: l) := by
  induction l with
  | nil => exact List.Perm.refl _
  | cons y ys ih =>
    unfold insertStr
    split
    · exact List.Perm.refl _
    · exact (List.Perm.cons y ih).trans (List.Perm.swap x y ys)

theorem sortStrs_perm (l : List String) : (sortStrs l).Perm l := by
  induction l with
  | nil => exact List.Perm.refl _
  | cons a l ih =>
    show (insertStr a (sortStrs l)).Perm (a :: l)
    exact (insertStr_perm a _).trans (List.Perm.cons a ih)

theorem insertStr_sorted (x : String) (l : List String) (h : l.Pairwise (· ≤ ·)) :
    (insertStr x l).Pairwise (· ≤ ·) := by
  induction l with
  | nil => exact List.pairwise_singleton _ _
  | cons y ys ih =>
    unfold insertStr
    have hq := List.pairwise_cons.mp h
    split
    · rename_i hle
      refine List.pairwise_cons.mpr ⟨?_, h⟩
      intro r hr
      rcases List.mem_cons.mp hr with rfl | hr
      · exact hle
      · exact String.le_trans hle (hq.1 r hr)
    · rename_i hle
      refine List.pairwise_cons.mpr ⟨?_, ih hq.2⟩
      intro r hr
      have hr' := (insertStr_perm x ys).mem_iff.mp hr
      rcases List.mem_cons.mp hr' with rfl | hr'
      · rcases String.le_total y r with h | h
        · exact h
        · exact absurd h hle
      · exact hq.1 r hr'

theorem sortStrs_sorted (l : List String) : (sortStrs l).Pairwise (· ≤ ·) := by
  induction l with
  | nil => exact List.Pairwise.nil
  | cons a l ih =>
    show (insertStr a (sortStrs l)).Pairwise _
    exact insertStr_sorted a _ ih

theorem sortStrs_perm_eq (l l' : List String) (hp : l.Perm l') : sortStrs l = sortStrs l' := by
  refine List.Perm.eq_of_pairwise (le := (· ≤ ·)) ?_ (sortStrs_sorted l) (sortStrs_sorted l')
    (((sortStrs_perm l).trans hp).trans (sortStrs_perm l').symm)
  intro a b _ _ hab hba
  exact String.le_antisymm hab hba

theorem find?_perm (ts ts' : TypeSystem) (ht : ts.types.Perm ts'.types) (hn : (ts.types.map (·.name)).Nodup)
    (n : String) : find? ts n = find? ts' n := by
  unfold find?
  apply Det.find?_perm _ _ _ ht
  intro a b ha hb hpa hpb
  apply Det.inj_of_nodup_map (·.name) _ hn ha hb
  have h1 : a.name = n := by simpa using hpa
  have h2 : b.name = n := by simpa using hpb
  rw [h1, h2]

def pick1 : List TypeRec → R TypeRec
  | [t] => .ok t
  | _ => .error .typeNotFound

theorem pick1_perm (l l' : List TypeRec) (h : l.Perm l') : pick1 l = pick1 l' := by
  match l, h with
  | [], h => rw [List.nil_perm.mp h]
  | [t], h => rw [List.perm_singleton.mp h.symm]
  | t :: u :: r, h =>
    have hl := h.length_eq
    match l', hl with
    | t' :: u' :: r', _ => rfl
    | [], hl => simp at hl
    | [_], hl => simp at hl

theorem getType_eq_pick (ts : TypeSystem) (n : String) :
    getType ts n = match find? ts n with
      | some t => .ok t
      | none => if hasDot n then .error .typeNotFound
                else pick1 (ts.types.filter (fun t => shortName t.name == n)) := by
  unfold getType pick1
  rfl

theorem getType_perm (ts ts' : TypeSystem) (ht : ts.types.Perm ts'.types) (hn : (ts.types.map (·.name)).Nodup)
    (n : String) : getType ts n = getType ts' n := by
  rw [getType_eq_pick, getType_eq_pick, find?_perm ts ts' ht hn n,
    pick1_perm _ _ (List.Perm.filter (fun t => shortName t.name == n) ht)]

theorem toDescriptor_perm_invariant_aux (K : Consts) (ts ts' : TypeSystem) (ht : ts.types.Perm ts'.types)
    (hr : ts.redeclared.Perm ts'.redeclared) (hn : (ts.types.map (·.name)).Nodup) :
    toDescriptor K ts = toDescriptor K ts' := by
  unfold toDescriptor
  rw [sortStrs_perm_eq _ _ (Det.eraseDups_perm _ _ hr)]
  have hf : (fun n => do let t ← getType ts n; pure (renderType t) : String → Except Err TDesc) =
            (fun n => do let t ← getType ts' n; pure (renderType t)) := by
    funext n; rw [getType_perm ts ts' ht hn n]
  rw [hf]
  have hg : Json.sortByName (getTypes K ts false) = Json.sortByName (getTypes K ts' false) := by
    unfold getTypes
    simp only [Bool.false_eq_true, if_false]
    apply Json.sortByName_perm_invariant_aux _ _ (List.Perm.filter _ ht)
    exact (List.Sublist.map _ List.filter_sublist).nodup hn
  rw [hg]

end TsXml
end Cassis

namespace Cassis.Traverse
open Cassis.TS

/-- `step` once the popped object is known to carry id `x` and to be of type `ty` -/
def stepCore (K : Consts) (ts : TypeSystem) (o : Opts) (fuel : Nat) (s : St) (a : Nat) (rest : List Nat)
    (x : Int) (ty : String) : Except Err St :=
  if x == 0 then .ok { s with openl := rest, pops := s.pops + 1 }
  else
    match s.allFs.find? (fun p => p.1 == x) with
    | some (_, b) => if b == a then .ok { s with openl := rest, pops := s.pops + 1 } else .error .valueError
    | none =>
      match getType ts ty with
      | .error e => .error e
      | .ok t =>
        match nodeSuccs K ts o s.heap (s.allFs ++ [(x, a)]) fuel a t with
        | .error e => .error e
        | .ok (ps, n) =>
          .ok { s with allFs := s.allFs ++ [(x, a)], openl := rest ++ ps, pops := s.pops + 1,
                       pushes := s.pushes + ps.length, listSteps := s.listSteps + n }

theorem step_some (K : Consts) (ts : TypeSystem) (o : Opts) (lf : Nat) (s : St) (a : Nat) (rest : List Nat)
    (ob : Obj) (x : Int) (hob : s.heap[a]? = some ob) (hx : ob.xid = some x) :
    step K ts o lf s a rest = stepCore K ts o lf s a rest x ob.ty := by
  unfold step stepCore
  simp only [bind, Except.bind, pure, Except.pure, throw, throwThe, MonadExceptOf.throw, hob, hx]
  by_cases h0 : x = 0
  · subst h0; simp
  · have : (some x == some (0:Int)) = false := by simp [h0]
    have h0' : (x == 0) = false := by simp [h0]
    simp only [this, h0', Bool.false_eq_true, if_false]
    repeat' split
    all_goals first
      | rfl
      | simp_all

theorem step_none (K : Consts) (ts : TypeSystem) (o : Opts) (lf : Nat) (s : St) (a : Nat) (rest : List Nat)
    (ob : Obj) (hob : s.heap[a]? = some ob) (hx : ob.xid = none) (hnx : s.nextXid ≠ 0) :
    step K ts o lf s a rest =
      if o.generateIds then
        stepCore K ts o lf { s with nextXid := s.nextXid + 1, heap := s.heap.set a { ob with xid := some s.nextXid } }
          a rest s.nextXid ob.ty
      else .error .valueError := by
  unfold step stepCore
  simp only [bind, Except.bind, pure, Except.pure, throw, throwThe, MonadExceptOf.throw, hob, hx]
  have h0' : (s.nextXid == 0) = false := by simp [hnx]
  have : ((none : Option Int) == some (0:Int)) = false := by rfl
  simp only [this, h0', Bool.false_eq_true, if_false]
  cases o.generateIds
  · simp
  · simp only [if_true]
    repeat' split
    all_goals first
      | rfl
      | simp_all

theorem stepCore_frame (K : Consts) (ts : TypeSystem) (o : Opts) (lf : Nat) (s : St) (a : Nat) (rest : List Nat)
    (x : Int) (ty : String) (s' : St) (h : stepCore K ts o lf s a rest x ty = .ok s') :
    s'.heap = s.heap ∧ s'.nextXid = s.nextXid := by
  unfold stepCore at h
  repeat' split at h
  all_goals first
    | (cases h; done)
    | (cases h; exact ⟨rfl, rfl⟩)

/-! ### successors only read the heap through slots and the visited test -/

theorem refsToPush_congr (hp hp' : Heap) (allFs : List (Int × Nat))
    (hseen : ∀ t, seenId allFs (xidOf hp t) t = seenId allFs (xidOf hp' t) t) (l : List (Option Nat)) :
    refsToPush hp allFs l = refsToPush hp' allFs l := by
  unfold refsToPush
  simp only [hseen]

theorem walkList_congr (hp hp' : Heap) (allFs : List (Int × Nat)) (hslot : ∀ a n, slot hp a n = slot hp' a n)
    (hseen : ∀ t, seenId allFs (xidOf hp t) t = seenId allFs (xidOf hp' t) t) (f : Nat) (v : Val) :
    walkList hp allFs f v = walkList hp' allFs f v := by
  induction f generalizing v with
  | zero => unfold walkList; rfl
  | succ f ih =>
    cases v with
    | ref a =>
      unfold walkList
      simp only [hslot, hseen, ih]
    | _ => unfold walkList; rfl

theorem featureSuccs_congr (K : Consts) (ts : TypeSystem) (o : Opts) (hp hp' : Heap) (allFs : List (Int × Nat))
    (hslot : ∀ a n, slot hp a n = slot hp' a n)
    (hseen : ∀ t, seenId allFs (xidOf hp t) t = seenId allFs (xidOf hp' t) t) (lf a : Nat) (f : Feature) :
    featureSuccs K ts o hp allFs lf a f = featureSuccs K ts o hp' allFs lf a f := by
  unfold featureSuccs
  simp only [hslot, hseen, refsToPush_congr hp hp' allFs hseen, walkList_congr hp hp' allFs hslot hseen]

theorem featuresSuccs_congr (K : Consts) (ts : TypeSystem) (o : Opts) (hp hp' : Heap) (allFs : List (Int × Nat))
    (hslot : ∀ a n, slot hp a n = slot hp' a n)
    (hseen : ∀ t, seenId allFs (xidOf hp t) t = seenId allFs (xidOf hp' t) t) (lf a : Nat) (fs : List Feature) :
    featuresSuccs K ts o hp allFs lf a fs = featuresSuccs K ts o hp' allFs lf a fs := by
  induction fs with
  | nil => rfl
  | cons f fs ih =>
    unfold featuresSuccs
    rw [featureSuccs_congr K ts o hp hp' allFs hslot hseen, ih]

theorem nodeSuccs_congr (K : Consts) (ts : TypeSystem) (o : Opts) (hp hp' : Heap) (allFs : List (Int × Nat))
    (hslot : ∀ a n, slot hp a n = slot hp' a n)
    (hseen : ∀ t, seenId allFs (xidOf hp t) t = seenId allFs (xidOf hp' t) t) (lf a : Nat) (t : TypeRec) :
    nodeSuccs K ts o hp allFs lf a t = nodeSuccs K ts o hp' allFs lf a t := by
  unfold nodeSuccs
  simp only [hslot, refsToPush_congr hp hp' allFs hseen, featuresSuccs_congr K ts o hp hp' allFs hslot hseen]

theorem stepCore_sim (K : Consts) (ts : TypeSystem) (o : Opts) (lf : Nat) (s1 s2 : St) (a : Nat) (rest : List Nat)
    (x : Int) (ty : String) (s1' : St) (hall : s2.allFs = s1.allFs)
    (hslot : ∀ b n, slot s1.heap b n = slot s2.heap b n)
    (hseen : ∀ t, seenId (s1.allFs ++ [(x, a)]) (xidOf s1.heap t) t = seenId (s1.allFs ++ [(x, a)]) (xidOf s2.heap t) t)
    (h : stepCore K ts o lf s1 a rest x ty = .ok s1') :
    ∃ s2', stepCore K ts o lf s2 a rest x ty = .ok s2' ∧ s2'.allFs = s1'.allFs ∧ s2'.openl = s1'.openl ∧
      s2'.heap = s2.heap ∧ s2'.nextXid = s2.nextXid := by
  unfold stepCore at h ⊢
  simp only [hall, ← nodeSuccs_congr K ts o s1.heap s2.heap _ hslot hseen]
  repeat' split at h
  all_goals first
    | (cases h; done)
    | (cases h; simp_all; done)

/-! ### what a later state knows about an earlier one -/

structure Fut (hp : Heap) (nx : Int) (hp' : Heap) (nx' : Int) : Prop where
  shape : SameShape hp hp'
  le : nx ≤ nx'
  fresh : ∀ a y, xidOf hp a = none → xidOf hp' a = some y → nx ≤ y

theorem Fut.refl (hp : Heap) (nx : Int) : Fut hp nx hp nx :=
  ⟨SameShape.refl _, Int.le_refl _, fun a y h h' => by rw [h] at h'; cases h'⟩

theorem Fut.trans {h1 h2 h3 : Heap} {n1 n2 n3 : Int} (a12 : Fut h1 n1 h2 n2) (a23 : Fut h2 n2 h3 n3) :
    Fut h1 n1 h3 n3 := by
  refine ⟨a12.shape.trans a23.shape, Int.le_trans a12.le a23.le, ?_⟩
  intro a y h h'
  cases h2x : xidOf h2 a with
  | none => exact Int.le_trans a12.le (a23.fresh a y h2x h')
  | some z =>
    have := a23.shape.xidOf h2x
    rw [this] at h'
    have e : z = y := Option.some.inj h'
    rw [← e]
    exact a12.fresh a z h h2x

theorem xidOf_set_self {hp : Heap} {a : Nat} {ob : Obj} (h : hp[a]? = some ob) (y : Option Int) :
    xidOf (hp.set a { ob with xid := y }) a = y := by
  have hlt : a < hp.length := (List.getElem?_eq_some_iff.mp h).1
  unfold xidOf
  rw [List.getElem?_set_self hlt]
  rfl

theorem xidOf_set_ne {hp : Heap} {a b : Nat} (ob' : Obj) (hab : a ≠ b) :
    xidOf (hp.set a ob') b = xidOf hp b := by
  unfold xidOf
  rw [List.getElem?_set_ne hab]

theorem Fut.set {hp : Heap} {a : Nat} {ob : Obj} (h : hp[a]? = some ob) (hx : ob.xid = none) (nx : Int) :
    Fut hp nx (hp.set a { ob with xid := some nx }) (nx + 1) := by
  refine ⟨SameShape.set h hx nx, by omega, ?_⟩
  intro b y hb hb'
  by_cases hab : a = b
  · subst hab
    rw [xidOf_set_self h] at hb'
    cases hb'
    exact Int.le_refl _
  · rw [xidOf_set_ne _ hab, hb] at hb'
    cases hb'

theorem idsBelow_iff (hp : Heap) (nx : Int) : IdsBelow hp nx ↔ ∀ a x, xidOf hp a = some x → x < nx := by
  constructor
  · intro h a x hx
    unfold xidOf at hx
    cases hob : hp[a]? with
    | none => rw [hob] at hx; cases hx
    | some ob => rw [hob] at hx; exact h a ob x hob hx
  · intro h a ob x hob hx
    apply h a x
    unfold xidOf
    rw [hob]
    exact hx

theorem IdsBelow.set {hp : Heap} {a : Nat} {ob : Obj} {nx : Int} (hb : IdsBelow hp nx) (h : hp[a]? = some ob) :
    IdsBelow (hp.set a { ob with xid := some nx }) (nx + 1) := by
  rw [idsBelow_iff] at hb ⊢
  intro b y hy
  by_cases hab : a = b
  · subst hab
    rw [xidOf_set_self h] at hy
    cases hy
    omega
  · rw [xidOf_set_ne _ hab] at hy
    have := hb b y hy
    omega

theorem step_fut (K : Consts) (ts : TypeSystem) (o : Opts) (lf : Nat) (s : St) (a : Nat) (rest : List Nat)
    (s' : St) (hpos : 0 < s.nextXid) (hb : IdsBelow s.heap s.nextXid) (h : step K ts o lf s a rest = .ok s') :
    Fut s.heap s.nextXid s'.heap s'.nextXid ∧ IdsBelow s'.heap s'.nextXid := by
  cases hob : s.heap[a]? with
  | none =>
    unfold step at h
    simp only [bind, Except.bind, throw, throwThe, MonadExceptOf.throw, hob] at h
    cases h
  | some ob =>
    cases hx : ob.xid with
    | some x =>
      rw [step_some K ts o lf s a rest ob x hob hx] at h
      obtain ⟨e1, e2⟩ := stepCore_frame K ts o lf _ a rest x ob.ty s' h
      rw [e1, e2]
      exact ⟨Fut.refl _ _, hb⟩
    | none =>
      rw [step_none K ts o lf s a rest ob hob hx (by omega)] at h
      split at h
      · obtain ⟨e1, e2⟩ := stepCore_frame K ts o lf _ a rest _ ob.ty s' h
        rw [e1, e2]
        exact ⟨Fut.set hob hx _, hb.set hob⟩
      · cases h

theorem run_fut (K : Consts) (ts : TypeSystem) (o : Opts) (lf : Nat) (f : Nat) (s s' : St)
    (hpos : 0 < s.nextXid) (hb : IdsBelow s.heap s.nextXid) (h : run K ts o lf f s = .ok s') :
    Fut s.heap s.nextXid s'.heap s'.nextXid ∧ IdsBelow s'.heap s'.nextXid := by
  induction f generalizing s with
  | zero =>
    unfold run at h
    split at h
    · cases h; exact ⟨Fut.refl _ _, hb⟩
    · cases h
  | succ f ih =>
    unfold run at h
    split at h
    · cases h; exact ⟨Fut.refl _ _, hb⟩
    · rename_i a rest ho
      cases hs : step K ts o lf s a rest with
      | error e => rw [hs] at h; cases h
      | ok s1 =>
        rw [hs] at h
        obtain ⟨f1, b1⟩ := step_fut K ts o lf s a rest s1 hpos hb hs
        obtain ⟨f2, b2⟩ := ih s1 (by have := f1.le; omega) b1 h
        exact ⟨f1.trans f2, b2⟩

theorem seen_agree {hm H : Heap} {nm N : Int} (fut : Fut hm nm H N) (allFs : List (Int × Nat))
    (hkeys : ∀ p ∈ allFs, p.1 < nm) (t : Nat) :
    seenId allFs (xidOf hm t) t = seenId allFs (xidOf H t) t := by
  cases h : xidOf hm t with
  | some y => rw [fut.shape.xidOf h]
  | none =>
    cases h' : xidOf H t with
    | none => rfl
    | some y =>
      have hle := fut.fresh t y h h'
      have : allFs.find? (fun p => p.1 == y) = none := by
        apply List.find?_eq_none.mpr
        intro p hp hpy
        have := hkeys p hp
        have : p.1 = y := by simpa using hpy
        omega
      unfold seenId
      simp only [this]

/-! ### the second run follows the first -/

theorem sim_core (K : Consts) (ts : TypeSystem) (o : Opts) (lf : Nat) (sE s2 s1' st : St) (a : Nat) (rest : List Nat)
    (x : Int) (ty : String) (obE : Obj)
    (hobE : sE.heap[a]? = some obE) (hxE : obE.xid = some x) (htyE : obE.ty = ty)
    (hb : IdsBelow sE.heap sE.nextXid)
    (hlink : ∀ y b, (y, b) ∈ sE.allFs → xidOf sE.heap b = some y)
    (hcore : stepCore K ts o lf sE a rest x ty = .ok s1')
    (fut : Fut s1'.heap s1'.nextXid st.heap st.nextXid)
    (hall : s2.allFs = sE.allFs) (hheap : s2.heap = st.heap) :
    ∃ s2', step K ts o lf s2 a rest = .ok s2' ∧ s2'.allFs = s1'.allFs ∧ s2'.openl = s1'.openl ∧
      s2'.heap = s2.heap ∧ s2'.nextXid = s2.nextXid := by
  obtain ⟨e1, e2⟩ := stepCore_frame K ts o lf sE a rest x ty s1' hcore
  rw [e1, e2, ← hheap] at fut
  obtain ⟨ob2, hob2, hty2, _, hx2⟩ := fut.shape.2 a obE hobE
  have hx2' : ob2.xid = some x := by rw [hx2 (by rw [hxE]; exact fun e => nomatch e), hxE]
  rw [step_some K ts o lf s2 a rest ob2 x hob2 hx2', hty2, htyE]
  have hbx := (idsBelow_iff _ _).mp hb
  refine stepCore_sim K ts o lf sE s2 a rest x ty s1' hall (fun b n => (fut.shape.slot b n).symm) ?_ hcore
  apply seen_agree fut
  intro p hp
  rcases List.mem_append.mp hp with hp | hp
  · exact hbx p.2 p.1 (hlink p.1 p.2 hp)
  · simp only [List.mem_singleton] at hp
    subst hp
    apply hbx a x
    unfold xidOf
    rw [hobE]
    exact hxE

theorem run_sim (K : Consts) (ts : TypeSystem) (o : Opts) (hp0 : Heap) (lf nseeds : Nat) (f : Nat) :
    ∀ (s1 st : St), run K ts o lf f s1 = .ok st → Inv K ts o hp0 lf nseeds s1 → 0 < s1.nextXid →
      IdsBelow s1.heap s1.nextXid →
      ∀ s2 : St, s2.allFs = s1.allFs → s2.openl = s1.openl → s2.heap = st.heap → s2.nextXid = st.nextXid →
        ∃ st', run K ts o lf f s2 = .ok st' ∧ st'.allFs = st.allFs ∧ st'.heap = st.heap ∧
          st'.nextXid = st.nextXid := by
  induction f with
  | zero =>
    intro s1 st h _ _ _ s2 hall hopen hheap hnx
    unfold run at h ⊢
    rw [hopen]
    split at h
    · rename_i he
      cases h
      rw [if_pos he]
      exact ⟨s2, rfl, hall, hheap, hnx⟩
    · cases h
  | succ f ih =>
    intro s1 st h inv hpos hb s2 hall hopen hheap hnx
    unfold run at h
    split at h
    · rename_i ho
      cases h
      refine ⟨s2, ?_, hall, hheap, hnx⟩
      unfold run
      rw [hopen, ho]
    · rename_i a rest ho
      cases hs : step K ts o lf s1 a rest with
      | error e => rw [hs] at h; cases h
      | ok s1' =>
        rw [hs] at h
        have h : run K ts o lf f s1' = .ok st := h
        obtain ⟨fut1, hb1⟩ := step_fut K ts o lf s1 a rest s1' hpos hb hs
        have hpos1 : 0 < s1'.nextXid := by have := fut1.le; omega
        obtain ⟨fut, _⟩ := run_fut K ts o lf f s1' st hpos1 hb1 h
        have inv1 := (inv_step K ts o hp0 lf nseeds s1 a rest s1' ho inv hs).1
        have key : ∃ s2', step K ts o lf s2 a rest = .ok s2' ∧ s2'.allFs = s1'.allFs ∧ s2'.openl = s1'.openl ∧
            s2'.heap = s2.heap ∧ s2'.nextXid = s2.nextXid := by
          cases hob : s1.heap[a]? with
          | none =>
            unfold step at hs
            simp only [bind, Except.bind, throw, throwThe, MonadExceptOf.throw, hob] at hs
            cases hs
          | some ob =>
            cases hx : ob.xid with
            | some x =>
              rw [step_some K ts o lf s1 a rest ob x hob hx] at hs
              exact sim_core K ts o lf s1 s2 s1' st a rest x ob.ty ob hob hx rfl hb inv.link hs fut hall hheap
            | none =>
              rw [step_none K ts o lf s1 a rest ob hob hx (by omega)] at hs
              split at hs
              · have hlt : a < s1.heap.length := (List.getElem?_eq_some_iff.mp hob).1
                refine sim_core K ts o lf _ s2 s1' st a rest s1.nextXid ob.ty { ob with xid := some s1.nextXid }
                  (List.getElem?_set_self hlt) rfl rfl (hb.set hob) ?_ hs fut hall hheap
                intro y b hm
                exact (SameShape.set hob hx _).xidOf (inv.link y b hm)
              · cases hs
        obtain ⟨s2', hs2, hall', hopen', hheap', hnx'⟩ := key
        obtain ⟨st', hr, r1, r2, r3⟩ := ih s1' st h inv1 hpos1 hb1 s2' hall' hopen' (hheap'.trans hheap)
          (hnx'.trans hnx)
        refine ⟨st', ?_, r1, r2, r3⟩
        unfold run
        rw [hopen, ho]
        simp only [hs2, bind, Except.bind]
        exact hr

theorem outdeg_shape (K : Consts) (ts : TypeSystem) (o : Opts) {hp hp' : Heap} (sh : SameShape hp hp')
    (lf a : Nat) : outdeg K ts o hp' lf a = outdeg K ts o hp lf a := by
  unfold outdeg
  cases h : hp[a]? with
  | none =>
    have : hp'[a]? = none := by
      apply List.getElem?_eq_none
      rw [sh.1]
      exact List.getElem?_eq_none_iff.mp h
    rw [this]
  | some ob =>
    obtain ⟨ob', e, t, _, _⟩ := sh.2 a ob h
    rw [e]
    simp only [t]
    cases getType ts ob.ty with
    | error e => rfl
    | ok t =>
      simp only
      rw [nodeSuccs_nil_eq K ts o hp' hp (fun a n => sh.slot a n) lf a t]

theorem totalOut_shape (K : Consts) (ts : TypeSystem) (o : Opts) {hp hp' : Heap} (sh : SameShape hp hp')
    (lf : Nat) : totalOut K ts o hp' lf = totalOut K ts o hp lf := by
  unfold totalOut
  rw [sh.1]
  congr 1
  apply List.map_congr_left
  intro a _
  exact outdeg_shape K ts o sh lf a

theorem findAllFs_idempotent_aux (K : Consts) (ts : TypeSystem) (o : Opts) (hp : Heap) (nx : Int) (seeds : List Nat)
    (st : St) (hnx : 0 < nx) (hb : IdsBelow hp nx) (h : findAllFs K ts o hp nx seeds = .ok st) :
    ∃ st' : St, findAllFs K ts o st.heap st.nextXid seeds = .ok st' ∧
      st'.allFs = st.allFs ∧ st'.heap = st.heap ∧ st'.nextXid = st.nextXid := by
  have sh : SameShape hp st.heap := findAllFs_heap_frame_aux K ts o hp nx seeds st h
  unfold findAllFs at h ⊢
  simp only at h ⊢
  rw [totalOut_shape K ts o sh, sh.1]
  exact run_sim K ts o hp (hp.length + 1) seeds.length _ _ st h (inv_init K ts o hp _ nx seeds) hnx hb
    { heap := st.heap, nextXid := st.nextXid, openl := seeds } rfl rfl rfl rfl

end Cassis.Traverse

namespace Cassis

namespace Xmi
open Cassis.TS

/-- the writer reads the other CASes only to look up views by name -/
def SameViews (cass cass' : List Cas) : Prop :=
  ∀ (i : Nat) (vn : String), (cass[i]?).bind (fun c => Cas.getViewRec c vn) = (cass'[i]?).bind (fun c => Cas.getViewRec c vn)

theorem renderFeature_congr (K : Consts) (ts : TypeSystem) (cass cass' : List Cas) (hv : SameViews cass cass')
    (hp : Heap) (a : Nat) (isAnn : Bool) (f : Feature) :
    renderFeature K ts cass hp a isAnn f = renderFeature K ts cass' hp a isAnn f := by
  unfold SameViews at hv
  unfold renderFeature
  simp only [hv]

theorem renderFeatures_congr (K : Consts) (ts : TypeSystem) (cass cass' : List Cas) (hv : SameViews cass cass')
    (hp : Heap) (a : Nat) (isAnn : Bool) (fs : List Feature) :
    renderFeatures K ts cass hp a isAnn fs = renderFeatures K ts cass' hp a isAnn fs := by
  induction fs with
  | nil => rfl
  | cons f fs ih =>
    unfold renderFeatures
    rw [renderFeature_congr K ts cass cass' hv, ih]

theorem renderFs_congr (K : Consts) (ts : TypeSystem) (cass cass' : List Cas) (hv : SameViews cass cass')
    (hp : Heap) (a : Nat) : renderFs K ts cass hp a = renderFs K ts cass' hp a := by
  unfold renderFs
  simp only [renderFeatures_congr K ts cass cass' hv]

theorem renderAll_congr (K : Consts) (ts : TypeSystem) (cass cass' : List Cas) (hv : SameViews cass cass')
    (hp : Heap) (l : List (Int × Nat)) : renderAll K ts cass hp l = renderAll K ts cass' hp l := by
  induction l with
  | nil => rfl
  | cons p ps ih =>
    unfold renderAll
    rw [renderFs_congr K ts cass cass' hv, ih]

theorem sameViews_set (cass : List Cas) (ci : Nat) (c : Cas) (hc : cass[ci]? = some c) (n : Int) :
    SameViews (cass.set ci { c with nextXid := n }) cass := by
  intro i vn
  by_cases h : ci = i
  · subst h
    have hlt : ci < cass.length := (List.getElem?_eq_some_iff.mp hc).1
    rw [List.getElem?_set_self hlt, hc]
    rfl
  · rw [List.getElem?_set_ne h]

theorem saveXmi_idempotent_aux (K : Consts) (ts : TypeSystem) (cass : List Cas) (ci : Nat) (hp : Heap) (c : Cas)
    (doc : XDoc) (st : Traverse.St) (hc : cass[ci]? = some c) (hnx : 0 < c.nextXid)
    (hb : Traverse.IdsBelow hp c.nextXid) (h : saveXmi K ts cass ci hp = .ok (doc, st)) :
    ∃ st' : Traverse.St, saveXmi K ts (cass.set ci { c with nextXid := st.nextXid }) ci st.heap = .ok (doc, st') ∧
      st'.heap = st.heap ∧ st'.nextXid = st.nextXid ∧ st'.allFs = st.allFs := by
  have hlt : ci < cass.length := (List.getElem?_eq_some_iff.mp hc).1
  unfold saveXmi at h ⊢
  rw [hc] at h
  rw [List.getElem?_set_self hlt]
  simp only [bind, Except.bind, pure, Except.pure] at h ⊢
  cases hst : Traverse.findAllFs K ts {} hp c.nextXid (Traverse.defaultSeeds c) with
  | error err => rw [hst] at h; cases h
  | ok st0 =>
    rw [hst] at h
    simp only at h
    cases hr : renderAll K ts cass st0.heap (sortById st0.allFs) with
    | error err => rw [hr] at h; cases h
    | ok fsElems =>
      rw [hr] at h
      simp only at h
      cases h
      obtain ⟨st', h2, ha, hh, hn⟩ :=
        Traverse.findAllFs_idempotent_aux K ts {} hp c.nextXid (Traverse.defaultSeeds c) st hnx hb hst
      refine ⟨st', ?_, hh, hn, ha⟩
      have hseeds : Traverse.defaultSeeds { c with nextXid := st.nextXid } = Traverse.defaultSeeds c := rfl
      rw [hseeds, h2]
      simp only
      rw [hh, ha, renderAll_congr K ts _ cass (sameViews_set cass ci c hc _), hr]

theorem saveXmi_heap_frame_aux (K : Consts) (ts : TypeSystem) (cass : List Cas) (ci : Nat) (hp : Heap)
    (doc : XDoc) (st : Traverse.St) (h : saveXmi K ts cass ci hp = .ok (doc, st)) :
    st.heap.length = hp.length ∧
    ∀ (a : Nat) (ob : Obj), hp[a]? = some ob → ∃ ob' : Obj, st.heap[a]? = some ob' ∧ ob'.ty = ob.ty ∧ ob'.slots = ob.slots ∧
      (ob.xid ≠ none → ob'.xid = ob.xid) := by
  unfold saveXmi at h
  cases hc : cass[ci]? with
  | none => rw [hc] at h; cases h
  | some c =>
    rw [hc] at h
    simp only [bind, Except.bind, pure, Except.pure] at h
    cases hst : Traverse.findAllFs K ts {} hp c.nextXid (Traverse.defaultSeeds c) with
    | error err => rw [hst] at h; cases h
    | ok st0 =>
      rw [hst] at h
      simp only at h
      cases hr : renderAll K ts cass st0.heap (sortById st0.allFs) with
      | error err => rw [hr] at h; cases h
      | ok fsElems =>
        rw [hr] at h
        simp only at h
        cases h
        exact Traverse.findAllFs_heap_frame_aux K ts {} hp c.nextXid (Traverse.defaultSeeds c) st hst

end Xmi
end Cassis
