/-
JSON round trip on the flat fragment: assembly of the layers (writer, sofa pass, structure pass, deferred references,
views pass).
-/
import CassisModel.Proofs.RoundTripJsonPass
import CassisModel.Proofs.RoundTripJsonViews
import CassisModel.Proofs.RoundTrip

namespace Cassis.Json
open Cassis.TS Cassis.Traverse Cassis.Lex Cassis.Xmi Cassis.Xmi.RTB

theorem filterMap_congr' {α β} {f g : α → Option β} : ∀ (l : List α), (∀ x ∈ l, f x = g x) → l.filterMap f = l.filterMap g
  | [], _ => rfl
  | x :: l, h => by
    rw [List.filterMap_cons, List.filterMap_cons, h x List.mem_cons_self,
      filterMap_congr' l (fun y hy => h y (List.mem_cons_of_mem _ hy))]

/-- everything the reader does on the written document -/
theorem json_core (K : Consts) (ts : TypeSystem) (cass : List Cas) (ci : Nat) (c : Cas) (hp : Heap)
    (tsIdx ci' : Nat) (doc : JDoc) (st : St)
    (hc : cass[ci]? = some c) (hwf : RTWf c hp)
    (hsave : saveJson K ts cass ci hp .none = .ok (doc, st))
    (hflat : ∀ q ∈ st.allFs, FlatFs K ts c ci st.heap q.2)
    (hjson : ∀ q ∈ st.allFs, JsonFs ts st.heap q.2)
    (hids : ∀ nv ∈ c.views, ∀ e ∈ Index.all nv.2.idx, (xidOf hp e.oid).isSome = true)
    (hdis : ∀ q ∈ st.allFs, ∀ nv ∈ c.views, q.1 ≠ nv.2.sofa.xid)
    (hmem : ∀ nv ∈ c.views, ∀ e ∈ Index.all nv.2.idx, Xmi.slot st.heap e.oid "sofa" ≠ some .none)
    (hmok : MembersOk c st.heap) :
    ∃ (ld : Loaded) (m : Int),
      loadJson K ts tsIdx ci' false false st.heap doc = .ok ld ∧ ld.ts = ts ∧
      GCtx K ts cass c ci hp st.heap (sortById st.allFs) ∧
      doc.fss = c.views.map (fun p => renderSofa hp p.2.sofa) ++ (sortById st.allFs).map (elemOf ts cass st.heap) ∧
      doc.views = c.views.map (jviewH st.heap) ∧ doc.types = none ∧
      (∀ q ∈ sortById st.allFs, ∀ o t, st.heap[q.2]? = some o → find? ts o.ty = some t →
        ∀ f ∈ allFeatures t, SofaRangeOk K ts o f) ∧
      HeapRel st.heap (sortById st.allFs) (naOf st.heap (sortById st.allFs))
        (E3 st.heap (naOf st.heap (sortById st.allFs)) ci') ld.heap ∧
      ViewsRelJ st.heap (naOf st.heap (sortById st.allFs)) c.views ld.cas.views ∧
      ld.cas.views.map (viewContent ld.heap) = c.views.map (viewContent st.heap) ∧
      ld.cas.nextXid = m + 1 ∧ 0 ≤ m ∧ (∀ q ∈ sortById st.allFs, q.1 ≤ m) ∧
      (∀ nv ∈ c.views, nv.2.sofa.xid ≤ m ∧ nv.2.sofa.sofaNum < ld.cas.nextSofaNum) := by
  obtain ⟨hfa, fsElems, hr, hdfss, hdviews, hdtypes⟩ := saveJson_parts hc (fun nv hnv => (hwf.text_sofa nv hnv).1) hsave
  have hL := lok_of_findAllFs (ci := ci) hwf hfa hflat
  have g : GCtx K ts cass c ci hp st.heap (sortById st.allFs) :=
    ⟨hc, hwf, hL, fun q hq => hdis q (mem_sortById.mp hq), fun q hq => hjson q (mem_sortById.mp hq)⟩
  -- the writer
  have hsr : ∀ q ∈ sortById st.allFs, ∀ o t, st.heap[q.2]? = some o → find? ts o.ty = some t →
      ∀ f ∈ allFeatures t, SofaRangeOk K ts o f := by
    intro q hq o t ho ht
    obtain ⟨e, he⟩ := renderAll_ok_each K ts cass st.heap _ fsElems hr q hq
    exact sofaRange_of_renderFs K ts cass c ci st.heap q.2 o t (hL.flat q hq) ho ht e he
  have hrender : ∀ q ∈ sortById st.allFs, renderFs K ts cass st.heap q.2 = .ok (elemOf ts cass st.heap q) := by
    intro q hq
    obtain ⟨o, t, ho, ht, he, _⟩ := elemOf_flat g q hq
    rw [he]
    apply renderFs_flatJ K ts cass c ci st.heap q.2 q.1 o t hc (hL.flat q hq) ho ht (hL.ids q hq).1
    · intro f hf
      exact ((g.json q hq o t ho ht).2 f hf).2.2.2
    · exact hsr q hq o t ho ht
  have hfs : fsElems = (sortById st.allFs).map (elemOf ts cass st.heap) := by
    have := renderAll_eq_map K ts cass st.heap _ hrender
    rw [hr] at this
    cases this; rfl
  subst hfs
  have hviews : doc.views = c.views.map (jviewH st.heap) := by
    rw [hdviews]
    apply List.map_congr_left
    intro nv hnv
    unfold jviewOf jviewH pviewOf
    congr 2
    apply filterMap_congr'
    intro e he
    obtain ⟨y, hy⟩ := Option.isSome_iff_exists.mp (hids nv hnv e he)
    show xidOf hp e.oid = xidOf st.heap e.oid
    rw [hy, jst_ids_kept hwf hfa e.oid y hy]
  -- the sofa pass
  obtain ⟨s1, hs1, h1heap, h1fss, h1def, h1views, h1id, h1num, h1bound⟩ :=
    sofaPass_flat K ts tsIdx ci' c hp st.heap hwf ((sortById st.allFs).map (elemOf ts cass st.heap)) doc.fss (by
      intro e he
      obtain ⟨q, hq, rfl⟩ := List.mem_map.mp he
      obtain ⟨o, t, _, _, he', hns⟩ := elemOf_flat g q hq
      rw [he']; exact hns)
  -- the structure pass
  have inv0 : FInv c st.heap (sortById st.allFs) ci' s1.cas s1.maxNum s1.maxId [] s1 := by
    refine ⟨rfl, rfl, by rw [h1heap]; rfl, by rw [h1fss]; unfold fsEntries; simp, ⟨Int.le_refl _, ?_⟩, ?_, ?_⟩
    · intro q hq; cases hq
    · intro q hq; cases hq
    · intro d hd; rw [h1def] at hd; cases hd
  obtain ⟨s2, hs2, inv⟩ := fsPass_flat g tsIdx ci' s1.cas h1views s1.maxNum s1.maxId (sortById st.allFs) [] s1 rfl inv0
  -- the deferred references
  have hfss : ∀ q ∈ sortById st.allFs, lookup s2.fss q.1 = some (.ref (naOf st.heap (sortById st.allFs) q.1)) := by
    intro q hq
    rw [inv.fss, lookup_append]
    have : lookup (sofaEntries ci' c.views) q.1 = none := by
      apply lookup_none_of_not_mem
      rw [sofaEntries_keys]
      intro hin
      obtain ⟨nv, hnv, e⟩ := List.mem_map.mp hin
      exact g.dis q hq nv hnv e.symm
    rw [this]
    apply lookup_of_mem_nodup
    · rw [fsEntries_keys]; exact hL.nodup
    · unfold fsEntries
      exact List.mem_map.mpr ⟨q, hq, rfl⟩
  obtain ⟨HF, hfix, hrel⟩ := fixUps_flat g ci' s2.fss hfss s2.deferred s2.heap inv.defs inv.rel
  -- the views pass
  obtain ⟨v, hvp, hvheap, hvx, hvn, hvrel, hvcontent⟩ :=
    viewsPass_flat K ts c ci st.heap (sortById st.allFs) (naOf st.heap (sortById st.allFs)) ci' hwf.names hwf.names_nodup
      hL hmem hmok HF hrel s2.fss hfss { s2.cas with nextXid := s2.maxId + 1, nextSofaNum := s2.maxNum + 1 }
      (by show s2.cas.views = _; rw [inv.cas]; exact h1views)
  have hload : loadJson K ts tsIdx ci' false false st.heap doc = .ok { ts := ts, cas := v.cas, heap := v.heap } := by
    unfold loadJson loadTs
    simp only [Bool.false_eq_true, if_false]
    rw [hdfss] at hs1
    rw [hdfss, hs1]
    dsimp only
    rw [fsPass_skip_sofas tsIdx _ s1 _ (by
      intro e he
      obtain ⟨nv, _, rfl⟩ := List.mem_map.mp he
      rfl), hs2]
    dsimp only
    rw [hfix]
    dsimp only
    rw [hviews, hvp]
  refine ⟨_, s2.maxId, hload, rfl, g, hdfss, hviews, hdtypes, hsr, ?_, hvrel, ?_, ?_, ?_, inv.maxId.2, ?_⟩
  · show HeapRel _ _ _ _ v.heap
    rw [hvheap]; exact hrel
  · show v.cas.views.map (viewContent v.heap) = _
    rw [hvheap]; exact hvcontent
  · show v.cas.nextXid = _
    rw [hvx]
  · have := inv.maxId.1
    omega
  · intro nv hnv
    obtain ⟨b1, b2⟩ := h1bound nv hnv
    refine ⟨by have := inv.maxId.1; omega, ?_⟩
    show _ < v.cas.nextSofaNum
    rw [hvn]
    show _ < s2.maxNum + 1
    rw [inv.num]
    omega

end Cassis.Json
