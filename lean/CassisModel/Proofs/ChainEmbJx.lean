/-
C16 with an embedded type system, the chain JSON → CAS → XMI → CAS, part 5 (assembly): the JSON document carries its type
system (any mode), is loaded WITHOUT the original type system (`loadJson K tsArg … true …`: the type system `ts'` is rebuilt
from the `%TYPES` section), and the loaded CAS is written to XMI and read back under the REBUILT type system `ts'`.

The first half is the first half of `chain_json_xmi_coll_aux` (`Proofs/ChainCollJx.lean`) for the NONE document and the
original type system — it describes the CAS `ld0` the reader makes under `ts` (`JLd`), its traversal by the XMI writer and
the structures of `stx` among those collected.  The CAS `ld1` loaded under `ts'` is the same CAS over the same heap up to
slot order (`emb_load_of_none_load`), its objects have their slots in the order of `ts'` (`loadJson_slotsOk`), so the
traversal and the fragment carry over (`traversal_le`), and the second half is `xmi_roundtrip_coll_weak` under `ts'`.

The relation between `ts` and `ts'` the proof needs: `SameTs` (delivered by `json_full_ts_same` for FULL documents), both
registries list each name once, and `MultiResAgree` — NOT delivered by `json_full_ts_same`, false in general
(`Properties/C16ChainEmbedded.lean`, counterexample `RedefDemo`), and proved for `FlagCoherent` type systems in
`Proofs/ChainEmbProvC.lean` (`json_full_ts_multi`).
-/
import CassisModel.Proofs.ChainCollJx
import CassisModel.Proofs.ChainEmbTrav
import CassisModel.Proofs.ChainEmbSlots
import CassisModel.Proofs.RoundTripJsonEmb
import CassisModel.Proofs.ChainEmbProvC

namespace Cassis.ChainE
open Cassis.TS Cassis.Traverse Cassis.Xmi Cassis.Json

theorem featContentC_like (K : Consts) (hp : Heap) (a : Nat) {f f' : Feature} (hl : FeatLike K f f') :
    featContentC K hp a f' = featContentC K hp a f := by
  unfold featContentC
  rw [isInline_like hl, hl.1, hl.2.1]

theorem membersOk_sim {c : Cas} {hp hp' : Heap} (hh : HeapSim hp hp') (h : MembersOk c hp) : MembersOk c hp' := by
  intro nv hnv
  obtain ⟨h1, h2⟩ := h nv hnv
  refine ⟨?_, ?_⟩
  · intro e he
    obtain ⟨o, k, ho, hk⟩ := h1 e he
    rcases hh.get e.oid with ⟨g1, _⟩ | ⟨x, x', g1, g2, gx⟩
    · rw [g1] at ho; cases ho
    · rw [g1] at ho; cases ho
      exact ⟨x', k, g2, by rw [entryOf_sim gx]; exact hk⟩
  · intro e1 he1 e2 he2 o1' o2' k1 k2 ho1' ho2' hty hk1 hk2
    rcases hh.get e1.oid with ⟨_, g2⟩ | ⟨x1, x1', g1, g2, gx1⟩
    · rw [g2] at ho1'; cases ho1'
    · rw [g2] at ho1'; cases ho1'
      rcases hh.get e2.oid with ⟨_, g4⟩ | ⟨x2, x2', g3, g4, gx2⟩
      · rw [g4] at ho2'; cases ho2'
      · rw [g4] at ho2'; cases ho2'
        rw [entryOf_sim gx1] at hk1
        rw [entryOf_sim gx2] at hk2
        exact h2 e1 he1 e2 he2 x1 x2 k1 k2 g1 g3 (by rw [← gx1.1, ← gx2.1]; exact hty) hk1 hk2

end Cassis.ChainE

namespace Cassis
open Cassis.TS Cassis.Traverse Cassis.Xmi Cassis.Chain Cassis.ChainC Cassis.ChainE

/-- JSON (any mode) → CAS loaded without the original type system → XMI written and read under the rebuilt type
    system → CAS, for a rebuilt type system that is `SameTs` to the original and agrees with it on
    `multipleReferencesAllowed` and the reserved flag -/
theorem chain_json_xmi_emb_core (K : Consts) (ts ts' tsArg : TypeSystem) (mode : Json.Mode) (cass : List Cas) (ci : Nat)
    (c : Cas) (hp : Heap) (tsIdx : Nat) (docj : Json.JDoc) (st stx : St)
    (hc : cass[ci]? = some c) (hwf : RTWf c hp) (hnull : NullOk ts)
    (hsave : Json.saveJson K ts cass ci hp mode = .ok (docj, st))
    (hlts : Json.loadTs K tsArg true docj = .ok ts')
    (hsame : SameTs ts ts') (hcons : Consistent ts) (hcons' : Consistent ts') (hmr : MultiResAgree K ts ts')
    (hcoll : ∀ q ∈ st.allFs, CollFs K ts c ci st.heap q.2)
    (hjson : ∀ q ∈ st.allFs, Json.JsonFs ts st.heap q.2)
    (harr : ∀ q ∈ st.allFs, Json.ArrElemsSome st.heap q.2)
    (hids : ∀ nv ∈ c.views, ∀ e ∈ Index.all nv.2.idx, (xidOf hp e.oid).isSome = true)
    (hdis : ∀ q ∈ st.allFs, ∀ nv ∈ c.views, q.1 ≠ nv.2.sofa.xid)
    (hmem : ∀ nv ∈ c.views, ∀ e ∈ Index.all nv.2.idx, Xmi.slot st.heap e.oid "sofa" ≠ some .none)
    (hmok : MembersOk c st.heap)
    (hx : findAllFs K ts {} st.heap c.nextXid (defaultSeeds c) = .ok stx) :
    ∃ (ld1 : Json.Loaded) (docx : XDoc) (st2 : St) (p2 : Pass1) (ld2 : Xmi.Loaded),
      Json.loadJson K tsArg tsIdx cass.length false true st.heap docj = .ok ld1 ∧ ld1.ts = ts' ∧
      saveXmi K ts' (cass ++ [ld1.cas]) cass.length ld1.heap = .ok (docx, st2) ∧
      pass1 K ts' tsIdx false docx { heap := st2.heap } = .ok p2 ∧
      loadXmi K ts' tsIdx (cass.length + 1) false st2.heap docx = .ok ld2 ∧
      ld2.cas.views.map (viewContent ld2.heap) = c.views.map (viewContent st.heap) ∧
      (∀ q ∈ stx.allFs, ∃ (a2 : Nat) (o o2 : Obj), lookupFs p2.fss q.1 = .ok a2 ∧
          st.heap[q.2]? = some o ∧ ld2.heap[a2]? = some o2 ∧ o2.ty = o.ty ∧ o2.xid = some q.1 ∧
          ∀ t : TypeRec, find? ts o.ty = some t → ∀ f ∈ allFeatures t,
            featContentC K ld2.heap a2 f = featContentC K st.heap q.2 f) := by
  -- the NONE document: same structures, views, ids
  obtain ⟨doc0, hsave0, hf0, hv0⟩ := Json.saveJson_to_none_aux K ts cass ci hp mode docj st hsave
  -- the first half of `chain_json_xmi_coll_aux`, under the original type system
  have harr0 : ∀ nv ∈ c.views, nv.2.sofa.arr = .none := fun nv hnv => (hwf.text_sofa nv hnv).1
  obtain ⟨hfa, fsElems, hr, hdfss, hdviews, _⟩ := Json.saveJson_parts hc harr0 hsave0
  have hjcoll : ∀ q ∈ st.allFs, Json.JCollFs K ts c ci st.heap q.2 := fun q hq =>
    Json.jcollFs_of_collFs_aux K ts c ci st.heap q.2 (hcoll q hq) (hjson q hq) (harr q hq)
  have hLJ : Json.LOkJ K ts c ci st.heap (sortById st.allFs) := Json.trav_collJ K ts ci c hp st hwf hfa hjcoll
  have hdisL : ∀ q ∈ sortById st.allFs, ∀ nv ∈ c.views, q.1 ≠ nv.2.sofa.xid :=
    fun q hq => hdis q (mem_sortById.mp hq)
  have g : Json.GCtxJ K ts cass c ci hp st.heap (sortById st.allFs) := ⟨hc, hwf, hLJ, hdisL⟩
  have hfs : fsElems = (sortById st.allFs).map (Json.elemOfJ K ts cass st.heap) :=
    Json.renderAll_eq_mapJ K ts cass st.heap _ _ fsElems hr
      (fun q hq e he => Json.writer_collJ K ts cass c ci hp st.heap _ g q hq e he)
  subst hfs
  have hviewsJ : doc0.views = c.views.map (Json.jviewH st.heap) := by
    rw [hdviews]
    apply List.map_congr_left
    intro nv hnv
    unfold Json.jviewOf Json.jviewH pviewOf
    congr 2
    apply Json.filterMap_congr'
    intro e he
    obtain ⟨y, hy⟩ := Option.isSome_iff_exists.mp (hids nv hnv e he)
    show xidOf hp e.oid = xidOf st.heap e.oid
    rw [hy, Json.jst_ids_kept hwf hfa e.oid y hy]
  obtain ⟨ld0, hload0, hrel, hvc1, hvrelJ, m, hnx, hm0, hmq, hms⟩ :=
    json_core_coll_weak K ts cass ci c hp st.heap (sortById st.allFs) tsIdx cass.length doc0 hc hwf hLJ hdisL hmem hmok
      hdfss hviewsJ
  have x : JLd K ts c ci st.heap (sortById st.allFs) cass.length ld0 :=
    ⟨hLJ, fun q hq => hcoll q (mem_sortById.mp hq), hrel, hvrelJ⟩
  have hnx2 : 0 < ld0.cas.nextXid := by omega
  obtain ⟨st20, hfa20, hheap20, hall20, hL20⟩ := x.traversal hnx2
  have hcomp := x.complete hwf.next_pos hx hnx2 hfa20 hheap20 hL20
  -- the CAS loaded without the original type system
  have hag : ∀ j ∈ docj.fss, Json.TypeAgree ts ts' (Json.fsTypeName j) :=
    fun _ _ => Json.typeAgree_of_sameTs hsame hcons hcons' _
  obtain ⟨ld1, hload1, hlt1, hcas1, hsim⟩ :=
    Json.emb_load_of_none_load K ts ts' tsArg tsIdx cass.length false st.heap docj doc0 ld0 hlts hag hf0 hv0 hload0
  have hload1' : Json.loadJson K ts' tsIdx cass.length false false st.heap docj = .ok ld1 := by
    rw [← Json.loadJson_merge_eq K tsArg ts' tsIdx cass.length false st.heap docj hlts]
    exact hload1
  have hle : TsLe K ts ts' := tsLe_of_same K hsame hcons hcons' hmr
  have hle' : TsLe K ts' ts := tsLe_of_same' K hsame hcons hcons' hmr
  have hslots : ∀ r ∈ st20.allFs, SlotsOk ts' ld1.heap r.2 := by
    intro r hr
    obtain ⟨q, _, rfl⟩ := hall20 r hr
    exact loadJson_slotsOk hcons'.nodup hload1' (Nat.le_add_right _ _)
  -- its traversal under the rebuilt type system
  obtain ⟨st2, hfa2, hheap2, hsort, hL2⟩ :=
    traversal_le hle hle' hsim hnx2 hfa20 hheap20 hL20 hslots
  have hc' : (cass ++ [ld1.cas])[cass.length]? = some ld1.cas := List.getElem?_concat_length
  have hL2' : LOkC K ts' ld1.cas cass.length ld1.heap (sortById st2.allFs) := by
    rw [hsort, hcas1]; exact hL2
  -- … and the document
  have helem : Elem1Stmt K ts' (cass ++ [ld1.cas]) ld1.heap tsIdx (CollFs K ts' ld1.cas cass.length ld1.heap) := by
    intro a y hP hy
    rcases hP with hg | ha
    · exact gen_elem1 K ts' _ cass.length ld1.cas ld1.heap tsIdx hc' a y hg hy
    · exact arr_elem1 K ts' _ ld1.heap tsIdx a y ha hy
  obtain ⟨es, hes, _⟩ := Cassis.Xmi.CAS.renderAll_pair K ts' (cass ++ [ld1.cas]) ld1.heap tsIdx _ helem
    (sortById st2.allFs) hL2'.coll (fun q hq => (hL2'.ids q hq).1)
  have hfa2' : findAllFs K ts' {} ld1.heap ld1.cas.nextXid (defaultSeeds ld1.cas) = .ok st2 := by
    rw [hcas1]; exact hfa2
  have hsave2 : saveXmi K ts' (cass ++ [ld1.cas]) cass.length ld1.heap =
      .ok ([{ ty := NULL_T, attrs := [(ID, "0")] }] ++ es ++
        ld1.cas.views.map (fun p => renderSofa p.2.sofa) ++ ld1.cas.views.map (fun p => renderView st2.heap p.2), st2) := by
    unfold saveXmi
    rw [hc']
    simp only [bind, Except.bind, pure, Except.pure, hfa2', hheap2, hes]
  -- the views of the loaded CAS are well-formed
  have hvrl : VRL st.heap (Json.naOf st.heap (sortById st.allFs)) c.views ld0.cas.views := VRL.of_json hvrelJ
  obtain ⟨w1, w2, w3, w4, w5, w6⟩ := views_wf hwf hvrl
  have hwf0 : RTWf ld0.cas [] :=
    { init_first := w1, names := w2, names_nodup := w3, sofa_ids_nodup := w4,
      text_sofa := by
        intro nv' hnv'
        obtain ⟨nv, hnv, hr⟩ := Json.viewsRelJ_bwd _ _ _ _ hvrelJ nv' hnv'
        rw [hr.2.1]; exact hwf.text_sofa nv hnv
      conv := by
        intro nv' hnv' t ht
        obtain ⟨nv, hnv, hr⟩ := Json.viewsRelJ_bwd _ _ _ _ hvrelJ nv' hnv'
        rw [hr.2.1] at ht ⊢; exact hwf.conv nv hnv t ht
      conv_none := by
        intro nv' hnv' ht
        obtain ⟨nv, hnv, hr⟩ := Json.viewsRelJ_bwd _ _ _ _ hvrelJ nv' hnv'
        rw [hr.2.1] at ht ⊢; exact hwf.conv_none nv hnv ht
      scalar := w5
      next_pos := hnx2
      ids_below := by intro a ob _ ha; cases ha
      sofa_ids := by
        intro nv' hnv'
        refine ⟨w6 nv' hnv', ?_⟩
        obtain ⟨nv, hnv, hr⟩ := VRL.bwd hvrl nv' hnv'
        rw [hr.2.2.1]
        have := hms nv hnv
        omega
      ids_pos := by intro a ob _ ha; cases ha }
  have hwf1 : RTWf ld1.cas [] := by rw [hcas1]; exact hwf0
  have hmem1 : ∀ nv ∈ ld1.cas.views, ∀ e ∈ Index.all nv.2.idx, Xmi.slot st2.heap e.oid "sofa" ≠ some .none := by
    rw [hheap2, hcas1, slot_sim hsim]
    exact x.mem_sofa hmem
  have hmok1 : MembersOk ld1.cas st2.heap := by
    rw [hheap2, hcas1]
    exact membersOk_sim hsim (x.membersOk hmok)
  obtain ⟨p2, ld2, hp2, hload2, hfs2, hvc2⟩ :=
    xmi_roundtrip_coll_weak K ts' (cass ++ [ld1.cas]) cass.length ld1.cas [] ld1.heap tsIdx (cass.length + 1) _ st2
      hc' hwf1 (nullOk_of_same hsame hnull) hsave2 (by rw [hheap2]; exact hL2') hmem1 hmok1
  refine ⟨ld1, _, st2, p2, ld2, hload1, hlt1, hsave2, hp2, hload2, ?_, ?_⟩
  · rw [hvc2, hheap2, hcas1, ← hvc1]
    apply List.map_congr_left
    intro nv _
    exact Json.viewContent_sim hsim nv
  · intro q hq0
    obtain ⟨hq, hq2⟩ := hcomp q hq0
    rw [← hsort] at hq2
    obtain ⟨o, o', ho, ho', hty, _, _, _⟩ := x.obj hq
    obtain ⟨a2, o1, o2, hlk, ho1, ho2, hty2, hx2, hfc2⟩ := hfs2 _ hq2
    -- the object under `ts'` is the object under `ts` up to slot order
    have ho1' : ld1.heap[Json.naOf st.heap (sortById st.allFs) q.1]? = some o1 := by rw [← hheap2]; exact ho1
    have hty1 : o1.ty = o'.ty := by
      rcases hsim.get (Json.naOf st.heap (sortById st.allFs) q.1) with ⟨g1, _⟩ | ⟨y, y', g1, g2, gy⟩
      · rw [g1] at ho'; cases ho'
      · rw [g1] at ho'; cases ho'
        rw [g2] at ho1'; cases ho1'
        exact gy.1
    refine ⟨a2, o, o2, hlk, ho, ho2, hty2.trans (hty1.trans hty), hx2, ?_⟩
    intro t ht f hf
    obtain ⟨t', ht', _, _, _, hfwd, _⟩ := hle.find _ t ht
    obtain ⟨f', hf', hl⟩ := hfwd f hf
    rw [← featContentC_like K ld2.heap a2 hl, hfc2 t' (by rw [hty1, hty]; exact ht') f' hf', hheap2,
      featContentC_like K ld1.heap _ hl, Json.featContentC_sim K hsim]
    exact Json.content_collJ K ts c ci st.heap (sortById st.allFs) cass.length ld0.heap hLJ hrel q hq o t ho ht f hf


/-- the chain for FULL documents of API-built, writable type systems: the rebuilt type system exists and is `SameTs`
    (`json_full_ts_same`); what remains a hypothesis is `MultiResAgree` -/
theorem chain_json_xmi_full_coll_partial_aux (ops : List TsOp) (ts : TypeSystem)
    (hts : ts = ops.foldl (applyOp Gen.consts) Gen.builtinTS)
    (hu : UserOnly Gen.consts ops ∧ ∀ op ∈ ops, match op with
      | .createFeature dom _ _ _ _ _ => dom ≠ DOCUMENT_ANNOTATION
      | .createType _ _ _ => True)
    (hw : Json.Writable Gen.consts ts) (hpc : Json.NoPercentNames ts)
    (cass : List Cas) (ci : Nat) (c : Cas) (hp : Heap) (tsIdx : Nat) (docj : Json.JDoc) (st stx : St)
    (hc : cass[ci]? = some c) (hwf : RTWf c hp) (hnull : NullOk ts)
    (hsave : Json.saveJson Gen.consts ts cass ci hp .full = .ok (docj, st))
    (hcoll : ∀ q ∈ st.allFs, CollFs Gen.consts ts c ci st.heap q.2)
    (hjson : ∀ q ∈ st.allFs, Json.JsonFs ts st.heap q.2)
    (harr : ∀ q ∈ st.allFs, Json.ArrElemsSome st.heap q.2)
    (hids : ∀ nv ∈ c.views, ∀ e ∈ Index.all nv.2.idx, (xidOf hp e.oid).isSome = true)
    (hdis : ∀ q ∈ st.allFs, ∀ nv ∈ c.views, q.1 ≠ nv.2.sofa.xid)
    (hmem : ∀ nv ∈ c.views, ∀ e ∈ Index.all nv.2.idx, Xmi.slot st.heap e.oid "sofa" ≠ some .none)
    (hmok : MembersOk c st.heap)
    (hx : findAllFs Gen.consts ts {} st.heap c.nextXid (defaultSeeds c) = .ok stx)
    (hmr : ∀ ts', Json.loadTs Gen.consts Gen.builtinTS true docj = .ok ts' → MultiResAgree Gen.consts ts ts') :
    ∃ (ld1 : Json.Loaded) (docx : XDoc) (st2 : St) (p2 : Pass1) (ld2 : Xmi.Loaded),
      Json.loadJson Gen.consts Gen.builtinTS tsIdx cass.length false true st.heap docj = .ok ld1 ∧ SameTs ts ld1.ts ∧
      saveXmi Gen.consts ld1.ts (cass ++ [ld1.cas]) cass.length ld1.heap = .ok (docx, st2) ∧
      pass1 Gen.consts ld1.ts tsIdx false docx { heap := st2.heap } = .ok p2 ∧
      loadXmi Gen.consts ld1.ts tsIdx (cass.length + 1) false st2.heap docx = .ok ld2 ∧
      ld2.cas.views.map (viewContent ld2.heap) = c.views.map (viewContent st.heap) ∧
      (∀ q ∈ stx.allFs, ∃ (a2 : Nat) (o o2 : Obj), lookupFs p2.fss q.1 = .ok a2 ∧
          st.heap[q.2]? = some o ∧ ld2.heap[a2]? = some o2 ∧ o2.ty = o.ty ∧ o2.xid = some q.1 ∧
          ∀ t : TypeRec, find? ts o.ty = some t → ∀ f ∈ allFeatures t,
            featContentC Gen.consts ld2.heap a2 f = featContentC Gen.consts st.heap q.2 f) := by
  subst hts
  obtain ⟨ts', hlts, hsame, hcons, hcons'⟩ := Json.json_full_ts_same_cons ops hu hw hpc cass ci hp docj st hsave
  obtain ⟨ld1, docx, st2, p2, ld2, h1, h2, h3, h4, h5, h6, h7⟩ :=
    chain_json_xmi_emb_core Gen.consts _ ts' Gen.builtinTS .full cass ci c hp tsIdx docj st stx hc hwf hnull hsave hlts
      hsame hcons hcons' (hmr ts' hlts) hcoll hjson harr hids hdis hmem hmok hx
  rw [← h2] at h3 h4 h5 hsame
  exact ⟨ld1, docx, st2, p2, ld2, h1, hsame, h3, h4, h5, h6, h7⟩


/-- **JSON (FULL) → CAS without a type system → XMI under the rebuilt type system → CAS**, for API-built, writable type
    systems whose equally named own features agree on the reserved flag and — for array / list ranges — on
    `multipleReferencesAllowed` (`FlagCoherent`): `hmr` is `json_full_ts_multi` (`Proofs/ChainEmbProvC.lean`) -/
theorem chain_json_xmi_full_coll_aux (ops : List TsOp) (ts : TypeSystem)
    (hts : ts = ops.foldl (applyOp Gen.consts) Gen.builtinTS)
    (hu : UserOnly Gen.consts ops ∧ ∀ op ∈ ops, match op with
      | .createFeature dom _ _ _ _ _ => dom ≠ DOCUMENT_ANNOTATION
      | .createType _ _ _ => True)
    (hw : Json.Writable Gen.consts ts) (hpc : Json.NoPercentNames ts) (hfc : FlagCoherent Gen.consts ts)
    (cass : List Cas) (ci : Nat) (c : Cas) (hp : Heap) (tsIdx : Nat) (docj : Json.JDoc) (st stx : St)
    (hc : cass[ci]? = some c) (hwf : RTWf c hp) (hnull : NullOk ts)
    (hsave : Json.saveJson Gen.consts ts cass ci hp .full = .ok (docj, st))
    (hcoll : ∀ q ∈ st.allFs, CollFs Gen.consts ts c ci st.heap q.2)
    (hjson : ∀ q ∈ st.allFs, Json.JsonFs ts st.heap q.2)
    (harr : ∀ q ∈ st.allFs, Json.ArrElemsSome st.heap q.2)
    (hids : ∀ nv ∈ c.views, ∀ e ∈ Index.all nv.2.idx, (xidOf hp e.oid).isSome = true)
    (hdis : ∀ q ∈ st.allFs, ∀ nv ∈ c.views, q.1 ≠ nv.2.sofa.xid)
    (hmem : ∀ nv ∈ c.views, ∀ e ∈ Index.all nv.2.idx, Xmi.slot st.heap e.oid "sofa" ≠ some .none)
    (hmok : MembersOk c st.heap)
    (hx : findAllFs Gen.consts ts {} st.heap c.nextXid (defaultSeeds c) = .ok stx) :
    ∃ (ld1 : Json.Loaded) (docx : XDoc) (st2 : St) (p2 : Pass1) (ld2 : Xmi.Loaded),
      Json.loadJson Gen.consts Gen.builtinTS tsIdx cass.length false true st.heap docj = .ok ld1 ∧ SameTs ts ld1.ts ∧
      saveXmi Gen.consts ld1.ts (cass ++ [ld1.cas]) cass.length ld1.heap = .ok (docx, st2) ∧
      pass1 Gen.consts ld1.ts tsIdx false docx { heap := st2.heap } = .ok p2 ∧
      loadXmi Gen.consts ld1.ts tsIdx (cass.length + 1) false st2.heap docx = .ok ld2 ∧
      ld2.cas.views.map (viewContent ld2.heap) = c.views.map (viewContent st.heap) ∧
      (∀ q ∈ stx.allFs, ∃ (a2 : Nat) (o o2 : Obj), lookupFs p2.fss q.1 = .ok a2 ∧
          st.heap[q.2]? = some o ∧ ld2.heap[a2]? = some o2 ∧ o2.ty = o.ty ∧ o2.xid = some q.1 ∧
          ∀ t : TypeRec, find? ts o.ty = some t → ∀ f ∈ allFeatures t,
            featContentC Gen.consts ld2.heap a2 f = featContentC Gen.consts st.heap q.2 f) := by
  apply chain_json_xmi_full_coll_partial_aux ops ts hts hu hw hpc cass ci c hp tsIdx docj st stx hc hwf hnull hsave hcoll
    hjson harr hids hdis hmem hmok hx
  intro ts' hl
  subst hts
  exact json_full_ts_multi ops hu hw hpc hfc cass ci hp docj st hsave ts' hl

end Cassis
