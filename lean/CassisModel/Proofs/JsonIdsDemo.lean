/-
Evaluated instances for `Properties/C09DocJson.lean` (type system `demoTS'` of `Proofs/RoundTripDemo.lean`: the built-ins
plus the annotation type `x.Tok`; everything is evaluated by the kernel).  The documents with view members are read
with `lenient := true` (the strict membership test `containsType` uses `String.contains`, which the kernel does not
evaluate; see `Proofs/RoundTripDemo.lean`).
-/
import CassisModel.Proofs.JsonIdsKeep
import CassisModel.Proofs.RoundTripDemo

namespace Cassis.Json.IdsDemo
open Cassis Cassis.TS Cassis.Xmi.Demo

def sofaJ (id num : Int) (name : String) : JFs :=
  { id := some id, ty := SOFA, feats := [("sofaNum", .int num), ("sofaID", .str name), ("sofaString", .str "abc")] }

def tokJ (id : Int) (extra : List (String × JV)) : JFs :=
  { id := some id, ty := "x.Tok", feats := [("begin", .int 0), ("end", .int 1), ("@sofa", .int 1)] ++ extra }

/-- what the examples look at: both generators, (name, sofa id, sofaNum) of every view, the ids in the heap -/
structure Summary where
  nextXid : Int
  nextSofaNum : Int
  views : List (String × Int × Int)
  ids : List (Option Int)
deriving DecidableEq, Repr

def summary (r : Except Err Loaded) : Option Summary :=
  match r with
  | .error _ => none
  | .ok ld => some ⟨ld.cas.nextXid, ld.cas.nextSofaNum,
      ld.cas.views.map (fun p => (p.1, p.2.sofa.xid, p.2.sofa.sofaNum)), ld.heap.map (·.xid)⟩

/-- two sofas, two structures referring to each other (one forward reference), one of them indexed -/
def doc1 : JDoc :=
  { types := none,
    fss := [sofaJ 1 1 "_InitialView", sofaJ 8 3 "v", tokJ 5 [("@next", .int 6)], tokJ 6 [("@next", .int 5)]],
    views := [{ name := "_InitialView", sofa := some 1, members := [5] }, { name := "v", sofa := some 8, members := [] }] }

theorem doc1_loads : summary (loadJson K demoTS' 0 0 true false [] doc1) =
    some ⟨9, 4, [("_InitialView", 1, 1), ("v", 8, 3)], [some 5, some 6]⟩ := by decide +kernel

theorem doc1_nox : ∀ j ∈ doc1.fss, ∀ p ∈ j.feats, p.1 ≠ "@xmiID" := by decide +kernel

/-- a second sofa element with the name of an existing view: its sofaNum (7) is ignored, the generator ends below it -/
def docDup : JDoc := { types := none, fss := [sofaJ 1 1 "_InitialView", sofaJ 2 2 "v", sofaJ 3 7 "v"], views := [] }
theorem docDup_loads : summary (loadJson K demoTS' 0 0 false false [] docDup) =
    some ⟨4, 3, [("_InitialView", 1, 1), ("v", 3, 2)], []⟩ := by decide +kernel

/-- a view that is only named in `%VIEWS` is created in the views pass and consumes an id and a sofaNum -/
def docView : JDoc :=
  { types := none, fss := [sofaJ 1 1 "_InitialView", tokJ 5 []], views := [{ name := "w", sofa := none, members := [5] }] }
theorem docView_loads : summary (loadJson K demoTS' 0 0 true false [] docView) =
    some ⟨7, 3, [("_InitialView", 1, 1), ("w", 6, 2)], [some 5]⟩ := by decide +kernel

/-- a dangling `@xmiID` member: the deferred `setattr(fs, "xmiID", None)` drops the id … -/
def docDangling : JDoc := { types := none, fss := [sofaJ 1 1 "_InitialView", tokJ 5 [("@xmiID", .int 99)]], views := [] }
theorem docDangling_loads : summary (loadJson K demoTS' 0 0 false false [] docDangling) =
    some ⟨6, 2, [("_InitialView", 1, 1)], [none]⟩ := by decide +kernel

/-- … and indexing the structure gives it a fresh one -/
def docDangling2 : JDoc :=
  { docDangling with views := [{ name := "_InitialView", sofa := some 1, members := [5] }] }
theorem docDangling2_loads : summary (loadJson K demoTS' 0 0 true false [] docDangling2) =
    some ⟨7, 2, [("_InitialView", 1, 1)], [some 6]⟩ := by decide +kernel

/-- the empty document: the implicit initial view keeps sofa id 1 / sofaNum 1, the generators restart at 1 -/
def docEmpty : JDoc := { types := none, fss := [], views := [] }
theorem docEmpty_loads : summary (loadJson K demoTS' 0 0 false false [] docEmpty) =
    some ⟨1, 1, [("_InitialView", 1, 1)], []⟩ := by decide +kernel

end Cassis.Json.IdsDemo
