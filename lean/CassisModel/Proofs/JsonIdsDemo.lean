/-
Evaluated instances for `Properties/C09DocJson.lean` (type system `demoTS'` of `Proofs/RoundTripDemo.lean`: the built-ins
plus the annotation type `x.Tok`; everything is evaluated by the kernel).  The documents with view members are read
with `lenient := true` (the strict membership test `containsType` uses `String.contains`, which the kernel does not
evaluate; see `Proofs/RoundTripDemo.lean`).
-/
import CassisModel.Proofs.JsonIdsKeep
import CassisModel.Proofs.RoundTripDemo

namespace Cassis.Json.IdsDemo
open Cassis Cassis.TS Cassis.Xmi.Demo

def sofaJ (id num : Int) (name : String) : JFs :=
  { id := some id, ty := SOFA, feats := [("sofaNum", .int num), ("sofaID", .str name), ("sofaString", .str "abc")] }

def tokJ (id : Int) (extra : List (String × JV)) : JFs :=
  { id := some id, ty := "x.Tok", feats := [("begin", .int 0), ("end", .int 1), ("@sofa", .int 1)] ++ extra }

/-- what the examples look at: both generators, (name, sofa id, sofaNum) of every view, the ids in the heap -/
structure Summary where
  nextXid : Int
  nextSofaNum : Int
  views : List (String × Int × Int)
  ids : List (Option Int)
deriving DecidableEq, Repr

def summary (r : Except Err Loaded) : Option Summary :=
  match r with
  | .error _ => none
  | .ok ld => some ⟨ld.cas.nextXid, ld.cas.nextSofaNum,
      ld.cas.views.map (fun p => (p.1, p.2.sofa.xid, p.2.sofa.sofaNum)), ld.heap.map (·.xid)⟩

/-- two sofas, two structures referring to each other (one forward reference), one of them indexed -/
def doc1 : JDoc :=
  { types := none,
    fss := [sofaJ 1 1 "_InitialView", sofaJ 8 3 "v", tokJ 5 [("@next", .int 6)], tokJ 6 [("@next", .int 5)]],
    views := [{ name := "_InitialView", sofa := some 1, members := [5] }, { name := "v", sofa := some 8, members := [] }] }

theorem doc1_loads : summary (loadJson K demoTS' 0 0 true false [] doc1) =
    some ⟨9, 4, [("_InitialView", 1, 1), ("v", 8, 3)], [some 5, some 6]⟩ := by decide +kernel

theorem doc1_nox : ∀ j ∈ doc1.fss, ∀ p ∈ j.feats, p.1 ≠ "@xmiID" := by decide +kernel

/-- Boolean checker for `SofaNamesDistinct` -/
def sofaNamesDistinctB : List JFs → Bool
  | [] => true
  | a :: rest =>
    rest.all (fun b => !(a.ty == SOFA && b.ty == SOFA) || sofaIdOf a != sofaIdOf b ||
      sofaIdOf a == some Cas.INITIAL_VIEW) && sofaNamesDistinctB rest

theorem sofaNamesDistinctB_sound (l : List JFs) (h : sofaNamesDistinctB l = true) : SofaNamesDistinct l := by
  induction l with
  | nil => exact List.Pairwise.nil
  | cons a rest ih =>
    rw [sofaNamesDistinctB, Bool.and_eq_true] at h
    refine List.pairwise_cons.mpr ⟨?_, ih h.2⟩
    intro b hb ha hbt n hna hnb
    have := List.all_eq_true.mp h.1 b hb
    simp only [ha, hbt, hna, hnb, beq_self_eq_true, Bool.and_self, Bool.not_true, Bool.false_or, bne_self_eq_false,
      beq_iff_eq, Option.some.injEq] at this
    exact this

theorem doc1_distinct : SofaNamesDistinct doc1.fss := sofaNamesDistinctB_sound _ (by decide +kernel)

/-- a second sofa element with the name of an existing view (other than the initial one) is applied to that view, which
    keeps its sofa id and sofaNum (`cas.get_view` in `_get_or_create_view`): the id (3) and the sofaNum (7) of the element
    are ignored, both generators end at or below them (Python: the same; a structure added next gets id 3) -/
def docDup : JDoc := { types := none, fss := [sofaJ 1 1 "_InitialView", sofaJ 2 2 "v", sofaJ 3 7 "v"], views := [] }
theorem docDup_loads : summary (loadJson K demoTS' 0 0 false false [] docDup) =
    some ⟨3, 3, [("_InitialView", 1, 1), ("v", 2, 2)], []⟩ := by decide +kernel

/-- `docDup` is why the bound on the ids of the sofa elements needs `SofaNamesDistinct`: the document has an element with
    id 3 and the generator restarts at 3 (no loaded structure or sofa carries id 3: the element was merged into sofa 2) -/
theorem docDup_not_below : ∃ ld, loadJson K demoTS' 0 0 false false [] docDup = .ok ld ∧
    ∃ j ∈ docDup.fss, j.id = some 3 ∧ ¬ (3 < ld.cas.nextXid) := by
  cases h : loadJson K demoTS' 0 0 false false [] docDup with
  | error e =>
    have := docDup_loads
    rw [h] at this
    cases this
  | ok ld =>
    have := docDup_loads
    rw [h] at this
    simp only [summary, Option.some.injEq, Summary.mk.injEq] at this
    exact ⟨ld, rfl, sofaJ 3 7 "v", by simp [docDup], rfl, by rw [this.1]; decide⟩

theorem docDup_not_distinct : ¬ SofaNamesDistinct docDup.fss := by
  intro h
  have h1 := (List.pairwise_cons.mp (List.pairwise_cons.mp h).2).1 (sofaJ 3 7 "v") (by simp)
    rfl rfl "v" (by decide +kernel) (by decide +kernel)
  exact absurd h1 (by decide)

/-- a second sofa element for the *initial* view replaces its sofa id and sofaNum (ids 1 and 5 are both registered) -/
def docDupInit : JDoc := { types := none, fss := [sofaJ 1 1 "_InitialView", sofaJ 5 4 "_InitialView"], views := [] }
theorem docDupInit_loads : summary (loadJson K demoTS' 0 0 false false [] docDupInit) =
    some ⟨6, 5, [("_InitialView", 5, 4)], []⟩ := by decide +kernel

/-- a view that is only named in `%VIEWS` is created in the views pass and consumes an id and a sofaNum -/
def docView : JDoc :=
  { types := none, fss := [sofaJ 1 1 "_InitialView", tokJ 5 []], views := [{ name := "w", sofa := none, members := [5] }] }
theorem docView_loads : summary (loadJson K demoTS' 0 0 true false [] docView) =
    some ⟨7, 3, [("_InitialView", 1, 1), ("w", 6, 2)], [some 5]⟩ := by decide +kernel

/-- a dangling `@xmiID` member: the deferred `setattr(fs, "xmiID", None)` drops the id … -/
def docDangling : JDoc := { types := none, fss := [sofaJ 1 1 "_InitialView", tokJ 5 [("@xmiID", .int 99)]], views := [] }
theorem docDangling_loads : summary (loadJson K demoTS' 0 0 false false [] docDangling) =
    some ⟨6, 2, [("_InitialView", 1, 1)], [none]⟩ := by decide +kernel

/-- … and indexing the structure gives it a fresh one -/
def docDangling2 : JDoc :=
  { docDangling with views := [{ name := "_InitialView", sofa := some 1, members := [5] }] }
theorem docDangling2_loads : summary (loadJson K demoTS' 0 0 true false [] docDangling2) =
    some ⟨7, 2, [("_InitialView", 1, 1)], [some 6]⟩ := by decide +kernel

/-- the empty document: the implicit initial view keeps sofa id 1 / sofaNum 1, the generators restart at 1 -/
def docEmpty : JDoc := { types := none, fss := [], views := [] }
theorem docEmpty_loads : summary (loadJson K demoTS' 0 0 false false [] docEmpty) =
    some ⟨1, 1, [("_InitialView", 1, 1)], []⟩ := by decide +kernel

end Cassis.Json.IdsDemo
