/-
Fixpoint of the XMI round trip with collections (`Properties/C01FixpointColl.lean`), value level: what the reader
stores for the elements of an array (`elemsExp`) and the heads of a list (`headExp`) is written like the original, and
stays inside the fragment.
-/
import CassisModel.Proofs.RoundTripCollDefs
import CassisModel.Proofs.RoundTripCollArr
import CassisModel.Proofs.RoundTripCollElemGenW

namespace Cassis.Xmi.CFX
open Cassis.TS Cassis.Traverse Cassis.Lex Cassis.Xmi

/-! ### texts -/

theorem normTxt_idem (e : Option String) : normTxt (normTxt e) = normTxt e := by
  unfold normTxt
  cases h : (e == some "")
  · simp only [h, Bool.false_eq_true, if_false]
  · simp only [if_true]; rfl

theorem kidTxt_strHead (h : Val) : CG1.kidTxt (strHead h) = CG1.kidTxt h := by
  cases h with
  | str s =>
    unfold strHead
    by_cases hs : s = ""
    · subst hs; rfl
    · have : (s == "") = false := by simpa using hs
      simp only [this, Bool.false_eq_true, if_false]
  | _ => rfl

/-! ### ids -/

theorem idTok_new {H hpL : Heap} {na : Int → Nat} {b : Nat} {x : Int} (h1 : xidOf H b = some x)
    (h2 : xidOf hpL (na x) = some x) : idTok hpL (na x) = idTok H b := by
  unfold idTok; rw [h1, h2]

theorem refOk_new {hpL : Heap} {a : Nat} {x : Int} (h : xidOf hpL a = some x) (hx : x ≠ 0) : RefOk hpL a := by
  refine ⟨by rw [h]; rfl, ?_⟩
  rw [h]
  intro e
  exact hx (Option.some.inj e)

/-! ### elements of arrays -/

theorem primElems_exp (H : Heap) (na : Int → Nat) {r : String} {ev : Val} (h : PrimElems r ev) :
    PrimElems r (elemsExp H na ev) := by
  rcases h with rfl | ⟨hr, l, rfl⟩ | ⟨hr, l, rfl, hb⟩ | ⟨hr, l, rfl⟩ | ⟨hr, l, rfl, ht⟩
  · exact .inl rfl
  · cases l with
    | nil => exact .inl rfl
    | cons i l => exact .inr (.inl ⟨hr, _, rfl⟩)
  · cases l with
    | nil => exact .inl rfl
    | cons i l => exact .inr (.inr (.inl ⟨hr, _, rfl, hb⟩))
  · cases l with
    | nil => exact .inl rfl
    | cons i l => exact .inr (.inr (.inr (.inl ⟨hr, _, rfl⟩)))
  · cases l with
    | nil => exact .inl rfl
    | cons i l => exact .inr (.inr (.inr (.inr ⟨hr, _, rfl, ht⟩)))

theorem showPrimArray_exp (H : Heap) (na : Int → Nat) {r : String} {ev : Val} (h : PrimElems r ev) :
    showPrimArray r (elemsExp H na ev) = showPrimArray r ev := by
  rcases h with rfl | ⟨hr, l, rfl⟩ | ⟨hr, l, rfl, hb⟩ | ⟨hr, l, rfl⟩ | ⟨hr, l, rfl, ht⟩
  · rfl
  · cases l with
    | nil => rw [CAR.show_ints_nil]; rfl
    | cons i l => rfl
  · cases l with
    | nil => rw [CAR.show_ints_nil]; rfl
    | cons i l => rfl
  · cases l with
    | nil => rfl
    | cons i l => rfl
  · cases l with
    | nil => rfl
    | cons i l => rfl

theorem strElems_exp (H : Heap) (na : Int → Nat) {ev : Val} (h : StrElems ev) : StrElems (elemsExp H na ev) := by
  rcases h with rfl | ⟨l, rfl⟩
  · exact .inl rfl
  · cases l with
    | nil => exact .inl rfl
    | cons e l => exact .inr ⟨_, rfl⟩

/-- the new elements of an FSArray -/
theorem fs_exp (H : Heap) (na : Int → Nat) (l : List Nat) (h : ∀ b ∈ l, ∃ x, xidOf H b = some x) :
    elemsExp H na (.refs (l.map some)) = .refs ((l.map (fun b => na (CAR.idOf H b))).map some) := by
  show Val.refs ((l.map some).map (fun r => r.bind (fun b => (xidOf H b).map na))) = _
  rw [List.map_map, List.map_map]
  congr 1
  apply List.map_congr_left
  intro b hb
  obtain ⟨x, hx⟩ := h b hb
  simp only [Function.comp, Option.bind_some, CAR.idOf, hx]
  rfl

theorem idOf_eq {H : Heap} {b : Nat} {x : Int} (h : xidOf H b = some x) : CAR.idOf H b = x := by
  unfold CAR.idOf; rw [h]; rfl

/-! ### lists -/

/-- the writer collects the heads of a list the reader made -/
theorem collectList_listAt {hp : Heap} : ∀ {a : Nat} {vs : List Val}, ListAt hp a vs →
    ∀ fuel, vs.length < fuel → collectList hp fuel (.ref a) = .ok vs := by
  intro a vs h
  induction h with
  | @nil a o h1 h2 h3 =>
    intro fuel hf
    cases fuel with
    | zero => cases hf
    | succ f =>
      have : slot hp a "head" = none := by simp [slot, Traverse.slot, h1, h3]
      simp only [collectList, this]
  | @cons a o hd a' rest h1 h2 h3 h4 _ ih =>
    intro fuel hf
    cases fuel with
    | zero => cases hf
    | succ f =>
      have e1 : slot hp a "head" = some hd := by simp [slot, Traverse.slot, h1, h3]
      have e2 : slot hp a "tail" = some (.ref a') := by simp [slot, Traverse.slot, h1, h4]
      simp only [collectList, e1, e2, Option.getD_some, bind, Except.bind, pure, Except.pure]
      rw [ih f (by simpa using hf)]

/-- `walkList` against any visited map: it ends where `collectList` ends and pushes only heads -/
theorem walkList_collect_any (H : Heap) (allFs : List (Int × Nat)) : ∀ (fuel : Nat) (v : Val) (hs : List Val),
    collectList H fuel v = .ok hs →
    ∃ (ps : List Nat) (n : Nat), walkList H allFs fuel v = some (ps, n) ∧ ∀ b ∈ ps, Val.ref b ∈ hs := by
  intro fuel
  induction fuel with
  | zero => intro v hs h; unfold collectList at h; cases h
  | succ f ih =>
    intro v hs h
    cases v with
    | ref a =>
      unfold collectList at h
      unfold walkList
      simp only [Xmi.slot] at h
      cases hh : Traverse.slot H a "head" with
      | none =>
        rw [hh] at h
        simp only at h
        cases h
        exact ⟨[], 0, rfl, fun b hb => by cases hb⟩
      | some hd =>
        rw [hh] at h
        simp only [bind, Except.bind, pure, Except.pure] at h
        cases hr : collectList H f ((Traverse.slot H a "tail").getD .none) with
        | error e => rw [hr] at h; cases h
        | ok rest =>
          rw [hr] at h
          simp only at h
          cases h
          obtain ⟨ps, n, hw, hm⟩ := ih _ _ hr
          simp only [hw]
          refine ⟨_, _, rfl, ?_⟩
          intro b hb
          rcases List.mem_append.mp hb with hb | hb
          · cases hd with
            | ref t =>
              simp only at hb
              split at hb
              · cases hb
              · rw [List.mem_singleton.mp hb]; exact List.mem_cons_self
            | _ => cases hb
          · exact List.mem_cons_of_mem _ (hm b hb)
    | _ =>
      unfold collectList at h
      cases h
      exact ⟨[], 0, by unfold walkList; rfl, fun b hb => by cases hb⟩

theorem headExp_prim (H : Heap) (na : Int → Nat) : ∀ (hs : List Val),
    (∀ h ∈ hs, (∃ i : Int, h = .int i) ∨ (∃ t : String, h = .float t)) → hs.map (headExp H na) = hs
  | [], _ => rfl
  | h :: hs, hh => by
    rw [List.map_cons, headExp_prim H na hs (fun y hy => hh y (List.mem_cons_of_mem _ hy))]
    rcases hh h List.mem_cons_self with ⟨i, rfl⟩ | ⟨t, rfl⟩ <;> rfl

theorem headExp_str (H : Heap) (na : Int → Nat) : ∀ (hs : List Val),
    (∀ h ∈ hs, h = .none ∨ ∃ s : String, h = .str s) → hs.map (headExp H na) = hs.map strHead
  | [], _ => rfl
  | h :: hs, hh => by
    rw [List.map_cons, List.map_cons, headExp_str H na hs (fun y hy => hh y (List.mem_cons_of_mem _ hy))]
    rcases hh h List.mem_cons_self with rfl | ⟨s, rfl⟩ <;> rfl

theorem strHead_ok (h : Val) (hh : h = .none ∨ ∃ s : String, h = .str s) :
    strHead h = .none ∨ ∃ s : String, strHead h = .str s := by
  rcases hh with rfl | ⟨s, rfl⟩
  · exact .inl rfl
  · unfold strHead
    by_cases hs : s = ""
    · subst hs; exact .inl rfl
    · have : (s == "") = false := by simpa using hs
      simp only [this, Bool.false_eq_true, if_false]
      exact .inr ⟨s, rfl⟩

/-- the new heads of an FSList -/
theorem headExp_refs (H : Heap) (na : Int → Nat) : ∀ (bs : List Nat), (∀ b ∈ bs, ∃ x, xidOf H b = some x) →
    (bs.map Val.ref).map (headExp H na) = (bs.map (fun b => na (CAR.idOf H b))).map Val.ref
  | [], _ => rfl
  | b :: bs, hh => by
    obtain ⟨x, hx⟩ := hh b List.mem_cons_self
    simp only [List.map_cons]
    rw [headExp_refs H na bs (fun y hy => hh y (List.mem_cons_of_mem _ hy))]
    simp only [headExp, hx, CAR.idOf, Option.getD_some]

end Cassis.Xmi.CFX
