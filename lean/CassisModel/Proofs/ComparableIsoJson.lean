/-
C20 across the JSON round trip, flat fragment: `cas_to_comparable_text` of the loaded CAS is that of the written one.

The JSON writer traverses with `include_inlinable_arrays_and_lists=True`, `cas_to_comparable_text` with the default
options; on the flat fragment the two traversals are the same run (`Proofs/ComparableIsoTrav.lean`).
-/
import CassisModel.Proofs.ComparableIsoXmi
import CassisModel.Proofs.ComparableIsoTrav
import CassisModel.Proofs.RoundTripJsonFix

namespace Cassis.Comparable
open Cassis.TS Cassis.Traverse Cassis.Xmi Cassis.Json

theorem viewsSame_of_relJ {H : Heap} {na : Int → Nat} {c c' : Cas} (h : ViewsRelJ H na c.views c'.views) :
    ViewsSame c c' := by
  intro vn v hg
  obtain ⟨v', hv', hr⟩ := viewsRelJ_get _ _ vn v h hg
  have : v'.sofa = v.sofa := hr.2.1
  exact ⟨v', hv', by rw [this], by rw [this]⟩

theorem seed_fwdJ' {K : Consts} {ts : TypeSystem} {c : Cas} {ci : Nat} {H : Heap} {L : List (Int × Nat)}
    {na : Int → Nat} {c' : Cas} (hL : LOk K ts c ci H L) (hviews : ViewsRelJ H na c.views c'.views) {a : Nat}
    (ha : a ∈ defaultSeeds c') : ∃ q ∈ L, a = na q.1 ∧ q.2 ∈ defaultSeeds c := by
  unfold defaultSeeds at ha
  obtain ⟨nv', hnv', ha⟩ := List.mem_flatMap.mp ha
  obtain ⟨nv, hnv, hr⟩ := viewsRelJ_bwd H na _ _ hviews nv' hnv'
  have hperm := hr.2.2
  have := hperm.mem_iff.mp ha
  obtain ⟨m, hm, rfl⟩ := List.mem_map.mp this
  obtain ⟨e0, he0, hx0⟩ := mem_members.mp hm
  obtain ⟨x, hx⟩ := hL.members nv hnv e0 he0
  have := (hL.ids _ hx).1
  rw [show ((x, e0.oid) : Int × Nat).2 = e0.oid from rfl, hx0] at this
  cases this
  refine ⟨_, hx, rfl, ?_⟩
  unfold defaultSeeds
  exact List.mem_flatMap.mpr ⟨nv, hnv, List.mem_map.mpr ⟨e0, he0, rfl⟩⟩

/-- the type of a flat structure is option-free -/
theorem optFree_of_flat {K : Consts} {ts : TypeSystem} {c : Cas} {ci : Nat} {H : Heap} {a : Nat}
    (hfl : FlatFs K ts c ci H a) {ob : Obj} {t : TypeRec} (hob : H[a]? = some ob) (ht : getType ts ob.ty = .ok t) :
    OptFree K ts t := by
  obtain ⟨o, t0, ho, hfind, _, _, _, _, _, _, _, _, _, _, _, hfeat, _⟩ := hfl
  rw [hob] at ho; cases ho
  rw [getType_of_find hfind] at ht; cases ht
  apply optFree_of_feats
  intro f hf
  obtain ⟨_, _, _, _, _, _, _, _, _, _, _, v, _, hcase⟩ := hfeat f hf
  rcases hcase with ⟨hn, _⟩ | ⟨_, hp, _⟩ | ⟨_, _, ha, hl, _⟩
  · exact Or.inl hn
  · exact Or.inr (Or.inl hp)
  · exact Or.inr (Or.inr ⟨ha, hl⟩)

/-- the JSON round trip on the flat fragment produces an isomorphic CAS; `st` is also what the traversal of
    `cas_to_comparable_text` on the original delivers -/
theorem json_roundtrip_flat_iso_aux (K : Consts) (ts : TypeSystem) (cass : List Cas) (ci : Nat) (c : Cas) (hp : Heap)
    (tsIdx : Nat) (doc : JDoc) (st : St)
    (hc : cass[ci]? = some c) (hwf : RTWf c hp)
    (hsave : saveJson K ts cass ci hp .none = .ok (doc, st))
    (hflat : ∀ q ∈ st.allFs, FlatFs K ts c ci st.heap q.2)
    (hjson : ∀ q ∈ st.allFs, JsonFs ts st.heap q.2)
    (hids : ∀ nv ∈ c.views, ∀ e ∈ Index.all nv.2.idx, (xidOf hp e.oid).isSome = true)
    (hdis : ∀ q ∈ st.allFs, ∀ nv ∈ c.views, q.1 ≠ nv.2.sofa.xid)
    (hmem : ∀ nv ∈ c.views, ∀ e ∈ Index.all nv.2.idx, Xmi.slot st.heap e.oid "sofa" ≠ some .none)
    (hmok : MembersOk c st.heap) :
    ∃ (ld : Json.Loaded) (φ : Nat → Nat) (st' : St),
      loadJson K ts tsIdx cass.length false false st.heap doc = .ok ld ∧
      findAllFs K ts {} hp c.nextXid (defaultSeeds c) = .ok st ∧
      findAllFs K ts {} ld.heap ld.cas.nextXid (defaultSeeds ld.cas) = .ok st' ∧ st'.heap = ld.heap ∧
      Iso K cass (cass ++ [ld.cas]) st.heap ld.heap (defaultSeeds c) (defaultSeeds ld.cas)
        (st.allFs.map (·.2)) (st'.allFs.map (·.2)) φ := by
  obtain ⟨ld, m, hload, _, g, _, _, _, _, hrel, hviews, _, hnx, hm0, _, _⟩ :=
    json_core K ts cass ci c hp tsIdx cass.length doc st hc hwf hsave hflat hjson hids hdis hmem hmok
  have hL := g.lok
  have hc' : (cass ++ [ld.cas])[cass.length]? = some ld.cas := List.getElem?_concat_length
  have harr : ∀ nv ∈ c.views, nv.2.sofa.arr = .none := fun nv hnv => (hwf.text_sofa nv hnv).1
  have hfaJ := (saveJson_parts hc harr hsave).1
  have hfa : findAllFs K ts {} hp c.nextXid (defaultSeeds c) = .ok st :=
    findAllFs_opts false hfaJ (fun q hq ob t hob ht => optFree_of_flat (hflat q hq) hob ht)
  have hnx' : 0 < ld.cas.nextXid := by omega
  obtain ⟨st', hfa', hheap, hS⟩ := new_traversalJ (op := {}) (ci' := cass.length) hL hrel hviews
  have hperm := new_allFs_permJ hwf hfa hL hrel hviews hnx' hfa' hheap hS
  have hiso := iso_of_heapRel hc hc' hL hrel (viewsSame_of_relJ hviews)
    (seed_iff_of hL hrel (fun _ ha => seed_fwdJ' hL hviews ha)
      (fun q hq h => seed_bwdJ (x := q.1) (a := q.2) hL hviews hq h))
    (st.allFs.map (·.2)) (st'.allFs.map (·.2))
    ((sortById_perm_aux st.allFs).symm.map _)
    (by
      have h1 := hperm.map (·.2)
      rw [List.map_map] at h1
      exact h1.trans ((sortById_perm_aux st.allFs).symm.map
        (fun q : Int × Nat => naOf st.heap (sortById st.allFs) q.1)))
  exact ⟨ld, _, st', hload, hfa, hfa', hheap, hiso⟩

/-- **C20 across the JSON round trip (flat fragment)** -/
theorem render_json_roundtrip_flat_aux (K : Consts) (ts : TypeSystem) (cass : List Cas) (ci : Nat) (c : Cas) (hp : Heap)
    (tsIdx : Nat) (doc : JDoc) (st : St) (o : Opts) (hsh hsh' : Nat → Int)
    (hc : cass[ci]? = some c) (hwf : RTWf c hp)
    (hsave : saveJson K ts cass ci hp .none = .ok (doc, st))
    (hflat : ∀ q ∈ st.allFs, FlatFs K ts c ci st.heap q.2)
    (hjson : ∀ q ∈ st.allFs, JsonFs ts st.heap q.2)
    (hids : ∀ nv ∈ c.views, ∀ e ∈ Index.all nv.2.idx, (xidOf hp e.oid).isSome = true)
    (hdis : ∀ q ∈ st.allFs, ∀ nv ∈ c.views, q.1 ≠ nv.2.sofa.xid)
    (hmem : ∀ nv ∈ c.views, ∀ e ∈ Index.all nv.2.idx, Xmi.slot st.heap e.oid "sofa" ≠ some .none)
    (hmok : MembersOk c st.heap)
    (hd : Distinct st.heap (st.allFs.map (·.2))) :
    ∃ ld : Json.Loaded,
      loadJson K ts tsIdx cass.length false false st.heap doc = .ok ld ∧
      (render K ts (cass ++ [ld.cas]) cass.length ld.heap o hsh' none).map (·.1)
        = (render K ts cass ci hp o hsh none).map (·.1) := by
  obtain ⟨ld, φ, st', hload, hfa, hfa', hheap, hiso⟩ :=
    json_roundtrip_flat_iso_aux K ts cass ci c hp tsIdx doc st hc hwf hsave hflat hjson hids hdis hmem hmok
  have hc' : (cass ++ [ld.cas])[cass.length]? = some ld.cas := List.getElem?_concat_length
  refine ⟨ld, hload, ?_⟩
  rw [render_eq o hsh hc hfa, render_eq o hsh' hc' hfa', hheap]
  exact renderFrom_iso_aux K ts cass (cass ++ [ld.cas]) st.heap ld.heap o hsh hsh' _ _ _ _ _ hiso hd

end Cassis.Comparable
