/-
Round trip with collections, layer IL (second pass on one inlined list feature), part A: small list lemmas and the
characterisation of the list builders of the reader (`buildPrimList`, `buildFsList`).
-/
import CassisModel.Proofs.RoundTripCollStmts
import CassisModel.Proofs.RoundTripCollFrz
import CassisModel.Properties.C01

namespace Cassis.Xmi.CIL
open Cassis.TS Cassis.Traverse Cassis.Lex Cassis.Xmi

/-! ### features by name -/

theorem find_name_nodup (l : List Feature) (f : Feature) (hm : f ∈ l) (hnd : (l.map (·.name)).Nodup) :
    l.find? (fun g => g.name == f.name) = some f := by
  induction l with
  | nil => cases hm
  | cons g l ih =>
    rw [List.map_cons, List.nodup_cons] at hnd
    rw [List.find?_cons]
    rcases List.mem_cons.1 hm with rfl | hm
    · simp only [beq_self_eq_true]
    · have hne : g.name ≠ f.name := by
        intro he
        exact hnd.1 (List.mem_map.2 ⟨f, hm, he.symm⟩)
      rw [beq_eq_false_iff_ne.2 hne]
      exact ih hm hnd.2

theorem mem_name_unique (l : List Feature) (f g : Feature) (hf : f ∈ l) (hg : g ∈ l) (hn : g.name = f.name)
    (hnd : (l.map (·.name)).Nodup) : g = f := by
  have h1 := find_name_nodup l f hf hnd
  have h2 := find_name_nodup l g hg hnd
  rw [hn, h1] at h2
  exact (Option.some.inj h2).symm

/-! ### `mapM` in `Except` -/

theorem mapM_ok {α β} (f : α → Except Err β) (g : α → β) (l : List α) (h : ∀ x ∈ l, f x = .ok (g x)) :
    l.mapM f = .ok (l.map g) := by
  induction l with
  | nil => rfl
  | cons x l ih =>
    rw [List.mapM_cons, h x List.mem_cons_self, ih (fun y hy => h y (List.mem_cons_of_mem _ hy))]
    rfl

theorem mapM_ok_inv {α β} (f : α → Except Err β) (g : α → β) (l : List α) (r : List β)
    (h : ∀ x ∈ l, f x = .ok (g x)) (hr : l.mapM f = .ok r) : r = l.map g := by
  rw [mapM_ok f g l h] at hr
  exact (Except.ok.inj hr).symm

/-! ### the fold of the list builders -/

theorem getElem?_snoc_len (hp : Heap) (o : Obj) : (hp ++ [o])[hp.length]? = some o := by
  rw [List.getElem?_append_right (Nat.le_refl _), Nat.sub_self]
  rfl

theorem listFold_at {α} (hd : α → Val) (g : Heap × Nat → α → Obj)
    (hg : ∀ acc v, (g acc v).xid = none ∧ alistGet? (g acc v).slots "head" = some (hd v) ∧
      alistGet? (g acc v).slots "tail" = some (.ref acc.2)) (vals : List α) :
    ∀ (acc : Heap × Nat) (done : List Val), ListAt acc.1 acc.2 done →
      ∃ nodes : List Obj,
        (vals.foldl (fun acc v => (acc.1 ++ [g acc v], acc.1.length)) acc).1 = acc.1 ++ nodes ∧
        (∀ o ∈ nodes, o.xid = none) ∧ nodes.length = vals.length ∧
        ListAt (vals.foldl (fun acc v => (acc.1 ++ [g acc v], acc.1.length)) acc).1
          (vals.foldl (fun acc v => (acc.1 ++ [g acc v], acc.1.length)) acc).2 (vals.reverse.map hd ++ done) := by
  induction vals with
  | nil =>
    intro acc done h
    exact ⟨[], (List.append_nil _).symm, fun _ h => (by cases h), rfl, h⟩
  | cons v vals ih =>
    intro acc done h
    rw [List.foldl_cons]
    have hstep : ListAt (acc.1 ++ [g acc v]) acc.1.length (hd v :: done) :=
      .cons (getElem?_snoc_len _ _) (hg acc v).1 (hg acc v).2.1 (hg acc v).2.2 (ListAt.frz (Frz.append _ _) h)
    obtain ⟨nodes, h1, h2, h3, h4⟩ := ih (acc.1 ++ [g acc v], acc.1.length) (hd v :: done) hstep
    refine ⟨g acc v :: nodes, ?_, ?_, ?_, ?_⟩
    · rw [h1]; simp only [List.append_assoc, List.singleton_append]
    · intro o ho
      rcases List.mem_cons.1 ho with rfl | ho
      · exact (hg acc v).1
      · exact h2 o ho
    · simp only [List.length_cons, h3]
    · rw [List.reverse_cons, List.map_append, List.append_assoc]
      exact h4

/-- the list the builders make: the empty node first, then one node per value, last to first -/
theorem listFold_build {α} (hd : α → Val) (hp : Heap) (e0 : Obj) (he0 : e0.xid = none) (he0s : e0.slots = [])
    (g : Heap × Nat → α → Obj)
    (hg : ∀ acc v, (g acc v).xid = none ∧ alistGet? (g acc v).slots "head" = some (hd v) ∧
      alistGet? (g acc v).slots "tail" = some (.ref acc.2)) (vals : List α) :
    ∃ (nodes : List Obj) (l : Nat),
      vals.reverse.foldl (fun acc v => (acc.1 ++ [g acc v], acc.1.length)) (hp ++ [e0], hp.length) = (hp ++ nodes, l) ∧
      (∀ o ∈ nodes, o.xid = none) ∧ nodes.length = vals.length + 1 ∧ ListAt (hp ++ nodes) l (vals.map hd) := by
  have h0 : ListAt (hp ++ [e0], hp.length).1 (hp ++ [e0], hp.length).2 [] :=
    .nil (getElem?_snoc_len _ _) he0 (by rw [he0s]; rfl)
  obtain ⟨nodes, h1, h2, h3, h4⟩ := listFold_at hd g hg vals.reverse (hp ++ [e0], hp.length) [] h0
  refine ⟨e0 :: nodes, _, Prod.ext (h1.trans (by simp only [List.append_assoc, List.singleton_append])) rfl,
    ?_, ?_, ?_⟩
  · intro o ho
    rcases List.mem_cons.1 ho with rfl | ho
    · exact he0
    · exact h2 o ho
  · simp only [List.length_cons, h3, List.length_reverse]
  · rw [List.reverse_reverse, List.append_nil, h1] at h4
    simpa only [List.append_assoc, List.singleton_append] using h4

theorem buildFsList_at (hp : Heap) (tsIdx : Nat) (targets : List Nat) :
    ∃ (nodes : List Obj) (l : Nat), buildFsList hp tsIdx targets = (hp ++ nodes, l) ∧
      (∀ o ∈ nodes, o.xid = none) ∧ nodes.length = targets.length + 1 ∧
      ListAt (hp ++ nodes) l (targets.map Val.ref) := by
  unfold buildFsList
  exact listFold_build Val.ref hp _ rfl rfl (fun (acc : Heap × Nat) (t : Nat) =>
      ({ ty := "uima.cas.NonEmptyFSList", ts := tsIdx, xid := none,
         slots := [("head", Val.ref t), ("tail", Val.ref acc.2)] } : Obj))
    (fun _ _ => ⟨rfl, rfl, rfl⟩) targets

/-! ### `buildPrimList` on integer and float tokens -/

def gInt : Option String → Val
  | some s => .int ((parseInt s).getD 0)
  | none => .none
def gFloat : Option String → Val
  | some s => .float s
  | none => .none

theorem map_gInt (is : List Int) : List.map gInt (List.map some (List.map showInt is)) = is.map Val.int := by
  induction is with
  | nil => rfl
  | cons i is ih => simp only [List.map_cons, ih, gInt, parseInt_showInt, Option.getD_some]

theorem map_gFloat (tl : List String) : List.map gFloat (List.map some tl) = tl.map Val.float := by
  induction tl with
  | nil => rfl
  | cons i is ih => simp only [List.map_cons, ih, gFloat]

theorem buildPrimList_int_at (hp : Heap) (tsIdx : Nat) (is : List Int) :
    ∃ (nodes : List Obj) (l : Nat),
      buildPrimList hp tsIdx INTEGER_LIST ((is.map showInt).map some) = .ok (hp ++ nodes, l) ∧
      (∀ o ∈ nodes, o.xid = none) ∧ nodes.length = is.length + 1 ∧ ListAt (hp ++ nodes) l (is.map Val.int) := by
  unfold buildPrimList
  simp only [beq_self_eq_true, if_true]
  rw [mapM_ok (g := gInt), map_gInt]
  case h =>
    intro x hx
    obtain ⟨s, hs, rfl⟩ := List.mem_map.1 hx
    obtain ⟨i, _, rfl⟩ := List.mem_map.1 hs
    simp only [gInt, parseIntE, parseInt_showInt, Option.getD_some]
    rfl
  obtain ⟨nodes, l, h1, h2, h3, h4⟩ := listFold_build id hp
    { ty := "uima.cas.EmptyIntegerList", ts := tsIdx, xid := none, slots := [] } rfl rfl
    (fun (acc : Heap × Nat) (v : Val) =>
      ({ ty := "uima.cas.NonEmptyIntegerList", ts := tsIdx, xid := none,
         slots := [("head", v), ("tail", Val.ref acc.2)] } : Obj))
    (fun _ _ => ⟨rfl, rfl, rfl⟩) (is.map Val.int)
  rw [List.map_id, List.length_map] at *
  exact ⟨nodes, l, congrArg Except.ok h1, h2, h3, h4⟩

theorem buildPrimList_float_at (hp : Heap) (tsIdx : Nat) (tl : List String) :
    ∃ (nodes : List Obj) (l : Nat),
      buildPrimList hp tsIdx FLOAT_LIST (tl.map some) = .ok (hp ++ nodes, l) ∧
      (∀ o ∈ nodes, o.xid = none) ∧ nodes.length = tl.length + 1 ∧ ListAt (hp ++ nodes) l (tl.map Val.float) := by
  unfold buildPrimList
  have hne : (FLOAT_LIST == INTEGER_LIST) = false := by decide
  simp only [hne, beq_self_eq_true, if_true, Bool.false_eq_true, if_false]
  rw [mapM_ok (g := gFloat), map_gFloat]
  case h =>
    intro x hx
    obtain ⟨s, hs, rfl⟩ := List.mem_map.1 hx
    rfl
  obtain ⟨nodes, l, h1, h2, h3, h4⟩ := listFold_build id hp
    { ty := "uima.cas.EmptyFloatList", ts := tsIdx, xid := none, slots := [] } rfl rfl
    (fun (acc : Heap × Nat) (v : Val) =>
      ({ ty := "uima.cas.NonEmptyFloatList", ts := tsIdx, xid := none,
         slots := [("head", v), ("tail", Val.ref acc.2)] } : Obj))
    (fun _ _ => ⟨rfl, rfl, rfl⟩) (tl.map Val.float)
  rw [List.map_id, List.length_map] at *
  exact ⟨nodes, l, congrArg Except.ok h1, h2, h3, h4⟩
end Cassis.Xmi.CIL
