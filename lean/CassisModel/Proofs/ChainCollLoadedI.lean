/-
C16 with collections, the CAS loaded from XMI, part I: the hypotheses of the JSON round trip for the loaded CAS over the
heap *after* the traversal of the JSON writer (`JTrav`), and the transfer of the deep content `featContentC` from the
loaded heap to that heap (the traversal assigned ids to the inlined collection objects only, which the content of the
features of the counterparts does not mention).
-/
import CassisModel.Proofs.ChainCollLoadedH

namespace Cassis.ChainC
open Cassis.TS Cassis.Traverse Cassis.Xmi Cassis.Lex Cassis.Json

theorem filterMap_congr'' {α β} {f g : α → Option β} : ∀ (l : List α), (∀ x ∈ l, f x = g x) → l.filterMap f = l.filterMap g
  | [], _ => rfl
  | x :: l, h => by
    rw [List.filterMap_cons, List.filterMap_cons, h x List.mem_cons_self,
      filterMap_congr'' l (fun y hy => h y (List.mem_cons_of_mem _ hy))]

theorem entryOf_slots {o o' : Obj} (h : o'.slots = o.slots) (a : Nat) : Cas.entryOf o' a = Cas.entryOf o a := by
  unfold Cas.entryOf
  rw [h]

theorem membersOk_shape {c : Cas} {hp hp' : Heap} (sh : SameShape hp hp') (h : MembersOk c hp) : MembersOk c hp' := by
  intro nv hnv
  obtain ⟨h1, h2⟩ := h nv hnv
  refine ⟨?_, ?_⟩
  · intro e he
    obtain ⟨o, k, ho, hk⟩ := h1 e he
    obtain ⟨o', ho', _, hsl, _⟩ := sh.2 _ o ho
    exact ⟨o', k, ho', by rw [entryOf_slots hsl]; exact hk⟩
  · intro e1 he1 e2 he2 o1' o2' k1 k2 ho1' ho2' hty hk1 hk2
    obtain ⟨o1, ho1, hty1, hsl1⟩ := sh.get_back ho1'
    obtain ⟨o2, ho2, hty2, hsl2⟩ := sh.get_back ho2'
    exact h2 e1 he1 e2 he2 o1 o2 k1 k2 ho1 ho2 (by rw [← hty1, ← hty2]; exact hty)
      (by rw [← entryOf_slots hsl1]; exact hk1) (by rw [← entryOf_slots hsl2]; exact hk2)

/-! ### the content and `SameShape` -/

theorem elemVals_shape {hp hp' : Heap} (v : Val)
    (h : ∀ l, v = .refs l → ∀ b, some b ∈ l → xidOf hp' b = xidOf hp b) : elemVals hp' v = elemVals hp v := by
  cases v with
  | refs l =>
    simp only [elemVals]
    apply List.map_congr_left
    intro r hr
    cases r with
    | none => rfl
    | some b => simp only [h l rfl b hr]
  | _ => rfl

theorem cvalOf_shape {hp hp' : Heap} (v : Val) (h1 : ∀ b, v = .ref b → xidOf hp' b = xidOf hp b)
    (h2 : ∀ l, v = .refs l → ∀ b, some b ∈ l → xidOf hp' b = xidOf hp b) : cvalOf hp' v = cvalOf hp v := by
  cases v with
  | ref b => simp only [cvalOf, h1 b rfl]
  | refs l =>
    have := elemVals_shape (hp := hp) (hp' := hp') (.refs l) h2
    simp only [cvalOf, this]
  | _ => rfl

theorem headVal_shape {hp hp' : Heap} (isStr : Bool) (v : Val) (h : ∀ b, v = .ref b → xidOf hp' b = xidOf hp b) :
    headVal hp' isStr v = headVal hp isStr v := by
  cases v with
  | ref b => simp only [headVal, h b rfl]
  | _ => rfl

theorem listVals_vlist {hp hp' : Heap} (sh : SameShape hp hp') (isStr : Bool) {k : LK} :
    ∀ {a : Nat} {vs : List Val}, VList hp k a vs → (∀ v ∈ vs, ∀ b, v = .ref b → xidOf hp' b = xidOf hp b) →
      ∀ fuel, listVals hp' isStr fuel (.ref a) = listVals hp isStr fuel (.ref a) := by
  intro a vs h
  induction h with
  | @nil a o h1 _ _ h4 =>
    intro _ fuel
    cases fuel with
    | zero => rfl
    | succ f =>
      have e : Xmi.slot hp' a "head" = Xmi.slot hp a "head" := sh.slot a "head"
      have g : Xmi.slot hp a "head" = none := by rw [slotOf "head" h1, h4]; rfl
      simp only [listVals, e, g]
  | @cons a o v a' vs h1 _ _ h4 _ ih =>
    intro hx fuel
    cases fuel with
    | zero => rfl
    | succ f =>
      have e1 : Xmi.slot hp' a "head" = Xmi.slot hp a "head" := sh.slot a "head"
      have e2 : Xmi.slot hp' a "tail" = Xmi.slot hp a "tail" := sh.slot a "tail"
      have g1 : Xmi.slot hp a "head" = some v := by rw [slotOf "head" h1, h4, get_head]
      have g2 : Xmi.slot hp a "tail" = some (.ref a') := by rw [slotOf "tail" h1, h4, get_tail]
      simp only [listVals, e1, e2, g1, g2, Option.getD_some]
      rw [headVal_shape isStr v (hx v List.mem_cons_self), ih (fun w hw => hx w (List.mem_cons_of_mem _ hw)) f]

section
variable {K : Consts} {ts : TypeSystem} {c : Cas} {ci : Nat} {H : Heap} {L : List (Int × Nat)} {ci' : Nat}
  {na : Int → Nat} {ia : Int → String → Nat} {ld : Xmi.Loaded}

theorem XLd.xid_keep (x : XLd K ts c ci H L ci' na ia ld) {st2 : St} (j : JTrav K ts L na ld st2) {b : Nat}
    (h : SMain L na b) : xidOf st2.heap b = xidOf ld.heap b := by
  obtain ⟨q, hq, rfl⟩ := h
  rw [x.xid_new hq, j.shape.xidOf (x.xid_new hq)]

theorem headGood_keep (x : XLd K ts c ci H L ci' na ia ld) {st2 : St} (j : JTrav K ts L na ld st2) {k : LK} {v : Val}
    (h : HeadGood L na k v) : ∀ b, v = .ref b → xidOf st2.heap b = xidOf ld.heap b := by
  intro b hb
  subst hb
  cases k with
  | fs => obtain ⟨q, hq, e⟩ := h; cases e; exact x.xid_keep j ⟨q, hq, rfl⟩
  | int => obtain ⟨i, e⟩ := h; cases e
  | flt => obtain ⟨i, e⟩ := h; cases e
  | str => rcases h with e | ⟨s, e⟩ <;> cases e

/-- **the content of the features of the counterparts is not touched by the second traversal** -/
theorem XLd.content_keep (x : XLd K ts c ci H L ci' na ia ld) {st2 : St} (j : JTrav K ts L na ld st2)
    (harr : ∀ q ∈ L, ArrElemsSome H q.2)
    {q : Int × Nat} (hq : q ∈ L) {o : Obj} (ho : H[q.2]? = some o) {t : TypeRec} (ht : find? ts o.ty = some t)
    {f : Feature} (hf : f ∈ allFeatures t) :
    featContentC K st2.heap (na q.1) f = featContentC K ld.heap (na q.1) f := by
  obtain ⟨o0, o', ho0, ho', hty, _, hkeys, hslots⟩ := x.rel q hq
  rw [ho] at ho0; cases ho0
  have hsl : ∀ a n, Xmi.slot st2.heap a n = Xmi.slot ld.heap a n := fun a n => j.shape.slot a n
  unfold featContentC
  rw [hsl, j.shape.1]
  rcases x.lok.coll q hq with hg | hA
  · obtain ⟨o1, t1, ho1, ht1, _, _, _, _, _, _, _, _, _, hnd, _, hfeat, _⟩ := hg
    rw [ho] at ho1; cases ho1
    rw [ht] at ht1; cases ht1
    obtain ⟨_, v, hv, hj, hS⟩ := x.feat_new hq ho ht hnd hf (hfeat f hf)
    have hv' : Xmi.slot ld.heap (na q.1) f.name = some (E3c K ts H na ia ci' o f.name v) := by
      rw [slotOf f.name ho', hslots _ _ hv]
    rw [hv']
    simp only [Option.getD_some]
    -- the value is never a raw list
    have hnl : ∀ l, E3c K ts H na ia ci' o f.name v ≠ .refs l := by
      intro l e
      rcases hj with ⟨_, ⟨vn, e', _⟩ | ⟨e', _⟩⟩ | ⟨_, _, h3⟩ | ⟨_, _, _, _, _, hval⟩
      · rw [e] at e'; cases e'
      · rw [e] at e'; cases e'
      · rcases h3 with e' | ⟨_, i, e'⟩ | ⟨_, s, e'⟩ | ⟨_, b', e'⟩ | ⟨_, t', e'⟩ <;> (rw [e] at e'; cases e')
      · rcases hval with e' | ⟨b, e', _⟩ <;> (rw [e] at e'; cases e')
    have plainC : ∀ w : Val, w = E3c K ts H na ia ci' o f.name v → (∀ b, w = .ref b → isInline K f = false) →
        cvalOf st2.heap w = cvalOf ld.heap w := by
      intro w hw hb
      refine cvalOf_shape w (fun b e => ?_) (fun l e => absurd (hw ▸ e) (hnl l))
      rcases hS b (hw ▸ e) with ⟨_, hm⟩ | ⟨hi, _⟩ | ⟨hi, _⟩
      · exact x.xid_keep j hm
      · rw [hb b e] at hi; cases hi
      · rw [hb b e] at hi; cases hi
    by_cases hi : isInline K f = true
    · rw [if_pos hi, if_pos hi]
      cases hw : E3c K ts H na ia ci' o f.name v with
      | ref b =>
        dsimp only
        rcases hS b hw with ⟨hni, _⟩ | ⟨_, harr', o2, ev, ho2, _, hsl2, hk⟩ | ⟨_, harr', k, vs, hvl, _, hgood⟩
        · rw [hni] at hi; cases hi
        · rw [if_pos harr', if_pos harr', hsl, slotOf "elements" ho2, hsl2, get_elements]
          simp only [Option.getD_some]
          rw [elemVals_shape ev (fun l e b' hb' => ?_)]
          rcases hk with ⟨_, _, l', e', hall⟩ | ⟨_, _, _, hp_⟩
          · rw [e] at e'; cases e'
            obtain ⟨q', hq', e''⟩ := hall _ hb'
            cases e''
            exact x.xid_keep j ⟨q', hq', rfl⟩
          · rw [e] at hp_
            rcases hp_ with e' | ⟨_, l', e'⟩ | ⟨_, l', e'⟩ | ⟨_, _, ⟨l', e'⟩ | ⟨l', e'⟩ | ⟨l', e'⟩⟩
            · cases e'; cases hb'
            all_goals cases e'
        · have hna : ¬ (isArray K f.range = true) := by rw [harr']; simp
          rw [if_neg hna, if_neg hna]
          rw [listVals_vlist j.shape _ hvl (fun w hw' => headGood_keep x j (hgood w hw'))]
      | _ =>
        dsimp only
        exact plainC _ hw.symm (fun b e => by cases e)
    · have hi' : isInline K f = false := by simpa using hi
      rw [if_neg hi, if_neg hi]
      exact plainC _ rfl (fun b _ => hi')
  · have hA0 := hA
    obtain ⟨o1, t1, f1, ev, ho1, ht1, _, _, hall, hfn, hfr, _, _, _, _⟩ := hA
    rw [ho] at ho1; cases ho1
    rw [ht] at ht1; cases ht1
    rw [hall] at hf
    have := List.mem_singleton.mp hf
    subst this
    have hni : isInline K f = false := by unfold isInline; rw [hfr, CF.isArray_top, CF.isList_top]; simp
    have hni' : ¬ (isInline K f = true) := by rw [hni]; simp
    rw [if_neg hni', if_neg hni']
    obtain ⟨_, hcl⟩ := x.main_arr hq hA0 (harr q hq)
    refine cvalOf_shape _ (fun b e => ?_) (fun l e b' hb' => ?_)
    · exfalso
      have hs : alistGet? o'.slots f.name = some (.ref b) := by
        have := slotOf f.name ho'
        cases hg : alistGet? o'.slots f.name with
        | none => rw [this, hg] at e; cases e
        | some w => rw [this, hg] at e; simp only [Option.getD_some] at e; rw [e]
      exact (hcl o' ho').1 f.name b hs
    · have hs : alistGet? o'.slots "elements" = some (.refs l) := by
        have := slotOf f.name ho'
        rw [hfn] at this
        cases hg : alistGet? o'.slots "elements" with
        | none => rw [hfn, this, hg] at e; cases e
        | some w => rw [hfn, this, hg] at e; simp only [Option.getD_some] at e; rw [e]
      exact x.xid_keep j ((hcl o' ho').2 l hs b' hb')

end

end Cassis.ChainC
