/-
C16 with collections, the converse chain, part E: the XMI round trip with collections with the hypotheses the composition
can supply (cf. `ChainXmiCore.lean` for the flat fragment): the well-formedness of the views is stated against an
arbitrary heap `hp0`, and `LOkC` for the collected structures is a hypothesis.  Re-assembly of `pass1_coll` and
`xmi_roundtrip_coll_aux`.
-/
import CassisModel.Proofs.RoundTripColl

namespace Cassis.ChainC
open Cassis.TS Cassis.Traverse Cassis.Xmi Cassis.Lex Cassis.Xmi.CAS

/-- `pass1_coll` without `RTWf c hp` for the heap that is saved -/
theorem pass1_coll_weak (K : Consts) (ts : TypeSystem) (cass : List Cas) (ci : Nat) (c : Cas) (hp : Heap) (tsIdx : Nat)
    (doc : XDoc) (st : St) (hc : cass[ci]? = some c) (hnd : (c.views.map (·.2.sofa.xid)).Nodup)
    (hsave : saveXmi K ts cass ci hp = .ok (doc, st)) (hnull : NullOk ts)
    (hL : LOkC K ts c ci st.heap (sortById st.allFs))
    (helem : Elem1Stmt K ts cass st.heap tsIdx (CollFs K ts c ci st.heap)) :
    ∃ (na : Int → Nat) (p : Pass1), pass1 K ts tsIdx false doc { heap := st.heap } = .ok p ∧
      NaOk st.heap.length (sortById st.allFs) na ∧ P1W c st.heap (sortById st.allFs) na p ∧
      HeapRelP st.heap (sortById st.allFs) na (Obj1 K ts cass st.heap p.heap) p.heap := by
  obtain ⟨fsElems, hr, hdoc⟩ := saveXmi_doc K ts cass ci c hp doc st hc hsave
  generalize hLd : sortById st.allFs = L at hL hr ⊢
  generalize hHd : st.heap = H at hL hr hdoc helem ⊢
  obtain ⟨es, hes, hpair⟩ := renderAll_pair K ts cass H tsIdx _ helem L hL.coll (fun q hq => (hL.ids q hq).1)
  rw [hr] at hes
  cases hes
  obtain ⟨o0, h0ty, h0x, h0s, h0p⟩ := null_elem K ts tsIdx hnull
  have hstep0 := step1_fs K ts tsIdx { ty := NULL_T, attrs := [(ID, "0")] } { heap := H } o0 0
    (by decide) (by decide) (h0p H) (by intro h; cases h)
  obtain ⟨tl, A, m1, hrun1, hkeys, hge, hinj, hobjs⟩ := pass1_fsC K ts cass H tsIdx
    (c.views.map (fun p => renderSofa p.2.sofa) ++ (c.views.map (fun p => renderView H p.2) ++ [])) L fsElems
    { heap := H ++ [o0], fss := [] ++ [((0 : Int), H.length)], maxId := max 0 0 } hpair hL.nodup
    (by
      intro q hq
      simp only [List.nil_append, List.map_cons, List.map_nil, List.mem_singleton]
      exact (hL.ids q hq).2)
  dsimp only at hrun1 hge hobjs
  obtain ⟨m2, m2', hrun2⟩ := pass1_sofa_list K ts tsIdx (c.views.map (fun p => renderView H p.2) ++ []) c.views
    { heap := (H ++ [o0]) ++ tl, fss := ([] ++ [((0 : Int), H.length)]) ++ A, maxId := m1 }
    hnd (by intro nv _ h; cases h)
  have hrun3 := pass1_view_list K ts tsIdx H [] c.views
    { heap := (H ++ [o0]) ++ tl, fss := ([] ++ [((0 : Int), H.length)]) ++ A,
      sofas := [] ++ c.views.map (fun nv => (nv.2.sofa.xid, psofaOf nv)), maxId := m2, maxNum := m2' }
    hnd (by intro nv _ h; cases h)
  have hAn : (A.map (·.1)).Nodup := by rw [hkeys]; exact hL.nodup
  have hA : A = L.map (fun q => (q.1, naOf A q.1)) := naOf_table A L hAn hkeys
  have hmemA : ∀ q ∈ L, (q.1, naOf A q.1) ∈ A := by
    intro q hq
    rw [hA]
    exact List.mem_map.2 ⟨q, hq, by rw [← hA]⟩
  refine ⟨naOf A,
    { heap := (H ++ [o0]) ++ tl, fss := ([] ++ [((0 : Int), H.length)]) ++ A,
      sofas := [] ++ c.views.map (fun nv => (nv.2.sofa.xid, psofaOf nv)),
      views := [] ++ c.views.map (fun nv => (nv.2.sofa.xid, pviewOf H nv)), maxId := m2, maxNum := m2' }, ?_, ?_, ?_, ?_⟩
  · rw [hdoc, List.append_assoc, List.append_assoc, List.singleton_append, pass1_cons, hstep0]
    show pass1 K ts tsIdx false _ _ = _
    rw [← List.append_nil (c.views.map (fun p => renderView H p.2))]
    exact hrun1.trans (hrun2.trans (hrun3.trans (pass1_nil K ts tsIdx false _)))
  · refine ⟨?_, ?_⟩
    · intro q hq q' hq' h
      exact hinj (q.1, naOf A q.1) (hmemA q hq) (q'.1, naOf A q'.1) (hmemA q' hq') h
    · intro q hq
      have := hge _ (hmemA q hq)
      rw [List.length_append, List.length_singleton] at this
      exact this
  · refine ⟨?_, ?_, ?_, rfl, ?_⟩
    · show ([] ++ [((0 : Int), H.length)]) ++ A = _
      rw [← hA]
      rfl
    · show [] ++ c.views.map (fun nv => (nv.2.sofa.xid, psofaOf nv)) = _
      rfl
    · show [] ++ c.views.map (fun nv => (nv.2.sofa.xid, pviewOf H nv)) = _
      rfl
    · refine ⟨o0, ?_, h0ty, h0x, h0s⟩
      show ((H ++ [o0]) ++ tl)[H.length]? = some o0
      rw [List.append_assoc, List.getElem?_append_right (Nat.le_refl _), Nat.sub_self]
      rfl
  · intro q hq
    obtain ⟨a, o, o1, hmem, ho, ho1, hobj⟩ := hobjs q hq
    have ha : naOf A q.1 = a := naOf_mem A hAn q.1 a hmem
    refine ⟨o, o1, ho, ?_, hobj⟩
    show ((H ++ [o0]) ++ tl)[naOf A q.1]? = some o1
    rw [ha]
    exact ho1

/-- the conclusions of `xmi_roundtrip_coll` the composition uses, with `LOkC` as a hypothesis and the views
    well-formed against any heap -/
theorem xmi_roundtrip_coll_weak (K : Consts) (ts : TypeSystem) (cass : List Cas) (ci : Nat) (c : Cas) (hp0 hp : Heap)
    (tsIdx ci' : Nat) (doc : XDoc) (st : St)
    (hc : cass[ci]? = some c) (hwf : RTWf c hp0) (hnull : NullOk ts)
    (hsave : saveXmi K ts cass ci hp = .ok (doc, st))
    (hL : LOkC K ts c ci st.heap (sortById st.allFs))
    (hmem : ∀ nv ∈ c.views, ∀ e ∈ Index.all nv.2.idx, Xmi.slot st.heap e.oid "sofa" ≠ some .none)
    (hmok : MembersOk c st.heap) :
    ∃ (p : Pass1) (ld : Xmi.Loaded),
      pass1 K ts tsIdx false doc { heap := st.heap } = .ok p ∧
      loadXmi K ts tsIdx ci' false st.heap doc = .ok ld ∧
      (∀ q ∈ sortById st.allFs, ∃ (a' : Nat) (o o' : Obj), lookupFs p.fss q.1 = .ok a' ∧
          st.heap[q.2]? = some o ∧ ld.heap[a']? = some o' ∧ o'.ty = o.ty ∧ o'.xid = some q.1 ∧
          ∀ t : TypeRec, find? ts o.ty = some t → ∀ f ∈ allFeatures t,
            featContentC K ld.heap a' f = featContentC K st.heap q.2 f) ∧
      ld.cas.views.map (viewContent ld.heap) = c.views.map (viewContent st.heap) := by
  have helem : Elem1Stmt K ts cass st.heap tsIdx (CollFs K ts c ci st.heap) := by
    intro a x hP hx
    rcases hP with hg | ha
    · exact gen_elem1 K ts cass ci c st.heap tsIdx hc a x hg hx
    · exact arr_elem1 K ts cass st.heap tsIdx a x ha hx
  obtain ⟨na, p, hp1, hna, hp1w, hrel1⟩ :=
    pass1_coll_weak K ts cass ci c hp tsIdx doc st hc hwf.sofa_ids_nodup hsave hnull hL helem
  have hI : PostInlineStmt K ts cass st.heap na tsIdx ci' p.sofas p.fss (fun _ => True) := by
    intro a o t f h1 h2 h3 h4 h5 h6 _
    rcases inlineFeat_range h6 with h | h
    · exact postInline_arr K ts cass st.heap na tsIdx ci' p.sofas p.fss a o t f h1 h2 h3 h4 h5 h6 h
    · exact postInline_list K ts cass st.heap na tsIdx ci' p.sofas p.fss a o t f h1 h2 h3 h4 h5 h6 h
  have hpost : Post2Stmt K ts cass st.heap (sortById st.allFs) na tsIdx ci' p.sofas p.fss
      (CollFs K ts c ci st.heap) := by
    intro q hq hP
    rcases hP with hg | ha
    · exact gen_post K ts cass ci c hp0 st.heap _ na tsIdx ci' p.sofas p.fss hc hwf hL hp1w.sofas hp1w.fss hI q hq hg
    · exact arr_post K ts cass ci c st.heap _ na tsIdx ci' p.sofas p.fss hL hp1w.fss q hq ha
  obtain ⟨hp2, hpa, hnull2, _, hrel2⟩ :=
    postAll_coll K ts cass ci c st.heap _ na tsIdx ci' p hnull hL hna hp1w hrel1 hpost
  obtain ⟨hE2, hcolls2⟩ := obj2_to_E2c hL hrel2
  obtain ⟨ld, hbuild, hrel3, hviews, _, hfrz3⟩ :=
    buildCas_coll K ts cass ci c hp0 st.heap _ na (iaOf hp2 na) ci' p hp2 hc hwf hnull (lokW_of_lokC hL) hna hp1w
      hmem hmok hnull2 hE2
  have hcolls3 := collsAt_frz hcolls2 hfrz3
  have hload : loadXmi K ts tsIdx ci' false st.heap doc = .ok ld := by
    unfold loadXmi
    simp only [hp1, hpa, bind, Except.bind]
    exact hbuild
  have hxid : ∀ q ∈ sortById st.allFs, xidOf ld.heap (na q.1) = some q.1 := by
    intro q hq
    obtain ⟨o, o', _, ho', _, hx, _⟩ := hrel3 q hq
    unfold xidOf; rw [ho']; exact hx
  refine ⟨p, ld, hp1, hload, ?_, hviews⟩
  intro q hq
  obtain ⟨o, o', ho, ho', hty, hx, _, hslots⟩ := hrel3 q hq
  have hqm : q.1 ∈ (sortById st.allFs).map (·.1) := List.mem_map.mpr ⟨q, hq, rfl⟩
  refine ⟨na q.1, o, o', ?_, ho, ho', hty, hx, ?_⟩
  · rw [hp1w.fss]
    exact lookupFs_fss_na na _ _ q.1 hqm (hL.ids q hq).2
  · intro t ht f hf
    exact CF.content_eq hL hxid hcolls3 q hq o o' ho ho' hslots t ht f hf

end Cassis.ChainC
