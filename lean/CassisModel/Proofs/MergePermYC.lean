/-
Helper lemmas for `Properties/C13PermSub.lean`, part YC: what a successful run of the merge loop leaves behind when the
names of `E` (those declared with competing supertypes) may have subtypes.  Every other name sits below its one declared
supertype; the supertype of *every* registered name is the one the base type system gives it or one of its declared
supertypes (`edge`); and after a declaration `d` has been processed `d.super` is an ancestor of `d.name` — and remains
one, also when a whole subtree is moved.  (`Proofs/MergePermXC.lean` without the leaf invariant.)
-/
import CassisModel.Proofs.MergePermYB

namespace Cassis.TS

variable {E : String → Prop}

structure RInvY (K : Consts) (base : TypeSystem) (decls : List Decl) (E : String → Prop) (s : MState) : Prop where
  cons : Consistent s.ts
  feat : FeatInv s.ts
  pre : ∀ p, K.predefined.contains p = true → hasExact s.ts p = true
  mer : ∀ x ∈ s.merged, hasExact s.ts x = true
  sup : ∀ d ∈ decls, ¬ E d.name → ∀ t, find? s.ts d.name = some t →
    t.super = some d.super ∧ K.finalTypes.contains d.super = false
  edge : ∀ x t, find? s.ts x = some t → (∃ tb, find? base x = some tb ∧ t.super = tb.super) ∨
    (∃ d ∈ decls, d.name = x ∧ t.super = some d.super)

/-- the conclusion of one step -/
def StepY (K : Consts) (base : TypeSystem) (decls : List Decl) (E : String → Prop) (s s' : MState) (d : Decl) : Prop :=
  RInvY K base decls E s' ∧ GrowX E s.ts s'.ts ∧ (∀ a b, Anc s.ts a b → Anc s'.ts a b) ∧ DoneX s'.ts d

/-- a step that adds features to a registered name and leaves the tree alone -/
theorem runY_feats (K : Consts) (base : TypeSystem) (decls : List Decl) (s s' : MState) (d : Decl)
    (hi : RInvY K base decls E s) (hu : K.predefined.contains d.name = false)
    (hmer : s'.merged = (if s.merged.contains d.name then s.merged else s.merged ++ [d.name]))
    (hx : hasExact s.ts d.name = true) (hanc : Anc s.ts d.super d.name)
    (hadd : addOwnFeatures s.ts d.name d.own = .ok s'.ts) : StepY K base decls E s s' d := by
  obtain ⟨hc2, hf2, hg2, hcov⟩ := addOwnFeatures_run K d.name hu d.own s.ts s'.ts hi.cons hi.feat hx hadd
  obtain ⟨b2, k2⟩ := addOwn_frame s.ts s'.ts d.name d.own hi.cons hadd
  have hback : ∀ y t', find? s'.ts y = some t' → ∃ t, find? s.ts y = some t ∧ t'.super = t.super := by
    intro y t' hy
    have : hasExact s.ts y = true := by rw [← b2 y]; exact (hasExact_iff_find _ _).mpr ⟨t', hy⟩
    obtain ⟨t, ht⟩ := (hasExact_iff_find _ _).mp this
    obtain ⟨t'', ht'', _, hs⟩ := k2 y t ht
    rw [hy] at ht''; cases ht''
    exact ⟨t, ht, hs⟩
  refine ⟨⟨hc2, hf2, fun p hp => hg2.reg p (hi.pre p hp), ?_, ?_, ?_⟩, GrowX.of_grow hg2,
    fun a b h => anc_grow hg2 h, hcov, anc_grow hg2 hanc⟩
  · intro x hx'
    rcases (mem_merged_step hmer x).mp hx' with h | rfl
    · exact hg2.reg x (hi.mer x h)
    · exact hg2.reg _ hx
  · intro d' hd' hE' t' ht'
    obtain ⟨t, ht, hs⟩ := hback d'.name t' ht'
    rw [hs]; exact hi.sup d' hd' hE' t ht
  · intro x t' ht'
    obtain ⟨t, ht, hs⟩ := hback x t' ht'
    rw [hs]; exact hi.edge x t ht

/-- a name seen for the first time -/
theorem runY_new (K : Consts) (base : TypeSystem) (decls : List Decl)
    (E2 : ∀ d ∈ decls, ∀ d' ∈ decls, d.name = d'.name → ¬ E d.name → d.super = d'.super)
    (s s' : MState) (d : Decl)
    (hi : RInvY K base decls E s) (hd : d ∈ decls) (hu : K.predefined.contains d.name = false)
    (hmer : s'.merged = (if s.merged.contains d.name then s.merged else s.merged ++ [d.name]))
    (hx : hasExact s.ts d.name = false) (hsup : hasExact s.ts d.super = true)
    (h : processDecl K s d = .ok s') : StepY K base decls E s s' d := by
  obtain ⟨ts1, hct, hadd⟩ := processDecl_new_aux K s s' d hx h
  obtain ⟨sup, hsupf⟩ := (hasExact_iff_find _ _).mp hsup
  obtain ⟨hc1, hf1, hg1, hnf, ⟨tn, htn, htns⟩, hrest⟩ :=
    createType_run K s.ts ts1 d.name d.super d.descr sup hi.cons hi.feat hx hsupf hct
  have hreg1 : hasExact ts1 d.name = true := (hasExact_iff_find _ _).mpr ⟨tn, htn⟩
  obtain ⟨hc2, hf2, hg2, hcov⟩ := addOwnFeatures_run K d.name hu d.own ts1 s'.ts hc1 hf1 hreg1 hadd
  obtain ⟨b2, k2⟩ := addOwn_frame ts1 s'.ts d.name d.own hc1 hadd
  have hg : Grow K s.ts s'.ts := hg1.trans hg2
  have hback : ∀ y t', find? s'.ts y = some t' → ∃ t1, find? ts1 y = some t1 ∧ t'.super = t1.super := by
    intro y t' hy
    have : hasExact ts1 y = true := by rw [← b2 y]; exact (hasExact_iff_find _ _).mpr ⟨t', hy⟩
    obtain ⟨t, ht⟩ := (hasExact_iff_find _ _).mp this
    obtain ⟨t'', ht'', _, hs⟩ := k2 y t ht
    rw [hy] at ht''; cases ht''
    exact ⟨t, ht, hs⟩
  have hanc : Anc s'.ts d.super d.name := by
    obtain ⟨t2, ht2, _, hs2⟩ := k2 d.name tn htn
    exact Anc.step _ _ _ t2 ht2 (by rw [hs2]; exact htns) (Anc.refl _ (hg.reg _ hsup))
  refine ⟨⟨hc2, hf2, fun p hp => hg.reg p (hi.pre p hp), ?_, ?_, ?_⟩, GrowX.of_grow hg,
    fun a b h => anc_grow hg h, hcov, hanc⟩
  · intro x hx'
    rcases (mem_merged_step hmer x).mp hx' with h | rfl
    · exact hg.reg x (hi.mer x h)
    · exact hg2.reg _ hreg1
  · intro d' hd' hE' t' ht'
    obtain ⟨t1, ht1, hs⟩ := hback d'.name t' ht'
    rw [hs]
    by_cases hn : d'.name = d.name
    · have hss : d'.super = d.super := E2 d' hd' d hd hn hE'
      rw [hn, htn] at ht1
      cases ht1
      rw [hss]; exact ⟨htns, hnf⟩
    · obtain ⟨t0, ht0, hs0⟩ := hrest d'.name hn t1 ht1
      rw [hs0]; exact hi.sup d' hd' hE' t0 ht0
  · intro x t' ht'
    obtain ⟨t1, ht1, hs⟩ := hback x t' ht'
    rw [hs]
    by_cases hn : x = d.name
    · rw [hn, htn] at ht1
      cases ht1
      exact Or.inr ⟨d, hd, hn.symm, htns⟩
    · obtain ⟨t0, ht0, hs0⟩ := hrest x hn t1 ht1
      rw [hs0]; exact hi.edge x t0 ht0

/-- a movable type is moved, with its subtree, from its present supertype `c` to the declared one below `c` -/
theorem runY_reparent (K : Consts) (base : TypeSystem) (decls : List Decl)
    (s s' : MState) (d : Decl) (hi : RInvY K base decls E s) (hd : d ∈ decls) (hE : E d.name)
    (hu : K.predefined.contains d.name = false)
    (hmer : s'.merged = (if s.merged.contains d.name then s.merged else s.merged ++ [d.name]))
    (t : TypeRec) (he : find? s.ts d.name = some t) (c : String) (hts : t.super = some c)
    (hsup : hasExact s.ts d.super = true) (hne : d.super ≠ c) (hsub : subsumes s.ts c d.super = true)
    (ts1 : TypeSystem) (hrep : reparent s.ts d.name c d.super = .ok ts1)
    (hadd : addOwnFeatures ts1 d.name d.own = .ok s'.ts) : StepY K base decls E s s' d := by
  have hregn : hasExact s.ts d.name = true := (hasExact_iff_find _ _).mpr ⟨t, he⟩
  have hregc : hasExact s.ts c = true := hi.cons.superReg t (find?_mem he) c hts
  have hmax : Anc s.ts c d.super := (subsumes_iff_ancestor_aux s.ts hi.cons _ _ hregc hsup).mp hsub
  obtain ⟨fr1, fr2, fr3⟩ := reparent_frame s.ts ts1 d.name c d.super t hi.cons he hts hmax hrep
  have hc1 : Consistent ts1 :=
    consistent_reparent s.ts ts1 d.name c d.super t hi.cons he (by rw [hts]; rfl) hne hrep
  have hf1 : FeatInv ts1 := featInv_reparent s.ts ts1 d.name c d.super t hi.cons hi.feat he hts hne hmax hrep
  have hgx1 : GrowX E s.ts ts1 := by
    intro y r hr
    obtain ⟨r', hr', hs', ho', hi'⟩ := fr2 y r hr
    refine ⟨r', hr', ?_, ?_⟩
    · intro hEy
      rw [hs', if_neg (fun e : y = d.name => hEy (e ▸ hE))]
    · intro g hg
      rcases List.mem_append.mp hg with hg | hg
      · exact List.mem_append_left _ (by rw [ho']; exact hg)
      · exact List.mem_append_right _ (hi' g hg)
  have hreg1 : hasExact ts1 d.name = true := by rw [fr1]; exact hregn
  obtain ⟨hc2, hf2, hg2, hcov⟩ := addOwnFeatures_run K d.name hu d.own ts1 s'.ts hc1 hf1 hreg1 hadd
  obtain ⟨b2, k2⟩ := addOwn_frame ts1 s'.ts d.name d.own hc1 hadd
  have hgx : GrowX E s.ts s'.ts := hgx1.trans (GrowX.of_grow hg2)
  -- every record of the result against the record before the step
  have hback : ∀ y r', find? s'.ts y = some r' → ∃ r0, find? s.ts y = some r0 ∧
      r'.super = (if y = d.name then some d.super else r0.super) := by
    intro y r' hy
    have : hasExact s.ts y = true := by rw [← fr1 y, ← b2 y]; exact (hasExact_iff_find _ _).mpr ⟨r', hy⟩
    obtain ⟨r0, hr0⟩ := (hasExact_iff_find _ _).mp this
    obtain ⟨r1, hr1, hs1, _, _⟩ := fr2 y r0 hr0
    obtain ⟨r'', hr'', _, hs⟩ := k2 y r1 hr1
    rw [hy] at hr''; cases hr''
    exact ⟨r0, hr0, by rw [hs, hs1]⟩
  have hanc : Anc s'.ts d.super d.name := by
    obtain ⟨t1, ht1, hs1, _, _⟩ := fr2 d.name t he
    obtain ⟨t2, ht2, _, hs2⟩ := k2 d.name t1 ht1
    exact Anc.step _ _ _ t2 ht2 (by rw [hs2, hs1, if_pos rfl]) (Anc.refl _ (hgx.reg _ hsup))
  refine ⟨⟨hc2, hf2, fun p hp => hgx.reg p (hi.pre p hp), ?_, ?_, ?_⟩, hgx,
    fun a b h => anc_grow hg2 (fr3 a b h), hcov, hanc⟩
  · intro x hx'
    rcases (mem_merged_step hmer x).mp hx' with h | rfl
    · exact hgx.reg x (hi.mer x h)
    · exact hg2.reg _ hreg1
  · intro d' hd' hE' r' hr'
    obtain ⟨r0, hr0, hs⟩ := hback d'.name r' hr'
    rw [hs, if_neg (fun e : d'.name = d.name => hE' (e ▸ hE))]
    exact hi.sup d' hd' hE' r0 hr0
  · intro x r' hr'
    obtain ⟨r0, hr0, hs⟩ := hback x r' hr'
    rw [hs]
    split
    · rename_i e
      exact Or.inr ⟨d, hd, e.symm, rfl⟩
    · exact hi.edge x r0 hr0

/-- one successful step of the loop -/
theorem processDecl_runY (K : Consts) (base : TypeSystem) (decls : List Decl)
    (htop : K.predefined.contains TOP = true)
    (E2 : ∀ d ∈ decls, ∀ d' ∈ decls, d.name = d'.name → ¬ E d.name → d.super = d'.super)
    (s s' : MState) (d : Decl)
    (hi : RInvY K base decls E s) (hd : d ∈ decls) (hu : K.predefined.contains d.name = false)
    (hready : (K.predefined.contains d.super || s.merged.contains d.super) = true)
    (h : processDecl K s d = .ok s') : StepY K base decls E s s' d := by
  have hsup : hasExact s.ts d.super = true := by
    rcases Bool.or_eq_true _ _ |>.mp hready with h | h
    · exact hi.pre _ h
    · exact hi.mer _ (by simpa using h)
  have hmer := (processDecl_ok K s s' d h).1
  cases hx : hasExact s.ts d.name with
  | false => exact runY_new K base decls E2 s s' d hi hd hu hmer hx hsup h
  | true =>
    obtain ⟨t, he⟩ := (hasExact_iff_find _ _).mp hx
    by_cases hE : E d.name
    · cases hts : t.super with
      | none =>
        exfalso
        have hn := hi.cons.onlyRoot t (find?_mem he) hts
        rw [find?_name he] at hn
        rw [hn, htop] at hu; cases hu
      | some c =>
        have hregc : hasExact s.ts c = true := hi.cons.superReg t (find?_mem he) c hts
        have hedge : Anc s.ts c d.name := Anc.step _ _ _ t he hts (Anc.refl _ hregc)
        rcases processDecl_ex_cases K s s' d t he h with ⟨hsame, hadd⟩ | ⟨hne, hsub, ts1, hrep, hadd⟩ |
          ⟨hne, _, hs2, hadd⟩
        · rw [hts] at hsame
          simp only [Option.getD_some] at hsame
          exact runY_feats K base decls s s' d hi hu hmer hx (by rw [hsame]; exact hedge) hadd
        · rw [hts] at hne hsub hrep
          simp only [Option.getD_some] at hne hsub hrep
          exact runY_reparent K base decls s s' d hi hd hE hu hmer t he c hts hsup hne hsub ts1 hrep hadd
        · rw [hts] at hs2
          simp only [Option.getD_some] at hs2
          have h2 : Anc s.ts d.super c := (subsumes_iff_ancestor_aux s.ts hi.cons _ _ hsup hregc).mp hs2
          exact runY_feats K base decls s s' d hi hu hmer hx (h2.trans hedge) hadd
    · have hss := (hi.sup d hd hE t he).1
      have hadd := processDecl_same_super_aux K s s' d t he hss h
      exact runY_feats K base decls s s' d hi hu hmer hx
        (Anc.step _ _ _ t he hss (Anc.refl _ hsup)) hadd

/-- one successful pass; a pass that processes everything completes everything -/
theorem mergeRound_runY (K : Consts) (base : TypeSystem) (decls : List Decl)
    (htop : K.predefined.contains TOP = true)
    (E2 : ∀ d ∈ decls, ∀ d' ∈ decls, d.name = d'.name → ¬ E d.name → d.super = d'.super)
    (hu : ∀ d ∈ decls, K.predefined.contains d.name = false) :
    ∀ (ds : List Decl) (s s' : MState) (n n' : Nat), (∀ d ∈ ds, d ∈ decls) → RInvY K base decls E s →
      mergeRound K ds s n = .ok (s', n') →
      RInvY K base decls E s' ∧ GrowX E s.ts s'.ts ∧ (∀ a b, Anc s.ts a b → Anc s'.ts a b) ∧ n' ≤ n + ds.length ∧
        (n' = n + ds.length → ∀ d ∈ ds, DoneX s'.ts d) := by
  intro ds
  induction ds with
  | nil =>
    intro s s' n n' _ hi h
    simp only [mergeRound] at h
    cases h
    exact ⟨hi, GrowX.refl _, fun _ _ h => h, Nat.le_refl _, fun _ d hd => by cases hd⟩
  | cons d ds ih =>
    intro s s' n n' hsub hi h
    simp only [mergeRound] at h
    have hsub' : ∀ d' ∈ ds, d' ∈ decls := fun d' hd' => hsub d' (List.mem_cons_of_mem _ hd')
    split at h
    · rename_i hready
      split at h
      · cases h
      · rename_i s1 hp
        have hd := hsub d List.mem_cons_self
        obtain ⟨hi1, hg1, ha1, hcov1, hanc1⟩ :=
          processDecl_runY K base decls htop E2 s s1 d hi hd (hu d hd) hready hp
        obtain ⟨hi2, hg2, ha2, hle, hall⟩ := ih s1 s' (n + 1) n' hsub' hi1 h
        refine ⟨hi2, hg1.trans hg2, fun a b h => ha2 a b (ha1 a b h), by simp only [List.length_cons]; omega, ?_⟩
        intro hn x hx
        simp only [List.length_cons] at hn
        rcases List.mem_cons.mp hx with rfl | hx
        · exact ⟨hcov1.growX hg2, ha2 _ _ hanc1⟩
        · exact hall (by omega) x hx
    · obtain ⟨hi2, hg2, ha2, hle, hall⟩ := ih s s' n n' hsub' hi h
      refine ⟨hi2, hg2, ha2, by simp only [List.length_cons]; omega, ?_⟩
      intro hn
      simp only [List.length_cons] at hn
      omega

theorem mergeLoop_runY (K : Consts) (base : TypeSystem) (decls : List Decl)
    (htop : K.predefined.contains TOP = true)
    (E2 : ∀ d ∈ decls, ∀ d' ∈ decls, d.name = d'.name → ¬ E d.name → d.super = d'.super)
    (hu : ∀ d ∈ decls, K.predefined.contains d.name = false) :
    ∀ (fuel : Nat) (s s' : MState), RInvY K base decls E s → mergeLoop K decls fuel s = .ok s' →
      RInvY K base decls E s' ∧ GrowX E s.ts s'.ts ∧ ∀ d ∈ decls, DoneX s'.ts d := by
  intro fuel
  induction fuel with
  | zero => intro s s' _ h; simp only [mergeLoop] at h; cases h
  | succ fuel ih =>
    intro s s' hi h
    simp only [mergeLoop] at h
    split at h
    · cases h
    · rename_i s1 n hr
      obtain ⟨hi1, hg1, _, _, hall⟩ :=
        mergeRound_runY K base decls htop E2 hu decls s s1 0 n (fun _ hd => hd) hi hr
      split at h
      · rename_i hn
        cases h
        exact ⟨hi1, hg1, hall (by simpa using hn)⟩
      · obtain ⟨hi2, hg2, hall2⟩ := ih s1 s' hi1 h
        exact ⟨hi2, hg1.trans hg2, hall2⟩

end Cassis.TS
