/-
Round trip with collections, layer 3 (`buildCas`), part E: the loops over members and views (copy of
`RoundTripBuildE.lean`; the generic part is reused from there).
-/
import CassisModel.Proofs.RoundTripCollBuildD
import CassisModel.Proofs.RoundTripBuildE

namespace Cassis.Xmi.RTCB
open Cassis.TS Cassis.Traverse Cassis.Lex Cassis.Xmi Cassis.Xmi.RTB

section
variable {K : Consts} {ts : TypeSystem} {cass : List Cas} {ci : Nat} {c : Cas} {hp H : Heap}
  {L : List (Int × Nat)} {na : Int → Nat} {p : Pass1} {ia : Int → String → Nat} {ci' : Nat} {o0 : Obj} {hp0 : Heap}

theorem Ctx.members_loop (ctx : Ctx K ts cass ci c hp H L na p) {nv : String × View} (hnv : nv ∈ c.views)
    {pre : List (String × View)} (hpre : nv.1 ∉ pre.map (·.1)) (conv : Offsets.Conv) :
    ∀ (ms : List Int), (∀ m ∈ ms, m ∈ (pviewOf H nv).members) → ∀ (b : Build) (cur : View),
      BInv K ts cass H L na ia ci' o0 hp0 b → b.cas.views = pre ++ [(nv.1, cur)] → IdxFrom H nv cur.idx →
      ∃ (b' : Build) (cur' : View),
        addMembers ts ci' { view := nv.1, lenient := false } conv p.sofas p.lenientIds p.fss ms b = .ok b' ∧
        BInv K ts cass H L na ia ci' o0 hp0 b' ∧ b'.cas.views = pre ++ [(nv.1, cur')] ∧ cur'.sofa = cur.sofa ∧
        ((Index.all cur'.idx).map (·.oid)).Perm (ms.map na ++ (Index.all cur.idx).map (·.oid)) := by
  intro ms
  induction ms with
  | nil =>
    intro _ b cur hb hv _
    exact ⟨b, cur, addMembers_nil .., hb, hv, rfl, List.Perm.refl _⟩
  | cons m ms ih =>
    intro hms b cur hb hv hidx
    obtain ⟨b1, cur1, h1, hb1, hv1, hs1, hp1, hidx1⟩ :=
      ctx.member_step hnv (hms m List.mem_cons_self) hb hv hpre hidx conv
    obtain ⟨b2, cur2, h2, hb2, hv2, hs2, hp2⟩ :=
      ih (fun m' hm' => hms m' (List.mem_cons_of_mem _ hm')) b1 cur1 hb1 hv1 hidx1
    refine ⟨b2, cur2, ?_, hb2, hv2, hs2.trans hs1, ?_⟩
    · rw [ctx.p1.lenient] at h2 ⊢
      rw [addMembers_cons]
      have : ([] : List Int).contains m = false := rfl
      rw [this, h1, if_neg (by decide)]
      exact h2
    · refine hp2.trans ?_
      rw [List.map_cons, List.cons_append]
      exact (List.Perm.append_left _ hp1).trans List.perm_middle

theorem Ctx.text_back (ctx : Ctx K ts cass ci c hp H L na p) {nv : String × View} (hnv : nv ∈ c.views) :
    (newSofa (psofaOf nv)).text = nv.2.sofa.text := by
  unfold newSofa psofaOf
  dsimp only
  cases ht : nv.2.sofa.text with
  | none => rfl
  | some t =>
    show some ((docText t).toList.map Char.toNat) = some t
    rw [docText_toList t (ctx.wf.scalar nv hnv t ht)]

/-- one view -/
theorem Ctx.view_step (ctx : Ctx K ts cass ci c hp H L na p) {nv : String × View} (hnv : nv ∈ c.views)
    {b : Build} (hb : BInv K ts cass H L na ia ci' o0 hp0 b) {pre : List (String × View)}
    (hc2 : ∃ c2, viewCas (psofaOf nv) b.cas = .ok c2 ∧
      c2.views = pre ++ [((psofaOf nv).sofaID, { sofa := newSofa (psofaOf nv), idx := [] })])
    (hpre : nv.1 ∉ pre.map (·.1)) :
    ∃ (b' : Build) (cur' : View), buildView ts ci' false p (psofaOf nv) b = .ok b' ∧
      BInv K ts cass H L na ia ci' o0 hp0 b' ∧ b'.cas.views = pre ++ [(nv.1, cur')] ∧ VRel H na nv (nv.1, cur') := by
  obtain ⟨c2, hc2, hv2⟩ := hc2
  have hid : (psofaOf nv).sofaID = nv.1 := ctx.wf.names nv hnv
  rw [hid] at hv2
  have hb2 : BInv K ts cass H L na ia ci' o0 hp0 { b with cas := c2 } := ⟨hb.heap, hb.ms, hb.cv, hb.null, hb.frz⟩
  have hidx0 : IdxFrom H nv ([] : Index.Idx) := by
    intro ty x hx
    cases hx
  obtain ⟨b', cur', h1, hb', hv', hs', hp'⟩ :=
    ctx.members_loop hnv hpre (convOfText (psofaOf nv).text) (pviewOf H nv).members (fun _ h => h)
      { b with cas := c2 } _ hb2 hv2 hidx0
  refine ⟨b', cur', ?_, hb', hv', rfl, ?_, ?_, ?_, ?_, ?_, ?_, ?_⟩
  · rw [buildView_eq, hc2]
    dsimp only
    rw [hid, ctx.members_of hnv]
    exact h1
  · show cur'.sofa.sofaID = _
    rw [hs']; rfl
  · show cur'.sofa.xid = _
    rw [hs']; rfl
  · show cur'.sofa.sofaNum = _
    rw [hs']; rfl
  · show cur'.sofa.text = _
    rw [hs']; exact ctx.text_back hnv
  · show cur'.sofa.mime = _
    rw [hs']; rfl
  · show cur'.sofa.conv = _
    rw [hs']; rfl
  · show ((Index.all cur'.idx).map (·.oid)).Perm _
    have : (Index.all ([] : Index.Idx)).map (·.oid) = [] := rfl
    rw [this, List.append_nil] at hp'
    exact hp'

theorem Ctx.views_loop (ctx : Ctx K ts cass ci c hp H L na p) :
    ∀ (todo done : List (String × View)), c.views = done ++ todo → done ≠ [] → ∀ (b : Build),
      BInv K ts cass H L na ia ci' o0 hp0 b → All2 (VRel H na) done b.cas.views →
      ∃ b', buildViews ts ci' false p (todo.map (fun nv => (nv.2.sofa.xid, psofaOf nv))) b = .ok b' ∧
        BInv K ts cass H L na ia ci' o0 hp0 b' ∧ All2 (VRel H na) c.views b'.cas.views := by
  intro todo
  induction todo with
  | nil =>
    intro done hsplit _ b hb hall
    rw [List.append_nil] at hsplit
    refine ⟨b, ?_, hb, hsplit ▸ hall⟩
    rw [List.map_nil, buildViews]
  | cons nv todo ih =>
    intro done hsplit hne b hb hall
    have hnv : nv ∈ c.views := by rw [hsplit]; simp
    have hkeys : b.cas.views.map (·.1) = done.map (·.1) :=
      All2.map_eq hall (fun _ _ _ h => h.1)
    have hnd := ctx.wf.names_nodup
    rw [hsplit, List.map_append, List.map_cons] at hnd
    have hnew : nv.1 ∉ done.map (·.1) := by
      intro hin
      exact (List.nodup_append.mp hnd).2.2 _ hin _ List.mem_cons_self rfl
    have hinit : Cas.INITIAL_VIEW ∈ done.map (·.1) := by
      have := ctx.wf.init_first
      rw [hsplit] at this
      cases done with
      | nil => exact absurd rfl hne
      | cons d ds =>
        simp only [List.cons_append, List.head?_cons, Option.map_some, Option.some.injEq] at this
        rw [List.map_cons, ← this]
        exact List.mem_cons_self
    have hni : nv.1 ≠ Cas.INITIAL_VIEW := fun e => hnew (e ▸ hinit)
    have hid : (psofaOf nv).sofaID = nv.1 := ctx.wf.names nv hnv
    have hpre : nv.1 ∉ b.cas.views.map (·.1) := by rw [hkeys]; exact hnew
    obtain ⟨b1, cur1, h1, hb1, hv1, hr1⟩ :=
      ctx.view_step hnv hb (viewCas_later (psofaOf nv) b.cas (hid ▸ hni) (hid ▸ hpre)) hpre
    obtain ⟨b2, h2, hb2, hall2⟩ :=
      ih (done ++ [nv]) (by rw [hsplit, List.append_assoc]; rfl) (by simp) b1 hb1
        (hv1 ▸ All2.snoc hall hr1)
    refine ⟨b2, ?_, hb2, hall2⟩
    rw [List.map_cons, buildViews, h1]
    exact h2

end

end Cassis.Xmi.RTCB
