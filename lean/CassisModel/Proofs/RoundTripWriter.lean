/-
Round trip, layer 0: the writer on flat structures.
-/
import CassisModel.Proofs.RoundTripDefs
import CassisModel.Proofs.Xmi

namespace Cassis.Xmi
open Cassis.TS Cassis.Traverse Cassis.Lex

/-- the range of `f` is not a collection in any of the senses the writer tests -/
structure NoColl (K : Consts) (ts : TypeSystem) (f : Feature) : Prop where
  res : ResOk f
  n1 : f.name ≠ "xmiID"
  n2 : f.name ≠ "type"
  pa : isPrimitiveArray K f.range = false
  pl : isPrimitiveList K f.range = false
  fa : f.range ≠ FS_ARRAY
  fl : f.range ≠ FS_LIST
  sa : isInstanceOf ts f.range STRING_ARRAY = false
  sl : isInstanceOf ts f.range STRING_LIST = false

theorem renderFeature_none (K : Consts) (ts : TypeSystem) (cass : List Cas) (H : Heap) (a : Nat) (isAnn : Bool) (f : Feature)
    (h1 : f.name ≠ "xmiID") (h2 : f.name ≠ "type") (hv : (slot H a f.name).getD .none = .none) :
    renderFeature K ts cass H a isAnn f = .ok ([], []) := by
  unfold renderFeature
  simp only [beq_iff_eq, Bool.or_eq_true, h1, h2, or_self, if_false, hv, if_true]
  rfl

theorem renderFeature_int (K : Consts) (ts : TypeSystem) (cass : List Cas) (H : Heap) (a : Nat) (isAnn : Bool) (f : Feature)
    (o : Obj) (i : Int) (ho : H[a]? = some o)
    (nc : NoColl K ts f) (hv : alistGet? o.slots f.name = some (.int i))
    (hns : f.name ≠ "sofa") (hr : isIntRange f.range = true) (hp : isPrimitive K ts f.range = true)
    (hann : isAnn = true → ∃ ci vn view, alistGet? o.slots "sofa" = some (.sofa ci vn) ∧
       (cass[ci]?).bind (fun c => Cas.getViewRec c vn) = some view) :
    renderFeature K ts cass H a isAnn f = .ok ([(xmlName f, showInt (extInt cass isAnn o f.name i))], []) := by
  have hs : ∀ n, slot H a n = alistGet? o.slots n := by
    intro n; unfold slot Traverse.slot; rw [ho]; rfl
  have hb : f.range ≠ "uima.cas.Boolean" ∧ f.range ≠ "uima.cas.Double" ∧ f.range ≠ "uima.cas.Float" := by
    unfold isIntRange at hr
    simp only [Bool.or_eq_true, beq_iff_eq] at hr
    rcases hr with ((h | h) | h) | h <;> rw [h] <;> decide
  have hfa : (f.range == FS_ARRAY) = false := by simp [nc.fa]
  have hfl : (f.range == FS_LIST) = false := by simp [nc.fl]
  unfold renderFeature
  simp only [beq_iff_eq, Bool.or_eq_true, nc.n1, nc.n2, or_self, reduceCtorEq, Bool.false_eq_true, if_false, hs, hv, Option.getD_some, xmlName_def, xmlName_begin f nc.res, xmlName_end f nc.res, xmlName_sofa f nc.res,
    nc.sa, nc.sl, nc.pa, nc.pl, hfa, hfl, Bool.false_and, hns, hb.1, hb.2.1, hb.2.2, hp, if_true]
  unfold extInt
  by_cases hA : (isAnn && (f.name == "begin" || f.name == "end")) = true
  · have hia : isAnn = true := by
      rw [Bool.and_eq_true] at hA; exact hA.1
    obtain ⟨ci, vn, view, h1, h2⟩ := hann hia
    rw [if_pos hA, if_pos hA, h1]
    dsimp only
    rw [h2]
    rfl
  · rw [if_neg hA, if_neg hA]
    rfl

-- the common end of the per-kind lemmas: decide the offset-conversion test
set_option hygiene false in
macro "flat_tail" hann:ident " with " t:tacticSeq : tactic => `(tactic|
  (by_cases hA : (isAnn && (f.name == "begin" || f.name == "end")) = true
   · have hia : isAnn = true := by
       rw [Bool.and_eq_true] at hA; exact hA.1
     obtain ⟨ci, vn, view, h1, h2⟩ := $hann hia
     rw [if_pos hA, h1]
     dsimp only
     (rw [h2])
     ($t)
   · (rw [if_neg hA])
     ($t)))

theorem renderFeature_str (K : Consts) (ts : TypeSystem) (cass : List Cas) (H : Heap) (a : Nat) (isAnn : Bool) (f : Feature)
    (o : Obj) (x : String) (ho : H[a]? = some o)
    (nc : NoColl K ts f) (hv : alistGet? o.slots f.name = some (.str x))
    (hns : f.name ≠ "sofa") (hr : f.range = "uima.cas.String") (hp : isPrimitive K ts f.range = true)
    (hann : isAnn = true → ∃ ci vn view, alistGet? o.slots "sofa" = some (.sofa ci vn) ∧
       (cass[ci]?).bind (fun c => Cas.getViewRec c vn) = some view) :
    renderFeature K ts cass H a isAnn f = .ok ([(xmlName f, x)], []) := by
  have hs : ∀ n, slot H a n = alistGet? o.slots n := by
    intro n; unfold slot Traverse.slot; rw [ho]; rfl
  have hb : f.range ≠ "uima.cas.Boolean" ∧ f.range ≠ "uima.cas.Double" ∧ f.range ≠ "uima.cas.Float" := by
    rw [hr]; decide
  have hfa : (f.range == FS_ARRAY) = false := by simp [nc.fa]
  have hfl : (f.range == FS_LIST) = false := by simp [nc.fl]
  unfold renderFeature
  simp only [beq_iff_eq, Bool.or_eq_true, nc.n1, nc.n2, or_self, reduceCtorEq, Bool.false_eq_true, if_false, hs, hv, Option.getD_some, xmlName_def, xmlName_begin f nc.res, xmlName_end f nc.res, xmlName_sofa f nc.res,
    nc.sa, nc.sl, nc.pa, nc.pl, hfa, hfl, Bool.false_and, hns, hb.1, hb.2.1, hb.2.2, hp, if_true]
  flat_tail hann with rfl

theorem renderFeature_bool (K : Consts) (ts : TypeSystem) (cass : List Cas) (H : Heap) (a : Nat) (isAnn : Bool) (f : Feature)
    (o : Obj) (x : Bool) (ho : H[a]? = some o)
    (nc : NoColl K ts f) (hv : alistGet? o.slots f.name = some (.bool x))
    (hns : f.name ≠ "sofa") (hr : f.range = "uima.cas.Boolean")
    (hann : isAnn = true → ∃ ci vn view, alistGet? o.slots "sofa" = some (.sofa ci vn) ∧
       (cass[ci]?).bind (fun c => Cas.getViewRec c vn) = some view) :
    renderFeature K ts cass H a isAnn f = .ok ([(xmlName f, showBool x)], []) := by
  have hs : ∀ n, slot H a n = alistGet? o.slots n := by
    intro n; unfold slot Traverse.slot; rw [ho]; rfl
  have hb : (f.range == "uima.cas.Boolean") = true := by rw [hr]; rfl
  have hfa : (f.range == FS_ARRAY) = false := by simp [nc.fa]
  have hfl : (f.range == FS_LIST) = false := by simp [nc.fl]
  unfold renderFeature
  simp only [hb, beq_iff_eq, Bool.or_eq_true, nc.n1, nc.n2, or_self, reduceCtorEq, Bool.false_eq_true, if_false, hs, hv, Option.getD_some, xmlName_def, xmlName_begin f nc.res, xmlName_end f nc.res, xmlName_sofa f nc.res,
    nc.sa, nc.sl, nc.pa, nc.pl, hfa, hfl, Bool.false_and, hns, if_true]
  flat_tail hann with rfl

theorem renderFeature_float (K : Consts) (ts : TypeSystem) (cass : List Cas) (H : Heap) (a : Nat) (isAnn : Bool) (f : Feature)
    (o : Obj) (x : String) (ho : H[a]? = some o)
    (nc : NoColl K ts f) (hv : alistGet? o.slots f.name = some (.float x))
    (hns : f.name ≠ "sofa") (hr : f.range = "uima.cas.Float" ∨ f.range = "uima.cas.Double")
    (hann : isAnn = true → ∃ ci vn view, alistGet? o.slots "sofa" = some (.sofa ci vn) ∧
       (cass[ci]?).bind (fun c => Cas.getViewRec c vn) = some view) :
    renderFeature K ts cass H a isAnn f = .ok ([(xmlName f, x)], []) := by
  have hs : ∀ n, slot H a n = alistGet? o.slots n := by
    intro n; unfold slot Traverse.slot; rw [ho]; rfl
  have hb : (f.range == "uima.cas.Boolean") = false := by
    rcases hr with h | h <;> rw [h] <;> rfl
  have hb2 : (f.range == "uima.cas.Double" || f.range == "uima.cas.Float") = true := by
    rcases hr with h | h <;> rw [h] <;> rfl
  have hfa : (f.range == FS_ARRAY) = false := by simp [nc.fa]
  have hfl : (f.range == FS_LIST) = false := by simp [nc.fl]
  unfold renderFeature
  simp only [hb, hb2, beq_iff_eq, Bool.or_eq_true, nc.n1, nc.n2, or_self, reduceCtorEq, Bool.false_eq_true, if_false, hs, hv, Option.getD_some, xmlName_def, xmlName_begin f nc.res, xmlName_end f nc.res, xmlName_sofa f nc.res,
    nc.sa, nc.sl, nc.pa, nc.pl, hfa, hfl, Bool.false_and, hns, if_true]
  flat_tail hann with rfl

theorem renderFeature_ref (K : Consts) (ts : TypeSystem) (cass : List Cas) (H : Heap) (a : Nat) (isAnn : Bool) (f : Feature)
    (o : Obj) (b : Nat) (x : Int) (ho : H[a]? = some o)
    (nc : NoColl K ts f) (hv : alistGet? o.slots f.name = some (.ref b)) (hx : xidOf H b = some x)
    (hns : f.name ≠ "sofa") (hp : isPrimitive K ts f.range = false)
    (hb : f.range ≠ "uima.cas.Boolean" ∧ f.range ≠ "uima.cas.Double" ∧ f.range ≠ "uima.cas.Float")
    (hann : isAnn = true → ∃ ci vn view, alistGet? o.slots "sofa" = some (.sofa ci vn) ∧
       (cass[ci]?).bind (fun c => Cas.getViewRec c vn) = some view) :
    renderFeature K ts cass H a isAnn f = .ok ([(xmlName f, showInt x)], []) := by
  have hs : ∀ n, slot H a n = alistGet? o.slots n := by
    intro n; unfold slot Traverse.slot; rw [ho]; rfl
  have hxs : xidStr H b = .ok (showInt x) := by
    unfold xidOf at hx
    unfold xidStr
    cases hb : H[b]? with
    | none => rw [hb] at hx; cases hx
    | some ob =>
      rw [hb] at hx
      simp only [Option.bind_some] at hx
      dsimp only
      rw [hx]
  have hfa : (f.range == FS_ARRAY) = false := by simp [nc.fa]
  have hfl : (f.range == FS_LIST) = false := by simp [nc.fl]
  unfold renderFeature
  simp only [beq_iff_eq, Bool.or_eq_true, nc.n1, nc.n2, or_self, reduceCtorEq, Bool.false_eq_true, if_false, hs, hv, Option.getD_some, xmlName_def, xmlName_begin f nc.res, xmlName_end f nc.res, xmlName_sofa f nc.res,
    nc.sa, nc.sl, nc.pa, nc.pl, hfa, hfl, Bool.false_and, hns, hb.1, hb.2.1, hb.2.2, hp]
  flat_tail hann with (simp only [pure, Except.pure, bind, Except.bind, hxs])

theorem renderFeature_sofa (K : Consts) (ts : TypeSystem) (cass : List Cas) (H : Heap) (a : Nat) (isAnn : Bool) (f : Feature)
    (o : Obj) (ci0 : Nat) (vn0 : String) (view0 : View) (ho : H[a]? = some o)
    (nc : NoColl K ts f) (hv : alistGet? o.slots f.name = some (.sofa ci0 vn0))
    (hview : (cass[ci0]?).bind (fun c => Cas.getViewRec c vn0) = some view0)
    (hns : f.name = "sofa")
    (hann : isAnn = true → ∃ ci vn view, alistGet? o.slots "sofa" = some (.sofa ci vn) ∧
       (cass[ci]?).bind (fun c => Cas.getViewRec c vn) = some view) :
    renderFeature K ts cass H a isAnn f = .ok ([(xmlName f, showInt view0.sofa.xid)], []) := by
  have hs : ∀ n, slot H a n = alistGet? o.slots n := by
    intro n; unfold slot Traverse.slot; rw [ho]; rfl
  have hfa : (f.range == FS_ARRAY) = false := by simp [nc.fa]
  have hfl : (f.range == FS_LIST) = false := by simp [nc.fl]
  have hsn : (f.name == "sofa") = true := by rw [hns]; rfl
  unfold renderFeature
  simp only [hsn, beq_iff_eq, Bool.or_eq_true, nc.n1, nc.n2, or_self, reduceCtorEq, Bool.false_eq_true, if_false, hs, hv, Option.getD_some, xmlName_def, xmlName_begin f nc.res, xmlName_end f nc.res, xmlName_sofa f nc.res,
    nc.sa, nc.sl, nc.pa, nc.pl, hfa, hfl, Bool.false_and, if_true]
  flat_tail hann with (simp only [pure, Except.pure, bind, Except.bind, hview])

/-- what the writer needs to know about the sofa of an annotation -/
def AnnSofa (cass : List Cas) (isAnn : Bool) (o : Obj) : Prop :=
  isAnn = true → ∃ ci vn view, alistGet? o.slots "sofa" = some (.sofa ci vn) ∧
    (cass[ci]?).bind (fun c => Cas.getViewRec c vn) = some view

theorem FlatFeat.noColl {K : Consts} {ts : TypeSystem} {c : Cas} {ci : Nat} {H : Heap} {isAnn : Bool} {o : Obj} {f : Feature}
    (h : FlatFeat K ts c ci H isAnn o f) : NoColl K ts f :=
  ⟨h.1, h.2.1, h.2.2.1, h.2.2.2.2.2.1, h.2.2.2.2.2.2.1, h.2.2.2.2.2.2.2.1, h.2.2.2.2.2.2.2.2.1, h.2.2.2.2.2.2.2.2.2.1,
    h.2.2.2.2.2.2.2.2.2.2.1⟩

theorem renderFeature_flat (K : Consts) (ts : TypeSystem) (cass : List Cas) (c : Cas) (ci : Nat) (H : Heap) (a : Nat)
    (isAnn : Bool) (f : Feature) (o : Obj) (hc : cass[ci]? = some c) (ho : H[a]? = some o)
    (hf : FlatFeat K ts c ci H isAnn o f) (hann : AnnSofa cass isAnn o) :
    renderFeature K ts cass H a isAnn f =
      .ok ((match flatTok cass H isAnn o f.name ((alistGet? o.slots f.name).getD .none) with
            | some s => [(xmlName f, s)]
            | none => []), []) := by
  have nc := hf.noColl
  obtain ⟨v, hv, hcase⟩ := hf.2.2.2.2.2.2.2.2.2.2.2
  have hs : ∀ n, slot H a n = alistGet? o.slots n := by
    intro n; unfold slot Traverse.slot; rw [ho]; rfl
  rw [hv, Option.getD_some]
  have hnone : v = .none → renderFeature K ts cass H a isAnn f =
      .ok ((match flatTok cass H isAnn o f.name v with | some s => [(xmlName f, s)] | none => []), []) := by
    intro h; subst h
    rw [renderFeature_none K ts cass H a isAnn f nc.n1 nc.n2 (by rw [hs, hv]; rfl)]
    rfl
  rcases hcase with ⟨hn, hsofa⟩ | ⟨hn, hp, hprim⟩ | ⟨hn, hp, _, _, hb1, hb2, hb3, href⟩
  · rcases hsofa with ⟨vn, rfl, hsome⟩ | ⟨h, _⟩
    · cases hg : Cas.getViewRec c vn with
      | none => rw [hg] at hsome; cases hsome
      | some view =>
        have hview : (cass[ci]?).bind (fun c => Cas.getViewRec c vn) = some view := by
          rw [hc]; exact hg
        rw [renderFeature_sofa K ts cass H a isAnn f o ci vn view ho nc hv hview hn hann]
        unfold flatTok
        simp only [hview, Option.map_some]
    · exact hnone h
  · rcases hprim with h | ⟨hr, i, rfl⟩ | ⟨hr, s, rfl⟩ | ⟨hr, b, rfl⟩ | ⟨hr, t, rfl⟩
    · exact hnone h
    · rw [renderFeature_int K ts cass H a isAnn f o i ho nc hv hn hr hp hann]; rfl
    · rw [renderFeature_str K ts cass H a isAnn f o s ho nc hv hn hr hp hann]; rfl
    · rw [renderFeature_bool K ts cass H a isAnn f o b ho nc hv hn hr hann]; rfl
    · rw [renderFeature_float K ts cass H a isAnn f o t ho nc hv hn hr hann]; rfl
  · rcases href with h | ⟨b, rfl, hx, _⟩
    · exact hnone h
    · cases hxb : xidOf H b with
      | none => rw [hxb] at hx; cases hx
      | some x =>
        rw [renderFeature_ref K ts cass H a isAnn f o b x ho nc hv hxb hn hp ⟨hb1, hb2, hb3⟩ hann]
        unfold flatTok
        simp only [hxb, Option.map_some]

theorem renderFeatures_flat (K : Consts) (ts : TypeSystem) (cass : List Cas) (c : Cas) (ci : Nat) (H : Heap) (a : Nat)
    (isAnn : Bool) (o : Obj) (hc : cass[ci]? = some c) (ho : H[a]? = some o) (hann : AnnSofa cass isAnn o) :
    ∀ (fs : List Feature), (∀ f ∈ fs, FlatFeat K ts c ci H isAnn o f) →
    renderFeatures K ts cass H a isAnn fs = .ok (flatAttrsW cass H isAnn o fs, [])
  | [], _ => rfl
  | f :: fs, h => by
    rw [renderFeatures, renderFeature_flat K ts cass c ci H a isAnn f o hc ho (h f List.mem_cons_self) hann,
      renderFeatures_flat K ts cass c ci H a isAnn o hc ho hann fs (fun g hg => h g (List.mem_cons_of_mem _ hg))]
    rfl

theorem renderFs_flat (K : Consts) (ts : TypeSystem) (cass : List Cas) (c : Cas) (ci : Nat) (H : Heap) (a : Nat) (x : Int)
    (o : Obj) (t : TypeRec) (hc : cass[ci]? = some c) (ho : H[a]? = some o) (ht : find? ts o.ty = some t)
    (hx : o.xid = some x) (hpa : isPrimitiveArray K o.ty = false) (hfa : o.ty ≠ FS_ARRAY)
    (hf : ∀ f ∈ allFeatures t, FlatFeat K ts c ci H (isInstanceOf ts o.ty ANNOTATION) o f)
    (hann : AnnSofa cass (isInstanceOf ts o.ty ANNOTATION) o) :
    renderFs K ts cass H a = .ok (flatElem ts cass H x o t) := by
  have hgt : getType ts o.ty = .ok t := by unfold getType; rw [ht]
  have hfa' : (o.ty == FS_ARRAY) = false := by simp [hfa]
  unfold renderFs
  simp only [ho, pure, Except.pure, bind, Except.bind, hpa, hfa', Bool.or_self, Bool.false_eq_true, if_false, hgt,
    renderFeatures_flat K ts cass c ci H a _ o hc ho hann (allFeatures t) hf, hx]
  rfl

end Cassis.Xmi
