/-
Entry-order independence of the JSON reader, layer 4: the views pass over the `%VIEWS` entries in ANY order.

The views of the reader exist already (one per sofa) and stand in the order of `c.views` (the CAS the layers are
instantiated with has its views in the reader's order).  Each entry of `%VIEWS` fills the index of the view it names
(`JV.VC.members_loop`, which is stated for a view anywhere in the list); the order of the entries only decides in which
order the indexes are filled.  The loop over the entries (`views_loopP`, `viewsPass_anyOrder_gen`) takes the members loop
as a hypothesis (`MembersLoop`), so that the flat proof and the proof with collections (`LoadPermJsonColl.lean`) share it.
-/
import CassisModel.Proofs.LoadPermJsonDefs

namespace Cassis.Json.LPJ
open Cassis.TS Cassis.Traverse Cassis.Lex Cassis.Xmi Cassis.Xmi.RTB Cassis.Json.JV

/-! ### pointwise relation of two lists -/

theorem All2.append_inv {α β} {R : α → β → Prop} : ∀ {as1 as2 : List α} {bs : List β}, All2 R (as1 ++ as2) bs →
    ∃ bs1 bs2, bs = bs1 ++ bs2 ∧ All2 R as1 bs1 ∧ All2 R as2 bs2
  | [], _, bs, h => ⟨[], bs, rfl, trivial, h⟩
  | _ :: _, _, [], h => h.elim
  | a :: as1, as2, b :: bs, h => by
    obtain ⟨h1, h2⟩ := h
    obtain ⟨bs1, bs2, e, g1, g2⟩ := All2.append_inv (as1 := as1) h2
    exact ⟨b :: bs1, bs2, by rw [e]; rfl, ⟨h1, g1⟩, g2⟩

theorem All2.append {α β} {R : α → β → Prop} : ∀ {as1 as2 : List α} {bs1 bs2 : List β}, All2 R as1 bs1 →
    All2 R as2 bs2 → All2 R (as1 ++ as2) (bs1 ++ bs2)
  | [], _, [], _, _, h => h
  | [], _, _ :: _, _, h', _ => h'.elim
  | _ :: _, _, [], _, h', _ => h'.elim
  | _ :: _, _, _ :: _, _, ⟨h1, h2⟩, h => ⟨h1, All2.append h2 h⟩

theorem All2.imp_mem {α β} {R S : α → β → Prop} : ∀ {as : List α} {bs : List β}, All2 R as bs →
    (∀ a ∈ as, ∀ b, R a b → S a b) → All2 S as bs
  | [], [], _, _ => trivial
  | [], _ :: _, h', _ => h'.elim
  | _ :: _, [], h', _ => h'.elim
  | a :: _, b :: _, ⟨h1, h2⟩, h =>
    ⟨h a List.mem_cons_self b h1, All2.imp_mem h2 (fun a' ha' => h a' (List.mem_cons_of_mem _ ha'))⟩

/-! ### the views pass -/

/-- one view of the reader during the views pass: still without members while its entry is to come (`todo` holds the
    names of the entries to come), related to the written view afterwards -/
def VSt (H : Heap) (na : Int → Nat) (todo : List String) (nv w : String × View) : Prop :=
  w.1 = nv.1 ∧ (nv.1 ∈ todo → w.2 = ({ sofa := nv.2.sofa, idx := [] } : View)) ∧
  (nv.1 ∉ todo → ViewRelJ H na nv w)

/-- all members of one view, the view standing anywhere in the list (`JV.VC.members_loop`, `JVC.VC.members_loop`) -/
def MembersLoop (ts : TypeSystem) (c : Cas) (H : Heap) (na : Int → Nat) (ci' : Nat) (HF : Heap)
    (fss : List (Int × Val)) : Prop :=
  ∀ nv ∈ c.views, ∀ (pre post : List (String × View)), nv.1 ∉ pre.map (·.1) →
    ∀ (ms : List Int), (∀ m ∈ ms, m ∈ (pviewOf H nv).members) → ∀ (v : VState) (cur : View),
      v.heap = HF → MSInv HF na v.memberSofas → v.cas.views = pre ++ (nv.1, cur) :: post → IdxFrom H nv cur.idx →
      ∃ (v' : VState) (cur' : View),
        addJMembers ts ci' { view := nv.1, lenient := false } fss ms v = .ok v' ∧
        v'.heap = HF ∧ MSInv HF na v'.memberSofas ∧ v'.cas.views = pre ++ (nv.1, cur') :: post ∧
        v'.cas.nextXid = v.cas.nextXid ∧ v'.cas.nextSofaNum = v.cas.nextSofaNum ∧ cur'.sofa = cur.sofa ∧
        ((Index.all cur'.idx).map (·.oid)).Perm (ms.map na ++ (Index.all cur.idx).map (·.oid))

section
variable {ts : TypeSystem} {c : Cas} {H : Heap} {na : Int → Nat} {ci' : Nat} {HF : Heap} {fss : List (Int × Val)}

/-- all entries of `%VIEWS`, in any order -/
theorem views_loopP (hloop : MembersLoop ts c H na ci' HF fss)
    (hnames : ∀ nv ∈ c.views, nv.2.sofa.sofaID = nv.1) (hnd : (c.views.map (·.1)).Nodup) :
    ∀ (todo : List (String × View)), (∀ nv ∈ todo, nv ∈ c.views) → (todo.map (·.1)).Nodup →
      ∀ (v : VState), v.heap = HF → MSInv HF na v.memberSofas →
      All2 (VSt H na (todo.map (·.1))) c.views v.cas.views →
      ∃ v' : VState, viewsPass ts ci' false fss (todo.map (jviewH H)) v = .ok v' ∧
        v'.heap = HF ∧ v'.cas.nextXid = v.cas.nextXid ∧ v'.cas.nextSofaNum = v.cas.nextSofaNum ∧
        All2 (ViewRelJ H na) c.views v'.cas.views := by
  intro todo
  induction todo with
  | nil =>
    intro _ _ v hh _ hall
    refine ⟨v, viewsPass_nil .., hh, rfl, rfl, ?_⟩
    exact All2.imp_mem hall (fun a _ b hr => hr.2.2 (by simp))
  | cons nv todo ih =>
    intro hsub hnd2 v hh hms hall
    have hnv : nv ∈ c.views := hsub nv List.mem_cons_self
    obtain ⟨A, B, hAB⟩ := List.append_of_mem hnv
    rw [List.map_cons, List.nodup_cons] at hnd2
    have hnd' := hnd
    rw [hAB, List.map_append, List.map_cons] at hnd'
    have hndA := List.nodup_append.mp hnd'
    have hA_ne : ∀ a ∈ A, a.1 ≠ nv.1 := fun a ha e =>
      hndA.2.2 _ (List.mem_map_of_mem ha) _ List.mem_cons_self e
    have hB_ne : ∀ a ∈ B, a.1 ≠ nv.1 := fun a ha e =>
      (List.nodup_cons.mp hndA.2.1).1 (by rw [← e]; exact List.mem_map_of_mem ha)
    rw [hAB] at hall
    obtain ⟨WA, W2, hW, hallA, hall2⟩ := All2.append_inv hall
    cases W2 with
    | nil => exact hall2.elim
    | cons w WB =>
      obtain ⟨hw, hallB⟩ := hall2
      have hkeys : WA.map (·.1) = A.map (·.1) := All2.map_eq hallA (fun _ _ _ h => h.1)
      have hpre : nv.1 ∉ WA.map (·.1) := by
        rw [hkeys]
        intro hin
        exact hndA.2.2 _ hin _ List.mem_cons_self rfl
      have hweq : w = (nv.1, ({ sofa := nv.2.sofa, idx := [] } : View)) := by
        obtain ⟨w1, w2⟩ := w
        have e1 : w1 = nv.1 := hw.1
        have e2 : w2 = _ := hw.2.1 (by rw [List.map_cons]; exact List.mem_cons_self)
        rw [e1, e2]
      have hv : v.cas.views = WA ++ (nv.1, ({ sofa := nv.2.sofa, idx := [] } : View)) :: WB := by
        rw [hW, hweq]
      have hname : (jviewH H nv).name = nv.1 := hnames nv hnv
      have hget : Cas.getViewRec v.cas (jviewH H nv).name = some ({ sofa := nv.2.sofa, idx := [] } : View) := by
        unfold Cas.getViewRec
        rw [hname, hv]; exact aget_middle WA _ nv.1 _ hpre
      have hidx0 : IdxFrom H nv ([] : Index.Idx) := by
        intro ty x hx
        cases hx
      obtain ⟨v1, cur1, h1, hh1, hms1, hv1, hx1, hn1, hs1, hp1⟩ :=
        hloop nv hnv WA WB hpre (pviewOf H nv).members (fun _ h => h) v _ hh hms hv hidx0
      have hr1 : ViewRelJ H na nv (nv.1, cur1) := by
        refine ⟨rfl, ?_, ?_⟩
        · show cur1.sofa = _
          rw [hs1]
        · show ((Index.all cur1.idx).map (·.oid)).Perm _
          have : (Index.all ([] : Index.Idx)).map (·.oid) = [] := rfl
          rw [this, List.append_nil] at hp1
          exact hp1
      have hall1 : All2 (VSt H na (todo.map (·.1))) c.views v1.cas.views := by
        rw [hv1]
        conv => arg 2; rw [hAB]
        refine All2.append (All2.imp_mem hallA ?_) ⟨?_, All2.imp_mem hallB ?_⟩
        · intro a ha b hr
          refine ⟨hr.1, fun hin => hr.2.1 (by rw [List.map_cons]; exact List.mem_cons_of_mem _ hin), fun hnin => hr.2.2 ?_⟩
          rw [List.map_cons, List.mem_cons, not_or]
          exact ⟨hA_ne a ha, hnin⟩
        · exact ⟨rfl, fun hin => absurd hin hnd2.1, fun _ => hr1⟩
        · intro a ha b hr
          refine ⟨hr.1, fun hin => hr.2.1 (by rw [List.map_cons]; exact List.mem_cons_of_mem _ hin), fun hnin => hr.2.2 ?_⟩
          rw [List.map_cons, List.mem_cons, not_or]
          exact ⟨hB_ne a ha, hnin⟩
      obtain ⟨v2, h2, hh2, hx2, hn2, hall2⟩ :=
        ih (fun x hx => hsub x (List.mem_cons_of_mem _ hx)) hnd2.2 v1 hh1 hms1 hall1
      refine ⟨v2, ?_, hh2, hx2.trans hx1, hn2.trans hn1, hall2⟩
      rw [List.map_cons, viewsPass_cons_existing ts ci' false fss _ _ v hget, hname]
      have hmem : (jviewH H nv).members = (pviewOf H nv).members := rfl
      rw [hmem, h1]
      exact h2

end

/-- **the views pass over the entries of `%VIEWS` in any order** (`τ` a permutation of the written views), from the
    members loop and the content lemma of the fragment -/
theorem viewsPass_anyOrder_gen (ts : TypeSystem) (c : Cas) (H : Heap) (na : Int → Nat) (ci' : Nat)
    (hnames : ∀ nv ∈ c.views, nv.2.sofa.sofaID = nv.1) (hnd : (c.views.map (·.1)).Nodup)
    (HF : Heap) (fss : List (Int × Val)) (hloop : MembersLoop ts c H na ci' HF fss)
    (hcontent : ∀ nv ∈ c.views, ∀ nv', ViewRelJ H na nv nv' → viewContent HF nv' = viewContent H nv)
    (c0 : Cas) (hc0 : c0.views = bareViews c.views)
    (τ : List (String × View)) (hτ : τ.Perm c.views) :
    ∃ v : VState,
      viewsPass ts ci' false fss (τ.map (jviewH H)) { cas := c0, heap := HF } = .ok v ∧
      v.heap = HF ∧ v.cas.nextXid = c0.nextXid ∧ v.cas.nextSofaNum = c0.nextSofaNum ∧
      All2 (ViewRelJ H na) c.views v.cas.views ∧
      v.cas.views.map (viewContent HF) = c.views.map (viewContent H) := by
  have hall0 : ∀ (l : List (String × View)), (∀ nv ∈ l, nv.1 ∈ τ.map (·.1)) →
      All2 (VSt H na (τ.map (·.1))) l (bareViews l) := by
    intro l
    induction l with
    | nil => intro _; trivial
    | cons nv l ih =>
      intro hin
      refine ⟨⟨rfl, fun _ => rfl, fun hnin => absurd (hin nv List.mem_cons_self) hnin⟩, ?_⟩
      exact ih (fun x hx => hin x (List.mem_cons_of_mem _ hx))
  obtain ⟨v, h1, hh, hx, hn, hall⟩ :=
    views_loopP hloop hnames hnd τ (fun nv hnv => hτ.mem_iff.mp hnv) ((hτ.map (·.1)).nodup_iff.mpr hnd)
      { cas := c0, heap := HF } rfl (fun r hr => by cases hr)
      (by
        show All2 _ c.views c0.views
        rw [hc0]
        exact hall0 c.views (fun nv hnv => List.mem_map_of_mem (hτ.mem_iff.mpr hnv)))
  refine ⟨v, h1, hh, hx, hn, hall, ?_⟩
  exact All2.map_eq hall (fun nv hnv nv' hr => hcontent nv hnv nv' hr)

/-- the flat fragment -/
theorem viewsPass_anyOrder (K : Consts) (ts : TypeSystem) (c : Cas) (ci : Nat) (H : Heap) (L : List (Int × Nat))
    (na : Int → Nat) (ci' : Nat)
    (hnames : ∀ nv ∈ c.views, nv.2.sofa.sofaID = nv.1) (hnd : (c.views.map (·.1)).Nodup)
    (hL : LOk K ts c ci H L)
    (hmem : ∀ nv ∈ c.views, ∀ e ∈ Index.all nv.2.idx, Xmi.slot H e.oid "sofa" ≠ some .none)
    (hmok : MembersOk c H)
    (HF : Heap) (hrel : HeapRel H L na (E3 H na ci') HF)
    (fss : List (Int × Val)) (hfss : ∀ q ∈ L, lookup fss q.1 = some (.ref (na q.1)))
    (c0 : Cas) (hc0 : c0.views = bareViews c.views)
    (τ : List (String × View)) (hτ : τ.Perm c.views) :
    ∃ v : VState,
      viewsPass ts ci' false fss (τ.map (jviewH H)) { cas := c0, heap := HF } = .ok v ∧
      v.heap = HF ∧ v.cas.nextXid = c0.nextXid ∧ v.cas.nextSofaNum = c0.nextSofaNum ∧
      All2 (ViewRelJ H na) c.views v.cas.views ∧
      v.cas.views.map (viewContent HF) = c.views.map (viewContent H) := by
  have ctx : JV.VC K ts c ci H L na ci' HF fss := ⟨hL, hmem, hmok, hrel, hfss⟩
  exact viewsPass_anyOrder_gen ts c H na ci' hnames hnd HF fss
    (fun nv hnv pre post hpre => ctx.members_loop hnv (pre := pre) (post := post) hpre)
    (fun nv hnv nv' hr => ctx.view_content hnv hr) c0 hc0 τ hτ

end Cassis.Json.LPJ
