/-
C03, document level, the JSON reader, part 3: reader ∘ writer = identity on the `begin`/`end` slots of a parsed
annotation.
-/
import CassisModel.Proofs.OffsetsDocJsonV

namespace Cassis.Json
open Cassis.Offsets Cassis.TS Cassis.OffsetsDoc Cassis.Xmi

theorem slot_obj' {hp : Heap} {a : Nat} {n : String} {v : Val} (h : Xmi.slot hp a n = some v) :
    ∃ o, hp[a]? = some o ∧ alistGet? o.slots n = some v := by
  unfold Xmi.slot Traverse.slot at h
  cases ho : hp[a]? with
  | none => rw [ho] at h; cases h
  | some o => rw [ho] at h; exact ⟨o, rfl, h⟩

/-- `convertOffsets` on an object whose `begin`/`end` slots hold non-negative integers -/
theorem convertOffsets_nat (conv : Conv) (hp : Heap) (a : Nat) (o : Obj) (xb xe : Nat) (ha : hp[a]? = some o)
    (hsb : alistGet? o.slots "begin" = some (.int (xb : Nat))) (hse : alistGet? o.slots "end" = some (.int (xe : Nat))) :
    ∃ hp' : Heap, convertOffsets conv hp a = .ok hp' ∧
      Traverse.slot hp' a "begin" = some (.int (externalToPython conv xb : Nat)) ∧
      Traverse.slot hp' a "end" = some (.int (externalToPython conv xe : Nat)) := by
  have hlt : a < hp.length := (List.getElem?_eq_some_iff.mp ha).1
  have hne : ("end" : String) ≠ "begin" := by decide
  have hne' : ("begin" : String) ≠ "end" := by decide
  let b := externalToPython conv xb
  let e := externalToPython conv xe
  let o1 : Obj := { o with slots := alistSet o.slots "begin" (.int b) }
  let hp1 : Heap := hp.set a o1
  have h1 : hp1[a]? = some o1 := List.getElem?_set_self hlt
  have hse1 : alistGet? o1.slots "end" = some (.int (xe : Nat)) := by
    show alistGet? (alistSet o.slots "begin" (.int b)) "end" = _
    rw [alistGet?_set_other _ _ _ _ hne, hse]
  let o2 : Obj := { o1 with slots := alistSet o1.slots "end" (.int e) }
  have hlt1 : a < hp1.length := by show a < (hp.set a o1).length; rw [List.length_set]; exact hlt
  refine ⟨hp1.set a o2, ?_, ?_, ?_⟩
  · unfold convertOffsets
    have s1 : slot hp a "begin" = some (.int (xb : Nat)) := by
      show (hp[a]?).bind _ = _
      rw [ha]; exact hsb
    simp only [bind, Except.bind]
    rw [s1]
    dsimp only
    rw [cv_nat, setSlot_existing _ ha hsb]
    dsimp only
    have s2 : slot hp1 a "end" = some (.int (xe : Nat)) := by
      show (hp1[a]?).bind _ = _
      rw [h1]; exact hse1
    show (match slot hp1 a "end" with | some v => _ | none => _) = _
    rw [s2]
    dsimp only
    rw [cv_nat, setSlot_existing _ h1 hse1]
  · show ((hp1.set a o2)[a]?).bind _ = _
    rw [List.getElem?_set_self hlt1]
    show alistGet? (alistSet (alistSet o.slots "begin" (.int b)) "end" (.int e)) "begin" = _
    rw [alistGet?_set_other _ _ _ _ hne', alistGet?_set_same]
  · show ((hp1.set a o2)[a]?).bind _ = _
    rw [List.getElem?_set_self hlt1]
    show alistGet? (alistSet (alistSet o.slots "begin" (.int b)) "end" (.int e)) "end" = _
    rw [alistGet?_set_same]

/-- the JSON counterpart of `Xmi.convertOffsets_restores`: with the converter the JSON reader has installed for the text
    (`parseSofa_conv`), converting an object whose slots hold the written offsets restores the internal ones -/
theorem json_convertOffsets_restores_aux (t : List Nat) (view : View)
    (hconv : view.sofa.conv = createMapping none (some t)) (hp : Heap) (a : Nat) (o : Obj)
    (b e : Nat) (hb : b ≤ t.length) (he : e ≤ t.length) (ha : hp[a]? = some o)
    (hsb : alistGet? o.slots "begin" = some (.int (pythonToExternal (createMapping none (some t)) b : Nat)))
    (hse : alistGet? o.slots "end" = some (.int (pythonToExternal (createMapping none (some t)) e : Nat))) :
    ∃ hp' : Heap, convertOffsets view.sofa.conv hp a = .ok hp' ∧
      Traverse.slot hp' a "begin" = some (.int b) ∧ Traverse.slot hp' a "end" = some (.int e) := by
  obtain ⟨hp', h1, h2, h3⟩ := convertOffsets_nat view.sofa.conv hp a o _ _ ha hsb hse
  refine ⟨hp', h1, ?_, ?_⟩
  · rw [h2, hconv]
    show some (Val.int ((e2p t (p2e t b) : Nat) : Int)) = _
    rw [e2p_p2e_aux t b hb]
  · rw [h3, hconv]
    show some (Val.int ((e2p t (p2e t e) : Nat) : Int)) = _
    rw [e2p_p2e_aux t e he]

/-- **reader ∘ writer on a parsed annotation**: if the element of an annotation was parsed, and before the conversion
    the `begin`/`end` slots held the offsets written for `b`, `e` over the text `t` of the view the `sofa` member names
    (whose converter is the one `parseSofa` installed), the parsed structure has `begin = b`, `end = e` -/
theorem parseFs_restores_aux (K : Consts) (ts : TypeSystem) (tsIdx : Nat) (s s' : RState) (j : JFs)
    (h : parseFs K ts tsIdx s j = .ok s') :
    ∃ (t0 : TypeRec) (heap1 : Heap),
      getType ts (if j.ty.endsWith "[]" then arrayTypeNameFor j.ty else j.ty) = .ok t0 ∧
      (isInstanceOf ts t0.name ANNOTATION = true →
        ∃ (cI : Nat) (vn : String) (view : View), Xmi.slot heap1 s.heap.length "sofa" = some (.sofa cI vn) ∧
          Cas.getViewRec s.cas vn = some view ∧
          ∀ (t : List Nat) (b e : Nat), view.sofa.conv = createMapping none (some t) → b ≤ t.length → e ≤ t.length →
            Xmi.slot heap1 s.heap.length "begin" = some (.int (pythonToExternal (createMapping none (some t)) b : Nat)) →
            Xmi.slot heap1 s.heap.length "end" = some (.int (pythonToExternal (createMapping none (some t)) e : Nat)) →
            Xmi.slot s'.heap s.heap.length "begin" = some (.int b) ∧
            Xmi.slot s'.heap s.heap.length "end" = some (.int e)) ∧
      (isInstanceOf ts t0.name ANNOTATION = false → s'.heap = heap1) := by
  obtain ⟨t0, fsId, o, kwargs, d0, d, heap1, ht0, _, _, _, _, hA, hN⟩ := parseFs_converts_aux K ts tsIdx s s' j h
  refine ⟨t0, heap1, ht0, ?_, hN⟩
  intro hann
  obtain ⟨cI, vn, view, hsl, hview, hcv⟩ := hA hann
  refine ⟨cI, vn, view, hsl, hview, ?_⟩
  intro t b e hconv hb he hsb hse
  obtain ⟨ob, hob, hsb'⟩ := slot_obj' hsb
  obtain ⟨ob', hob', hse'⟩ := slot_obj' hse
  rw [hob] at hob'
  cases hob'
  obtain ⟨hp', h1, h2, h3⟩ := json_convertOffsets_restores_aux t view hconv heap1 _ ob b e hb he hob hsb' hse'
  rw [hcv] at h1
  cases h1
  exact ⟨h2, h3⟩

end Cassis.Json
