/-
C03, written-document level, the JSON writer: what `Json.renderFeature` emits for `begin`/`end`.
-/
import CassisModel.Proofs.OffsetsDocConv

namespace Cassis.Json
open Cassis.Offsets Cassis.TS Cassis.OffsetsDoc

theorem not_offset_name (n : String) (hn : n = "xmiID" ∨ n = "type") : ∀ res : Bool,
    ¬ ((if res = true then String.ofList n.toList.dropLast else n) = "begin" ∨
       (if res = true then String.ofList n.toList.dropLast else n) = "end") := by
  rcases hn with rfl | rfl <;> decide

/-- a feature written under the name `begin` / `end` is none of the two common fields the writers skip -/
theorem name_of_xmlName_offset (f : Feature) (h : xmlName f = "begin" ∨ xmlName f = "end") :
    (f.name == "xmiID" || f.name == "type") = false := by
  cases hb : (f.name == "xmiID" || f.name == "type") with
  | false => rfl
  | true =>
    rw [Bool.or_eq_true, beq_iff_eq, beq_iff_eq] at hb
    exact absurd h (not_offset_name f.name hb f.reserved)

theorem stage2_int (K : Consts) (ts : TypeSystem) (cass : List Cas) (hp : Heap) (f : Feature) (name : String) (j : Int) :
    (isPrimitive K ts f.range = true ∨ f.range = "uima.cas.Double" ∨ f.range = "uima.cas.Float" →
      stage2 K ts cass hp f name (.int j) = .ok [(name, .int j)]) ∧
    (∀ out, stage2 K ts cass hp f name (.int j) = .ok out → out = [(name, .int j)]) := by
  unfold stage2
  by_cases h1 : (f.range == "uima.cas.Double" || f.range == "uima.cas.Float") = true
  · rw [if_pos h1]
    exact ⟨fun _ => rfl, fun out h => by cases h; rfl⟩
  · rw [if_neg h1]
    by_cases h2 : isPrimitive K ts f.range = true
    · rw [if_pos h2]
      exact ⟨fun _ => rfl, fun out h => by cases h; rfl⟩
    · rw [if_neg h2]
      refine ⟨fun h => ?_, fun out h => by cases h⟩
      rcases h with h | h | h
      · exact absurd h h2
      · exfalso; apply h1; rw [h]; rfl
      · exfalso; apply h1; rw [h]; rfl

theorem renderFeature_offset_aux (K : Consts) (ts : TypeSystem) (cass : List Cas) (hp : Heap) (a : Nat) (f : Feature)
    (ci : Nat) (vn : String) (c : Cas) (view : View) (t : List Nat) (i : Int)
    (hdom : f.domain = ANNOTATION) (hname : xmlName f = "begin" ∨ xmlName f = "end")
    (hsofa : Xmi.slot hp a "sofa" = some (.sofa ci vn)) (hc : cass[ci]? = some c)
    (hv : Cas.getViewRec c vn = some view) (ht : view.sofa.text = some t) (hok : SofaConvOk view.sofa)
    (hval : Xmi.slot hp a f.name = some (.int i)) :
    (isPrimitive K ts f.range = true ∨ f.range = "uima.cas.Double" ∨ f.range = "uima.cas.Float" →
      renderFeature K ts cass hp a f = .ok [(xmlName f, .int (extOffset t i))]) ∧
    (∀ out, renderFeature K ts cass hp a f = .ok out → out = [(xmlName f, .int (extOffset t i))]) := by
  rw [renderFeature_eq, name_of_xmlName_offset f hname]
  simp only [Bool.false_eq_true, if_false, hval, Option.getD_some, xmlName_def]
  have hne : ¬ ((Val.int i == Val.none) = true) := by simp
  rw [if_neg hne]
  have hcond : (f.domain == ANNOTATION && (xmlName f == "begin" || xmlName f == "end")) = true := by
    rw [hdom]
    rcases hname with h | h <;> rw [h] <;> decide
  have hst1 : stage1 cass hp a f (xmlName f) (.int i) = .ok (.int (extOffset t i)) := by
    unfold stage1
    rw [if_pos hcond, hsofa]
    dsimp only
    rw [hc]
    have e : ((some c).bind fun c => Cas.getViewRec c vn) = some view := hv
    rw [e]
    dsimp only
    rw [conv_ext view.sofa t ht hok i]
    rfl
  rw [hst1]
  exact stage2_int K ts cass hp f (xmlName f) (extOffset t i)

/-- a feature that `uima.tcas.Annotation` does not declare is never converted -/
theorem renderFeature_plain_aux (K : Consts) (ts : TypeSystem) (cass : List Cas) (hp : Heap) (a : Nat) (f : Feature)
    (i : Int) (hdom : f.domain ≠ ANNOTATION) (hname : xmlName f = "begin" ∨ xmlName f = "end")
    (hval : Xmi.slot hp a f.name = some (.int i)) :
    (isPrimitive K ts f.range = true ∨ f.range = "uima.cas.Double" ∨ f.range = "uima.cas.Float" →
      renderFeature K ts cass hp a f = .ok [(xmlName f, .int i)]) ∧
    (∀ out, renderFeature K ts cass hp a f = .ok out → out = [(xmlName f, .int i)]) := by
  rw [renderFeature_eq, name_of_xmlName_offset f hname]
  simp only [Bool.false_eq_true, if_false, hval, Option.getD_some, xmlName_def]
  have hne : ¬ ((Val.int i == Val.none) = true) := by simp
  rw [if_neg hne]
  have hst1 : stage1 cass hp a f (xmlName f) (.int i) = .ok (.int i) := by
    unfold stage1
    have : (f.domain == ANNOTATION) = false := by simpa using hdom
    rw [this]
    rfl
  rw [hst1]
  exact stage2_int K ts cass hp f (xmlName f) i

end Cassis.Json
