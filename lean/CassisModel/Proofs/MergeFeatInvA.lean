/-
Helper lemmas for `Properties/C13FeatInv.lean`, part A: what `pushInherited` does when the feature bookkeeping invariant
is only known *below* the types it is applied to.

`push_spec` (`Proofs/Features.lean`) assumes `FeatInv` of the whole type system.  While a re-parented type `r` is being
given the features of its new supertype one by one (`inheritFrom`), `FeatInv` fails at `r` (its inherited features are
not yet those of its supertype).  What `push_spec` uses of `FeatInv` is only that inherited names are handed down inside
the subtrees being visited (`DownOK`); `push_specW` is `push_spec` under that hypothesis, and `PushTarget` is the record
by record description of `pushInherited f _ ts [r]`.
-/
import CassisModel.Proofs.MergePermR2
import CassisModel.Proofs.MergePermT

namespace Cassis.TS

/-- the ancestor relation only depends on the names, supertypes (and children) -/
theorem anc_of_skel {ts ts' : TypeSystem} (h : skel ts' = skel ts) {a b : String} (hab : Anc ts a b) : Anc ts' a b := by
  induction hab with
  | refl hreg => exact Anc.refl _ (by rw [hasExact_transfer h]; exact hreg)
  | step b s tb hfb hs _ ih =>
    obtain ⟨tb', htb', he⟩ := find?_transfer h.symm hfb
    rw [tr_eq_iff] at he
    exact Anc.step _ b s tb' htb' (by rw [he.2.1]; exact hs) ih

theorem anc_skel_iff {ts ts' : TypeSystem} (h : skel ts' = skel ts) (a b : String) : Anc ts' a b ↔ Anc ts a b :=
  ⟨anc_of_skel h.symm, anc_of_skel h⟩

/-- the names `y` inherits are inherited by everything below `y` -/
def DownOK (ts : TypeSystem) (y : String) : Prop :=
  ∀ x, Anc ts y x → ∀ ty tx, find? ts y = some ty → find? ts x = some tx → ∀ n ∈ fnames ty.inh, n ∈ fnames tx.inh

/-- `push_spec` with `FeatInv` replaced by what it uses of it: `DownOK` inside the visited subtrees -/
theorem push_specW (ts0 : TypeSystem) (hc0 : Consistent ts0) (f : Feature)
    (fuel : Nat) (ts : TypeSystem) (cs : List String) :
    ∀ ts' a, skel ts = skel ts0 →
      (∀ c ∈ cs, ∃ tc, find? ts0 c = some tc ∧ tc.super = some a) → cs.Nodup →
      (∀ c ∈ cs, ∀ x, Anc ts0 c x → find? ts x = find? ts0 x) →
      (∀ c ∈ cs, ∀ y, Anc ts0 c y → DownOK ts0 y) →
      pushInherited f fuel ts cs = .ok ts' →
      (∀ x t, find? ts x = some t → ∃ t', find? ts' x = some t' ∧ PStep ts0 f cs x t t') ∧
      (∀ c ∈ cs, ∀ x, Anc ts0 c x → ∀ t', find? ts' x = some t' → f.name ∈ fnames t'.inh) := by
  fun_induction pushInherited f fuel ts cs with
  | case1 => intro ts' a _ _ _ _ _ h; cases h
  | case2 =>
    intro ts' a _ _ _ _ _ h; cases h
    exact ⟨fun x t hx => ⟨t, hx, Or.inl rfl⟩, fun c hc => by cases hc⟩
  | case3 fuel ts c cs hf ih =>
    intro ts' a _ hsib _ hunt _ h
    obtain ⟨tc, htc, _⟩ := hsib c List.mem_cons_self
    have := hunt c List.mem_cons_self c (Anc.refl c ((hasExact_iff_find ts0 c).mpr ⟨tc, htc⟩))
    rw [hf, htc] at this; cases this
  | case4 => intro ts' a _ _ _ _ _ h; cases h
  | case5 fuel ts c cs t hf hchk ih =>
    intro ts' a hsk hsib hnd hunt hdown h
    obtain ⟨tc, htc, hsc⟩ := hsib c List.mem_cons_self
    have hregc : hasExact ts0 c = true := (hasExact_iff_find ts0 c).mpr ⟨tc, htc⟩
    have etc : tc = t := by
      have := hunt c List.mem_cons_self c (Anc.refl c hregc)
      rw [hf, htc] at this; exact (Option.some.inj this).symm
    subst etc
    obtain ⟨Pb, Pc⟩ := ih ts' a hsk (fun c' hc' => hsib c' (List.mem_cons_of_mem _ hc'))
      (List.nodup_cons.mp hnd).2 (fun c' hc' => hunt c' (List.mem_cons_of_mem _ hc'))
      (fun c' hc' => hdown c' (List.mem_cons_of_mem _ hc')) h
    refine ⟨?_, ?_⟩
    · intro x t hx
      obtain ⟨t', ht', hst⟩ := Pb x t hx
      exact ⟨t', ht', hst.mono (fun c' hc' hcx => ⟨c', List.mem_cons_of_mem _ hc', hcx⟩)⟩
    · intro c' hc' x hcx t' ht'
      rcases List.mem_cons.mp hc' with rfl | hc'
      · obtain ⟨g, hg, hgn, hgf⟩ := addCheck_true_same hchk
        obtain ⟨tx, htx⟩ := (hasExact_iff_find ts0 x).mp hcx.right_reg
        have hxs : find? ts x = some tx := by
          rw [hunt c' List.mem_cons_self x hcx]; exact htx
        have hmem : f.name ∈ fnames tx.inh :=
          hdown c' List.mem_cons_self c' (Anc.refl c' hregc) x hcx tc tx htc htx f.name
            (by rw [← hgn]; exact mem_fnames_of_mem hg)
        obtain ⟨t'', ht'', hst⟩ := Pb x tx hxs
        rw [ht'] at ht''; cases ht''
        exact hst.inh_mem hmem
      · exact Pc c' hc' x hcx t' ht'
  | case6 fuel ts c cs t hf hchk ts1 ih2 ih1 =>
    intro ts' a hsk hsib hnd hunt hdown h
    obtain ⟨tc, htc, hsc⟩ := hsib c List.mem_cons_self
    have hregc : hasExact ts0 c = true := (hasExact_iff_find ts0 c).mpr ⟨tc, htc⟩
    have etc : tc = t := by
      have := hunt c List.mem_cons_self c (Anc.refl c hregc)
      rw [hf, htc] at this; exact (Option.some.inj this).symm
    subst etc
    have hfresh := addCheck_true_fresh hchk
    have hn : (ts.types.map (·.name)).Nodup := nodup_of_skel hsk hc0.nodup
    have htn : tc.name = c := find?_name hf
    have hsk1 : skel ts1 = skel ts := by
      apply skel_setRec ts _ tc hn
      · show find? ts tc.name = some tc
        rw [htn]; exact hf
      · rfl
    have hf1ne : ∀ x, x ≠ c → find? ts1 x = find? ts x := by
      intro x hx
      apply find?_setRec_ne
      show x ≠ tc.name
      rw [htn]; exact hx
    have hf1eq : find? ts1 c = some { tc with inh := tc.inh ++ [f] } :=
      find?_setRec_eq ts { tc with inh := tc.inh ++ [f] } tc htn hf
    have hcnot : c ∉ cs := (List.nodup_cons.mp hnd).1
    cases h2 : pushInherited f fuel ts1 tc.children with
    | error e => rw [h2] at h; cases h
    | ok ts2 =>
      rw [h2] at h
      have hchild : ∀ d ∈ tc.children, ∃ td, find? ts0 d = some td ∧ td.super = some c :=
        fun d hd => (hc0.link c d).mp ⟨tc, htc, hd⟩
      obtain ⟨P1b, P1c⟩ := ih2 ts2 c (hsk1.trans hsk) hchild (hc0.childNodup tc (find?_mem htc))
        (by
          intro d hd x hdx
          obtain ⟨td, htd, hsd⟩ := hchild d hd
          have hxc : x ≠ c := by
            intro e; subst e; exact not_anc_of_super hc0 htd hsd hdx
          rw [hf1ne x hxc]
          exact hunt c List.mem_cons_self x (Anc.of_child hregc htd hsd hdx))
        (by
          intro d hd y hdy
          obtain ⟨td, htd, hsd⟩ := hchild d hd
          exact hdown c List.mem_cons_self y (Anc.of_child hregc htd hsd hdy)) h2
      have hsk2 : skel ts2 = skel ts1 :=
        skel_pushInherited f fuel ts1 tc.children ts2 (nodup_of_skel hsk1 hn) h2
      obtain ⟨P2b, P2c⟩ := ih1 ts2 ts' a (hsk2.trans (hsk1.trans hsk))
        (fun c' hc' => hsib c' (List.mem_cons_of_mem _ hc')) (List.nodup_cons.mp hnd).2
        (by
          intro c2 hc2 x hx
          obtain ⟨t2, hfc2, hs2⟩ := hsib c2 (List.mem_cons_of_mem _ hc2)
          have hx0 := hunt c2 (List.mem_cons_of_mem _ hc2) x hx
          obtain ⟨tx, htx⟩ := (hasExact_iff_find ts0 x).mp hx.right_reg
          have hdis : ¬ Anc ts0 c x := by
            intro hcx
            have := children_disjoint hc0 hfc2 hs2 htc hsc hx hcx
            subst this; exact hcnot hc2
          have hxc : x ≠ c := by
            intro e; subst e; exact hdis (Anc.refl x hregc)
          have h1x : find? ts1 x = some tx := by rw [hf1ne x hxc, hx0, htx]
          obtain ⟨t', ht', hst⟩ := P1b x tx h1x
          rcases hst with rfl | ⟨_, _, d, hd, hdx⟩
          · rw [ht', htx]
          · obtain ⟨td, htd, hsd⟩ := hchild d hd
            exact absurd (Anc.of_child hregc htd hsd hdx) hdis)
        (fun c' hc' => hdown c' (List.mem_cons_of_mem _ hc')) h
      refine ⟨?_, ?_⟩
      · intro x tx hx
        have hs0 : ∃ t1, find? ts1 x = some t1 ∧ PStep ts0 f (c :: cs) x tx t1 := by
          by_cases hxc : x = c
          · subst hxc
            rw [hf] at hx; cases hx
            exact ⟨_, hf1eq, Or.inr ⟨rfl, hfresh, x, List.mem_cons_self, Anc.refl x hregc⟩⟩
          · exact ⟨tx, by rw [hf1ne x hxc]; exact hx, Or.inl rfl⟩
        obtain ⟨t1, ht1, hst0⟩ := hs0
        obtain ⟨t2, ht2, hst1⟩ := P1b x t1 ht1
        obtain ⟨t3, ht3, hst2⟩ := P2b x t2 ht2
        refine ⟨t3, ht3, (hst0.comp (hst1.mono ?_)).comp (hst2.mono ?_)⟩
        · intro d hd hdx
          obtain ⟨td, htd, hsd⟩ := hchild d hd
          exact ⟨c, List.mem_cons_self, Anc.of_child hregc htd hsd hdx⟩
        · intro c' hc' hcx
          exact ⟨c', List.mem_cons_of_mem _ hc', hcx⟩
      · intro c' hc' x hcx t' ht'
        rcases List.mem_cons.mp hc' with rfl | hc'
        · have h2x : ∃ t2, find? ts2 x = some t2 ∧ f.name ∈ fnames t2.inh := by
            rcases hcx.down with e | ⟨d, td, htd, hsd, hdx⟩
            · subst e
              obtain ⟨t2, ht2, hst1⟩ := P1b c' _ hf1eq
              refine ⟨t2, ht2, hst1.inh_mem ?_⟩
              simp [fnames]
            · have hd : d ∈ tc.children := by
                obtain ⟨ta, hta, hm⟩ := (hc0.link c' d).mpr ⟨td, htd, hsd⟩
                rw [htc] at hta; cases hta; exact hm
              have hreg2 : hasExact ts2 x = true := by
                rw [hasExact_transfer (hsk2.trans (hsk1.trans hsk))]; exact hcx.right_reg
              obtain ⟨t2, ht2⟩ := (hasExact_iff_find ts2 x).mp hreg2
              exact ⟨t2, ht2, P1c d hd x hdx t2 ht2⟩
          obtain ⟨t2, ht2, hm2⟩ := h2x
          obtain ⟨t3, ht3, hst2⟩ := P2b x t2 ht2
          rw [ht'] at ht3; cases ht3
          exact hst2.inh_mem hm2
        · exact P2c c' hc' x hcx t' ht'

end Cassis.TS
