/-
Helper lemmas for `Properties/C13FeatInv.lean`, part C: one `pushInherited f _ ts [r]` turns `WInv ts r L` into
`WInv ts' r (L ++ [f])`.
-/
import CassisModel.Proofs.MergeFeatInvB

namespace Cassis.TS

theorem wInv_of_pushTarget {ts0 ts' : TypeSystem} {r a : String} {L : List Feature} {f : Feature} {tr : TypeRec}
    (hc : Consistent ts0) (hf : WInv ts0 r L) (htr : find? ts0 r = some tr) (hsr : tr.super = some a)
    (hdc : subtreeClash ts0 r f = false) (hco : ∀ g ∈ L, g.name = f.name → featureEq g f = true)
    (hT : PushTarget ts0 r f ts') : WInv ts' r (L ++ [f]) := by
  have hreg : hasExact ts0 r = true := (hasExact_iff_find ts0 r).mpr ⟨tr, htr⟩
  have hself : Anc ts0 r r := Anc.refl r hreg
  have hn' : (ts'.types.map (·.name)).Nodup := nodup_of_skel hT.skel hc.nodup
  -- every record of `ts'` comes from a record of `ts0`
  have hback : ∀ t' ∈ ts'.types, ∃ t, find? ts0 t'.name = some t ∧ find? ts' t'.name = some t' ∧
      t.super = t'.super := by
    intro t' ht'
    have h1 := find?_of_mem hn' ht'
    obtain ⟨t, ht, he⟩ := find?_transfer hT.skel h1
    rw [tr_eq_iff] at he
    exact ⟨t, ht, h1, he.2.1⟩
  have hback_s : ∀ s ps', find? ts' s = some ps' → ∃ ps, find? ts0 s = some ps := by
    intro s ps' h
    obtain ⟨ps, hps, _⟩ := find?_transfer hT.skel h
    exact ⟨ps, hps⟩
  have noConf : ∀ {x : String} {tx : TypeRec} {g : Feature}, Anc ts0 r x → find? ts0 x = some tx → g ∈ tx.own →
      g.name = f.name → featureEq g f = true :=
    fun hax htx hg hgn => noClash_of hc hf.ownNodup hreg hdc hax htx hg hgn
  have own_eq : ∀ {x t t'}, find? ts0 x = some t → find? ts' x = some t' → t'.own = t.own := by
    intro x t t' hx hx'
    rcases hT.cases hx hx' with ⟨_, _, e⟩ | ⟨e, _⟩ <;> rw [e]
  have mem_inh : ∀ {x t t'}, find? ts0 x = some t → find? ts' x = some t' → ∀ g ∈ t'.inh,
      g ∈ t.inh ∨ (Anc ts0 r x ∧ f.name ∉ fnames t.inh ∧ g = f) := by
    intro x t t' hx hx' g hg
    rcases hT.cases hx hx' with ⟨h2, h3, e⟩ | ⟨e, _⟩
    · rw [e] at hg
      rcases List.mem_append.mp hg with h | h
      · exact Or.inl h
      · exact Or.inr ⟨h2, h3, by simpa using h⟩
    · rw [e] at hg; exact Or.inl hg
  have names_inh : ∀ {x t t'}, find? ts0 x = some t → find? ts' x = some t' → ∀ n,
      (n ∈ fnames t'.inh ↔ n ∈ fnames t.inh ∨ (Anc ts0 r x ∧ n = f.name)) := by
    intro x t t' hx hx' n
    rcases hT.cases hx hx' with ⟨h2, h3, e⟩ | ⟨e, h3⟩
    · rw [e]
      simp only [fnames_append, List.mem_append]
      constructor
      · rintro (h | h)
        · exact Or.inl h
        · exact Or.inr ⟨h2, by simpa [fnames] using h⟩
      · rintro (h | ⟨_, h⟩)
        · exact Or.inl h
        · exact Or.inr (by simp [fnames, h])
    · rw [e]
      constructor
      · intro h; exact Or.inl h
      · rintro (h | ⟨h, rfl⟩)
        · exact h
        · exact h3 h
  have names_eff : ∀ {x t t'}, find? ts0 x = some t → find? ts' x = some t' → ∀ n,
      ((n ∈ fnames t'.own ∨ n ∈ fnames t'.inh) ↔
        (n ∈ fnames t.own ∨ n ∈ fnames t.inh) ∨ (Anc ts0 r x ∧ n = f.name)) := by
    intro x t t' hx hx' n
    rw [own_eq hx hx', names_inh hx hx' n]
    constructor
    · rintro (h | h | h)
      · exact Or.inl (Or.inl h)
      · exact Or.inl (Or.inr h)
      · exact Or.inr h
    · rintro ((h | h) | h)
      · exact Or.inl h
      · exact Or.inr (Or.inl h)
      · exact Or.inr (Or.inr h)
  -- being strictly below `r` is being a child of something below-or-equal `r`
  have below_iff : ∀ {x s t}, find? ts0 x = some t → x ≠ r → t.super = some s →
      (Anc ts0 r x ↔ Anc ts0 r s) := by
    intro x s t hx hne hs
    constructor
    · intro ha
      rcases ha.inv hx with e | ⟨s', hs', h'⟩
      · exact absurd e.symm hne
      · rw [hs] at hs'; cases hs'; exact h'
    · intro ha
      exact Anc.step r x s t hx hs ha
  refine ⟨?_, ?_, ?_, ?_, ?_, ?_, ?_, ?_⟩
  · -- ownNodup
    intro t' ht'
    obtain ⟨t, hx, hx', _⟩ := hback t' ht'
    rw [own_eq hx hx']
    exact hf.ownNodup t (find?_mem hx)
  · -- inhNodup
    intro t' ht'
    obtain ⟨t, hx, hx', _⟩ := hback t' ht'
    have hold := hf.inhNodup t (find?_mem hx)
    rcases hT.cases hx hx' with ⟨_, h3, e⟩ | ⟨e, _⟩
    · rw [e]; exact fnames_nodup_snoc hold h3
    · rw [e]; exact hold
  · -- compat
    intro t' ht' f' hf' g hg e
    obtain ⟨t, hx, hx', _⟩ := hback t' ht'
    rw [own_eq hx hx'] at hf'
    rcases mem_inh hx hx' g hg with hgo | ⟨hax, _, rfl⟩
    · exact hf.compat t (find?_mem hx) f' hf' g hgo e
    · exact noConf hax hx hf' e
  · -- inherit
    intro t' ht' hnr s ps' hs hps' n
    obtain ⟨t, hx, hx', hsup⟩ := hback t' ht'
    obtain ⟨ps, hps⟩ := hback_s s ps' hps'
    have hs0 : t.super = some s := hsup.trans hs
    have hnr0 : t.name ≠ r := by rw [find?_name hx]; exact hnr
    rw [mem_fnames_allFeatures, names_inh hx hx' n, names_eff hps hps' n,
      hf.inherit' (find?_mem hx) hnr0 hs0 hps n, below_iff hx hnr hs0]
  · -- inheritEq
    intro t' ht' hnr s ps' hs hps' g hg f' hf' e
    obtain ⟨t, hx, hx', hsup⟩ := hback t' ht'
    obtain ⟨ps, hps⟩ := hback_s s ps' hps'
    have hs0 : t.super = some s := hsup.trans hs
    have hnr0 : t.name ≠ r := by rw [find?_name hx]; exact hnr
    have hb := below_iff hx hnr hs0
    have hinh := hf.inherit' (find?_mem hx) hnr0 hs0 hps
    have hieq := hf.inheritEq' (find?_mem hx) hnr0 hs0 hps
    -- where `f'` comes from
    have hf'cases : f' ∈ ps.own ++ ps.inh ∨ (f' = f ∧ Anc ts0 r s ∧ f.name ∉ fnames ps.inh) := by
      rcases List.mem_append.mp (allFeatures_sub hf') with h | h
      · rw [own_eq hps hps'] at h
        exact Or.inl (List.mem_append_left _ h)
      · rcases mem_inh hps hps' f' h with h | ⟨h2, h3, h4⟩
        · exact Or.inl (List.mem_append_right _ h)
        · exact Or.inr ⟨h4, h2, h3⟩
    rcases mem_inh hx hx' g hg with hgo | ⟨hax, hnot, rfl⟩
    · rcases hf'cases with hold | ⟨rfl, has, hcase⟩
      · exact hieq g hgo f' hold e
      · have hgn : f'.name ∈ fnames t.inh := e ▸ mem_fnames_of_mem hgo
        have hown : f'.name ∈ fnames ps.own := by
          rcases (hinh _).mp hgn with h | h
          · exact h
          · exact absurd h hcase
        obtain ⟨g0, hg0, hg0n⟩ := mem_fnames.mp hown
        have h1 : featureEq g0 f' = true := noConf has hps hg0 hg0n
        have h2 : featureEq g0 g = true := hieq g hgo g0 (List.mem_append_left _ hg0) (hg0n.trans e)
        exact featureEq_trans (featureEq_symm h1) h2
    · rcases hf'cases with hold | ⟨rfl, _, _⟩
      · exfalso
        apply hnot
        rw [hinh, ← List.mem_append, ← fnames_append, ← e]
        exact mem_fnames_of_mem hold
      · exact featureEq_refl _
  · -- rootInh
    intro t' ht' hs
    obtain ⟨t, hx, hx', hsup⟩ := hback t' ht'
    have hs0 : t.super = none := hsup.trans hs
    have hold := hf.rootInh t (find?_mem hx) hs0
    rcases hT.cases hx hx' with ⟨h2, _, _⟩ | ⟨e, _⟩
    · exfalso
      rcases h2.inv hx with e | ⟨s', hs', _⟩
      · rw [← e, htr] at hx; cases hx
        rw [hsr] at hs0; cases hs0
      · rw [hs0] at hs'; cases hs'
    · rw [e]; exact hold
  · -- top: names
    intro t' hx' n
    rw [names_inh htr hx' n, hf.top tr htr n]
    simp only [fnames_append, List.mem_append]
    constructor
    · rintro (h | ⟨_, h⟩)
      · exact Or.inl h
      · exact Or.inr (by simp [fnames, h])
    · rintro (h | h)
      · exact Or.inl h
      · exact Or.inr ⟨hself, by simpa [fnames] using h⟩
  · -- top: definitions
    intro t' hx' g hg f' hf' e
    rcases mem_inh htr hx' g hg with hgo | ⟨_, hnot, rfl⟩
    · rcases List.mem_append.mp hf' with h | h
      · exact hf.topEq tr htr g hgo f' h e
      · have ef : f' = f := by simpa using h
        subst ef
        have hgn : f'.name ∈ fnames L := by
          rw [← hf.top tr htr, e]; exact mem_fnames_of_mem hgo
        obtain ⟨g0, hg0, hg0n⟩ := mem_fnames.mp hgn
        have h1 := hco g0 hg0 hg0n
        have h2 := hf.topEq tr htr g hgo g0 hg0 (hg0n.trans e)
        exact featureEq_trans (featureEq_symm h1) h2
    · rcases List.mem_append.mp hf' with h | h
      · exfalso
        apply hnot
        rw [hf.top tr htr, ← e]
        exact mem_fnames_of_mem h
      · have ef : f' = g := by simpa using h
        rw [ef]; exact featureEq_refl _

end Cassis.TS
