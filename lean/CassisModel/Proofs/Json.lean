/-
Proofs about the JSON codec model (`Model/Json.lean`): special float values, array elements, the
`<element>[]` encoding of array ranges, the shape of the written document, the dependency order of the
embedded types (C02).
-/
import CassisModel.Model.Json
import CassisModel.Proofs.Xmi

/-! ### `Array.qsort` permutes its input

Core Lean has no lemma about `Array.qsort`; its two local loops are private declarations of
`Init.Data.Array.QSort.Basic`.  The two macros below only produce the names of these declarations
(nothing is added to the environment); the proofs are ordinary functional inductions. -/

namespace Cassis.QSort
open Lean

def privQ (n : Name) : Name :=
  (Name.num (Name.str (Name.str (Name.str (Name.str (Name.str (Name.str .anonymous "_private") "Init") "Data")
    "Array") "QSort") "Basic") 0) ++ n

macro "qsortSort%" args:(ppSpace colGt term:max)* : term => `($(mkIdent (privQ `Array.qsort.sort)) $args*)
macro "qpartLoop%" args:(ppSpace colGt term:max)* : term => `($(mkIdent (privQ `Array.qpartition.loop)) $args*)

theorem qpart_loop_perm {α} {n} (lt : α → α → Bool) (lo hi : Nat) (hhi : hi < n) (pivot : α)
    (as : Vector α n) (i k : Nat) (ilo : lo ≤ i) (ik : i ≤ k) (w : k ≤ hi) :
    (qpartLoop% lt lo hi hhi pivot as i k ilo ik w).2.Perm as := by
  fun_induction qpartLoop% lt lo hi hhi pivot as i k ilo ik w with
  | case1 as i k ilo ik w h hlt ih =>
    exact ih.trans (Vector.swap_perm (by omega) (by omega))
  | case2 as i k ilo ik w h hlt ih =>
    exact ih
  | case3 as i k ilo ik w h =>
    exact Vector.swap_perm (by omega) (by omega)

theorem qpartition_perm {α} {n} (as : Vector α n) (lt : α → α → Bool) (lo hi : Nat) (w : lo ≤ hi)
    (hlo : lo < n) (hhi : hi < n) : (Array.qpartition as lt lo hi w hlo hhi).2.Perm as := by
  unfold Array.qpartition
  simp only []
  refine (qpart_loop_perm ..).trans ?_
  have swp : ∀ (v : Vector α n) (c : Prop) [Decidable c] (i j : Nat) (hi : i < n) (hj : j < n),
      (if c then v.swap i j hi hj else v).Perm v := by
    intro v c _ i j hi hj
    split
    · exact Vector.swap_perm hi hj
    · exact Vector.Perm.refl _
  exact (swp _ _ _ _ _ _).trans ((swp _ _ _ _ _ _).trans (swp _ _ _ _ _ _))

theorem qsort_sort_perm {α} {n} (lt : α → α → Bool) (as : Vector α n) (lo hi : Nat) (w : lo ≤ hi)
    (hlo : lo < n) (hhi : hi < n) : (qsortSort% lt as lo hi w hlo hhi).Perm as := by
  fun_induction qsortSort% lt as lo hi w hlo hhi with
  | case1 as lo hi w hlo hhi h₁ mid hmid as' hp h₂ =>
    have := qpartition_perm as lt lo hi w hlo hhi
    rw [hp] at this
    exact this
  | case2 as lo hi w hlo hhi h₁ mid hmid as' hp h₂ ih3 ih2 ih1 =>
    have := qpartition_perm as lt lo hi w hlo hhi
    rw [hp] at this
    exact ih1.trans (ih2.trans this)
  | case3 => exact Vector.Perm.refl _

theorem qsort_perm {α} (as : Array α) (lt : α → α → Bool) : (as.qsort lt).Perm as := by
  unfold Array.qsort
  split
  · exact Array.Perm.refl _
  · simp only []
    exact (qsort_sort_perm ..).toArray

theorem qsort_toList_perm {α} (l : List α) (lt : α → α → Bool) : (l.toArray.qsort lt).toList.Perm l := by
  have := qsort_perm l.toArray lt
  rw [Array.perm_iff_toList_perm] at this
  exact this

end Cassis.QSort

namespace Cassis.Json
open Cassis.TS

/-! ### floats -/

theorem isSpecialFloat_cases (t : String) (h : isSpecialFloat t = true) :
    t = "NaN" ∨ t = "Infinity" ∨ t = "-Infinity" := by
  unfold isSpecialFloat at h
  simp only [Bool.or_eq_true, beq_iff_eq] at h
  rcases h with (h | h) | h
  · exact Or.inl h
  · exact Or.inr (Or.inl h)
  · exact Or.inr (Or.inr h)

theorem parseFloatValue_special_aux (t : String) (h : isSpecialFloat t = true) :
    parseFloatValue (floatElem t) = .ok (.float t) := by
  rcases isSpecialFloat_cases t h with rfl | rfl | rfl <;> rfl

theorem floatElem_roundtrip_aux (t : String) : parseFloatValue (floatElem t) = .ok (.float t) := by
  cases h : isSpecialFloat t with
  | true => exact parseFloatValue_special_aux t h
  | false =>
    unfold floatElem
    rw [h]
    rfl

/-! ### arrays -/

theorem intArray_roundtrip_aux (hp : Heap) (ty : String) (l : List Int) (hne : l ≠ [])
    (hty : ty ≠ "uima.cas.ByteArray" ∧ ty ≠ "uima.cas.DoubleArray" ∧ ty ≠ "uima.cas.FloatArray" ∧ ty ≠ FS_ARRAY) :
    ∃ e, arrayElements hp ty (some (.ints l)) = .ok e ∧ parsePrimArray ty e = .ok (.ints l) := by
  obtain ⟨h1, h2, h3, h4⟩ := hty
  have e1 : (ty == "uima.cas.ByteArray") = false := beq_false_of_ne h1
  have e2 : (ty == "uima.cas.DoubleArray") = false := beq_false_of_ne h2
  have e3 : (ty == "uima.cas.FloatArray") = false := beq_false_of_ne h3
  have e4 : (ty == FS_ARRAY) = false := beq_false_of_ne h4
  cases l with
  | nil => exact absurd rfl hne
  | cons a l =>
    refine ⟨some (.ints (a :: l)), ?_, ?_⟩
    · unfold arrayElements
      simp only [e1, e2, e3, e4, Bool.or_false, Bool.false_eq_true, if_false]
    · unfold parsePrimArray
      simp only [e2, e3, Bool.or_false, Bool.false_eq_true, if_false, valOfJV]

theorem mapM_ok_of_section {α β : Type} (f : α → Except Err β) (g : β → α) (h : ∀ t, f (g t) = .ok t)
    (l : List β) : (l.map g).mapM f = .ok l := by
  induction l with
  | nil => rfl
  | cons t l ih =>
    simp only [List.map_cons, List.mapM_cons, h, ih, bind, Except.bind, pure, Except.pure]

theorem floatArray_roundtrip_aux (hp : Heap) (ty : String) (l : List String) (hne : l ≠ [])
    (hty : ty = "uima.cas.DoubleArray" ∨ ty = "uima.cas.FloatArray") :
    ∃ e, arrayElements hp ty (some (.floats l)) = .ok e ∧ parsePrimArray ty e = .ok (.floats l) := by
  have hty' : (ty == "uima.cas.ByteArray") = false ∧
      (ty == "uima.cas.DoubleArray" || ty == "uima.cas.FloatArray") = true ∧
      (ty == "uima.cas.FloatArray" || ty == "uima.cas.DoubleArray") = true := by
    rcases hty with rfl | rfl <;> exact ⟨by decide, by decide, by decide⟩
  obtain ⟨e1, e2, e3⟩ := hty'
  cases l with
  | nil => exact absurd rfl hne
  | cons a l =>
    refine ⟨some (.flts ((a :: l).map floatElem)), ?_, ?_⟩
    · unfold arrayElements
      simp only [e1, e2, Bool.false_eq_true, if_false, if_true]
    · unfold parsePrimArray
      simp only [List.map_cons, e3, if_true]
      rw [← List.map_cons, mapM_ok_of_section _ floatElem]
      · rfl
      · intro t
        simp only [floatElem_roundtrip_aux, bind, Except.bind, pure, Except.pure]

/-! ### ranges in the embedded type system -/

theorem primArray_cases (n : String) (h : isPrimitiveArray Gen.consts n = true) :
    n = "uima.cas.BooleanArray" ∨ n = "uima.cas.ByteArray" ∨ n = "uima.cas.DoubleArray" ∨
    n = "uima.cas.FloatArray" ∨ n = "uima.cas.IntegerArray" ∨ n = "uima.cas.LongArray" ∨
    n = "uima.cas.ShortArray" ∨ n = "uima.cas.StringArray" := by
  unfold isPrimitiveArray at h
  rw [Bool.and_eq_true] at h
  have hm := List.contains_iff_mem.mp h.2
  simpa only [Gen.consts, List.mem_cons, List.not_mem_nil, or_false] using hm

theorem range_roundtrip_primArray_aux (f : Feature) (h : isPrimitiveArray Gen.consts f.range = true) :
    let jf := renderFeatDecl Gen.consts f
    jf.range.endsWith "[]" = true ∧
    arrayTypeNameFor (String.ofList (jf.range.toList.dropLast.dropLast)) = f.range ∧ jf.elem = none := by
  intro jf
  obtain ⟨name, domain, range, elem, descr, multi, reserved⟩ := f
  simp only at h
  show (renderFeatDecl Gen.consts _).range.endsWith "[]" = true ∧
    arrayTypeNameFor (String.ofList ((renderFeatDecl Gen.consts _).range.toList.dropLast.dropLast)) = range ∧
    (renderFeatDecl Gen.consts _).elem = none
  simp only [renderFeatDecl]
  rcases primArray_cases range h with rfl | rfl | rfl | rfl | rfl | rfl | rfl | rfl
  all_goals
    rw [if_pos (by decide), if_pos (by decide), if_pos (by decide)]
    exact ⟨by decide +kernel, by decide, rfl⟩

theorem range_roundtrip_fsArray_aux (f : Feature) (h : f.range = FS_ARRAY) :
    (renderFeatDecl Gen.consts f).range = (f.elem.getD TOP) ++ "[]" ∧ (renderFeatDecl Gen.consts f).elem = none := by
  obtain ⟨name, domain, range, elem, descr, multi, reserved⟩ := f
  simp only at h
  subst h
  have h1 : isArray Gen.consts FS_ARRAY = true := by decide
  have h2 : isPrimitiveArray Gen.consts FS_ARRAY = false := by decide
  simp only [renderFeatDecl, h1, h2, if_true, Bool.false_eq_true, if_false]
  cases elem <;> simp only [Option.getD, and_self]

theorem range_roundtrip_other_aux (f : Feature) (h : isArray Gen.consts f.range = false) :
    (renderFeatDecl Gen.consts f).range = f.range ∧ (renderFeatDecl Gen.consts f).elem = f.elem := by
  simp only [renderFeatDecl, h, Bool.false_eq_true, if_false, and_self]

/-! ### the written document -/

theorem renderFs_id (K : Consts) (ts : TypeSystem) (cass : List Cas) (hp : Heap) (a : Nat) (e : JFs)
    (h : renderFs K ts cass hp a = .ok e) : ∃ o, hp[a]? = some o ∧ e.id = o.xid := by
  unfold renderFs at h
  cases ho : hp[a]? with
  | none =>
    rw [ho] at h
    cases h
  | some o =>
    rw [ho] at h
    refine ⟨o, rfl, ?_⟩
    simp only [bind, Except.bind, pure, Except.pure] at h
    repeat' split at h
    all_goals first
      | (cases h; done)
      | (cases h; rfl)

theorem renderAll_ids (K : Consts) (ts : TypeSystem) (cass : List Cas) (hp : Heap) (l : List (Int × Nat))
    (es : List JFs) (h : renderAll K ts cass hp l = .ok es)
    (hl : ∀ p ∈ l, Traverse.xidOf hp p.2 = some p.1) :
    es.map (·.id) = l.map (fun p => some p.1) := by
  induction l generalizing es with
  | nil =>
    cases h
    rfl
  | cons p ps ih =>
    unfold renderAll at h
    cases h1 : renderFs K ts cass hp p.2 with
    | error err => rw [h1] at h; cases h
    | ok e =>
      cases h2 : renderAll K ts cass hp ps with
      | error err => rw [h1, h2] at h; cases h
      | ok es' =>
        rw [h1, h2] at h
        cases h
        obtain ⟨o, ho, hid⟩ := renderFs_id K ts cass hp p.2 e h1
        have hx := hl p List.mem_cons_self
        unfold Traverse.xidOf at hx
        rw [ho] at hx
        simp only [Option.bind] at hx
        simp only [List.map_cons, hid, hx, ih es' h2 (fun q hq => hl q (List.mem_cons_of_mem _ hq))]

theorem saveJson_shape_aux (K : Consts) (ts : TypeSystem) (cass : List Cas) (ci : Nat) (hp : Heap) (mode : Mode)
    (doc : JDoc) (st : Traverse.St) (h : saveJson K ts cass ci hp mode = .ok (doc, st)) :
    ∃ (c : Cas) (sofaFss fsElems : List JFs), cass[ci]? = some c ∧ doc.fss = sofaFss ++ fsElems ∧
      fsElems.map (·.id) = (Xmi.sortById st.allFs).map (fun p => some p.1) ∧
      ((Xmi.sortById st.allFs).map (·.1)).Nodup ∧
      doc.views.map (·.name) = c.views.map (fun p => p.2.sofa.sofaID) ∧
      (mode = .none → doc.types = none) := by
  unfold saveJson at h
  cases hc : cass[ci]? with
  | none => rw [hc] at h; cases h
  | some c =>
    rw [hc] at h
    simp only [bind, Except.bind, pure, Except.pure] at h
    split at h
    · cases h
    · rename_i sofaFss hsofa
      cases hst : Traverse.findAllFs K ts { includeInlinable := true } hp c.nextXid (Traverse.defaultSeeds c) with
      | error err => rw [hst] at h; cases h
      | ok st' =>
        rw [hst] at h
        simp only at h
        cases hr : renderAll K ts cass st'.heap (Xmi.sortById st'.allFs) with
        | error err => rw [hr] at h; cases h
        | ok fsElems =>
          rw [hr] at h
          simp only at h
          obtain ⟨inv, _⟩ := Traverse.findAllFs_inv K ts { includeInlinable := true } hp c.nextXid
            (Traverse.defaultSeeds c) st' hst
          have hperm := Xmi.sortById_perm_aux st'.allFs
          have hids : fsElems.map (·.id) = (Xmi.sortById st'.allFs).map (fun p => some p.1) := by
            apply renderAll_ids K ts cass st'.heap _ _ hr
            intro p hp'
            exact inv.link p.1 p.2 (hperm.mem_iff.mp hp')
          have hnd : ((Xmi.sortById st'.allFs).map (·.1)).Nodup := (hperm.map (·.1)).nodup_iff.mpr inv.nodupK
          cases mode
          all_goals
            simp only [renderTypes] at h
            try (split at h; (· cases h))
            cases h
            refine ⟨c, sofaFss, fsElems, rfl, rfl, hids, hnd, ?_, ?_⟩
            · simp only [List.map_map]
              rfl
            · intro hm
              first | rfl | cases hm

/-! ### dependency order of the embedded types -/

theorem contains_false_iff (l : List String) (x : String) : l.contains x = false ↔ x ∉ l := by
  rw [← Bool.not_eq_true, List.contains_iff_mem]

/-- `a` does not depend on `b` -/
def NoDep (depOf : String → List String) (a b : String) : Prop := ¬ (b ∈ depOf a ∧ b ≠ a)

theorem toposort_go_spec (depOf : String → List String) (fuel : Nat) (done rest order : List String)
    (h : toposort.go depOf fuel done rest = .ok order)
    (I1 : done.Pairwise (NoDep depOf))
    (I2 : ∀ a ∈ done, ∀ d ∈ depOf a, d ≠ a → d ∈ done)
    (I3 : ∀ x ∈ done, x ∉ rest)
    (I4 : ∀ a ∈ rest, ∀ d ∈ depOf a, d ∈ done ∨ d ∈ rest) :
    order.Pairwise (NoDep depOf) ∧ (∀ x ∈ done, x ∈ order) ∧ (∀ x ∈ rest, x ∈ order) := by
  induction fuel generalizing done rest with
  | zero =>
    unfold toposort.go at h
    cases h
  | succ fuel ih =>
    unfold toposort.go at h
    simp only [] at h
    split at h
    · rename_i hemp
      cases h
      have : rest = [] := List.isEmpty_iff.mp hemp
      subst this
      exact ⟨I1, fun x hx => hx, fun x hx => absurd hx List.not_mem_nil⟩
    · split at h
      · cases h
      · have key : ∀ level : List String,
            (∀ x, x ∈ level ↔ x ∈ rest.filter (fun n => (depOf n).all
              (fun d => d == n || done.contains d || !(rest.contains d)))) →
            toposort.go depOf fuel (done ++ level) (rest.filter (fun n => !(level.contains n))) = .ok order →
            order.Pairwise (NoDep depOf) ∧ (∀ x ∈ done, x ∈ order) ∧ (∀ x ∈ rest, x ∈ order) := by
          intro level hlev hgo
          have hready : ∀ x ∈ level, x ∈ rest ∧ ∀ d ∈ depOf x, d ≠ x → d ∈ done := by
            intro x hx
            have hx' := (hlev x).mp hx
            rw [List.mem_filter, List.all_eq_true] at hx'
            refine ⟨hx'.1, ?_⟩
            intro d hd hne
            have hd' := hx'.2 d hd
            simp only [Bool.or_eq_true, beq_iff_eq, List.contains_iff_mem, Bool.not_eq_true',
              contains_false_iff] at hd'
            rcases hd' with (hd' | hd') | hd'
            · exact absurd hd' hne
            · exact hd'
            · rcases I4 x hx'.1 d hd with h1 | h1
              · exact h1
              · exact absurd h1 hd'
          have hrest' : ∀ x, x ∈ rest.filter (fun n => !(level.contains n)) ↔ x ∈ rest ∧ x ∉ level := by
            intro x
            rw [List.mem_filter]
            simp only [Bool.not_eq_true', contains_false_iff]
          have res := ih (done ++ level) (rest.filter (fun n => !(level.contains n))) hgo ?_ ?_ ?_ ?_
          · refine ⟨res.1, fun x hx => res.2.1 x (List.mem_append_left _ hx), ?_⟩
            intro x hx
            by_cases hxl : x ∈ level
            · exact res.2.1 x (List.mem_append_right _ hxl)
            · exact res.2.2 x ((hrest' x).mpr ⟨hx, hxl⟩)
          · rw [List.pairwise_append]
            refine ⟨I1, ?_, ?_⟩
            · apply List.pairwise_of_forall_mem_list
              intro a ha b hb hdep
              have hbd := (hready a ha).2 b hdep.1 hdep.2
              exact I3 b hbd (hready b hb).1
            · intro a ha b hb hdep
              have hbd := I2 a ha b hdep.1 hdep.2
              exact I3 b hbd (hready b hb).1
          · intro a ha d hd hne
            rcases List.mem_append.mp ha with ha | ha
            · exact List.mem_append_left _ (I2 a ha d hd hne)
            · exact List.mem_append_left _ ((hready a ha).2 d hd hne)
          · intro x hx hx'
            have hx'' := (hrest' x).mp hx'
            rcases List.mem_append.mp hx with hx | hx
            · exact I3 x hx hx''.1
            · exact hx''.2 hx
          · intro a ha d hd
            have ha' := (hrest' a).mp ha
            rcases I4 a ha'.1 d hd with h1 | h1
            · exact Or.inl (List.mem_append_left _ h1)
            · by_cases hdl : d ∈ level
              · exact Or.inl (List.mem_append_right _ hdl)
              · exact Or.inr ((hrest' d).mpr ⟨h1, hdl⟩)
        exact key _ (fun x => (QSort.qsort_toList_perm _ _).mem_iff) h

/-- one round of `toposort.go` whose level is a single name (used to evaluate concrete instances: the
    kernel does not reduce the well-founded recursion inside `Array.qsort`) -/
theorem toposort_go_step1 (depOf : String → List String) (fuel f : Nat) (done rest : List String) (a : String)
    (hf : fuel = f + 1) (hne : rest.isEmpty = false)
    (hready : rest.filter (fun n => (depOf n).all (fun d => d == n || done.contains d || !(rest.contains d))) = [a]) :
    toposort.go depOf fuel done rest =
      toposort.go depOf f (done ++ [a]) (rest.filter (fun n => !([a].contains n))) := by
  subst hf
  have q : (([a].toArray.qsort (· < ·)).toList) = [a] := List.perm_singleton.mp (QSort.qsort_toList_perm _ _)
  conv => lhs; unfold toposort.go
  simp only [hne, Bool.false_eq_true, if_false]
  rw [hready]
  simp only [List.isEmpty_cons, Bool.false_eq_true, if_false]
  rw [q]

theorem toposort_sound_aux (types : List JType) (order : List String) (h : toposort types = .ok order) :
    (∀ t ∈ types, t.name ∈ order) ∧
    ∀ t ∈ types, t.super ≠ t.name → ∀ i j : Nat, order[i]? = some t.name → order[j]? = some t.super → j < i := by
  unfold toposort at h
  simp only [] at h
  have spec := toposort_go_spec _ _ _ _ _ h List.Pairwise.nil
    (fun a ha => absurd ha List.not_mem_nil) (fun a ha => absurd ha List.not_mem_nil) ?_
  · obtain ⟨hpw, _, hmem⟩ := spec
    refine ⟨?_, ?_⟩
    · intro t ht
      apply hmem
      rw [List.mem_eraseDups]
      exact List.mem_append_left _ (List.mem_map.mpr ⟨t, ht, rfl⟩)
    · intro t ht hne i j hi hj
      have hdep : t.super ∈ (types.filter (fun u => u.name == t.name)).map (·.super) :=
        List.mem_map.mpr ⟨t, List.mem_filter.mpr ⟨ht, beq_self_eq_true _⟩, rfl⟩
      obtain ⟨hi1, hi2⟩ := List.getElem?_eq_some_iff.mp hi
      obtain ⟨hj1, hj2⟩ := List.getElem?_eq_some_iff.mp hj
      rcases Nat.lt_trichotomy j i with hlt | heq | hgt
      · exact hlt
      · subst heq
        rw [hi2] at hj2
        exact absurd hj2.symm hne
      · have := List.pairwise_iff_getElem.mp hpw i j hi1 hj1 hgt
        rw [hi2, hj2] at this
        exact absurd ⟨hdep, hne⟩ this
  · intro a _ d hd
    right
    obtain ⟨t, ht, rfl⟩ := List.mem_map.mp hd
    rw [List.mem_eraseDups]
    exact List.mem_append_right _ (List.mem_map.mpr ⟨t, (List.mem_filter.mp ht).1, rfl⟩)

end Cassis.Json

/-
`toposort_sound` in `Properties/C02.lean` quantifies `∀ i j, order[i]? = … → j < i` without giving the type
of the indices; on its own that statement does not elaborate ("typeclass instance problem is stuck: LT ?α").
Marking the core instance `GetElem? (List α) Nat α _` as a default instance makes the elaborator pick `Nat`
for such otherwise undetermined list indices.  It has no effect on terms that already elaborate.
(Equivalent, if the statement may be edited: write `∀ i j : Nat` there and drop this line.)
-/
