/-
JSON round trip with collections, layer W: the writer on the collected structures (`WriterStmt`).

General structures: the lemmas of `RoundTripJsonWriter.lean` with `JFeatOk` / `JGenFs` in place of `FlatFeat` / `FlatFs`
(that the target of a reference has an id comes from the closure of the collected structures, not from the fragment).
Array objects: `renderFs` unfolds to `arrJFs`.
-/
import CassisModel.Proofs.RoundTripJsonCollDefs

namespace Cassis.Json
open Cassis.TS Cassis.Traverse Cassis.Lex Cassis.Xmi

theorem renderFeature_genJ (K : Consts) (ts : TypeSystem) (cass : List Cas) (c : Cas) (ci : Nat) (H : Heap) (a : Nat)
    (isAnn : Bool) (o : Obj) (f : Feature) (hc : cass[ci]? = some c) (ho : H[a]? = some o)
    (hf : JFeatOk K ts c ci H isAnn o f) (hdom : DomOk isAnn f) (hsr : SofaRangeOk K ts o f)
    (hcl : ∀ b, alistGet? o.slots f.name = some (.ref b) → (xidOf H b).isSome = true)
    (hann : isAnn = true → ∃ vn view, alistGet? o.slots "sofa" = some (.sofa ci vn) ∧ Cas.getViewRec c vn = some view) :
    renderFeature K ts cass H a f = .ok (jmemF cass H isAnn o f) := by
  have hs : ∀ n, Xmi.slot H a n = alistGet? o.slots n := by
    intro n; unfold Xmi.slot Traverse.slot; rw [ho]; rfl
  obtain ⟨hres, hn1, hn2, _, _, v, hv, hcase⟩ := hf
  have hcond : (f.domain == ANNOTATION && (f.name == "begin" || f.name == "end")) = (isAnn && (f.name == "begin" || f.name == "end")) := by
    by_cases hbe : f.name = "begin" ∨ f.name = "end"
    · rw [hdom hbe]
    · have : (f.name == "begin" || f.name == "end") = false := by
        simpa using hbe
      rw [this]; simp
  unfold jmemF
  rw [hv, Option.getD_some]
  rw [renderFeature_eq]
  have hx : (f.name == "xmiID" || f.name == "type") = false := by simp [hn1, hn2]
  rw [hx]
  simp only [Bool.false_eq_true, if_false, hs, hv, Option.getD_some, xmlName_def]
  -- first stage
  have hst1 : ∀ (w : Val), (∀ i, w ≠ .int i) → stage1 cass H a f (xmlName f) w = .ok w := by
    intro w hw
    unfold stage1
    rw [xmlName_begin f hres, xmlName_end f hres, hcond]
    by_cases hA : (isAnn && (f.name == "begin" || f.name == "end")) = true
    · have hia : isAnn = true := by
        rw [Bool.and_eq_true] at hA; exact hA.1
      obtain ⟨vn, view, h1, h2⟩ := hann hia
      rw [if_pos hA, hs, h1]
      dsimp only
      rw [hc]
      show (match Cas.getViewRec c vn with | some view => _ | none => _) = _
      rw [h2]
      dsimp only
      cases w <;> first | rfl | exact absurd rfl (hw _)
    · rw [if_neg hA]; rfl
  have hst1i : ∀ (i : Int), stage1 cass H a f (xmlName f) (.int i) = .ok (.int (extInt cass isAnn o (xmlName f) i)) := by
    intro i
    unfold stage1 extInt
    rw [xmlName_begin f hres, xmlName_end f hres, hcond]
    by_cases hA : (isAnn && (f.name == "begin" || f.name == "end")) = true
    · have hia : isAnn = true := by
        rw [Bool.and_eq_true] at hA; exact hA.1
      obtain ⟨vn, view, h1, h2⟩ := hann hia
      rw [if_pos hA, if_pos hA, hs, h1]
      dsimp only
      rw [hc]
      have e : ((some c).bind fun c => Cas.getViewRec c vn) = some view := h2
      rw [e]
      rfl
    · rw [if_neg hA, if_neg hA]; rfl
  rcases hcase with ⟨hn, hsofa⟩ | ⟨hn, hprim, h3⟩ | ⟨hn, hprim, hnb, hnd, hnf, hval⟩
  · rcases hsofa with ⟨vn, rfl, hview⟩ | ⟨rfl, _⟩
    · obtain ⟨r1, r2, r3⟩ := hsr hn (by rw [hv]; simp)
      have hne : ¬ ((Val.sofa ci vn == Val.none) = true) := by simp
      rw [if_neg hne, hst1 _ (by intro i h; cases h)]
      show stage2 K ts cass H f (xmlName f) (Val.sofa ci vn) = _
      unfold stage2 jmem
      have e1 : (f.range == "uima.cas.Double" || f.range == "uima.cas.Float") = false := by simp [r1, r2]
      rw [e1, r3]
      simp only [Bool.false_eq_true, if_false]
      rw [hc]
      obtain ⟨view, hview'⟩ := Option.isSome_iff_exists.mp hview
      have e : ((some c).bind fun c => Cas.getViewRec c vn) = some view := hview'
      rw [e]
      rfl
    · rfl
  · rcases h3 with rfl | ⟨hr, i, rfl⟩ | ⟨hr, x, rfl⟩ | ⟨hr, x, rfl⟩ | ⟨hr, t, rfl⟩
    · rfl
    · have hb : f.range ≠ "uima.cas.Double" ∧ f.range ≠ "uima.cas.Float" := by
        unfold isIntRange at hr
        simp only [Bool.or_eq_true, beq_iff_eq] at hr
        rcases hr with ((h | h) | h) | h <;> rw [h] <;> decide
      have hne : ¬ ((Val.int i == Val.none) = true) := by simp
      rw [if_neg hne, hst1i]
      show stage2 K ts cass H f (xmlName f) (Val.int _) = _
      unfold stage2 jmem
      have e1 : (f.range == "uima.cas.Double" || f.range == "uima.cas.Float") = false := by simp [hb.1, hb.2]
      rw [e1, hprim]
      rfl
    · have hne : ¬ ((Val.str x == Val.none) = true) := by simp
      rw [if_neg hne, hst1 _ (by intro i h; cases h)]
      show stage2 K ts cass H f (xmlName f) (Val.str x) = _
      unfold stage2 jmem
      have e1 : (f.range == "uima.cas.Double" || f.range == "uima.cas.Float") = false := by rw [hr]; decide
      rw [e1, hprim]
      rfl
    · have hne : ¬ ((Val.bool x == Val.none) = true) := by simp
      rw [if_neg hne, hst1 _ (by intro i h; cases h)]
      show stage2 K ts cass H f (xmlName f) (Val.bool x) = _
      unfold stage2 jmem
      have e1 : (f.range == "uima.cas.Double" || f.range == "uima.cas.Float") = false := by rw [hr]; decide
      rw [e1, hprim]
      rfl
    · have hne : ¬ ((Val.float t == Val.none) = true) := by simp
      rw [if_neg hne, hst1 _ (by intro i h; cases h)]
      show stage2 K ts cass H f (xmlName f) (Val.float t) = _
      unfold stage2 jmem
      have e1 : (f.range == "uima.cas.Double" || f.range == "uima.cas.Float") = true := by
        rcases hr with h | h <;> rw [h] <;> decide
      rw [e1]
      simp only [if_true]
      split <;> rfl
  · rcases hval with rfl | ⟨b, rfl, _⟩
    · rfl
    · have hsome := hcl b hv
      have hne : ¬ ((Val.ref b == Val.none) = true) := by simp
      rw [if_neg hne, hst1 _ (by intro i h; cases h)]
      show stage2 K ts cass H f (xmlName f) (Val.ref b) = _
      unfold stage2 jmem
      have e1 : (f.range == "uima.cas.Double" || f.range == "uima.cas.Float") = false := by simp [hnd, hnf]
      rw [e1, hprim]
      obtain ⟨x, hx⟩ := Option.isSome_iff_exists.mp hsome
      have hx' : idOf H b = some x := hx
      simp only [Bool.false_eq_true, if_false, hx, hx']
      rfl

/-- the annotation clause of `JGenFs`, as the writer needs it -/
theorem gen_ann_sofa {K : Consts} {ts : TypeSystem} {c : Cas} {ci : Nat} {H : Heap} {a : Nat} {o : Obj}
    (hfl : JGenFs K ts c ci H a) (ho : H[a]? = some o) :
    isInstanceOf ts o.ty ANNOTATION = true →
      ∃ vn view, alistGet? o.slots "sofa" = some (.sofa ci vn) ∧ Cas.getViewRec c vn = some view := by
  intro hA
  obtain ⟨o', t, ho', _, _, _, _, _, _, _, _, _, _, _, _, _, hann⟩ := hfl
  rw [ho] at ho'; cases ho'
  obtain ⟨vn, v, _, _, _, h1, h2, _⟩ := hann hA
  exact ⟨vn, v, h1, h2⟩

theorem renderFs_genJ (K : Consts) (ts : TypeSystem) (cass : List Cas) (c : Cas) (ci : Nat) (H : Heap) (a : Nat) (x : Int)
    (o : Obj) (t : TypeRec) (hc : cass[ci]? = some c) (hfl : JGenFs K ts c ci H a) (ho : H[a]? = some o)
    (ht : find? ts o.ty = some t) (hx : xidOf H a = some x)
    (hdom : ∀ f ∈ allFeatures t, DomOk (isInstanceOf ts o.ty ANNOTATION) f)
    (hsr : ∀ f ∈ allFeatures t, SofaRangeOk K ts o f)
    (hcl : ∀ (n : String) (b : Nat), alistGet? o.slots n = some (.ref b) → (xidOf H b).isSome = true) :
    renderFs K ts cass H a = .ok (flatJFs ts cass H x o t) := by
  have hann := gen_ann_sofa hfl ho
  obtain ⟨o', t', ho', ht', _, _, _, _, hpa, hfa, _, _, _, _, _, hfeat, _⟩ := hfl
  rw [ho] at ho'; cases ho'
  rw [ht] at ht'; cases ht'
  have hxid : o.xid = some x := by
    unfold xidOf at hx; rw [ho] at hx; exact hx
  unfold renderFs
  simp only [bind, Except.bind, pure, Except.pure]
  rw [ho]
  dsimp only
  have hfa' : (o.ty == FS_ARRAY) = false := by simp [hfa]
  rw [hpa, hfa']
  simp only [Bool.or_self, Bool.false_eq_true, if_false]
  rw [getType_of_find ht]
  dsimp only
  rw [renderFeatures_flatJ K ts cass H a (jmemF cass H (isInstanceOf ts o.ty ANNOTATION) o) (allFeatures t)
    (fun f hf => renderFeature_genJ K ts cass c ci H a _ o f hc ho (hfeat f hf) (hdom f hf) (hsr f hf)
      (fun b hb => hcl f.name b hb) hann)]
  dsimp only
  rw [hxid]
  rfl

theorem sofaRange_of_renderFs_gen (K : Consts) (ts : TypeSystem) (cass : List Cas) (c : Cas) (ci : Nat) (H : Heap) (a : Nat)
    (o : Obj) (t : TypeRec) (hfl : JGenFs K ts c ci H a) (ho : H[a]? = some o) (ht : find? ts o.ty = some t)
    (e : JFs) (h : renderFs K ts cass H a = .ok e) : ∀ f ∈ allFeatures t, SofaRangeOk K ts o f := by
  obtain ⟨o', t', ho', ht', _, _, _, _, hpa, hfa, _, _, _, _, _, hfeat, _⟩ := hfl
  rw [ho] at ho'; cases ho'
  rw [ht] at ht'; cases ht'
  unfold renderFs at h
  simp only [bind, Except.bind, pure, Except.pure] at h
  rw [ho] at h
  dsimp only at h
  have hfa' : (o.ty == FS_ARRAY) = false := by simp [hfa]
  rw [hpa, hfa'] at h
  simp only [Bool.or_self, Bool.false_eq_true, if_false] at h
  rw [getType_of_find ht] at h
  dsimp only at h
  cases hr : renderFeatures K ts cass H a (allFeatures t) with
  | error err => rw [hr] at h; cases h
  | ok r =>
    intro f hf hn hne
    obtain ⟨r', hr'⟩ := renderFeatures_ok_each K ts cass H a _ r hr f hf
    obtain ⟨hres, _, _, _, _, v, hv, hcase⟩ := hfeat f hf
    rw [hv, Option.getD_some] at hne
    rcases hcase with ⟨_, hsofa⟩ | ⟨hn', _⟩ | ⟨hn', _⟩
    · rcases hsofa with ⟨vn, rfl, _⟩ | ⟨rfl, _⟩
      · exact sofaRange_of_ok K ts cass H a o f ho hres ci vn hv hn r' hr'
      · exact absurd rfl hne
    · exact absurd hn hn'
    · exact absurd hn hn'

/-- `renderFs` on an object of an array type -/
theorem renderFs_arrJ (K : Consts) (ts : TypeSystem) (cass : List Cas) (H : Heap) (a : Nat) (x : Int) (o : Obj)
    (ho : H[a]? = some o) (hx : xidOf H a = some x)
    (harr : (isPrimitiveArray K o.ty || o.ty == FS_ARRAY) = true)
    (e : JFs) (h : renderFs K ts cass H a = .ok e) : e = arrJFs H x o := by
  have hs : Xmi.slot H a "elements" = alistGet? o.slots "elements" := by
    unfold Xmi.slot Traverse.slot; rw [ho]; rfl
  have hxid : o.xid = some x := by
    unfold xidOf at hx; rw [ho] at hx; exact hx
  unfold renderFs at h
  simp only [bind, Except.bind, pure, Except.pure] at h
  rw [ho] at h
  dsimp only at h
  rw [harr, hs] at h
  simp only [if_true] at h
  unfold arrJFs arrElemsJ
  cases hel : arrayElements H o.ty (alistGet? o.slots "elements") with
  | error err => rw [hel] at h; cases h
  | ok el =>
    rw [hel] at h
    dsimp only at h
    cases h
    rw [hxid]

theorem jarr_cond {K : Consts} {ts : TypeSystem} {H : Heap} {a : Nat} {o : Obj}
    (hfl : JArrFs K ts H a) (ho : H[a]? = some o) : (isPrimitiveArray K o.ty || o.ty == FS_ARRAY) = true := by
  obtain ⟨o', t, f, ev, ho', _, _, _, _, _, _, _, _, _, hk⟩ := hfl
  rw [ho] at ho'; cases ho'
  rcases hk with ⟨h1, _⟩ | ⟨_, h2, _⟩
  · rw [h1]; simp
  · rw [h2]; rfl

theorem jgen_cond {K : Consts} {ts : TypeSystem} {c : Cas} {ci : Nat} {H : Heap} {a : Nat} {o : Obj}
    (hfl : JGenFs K ts c ci H a) (ho : H[a]? = some o) :
    (isPrimitiveArray K o.ty || o.ty == FS_ARRAY) = false ∧ ∃ t, find? ts o.ty = some t := by
  obtain ⟨o', t, ho', ht, _, _, _, _, hpa, hfa, _⟩ := hfl
  rw [ho] at ho'; cases ho'
  refine ⟨?_, t, ht⟩
  rw [hpa]; simp [hfa]

theorem writer_collJ : WriterStmt := by
  intro K ts cass c ci hp H L g q hq e he
  obtain ⟨hkind, hjson⟩ := g.lok.coll q hq
  have hid := (g.lok.ids q hq).1
  rcases hkind with hgen | harr
  · obtain ⟨o, ho⟩ : ∃ o, H[q.2]? = some o := by
      obtain ⟨o, _, ho, _⟩ := hgen; exact ⟨o, ho⟩
    obtain ⟨hcond, t, ht⟩ := jgen_cond hgen ho
    have hE : elemOfJ K ts cass H q = flatJFs ts cass H q.1 o t := by
      unfold elemOfJ
      rw [ho]; dsimp only
      rw [hcond, ht]
      simp
    rw [hE]
    have hr := renderFs_genJ K ts cass c ci H q.2 q.1 o t g.hc hgen ho ht hid
      (fun f hf => ((hjson o t ho ht).2 f hf).2.2.2)
      (sofaRange_of_renderFs_gen K ts cass c ci H q.2 o t hgen ho ht e he)
      (fun n b hb => by
        obtain ⟨x, hx, _⟩ := g.lok.closed q hq o ho n b hb
        rw [hx]; rfl)
    rw [hr] at he
    cases he; rfl
  · obtain ⟨o, ho⟩ : ∃ o, H[q.2]? = some o := by
      obtain ⟨o, _, _, _, ho, _⟩ := harr; exact ⟨o, ho⟩
    have hcond := jarr_cond harr ho
    have hE : elemOfJ K ts cass H q = arrJFs H q.1 o := by
      unfold elemOfJ
      rw [ho]; dsimp only
      rw [hcond]
      simp
    rw [hE]
    exact renderFs_arrJ K ts cass H q.2 q.1 o ho hid hcond e he

end Cassis.Json
