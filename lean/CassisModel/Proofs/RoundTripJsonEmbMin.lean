/-
Proofs of the MINIMAL half of `Properties/C02RoundTripEmbedded.lean`: the JSON round trip with an embedded MINIMAL type
system, from the composition step (`json_roundtrip_embedded_*_of_agree_aux`) and `json_minimal_ts_agree_aux`
(`Proofs/EmbeddedTsMinC.lean`).
-/
import CassisModel.Proofs.EmbeddedTsMinC

namespace Cassis.Json
open Cassis.TS Cassis.Traverse Cassis.Xmi

/-- **JSON round trip with the embedded MINIMAL type system, flat fragment** -/
theorem json_roundtrip_minimal_flat_aux (ops : List TsOp) (ts : TypeSystem)
    (hts : ts = ops.foldl (applyOp Gen.consts) Gen.builtinTS)
    (hu : UserOnly Gen.consts ops ∧ ∀ op ∈ ops, match op with
      | .createFeature dom _ _ _ _ _ => dom ≠ DOCUMENT_ANNOTATION
      | .createType _ _ _ => True)
    (hw : Writable Gen.consts ts) (hpc : NoPercentNames ts)
    (cass : List Cas) (ci : Nat) (c : Cas) (hp : Heap) (tsIdx ci' : Nat) (doc : JDoc) (st : St)
    (hc : cass[ci]? = some c) (hwf : RTWf c hp)
    (hsave : saveJson Gen.consts ts cass ci hp .minimal = .ok (doc, st))
    (hflat : ∀ q ∈ st.allFs, FlatFs Gen.consts ts c ci st.heap q.2)
    (hjson : ∀ q ∈ st.allFs, JsonFs ts st.heap q.2)
    (hids : ∀ nv ∈ c.views, ∀ e ∈ Index.all nv.2.idx, (xidOf hp e.oid).isSome = true)
    (hdis : ∀ q ∈ st.allFs, ∀ nv ∈ c.views, q.1 ≠ nv.2.sofa.xid)
    (hmem : ∀ nv ∈ c.views, ∀ e ∈ Index.all nv.2.idx, Xmi.slot st.heap e.oid "sofa" ≠ some .none)
    (hmok : MembersOk c st.heap) :
    ∃ (ld : Loaded) (fss : List (Int × Val)),
      loadJson Gen.consts Gen.builtinTS tsIdx ci' false true st.heap doc = .ok ld ∧
      (∀ j ∈ doc.fss, TypeAgree ts ld.ts (fsTypeName j)) ∧
      (∀ q ∈ st.allFs, ∃ (a' : Nat) (o o' : Obj), lookup fss q.1 = some (.ref a') ∧
          st.heap[q.2]? = some o ∧ ld.heap[a']? = some o' ∧ o'.ty = o.ty ∧ o'.xid = some q.1 ∧
          ∀ t : TypeRec, find? ts o.ty = some t → ∀ f ∈ allFeatures t,
            featContent ld.heap a' f.name = featContent st.heap q.2 f.name) ∧
      (∀ p ∈ fss, (∃ q ∈ st.allFs, q.1 = p.1) ∨ (∃ nv ∈ c.views, nv.2.sofa.xid = p.1)) ∧
      ld.cas.views.map (viewContent ld.heap) = c.views.map (viewContent st.heap) ∧
      (∀ q ∈ st.allFs, q.1 < ld.cas.nextXid) ∧
      (∀ nv ∈ c.views, nv.2.sofa.xid < ld.cas.nextXid ∧ nv.2.sofa.sofaNum < ld.cas.nextSofaNum) := by
  subst hts
  have hreg : ∀ q ∈ st.allFs, ∀ ob : Obj, st.heap[q.2]? = some ob →
      (find? (ops.foldl (applyOp Gen.consts) Gen.builtinTS) ob.ty).isSome = true ∧ ob.ty.endsWith "[]" = false := by
    intro q hq ob hob
    obtain ⟨o, t, ho, ht, _⟩ := hflat q hq
    rw [hob] at ho; cases ho
    exact ⟨by rw [ht]; rfl, (hjson q hq ob t hob ht).1⟩
  obtain ⟨ts', hlts, _, hag⟩ := json_minimal_ts_agree_aux ops hu hw hpc cass ci c hp doc st hc
    (fun nv hnv => (hwf.text_sofa nv hnv).1) hsave hreg
  obtain ⟨ld, fss, hl, hlt, H⟩ := json_roundtrip_embedded_flat_of_agree_aux Gen.consts _ Gen.builtinTS ts' .minimal
    cass ci c hp tsIdx ci' doc st hc hwf hsave hlts hag hflat hjson hids hdis hmem hmok
  exact ⟨ld, fss, hl, by rw [hlt]; exact hag, H⟩

/-- **JSON round trip with the embedded MINIMAL type system, collections included** -/
theorem json_roundtrip_minimal_coll_aux (ops : List TsOp) (ts : TypeSystem)
    (hts : ts = ops.foldl (applyOp Gen.consts) Gen.builtinTS)
    (hu : UserOnly Gen.consts ops ∧ ∀ op ∈ ops, match op with
      | .createFeature dom _ _ _ _ _ => dom ≠ DOCUMENT_ANNOTATION
      | .createType _ _ _ => True)
    (hw : Writable Gen.consts ts) (hpc : NoPercentNames ts)
    (cass : List Cas) (ci : Nat) (c : Cas) (hp : Heap) (tsIdx ci' : Nat) (doc : JDoc) (st : St)
    (hc : cass[ci]? = some c) (hwf : RTWf c hp)
    (hsave : saveJson Gen.consts ts cass ci hp .minimal = .ok (doc, st))
    (hcoll : ∀ q ∈ st.allFs, JCollFs Gen.consts ts c ci st.heap q.2)
    (hids : ∀ nv ∈ c.views, ∀ e ∈ Index.all nv.2.idx, (xidOf hp e.oid).isSome = true)
    (hdis : ∀ q ∈ st.allFs, ∀ nv ∈ c.views, q.1 ≠ nv.2.sofa.xid)
    (hmem : ∀ nv ∈ c.views, ∀ e ∈ Index.all nv.2.idx, Xmi.slot st.heap e.oid "sofa" ≠ some .none)
    (hmok : MembersOk c st.heap) :
    ∃ (ld : Loaded) (fss : List (Int × Val)),
      loadJson Gen.consts Gen.builtinTS tsIdx ci' false true st.heap doc = .ok ld ∧
      (∀ j ∈ doc.fss, TypeAgree ts ld.ts (fsTypeName j)) ∧
      (∀ q ∈ st.allFs, ∃ (a' : Nat) (o o' : Obj), lookup fss q.1 = some (.ref a') ∧
          st.heap[q.2]? = some o ∧ ld.heap[a']? = some o' ∧ o'.ty = o.ty ∧ o'.xid = some q.1 ∧
          ∀ t : TypeRec, find? ts o.ty = some t → ∀ f ∈ allFeatures t,
            featContentC Gen.consts ld.heap a' f = featContentC Gen.consts st.heap q.2 f) ∧
      (∀ p ∈ fss, (∃ q ∈ st.allFs, q.1 = p.1) ∨ (∃ nv ∈ c.views, nv.2.sofa.xid = p.1)) ∧
      ld.cas.views.map (viewContent ld.heap) = c.views.map (viewContent st.heap) ∧
      (∀ q ∈ st.allFs, q.1 < ld.cas.nextXid) ∧
      (∀ nv ∈ c.views, nv.2.sofa.xid < ld.cas.nextXid ∧ nv.2.sofa.sofaNum < ld.cas.nextSofaNum) := by
  subst hts
  have hreg : ∀ q ∈ st.allFs, ∀ ob : Obj, st.heap[q.2]? = some ob →
      (find? (ops.foldl (applyOp Gen.consts) Gen.builtinTS) ob.ty).isSome = true ∧ ob.ty.endsWith "[]" = false := by
    intro q hq ob hob
    obtain ⟨hk, hj⟩ := hcoll q hq
    rcases hk with ⟨o, t, ho, ht, _⟩ | ⟨o, t, f, ev, ho, ht, _⟩
    · rw [hob] at ho; cases ho
      exact ⟨by rw [ht]; rfl, (hj ob t hob ht).1⟩
    · rw [hob] at ho; cases ho
      exact ⟨by rw [ht]; rfl, (hj ob t hob ht).1⟩
  obtain ⟨ts', hlts, _, hag⟩ := json_minimal_ts_agree_aux ops hu hw hpc cass ci c hp doc st hc
    (fun nv hnv => (hwf.text_sofa nv hnv).1) hsave hreg
  obtain ⟨ld, fss, hl, hlt, H⟩ := json_roundtrip_embedded_coll_of_agree_aux Gen.consts _ Gen.builtinTS ts' .minimal
    cass ci c hp tsIdx ci' doc st hc hwf hsave hlts hag hcoll hids hdis hmem hmok
  exact ⟨ld, fss, hl, by rw [hlt]; exact hag, H⟩

end Cassis.Json
