/-
Round trip, glue: what the traversal of the writer guarantees about the collected structures (`LOk`).
-/
import CassisModel.Proofs.RoundTripDefs
import CassisModel.Proofs.Xmi
import CassisModel.Proofs.Reach
import CassisModel.Proofs.Determinism

namespace Cassis.Xmi
open Cassis.TS Cassis.Traverse Cassis.Lex

/-- the traversal behind a successful `saveXmi` -/
theorem saveXmi_findAllFs {K : Consts} {ts : TypeSystem} {cass : List Cas} {ci : Nat} {c : Cas} {hp : Heap}
    {doc : XDoc} {st : St} (hc : cass[ci]? = some c) (h : saveXmi K ts cass ci hp = .ok (doc, st)) :
    findAllFs K ts {} hp c.nextXid (defaultSeeds c) = .ok st := by
  unfold saveXmi at h
  rw [hc] at h
  simp only [bind, Except.bind, pure, Except.pure] at h
  cases hst : Traverse.findAllFs K ts {} hp c.nextXid (Traverse.defaultSeeds c) with
  | error err => rw [hst] at h; cases h
  | ok st' =>
    rw [hst] at h
    simp only at h
    cases hr : renderAll K ts cass st'.heap (sortById st'.allFs) with
    | error err => rw [hr] at h; cases h
    | ok fsElems =>
      rw [hr] at h
      simp only at h
      cases h
      rfl

/-- ids in the heap after id assignment are positive -/
theorem st_ids_pos {K : Consts} {ts : TypeSystem} {c : Cas} {hp : Heap} {st : St} (hwf : RTWf c hp)
    (h : findAllFs K ts {} hp c.nextXid (defaultSeeds c) = .ok st) (a : Nat) (y : Int)
    (hy : xidOf st.heap a = some y) : 0 < y := by
  unfold findAllFs at h
  obtain ⟨fut, _⟩ := run_fut K ts {} _ _ _ st hwf.next_pos hwf.ids_below h
  simp only at fut
  cases h0 : xidOf hp a with
  | none =>
    have := fut.fresh a y h0 hy
    have hp' := hwf.next_pos
    omega
  | some y' =>
    have h1 := fut.shape.xidOf h0
    rw [hy] at h1
    cases h1
    unfold xidOf at h0
    cases hob : hp[a]? with
    | none => rw [hob] at h0; cases h0
    | some ob =>
      rw [hob] at h0
      exact hwf.ids_pos a ob y hob h0

/-! ### successors of a flat structure -/

theorem featureSuccs_flat {K : Consts} {ts : TypeSystem} {c : Cas} {ci : Nat} {H : Heap} {a : Nat} {o : Obj}
    {isAnn : Bool} {f : Feature} (fuel : Nat) (ho : H[a]? = some o) (hf : FlatFeat K ts c ci H isAnn o f) :
    ∃ ps : List Nat, featureSuccs K ts {} H [] fuel a f = .ok (ps, 0) ∧
      ∀ b, alistGet? o.slots f.name = some (.ref b) → b ∈ ps := by
  obtain ⟨_, _, _, _, _, _, _, _, _, _, _, v, hv, hcase⟩ := hf
  have hslot : Traverse.slot H a f.name = some v := by
    unfold Traverse.slot; rw [ho]; exact hv
  unfold featureSuccs
  rcases hcase with ⟨hn, hs⟩ | ⟨hn, hprim, _⟩ | ⟨hn, hprim, harr, hlist, _, _, _, hval⟩
  · refine ⟨[], ?_, ?_⟩
    · simp [hn]
    · intro b hb
      rw [hv] at hb
      rcases hs with ⟨vn, rfl, _⟩ | ⟨rfl, _⟩ <;> cases hb
  · have hn' : (f.name == "sofa") = false := by simpa using hn
    refine ⟨[], ?_, ?_⟩
    · simp [hn', hprim]
    · intro b hb
      rw [hv] at hb
      rename_i h3
      rcases h3 with rfl | ⟨_, i, rfl⟩ | ⟨_, s, rfl⟩ | ⟨_, b', rfl⟩ | ⟨_, t, rfl⟩ <;> cases hb
  · have hn' : (f.name == "sofa") = false := by simpa using hn
    rcases hval with rfl | ⟨b, rfl, _, _⟩
    · refine ⟨[], ?_, ?_⟩
      · simp [hn', hprim, hslot]
      · intro b hb; rw [hv] at hb; cases hb
    · refine ⟨[b], ?_, ?_⟩
      · simp [hn', hprim, hslot, harr, hlist, seenId_nil]
      · intro b' hb; rw [hv] at hb; cases hb; exact List.mem_singleton.mpr rfl

theorem featuresSuccs_flat {K : Consts} {ts : TypeSystem} {c : Cas} {ci : Nat} {H : Heap} {a : Nat} {o : Obj}
    {isAnn : Bool} (fuel : Nat) (ho : H[a]? = some o) :
    ∀ (fs : List Feature), (∀ f ∈ fs, FlatFeat K ts c ci H isAnn o f) →
    ∃ ps : List Nat, featuresSuccs K ts {} H [] fuel a fs = .ok (ps, 0) ∧
      ∀ f ∈ fs, ∀ b, alistGet? o.slots f.name = some (.ref b) → b ∈ ps := by
  intro fs
  induction fs with
  | nil => intro _; exact ⟨[], rfl, fun f hf => by cases hf⟩
  | cons f fs ih =>
    intro hall
    obtain ⟨p1, h1, m1⟩ := featureSuccs_flat fuel ho (hall f List.mem_cons_self)
    obtain ⟨p2, h2, m2⟩ := ih (fun g hg => hall g (List.mem_cons_of_mem _ hg))
    refine ⟨p1 ++ p2, ?_, ?_⟩
    · unfold featuresSuccs
      simp only [h1, h2, bind, Except.bind, pure, Except.pure]
    · intro g hg b hb
      rcases List.mem_cons.mp hg with rfl | hg
      · exact List.mem_append_left _ (m1 b hb)
      · exact List.mem_append_right _ (m2 g hg b hb)

/-- the same against an arbitrary visited map: the traversal never fails on a flat feature, and pushes only targets of
    references -/
theorem featureSuccs_flat_any {K : Consts} {ts : TypeSystem} {c : Cas} {ci : Nat} {H : Heap} {a : Nat} {o : Obj}
    {isAnn : Bool} {f : Feature} (allFs : List (Int × Nat)) (fuel : Nat) (ho : H[a]? = some o)
    (hf : FlatFeat K ts c ci H isAnn o f) :
    ∃ ps : List Nat, featureSuccs K ts {} H allFs fuel a f = .ok (ps, 0) ∧
      ∀ b ∈ ps, alistGet? o.slots f.name = some (.ref b) := by
  obtain ⟨_, _, _, _, _, _, _, _, _, _, _, v, hv, hcase⟩ := hf
  have hslot : Traverse.slot H a f.name = some v := by
    unfold Traverse.slot; rw [ho]; exact hv
  unfold featureSuccs
  rcases hcase with ⟨hn, hs⟩ | ⟨hn, hprim, _⟩ | ⟨hn, hprim, harr, hlist, _, _, _, hval⟩
  · exact ⟨[], by simp [hn], fun b hb => by cases hb⟩
  · have hn' : (f.name == "sofa") = false := by simpa using hn
    exact ⟨[], by simp [hn', hprim], fun b hb => by cases hb⟩
  · have hn' : (f.name == "sofa") = false := by simpa using hn
    rcases hval with rfl | ⟨b, rfl, _, _⟩
    · exact ⟨[], by simp [hn', hprim, hslot], fun b hb => by cases hb⟩
    · by_cases hseen : seenId allFs (xidOf H b) b = true
      · exact ⟨[], by simp [hn', hprim, hslot, harr, hlist, hseen], fun b hb => by cases hb⟩
      · refine ⟨[b], by simp [hn', hprim, hslot, harr, hlist, hseen], ?_⟩
        intro b' hb'
        rw [List.mem_singleton.mp hb']
        exact hv

theorem featuresSuccs_flat_any {K : Consts} {ts : TypeSystem} {c : Cas} {ci : Nat} {H : Heap} {a : Nat} {o : Obj}
    {isAnn : Bool} (allFs : List (Int × Nat)) (fuel : Nat) (ho : H[a]? = some o) :
    ∀ (fs : List Feature), (∀ f ∈ fs, FlatFeat K ts c ci H isAnn o f) →
    ∃ ps : List Nat, featuresSuccs K ts {} H allFs fuel a fs = .ok (ps, 0) ∧
      ∀ b ∈ ps, ∃ f ∈ fs, alistGet? o.slots f.name = some (.ref b) := by
  intro fs
  induction fs with
  | nil => intro _; exact ⟨[], rfl, fun b hb => by cases hb⟩
  | cons f fs ih =>
    intro hall
    obtain ⟨p1, h1, m1⟩ := featureSuccs_flat_any allFs fuel ho (hall f List.mem_cons_self)
    obtain ⟨p2, h2, m2⟩ := ih (fun g hg => hall g (List.mem_cons_of_mem _ hg))
    refine ⟨p1 ++ p2, ?_, ?_⟩
    · unfold featuresSuccs
      simp only [h1, h2, bind, Except.bind, pure, Except.pure]
    · intro b hb
      rcases List.mem_append.mp hb with hb | hb
      · exact ⟨f, List.mem_cons_self, m1 b hb⟩
      · obtain ⟨g, hg, hgb⟩ := m2 b hb
        exact ⟨g, List.mem_cons_of_mem _ hg, hgb⟩

theorem alistGet?_mem_keys {β} : ∀ (l : List (String × β)) (n : String) (v : β), alistGet? l n = some v →
    n ∈ l.map (·.1)
  | [], n, v, h => by simp [alistGet?] at h
  | (k, w) :: rest, n, v, h => by
    unfold alistGet? at h
    by_cases hk : k = n
    · simp [hk]
    · rw [if_neg hk] at h
      simp only [List.map_cons, List.mem_cons]
      exact Or.inr (alistGet?_mem_keys rest n v h)

/-- a slot of a flat structure is the slot of one of its features -/
theorem flat_slot_feature {o : Obj} {t : TypeRec} (hs : o.slots.map (·.1) = (ctorFields t).eraseDups) {n : String} {v : Val}
    (hv : alistGet? o.slots n = some v) : ∃ f ∈ allFeatures t, f.name = n := by
  have hmem := alistGet?_mem_keys _ _ _ hv
  rw [hs] at hmem
  have : n ∈ ctorFields t := List.mem_eraseDups.mp hmem
  unfold ctorFields at this
  obtain ⟨f, hf, rfl⟩ := List.mem_map.mp this
  exact ⟨f, hf, rfl⟩

theorem getType_of_find {ts : TypeSystem} {n : String} {t : TypeRec} (h : find? ts n = some t) : getType ts n = .ok t := by
  unfold getType; rw [h]

theorem mem_sortById {l : List (Int × Nat)} {q : Int × Nat} : q ∈ sortById l ↔ q ∈ l :=
  (sortById_perm_aux l).mem_iff

/-- what the traversal guarantees about the written structures -/
theorem lok_of_save {K : Consts} {ts : TypeSystem} {cass : List Cas} {ci : Nat} {c : Cas} {hp : Heap}
    {doc : XDoc} {st : St} (hc : cass[ci]? = some c) (hwf : RTWf c hp)
    (hsave : saveXmi K ts cass ci hp = .ok (doc, st))
    (hflat : ∀ q ∈ st.allFs, FlatFs K ts c ci st.heap q.2) :
    LOk K ts c ci st.heap (sortById st.allFs) := by
  have hfa := saveXmi_findAllFs hc hsave
  have hpos := hwf.next_pos
  have hids : ∀ q ∈ sortById st.allFs, xidOf st.heap q.2 = some q.1 ∧ q.1 ≠ 0 := fun q hq =>
    findAllFs_ids_aux K ts {} hp c.nextXid _ st hpos hfa q.1 q.2 (mem_sortById.mp hq)
  refine ⟨fun q hq => hflat q (mem_sortById.mp hq), hids, ?_, ?_, ?_⟩
  · exact ((sortById_perm_aux st.allFs).map (·.1)).nodup_iff.mpr
      (findAllFs_nodup_aux K ts {} hp c.nextXid _ st hfa).1
  · intro q hq o ho n b hb
    obtain ⟨o', t, ho', ht, _, _, _, hsup, _, _, _, _, _, _, hsl, hfeat, _⟩ := hflat q (mem_sortById.mp hq)
    rw [ho] at ho'; cases ho'
    obtain ⟨f, hf, rfl⟩ := flat_slot_feature hsl hb
    obtain ⟨ps, hps, hm⟩ := featuresSuccs_flat (K := K) (ts := ts) (hp.length + 1) ho (allFeatures t) hfeat
    have hbps : b ∈ ps := hm f hf b hb
    have hnode : nodeSuccs K ts {} st.heap [] (hp.length + 1) q.2 t = .ok (ps, 0) := by
      unfold nodeSuccs
      have : (t.super == some ARRAY_BASE) = false := by
        cases hh : (t.super == some ARRAY_BASE)
        · rfl
        · exact absurd (eq_of_beq hh) hsup
      rw [this]
      exact hps
    have hsucc : b ∈ succsOf K ts {} st.heap (hp.length + 1) q.2 := by
      rw [succsOf_eq K ts {} ho (getType_of_find ht) hnode]; exact hbps
    have hnz : xidOf st.heap b ≠ some 0 := by
      intro h0
      have := st_ids_pos hwf hfa b 0 h0
      omega
    have hbm := findAllFs_closed_aux K ts {} hp c.nextXid _ st hpos hfa q.1 q.2 b
      (mem_sortById.mp hq) hsucc hnz
    obtain ⟨p, hp1, hp2⟩ := List.mem_map.mp hbm
    obtain ⟨x, b'⟩ := p
    simp only at hp2
    subst hp2
    exact ⟨x, (hids (x, b') (mem_sortById.mpr hp1)).1, mem_sortById.mpr hp1⟩
  · intro nv hnv e he
    have hseed : e.oid ∈ defaultSeeds c := by
      unfold defaultSeeds
      exact List.mem_flatMap.mpr ⟨nv, hnv, List.mem_map.mpr ⟨e, he, rfl⟩⟩
    have hnz : xidOf st.heap e.oid ≠ some 0 := by
      intro h0
      have := st_ids_pos hwf hfa e.oid 0 h0
      omega
    have hbm := findAllFs_complete_aux K ts {} hp c.nextXid _ st hpos hfa e.oid (.seed _ hseed) hnz
    obtain ⟨p, hp1, hp2⟩ := List.mem_map.mp hbm
    obtain ⟨x, b'⟩ := p
    simp only at hp2
    subst hp2
    exact ⟨x, mem_sortById.mpr hp1⟩

/-! ### successors of a flat structure, node level -/

theorem nodeSuccs_flat_any {K : Consts} {ts : TypeSystem} {c : Cas} {ci : Nat} {H : Heap} {a : Nat}
    (hfl : FlatFs K ts c ci H a) (allFs : List (Int × Nat)) (fuel : Nat) :
    ∃ (o : Obj) (t : TypeRec) (ps : List Nat), H[a]? = some o ∧ getType ts o.ty = .ok t ∧
      nodeSuccs K ts {} H allFs fuel a t = .ok (ps, 0) ∧
      ∀ b ∈ ps, ∃ n, alistGet? o.slots n = some (.ref b) := by
  obtain ⟨o, t, ho, ht, _, _, _, hsup, _, _, _, _, _, _, _, hfeat, _⟩ := hfl
  obtain ⟨ps, hps, hm⟩ := featuresSuccs_flat_any (K := K) (ts := ts) allFs fuel ho (allFeatures t) hfeat
  refine ⟨o, t, ps, ho, getType_of_find ht, ?_, fun b hb => ?_⟩
  · unfold nodeSuccs
    have : (t.super == some ARRAY_BASE) = false := by
      cases hh : (t.super == some ARRAY_BASE)
      · rfl
      · exact absurd (eq_of_beq hh) hsup
    rw [this]
    exact hps
  · obtain ⟨f, _, hf⟩ := hm b hb
    exact ⟨f.name, hf⟩

/-- the successors of a flat structure are exactly the targets of its references -/
theorem succsOf_flat {K : Consts} {ts : TypeSystem} {c : Cas} {ci : Nat} {H : Heap} {a : Nat} {o : Obj}
    (hfl : FlatFs K ts c ci H a) (ho : H[a]? = some o) (lf : Nat) (b : Nat) :
    b ∈ succsOf K ts {} H lf a ↔ ∃ n, alistGet? o.slots n = some (.ref b) := by
  obtain ⟨o', t, ps, ho', hty, hnode, hm⟩ := nodeSuccs_flat_any hfl [] lf
  rw [ho] at ho'; cases ho'
  rw [succsOf_eq K ts {} ho hty hnode]
  constructor
  · exact hm b
  · rintro ⟨n, hn⟩
    obtain ⟨o2, t2, ho2, ht2, _, _, _, hsup, _, _, _, _, _, _, hsl, hfeat, _⟩ := hfl
    rw [ho] at ho2; cases ho2
    obtain ⟨f, hf, rfl⟩ := flat_slot_feature hsl hn
    obtain ⟨ps', hps', hm'⟩ := featuresSuccs_flat (K := K) (ts := ts) lf ho (allFeatures t2) hfeat
    have ht' : getType ts o.ty = .ok t2 := getType_of_find ht2
    rw [hty] at ht'; cases ht'
    have hnode' : nodeSuccs K ts {} H [] lf a t = .ok (ps', 0) := by
      unfold nodeSuccs
      have : (t.super == some ARRAY_BASE) = false := by
        cases hh : (t.super == some ARRAY_BASE)
        · rfl
        · exact absurd (eq_of_beq hh) hsup
      rw [this]
      exact hps'
    rw [hnode] at hnode'
    cases hnode'
    exact hm' f hf b hn

end Cassis.Xmi
