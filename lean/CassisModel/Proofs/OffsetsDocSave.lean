/-
C03, written-document level, layer 1: the elements of a saved document are the renderings of the collected structures,
the members / attributes of an element are the concatenation of the per-feature renderings.
-/
import CassisModel.Proofs.OffsetsDocConv
import CassisModel.Proofs.DeterminismJson
import CassisModel.Proofs.Xmi

namespace Cassis.OffsetsDoc
open Cassis.TS Cassis.Traverse

theorem bind_ok' {α β} {x : Except Err α} {f : α → Except Err β} {r : β} (h : x.bind f = .ok r) :
    ∃ a, x = .ok a ∧ f a = .ok r := by
  cases x with
  | error e => cases h
  | ok a => exact ⟨a, rfl, h⟩

/-- the heap the writers render is the given heap up to the ids the traversal assigns -/
theorem slots_after_traversal {K : Consts} {ts : TypeSystem} {opts : Opts} {hp : Heap} {nx : Int} {seeds : List Nat}
    {st : St} (h : findAllFs K ts opts hp nx seeds = .ok st) {a : Nat} {o : Obj} (ho : hp[a]? = some o) :
    ∃ o', st.heap[a]? = some o' ∧ o'.ty = o.ty ∧ o'.slots = o.slots ∧
      ∀ n, Xmi.slot st.heap a n = alistGet? o.slots n := by
  obtain ⟨o', h1, h2, h3, _⟩ := (findAllFs_heap_frame_aux K ts opts hp nx seeds st h).2 a o ho
  refine ⟨o', h1, h2, h3, ?_⟩
  intro n
  unfold Xmi.slot Traverse.slot
  rw [h1, ← h3]
  rfl

end Cassis.OffsetsDoc

namespace Cassis.Json
open Cassis.TS Cassis.Traverse Cassis.OffsetsDoc

theorem renderAll_elems (K : Consts) (ts : TypeSystem) (cass : List Cas) (H : Heap) :
    ∀ (L : List (Int × Nat)) (es : List JFs), renderAll K ts cass H L = .ok es →
      (∀ q ∈ L, ∃ e ∈ es, renderFs K ts cass H q.2 = .ok e) ∧
      (∀ e ∈ es, ∃ q ∈ L, renderFs K ts cass H q.2 = .ok e)
  | [], es, h => by
    unfold renderAll at h
    cases h
    constructor <;> intro x hx <;> cases hx
  | q :: L, es, h => by
    unfold renderAll at h
    obtain ⟨e1, h1, h⟩ := bind_ok' h
    obtain ⟨es1, h2, h⟩ := bind_ok' h
    cases h
    obtain ⟨ih1, ih2⟩ := renderAll_elems K ts cass H L es1 h2
    constructor
    · intro q' hq'
      rcases List.mem_cons.mp hq' with rfl | hq'
      · exact ⟨e1, List.mem_cons_self, h1⟩
      · obtain ⟨e, he, hr⟩ := ih1 q' hq'
        exact ⟨e, List.mem_cons_of_mem _ he, hr⟩
    · intro e he
      rcases List.mem_cons.mp he with rfl | he
      · exact ⟨q, List.mem_cons_self, h1⟩
      · obtain ⟨q', hq', hr⟩ := ih2 e he
        exact ⟨q', List.mem_cons_of_mem _ hq', hr⟩

theorem renderFeatures_members (K : Consts) (ts : TypeSystem) (cass : List Cas) (H : Heap) (a : Nat) :
    ∀ (fs : List Feature) (r : List (String × JV)), renderFeatures K ts cass H a fs = .ok r →
      (∀ f ∈ fs, ∃ out, renderFeature K ts cass H a f = .ok out ∧ ∀ m ∈ out, m ∈ r) ∧
      (∀ m ∈ r, ∃ f ∈ fs, ∃ out, renderFeature K ts cass H a f = .ok out ∧ m ∈ out)
  | [], r, h => by
    unfold renderFeatures at h
    cases h
    constructor <;> intro x hx <;> cases hx
  | f0 :: fs, r, h => by
    unfold renderFeatures at h
    obtain ⟨x, h1, h⟩ := bind_ok' h
    obtain ⟨xs, h2, h⟩ := bind_ok' h
    cases h
    obtain ⟨ih1, ih2⟩ := renderFeatures_members K ts cass H a fs xs h2
    constructor
    · intro f hf
      rcases List.mem_cons.mp hf with rfl | hf
      · exact ⟨x, h1, fun m hm => List.mem_append_left _ hm⟩
      · obtain ⟨out, ho, hm⟩ := ih1 f hf
        exact ⟨out, ho, fun m hm' => List.mem_append_right _ (hm m hm')⟩
    · intro m hm
      rcases List.mem_append.mp hm with hm | hm
      · exact ⟨f0, List.mem_cons_self, x, h1, hm⟩
      · obtain ⟨f, hf, out, ho, hmo⟩ := ih2 m hm
        exact ⟨f, List.mem_cons_of_mem _ hf, out, ho, hmo⟩

/-- the element written for a structure that is not an array -/
theorem renderFs_struct {K : Consts} {ts : TypeSystem} {cass : List Cas} {H : Heap} {a : Nat} {j : JFs} {o : Obj}
    (h : renderFs K ts cass H a = .ok j) (ho : H[a]? = some o)
    (hna : isPrimitiveArray K o.ty = false) (hnf : o.ty ≠ FS_ARRAY) :
    ∃ tr : TypeRec, getType ts o.ty = .ok tr ∧ j.id = o.xid ∧ j.ty = o.ty ∧
      renderFeatures K ts cass H a (allFeatures tr) = .ok j.feats := by
  unfold renderFs at h
  rw [ho] at h
  have hcond : ¬ ((isPrimitiveArray K o.ty || o.ty == FS_ARRAY) = true) := by
    rw [hna]; simpa using hnf
  simp only [bind, Except.bind, pure, Except.pure] at h
  rw [if_neg hcond] at h
  cases ht : getType ts o.ty with
  | error e => rw [ht] at h; cases h
  | ok tr =>
    rw [ht] at h
    dsimp only at h
    cases hr : renderFeatures K ts cass H a (allFeatures tr) with
    | error e => rw [hr] at h; cases h
    | ok fs =>
      rw [hr] at h
      cases h
      exact ⟨tr, rfl, rfl, rfl, hr⟩

theorem saveJson_split {K : Consts} {ts : TypeSystem} {cass : List Cas} {ci : Nat} {hp : Heap} {mode : Mode}
    {doc : JDoc} {st : St} (h : saveJson K ts cass ci hp mode = .ok (doc, st)) :
    ∃ (c : Cas) (sofaFss fsElems : List JFs), cass[ci]? = some c ∧
      findAllFs K ts { includeInlinable := true } hp c.nextXid (defaultSeeds c) = .ok st ∧
      renderAll K ts cass st.heap (Xmi.sortById st.allFs) = .ok fsElems ∧
      doc.fss = sofaFss ++ fsElems := by
  cases hc : cass[ci]? with
  | none =>
    unfold saveJson at h
    rw [hc] at h; cases h
  | some c =>
    rw [DetJ.saveJson_eq K ts cass ci c hp mode hc] at h
    obtain ⟨sofaFss, _, h⟩ := bind_ok' h
    obtain ⟨st', h2, h⟩ := bind_ok' h
    obtain ⟨fsElems, h3, h⟩ := bind_ok' h
    first
      | (cases h
         exact ⟨c, sofaFss, fsElems, rfl, h2, h3, rfl⟩)
      | (obtain ⟨decls, _, h⟩ := bind_ok' h
         cases h
         exact ⟨c, sofaFss, fsElems, rfl, h2, h3, rfl⟩)

end Cassis.Json

namespace Cassis.Xmi
open Cassis.TS Cassis.Traverse Cassis.OffsetsDoc

theorem renderAll_elems (K : Consts) (ts : TypeSystem) (cass : List Cas) (H : Heap) :
    ∀ (L : List (Int × Nat)) (es : List XElem), renderAll K ts cass H L = .ok es →
      (∀ q ∈ L, ∃ e ∈ es, renderFs K ts cass H q.2 = .ok e) ∧
      (∀ e ∈ es, ∃ q ∈ L, renderFs K ts cass H q.2 = .ok e)
  | [], es, h => by
    unfold renderAll at h
    cases h
    constructor <;> intro x hx <;> cases hx
  | q :: L, es, h => by
    unfold renderAll at h
    obtain ⟨e1, h1, h⟩ := bind_ok' h
    obtain ⟨es1, h2, h⟩ := bind_ok' h
    cases h
    obtain ⟨ih1, ih2⟩ := renderAll_elems K ts cass H L es1 h2
    constructor
    · intro q' hq'
      rcases List.mem_cons.mp hq' with rfl | hq'
      · exact ⟨e1, List.mem_cons_self, h1⟩
      · obtain ⟨e, he, hr⟩ := ih1 q' hq'
        exact ⟨e, List.mem_cons_of_mem _ he, hr⟩
    · intro e he
      rcases List.mem_cons.mp he with rfl | he
      · exact ⟨q, List.mem_cons_self, h1⟩
      · obtain ⟨q', hq', hr⟩ := ih2 e he
        exact ⟨q', List.mem_cons_of_mem _ hq', hr⟩

theorem renderFeatures_members (K : Consts) (ts : TypeSystem) (cass : List Cas) (H : Heap) (a : Nat) (isAnn : Bool) :
    ∀ (fs : List Feature) (r : List (String × String) × List (String × Option String)),
      renderFeatures K ts cass H a isAnn fs = .ok r →
      (∀ f ∈ fs, ∃ out, renderFeature K ts cass H a isAnn f = .ok out ∧ (∀ m ∈ out.1, m ∈ r.1) ∧ ∀ m ∈ out.2, m ∈ r.2) ∧
      (∀ m ∈ r.1, ∃ f ∈ fs, ∃ out, renderFeature K ts cass H a isAnn f = .ok out ∧ m ∈ out.1)
  | [], r, h => by
    unfold renderFeatures at h
    cases h
    constructor <;> intro x hx <;> cases hx
  | f0 :: fs, r, h => by
    unfold renderFeatures at h
    obtain ⟨x, h1, h⟩ := bind_ok' h
    obtain ⟨xs, h2, h⟩ := bind_ok' h
    cases h
    obtain ⟨ih1, ih2⟩ := renderFeatures_members K ts cass H a isAnn fs xs h2
    constructor
    · intro f hf
      rcases List.mem_cons.mp hf with rfl | hf
      · exact ⟨x, h1, fun m hm => List.mem_append_left _ hm, fun m hm => List.mem_append_left _ hm⟩
      · obtain ⟨out, ho, hm1, hm2⟩ := ih1 f hf
        exact ⟨out, ho, fun m hm' => List.mem_append_right _ (hm1 m hm'), fun m hm' => List.mem_append_right _ (hm2 m hm')⟩
    · intro m hm
      rcases List.mem_append.mp hm with hm | hm
      · exact ⟨f0, List.mem_cons_self, x, h1, hm⟩
      · obtain ⟨f, hf, out, ho, hmo⟩ := ih2 m hm
        exact ⟨f, List.mem_cons_of_mem _ hf, out, ho, hmo⟩

/-- the element written for a structure that is not an array -/
theorem renderFs_struct {K : Consts} {ts : TypeSystem} {cass : List Cas} {H : Heap} {a : Nat} {e : XElem} {o : Obj}
    (h : renderFs K ts cass H a = .ok e) (ho : H[a]? = some o)
    (hna : isPrimitiveArray K o.ty = false) (hnf : o.ty ≠ FS_ARRAY) :
    ∃ (tr : TypeRec) (as : List (String × String)) (ks : List (String × Option String)),
      getType ts o.ty = .ok tr ∧ e.ty = o.ty ∧
      e.attrs = (ID, match o.xid with | some x => Lex.showInt x | none => "None") :: as ∧ e.kids = ks ∧
      renderFeatures K ts cass H a (isInstanceOf ts o.ty ANNOTATION) (allFeatures tr) = .ok (as, ks) := by
  unfold renderFs at h
  rw [ho] at h
  have hcond : ¬ ((isPrimitiveArray K o.ty || o.ty == FS_ARRAY) = true) := by
    rw [hna]; simpa using hnf
  simp only [bind, Except.bind, pure, Except.pure] at h
  rw [if_neg hcond] at h
  cases ht : getType ts o.ty with
  | error e => rw [ht] at h; cases h
  | ok tr =>
    rw [ht] at h
    dsimp only at h
    cases hr : renderFeatures K ts cass H a (isInstanceOf ts o.ty ANNOTATION) (allFeatures tr) with
    | error e => rw [hr] at h; cases h
    | ok r =>
      rw [hr] at h
      obtain ⟨as, ks⟩ := r
      cases h
      exact ⟨tr, as, ks, rfl, rfl, rfl, rfl, hr⟩

theorem saveXmi_split {K : Consts} {ts : TypeSystem} {cass : List Cas} {ci : Nat} {hp : Heap}
    {doc : XDoc} {st : St} (h : saveXmi K ts cass ci hp = .ok (doc, st)) :
    ∃ (c : Cas) (fsElems : List XElem), cass[ci]? = some c ∧
      findAllFs K ts {} hp c.nextXid (defaultSeeds c) = .ok st ∧
      renderAll K ts cass st.heap (sortById st.allFs) = .ok fsElems ∧
      doc = [{ ty := NULL_T, attrs := [(ID, "0")] }] ++ fsElems ++
        c.views.map (fun p => renderSofa p.2.sofa) ++ c.views.map (fun p => renderView st.heap p.2) := by
  unfold saveXmi at h
  cases hc : cass[ci]? with
  | none => rw [hc] at h; cases h
  | some c =>
    rw [hc] at h
    simp only [bind, Except.bind, pure, Except.pure] at h
    cases hst : Traverse.findAllFs K ts {} hp c.nextXid (Traverse.defaultSeeds c) with
    | error err => rw [hst] at h; cases h
    | ok st' =>
      rw [hst] at h
      simp only at h
      cases hr : renderAll K ts cass st'.heap (sortById st'.allFs) with
      | error err => rw [hr] at h; cases h
      | ok fsElems =>
        rw [hr] at h
        simp only at h
        cases h
        exact ⟨c, fsElems, rfl, hst, hr, rfl⟩

end Cassis.Xmi
