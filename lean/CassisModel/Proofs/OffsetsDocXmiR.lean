/-
C03, document level, the XMI reader: the loaded CAS satisfies `ConvOk` (the converter of every sofa with text is the
table of that text, or the text is empty and there is no converter).
-/
import CassisModel.Proofs.OffsetsDocHist

namespace Cassis.Xmi
open Cassis.Offsets Cassis.TS Cassis.OffsetsDoc

theorem convOfText_ok (so : Sofa) (text : Option String) (m : Option String) :
    SofaConvOk { so with text := text.map (fun t => t.toList.map Char.toNat), conv := convOfText text, mime := m } := by
  intro t ht
  dsimp only at ht ⊢
  cases text with
  | none => cases ht
  | some str =>
    simp only [Option.map_some, Option.some.injEq] at ht
    subst ht
    unfold convOfText
    dsimp only
    by_cases he : str.isEmpty = true
    · rw [if_pos he]
      right
      refine ⟨?_, rfl⟩
      rw [String.isEmpty_iff] at he
      rw [he]
      rfl
    · rw [if_neg he]
      left
      rfl

theorem addMembers_convOk (ts : TypeSystem) (ci : Nat) (h : Handle) (conv : Conv) (sofas : List (Int × PSofa))
    (lenientIds : List Int) (fss : List (Int × Nat)) :
    ∀ (ms : List Int) (b b' : Build), addMembers ts ci h conv sofas lenientIds fss ms b = .ok b' →
      ConvOk b.cas → ConvOk b'.cas
  | [], b, b', hr, hc => by
    unfold addMembers at hr
    cases hr
    exact hc
  | m :: ms, b, b', hr, hc => by
    unfold addMembers at hr
    split at hr
    · exact addMembers_convOk ts ci h conv sofas lenientIds fss ms b b' hr hc
    · split at hr
      · cases hr
      · split at hr
        · cases hr
        · dsimp only at hr
          split at hr
          · cases hr
          · split at hr
            · cases hr
            · rename_i c' hp2 hadd
              refine addMembers_convOk ts ci h conv sofas lenientIds fss ms _ b' hr ?_
              exact AllSofas.add (P := SofaConvOk) hc hadd

theorem buildView_convOk (ts : TypeSystem) (ci : Nat) (lenient : Bool) (p : Pass1) (s : PSofa) (b b' : Build)
    (hr : buildView ts ci lenient p s b = .ok b') (hc : ConvOk b.cas) : ConvOk b'.cas := by
  unfold buildView at hr
  dsimp only at hr
  split at hr
  · cases hr
  · rename_i c1 h1
    have a1 : ConvOk c1 := by
      split at h1
      · refine AllSofas.updSofa (P := SofaConvOk) hc ?_ h1
        intro so hso t ht
        exact hso t ht
      · split at h1
        · cases h1
        · rename_i c' h' hcv
          cases h1
          exact AllSofas.createView (P := SofaConvOk) hc fresh_convOk hcv
    split at hr
    · cases hr
    · rename_i c2 h2
      have a2 : ConvOk c2 := by
        refine AllSofas.updSofa (P := SofaConvOk) a1 ?_ h2
        intro so _
        exact convOfText_ok so s.text s.mime
      exact addMembers_convOk ts ci _ _ p.sofas p.lenientIds p.fss _ _ b' hr a2

theorem buildViews_convOk (ts : TypeSystem) (ci : Nat) (lenient : Bool) (p : Pass1) :
    ∀ (l : List (Int × PSofa)) (b b' : Build), buildViews ts ci lenient p l b = .ok b' → ConvOk b.cas → ConvOk b'.cas
  | [], b, b', hr, hc => by
    unfold buildViews at hr
    cases hr
    exact hc
  | (_, s) :: rest, b, b', hr, hc => by
    unfold buildViews at hr
    split at hr
    · cases hr
    · rename_i b1 h1
      exact buildViews_convOk ts ci lenient p rest b1 b' hr (buildView_convOk ts ci lenient p s b b1 h1 hc)

theorem loadXmi_convOk_aux (K : Consts) (ts : TypeSystem) (tsIdx ci : Nat) (lenient : Bool) (hp : Heap) (doc : XDoc)
    (ld : Loaded) (h : loadXmi K ts tsIdx ci lenient hp doc = .ok ld) : ConvOk ld.cas := by
  unfold loadXmi at h
  simp only [bind, Except.bind] at h
  split at h
  · cases h
  · rename_i p hp1
    split at h
    · cases h
    · rename_i hp2 hpost
      unfold buildCas at h
      split at h
      · cases h
      · rename_i b0 hb
        split at h
        · cases h
        · rename_i hpR hre
          dsimp only at h
          split at h
          · cases h
          · rename_i heap hcr
            cases h
            have a0 : ConvOk b0.cas :=
              buildViews_convOk ts ci lenient p p.sofas _ b0 hb (allSofas_empty fresh_convOk)
            exact AllSofas.of_views (P := SofaConvOk) a0 rfl

end Cassis.Xmi
