/-
C20 across the XMI round trip, flat fragment: `cas_to_comparable_text` of the loaded CAS is that of the written one.
-/
import CassisModel.Proofs.ComparableIsoFlat
import CassisModel.Proofs.RoundTrip

namespace Cassis.Comparable
open Cassis.TS Cassis.Traverse Cassis.Xmi

/-- `render` after its traversal -/
theorem render_eq {K : Consts} {ts : TypeSystem} {cass : List Cas} {ci : Nat} {c : Cas} {hp : Heap} (o : Opts)
    (hsh : Nat → Int) {st : St} (hc : cass[ci]? = some c)
    (hfa : findAllFs K ts {} hp c.nextXid (defaultSeeds c) = .ok st) :
    (render K ts cass ci hp o hsh none).map (·.1)
      = renderFrom K ts cass st.heap o hsh (defaultSeeds c) (st.allFs.map (·.2)) := by
  unfold render
  simp only [hc, bind, Except.bind, pure, Except.pure, Option.getD_none, hfa]
  cases renderFrom K ts cass st.heap o hsh (defaultSeeds c) (st.allFs.map (·.2)) <;> rfl

theorem viewsSame_of_rel {H : Heap} {na : Int → Nat} {c c' : Cas} (h : ViewsRel H na c c') : ViewsSame c c' := by
  intro vn v hg
  obtain ⟨v', hv', hr⟩ := viewsRelL_get _ _ vn v h hg
  exact ⟨v', hv', hr.2.1, hr.2.2.2.2.1⟩

/-- an indexed structure of the loaded CAS is the image of an indexed structure of the written one -/
theorem seed_fwd' {K : Consts} {ts : TypeSystem} {c : Cas} {ci : Nat} {H : Heap} {L : List (Int × Nat)}
    {na : Int → Nat} {c' : Cas} (hL : LOk K ts c ci H L) (hviews : ViewsRel H na c c') {a : Nat}
    (ha : a ∈ defaultSeeds c') : ∃ q ∈ L, a = na q.1 ∧ q.2 ∈ defaultSeeds c := by
  unfold defaultSeeds at ha
  obtain ⟨nv', hnv', ha⟩ := List.mem_flatMap.mp ha
  obtain ⟨nv, hnv, hr⟩ := viewsRelL_bwd H na _ _ hviews nv' hnv'
  have hperm := hr.2.2.2.2.2.2.2
  have := hperm.mem_iff.mp ha
  obtain ⟨m, hm, rfl⟩ := List.mem_map.mp this
  obtain ⟨e0, he0, hx0⟩ := mem_members.mp hm
  obtain ⟨x, hx⟩ := hL.members nv hnv e0 he0
  have := (hL.ids _ hx).1
  rw [show ((x, e0.oid) : Int × Nat).2 = e0.oid from rfl, hx0] at this
  cases this
  refine ⟨_, hx, rfl, ?_⟩
  unfold defaultSeeds
  exact List.mem_flatMap.mpr ⟨nv, hnv, List.mem_map.mpr ⟨e0, he0, rfl⟩⟩

theorem seed_iff {K : Consts} {ts : TypeSystem} {c : Cas} {ci : Nat} {H : Heap} {L : List (Int × Nat)}
    {na : Int → Nat} {ci' : Nat} {c' : Cas} {hpL : Heap} (hL : LOk K ts c ci H L)
    (hrel : HeapRel H L na (E3 H na ci') hpL) (hviews : ViewsRel H na c c') :
    ∀ q ∈ L, (q.2 ∈ defaultSeeds c ↔ na q.1 ∈ defaultSeeds c') :=
  seed_iff_of hL hrel (fun _ ha => seed_fwd' hL hviews ha)
    (fun q hq h => seed_bwd (x := q.1) (a := q.2) hL hviews hq h)

/-- the XMI round trip on the flat fragment produces an isomorphic CAS -/
theorem xmi_roundtrip_flat_iso_aux (K : Consts) (ts : TypeSystem) (cass : List Cas) (ci : Nat) (c : Cas) (hp : Heap)
    (tsIdx : Nat) (doc : XDoc) (st : St)
    (hc : cass[ci]? = some c) (hwf : RTWf c hp) (hnull : NullOk ts)
    (hsave : saveXmi K ts cass ci hp = .ok (doc, st))
    (hflat : ∀ q ∈ st.allFs, FlatFs K ts c ci st.heap q.2)
    (hmem : ∀ nv ∈ c.views, ∀ e ∈ Index.all nv.2.idx, Xmi.slot st.heap e.oid "sofa" ≠ some .none)
    (hmok : MembersOk c st.heap) :
    ∃ (ld : Loaded) (φ : Nat → Nat) (st' : St),
      loadXmi K ts tsIdx cass.length false st.heap doc = .ok ld ∧
      findAllFs K ts {} ld.heap ld.cas.nextXid (defaultSeeds ld.cas) = .ok st' ∧ st'.heap = ld.heap ∧
      Iso K cass (cass ++ [ld.cas]) st.heap ld.heap (defaultSeeds c) (defaultSeeds ld.cas)
        (st.allFs.map (·.2)) (st'.allFs.map (·.2)) φ := by
  obtain ⟨na, p, ld, _, hload, hL, _, _, hrel3, _, hvrel⟩ :=
    roundtrip_core K ts cass ci c hp tsIdx cass.length doc st hc hwf hnull hsave hflat hmem hmok
  have hc' : (cass ++ [ld.cas])[cass.length]? = some ld.cas := List.getElem?_concat_length
  have hfa := saveXmi_findAllFs hc hsave
  obtain ⟨st', hfa', hheap, hS⟩ := new_traversal hc hwf hL hrel3 hvrel
  have hperm := new_allFs_perm hc hwf hfa hL hrel3 hvrel (loadXmi_nextXid_pos hload) hfa' hheap hS
  have hiso := iso_of_heapRel hc hc' hL hrel3 (viewsSame_of_rel hvrel) (seed_iff hL hrel3 hvrel)
    (st.allFs.map (·.2)) (st'.allFs.map (·.2))
    ((sortById_perm_aux st.allFs).symm.map _)
    (by
      have h1 := hperm.map (·.2)
      rw [List.map_map] at h1
      exact h1.trans ((sortById_perm_aux st.allFs).symm.map (fun q : Int × Nat => na q.1)))
  exact ⟨ld, phiOf st.heap na, st', hload, hfa', hheap, hiso⟩

/-- **C20 across the XMI round trip (flat fragment)** -/
theorem render_xmi_roundtrip_flat_aux (K : Consts) (ts : TypeSystem) (cass : List Cas) (ci : Nat) (c : Cas) (hp : Heap)
    (tsIdx : Nat) (doc : XDoc) (st : St) (o : Opts) (hsh hsh' : Nat → Int)
    (hc : cass[ci]? = some c) (hwf : RTWf c hp) (hnull : NullOk ts)
    (hsave : saveXmi K ts cass ci hp = .ok (doc, st))
    (hflat : ∀ q ∈ st.allFs, FlatFs K ts c ci st.heap q.2)
    (hmem : ∀ nv ∈ c.views, ∀ e ∈ Index.all nv.2.idx, Xmi.slot st.heap e.oid "sofa" ≠ some .none)
    (hmok : MembersOk c st.heap)
    (hd : Distinct st.heap (st.allFs.map (·.2))) :
    ∃ ld : Loaded,
      loadXmi K ts tsIdx cass.length false st.heap doc = .ok ld ∧
      (render K ts (cass ++ [ld.cas]) cass.length ld.heap o hsh' none).map (·.1)
        = (render K ts cass ci hp o hsh none).map (·.1) := by
  obtain ⟨ld, φ, st', hload, hfa', hheap, hiso⟩ :=
    xmi_roundtrip_flat_iso_aux K ts cass ci c hp tsIdx doc st hc hwf hnull hsave hflat hmem hmok
  have hc' : (cass ++ [ld.cas])[cass.length]? = some ld.cas := List.getElem?_concat_length
  refine ⟨ld, hload, ?_⟩
  rw [render_eq o hsh hc (saveXmi_findAllFs hc hsave), render_eq o hsh' hc' hfa', hheap]
  exact renderFrom_iso_aux K ts cass (cass ++ [ld.cas]) st.heap ld.heap o hsh hsh' _ _ _ _ _ hiso hd

end Cassis.Comparable
