/-
Non-vacuity of `xmi_roundtrip_flat` (`Properties/C01RoundTrip.lean`): a concrete instance on which every hypothesis
of the theorem holds (`demo_hyps`), and an evaluated check of its conclusion on that instance (`demo_concl`).

The instance: the built-in type system plus one annotation type `x.Tok` with an Integer feature `n` and a reference
feature `next` (made with `createType`/`createFeature`), a CAS over the text `a😀b` (one astral code point), two
`x.Tok` structures that refer to each other, the first one indexed with `Cas.add`, the second only reachable.

Method: everything is evaluated by the kernel (`decide +kernel`).  Two functions do not evaluate in the kernel and are
rewritten first: `createFeature` (well-founded `pushInherited`; equal to `createFeatureLeaf` on childless types) and
`hasDot` (`String.contains`; used by `containsType` inside `Cas.add`, which the reader calls as well).  `FlatFs`/`FlatFeat` are existential
statements; Boolean checkers that compute the witnesses are proved sound once and evaluated on the two addresses.
-/
import CassisModel.Spec.RoundTrip
import CassisModel.Gen.Builtins
import CassisModel.Proofs.Traverse

namespace Cassis.Xmi.Demo
open Cassis Cassis.TS Cassis.Xmi Cassis.Traverse

def K : Consts := Gen.consts

def demoTS : TypeSystem :=
  match (do
    let ts ← createType K Gen.builtinTS "x.Tok" ANNOTATION none
    let ts ← createFeature ts "x.Tok" "n" "uima.cas.Integer"
    createFeature ts "x.Tok" "next" "x.Tok") with
  | .ok ts => ts
  | .error _ => Gen.builtinTS

def demoTS' : TypeSystem :=
  match (do
    let ts ← createType K Gen.builtinTS "x.Tok" ANNOTATION none
    let ts ← createFeatureLeaf ts "x.Tok" "n" "uima.cas.Integer"
    createFeatureLeaf ts "x.Tok" "next" "x.Tok") with
  | .ok ts => ts
  | .error _ => Gen.builtinTS

theorem demoTS_eq : demoTS = demoTS' := by
  unfold demoTS demoTS'
  rw [createType_createFeature2_leaf _ _ _ _ _ _ _ _ _ _ (by decide +kernel) (by decide +kernel)]

def txt : List Nat := [97, 0x1F600, 98]
def c0 : Cas := Cas.new (some txt) none
def hp0 : Heap :=
  [ { ty := "x.Tok", ts := 0, xid := none, slots := [("n", .int 7), ("next", .ref 1), ("begin", .int 0), ("end", .int 2), ("sofa", .sofa 0 "_InitialView")] },
    { ty := "x.Tok", ts := 0, xid := none, slots := [("n", .none), ("next", .ref 0), ("begin", .int 2), ("end", .int 3), ("sofa", .sofa 0 "_InitialView")] } ]

def demo : Cas × Heap :=
  match Cas.add demoTS 0 c0 hp0 { view := "_InitialView", lenient := false } 0 true with
  | .ok r => r
  | .error _ => (c0, hp0)

def demo' : Cas × Heap :=
  match Cas.add demoTS' 0 c0 hp0 { view := "_InitialView", lenient := false } 0 true with
  | .ok r => r
  | .error _ => (c0, hp0)

theorem demo_eq : demo = demo' := by unfold demo demo'; rw [demoTS_eq]

def casL : Cas :=
  { views := [("_InitialView",
      { sofa := { sofaID := "_InitialView", sofaNum := 1, xid := 1, text := some [97, 128512, 98],
                  mime := some "text/plain", uri := none, arr := .none, conv := some [0, 1, 3, 4] },
        idx := [("x.Tok", [{ b := 0, e := 2, oid := 0 }])] })],
    nextXid := 3, nextSofaNum := 2 }

def hpL : Heap :=
  [ { ty := "x.Tok", ts := 0, xid := some 2, slots := [("n", .int 7), ("next", .ref 1), ("begin", .int 0), ("end", .int 2), ("sofa", .sofa 0 "_InitialView")] },
    { ty := "x.Tok", ts := 0, xid := none, slots := [("n", .none), ("next", .ref 0), ("begin", .int 2), ("end", .int 3), ("sofa", .sofa 0 "_InitialView")] } ]

theorem containsType_tok (ts : TypeSystem) : containsType ts "x.Tok" = hasExact ts "x.Tok" := by
  simp [containsType, hasDot]

theorem demo'_lit : demo' = (casL, hpL) := by
  unfold demo' Cas.add
  simp only [hp0, List.getElem?_cons_zero, pure, Except.pure, bind, Except.bind]
  rw [containsType_tok]
  decide +kernel

/-- the CAS and heap that `Cas.new` / `Cas.add` produce, as literals -/
theorem demo_lit : demo = (casL, hpL) := by rw [demo_eq, demo'_lit]

def hpS : Heap :=
  [ { ty := "x.Tok", ts := 0, xid := some 2, slots := [("n", .int 7), ("next", .ref 1), ("begin", .int 0), ("end", .int 2), ("sofa", .sofa 0 "_InitialView")] },
    { ty := "x.Tok", ts := 0, xid := some 3, slots := [("n", .none), ("next", .ref 0), ("begin", .int 2), ("end", .int 3), ("sofa", .sofa 0 "_InitialView")] } ]

theorem save_lit : (saveXmi K demoTS' [casL] 0 hpL).toOption.map (fun r => (r.2.heap, r.2.allFs)) = some (hpS, [(2,0),(3,1)]) := by
  decide +kernel

/-! ### Boolean checkers for `FlatFeat` / `FlatFs` -/

def sofaOkB (c : Cas) (ci : Nat) (isAnn : Bool) : Val → Bool
  | .sofa ci' vn => decide (ci' = ci) && (Cas.getViewRec c vn).isSome
  | .none => !isAnn
  | _ => false

def primOkB (range : String) : Val → Bool
  | .none => true
  | .int _ => isIntRange range
  | .str _ => decide (range = "uima.cas.String")
  | .bool _ => decide (range = "uima.cas.Boolean")
  | .float _ => decide (range = "uima.cas.Float") || decide (range = "uima.cas.Double")
  | _ => false

def refOkB (hp : Heap) : Val → Bool
  | .none => true
  | .ref b => (xidOf hp b).isSome && decide (xidOf hp b ≠ some 0)
  | _ => false

def flatFeatB (K : Consts) (ts : TypeSystem) (c : Cas) (ci : Nat) (hp : Heap) (isAnn : Bool) (o : Obj) (f : Feature) : Bool :=
  decide (ResOk f) && decide (f.name ≠ "xmiID") && decide (f.name ≠ "type") && decide (f.name ≠ "self") &&
  decide (f.name ≠ ID) &&
  decide (isPrimitiveArray K f.range = false) && decide (isPrimitiveList K f.range = false) &&
  decide (f.range ≠ FS_ARRAY) && decide (f.range ≠ FS_LIST) &&
  decide (isInstanceOf ts f.range STRING_ARRAY = false) && decide (isInstanceOf ts f.range STRING_LIST = false) &&
  match alistGet? o.slots f.name with
  | none => false
  | some v =>
    (decide (f.name = "sofa") && sofaOkB c ci isAnn v) ||
    (decide (f.name ≠ "sofa") && isPrimitive K ts f.range && primOkB f.range v) ||
    (decide (f.name ≠ "sofa") && !isPrimitive K ts f.range && !isArray K f.range && !isList K f.range &&
      decide (f.range ≠ "uima.cas.Boolean") && decide (f.range ≠ "uima.cas.Double") && decide (f.range ≠ "uima.cas.Float") &&
      refOkB hp v)

theorem sofaOkB_sound (c : Cas) (ci : Nat) (isAnn : Bool) (v : Val) (h : sofaOkB c ci isAnn v = true) :
    (∃ vn, v = .sofa ci vn ∧ (Cas.getViewRec c vn).isSome = true) ∨ (v = .none ∧ isAnn = false) := by
  cases v <;> simp [sofaOkB] at h
  · right; exact ⟨rfl, h⟩
  · left; obtain ⟨h1, h2⟩ := h; subst h1; exact ⟨_, rfl, h2⟩

theorem primOkB_sound (r : String) (v : Val) (h : primOkB r v = true) :
    ( v = .none
    ∨ (isIntRange r = true ∧ ∃ i : Int, v = .int i)
    ∨ (r = "uima.cas.String" ∧ ∃ s : String, v = .str s)
    ∨ (r = "uima.cas.Boolean" ∧ ∃ b : Bool, v = .bool b)
    ∨ ((r = "uima.cas.Float" ∨ r = "uima.cas.Double") ∧ ∃ t : String, v = .float t)) := by
  cases v <;> simp [primOkB] at h
  · exact .inl rfl
  · exact .inr (.inl ⟨h, _, rfl⟩)
  · exact .inr (.inr (.inl ⟨h, _, rfl⟩))
  · exact .inr (.inr (.inr (.inl ⟨h, _, rfl⟩)))
  · exact .inr (.inr (.inr (.inr ⟨h, _, rfl⟩)))

theorem refOkB_sound (hp : Heap) (v : Val) (h : refOkB hp v = true) :
    v = .none ∨ ∃ b : Nat, v = .ref b ∧ (xidOf hp b).isSome = true ∧ xidOf hp b ≠ some 0 := by
  cases v <;> simp [refOkB] at h
  · exact .inl rfl
  · exact .inr ⟨_, rfl, h.1, h.2⟩

theorem flatFeatB_sound (K : Consts) (ts : TypeSystem) (c : Cas) (ci : Nat) (hp : Heap) (isAnn : Bool) (o : Obj) (f : Feature)
    (h : flatFeatB K ts c ci hp isAnn o f = true) : FlatFeat K ts c ci hp isAnn o f := by
  unfold flatFeatB at h
  simp only [Bool.and_eq_true, decide_eq_true_eq] at h
  obtain ⟨⟨⟨⟨⟨⟨⟨⟨⟨⟨⟨h1, h2⟩, h3⟩, h4⟩, h5⟩, h6⟩, h7⟩, h8⟩, h9⟩, h10⟩, h11⟩, h12⟩ := h
  refine ⟨h1, h2, h3, h4, h5, h6, h7, h8, h9, h10, h11, ?_⟩
  cases hv : alistGet? o.slots f.name with
  | none => rw [hv] at h12; exact absurd h12 (by simp)
  | some v =>
    rw [hv] at h12
    refine ⟨v, rfl, ?_⟩
    simp only [Bool.or_eq_true, Bool.and_eq_true, decide_eq_true_eq, Bool.not_eq_true'] at h12
    rcases h12 with (⟨a, b⟩ | ⟨⟨a, b⟩, c'⟩) | ⟨⟨⟨⟨⟨⟨⟨a, b⟩, c'⟩, d⟩, e⟩, g⟩, i⟩, j⟩
    · exact .inl ⟨a, sofaOkB_sound _ _ _ _ b⟩
    · exact .inr (.inl ⟨a, b, primOkB_sound _ _ c'⟩)
    · exact .inr (.inr ⟨a, b, c', d, e, g, i, refOkB_sound _ _ j⟩)

def annOkB (c : Cas) (ci : Nat) (o : Obj) : Bool :=
  match alistGet? o.slots "sofa", alistGet? o.slots "begin", alistGet? o.slots "end" with
  | some (.sofa ci' vn), some (.int b), some (.int e) =>
    decide (ci' = ci) &&
    match Cas.getViewRec c vn with
    | some v =>
      match v.sofa.text with
      | some text => decide (0 ≤ b) && decide (0 ≤ e) && decide (b.toNat ≤ text.length) && decide (e.toNat ≤ text.length)
      | none => false
    | none => false
  | _, _, _ => false

theorem annOkB_sound (c : Cas) (ci : Nat) (o : Obj) (h : annOkB c ci o = true) :
    ∃ (vn : String) (v : View) (text : List Nat) (b e : Nat),
        alistGet? o.slots "sofa" = some (.sofa ci vn) ∧ Cas.getViewRec c vn = some v ∧ v.sofa.text = some text ∧
        alistGet? o.slots "begin" = some (.int b) ∧ alistGet? o.slots "end" = some (.int e) ∧
        b ≤ text.length ∧ e ≤ text.length := by
  unfold annOkB at h
  split at h
  · rename_i ci' vn b e hs hb he
    simp only [Bool.and_eq_true, decide_eq_true_eq] at h
    obtain ⟨hci, h⟩ := h
    subst hci
    split at h
    · rename_i v hv
      split at h
      · rename_i text ht
        simp only [Bool.and_eq_true, decide_eq_true_eq] at h
        obtain ⟨⟨⟨h0b, h0e⟩, hbl⟩, hel⟩ := h
        refine ⟨vn, v, text, b.toNat, e.toNat, hs, hv, ht, ?_, ?_, hbl, hel⟩
        · rw [hb, Int.toNat_of_nonneg h0b]
        · rw [he, Int.toNat_of_nonneg h0e]
      · exact absurd h (by simp)
    · exact absurd h (by simp)
  · exact absurd h (by simp)

def flatFsB (K : Consts) (ts : TypeSystem) (c : Cas) (ci : Nat) (hp : Heap) (a : Nat) : Bool :=
  match hp[a]? with
  | none => false
  | some o =>
    match find? ts o.ty with
    | none => false
    | some t =>
      decide (t.name = o.ty) && decide (isArray K o.ty = false) && decide (isList K o.ty = false) &&
      decide (t.super ≠ some ARRAY_BASE) && decide (isPrimitiveArray K o.ty = false) && decide (o.ty ≠ FS_ARRAY) &&
      decide (isInstanceOf ts o.ty STRING_ARRAY = false) && decide (o.ty ≠ SOFA) && decide (o.ty ≠ VIEW_T) &&
      decide ((ctorFields t).Nodup) && decide (o.slots.map (·.1) = (ctorFields t).eraseDups) &&
      (allFeatures t).all (fun f => flatFeatB K ts c ci hp (isInstanceOf ts o.ty ANNOTATION) o f) &&
      (!isInstanceOf ts o.ty ANNOTATION || annOkB c ci o)

theorem flatFsB_sound (K : Consts) (ts : TypeSystem) (c : Cas) (ci : Nat) (hp : Heap) (a : Nat)
    (h : flatFsB K ts c ci hp a = true) : FlatFs K ts c ci hp a := by
  unfold flatFsB at h
  cases ho : hp[a]? with
  | none => rw [ho] at h; exact absurd h (by simp)
  | some o =>
    rw [ho] at h
    simp only at h
    cases ht : find? ts o.ty with
    | none => rw [ht] at h; exact absurd h (by simp)
    | some t =>
      rw [ht] at h
      simp only [Bool.and_eq_true, decide_eq_true_eq, List.all_eq_true, Bool.or_eq_true, Bool.not_eq_true'] at h
      obtain ⟨⟨⟨⟨⟨⟨⟨⟨⟨⟨⟨⟨h1, h2⟩, h3⟩, h4⟩, h5⟩, h6⟩, h7⟩, h8⟩, h9⟩, h10⟩, h11⟩, h12⟩, h13⟩ := h
      refine ⟨o, t, ho, ht, h1, h2, h3, h4, h5, h6, h7, h8, h9, h10, h11, ?_, ?_⟩
      · intro f hf; exact flatFeatB_sound _ _ _ _ _ _ _ _ (h12 f hf)
      · intro hann
        rcases h13 with h13 | h13
        · rw [hann] at h13; exact absurd h13 (by simp)
        · exact annOkB_sound _ _ _ h13


/-! ### The hypotheses on the instance -/

theorem flat0 : flatFsB K demoTS' casL 0 hpS 0 = true := by decide +kernel
theorem flat1 : flatFsB K demoTS' casL 0 hpS 1 = true := by decide +kernel

theorem nullOk' : NullOk demoTS' := by
  have h : (find? demoTS' NULL_T).map (fun t => allFeatures t) = some [] := by decide +kernel
  cases ht : find? demoTS' NULL_T with
  | none => rw [ht] at h; simp at h
  | some t => rw [ht] at h; exact ⟨t, ht, by simpa using h⟩

theorem views_lit (nv : String × View) (h : nv ∈ casL.views) :
    nv = ("_InitialView",
      { sofa := { sofaID := "_InitialView", sofaNum := 1, xid := 1, text := some [97, 128512, 98],
                  mime := some "text/plain", uri := none, arr := .none, conv := some [0, 1, 3, 4] },
        idx := [("x.Tok", [{ b := 0, e := 2, oid := 0 }])] }) := by
  simpa [casL] using h

theorem rtwf : RTWf casL hpL where
  init_first := by decide +kernel
  names := by decide +kernel
  names_nodup := by decide +kernel
  sofa_ids_nodup := by decide +kernel
  text_sofa := by decide +kernel
  conv := by
    intro nv hnv t ht
    rw [views_lit nv hnv] at ht ⊢
    simp only [Option.some.injEq] at ht
    subst ht
    decide +kernel
  conv_none := by
    intro nv hnv ht
    rw [views_lit nv hnv] at ht
    simp at ht
  scalar := by
    intro nv hnv t ht cp hcp
    rw [views_lit nv hnv] at ht
    simp only [Option.some.injEq] at ht
    subst ht
    simp only [List.mem_cons, List.not_mem_nil, or_false] at hcp
    unfold Offsets.IsScalar
    omega
  next_pos := by decide +kernel
  ids_below := by
    intro a ob x h hx
    match a with
    | 0 => simp [hpL] at h; subst h; simp at hx; subst hx; decide
    | 1 => simp [hpL] at h; subst h; simp at hx
    | n+2 => simp [hpL] at h
  sofa_ids := by decide +kernel
  ids_pos := by
    intro a ob x h hx
    match a with
    | 0 => simp [hpL] at h; subst h; simp at hx; subst hx; decide
    | 1 => simp [hpL] at h; subst h; simp at hx
    | n+2 => simp [hpL] at h

theorem membersOk : MembersOk casL hpS := by
  intro nv hnv
  rw [views_lit nv hnv]
  have hall : ∀ e : Index.Entry, e ∈ Index.all [("x.Tok", [({ b := 0, e := 2, oid := 0 } : Index.Entry)])] →
      e = { b := 0, e := 2, oid := 0 } := by
    intro e he; simpa [Index.all] using he
  constructor
  · intro e he
    rw [hall e he]
    exact ⟨_, { b := 0, e := 2, oid := 0 }, rfl, rfl⟩
  · intro e1 he1 e2 he2 o1 o2 k1 k2 h1 h2 _ hk1 hk2
    rw [hall e1 he1] at h1 hk1
    rw [hall e2 he2] at h2 hk2
    rw [h1] at h2
    have ho : o1 = o2 := by injection h2
    subst ho
    rw [hk1] at hk2
    have hk : k1 = k2 := by injection hk2
    subst hk
    exact Iff.rfl

theorem disjoint_ids : ∀ q ∈ [((2 : Int), 0), (3, 1)], ∀ nv ∈ casL.views, q.1 ≠ nv.2.sofa.xid := by decide +kernel

theorem members_sofa : ∀ nv ∈ casL.views, ∀ e ∈ Index.all nv.2.idx, slot hpS e.oid "sofa" ≠ some .none := by
  decide +kernel

/-- **non-vacuity**: every hypothesis of `xmi_roundtrip_flat` holds for `K := Gen.consts`, `ts := demoTS`,
    `cass := [demo.1]`, `ci := 0`, `c := demo.1`, `hp := demo.2` and the `(doc, st)` that `saveXmi` returns -/
theorem demo_hyps : ∃ (doc : XDoc) (st : Traverse.St),
    saveXmi K demoTS [demo.1] 0 demo.2 = .ok (doc, st) ∧
    [demo.1][0]? = some demo.1 ∧ RTWf demo.1 demo.2 ∧ NullOk demoTS ∧
    (∀ q ∈ st.allFs, FlatFs K demoTS demo.1 0 st.heap q.2) ∧
    (∀ q ∈ st.allFs, ∀ nv ∈ demo.1.views, q.1 ≠ nv.2.sofa.xid) ∧
    (∀ nv ∈ demo.1.views, ∀ e ∈ Index.all nv.2.idx, slot st.heap e.oid "sofa" ≠ some .none) ∧
    MembersOk demo.1 st.heap := by
  rw [demo_eq, demo'_lit, demoTS_eq]
  cases h : saveXmi K demoTS' [casL] 0 hpL with
  | error e =>
    have hs := save_lit
    rw [h] at hs
    simp [Except.toOption] at hs
  | ok r =>
    have hs := save_lit
    rw [h] at hs
    simp only [Except.toOption, Option.map_some, Option.some.injEq, Prod.mk.injEq] at hs
    obtain ⟨hheap, hall⟩ := hs
    refine ⟨r.1, r.2, rfl, rfl, rtwf, nullOk', ?_, ?_, ?_, ?_⟩
    · rw [hheap, hall]
      intro q hq
      simp only [List.mem_cons, List.not_mem_nil, or_false] at hq
      rcases hq with rfl | rfl
      · exact flatFsB_sound _ _ _ _ _ _ flat0
      · exact flatFsB_sound _ _ _ _ _ _ flat1
    · rw [hall]; exact disjoint_ids
    · rw [hheap]; exact members_sofa
    · rw [hheap]; exact membersOk

/-! ### The conclusion of `xmi_roundtrip_flat`, evaluated on the instance

The reader calls `Cas.add`, whose strictness test `containsType` goes through `hasDot` (`String.contains`), which the
kernel cannot evaluate.  The functions from `Cas.add` up to `loadXmi` are therefore mirrored with the dot test as a
parameter `hd`; with `hd := hasDot` they are the model's functions (`loadXmiP_eq`), and `hasDot` equals the function
`hasDotK` that answers for the name `x.Tok` directly. -/

def containsTypeP (hd : String → Bool) (ts : TypeSystem) (n : String) (exact : Bool := false) : Bool :=
  if hd n || exact then hasExact ts n
  else match getType ts n with
    | .ok _ => true
    | .error _ => false

def addP (hd : String → Bool) (ts : TS.TypeSystem) (cas : Nat) (c : Cas) (hp : Heap) (h : Handle) (addr : Nat) (keepId : Bool := true) :
    Except Err (Cas × Heap) := do
  let o ← match hp[addr]? with
    | some o => pure o
    | none => throw .attributeError
  if !h.lenient && !(containsTypeP hd ts o.ty) then throw .runtimeError
  let v ← Cas.cur c h
  let (x, c1) := match keepId, o.xid with
    | true, some x => (x, c)
    | _, _ => (c.nextXid, { c with nextXid := c.nextXid + 1 })
  let slots := if (alistGet? o.slots "sofa").isSome then alistSet o.slots "sofa" (.sofa cas h.view) else o.slots
  let o' : Obj := { o with xid := some x, slots := slots }
  let e ← Cas.entryOf o' addr
  if (Index.get v.idx o.ty).any (fun x => decide (x.b = Index.NONE_KEY) != decide (e.b = Index.NONE_KEY)) then
    throw .typeError
  let v' : View := { v with idx := Index.add v.idx o.ty e }
  pure (Cas.setViewRec c1 h.view v', hp.set addr o')

def addMembersP (hd : String → Bool) (ts : TypeSystem) (ci : Nat) (h : Handle) (conv : Offsets.Conv) (sofas : List (Int × PSofa))
    (lenientIds : List Int) (fss : List (Int × Nat)) : List Int → Build → Except Err Build
  | [], b => .ok b
  | m :: ms, b =>
    if lenientIds.contains m then addMembersP hd ts ci h conv sofas lenientIds fss ms b
    else
      match lookupFs fss m with
      | .error e => .error e
      | .ok a =>
        match b.heap[a]? with
        | none => .error .attributeError
        | some o =>
          let (own, ms') : Option Val × List (Int × Val) :=
            match b.memberSofas.find? (fun q => q.1 == m) with
            | some q => (some q.2, b.memberSofas)
            | none =>
              match slot b.heap a "sofa" with
              | some v => (some v, b.memberSofas ++ [(m, v)])
              | none => (none, b.memberSofas)
          let r : Except Err (Heap × List Int) :=
            if !(b.converted.contains m) && isInstanceOf ts o.ty ANNOTATION then
              match convertOffsets (ownConv sofas conv own) b.heap a with
              | .error e => .error e
              | .ok hp' => .ok (hp', b.converted ++ [m])
            else .ok (b.heap, b.converted)
          match r with
          | .error e => .error e
          | .ok (hp1, cv1) =>
            match addP hd ts ci b.cas hp1 h a true with
            | .error e => .error e
            | .ok (c', hp2) =>
              addMembersP hd ts ci h conv sofas lenientIds fss ms { cas := c', heap := hp2, converted := cv1, memberSofas := ms' }

def buildViewP (hd : String → Bool) (ts : TypeSystem) (ci : Nat) (lenient : Bool) (p : Pass1) (s : PSofa) (b : Build) : Except Err Build :=
  let h0 : Handle := { view := Cas.INITIAL_VIEW, lenient := lenient }
  let h : Handle := { view := s.sofaID, lenient := lenient }
  let c1 : Except Err Cas :=
    if s.sofaID == Cas.INITIAL_VIEW then
      Cas.updSofa b.cas h0 (fun so => { so with xid := s.xid, sofaNum := s.num })
    else
      match Cas.createView b.cas h0 s.sofaID (some s.xid) (some s.num) with
      | .error e => .error e
      | .ok (c', _) => .ok c'
  match c1 with
  | .error e => .error e
  | .ok c1 =>
    let conv := convOfText s.text
    match Cas.updSofa c1 h (fun so => { so with text := s.text.map (fun t => t.toList.map Char.toNat), conv := conv, mime := s.mime }) with
    | .error e => .error e
    | .ok c2 =>
      let members := match p.views.find? (fun q => q.1 == s.xid) with
        | some q => q.2.members
        | none => []
      addMembersP hd ts ci h conv p.sofas p.lenientIds p.fss members { b with cas := c2 }

def buildViewsP (hd : String → Bool) (ts : TypeSystem) (ci : Nat) (lenient : Bool) (p : Pass1) : List (Int × PSofa) → Build → Except Err Build
  | [], b => .ok b
  | (_, s) :: rest, b =>
    match buildViewP hd ts ci lenient p s b with
    | .error e => .error e
    | .ok b' => buildViewsP hd ts ci lenient p rest b'

def buildCasP (hd : String → Bool) (_K : Consts) (ts : TypeSystem) (ci : Nat) (lenient : Bool) (p : Pass1) (hp : Heap) : Except Err Loaded :=
  match buildViewsP hd ts ci lenient p p.sofas { cas := Cas.empty, heap := hp } with
  | .error e => .error e
  | .ok b0 =>
    match rehome p.fss b0.memberSofas b0.heap with
    | .error e => .error e
    | .ok hpR =>
    let b : Build := { b0 with heap := hpR }
    match convertReferenced ts p b.converted p.fss b.heap with
    | .error e => .error e
    | .ok heap => .ok { cas := { b.cas with nextXid := p.maxId + 1, nextSofaNum := p.maxNum + 1 }, heap := heap }

def loadXmiP (hd : String → Bool) (K : Consts) (ts : TypeSystem) (tsIdx ci : Nat) (lenient : Bool) (hp : Heap) (doc : XDoc) : Except Err Loaded := do
  let p ← pass1 K ts tsIdx lenient doc { heap := hp }
  let hp2 ← postAll K ts tsIdx ci p.sofas p.fss p.fss p.heap
  buildCasP hd K ts ci lenient p hp2

theorem containsTypeP_eq : containsTypeP hasDot = containsType := rfl

theorem addP_eq : addP hasDot = Cas.add := rfl

theorem addMembersP_eq (ts : TypeSystem) (ci : Nat) (h : Handle) (conv : Offsets.Conv) (sofas : List (Int × PSofa))
    (lenientIds : List Int) (fss : List (Int × Nat)) (ms : List Int) (b : Build) :
    addMembersP hasDot ts ci h conv sofas lenientIds fss ms b = addMembers ts ci h conv sofas lenientIds fss ms b := by
  induction ms generalizing b with
  | nil => rfl
  | cons m ms ih =>
    unfold addMembersP addMembers
    simp only [ih]
    rfl

theorem buildViewP_eq (ts : TypeSystem) (ci : Nat) (lenient : Bool) (p : Pass1) (s : PSofa) (b : Build) :
    buildViewP hasDot ts ci lenient p s b = buildView ts ci lenient p s b := by
  unfold buildViewP buildView
  simp only [addMembersP_eq]
  rfl

theorem buildViewsP_eq (ts : TypeSystem) (ci : Nat) (lenient : Bool) (p : Pass1) (l : List (Int × PSofa)) (b : Build) :
    buildViewsP hasDot ts ci lenient p l b = buildViews ts ci lenient p l b := by
  induction l generalizing b with
  | nil => rfl
  | cons q l ih =>
    obtain ⟨i, s⟩ := q
    unfold buildViewsP buildViews
    simp only [buildViewP_eq, ih]
    rfl

theorem loadXmiP_eq (K : Consts) (ts : TypeSystem) (tsIdx ci : Nat) (lenient : Bool) (hp : Heap) (doc : XDoc) :
    loadXmiP hasDot K ts tsIdx ci lenient hp doc = loadXmi K ts tsIdx ci lenient hp doc := by
  unfold loadXmiP loadXmi buildCasP buildCas
  simp only [buildViewsP_eq]
  rfl

/-- `hasDot`, answering for the one user type name of the instance without `String.contains` -/
def hasDotK (n : String) : Bool := if n = "x.Tok" then true else hasDot n

theorem hasDotK_eq : hasDot = hasDotK := by
  funext n
  unfold hasDotK
  split
  · next h => subst h; simp [hasDot]
  · rfl

theorem loadXmi_eq_K (K : Consts) (ts : TypeSystem) (tsIdx ci : Nat) (lenient : Bool) (hp : Heap) (doc : XDoc) :
    loadXmi K ts tsIdx ci lenient hp doc = loadXmiP hasDotK K ts tsIdx ci lenient hp doc := by
  rw [← loadXmiP_eq, hasDotK_eq]

theorem loadXmi_fun_eq_K (K : Consts) (ts : TypeSystem) : loadXmi K ts = loadXmiP hasDotK K ts := by
  funext tsIdx ci lenient hp doc
  exact loadXmi_eq_K K ts tsIdx ci lenient hp doc

/-- the conclusion of `xmi_roundtrip_flat` as a Boolean function of the inputs (`load` is `loadXmi K ts`) -/
def conclWith (load : Nat → Nat → Bool → Heap → XDoc → Except Err Loaded)
    (K : Consts) (ts : TypeSystem) (cass : List Cas) (ci : Nat) (c : Cas) (hp : Heap) (tsIdx ci' : Nat) : Bool :=
  match saveXmi K ts cass ci hp with
  | .error _ => false
  | .ok (doc, st) =>
    match pass1 K ts tsIdx false doc { heap := st.heap }, load tsIdx ci' false st.heap doc with
    | .ok p, .ok ld =>
      decide (p.fss.map (·.1) = 0 :: (sortById st.allFs).map (·.1)) &&
      st.allFs.all (fun q =>
        match lookupFs p.fss q.1, st.heap[q.2]? with
        | .ok a', some o =>
          match ld.heap[a']?, find? ts o.ty with
          | some o', some t =>
            decide (o'.ty = o.ty) && decide (o'.xid = some q.1) &&
            (allFeatures t).all (fun f => decide (featContent ld.heap a' f.name = featContent st.heap q.2 f.name))
          | _, _ => false
        | _, _ => false) &&
      decide (ld.cas.views.map (viewContent ld.heap) = c.views.map (viewContent st.heap)) &&
      st.allFs.all (fun q => decide (q.1 < ld.cas.nextXid)) &&
      c.views.all (fun nv => decide (nv.2.sofa.xid < ld.cas.nextXid) && decide (nv.2.sofa.sofaNum < ld.cas.nextSofaNum))
    | _, _ => false

def conclB (K : Consts) (ts : TypeSystem) (cass : List Cas) (ci : Nat) (c : Cas) (hp : Heap) (tsIdx ci' : Nat) : Bool :=
  conclWith (loadXmi K ts) K ts cass ci c hp tsIdx ci'

/-- saving and loading the instance (type system index 0, the loaded CAS registered as CAS 1): loading succeeds, the
    same ids, types, feature contents, views, and reseeded generators -/
theorem demo_concl : conclB K demoTS [demo.1] 0 demo.1 demo.2 0 1 = true := by
  unfold conclB
  rw [demo_eq, demo'_lit, demoTS_eq, loadXmi_fun_eq_K]
  decide +kernel

/-- what was compared: the attributes of the saved document, the view contents of the loaded CAS, and the contents of
    the five features of every loaded structure (references by id; offsets back in code points although the document
    has UTF-16 offsets: `end="3"` became 2) -/
def loadedWith (load : Nat → Nat → Bool → Heap → XDoc → Except Err Loaded)
    (K : Consts) (ts : TypeSystem) (cass : List Cas) (ci : Nat) (hp : Heap) (tsIdx ci' : Nat) :
    Option (List (String × List (String × String)) × List ViewContent × List (Int × List (String × DVal)) × Int × Int) :=
  match saveXmi K ts cass ci hp with
  | .error _ => none
  | .ok (doc, st) =>
    match pass1 K ts tsIdx false doc { heap := st.heap }, load tsIdx ci' false st.heap doc with
    | .ok p, .ok ld =>
      some (doc.map (fun e => (e.ty, e.attrs)), ld.cas.views.map (viewContent ld.heap),
        p.fss.map (fun q => (q.1, ["n", "next", "begin", "end", "sofa"].map (fun n => (n, featContent ld.heap q.2 n)))),
        ld.cas.nextXid, ld.cas.nextSofaNum)
    | _, _ => none

set_option synthInstance.maxSize 1024 in
theorem demo_loaded : loadedWith (loadXmi K demoTS) K demoTS [demo.1] 0 demo.2 0 1 = some
    ( [ ("uima.cas.NULL", [("xmi:id", "0")]),
        ("x.Tok", [("xmi:id", "2"), ("n", "7"), ("next", "3"), ("begin", "0"), ("end", "3"), ("sofa", "1")]),
        ("x.Tok", [("xmi:id", "3"), ("next", "2"), ("begin", "3"), ("end", "4"), ("sofa", "1")]),
        ("uima.cas.Sofa", [("xmi:id", "1"), ("sofaNum", "1"), ("sofaID", "_InitialView"), ("mimeType", "text/plain"),
            ("sofaString", "a😀b")]),
        ("uima.cas.View", [("sofa", "1"), ("members", "2")]) ],
      [ { name := "_InitialView", xid := 1, num := 1, text := some [97, 128512, 98], mime := some "text/plain", members := [2] } ],
      [ (0, [("n", .none), ("next", .none), ("begin", .none), ("end", .none), ("sofa", .none)]),
        (2, [("n", .int 7), ("next", .ref (some 3)), ("begin", .int 0), ("end", .int 2), ("sofa", .sofa "_InitialView")]),
        (3, [("n", .none), ("next", .ref (some 2)), ("begin", .int 2), ("end", .int 3), ("sofa", .sofa "_InitialView")]) ],
      4, 2 ) := by
  rw [demo_eq, demo'_lit, demoTS_eq, loadXmi_fun_eq_K]
  decide +kernel

end Cassis.Xmi.Demo
