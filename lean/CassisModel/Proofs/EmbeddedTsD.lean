/-
Helper lemmas for `Properties/C02EmbeddedTs.lean`, part D: the second pass of the reader (the features).  A writable
feature declaration is decoded to a `create_feature` call that re-creates the feature up to `Feature.__eq__`; the call
succeeds inside the simulation.
-/
import CassisModel.Proofs.EmbeddedTsC

namespace Cassis.Json
open Cassis.TS

/-! ### Strings -/

theorem endsWith_brackets (e : String) : (e ++ "[]").endsWith "[]" = true := by
  unfold String.endsWith
  rw [String.Slice.endsWith_string_iff]
  simp [String.toList_append]

theorem dropLast2_brackets (e : String) : String.ofList ((e ++ "[]").toList.dropLast.dropLast) = e := by
  simp [String.toList_append]

/-! ### Closed facts about the generated tables -/

theorem arrayTypeNameFor_nonprim (e : String) (h : Gen.consts.primitive.contains e = false) :
    arrayTypeNameFor e = FS_ARRAY := by
  have hall : Gen.arrayTypeNameTable.all (fun p => Gen.consts.primitive.contains p.1 || p.2 == FS_ARRAY) = true := by
    decide +kernel
  unfold arrayTypeNameFor
  cases hf : Gen.arrayTypeNameTable.find? (fun p => p.1 == e) with
  | none => rfl
  | some p =>
    have hm := List.mem_of_find?_eq_some hf
    have hpe : p.1 = e := by simpa using List.find?_some hf
    have := List.all_eq_true.mp hall p hm
    rw [hpe, h] at this
    simp only [Bool.false_or, beq_iff_eq] at this
    simp only [Option.map_some, Option.getD_some]
    exact this

theorem isArray_cases (r : String) (h : isArray Gen.consts r = true) :
    isPrimitiveArray Gen.consts r = true ∨ r = FS_ARRAY := by
  unfold isArray at h
  rw [Bool.and_eq_true] at h
  have hm := List.contains_iff_mem.mp h.2
  simp only [Gen.consts, List.mem_cons, List.not_mem_nil, or_false] at hm
  rcases hm with rfl | rfl | rfl | rfl | rfl | rfl | rfl | rfl | rfl
  all_goals first
    | (left; decide)
    | (right; rfl)

theorem isPrimitiveArray_isArray (r : String) (h : isPrimitiveArray Gen.consts r = true) :
    isArray Gen.consts r = true := by
  rcases primArray_cases r h with rfl | rfl | rfl | rfl | rfl | rfl | rfl | rfl <;> decide

/-! ### `create_feature` on registered names -/

theorem createFeature_resolved (ts : TypeSystem) (dom nm r : String) (e d : Option String) (m : Option Bool)
    (hd : hasExact ts dom = true) (hr : hasExact ts r = true) (he : e.all (hasExact ts) = true) :
    createFeature ts dom nm r e d m = addFeature ts dom
      { name := if (nm == "self" || nm == "type") = true then nm ++ "_" else nm, domain := dom, range := r,
        elem := e, descr := d, multi := m, reserved := nm == "self" || nm == "type" } := by
  obtain ⟨td, htd⟩ := (hasExact_iff_find _ _).mp hd
  obtain ⟨tr, htr⟩ := (hasExact_iff_find _ _).mp hr
  unfold createFeature
  simp only [bind, Except.bind, getType_of_find htd, getType_of_find htr, find?_name htd, find?_name htr]
  cases e with
  | none => rfl
  | some x =>
    simp only [Option.all_some] at he
    obtain ⟨te, hte⟩ := (hasExact_iff_find _ _).mp he
    simp only [getType_of_find hte, find?_name hte, pure, Except.pure]

/-- the name a reserved feature is written under leads back to the feature's name -/
theorem name_roundtrip (f : Feature)
    (h : (if f.reserved then f.name == "self_" || f.name == "type_" else f.name != "self" && f.name != "type") = true) :
    (if ((renderFeatDecl Gen.consts f).name == "self" || (renderFeatDecl Gen.consts f).name == "type") = true
      then (renderFeatDecl Gen.consts f).name ++ "_" else (renderFeatDecl Gen.consts f).name) = f.name := by
  have hn : (renderFeatDecl Gen.consts f).name =
      if f.reserved then String.ofList f.name.toList.dropLast else f.name := rfl
  rw [hn]
  cases hres : f.reserved with
  | true =>
    rw [hres] at h
    simp only [if_true, Bool.or_eq_true, beq_iff_eq] at h ⊢
    rcases h with h | h <;> rw [h] <;> decide
  | false =>
    rw [hres] at h
    simp only [Bool.false_eq_true, if_false, Bool.and_eq_true, bne_iff_ne, ne_eq] at h ⊢
    have e1 : (f.name == "self") = false := beq_false_of_ne h.1
    have e2 : (f.name == "type") = false := beq_false_of_ne h.2
    simp only [e1, e2, Bool.or_false, Bool.false_eq_true, if_false]

/-- decoding a writable declaration: the range comes back, the element type up to "absent = TOP" -/
theorem decode_feat (ts : TypeSystem) (dom : String) (f : Feature) (hfw : FeatWritable Gen.consts f) :
    ∃ e', featStep Gen.consts dom ts (renderFeatDecl Gen.consts f) =
        createFeature ts dom (renderFeatDecl Gen.consts f).name f.range e' f.descr f.multi ∧
      e'.getD TOP = f.elem.getD TOP ∧ (e' = f.elem ∨ e' = none ∨ e' = some (f.elem.getD TOP)) := by
  obtain ⟨hdescr, hnoarr, hprim, hfs⟩ := hfw
  have hd : (renderFeatDecl Gen.consts f).descr = f.descr := descr_norm f.descr hdescr
  have hm : (renderFeatDecl Gen.consts f).multi = f.multi := rfl
  cases harr : isArray Gen.consts f.range with
  | false =>
    obtain ⟨h1, h2⟩ := range_roundtrip_other_aux f harr
    refine ⟨f.elem, ?_, rfl, Or.inl rfl⟩
    unfold featStep
    simp only [h1, h2, hd, hm, hnoarr harr, Bool.false_eq_true, if_false, Bool.false_and]
  | true =>
    rcases isArray_cases f.range harr with hpa | hfsa
    · obtain ⟨h1, h2, h3⟩ := range_roundtrip_primArray_aux f hpa
      refine ⟨none, ?_, ?_, Or.inr (Or.inl rfl)⟩
      · unfold featStep
        simp only [h1, h2, hd, hm, if_true, Option.getD_some, hpa, Bool.and_self]
      · rw [hprim hpa]; rfl
    · obtain ⟨h1, h2⟩ := range_roundtrip_fsArray_aux f hfsa
      have hnp := hfs hfsa
      refine ⟨some (f.elem.getD TOP), ?_, rfl, Or.inr (Or.inr rfl)⟩
      unfold featStep
      have hpfs : isPrimitiveArray Gen.consts FS_ARRAY = false := by decide
      simp only [h1, endsWith_brackets, dropLast2_brackets, hd, hm, if_true, Option.getD_some,
        arrayTypeNameFor_nonprim _ hnp, hpfs, Bool.and_false, Bool.false_eq_true, if_false, hfsa]

/-! ### One feature inside the simulation -/

theorem featStep_ok {o : TypeSystem} (ho : Hist o) (t : TypeRec) (hto : find? o t.name = some t)
    (hp : Gen.consts.predefined.contains t.name = false) (f : Feature) (hf : f ∈ t.own)
    (hfw : FeatWritable Gen.consts f) (hfo : featOkB o f = true)
    (ts : TypeSystem) (hi : EInv o ts) (hreg : RegLe o ts) :
    ∃ ts', featStep Gen.consts t.name ts (renderFeatDecl Gen.consts f) = .ok ts' ∧ EInv o ts' ∧
      Grow Gen.consts ts ts' ∧ ∃ t', find? ts' t.name = some t' ∧ ∃ g ∈ eff t', featureEq g f = true := by
  obtain ⟨e', hdec, hget, hcases⟩ := decode_feat ts t.name f hfw
  unfold featOkB at hfo
  simp only [Bool.and_eq_true] at hfo
  obtain ⟨⟨hr, he⟩, hnm⟩ := hfo
  have hdreg : hasExact ts t.name = true := hreg _ ((hasExact_iff_find _ _).mpr ⟨t, hto⟩)
  have hrreg : hasExact ts f.range = true := hreg _ hr
  have hereg : e'.all (hasExact ts) = true := by
    have hfe : f.elem.all (hasExact ts) = true := by
      cases hfe : f.elem with
      | none => rfl
      | some x =>
        rw [hfe] at he
        simp only [Option.all_some] at he ⊢
        exact hreg _ he
    rcases hcases with rfl | rfl | rfl
    · exact hfe
    · rfl
    · simp only [Option.all_some]
      cases hfe' : f.elem with
      | none =>
        simp only [Option.getD_none]
        exact hi.grow.reg _ (by decide +kernel)
      | some x =>
        rw [hfe'] at hfe
        simpa using hfe
  rw [createFeature_resolved ts t.name _ f.range e' f.descr f.multi hdreg hrreg hereg, name_roundtrip f hnm] at hdec
  -- the re-created feature
  obtain ⟨f', hdec', heq⟩ : ∃ f' : Feature,
      featStep Gen.consts t.name ts (renderFeatDecl Gen.consts f) = addFeature ts t.name f' ∧
      featureEq f f' = true :=
    ⟨_, hdec, by rw [featureEq_iff]; exact ⟨rfl, rfl, rfl, hget.symm⟩⟩
  have hcov : CovIn o t.name f' := ⟨t, hto, f, List.mem_append_left _ hf, heq⟩
  obtain ⟨ts', hadd, hs'⟩ := addFeature_sub o ho.feat ts t.name f' hi.cons hi.sub hdreg hcov
  have hg : Grow Gen.consts ts ts' := addFeature_grow Gen.consts hi.cons hi.feat hp hadd
  obtain ⟨t', ht', g, hg', hgf⟩ := addFeature_covers hi.cons hi.feat hadd
  refine ⟨ts', by rw [hdec']; exact hadd,
    ⟨consistent_addFeature_aux ts ts' t.name f' hi.cons hadd,
     featInv_addFeature_aux ts ts' t.name f' hi.cons hi.feat hadd, hs', hi.grow.trans hg⟩,
    hg, t', ht', g, hg', featureEq_trans hgf (featureEq_symm heq)⟩

/-! ### The features of one declaration, and of all -/

theorem regLe_grow {o a b : TypeSystem} (h : RegLe o a) (hg : Grow Gen.consts a b) : RegLe o b :=
  fun x hx => hg.reg x (h x hx)

theorem featsInner {o : TypeSystem} (ho : Hist o) (t : TypeRec) (hto : find? o t.name = some t)
    (hp : Gen.consts.predefined.contains t.name = false)
    (hall : ∀ f ∈ t.own, FeatWritable Gen.consts f ∧ featOkB o f = true) :
    ∀ (fs : List Feature) (ts : TypeSystem), (∀ f ∈ fs, f ∈ t.own) → EInv o ts → RegLe o ts →
      ∃ ts', (fs.map (renderFeatDecl Gen.consts)).foldlM (featStep Gen.consts t.name) ts = .ok ts' ∧ EInv o ts' ∧
        Grow Gen.consts ts ts' ∧ ∃ t', find? ts' t.name = some t' ∧ ∀ f ∈ fs, ∃ g ∈ eff t', featureEq g f = true := by
  intro fs
  induction fs with
  | nil =>
    intro ts _ hi hreg
    obtain ⟨t', ht'⟩ := (hasExact_iff_find _ _).mp (hreg _ ((hasExact_iff_find _ _).mpr ⟨t, hto⟩))
    exact ⟨ts, rfl, hi, Grow.refl _ _, t', ht', fun f hf => by cases hf⟩
  | cons f fs ih =>
    intro ts hsub hi hreg
    have hfm := hsub f List.mem_cons_self
    obtain ⟨ts1, h1, hi1, hg1, t1, ht1, g, hg, hgf⟩ :=
      featStep_ok ho t hto hp f hfm (hall f hfm).1 (hall f hfm).2 ts hi hreg
    obtain ⟨ts', h2, hi2, hg2, t', ht', hcov⟩ :=
      ih ts1 (fun x hx => hsub x (List.mem_cons_of_mem _ hx)) hi1 (regLe_grow hreg hg1)
    refine ⟨ts', ?_, hi2, hg1.trans hg2, t', ht', ?_⟩
    · simp only [List.map_cons, List.foldlM_cons, bind, Except.bind, h1]
      exact h2
    · intro x hx
      rcases List.mem_cons.mp hx with rfl | hx
      · obtain ⟨t'', ht'', hsub'⟩ := grow_cov hg2 ht1
        rw [ht'] at ht''; cases ht''
        exact ⟨g, hsub' g hg, hgf⟩
      · exact hcov x hx

theorem featsOuter {o : TypeSystem} (ho : Hist o) (ho2 : Hist2 o) (hw : Writable Gen.consts o) :
    ∀ (L : List TypeRec) (ts : TypeSystem), (∀ t ∈ L, t ∈ fullRecs Gen.consts o) → EInv o ts → RegLe o ts →
      ∃ ts', (L.map (renderTypeDecl0 Gen.consts)).foldlM (featsStep Gen.consts) ts = .ok ts' ∧ EInv o ts' ∧
        Grow Gen.consts ts ts' ∧
        ∀ t ∈ L, ∃ t', find? ts' t.name = some t' ∧ ∀ f ∈ t.own, ∃ g ∈ eff t', featureEq g f = true := by
  intro L
  induction L with
  | nil =>
    intro ts _ hi _
    exact ⟨ts, rfl, hi, Grow.refl _ _, fun t ht => by cases ht⟩
  | cons t L ih =>
    intro ts hsub hi hreg
    obtain ⟨htm, hp, hnd⟩ := (mem_fullRecs _ _ _).mp (hsub t List.mem_cons_self)
    have hto : find? o t.name = some t := find?_of_mem ho.cons.nodup htm
    have hall : ∀ f ∈ t.own, FeatWritable Gen.consts f ∧ featOkB o f = true :=
      fun f hf => ⟨(hw.2 t htm hp hnd).2 f hf, ho2.ownOk _ t hto f hf⟩
    obtain ⟨ts1, h1, hi1, hg1, t1, ht1, hcov1⟩ := featsInner ho t hto hp hall t.own ts (fun _ h => h) hi hreg
    obtain ⟨ts', h2, hi2, hg2, hcov2⟩ :=
      ih ts1 (fun x hx => hsub x (List.mem_cons_of_mem _ hx)) hi1 (regLe_grow hreg hg1)
    obtain ⟨t0, ht0⟩ := (hasExact_iff_find _ _).mp (hreg _ ((hasExact_iff_find _ _).mpr ⟨t, hto⟩))
    have hstep : featsStep Gen.consts ts (renderTypeDecl0 Gen.consts t) = .ok ts1 := by
      unfold featsStep
      have hn : (renderTypeDecl0 Gen.consts t).name = t.name := rfl
      have hfs : (renderTypeDecl0 Gen.consts t).feats = t.own.map (renderFeatDecl Gen.consts) := rfl
      simp only [hn, hfs, getType_of_find ht0, find?_name ht0, bind, Except.bind]
      exact h1
    refine ⟨ts', ?_, hi2, hg1.trans hg2, ?_⟩
    · simp only [List.map_cons, List.foldlM_cons, bind, Except.bind, hstep]
      exact h2
    · intro x hx
      rcases List.mem_cons.mp hx with rfl | hx
      · obtain ⟨t'', ht'', hsub'⟩ := grow_cov hg2 ht1
        refine ⟨t'', ht'', ?_⟩
        intro f hf
        obtain ⟨g, hg, hgf⟩ := hcov1 f hf
        exact ⟨g, hsub' g hg, hgf⟩
      · exact hcov2 x hx

end Cassis.Json
