/-
Round trip, layer 1 (part): the first pass of the reader on one element without child elements.
-/
import CassisModel.Proofs.RoundTripDefs
import CassisModel.Proofs.Xmi
import CassisModel.Proofs.XmiLoad2

namespace Cassis.Xmi
open Cassis.TS Cassis.Traverse Cassis.Lex

/-- the keyword arguments the reader builds out of the attributes `A` (the id attribute removed) -/
def mergedOf (A : List (String × String)) : List (String × Val) :=
  match alistGet? A "sofa" with
  | some s =>
    match parseInt s with
    | some i => alistSet (A.map (fun p => (p.1, Val.str p.2))) "sofa" (Val.int i)
    | none => A.map (fun p => (p.1, Val.str p.2))
  | none => A.map (fun p => (p.1, Val.str p.2))

def objOf (t : TypeRec) (tsIdx : Nat) (x : Int) (A : List (String × String)) : Obj :=
  { ty := t.name, ts := tsIdx, xid := some x,
    slots := (ctorFields t).eraseDups.map (fun n => (n, (alistGet? (mergedOf A) n).getD .none)) }

theorem alistGet?_cons_self {β} (k : String) (v : β) (l : List (String × β)) :
    alistGet? ((k, v) :: l) k = some v := by
  unfold alistGet?; simp

theorem alistGet?_cons_ne {β} (k k' : String) (v : β) (l : List (String × β)) (h : k' ≠ k) :
    alistGet? ((k', v) :: l) k = alistGet? l k := by
  rw [alistGet?]; simp [h]

theorem alistGet?_mapStr (A : List (String × String)) (k : String) :
    alistGet? (A.map (fun p => (p.1, Val.str p.2))) k = (alistGet? A k).map Val.str := by
  induction A with
  | nil => rfl
  | cons p rest ih =>
    obtain ⟨k', v'⟩ := p
    simp only [List.map_cons]
    by_cases h : k' = k
    · subst h; rw [alistGet?_cons_self, alistGet?_cons_self]; rfl
    · rw [alistGet?_cons_ne _ _ _ _ h, alistGet?_cons_ne _ _ _ _ h, ih]

theorem filter_noId (A : List (String × String)) (h : ∀ p ∈ A, p.1 ≠ ID) :
    (A.map (fun p => (p.1, Val.str p.2))).filter (fun p => p.1 != ID) = A.map (fun p => (p.1, Val.str p.2)) := by
  rw [List.filter_eq_self]
  intro q hq
  obtain ⟨p, hp, rfl⟩ := List.mem_map.mp hq
  simp only [bne_iff_ne, ne_eq]
  exact h p hp

theorem mergedOf_none (A : List (String × String)) (h : alistGet? A "sofa" = none) :
    mergedOf A = A.map (fun p => (p.1, Val.str p.2)) := by
  unfold mergedOf; rw [h]

theorem mergedOf_some (A : List (String × String)) (s : String) (i : Int) (h : alistGet? A "sofa" = some s)
    (hi : parseInt s = some i) :
    mergedOf A = alistSet (A.map (fun p => (p.1, Val.str p.2))) "sofa" (Val.int i) := by
  unfold mergedOf; rw [h]; dsimp only; rw [hi]

theorem mergedOf_keys (A : List (String × String)) : (mergedOf A).map (·.1) = A.map (·.1) := by
  have hm : (A.map (fun p => (p.1, Val.str p.2))).map (·.1) = A.map (·.1) := by
    rw [List.map_map]; rfl
  unfold mergedOf
  cases hs : alistGet? A "sofa" with
  | none => exact hm
  | some s =>
    dsimp only
    cases hi : parseInt s with
    | none => exact hm
    | some i =>
      dsimp only
      rw [Cassis.Index.alistSet_keys, hm, if_pos]
      rw [← Cassis.Cas.alistGet?_isSome_iff, hs]; rfl

theorem rename_id (M : List (String × Val)) (o n : String) (h : ∀ p ∈ M, p.1 ≠ o) :
    M.map (fun p => if (p.1 == o) = true then (n, p.2) else p) = M := by
  conv => rhs; rw [← List.map_id M]
  apply List.map_congr_left
  intro p hp
  have := h p hp
  simp [this]

/-- renaming the keys of an association list by a function that fixes the key `n` and maps no other key to it -/
theorem alistGet?_mapKey {β} (g : String → String) (n : String) (hg : ∀ k, g k = n ↔ k = n)
    (l : List (String × β)) : alistGet? (l.map (fun p => (g p.1, p.2))) n = alistGet? l n := by
  induction l with
  | nil => rfl
  | cons p rest ih =>
    obtain ⟨k', v'⟩ := p
    rw [List.map_cons]
    by_cases h : k' = n
    · subst h
      have : g k' = k' := (hg k').mpr rfl
      show alistGet? ((g k', v') :: _) k' = _
      rw [this, alistGet?_cons_self, alistGet?_cons_self]
    · have : g k' ≠ n := fun e => h ((hg k').mp e)
      show alistGet? ((g k', v') :: _) n = _
      rw [alistGet?_cons_ne _ _ _ _ this, alistGet?_cons_ne _ _ _ _ h, ih]

theorem alistSet_mapKey {β} (g : String → String) (n : String) (hg : ∀ k, g k = n ↔ k = n)
    (l : List (String × β)) (v : β) :
    (alistSet l n v).map (fun p => (g p.1, p.2)) = alistSet (l.map (fun p => (g p.1, p.2))) n v := by
  have hn : g n = n := (hg n).mpr rfl
  induction l with
  | nil => simp [alistSet, hn]
  | cons p rest ih =>
    obtain ⟨k', v'⟩ := p
    by_cases h : k' = n
    · subst h
      simp [alistSet, hn]
    · have : g k' ≠ n := fun e => h ((hg k').mp e)
      simp [alistSet, h, this, ih]

theorem renRes_eq_iff (n : String) (h1 : n ≠ "self") (h2 : n ≠ "type") (h3 : n ≠ "self_") (h4 : n ≠ "type_") :
    ∀ k, renRes k = n ↔ k = n := by
  intro k
  unfold renRes
  by_cases hk1 : k = "self"
  · subst hk1; simp [h1.symm, h3.symm]
  · by_cases hk2 : k = "type"
    · subst hk2; simp [h2.symm, h4.symm]
    · simp [hk1, hk2]

theorem renRes_sofa : ∀ k, renRes k = "sofa" ↔ k = "sofa" :=
  renRes_eq_iff "sofa" (by decide) (by decide) (by decide) (by decide)

theorem renRes_id : ∀ k, renRes k = ID ↔ k = ID :=
  renRes_eq_iff ID (by decide) (by decide) (by decide) (by decide)

/-- the reader's two renamings, one after the other, are `renRes` -/
theorem rename_rename (M : List (String × Val)) :
    List.map (fun p => if (p.fst == "type") = true then ("type_", p.snd) else p)
      (List.map (fun p => if (p.fst == "self") = true then ("self_", p.snd) else p) M) =
    M.map (fun p => (renRes p.1, p.2)) := by
  rw [List.map_map]
  apply List.map_congr_left
  intro p _
  obtain ⟨k, v⟩ := p
  simp only [Function.comp]
  unfold renRes
  by_cases h1 : k = "self"
  · subst h1; rfl
  · by_cases h2 : k = "type"
    · subst h2; rfl
    · simp [h1, h2]

/-- the keyword arguments of the renamed attributes are the renamed keyword arguments -/
theorem mergedOf_ren (A : List (String × String)) :
    (mergedOf A).map (fun p => (renRes p.1, p.2)) = mergedOf (A.map (fun p => (renRes p.1, p.2))) := by
  have hm : (A.map (fun p => (p.1, Val.str p.2))).map (fun p => (renRes p.1, p.2)) =
      (A.map (fun p => (renRes p.1, p.2))).map (fun p => (p.1, Val.str p.2)) := by
    rw [List.map_map, List.map_map]; rfl
  unfold mergedOf
  rw [alistGet?_mapKey renRes "sofa" renRes_sofa A]
  cases alistGet? A "sofa" with
  | none => exact hm
  | some s =>
    dsimp only
    cases parseInt s with
    | none => exact hm
    | some i =>
      dsimp only
      rw [alistSet_mapKey renRes "sofa" renRes_sofa, hm]

/-- the first pass on an element without child elements whose attributes `A` are written under the names `xmlName`:
    the object is built from the attributes under their stored names (`renRes`) -/
theorem parseFsElem_flat (K : Consts) (ts : TypeSystem) (tsIdx : Nat) (hp : Heap) (e : XElem) (t : TypeRec) (x : Int)
    (A : List (String × String))
    (ht : getTypeExact ts e.ty = .ok t) (hk : e.kids = []) (ha : e.attrs = (ID, showInt x) :: A)
    (hkeys : ∀ p ∈ A, p.1 ≠ ID ∧ renRes p.1 ∈ ctorFields t)
    (hsofa : ∀ s, alistGet? A "sofa" = some s → (parseInt s).isSome = true) :
    parseFsElem K ts tsIdx hp e =
      .ok (hp ++ [objOf t tsIdx x (A.map (fun p => (renRes p.1, p.2)))], x, hp.length) := by
  have hfil : List.filter (fun p => p.fst != ID)
      ((ID, Val.str (showInt x)) :: List.map (fun p => (p.fst, Val.str p.snd)) A) =
      A.map (fun p => (p.1, Val.str p.2)) := by
    rw [List.filter_cons_of_neg (by simp), filter_noId A (fun p hp => (hkeys p hp).1)]
  have hkM : ∀ p ∈ mergedOf (A.map (fun p => (renRes p.1, p.2))), p.1 ∈ ctorFields t := by
    intro p hp
    have : p.1 ∈ (mergedOf (A.map (fun p => (renRes p.1, p.2)))).map (·.1) := List.mem_map_of_mem hp
    rw [mergedOf_keys, List.map_map] at this
    obtain ⟨q, hq, hqe⟩ := List.mem_map.mp this
    rw [← hqe]
    exact (hkeys q hq).2
  have hren : List.map (fun p => if (p.fst == "type") = true then ("type_", p.snd) else p)
      (List.map (fun p => if (p.fst == "self") = true then ("self_", p.snd) else p) (mergedOf A)) =
      mergedOf (A.map (fun p => (renRes p.1, p.2))) := by
    rw [rename_rename, mergedOf_ren]
  have hcon : construct t tsIdx (some x) (mergedOf (A.map (fun p => (renRes p.1, p.2)))) =
      .ok (objOf t tsIdx x (A.map (fun p => (renRes p.1, p.2)))) := by
    unfold construct
    simp only
    rw [if_neg]
    · rfl
    · simp only [List.any_eq_true, Bool.not_eq_true', not_exists, not_and, Bool.not_eq_false]
      intro p hp
      rw [List.contains_iff_mem, List.mem_eraseDups]
      exact hkM p hp
  unfold parseFsElem
  rw [ht, hk, ha]
  simp only [groupKids, List.foldl_nil, List.map_cons, bind, Except.bind]
  rw [alistGet?_cons_self, hfil]
  have hpi : parseIntE (showInt x) = .ok x := by unfold parseIntE; rw [parseInt_showInt_aux]
  dsimp only
  rw [hpi]
  dsimp only
  rw [alistGet?_mapStr]
  cases hs : alistGet? A "sofa" with
  | none =>
    rw [mergedOf_none A hs] at hren
    simp only [Option.map_none, hren, List.foldlM_nil, pure, Except.pure, hcon, ite_self]
  | some s =>
    have := hsofa s hs
    cases hi : parseInt s with
    | none => rw [hi] at this; cases this
    | some i =>
      rw [mergedOf_some A s i hs hi] at hren
      simp only [Option.map_some, parseIntE, hi, Except.map, hren, List.foldlM_nil, pure, Except.pure, hcon, ite_self]

/-! ### lookups in the merged keyword arguments -/

theorem alistGet?_alistSet {β} (l : List (String × β)) (k n : String) (v : β) :
    alistGet? (alistSet l k v) n = if n = k then some v else alistGet? l n := by
  by_cases h : n = k
  · subst h; rw [if_pos rfl, alistGet?_set_same]
  · rw [if_neg h, alistGet?_set_other _ _ _ _ h]

theorem mergedOf_get_ne (A : List (String × String)) (n : String) (h : n ≠ "sofa") :
    alistGet? (mergedOf A) n = (alistGet? A n).map Val.str := by
  unfold mergedOf
  cases hs : alistGet? A "sofa" with
  | none => exact alistGet?_mapStr A n
  | some s =>
    dsimp only
    cases hi : parseInt s with
    | none => exact alistGet?_mapStr A n
    | some i =>
      dsimp only
      rw [alistGet?_set_other _ _ _ _ h, alistGet?_mapStr]

theorem mergedOf_get_sofa (A : List (String × String)) (s : String) (i : Int) (h : alistGet? A "sofa" = some s)
    (hi : parseInt s = some i) : alistGet? (mergedOf A) "sofa" = some (Val.int i) := by
  rw [mergedOf_some A s i h hi, alistGet?_set_same]

theorem mergedOf_get_sofa_none (A : List (String × String)) (h : alistGet? A "sofa" = none) :
    alistGet? (mergedOf A) "sofa" = none := by
  rw [mergedOf_none A h, alistGet?_mapStr, h]; rfl

/-! ### the attribute list of a flat structure -/

theorem flatAttrs_keys (cass : List Cas) (H : Heap) (isAnn : Bool) (o : Obj) :
    ∀ (fs : List Feature) (p : String × String), p ∈ flatAttrs cass H isAnn o fs → ∃ f ∈ fs, p.1 = f.name
  | [], p, h => by cases h
  | f :: fs, p, h => by
    unfold flatAttrs at h
    rw [List.mem_append] at h
    rcases h with h | h
    · refine ⟨f, List.mem_cons_self, ?_⟩
      split at h
      · rw [List.mem_singleton] at h; rw [h]
      · cases h
    · obtain ⟨g, hg, hp⟩ := flatAttrs_keys cass H isAnn o fs p h
      exact ⟨g, List.mem_cons_of_mem _ hg, hp⟩

theorem flatAttrsW_keys (cass : List Cas) (H : Heap) (isAnn : Bool) (o : Obj) :
    ∀ (fs : List Feature) (p : String × String), p ∈ flatAttrsW cass H isAnn o fs → ∃ f ∈ fs, p.1 = xmlName f
  | [], p, h => by cases h
  | f :: fs, p, h => by
    unfold flatAttrsW at h
    rw [List.mem_append] at h
    rcases h with h | h
    · refine ⟨f, List.mem_cons_self, ?_⟩
      split at h
      · rw [List.mem_singleton] at h; rw [h]
      · cases h
    · obtain ⟨g, hg, hp⟩ := flatAttrsW_keys cass H isAnn o fs p h
      exact ⟨g, List.mem_cons_of_mem _ hg, hp⟩

theorem alistGet?_append_of_none {β} (l1 l2 : List (String × β)) (k : String) (h : alistGet? l1 k = none) :
    alistGet? (l1 ++ l2) k = alistGet? l2 k := by
  induction l1 with
  | nil => rfl
  | cons p rest ih =>
    obtain ⟨k', v'⟩ := p
    by_cases hk : k' = k
    · subst hk; rw [alistGet?_cons_self] at h; cases h
    · rw [alistGet?_cons_ne _ _ _ _ hk] at h
      rw [List.cons_append, alistGet?_cons_ne _ _ _ _ hk, ih h]

theorem flatAttrs_get_not_mem (cass : List Cas) (H : Heap) (isAnn : Bool) (o : Obj) (fs : List Feature) (n : String)
    (h : n ∉ fs.map (·.name)) : alistGet? (flatAttrs cass H isAnn o fs) n = none := by
  apply Cassis.Index.alistGet?_none_of_not_mem
  intro hm
  obtain ⟨p, hp, hpn⟩ := List.mem_map.mp hm
  obtain ⟨f, hf, hfe⟩ := flatAttrs_keys cass H isAnn o fs p hp
  apply h
  rw [← hpn, hfe]
  exact List.mem_map_of_mem hf

theorem flatAttrs_get (cass : List Cas) (H : Heap) (isAnn : Bool) (o : Obj) :
    ∀ (fs : List Feature), (fs.map (·.name)).Nodup → ∀ f ∈ fs,
      alistGet? (flatAttrs cass H isAnn o fs) f.name =
        flatTok cass H isAnn o f.name ((alistGet? o.slots f.name).getD .none)
  | [], _, f, hf => by cases hf
  | g :: fs, hn, f, hf => by
    rw [List.map_cons, List.nodup_cons] at hn
    unfold flatAttrs
    by_cases hfg : g.name = f.name
    · have hfe : alistGet? (flatAttrs cass H isAnn o fs) f.name = none :=
        flatAttrs_get_not_mem cass H isAnn o fs f.name (by rw [← hfg]; exact hn.1)
      rw [hfg]
      cases ht : flatTok cass H isAnn o f.name ((alistGet? o.slots f.name).getD .none) with
      | none => exact hfe
      | some s => exact alistGet?_cons_self _ _ _
    · have hf' : f ∈ fs := by
        rcases List.mem_cons.mp hf with h | h
        · exact absurd (by rw [h]) hfg
        · exact h
      rw [alistGet?_append_of_none _ _ _ ?_, flatAttrs_get cass H isAnn o fs hn.2 f hf']
      split
      · rw [alistGet?_cons_ne _ _ _ _ hfg]; rfl
      · rfl

theorem exp1_of_flatTok (cass : List Cas) (H : Heap) (isAnn : Bool) (o : Obj) (n : String) (v : Val)
    (h : ∀ ci vn, v ≠ .sofa ci vn) :
    ((flatTok cass H isAnn o n v).map Val.str).getD .none = exp1 cass H isAnn o n v := by
  cases v with
  | sofa ci vn => exact absurd rfl (h ci vn)
  | ref b =>
    unfold flatTok exp1
    dsimp only
    cases hx : xidOf H b <;> rfl
  | _ => rfl

theorem alistGet?_map_self (g : String → Val) (l : List String) (k : String) (hk : k ∈ l) :
    alistGet? (l.map (fun n => (n, g n))) k = some (g k) := by
  induction l with
  | nil => cases hk
  | cons a l ih =>
    rw [List.map_cons]
    by_cases h : a = k
    · subst h; exact alistGet?_cons_self _ _ _
    · rw [alistGet?_cons_ne _ _ _ _ h]
      rcases List.mem_cons.mp hk with h' | h'
      · exact absurd h'.symm h
      · exact ih h'

end Cassis.Xmi
