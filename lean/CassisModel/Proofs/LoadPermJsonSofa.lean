/-
Entry-order independence of the JSON reader, layer 1: the sofa pass over the sofas of the written document in ANY order.

The reader starts from `Cas.empty`, whose only view is the pristine initial view.  A sofa that is not the initial one
appends its view (`parseSofa_later`), the sofa of the initial view updates the first view in place (`parseSofa_init`).
So for the sofas in the order `pre ++ iv :: post` (`iv` the initial view) the views of the reader end up in the order
`iv :: pre ++ post`, while the id map records the sofas in document order.
-/
import CassisModel.Proofs.LoadPermJsonDefs

namespace Cassis.Json.LPJ
open Cassis.TS Cassis.Traverse Cassis.Lex Cassis.Xmi Cassis.Xmi.RTB

/-- `parseSofa` on the written sofa of the initial view while the initial view of the reader is still pristine -/
theorem parseSofa_init (hp : Heap) (ci : Nat) (s : Sofa) (st : RState) (c0 : Cas)
    (harr : s.arr = .none) (huri : s.uri = none) (hconv : s.conv = Offsets.createMapping none s.text)
    (hsc : ∀ t, s.text = some t → ∀ cp ∈ t, Offsets.IsScalar cp)
    (hid : s.sofaID = Cas.INITIAL_VIEW)
    (hcas : st.cas = Cas.setViewRec c0 Cas.INITIAL_VIEW
      { sofa := { sofaID := Cas.INITIAL_VIEW, sofaNum := 1, xid := 1 } }) :
    parseSofa ci st (renderSofa hp s) =
      .ok { st with cas := Cas.setViewRec c0 Cas.INITIAL_VIEW { sofa := s, idx := [] },
                    fss := setFs st.fss s.xid (.sofa ci s.sofaID),
                    maxId := max st.maxId s.xid, maxNum := max st.maxNum s.sofaNum } := by
  obtain ⟨sid, num, xid, text, mime, uri, arr, conv⟩ := s
  simp only at harr huri hconv hid hsc
  subst harr huri hconv hid
  have hm : ∀ t, text = some t → List.map (Char.toNat ∘ Char.ofNat) t = t :=
    fun t ht => map_toNat_ofNat t (hsc t ht)
  cases mime <;> cases text <;>
    simp [parseSofa, renderSofa, List.find?, hcas, Offsets.createMapping,
      Cas.setSofaString, Cas.setSofaMime, Cas.setSofaUri, Cas.setSofaArray, updSofa_set, cur_set,
      bind, Except.bind, pure, Except.pure, hm]

theorem bareViews_append (a b : List (String × View)) : bareViews (a ++ b) = bareViews a ++ bareViews b := by
  unfold bareViews; rw [List.map_append]

theorem sofaEntries_append (ci' : Nat) (a b : List (String × View)) :
    sofaEntries ci' (a ++ b) = sofaEntries ci' a ++ sofaEntries ci' b := by
  unfold sofaEntries; rw [List.map_append]

/-- the sofas of views other than the initial one, whose views do not exist yet: each appends its view and its entry -/
theorem sofaPass_later (K : Consts) (ts : TypeSystem) (tsIdx ci' : Nat) (all : List JFs) (hp : Heap) (rest : List JFs) :
    ∀ (todo : List (String × View)) (st : RState),
      (∀ nv ∈ todo, SofaOk nv) → (∀ nv ∈ todo, nv.1 ≠ Cas.INITIAL_VIEW) →
      (st.cas.views.map (·.1) ++ todo.map (·.1)).Nodup →
      (st.fss.map (·.1) ++ todo.map (·.2.sofa.xid)).Nodup →
      ∃ s1 : RState,
        sofaPass K ts tsIdx ci' all (todo.map (fun p => renderSofa hp p.2.sofa) ++ rest) st =
          sofaPass K ts tsIdx ci' all rest s1 ∧
        s1.heap = st.heap ∧ s1.deferred = st.deferred ∧ s1.fss = st.fss ++ sofaEntries ci' todo ∧
        s1.cas.views = st.cas.views ++ bareViews todo ∧
        st.maxId ≤ s1.maxId ∧ st.maxNum ≤ s1.maxNum ∧
        (∀ nv ∈ todo, nv.2.sofa.xid ≤ s1.maxId ∧ nv.2.sofa.sofaNum ≤ s1.maxNum)
  | [], st, _, _, _, _ => by
    refine ⟨st, rfl, rfl, rfl, ?_, ?_, Int.le_refl _, Int.le_refl _, ?_⟩
    · show st.fss = st.fss ++ []
      rw [List.append_nil]
    · show st.cas.views = st.cas.views ++ []
      rw [List.append_nil]
    · intro nv hnv; cases hnv
  | nv :: todo, st, hok, hlater, hn, hx => by
    have ok := hok nv List.mem_cons_self
    rw [List.map_cons] at hn hx
    have hkey : nv.1 ∉ st.cas.views.map (·.1) := by
      intro hmem
      exact (List.nodup_append.mp hn).2.2 _ hmem _ List.mem_cons_self rfl
    have hxid : nv.2.sofa.xid ∉ st.fss.map (·.1) := by
      intro hmem
      exact (List.nodup_append.mp hx).2.2 _ hmem _ List.mem_cons_self rfl
    have hnew : Cas.getViewRec st.cas nv.2.sofa.sofaID = none := by
      rw [ok.name]
      unfold Cas.getViewRec
      rw [aget_none_iff]
      exact hkey
    have hstep := parseSofa_later hp ci' nv.2.sofa st ok.arr ok.uri ok.conv ok.scalar
      (by rw [ok.name]; exact hlater nv List.mem_cons_self) hnew
    have hviews' : (Cas.setViewRec st.cas nv.2.sofa.sofaID { sofa := nv.2.sofa, idx := [] }).views =
        st.cas.views ++ [(nv.1, ({ sofa := nv.2.sofa, idx := [] } : View))] := by
      unfold Cas.setViewRec
      show alistSet st.cas.views _ _ = _
      rw [ok.name, aset_new _ _ _ hkey]
    have hfss' : setFs st.fss nv.2.sofa.xid (.sofa ci' nv.2.sofa.sofaID) =
        st.fss ++ [(nv.2.sofa.xid, Val.sofa ci' nv.1)] := by
      rw [setFs_new _ _ _ hxid, ok.name]
    obtain ⟨s1, h1, hh, hd, hf, hv, hmi, hmn, hb⟩ := sofaPass_later K ts tsIdx ci' all hp rest todo
      { st with cas := Cas.setViewRec st.cas nv.2.sofa.sofaID { sofa := nv.2.sofa, idx := [] },
                fss := setFs st.fss nv.2.sofa.xid (.sofa ci' nv.2.sofa.sofaID),
                maxId := max st.maxId nv.2.sofa.xid, maxNum := max st.maxNum nv.2.sofa.sofaNum }
      (fun x hx' => hok x (List.mem_cons_of_mem _ hx')) (fun x hx' => hlater x (List.mem_cons_of_mem _ hx'))
      (by
        show ((Cas.setViewRec st.cas _ _).views.map (·.1) ++ _).Nodup
        rw [hviews', List.map_append, List.append_assoc]
        exact hn)
      (by
        show ((setFs st.fss _ _).map (·.1) ++ _).Nodup
        rw [hfss', List.map_append, List.append_assoc]
        exact hx)
    refine ⟨s1, ?_, hh, hd, ?_, ?_, ?_, ?_, ?_⟩
    · rw [List.map_cons, List.cons_append, sofaPass_sofa K ts tsIdx ci' all hp nv.2.sofa ok.arr ok.uri, hstep]
      exact h1
    · rw [hf]
      show setFs st.fss _ _ ++ _ = _
      rw [hfss', List.append_assoc]
      rfl
    · rw [hv]
      show (Cas.setViewRec st.cas _ _).views ++ _ = _
      rw [hviews', List.append_assoc]
      rfl
    · have : max st.maxId nv.2.sofa.xid ≤ s1.maxId := hmi
      omega
    · have : max st.maxNum nv.2.sofa.sofaNum ≤ s1.maxNum := hmn
      omega
    · intro x hx'
      rcases List.mem_cons.mp hx' with rfl | hx''
      · have h1' : max st.maxId x.2.sofa.xid ≤ s1.maxId := hmi
        have h2' : max st.maxNum x.2.sofa.sofaNum ≤ s1.maxNum := hmn
        omega
      · exact hb x hx''

/-- **the sofa pass over the sofas in any order** (`iv` is the initial view): the views of the reader are
    `iv :: pre ++ post`, its id map holds the sofas in document order -/
theorem sofaPass_anyOrder (K : Consts) (ts : TypeSystem) (tsIdx ci' : Nat) (all : List JFs) (hp H : Heap)
    (pre post : List (String × View)) (iv : String × View)
    (hok : ∀ nv ∈ pre ++ iv :: post, SofaOk nv)
    (hn : ((pre ++ iv :: post).map (·.1)).Nodup) (hx : ((pre ++ iv :: post).map (·.2.sofa.xid)).Nodup)
    (hiv : iv.1 = Cas.INITIAL_VIEW) :
    ∃ s1 : RState,
      sofaPass K ts tsIdx ci' all ((pre ++ iv :: post).map (fun p => renderSofa hp p.2.sofa))
        { cas := Cas.empty, heap := H } = .ok s1 ∧
      s1.heap = H ∧ s1.fss = sofaEntries ci' (pre ++ iv :: post) ∧ s1.deferred = [] ∧
      s1.cas.views = bareViews (iv :: pre ++ post) ∧
      0 ≤ s1.maxId ∧ 0 ≤ s1.maxNum ∧
      (∀ nv ∈ pre ++ iv :: post, nv.2.sofa.xid ≤ s1.maxId ∧ nv.2.sofa.sofaNum ≤ s1.maxNum) := by
  have hn' := hn
  have hx' := hx
  rw [List.map_append, List.map_cons] at hn' hx'
  have hnd := List.nodup_append.mp hn'
  have hxd := List.nodup_append.mp hx'
  have hpre_ne : ∀ nv ∈ pre, nv.1 ≠ Cas.INITIAL_VIEW := by
    intro nv hnv e
    exact hnd.2.2 _ (List.mem_map_of_mem hnv) _ List.mem_cons_self (by rw [e, hiv])
  have hpost_ne : ∀ nv ∈ post, nv.1 ≠ Cas.INITIAL_VIEW := by
    intro nv hnv e
    have := (List.nodup_cons.mp hnd.2.1).1
    exact this (by rw [hiv, ← e]; exact List.mem_map_of_mem hnv)
  have okiv := hok iv (List.mem_append_right _ List.mem_cons_self)
  -- phase 1: the sofas before the initial one
  obtain ⟨sa, ha, hah, had, haf, hav, hami, hamn, hab⟩ :=
    sofaPass_later K ts tsIdx ci' all hp ((iv :: post).map (fun p => renderSofa hp p.2.sofa)) pre
      { cas := Cas.empty, heap := H }
      (fun nv hnv => hok nv (List.mem_append_left _ hnv)) hpre_ne
      (by
        show ([Cas.INITIAL_VIEW] ++ pre.map (·.1)).Nodup
        rw [List.singleton_append, List.nodup_cons]
        refine ⟨?_, hnd.1⟩
        intro hmem
        obtain ⟨nv, hnv, e⟩ := List.mem_map.mp hmem
        exact hpre_ne nv hnv e)
      (by
        show (([] : List Int) ++ pre.map (·.2.sofa.xid)).Nodup
        rw [List.nil_append]
        exact hxd.1)
  have hav' : sa.cas.views = (Cas.INITIAL_VIEW, ({ sofa := { sofaID := Cas.INITIAL_VIEW, sofaNum := 1, xid := 1 } } : View))
      :: bareViews pre := hav
  have haf' : sa.fss = sofaEntries ci' pre := by rw [haf]; rfl
  -- the sofa of the initial view
  have hcas : sa.cas = Cas.setViewRec sa.cas Cas.INITIAL_VIEW
      { sofa := { sofaID := Cas.INITIAL_VIEW, sofaNum := 1, xid := 1 } } := by
    unfold Cas.setViewRec
    rw [hav']
    simp only [alistSet, if_true]
    cases hsa : sa.cas with
    | mk views nx ns =>
      rw [hsa] at hav'
      simp only at hav'
      rw [hav']
  have hstep := parseSofa_init hp ci' iv.2.sofa sa sa.cas okiv.arr okiv.uri okiv.conv okiv.scalar
    (by rw [okiv.name]; exact hiv) hcas
  have hxiv : iv.2.sofa.xid ∉ sa.fss.map (·.1) := by
    rw [haf', sofaEntries_keys]
    intro hmem
    exact hxd.2.2 _ hmem _ List.mem_cons_self rfl
  have hbv : (Cas.setViewRec sa.cas Cas.INITIAL_VIEW { sofa := iv.2.sofa, idx := [] }).views =
      bareViews (iv :: pre) := by
    unfold Cas.setViewRec
    show alistSet sa.cas.views _ _ = _
    rw [hav']
    simp only [alistSet, if_true]
    rw [JV.bareViews_cons, hiv]
  have hbf : setFs sa.fss iv.2.sofa.xid (.sofa ci' iv.2.sofa.sofaID) = sofaEntries ci' (pre ++ [iv]) := by
    rw [setFs_new _ _ _ hxiv, haf', okiv.name, sofaEntries_append]
    rfl
  -- phase 2: the sofas after the initial one
  obtain ⟨sb, hb, hbh, hbd, hbf2, hbv2, hbmi, hbmn, hbb⟩ :=
    sofaPass_later K ts tsIdx ci' all hp [] post
      { sa with cas := Cas.setViewRec sa.cas Cas.INITIAL_VIEW { sofa := iv.2.sofa, idx := [] },
                fss := setFs sa.fss iv.2.sofa.xid (.sofa ci' iv.2.sofa.sofaID),
                maxId := max sa.maxId iv.2.sofa.xid, maxNum := max sa.maxNum iv.2.sofa.sofaNum }
      (fun nv hnv => hok nv (List.mem_append_right _ (List.mem_cons_of_mem _ hnv))) hpost_ne
      (by
        show ((Cas.setViewRec sa.cas _ _).views.map (·.1) ++ _).Nodup
        rw [hbv, bareViews_keys]
        have : ((iv :: pre ++ post).map (·.1)).Nodup :=
          ((List.perm_middle (l₁ := pre) (a := iv) (l₂ := post)).symm.map (·.1)).nodup_iff.mpr hn
        rw [← List.map_append]
        exact this)
      (by
        show ((setFs sa.fss _ _).map (·.1) ++ _).Nodup
        rw [hbf, sofaEntries_keys, ← List.map_append, List.append_assoc]
        exact hx)
  rw [List.append_nil] at hb
  refine ⟨sb, ?_, ?_, ?_, ?_, ?_, ?_, ?_, ?_⟩
  · rw [List.map_append, ha, List.map_cons,
      sofaPass_sofa K ts tsIdx ci' all hp iv.2.sofa okiv.arr okiv.uri, hstep]
    dsimp only
    rw [hb]
    rfl
  · rw [hbh]; exact hah
  · rw [hbf2]
    show setFs sa.fss _ _ ++ _ = _
    rw [hbf, ← sofaEntries_append, List.append_assoc]
    rfl
  · rw [hbd]; exact had
  · rw [hbv2]
    show (Cas.setViewRec sa.cas _ _).views ++ _ = _
    rw [hbv, ← bareViews_append]
  · have h1 : (0 : Int) ≤ sa.maxId := hami
    have h2 : max sa.maxId iv.2.sofa.xid ≤ sb.maxId := hbmi
    omega
  · have h1 : (0 : Int) ≤ sa.maxNum := hamn
    have h2 : max sa.maxNum iv.2.sofa.sofaNum ≤ sb.maxNum := hbmn
    omega
  · intro nv hnv
    have h2 : max sa.maxId iv.2.sofa.xid ≤ sb.maxId := hbmi
    have h3 : max sa.maxNum iv.2.sofa.sofaNum ≤ sb.maxNum := hbmn
    rcases List.mem_append.mp hnv with h | h
    · have := hab nv h
      omega
    · rcases List.mem_cons.mp h with rfl | h'
      · omega
      · exact hbb nv h'

end Cassis.Json.LPJ
