/-
C20 across two heaps, layer 1: what an isomorphism (`Spec/ComparableIso.lean`) preserves besides what it says —
offsets, `Distinct`, injectivity — and the sorted lists of the two sides.
-/
import CassisModel.Spec.ComparableIso
import CassisModel.Proofs.Comparable

namespace Cassis.Comparable
open Cassis.TS Cassis.Traverse

/-! ### integers are related to themselves only -/

theorem plainCell_int {v : Val} {i : Int} (h : plainCell v = some (.int i)) : v = .int i := by
  cases v <;> simp only [plainCell, Option.some.injEq, reduceCtorEq] at h
  · cases h
  · injection h with h; rw [h]

theorem sameCell_int_left {v' : Val} {i : Int} (h : SameCell (.int i) v') : v' = .int i := by
  obtain ⟨c, h1, h2⟩ := h
  simp only [plainCell, Option.some.injEq] at h1
  subst h1
  exact plainCell_int h2

theorem sameCell_int_right {v : Val} {i : Int} (h : SameCell v (.int i)) : v = .int i := by
  obtain ⟨c, h1, h2⟩ := h
  simp only [plainCell, Option.some.injEq] at h2
  subst h2
  exact plainCell_int h1

theorem emptyList_int {i : Int} : ¬ EmptyList (.int i) := by
  intro h
  rcases h with h | h | h | h | h <;> cases h

theorem valRel_int_left {K : Consts} {hp hp' : Heap} {R : Nat → Nat → Prop} {d : Nat} {v' : Val} {i : Int}
    (h : ValRel K hp hp' R d (.int i) v') : v' = .int i := by
  cases d with
  | zero => exact sameCell_int_left h
  | succ d =>
    rcases h with h | ⟨a, a', h, _⟩ | ⟨a, a', h, _⟩ | ⟨l, l', h, _⟩ | ⟨h, _⟩
    · exact sameCell_int_left h
    · cases h
    · cases h
    · cases h
    · exact absurd h emptyList_int

theorem valRel_int_right {K : Consts} {hp hp' : Heap} {R : Nat → Nat → Prop} {d : Nat} {v : Val} {i : Int}
    (h : ValRel K hp hp' R d v (.int i)) : v = .int i := by
  cases d with
  | zero => exact sameCell_int_right h
  | succ d =>
    rcases h with h | ⟨a, a', _, h, _⟩ | ⟨a, a', _, h, _⟩ | ⟨l, l', _, h, _⟩ | ⟨_, h⟩
    · exact sameCell_int_right h
    · cases h
    · cases h
    · cases h
    · exact absurd h emptyList_int

/-- the integer a slot holds, if it holds one -/
def intOf : Option Val → Option Int
  | some (.int i) => some i
  | _ => none

theorem intOf_eq_some {s : Option Val} {i : Int} : intOf s = some i ↔ s.getD .none = .int i := by
  cases s with
  | none => simp [intOf]
  | some v => cases v <;> simp [intOf]

theorem isAnnot_eq (hp : Heap) (a : Nat) :
    isAnnot hp a = ((intOf (slot hp a "begin")).isSome && (intOf (slot hp a "end")).isSome) := by
  unfold isAnnot
  cases h1 : slot hp a "begin" with
  | none => rfl
  | some v1 =>
    cases h2 : slot hp a "end" with
    | none => cases v1 <;> rfl
    | some v2 => cases v1 <;> cases v2 <;> rfl

theorem beginOf_eq (hp : Heap) (a : Nat) : beginOf hp a = (intOf (slot hp a "begin")).getD 0 := by
  unfold beginOf
  cases h1 : slot hp a "begin" with
  | none => rfl
  | some v1 => cases v1 <;> rfl

theorem endOf_eq (hp : Heap) (a : Nat) : endOf hp a = (intOf (slot hp a "end")).getD 0 := by
  unfold endOf
  cases h1 : slot hp a "end" with
  | none => rfl
  | some v1 => cases v1 <;> rfl

theorem inj_of_pairwise (φ : Nat → Nat) : ∀ (l : List Nat), l.Pairwise (fun a b => φ a ≠ φ b) →
    ∀ a ∈ l, ∀ b ∈ l, φ a = φ b → a = b
  | [], _, a, ha, _, _, _ => by cases ha
  | x :: l, hp, a, ha, b, hb, hab => by
    obtain ⟨h1, h2⟩ := List.pairwise_cons.1 hp
    rcases List.mem_cons.1 ha with e1 | ha'
    · rcases List.mem_cons.1 hb with e2 | hb'
      · rw [e1, e2]
      · subst e1; exact absurd hab (h1 b hb')
    · rcases List.mem_cons.1 hb with e2 | hb'
      · subst e2; exact absurd hab.symm (h1 a ha')
      · exact inj_of_pairwise φ l h2 a ha' b hb' hab

section
variable {K : Consts} {cass cass' : List Cas} {hp hp' : Heap} {indexed indexed' addrs addrs' : List Nat} {φ : Nat → Nat}

theorem Iso.intOf (h : Iso K cass cass' hp hp' indexed indexed' addrs addrs' φ) {a : Nat} (ha : a ∈ addrs) {n : String}
    (hn : n ≠ "sofa") : intOf (slot hp' (φ a) n) = Comparable.intOf (slot hp a n) := by
  obtain ⟨d, hr⟩ := h.slots a ha n hn
  apply Option.ext
  intro i
  rw [intOf_eq_some, intOf_eq_some]
  constructor
  · intro h'
    rw [h'] at hr
    exact valRel_int_right hr
  · intro h'
    rw [h'] at hr
    exact valRel_int_left hr

theorem Iso.isAnnot (h : Iso K cass cass' hp hp' indexed indexed' addrs addrs' φ) {a : Nat} (ha : a ∈ addrs) :
    isAnnot hp' (φ a) = Comparable.isAnnot hp a := by
  rw [isAnnot_eq, isAnnot_eq, h.intOf ha (by decide), h.intOf ha (by decide)]

theorem Iso.beginOf (h : Iso K cass cass' hp hp' indexed indexed' addrs addrs' φ) {a : Nat} (ha : a ∈ addrs) :
    beginOf hp' (φ a) = Comparable.beginOf hp a := by
  rw [beginOf_eq, beginOf_eq, h.intOf ha (by decide)]

theorem Iso.endOf (h : Iso K cass cass' hp hp' indexed indexed' addrs addrs' φ) {a : Nat} (ha : a ∈ addrs) :
    endOf hp' (φ a) = Comparable.endOf hp a := by
  rw [endOf_eq, endOf_eq, h.intOf ha (by decide)]

theorem Iso.nodup_map (h : Iso K cass cass' hp hp' indexed indexed' addrs addrs' φ) : (addrs.map φ).Nodup :=
  h.bij.nodup_iff.mpr h.nodup

theorem Iso.inj (h : Iso K cass cass' hp hp' indexed indexed' addrs addrs' φ) {a b : Nat} (ha : a ∈ addrs)
    (hb : b ∈ addrs) (hab : φ a = φ b) : a = b := by
  have hn := h.nodup_map
  unfold List.Nodup at hn
  rw [List.pairwise_map] at hn
  exact inj_of_pairwise φ addrs hn a ha b hb hab

/-- the side condition transfers -/
theorem Iso.distinct_map (h : Iso K cass cass' hp hp' indexed indexed' addrs addrs' φ) (hd : Distinct hp addrs) :
    Distinct hp' (addrs.map φ) := by
  intro a' ha' b' hb' hne hty
  obtain ⟨a, ha, rfl⟩ := List.mem_map.mp ha'
  obtain ⟨b, hb, rfl⟩ := List.mem_map.mp hb'
  have hab : a ≠ b := fun e => hne (by rw [e])
  rw [h.ty a ha, h.ty b hb] at hty
  obtain ⟨h1, h2, h3⟩ := hd a ha b hb hab hty
  rw [h.isAnnot ha, h.isAnnot hb, h.beginOf ha, h.beginOf hb, h.endOf ha, h.endOf hb]
  exact ⟨h1, h2, h3⟩

theorem Iso.distinct (h : Iso K cass cass' hp hp' indexed indexed' addrs addrs' φ) (hd : Distinct hp addrs) :
    Distinct hp' addrs' := by
  have hm := h.distinct_map hd
  intro a ha b hb
  exact hm a (h.bij.mem_iff.mpr ha) b (h.bij.mem_iff.mpr hb)

end

/-! ### sorting commutes with the address map -/

theorem insertFs_map (lt lt' : Nat → Nat → Bool) (φ : Nat → Nat) (x : Nat) (l : List Nat)
    (h : ∀ y ∈ l, lt' (φ x) (φ y) = lt x y) :
    insertFs lt' (φ x) (l.map φ) = (insertFs lt x l).map φ := by
  induction l with
  | nil => rfl
  | cons y ys ih =>
    simp only [List.map_cons, insertFs]
    rw [h y List.mem_cons_self]
    split
    · rfl
    · rw [List.map_cons, ih (fun z hz => h z (List.mem_cons_of_mem _ hz))]

theorem foldl_insertFs_map (lt lt' : Nat → Nat → Bool) (φ : Nat → Nat) (S : Nat → Prop)
    (h : ∀ x, S x → ∀ y, S y → lt' (φ x) (φ y) = lt x y) (l acc : List Nat)
    (hl : ∀ x ∈ l, S x) (hacc : ∀ x ∈ acc, S x) :
    (l.map φ).foldl (fun acc x => insertFs lt' x acc) (acc.map φ)
      = (l.foldl (fun acc x => insertFs lt x acc) acc).map φ := by
  induction l generalizing acc with
  | nil => rfl
  | cons a l ih =>
    simp only [List.map_cons, List.foldl_cons]
    have ha : S a := hl a List.mem_cons_self
    rw [insertFs_map lt lt' φ a acc (fun y hy => h a ha y (hacc y hy))]
    apply ih
    · exact fun x hx => hl x (List.mem_cons_of_mem _ hx)
    · intro x hx
      rcases List.mem_cons.1 ((insertFs_perm lt a acc).subset hx) with e | e
      · rw [e]; exact ha
      · exact hacc x e

theorem sortFs_map (lt lt' : Nat → Nat → Bool) (φ : Nat → Nat) (l : List Nat)
    (h : ∀ x ∈ l, ∀ y ∈ l, lt' (φ x) (φ y) = lt x y) :
    sortFs lt' (l.map φ) = (sortFs lt l).map φ := by
  have := foldl_insertFs_map lt lt' φ (fun x => x ∈ l) h l [] (fun _ hx => hx) (by simp)
  simpa [sortFs] using this

section
variable {K : Consts} {cass cass' : List Cas} {hp hp' : Heap} {indexed indexed' addrs addrs' : List Nat} {φ : Nat → Nat}

theorem Iso.typeKeys_map (h : Iso K cass cass' hp hp' indexed indexed' addrs addrs' φ) :
    typeKeys hp' (addrs.map φ) = typeKeys hp addrs := by
  unfold typeKeys
  rw [List.map_map]
  congr 1
  apply List.map_congr_left
  intro a ha
  exact h.ty a ha

theorem Iso.group_map (h : Iso K cass cass' hp hp' indexed indexed' addrs addrs' φ) (t : String) :
    group hp' (addrs.map φ) t = (group hp addrs t).map φ := by
  unfold group
  rw [List.filter_map]
  congr 1
  apply List.filter_congr
  intro a ha
  simp only [Function.comp_apply, h.ty a ha]

theorem Iso.ltFs_map (h : Iso K cass cass' hp hp' indexed indexed' addrs addrs' φ) (hd : Distinct hp addrs)
    (hsh hsh' : Nat → Int) (t : String) {a b : Nat} (ha : a ∈ group hp addrs t) (hb : b ∈ group hp addrs t) :
    ltFs hp' hsh' (φ a) (φ b) = ltFs hp hsh a b := by
  obtain ⟨ha1, ha2⟩ := List.mem_filter.1 ha
  obtain ⟨hb1, hb2⟩ := List.mem_filter.1 hb
  rw [beq_iff_eq] at ha2 hb2
  by_cases hab : a = b
  · subst hab
    rw [ltFs_self, ltFs_self]
  · obtain ⟨sa, sb, _⟩ := hd a ha1 b hb1 hab (by rw [ha2, hb2])
    have hab' : φ a ≠ φ b := fun e => hab (h.inj ha1 hb1 e)
    rw [Bool.eq_iff_iff, ltFs_annot hp hsh a b sa sb,
      ltFs_annot hp' hsh' (φ a) (φ b) (by rw [h.isAnnot ha1]; exact sa) (by rw [h.isAnnot hb1]; exact sb),
      h.beginOf ha1, h.beginOf hb1, h.endOf ha1, h.endOf hb1]
    obtain ⟨_, _, hne⟩ := hd a ha1 b hb1 hab (by rw [ha2, hb2])
    constructor
    · intro hh; exact ⟨hab, by omega⟩
    · intro hh; exact ⟨hab', by omega⟩

/-- the sorted lists of the image are the images of the sorted lists -/
theorem Iso.sorted_map (h : Iso K cass cass' hp hp' indexed indexed' addrs addrs' φ) (hd : Distinct hp addrs)
    (hsh hsh' : Nat → Int) :
    (sortNames (typeKeys hp' (addrs.map φ))).map (fun t => (t, sortFs (ltFs hp' hsh') (group hp' (addrs.map φ) t)))
      = ((sortNames (typeKeys hp addrs)).map (fun t => (t, sortFs (ltFs hp hsh) (group hp addrs t)))).map
          (fun p => (p.1, p.2.map φ)) := by
  rw [h.typeKeys_map, List.map_map]
  apply List.map_congr_left
  intro t _
  simp only [Function.comp_apply, h.group_map t]
  rw [sortFs_map (ltFs hp hsh) (ltFs hp' hsh') φ _ (fun x hx y hy => h.ltFs_map hd hsh hsh' t hx hy)]

end

end Cassis.Comparable
