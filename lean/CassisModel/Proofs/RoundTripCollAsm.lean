/-
Round trip with collections, layer AS: the two loops of the reader over the written document (first pass `pass1`,
second pass `postAll`), assembled from the per-structure statements `Elem1Stmt` / `Post2Stmt`
(`Proofs/RoundTripCollStmts.lean`), which are hypotheses here.

In the first pass one structure element may produce several heap objects (objects without id for inlined string
arrays / string lists, then the object itself), so the new addresses are given by the id table `A` the loop builds;
in the second pass one step may append objects without id to the heap (`Ext`).
-/
import CassisModel.Proofs.RoundTripCollStmts
import CassisModel.Proofs.RoundTripCollFrz
import CassisModel.Proofs.RoundTripPass1
import CassisModel.Proofs.RoundTripPost

namespace Cassis.Xmi.CAS
open Cassis.TS Cassis.Traverse Cassis.Lex

/-! ### the structure elements -/

/-- what is known about the element `e` of the collected structure `q` -/
def ElemC (K : Consts) (ts : TypeSystem) (cass : List Cas) (H : Heap) (tsIdx : Nat) (q : Int × Nat) (e : XElem) :
    Prop :=
  e.ty ≠ SOFA ∧ e.ty ≠ VIEW_T ∧ ∃ o : Obj, H[q.2]? = some o ∧
    ∀ hpCur : Heap, ∃ (ext : List Obj) (o1 : Obj),
      parseFsElem K ts tsIdx hpCur e = .ok (hpCur ++ ext ++ [o1], q.1, (hpCur ++ ext).length) ∧
      (∀ ob ∈ ext, ob.xid = none) ∧ Obj1 K ts cass H (hpCur ++ ext ++ [o1]) o o1 q.1

def Pair (P : Int × Nat → XElem → Prop) : List (Int × Nat) → List XElem → Prop
  | [], [] => True
  | q :: L, e :: es => P q e ∧ Pair P L es
  | _, _ => False

theorem renderAll_pair (K : Consts) (ts : TypeSystem) (cass : List Cas) (H : Heap) (tsIdx : Nat) (P : Nat → Prop)
    (helem : Elem1Stmt K ts cass H tsIdx P) :
    ∀ (L : List (Int × Nat)), (∀ q ∈ L, P q.2) → (∀ q ∈ L, xidOf H q.2 = some q.1) →
    ∃ es : List XElem, renderAll K ts cass H L = .ok es ∧ Pair (ElemC K ts cass H tsIdx) L es
  | [], _, _ => ⟨[], rfl, trivial⟩
  | q :: L, hf, hx => by
    obtain ⟨o, e, ho, hr, h1, h2, h3⟩ := helem q.2 q.1 (hf q List.mem_cons_self) (hx q List.mem_cons_self)
    obtain ⟨es, hes, ht⟩ := renderAll_pair K ts cass H tsIdx P helem L
      (fun q' hq' => hf q' (List.mem_cons_of_mem _ hq')) (fun q' hq' => hx q' (List.mem_cons_of_mem _ hq'))
    refine ⟨e :: es, ?_, ⟨h1, h2, o, ho, h3⟩, ht⟩
    rw [renderAll, hr, hes]
    rfl

/-! ### the first pass over the structure elements -/

theorem step1_fsC (K : Consts) (ts : TypeSystem) (tsIdx : Nat) (e : XElem) (s : Pass1) (hpN : Heap) (x : Int) (a : Nat)
    (h1 : e.ty ≠ SOFA) (h2 : e.ty ≠ VIEW_T)
    (hp : parseFsElem K ts tsIdx s.heap e = .ok (hpN, x, a))
    (hx : x ∉ s.fss.map (·.1)) :
    step1 K ts tsIdx false e s =
      .ok { s with heap := hpN, fss := s.fss ++ [(x, a)], maxId := max s.maxId x } := by
  unfold step1
  rw [if_neg (by simpa using h1), if_neg (by simpa using h2), hp]
  dsimp only
  rw [alistSetI_of_not_mem _ _ _ hx]

/-- the object at the end of a block -/
theorem getElem?_block (hp ext : List Obj) (o1 : Obj) (tl : List Obj) :
    (hp ++ ext ++ [o1] ++ tl)[(hp ++ ext).length]? = some o1 := by
  rw [List.append_assoc (hp ++ ext), List.getElem?_append_right (Nat.le_refl _), Nat.sub_self]
  rfl

/-- the loop over the structure elements: `tl` are the new objects, `A` the new entries of the id table -/
theorem pass1_fsC (K : Consts) (ts : TypeSystem) (cass : List Cas) (H : Heap) (tsIdx : Nat) (rest : XDoc) :
    ∀ (L : List (Int × Nat)) (es : List XElem) (s : Pass1),
      Pair (ElemC K ts cass H tsIdx) L es → (L.map (·.1)).Nodup → (∀ q ∈ L, q.1 ∉ s.fss.map (·.1)) →
      ∃ (tl : List Obj) (A : List (Int × Nat)) (m : Int),
        pass1 K ts tsIdx false (es ++ rest) s =
          pass1 K ts tsIdx false rest { s with heap := s.heap ++ tl, fss := s.fss ++ A, maxId := m } ∧
        A.map (·.1) = L.map (·.1) ∧
        (∀ p ∈ A, s.heap.length ≤ p.2) ∧
        (∀ p ∈ A, ∀ p' ∈ A, p.2 = p'.2 → p.1 = p'.1) ∧
        (∀ q ∈ L, ∃ (a : Nat) (o o1 : Obj), (q.1, a) ∈ A ∧ H[q.2]? = some o ∧ (s.heap ++ tl)[a]? = some o1 ∧
          Obj1 K ts cass H (s.heap ++ tl) o o1 q.1)
  | [], [], s, _, _, _ =>
    ⟨[], [], s.maxId, by simp, rfl, fun _ h => (by cases h), fun _ h => (by cases h), fun _ h => (by cases h)⟩
  | q :: L, e :: es, s, h, hn, hk => by
    rw [List.map_cons, List.nodup_cons] at hn
    obtain ⟨⟨h1, h2, o, ho, h3⟩, ht⟩ := h
    obtain ⟨ext, o1, hparse, _, hobj⟩ := h3 s.heap
    have hstep := step1_fsC K ts tsIdx e s _ q.1 _ h1 h2 hparse (hk q List.mem_cons_self)
    obtain ⟨tl, A, m, hm, hkeys, hge, hinj, hobjs⟩ := pass1_fsC K ts cass H tsIdx rest L es
      { s with heap := s.heap ++ ext ++ [o1], fss := s.fss ++ [(q.1, (s.heap ++ ext).length)],
               maxId := max s.maxId q.1 } ht hn.2
      (by
        intro q' hq'
        dsimp only
        rw [List.map_append, List.mem_append, not_or]
        refine ⟨hk q' (List.mem_cons_of_mem _ hq'), ?_⟩
        simp only [List.map_cons, List.map_nil, List.mem_singleton]
        intro h'
        apply hn.1
        rw [← h']
        exact List.mem_map_of_mem hq')
    dsimp only at hm hge hobjs
    have heq : s.heap ++ (ext ++ [o1] ++ tl) = s.heap ++ ext ++ [o1] ++ tl := by
      simp only [List.append_assoc]
    have hlen1 : (s.heap ++ ext).length < (s.heap ++ ext ++ [o1]).length := by
      rw [List.length_append (as := s.heap ++ ext), List.length_singleton]; omega
    have hlen0 : s.heap.length ≤ (s.heap ++ ext).length := by
      rw [List.length_append]; omega
    refine ⟨ext ++ [o1] ++ tl, (q.1, (s.heap ++ ext).length) :: A, m, ?_, ?_, ?_, ?_, ?_⟩
    · rw [List.cons_append, pass1_cons, hstep]
      show pass1 K ts tsIdx false (es ++ rest) _ = _
      rw [hm]
      congr 1
      simp only [List.append_assoc, List.singleton_append]
    · rw [List.map_cons, List.map_cons, hkeys]
    · intro p hp
      rcases List.mem_cons.1 hp with rfl | hp
      · exact hlen0
      · exact Nat.le_trans (Nat.le_trans hlen0 (Nat.le_of_lt hlen1)) (hge p hp)
    · intro p hp p' hp' he
      rcases List.mem_cons.1 hp with rfl | hp <;> rcases List.mem_cons.1 hp' with rfl | hp'
      · rfl
      · have := hge p' hp'
        dsimp only at he
        omega
      · have := hge p hp
        dsimp only at he
        omega
      · exact hinj p hp p' hp' he
    · intro q' hq'
      rw [heq]
      rcases List.mem_cons.1 hq' with rfl | hq'
      · exact ⟨_, o, o1, List.mem_cons_self, ho, getElem?_block s.heap ext o1 tl, hobj.frz (Frz.append _ tl)⟩
      · obtain ⟨a, p, p1, hmem, hp, hp1, hpo⟩ := hobjs q' hq'
        exact ⟨a, p, p1, List.mem_cons_of_mem _ hmem, hp, hp1, hpo⟩
  | [], _ :: _, _, h, _, _ => by cases h
  | _ :: _, [], _, h, _, _ => by cases h

/-! ### the new addresses -/

/-- the address the id table `A` gives for the id `x` -/
def naOf (A : List (Int × Nat)) (x : Int) : Nat :=
  match A.find? (fun p => p.1 == x) with
  | some p => p.2
  | none => 0

theorem naOf_cons_eq (p : Int × Nat) (A : List (Int × Nat)) (x : Int) (h : p.1 = x) : naOf (p :: A) x = p.2 := by
  unfold naOf
  rw [List.find?_cons_of_pos (by simpa using h)]

theorem naOf_cons_ne (p : Int × Nat) (A : List (Int × Nat)) (x : Int) (h : p.1 ≠ x) : naOf (p :: A) x = naOf A x := by
  unfold naOf
  rw [List.find?_cons_of_neg (by simpa using h)]

theorem naOf_mem : ∀ (A : List (Int × Nat)), (A.map (·.1)).Nodup → ∀ (x : Int) (a : Nat), (x, a) ∈ A → naOf A x = a
  | [], _, _, _, h => by cases h
  | p :: A, hn, x, a, h => by
    rw [List.map_cons, List.nodup_cons] at hn
    rcases List.mem_cons.1 h with rfl | h
    · exact naOf_cons_eq _ A _ rfl
    · have hne : p.1 ≠ x := by
        intro he
        apply hn.1
        rw [he]
        exact List.mem_map_of_mem (f := fun p : Int × Nat => p.1) h
      rw [naOf_cons_ne p A x hne]
      exact naOf_mem A hn.2 x a h

theorem naOf_table (A L : List (Int × Nat)) (hn : (A.map (·.1)).Nodup) (hk : A.map (·.1) = L.map (·.1)) :
    A = L.map (fun q => (q.1, naOf A q.1)) := by
  have h1 : A.map (fun p => (p.1, naOf A p.1)) = A := by
    conv => rhs; rw [← List.map_id A]
    apply List.map_congr_left
    intro p hp
    rw [naOf_mem A hn p.1 p.2 hp]
    rfl
  have h2 : ∀ M : List (Int × Nat), M.map (fun p => (p.1, naOf A p.1)) = (M.map (·.1)).map (fun x => (x, naOf A x)) := by
    intro M
    rw [List.map_map]
    rfl
  rw [h2 L, ← hk, ← h2 A]
  exact h1.symm

end Cassis.Xmi.CAS

namespace Cassis.Xmi
open Cassis.TS Cassis.Traverse Cassis.Lex CAS

/-- the first pass over the written document -/
theorem pass1_coll (K : Consts) (ts : TypeSystem) (cass : List Cas) (ci : Nat) (c : Cas) (hp : Heap) (tsIdx : Nat)
    (doc : XDoc) (st : St) (hc : cass[ci]? = some c) (hwf : RTWf c hp)
    (hsave : saveXmi K ts cass ci hp = .ok (doc, st)) (hnull : NullOk ts)
    (hL : LOkC K ts c ci st.heap (sortById st.allFs))
    (helem : Elem1Stmt K ts cass st.heap tsIdx (CollFs K ts c ci st.heap)) :
    ∃ (na : Int → Nat) (p : Pass1), pass1 K ts tsIdx false doc { heap := st.heap } = .ok p ∧
      NaOk st.heap.length (sortById st.allFs) na ∧ P1W c st.heap (sortById st.allFs) na p ∧
      HeapRelP st.heap (sortById st.allFs) na (Obj1 K ts cass st.heap p.heap) p.heap := by
  obtain ⟨fsElems, hr, hdoc⟩ := saveXmi_doc K ts cass ci c hp doc st hc hsave
  generalize hLd : sortById st.allFs = L at hL hr ⊢
  generalize hHd : st.heap = H at hL hr hdoc helem ⊢
  obtain ⟨es, hes, hpair⟩ := renderAll_pair K ts cass H tsIdx _ helem L hL.coll (fun q hq => (hL.ids q hq).1)
  rw [hr] at hes
  cases hes
  obtain ⟨o0, h0ty, h0x, h0s, h0p⟩ := null_elem K ts tsIdx hnull
  -- the run
  have hstep0 := step1_fs K ts tsIdx { ty := NULL_T, attrs := [(ID, "0")] } { heap := H } o0 0
    (by decide) (by decide) (h0p H) (by intro h; cases h)
  obtain ⟨tl, A, m1, hrun1, hkeys, hge, hinj, hobjs⟩ := pass1_fsC K ts cass H tsIdx
    (c.views.map (fun p => renderSofa p.2.sofa) ++ (c.views.map (fun p => renderView H p.2) ++ [])) L fsElems
    { heap := H ++ [o0], fss := [] ++ [((0 : Int), H.length)], maxId := max 0 0 } hpair hL.nodup
    (by
      intro q hq
      simp only [List.nil_append, List.map_cons, List.map_nil, List.mem_singleton]
      exact (hL.ids q hq).2)
  dsimp only at hrun1 hge hobjs
  obtain ⟨m2, m2', hrun2⟩ := pass1_sofa_list K ts tsIdx (c.views.map (fun p => renderView H p.2) ++ []) c.views
    { heap := (H ++ [o0]) ++ tl, fss := ([] ++ [((0 : Int), H.length)]) ++ A, maxId := m1 }
    hwf.sofa_ids_nodup (by intro nv _ h; cases h)
  have hrun3 := pass1_view_list K ts tsIdx H [] c.views
    { heap := (H ++ [o0]) ++ tl, fss := ([] ++ [((0 : Int), H.length)]) ++ A,
      sofas := [] ++ c.views.map (fun nv => (nv.2.sofa.xid, psofaOf nv)), maxId := m2, maxNum := m2' }
    hwf.sofa_ids_nodup (by intro nv _ h; cases h)
  have hAn : (A.map (·.1)).Nodup := by rw [hkeys]; exact hL.nodup
  have hA : A = L.map (fun q => (q.1, naOf A q.1)) := naOf_table A L hAn hkeys
  have hmemA : ∀ q ∈ L, (q.1, naOf A q.1) ∈ A := by
    intro q hq
    rw [hA]
    exact List.mem_map.2 ⟨q, hq, by rw [← hA]⟩
  refine ⟨naOf A,
    { heap := (H ++ [o0]) ++ tl, fss := ([] ++ [((0 : Int), H.length)]) ++ A,
      sofas := [] ++ c.views.map (fun nv => (nv.2.sofa.xid, psofaOf nv)),
      views := [] ++ c.views.map (fun nv => (nv.2.sofa.xid, pviewOf H nv)), maxId := m2, maxNum := m2' }, ?_, ?_, ?_, ?_⟩
  · rw [hdoc, List.append_assoc, List.append_assoc, List.singleton_append, pass1_cons, hstep0]
    show pass1 K ts tsIdx false _ _ = _
    rw [← List.append_nil (c.views.map (fun p => renderView H p.2))]
    exact hrun1.trans (hrun2.trans (hrun3.trans (pass1_nil K ts tsIdx false _)))
  · refine ⟨?_, ?_⟩
    · intro q hq q' hq' h
      exact hinj (q.1, naOf A q.1) (hmemA q hq) (q'.1, naOf A q'.1) (hmemA q' hq') h
    · intro q hq
      have := hge _ (hmemA q hq)
      rw [List.length_append, List.length_singleton] at this
      exact this
  · refine ⟨?_, ?_, ?_, rfl, ?_⟩
    · show ([] ++ [((0 : Int), H.length)]) ++ A = _
      rw [← hA]
      rfl
    · show [] ++ c.views.map (fun nv => (nv.2.sofa.xid, psofaOf nv)) = _
      rfl
    · show [] ++ c.views.map (fun nv => (nv.2.sofa.xid, pviewOf H nv)) = _
      rfl
    · refine ⟨o0, ?_, h0ty, h0x, h0s⟩
      show ((H ++ [o0]) ++ tl)[H.length]? = some o0
      rw [List.append_assoc, List.getElem?_append_right (Nat.le_refl _), Nat.sub_self]
      rfl
  · intro q hq
    obtain ⟨a, o, o1, hmem, ho, ho1, hobj⟩ := hobjs q hq
    have ha : naOf A q.1 = a := naOf_mem A hAn q.1 a hmem
    refine ⟨o, o1, ho, ?_, hobj⟩
    show ((H ++ [o0]) ++ tl)[naOf A q.1]? = some o1
    rw [ha]
    exact ho1

end Cassis.Xmi

namespace Cassis.Xmi.CAS
open Cassis.TS Cassis.Traverse Cassis.Lex

/-! ### the second pass -/

/-- the loop of the second pass over a part `Ls` of the collected structures -/
theorem postAll_coll_aux (K : Consts) (ts : TypeSystem) (cass : List Cas) (H : Heap)
    (L : List (Int × Nat)) (na : Int → Nat) (tsIdx ci' : Nat) (sofas : List (Int × PSofa)) (fss : List (Int × Nat))
    (P : Nat → Prop) (hP : ∀ q ∈ L, P q.2) (hna : NaOk H.length L na)
    (hpost : Post2Stmt K ts cass H L na tsIdx ci' sofas fss P) :
    ∀ (Ls : List (Int × Nat)), (∀ q ∈ Ls, q ∈ L) → (Ls.map (·.1)).Nodup → ∀ (hpX : Heap),
      HeapRelP H Ls na (Obj1 K ts cass H hpX) hpX →
      ∃ hpY, postAll K ts tsIdx ci' sofas fss (Ls.map (fun q => (q.1, na q.1))) hpX = .ok hpY ∧
        Frz hpX hpY ∧ (∀ b, b < hpX.length → (∀ q ∈ Ls, b ≠ na q.1) → hpY[b]? = hpX[b]?) ∧
        HeapRelP H Ls na (Obj2 K ts cass H na ci' hpY) hpY := by
  intro Ls
  induction Ls with
  | nil =>
    intro _ _ hpX _
    exact ⟨hpX, rfl, Frz.refl _, fun _ _ _ => rfl, fun q hq => by cases hq⟩
  | cons q Ls ih =>
    intro hsub hnodup hpX hrel
    rw [List.map_cons, List.nodup_cons] at hnodup
    have hqL : q ∈ L := hsub q List.mem_cons_self
    obtain ⟨o, o1, ho, ho1, hobj1⟩ := hrel q List.mem_cons_self
    obtain ⟨t, hpY1, hgt, hpf, hext, o2, ho2, hobj2⟩ := hpost q hqL (hP q hqL) hpX o o1 ho ho1 hobj1
    have hx1 : o1.xid ≠ none := by rw [hobj1.2.1]; exact fun h => by cases h
    have hfrz1 : Frz hpX hpY1 := hext.frz ho1 hx1
    have hlt : na q.1 < hpX.length := (List.getElem?_eq_some_iff.mp ho1).1
    have hne : ∀ q' ∈ Ls, na q'.1 ≠ na q.1 := by
      intro q' hq' he
      have := hna.inj q' (hsub q' (List.mem_cons_of_mem _ hq')) q hqL he
      exact hnodup.1 (List.mem_map.2 ⟨q', hq', this⟩)
    obtain ⟨hpY, hpa, hfrzY, hframeY, hrelY⟩ := ih (fun q' hq' => hsub q' (List.mem_cons_of_mem _ hq')) hnodup.2 hpY1
      (by
        intro q' hq'
        obtain ⟨p, p', hp_, hp', hpr⟩ := hrel q' (List.mem_cons_of_mem _ hq')
        have hlt' : na q'.1 < hpX.length := (List.getElem?_eq_some_iff.mp hp').1
        exact ⟨p, p', hp_, by rw [hext.2.1 _ hlt' (hne q' hq')]; exact hp', hpr.frz hfrz1⟩)
    refine ⟨hpY, ?_, hfrz1.trans hfrzY, ?_, ?_⟩
    · rw [List.map_cons, postAll_cons K ts tsIdx ci' sofas fss q.1 (na q.1) _ hpX hpY1 o1 t ho1 hgt hpf]
      exact hpa
    · intro b hb hbn
      rw [hframeY b (Nat.lt_of_lt_of_le hb hext.1) (fun q' hq' => hbn q' (List.mem_cons_of_mem _ hq')),
        hext.2.1 b hb (hbn q List.mem_cons_self)]
    · intro q' hq'
      rcases List.mem_cons.1 hq' with rfl | hq'
      · refine ⟨o, o2, ho, ?_, hobj2.frz hfrzY⟩
        rw [hframeY _ (Nat.lt_of_lt_of_le hlt hext.1) (fun q'' hq'' => (hne q'' hq'').symm)]
        exact ho2
      · exact hrelY q' hq'

end Cassis.Xmi.CAS

namespace Cassis.Xmi
open Cassis.TS Cassis.Traverse Cassis.Lex CAS

/-- the second pass -/
theorem postAll_coll (K : Consts) (ts : TypeSystem) (cass : List Cas) (ci : Nat) (c : Cas) (H : Heap)
    (L : List (Int × Nat)) (na : Int → Nat) (tsIdx ci' : Nat) (p : Pass1)
    (hnull : NullOk ts) (hL : LOkC K ts c ci H L) (hna : NaOk H.length L na) (hp1 : P1W c H L na p)
    (hrel : HeapRelP H L na (Obj1 K ts cass H p.heap) p.heap)
    (hpost : Post2Stmt K ts cass H L na tsIdx ci' p.sofas p.fss (CollFs K ts c ci H)) :
    ∃ hp2 : Heap, postAll K ts tsIdx ci' p.sofas p.fss p.fss p.heap = .ok hp2 ∧
      hp2[H.length]? = p.heap[H.length]? ∧ Frz p.heap hp2 ∧
      HeapRelP H L na (Obj2 K ts cass H na ci' hp2) hp2 := by
  obtain ⟨t0, hfind0, hfeat0⟩ := hnull
  obtain ⟨o0, ho0, hty0, _, _⟩ := hp1.null
  obtain ⟨hpY, hpa, hfrz, hframe, hrelY⟩ :=
    postAll_coll_aux K ts cass H L na tsIdx ci' p.sofas p.fss _ hL.coll hna hpost L
      (fun _ h => h) hL.nodup p.heap hrel
  have hlt0 : H.length < p.heap.length := (List.getElem?_eq_some_iff.mp ho0).1
  refine ⟨hpY, ?_, hframe _ hlt0 (fun q hq => Nat.ne_of_lt (hna.gt q hq)), hfrz, hrelY⟩
  have hstep := postAll_cons K ts tsIdx ci' p.sofas p.fss 0 H.length (L.map (fun q => (q.1, na q.1))) p.heap p.heap
    o0 t0 ho0 (by rw [hty0]; exact rtp_getType hfind0) (by rw [hfeat0]; rfl)
  rw [← hp1.fss] at hstep
  rw [hstep]
  exact hpa

end Cassis.Xmi
