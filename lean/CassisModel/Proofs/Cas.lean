/-
Helper lemmas for C08 / C09: the CAS state shared by view handles (`Model/Cas.lean`) and the invariants
of `Spec/Cas.lean` along arbitrary histories.
-/
import CassisModel.Spec.Cas
import CassisModel.Proofs.IndexHistory
import CassisModel.Proofs.TypeSystem
import CassisModel.Proofs.Traverse

namespace Cassis.Cas
open Cassis.Index (alistSet_keys alistSet_keys_nodup alistGet?_none_of_not_mem get_alistSet)

/-! ### Association lists -/

theorem alistGet?_some_mem {β} {l : List (String × β)} {k : String} {v : β}
    (h : alistGet? l k = some v) : (k, v) ∈ l := by
  induction l with
  | nil => cases h
  | cons p rest ih =>
    obtain ⟨k', v'⟩ := p
    unfold alistGet? at h
    split at h
    · rename_i hk; cases h; subst hk; exact List.mem_cons_self
    · exact List.mem_cons_of_mem _ (ih h)

theorem alistGet?_isSome_iff {β} (l : List (String × β)) (k : String) :
    (alistGet? l k).isSome = true ↔ k ∈ l.map (·.1) := by
  induction l with
  | nil => simp [alistGet?]
  | cons p rest ih =>
    obtain ⟨k', v'⟩ := p
    unfold alistGet?
    by_cases hk : k' = k
    · subst hk; simp
    · have hk' : ¬ k = k' := fun e => hk e.symm
      simp only [hk, if_false, ih, List.map_cons, List.mem_cons, hk', false_or]

/-- overwriting an existing binding does not change any projection that agrees on old and new value -/
theorem alistSet_map_same {β γ} (g : String × β → γ) (l : List (String × β)) (k : String) (v v' : β)
    (h : alistGet? l k = some v) (hg : g (k, v') = g (k, v)) :
    (alistSet l k v').map g = l.map g := by
  induction l with
  | nil => cases h
  | cons p rest ih =>
    obtain ⟨k', w⟩ := p
    unfold alistGet? at h
    unfold alistSet
    split at h
    · rename_i hk
      cases h
      subst hk
      simp only [if_true, List.map_cons, hg]
    · rename_i hk
      simp only [hk, if_false, List.map_cons, ih h]

theorem alistSet_of_none {β} (l : List (String × β)) (k : String) (v : β) (h : alistGet? l k = none) :
    alistSet l k v = l ++ [(k, v)] := by
  induction l with
  | nil => rfl
  | cons p rest ih =>
    obtain ⟨k', w⟩ := p
    unfold alistGet? at h
    unfold alistSet
    split at h
    · cases h
    · rename_i hk
      simp only [hk, if_false, List.cons_append, ih h]

/-! ### Views -/

theorem getViewRec_set_same (c : Cas) (n : String) (v : View) : getViewRec (setViewRec c n v) n = some v :=
  alistGet?_set_same _ _ _

theorem getViewRec_set_other (c : Cas) (n w : String) (v : View) (h : w ≠ n) :
    getViewRec (setViewRec c n v) w = getViewRec c w :=
  alistGet?_set_other _ _ _ _ h

theorem cur_ok {c : Cas} {h : Handle} {v : View} (hc : cur c h = .ok v) : getViewRec c h.view = some v := by
  unfold cur at hc
  split at hc
  · cases hc; assumption
  · cases hc

theorem cur_of_get {c : Cas} {h : Handle} {v : View} (hc : getViewRec c h.view = some v) : cur c h = .ok v := by
  unfold cur; rw [hc]

/-- the sofa identity of every view: what the invariants read off the views -/
def sig (c : Cas) : List (String × String × Int × Int) :=
  c.views.map (fun p => (p.1, p.2.sofa.sofaID, p.2.sofa.xid, p.2.sofa.sofaNum))

theorem keys_of_sig (c : Cas) : c.views.map (·.1) = (sig c).map (·.1) := by
  unfold sig; rw [List.map_map]; rfl

theorem sofaIds_of_sig (c : Cas) : sofaIds c = (sig c).map (·.2.2.1) := by
  unfold sig sofaIds; rw [List.map_map]; rfl

theorem sofaNums_of_sig (c : Cas) : sofaNums c = (sig c).map (·.2.2.2) := by
  unfold sig sofaNums; rw [List.map_map]; rfl

/-- replacing a view by one with the same sofa identity -/
theorem sig_setViewRec (c : Cas) (n : String) (v v' : View) (h : getViewRec c n = some v)
    (h1 : v'.sofa.sofaID = v.sofa.sofaID) (h2 : v'.sofa.xid = v.sofa.xid)
    (h3 : v'.sofa.sofaNum = v.sofa.sofaNum) : sig (setViewRec c n v') = sig c := by
  unfold sig setViewRec
  exact alistSet_map_same _ _ _ v v' h (by simp only [h1, h2, h3])

/-! ### Characterisation of the operations -/

theorem updSofa_ok {c c' : Cas} {h : Handle} {f : Sofa → Sofa} (hu : updSofa c h f = .ok c') :
    ∃ v, getViewRec c h.view = some v ∧ c' = setViewRec c h.view { v with sofa := f v.sofa } := by
  unfold updSofa at hu
  simp only [bind, Except.bind, pure, Except.pure] at hu
  split at hu
  · cases hu
  · rename_i v hv
    cases hu
    exact ⟨v, cur_ok hv, rfl⟩

theorem remove_ok {c c' : Cas} {hp : Heap} {h : Handle} {addr : Nat} (hr : remove c hp h addr = .ok c') :
    ∃ v idx', getViewRec c h.view = some v ∧ c' = setViewRec c h.view { v with idx := idx' } := by
  unfold remove at hr
  simp only [bind, Except.bind, pure, Except.pure, throw, throwThe, MonadExceptOf.throw] at hr
  cases ho : hp[addr]? with
  | none => simp only [ho] at hr; cases hr
  | some o =>
    simp only [ho] at hr
    cases hv : cur c h with
    | error e => simp only [hv] at hr; cases hr
    | ok v =>
      simp only [hv] at hr
      cases he : entryOf o addr with
      | error e => simp only [he] at hr; cases hr
      | ok e =>
        simp only [he] at hr
        cases hi : Index.rem v.idx o.ty e with
        | none => simp only [hi] at hr; cases hr
        | some idx' =>
          simp only [hi] at hr
          cases hr
          exact ⟨v, idx', cur_ok hv, rfl⟩

theorem entryOf_oid {o : Obj} {addr : Nat} {e : Index.Entry} (h : entryOf o addr = .ok e) : e.oid = addr := by
  unfold entryOf at h
  repeat' split at h
  all_goals first | (cases h; rfl) | cases h

/-- the object `add` writes back -/
def addObj (cas : Nat) (h : Handle) (o : Obj) (x : Int) : Obj :=
  { o with xid := some x,
           slots := if (alistGet? o.slots "sofa").isSome then alistSet o.slots "sofa" (.sofa cas h.view) else o.slots }

theorem add_cases {ts : TS.TypeSystem} {cas : Nat} {c c' : Cas} {hp hp' : Heap} {h : Handle} {addr : Nat}
    {keep : Bool} (hadd : add ts cas c hp h addr keep = .ok (c', hp')) :
    ∃ o v x c1 e, hp[addr]? = some o ∧ (h.lenient = true ∨ TS.containsType ts o.ty = true) ∧
      getViewRec c h.view = some v ∧
      ((keep = true ∧ o.xid = some x ∧ c1 = c) ∨
       ((keep = false ∨ o.xid = none) ∧ x = c.nextXid ∧ c1 = { c with nextXid := c.nextXid + 1 })) ∧
      entryOf (addObj cas h o x) addr = .ok e ∧
      c' = setViewRec c1 h.view { v with idx := Index.add v.idx o.ty e } ∧
      hp' = hp.set addr (addObj cas h o x) := by
  unfold add at hadd
  simp only [bind, Except.bind, pure, Except.pure, throw, throwThe, MonadExceptOf.throw] at hadd
  cases ho : hp[addr]? with
  | none => simp only [ho] at hadd; cases hadd
  | some o =>
    simp only [ho] at hadd
    have hlen' : h.lenient = true ∨ TS.containsType ts o.ty = true := by
      cases hl : h.lenient
      · cases hct : TS.containsType ts o.ty
        · simp [hl, hct] at hadd
        · exact Or.inr rfl
      · exact Or.inl rfl
    split at hadd
    · cases hadd
    · cases hv : cur c h with
      | error e => simp only [hv] at hadd; cases hadd
      | ok v =>
        simp only [hv] at hadd
        cases keep <;> cases hx : o.xid <;> simp only [hx] at hadd <;> split at hadd <;>
          first
          | (cases hadd; done)
          | (rename_i e he
             split at hadd
             · cases hadd
             · cases hadd
               first
               | exact ⟨o, v, _, _, e, rfl, hlen', cur_ok hv, Or.inl ⟨rfl, hx, rfl⟩, he, rfl, rfl⟩
               | exact ⟨o, v, _, _, e, rfl, hlen', cur_ok hv, Or.inr ⟨Or.inl rfl, rfl, rfl⟩, he, rfl, rfl⟩
               | exact ⟨o, v, _, _, e, rfl, hlen', cur_ok hv, Or.inr ⟨Or.inr hx, rfl, rfl⟩, he, rfl, rfl⟩)

theorem keys_setViewRec (c : Cas) (n : String) (v v' : View) (h : getViewRec c n = some v) :
    (setViewRec c n v').views.map (·.1) = c.views.map (·.1) :=
  alistSet_map_same (·.1) _ _ v v' h rfl

/-! ### C08: frames and read-back -/

theorem add_frame_aux (ts : TS.TypeSystem) (cas : Nat) (c c' : Cas) (hp hp' : Heap) (h : Handle) (addr : Nat)
    (keep : Bool) (hadd : add ts cas c hp h addr keep = .ok (c', hp')) :
    (∀ w, w ≠ h.view → getViewRec c' w = getViewRec c w) ∧
    (∃ v v' o e, getViewRec c h.view = some v ∧ getViewRec c' h.view = some v' ∧ hp[addr]? = some o ∧
      v'.sofa = v.sofa ∧ v'.idx = Index.add v.idx o.ty e ∧ e.oid = addr) ∧
    (c'.views.map (·.1)) = (c.views.map (·.1)) := by
  obtain ⟨o, v, x, c1, e, ho, _, hv, hx, he, rfl, rfl⟩ := add_cases hadd
  have hc1 : c1.views = c.views := by
    rcases hx with ⟨_, _, rfl⟩ | ⟨_, _, rfl⟩ <;> rfl
  have hv1 : getViewRec c1 h.view = some v := by
    unfold getViewRec at hv ⊢; rw [hc1]; exact hv
  refine ⟨?_, ?_, ?_⟩
  · intro w hw
    rw [getViewRec_set_other _ _ _ _ hw]
    unfold getViewRec; rw [hc1]
  · exact ⟨v, _, o, e, hv, getViewRec_set_same _ _ _, ho, rfl, rfl, entryOf_oid he⟩
  · rw [keys_setViewRec c1 _ v _ hv1, hc1]

theorem add_heap_aux (ts : TS.TypeSystem) (cas : Nat) (c c' : Cas) (hp hp' : Heap) (h : Handle) (addr : Nat)
    (keep : Bool) (hadd : add ts cas c hp h addr keep = .ok (c', hp')) :
    hp'.length = hp.length ∧ (∀ b, b ≠ addr → hp'[b]? = hp[b]?) ∧
    ∃ o o', hp[addr]? = some o ∧ hp'[addr]? = some o' ∧ o'.ty = o.ty ∧
      (∀ n, n ≠ "sofa" → alistGet? o'.slots n = alistGet? o.slots n) ∧
      ((alistGet? o.slots "sofa").isSome = true → alistGet? o'.slots "sofa" = some (.sofa cas h.view)) ∧
      ((alistGet? o.slots "sofa") = none → alistGet? o'.slots "sofa" = none) := by
  obtain ⟨o, v, x, c1, e, ho, _, hv, hx, he, rfl, rfl⟩ := add_cases hadd
  have hlt : addr < hp.length := (List.getElem?_eq_some_iff.mp ho).1
  refine ⟨List.length_set, ?_, o, addObj cas h o x, ho, List.getElem?_set_self hlt, rfl, ?_, ?_, ?_⟩
  · intro b hb
    exact List.getElem?_set_ne (fun e => hb e.symm)
  · intro n hn
    unfold addObj
    simp only
    split
    · exact alistGet?_set_other _ _ _ _ hn
    · rfl
  · intro hs
    unfold addObj
    simp only [hs, if_true]
    exact alistGet?_set_same _ _ _
  · intro hs
    unfold addObj
    simp only [hs, Option.isSome_none, Bool.false_eq_true, if_false]

theorem remove_frame_aux (c c' : Cas) (hp : Heap) (h : Handle) (addr : Nat) (hr : remove c hp h addr = .ok c') :
    (∀ w, w ≠ h.view → getViewRec c' w = getViewRec c w) ∧
    (∃ v v', getViewRec c h.view = some v ∧ getViewRec c' h.view = some v' ∧ v'.sofa = v.sofa) ∧
    c'.nextXid = c.nextXid ∧ c'.nextSofaNum = c.nextSofaNum := by
  obtain ⟨v, idx', hv, rfl⟩ := remove_ok hr
  exact ⟨fun w hw => getViewRec_set_other _ _ _ _ hw, ⟨v, _, hv, getViewRec_set_same _ _ _, rfl⟩, rfl, rfl⟩

theorem sofa_readback_aux (c c' : Cas) (h : Handle) (f : Sofa → Sofa) (hu : updSofa c h f = .ok c') :
    (∃ v, getViewRec c h.view = some v ∧ getViewRec c' h.view = some { v with sofa := f v.sofa }) ∧
    (∀ w, w ≠ h.view → getViewRec c' w = getViewRec c w) ∧
    c'.nextXid = c.nextXid ∧ c'.nextSofaNum = c.nextSofaNum := by
  obtain ⟨v, hv, rfl⟩ := updSofa_ok hu
  exact ⟨⟨v, hv, getViewRec_set_same _ _ _⟩, fun w hw => getViewRec_set_other _ _ _ _ hw, rfl, rfl⟩

theorem setSofaString_reads_aux (c c' : Cas) (h : Handle) (t : Option (List Nat)) (hs : setSofaString c h t = .ok c') :
    ∃ v v', getViewRec c h.view = some v ∧ getViewRec c' h.view = some v' ∧ v'.sofa.text = t ∧
      v'.sofa.conv = Offsets.createMapping v.sofa.conv t ∧ v'.sofa.mime = v.sofa.mime ∧
      v'.sofa.uri = v.sofa.uri ∧ v'.sofa.arr = v.sofa.arr ∧ v'.sofa.xid = v.sofa.xid ∧
      v'.sofa.sofaNum = v.sofa.sofaNum ∧ v'.idx = v.idx := by
  unfold setSofaString at hs
  obtain ⟨v, hv, rfl⟩ := updSofa_ok hs
  exact ⟨v, _, hv, getViewRec_set_same _ _ _, rfl, rfl, rfl, rfl, rfl, rfl, rfl, rfl⟩

theorem coveredText_spec_aux (cass : List Cas) (hp : Heap) (addr : Nat) (o : Obj) (ci : Nat) (vn : String)
    (c : Cas) (v : View) (b e : Int) (t : List Nat)
    (ho : hp[addr]? = some o) (hs : alistGet? o.slots "sofa" = some (.sofa ci vn))
    (hb : alistGet? o.slots "begin" = some (.int b)) (he : alistGet? o.slots "end" = some (.int e))
    (hc : cass[ci]? = some c) (hv : getViewRec c vn = some v) (ht : v.sofa.text = some t)
    (hb0 : 0 ≤ b) (he0 : 0 ≤ e) :
    coveredText cass hp addr = .ok (some (Offsets.slice t b.toNat e.toNat)) := by
  unfold coveredText
  simp only [bind, Except.bind, pure, Except.pure, throw, throwThe, MonadExceptOf.throw, ho, hs, hb, he, hc,
    hv, ht]
  have h1 : ¬ b < 0 := by omega
  have h2 : ¬ e < 0 := by omega
  simp [h1, h2]

theorem docAnn_existing_aux (ts : TS.TypeSystem) (ti cas : Nat) (c : Cas) (hp : Heap) (h : Handle)
    (e : Index.Entry) (rest : List Index.Entry)
    (hsel : select ts c h TS.DOCUMENT_ANNOTATION = .ok (e :: rest)) :
    getDocumentAnnotation ts ti cas c hp h = .ok (c, hp, e.oid) := by
  unfold getDocumentAnnotation
  simp only [bind, Except.bind, pure, Except.pure, hsel]

end Cassis.Cas
