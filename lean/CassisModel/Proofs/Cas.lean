/-
Helper lemmas for C08 / C09: the CAS state shared by view handles (`Model/Cas.lean`) and the invariants
of `Spec/Cas.lean` along arbitrary histories.
-/
import CassisModel.Spec.Cas
import CassisModel.Proofs.IndexHistory
import CassisModel.Proofs.TypeSystem
import CassisModel.Proofs.Traverse

namespace Cassis.Cas
open Cassis.Index (alistSet_keys alistSet_keys_nodup alistGet?_none_of_not_mem get_alistSet)

/-! ### Association lists -/

theorem alistGet?_some_mem {β} {l : List (String × β)} {k : String} {v : β}
    (h : alistGet? l k = some v) : (k, v) ∈ l := by
  induction l with
  | nil => cases h
  | cons p rest ih =>
    obtain ⟨k', v'⟩ := p
    unfold alistGet? at h
    split at h
    · rename_i hk; cases h; subst hk; exact List.mem_cons_self
    · exact List.mem_cons_of_mem _ (ih h)

theorem alistGet?_isSome_iff {β} (l : List (String × β)) (k : String) :
    (alistGet? l k).isSome = true ↔ k ∈ l.map (·.1) := by
  induction l with
  | nil => simp [alistGet?]
  | cons p rest ih =>
    obtain ⟨k', v'⟩ := p
    unfold alistGet?
    by_cases hk : k' = k
    · subst hk; simp
    · have hk' : ¬ k = k' := fun e => hk e.symm
      simp only [hk, if_false, ih, List.map_cons, List.mem_cons, hk', false_or]

/-- overwriting an existing binding does not change any projection that agrees on old and new value -/
theorem alistSet_map_same {β γ} (g : String × β → γ) (l : List (String × β)) (k : String) (v v' : β)
    (h : alistGet? l k = some v) (hg : g (k, v') = g (k, v)) :
    (alistSet l k v').map g = l.map g := by
  induction l with
  | nil => cases h
  | cons p rest ih =>
    obtain ⟨k', w⟩ := p
    unfold alistGet? at h
    unfold alistSet
    split at h
    · rename_i hk
      cases h
      subst hk
      simp only [if_true, List.map_cons, hg]
    · rename_i hk
      simp only [hk, if_false, List.map_cons, ih h]

theorem alistSet_of_none {β} (l : List (String × β)) (k : String) (v : β) (h : alistGet? l k = none) :
    alistSet l k v = l ++ [(k, v)] := by
  induction l with
  | nil => rfl
  | cons p rest ih =>
    obtain ⟨k', w⟩ := p
    unfold alistGet? at h
    unfold alistSet
    split at h
    · cases h
    · rename_i hk
      simp only [hk, if_false, List.cons_append, ih h]

/-! ### Views -/

theorem getViewRec_set_same (c : Cas) (n : String) (v : View) : getViewRec (setViewRec c n v) n = some v :=
  alistGet?_set_same _ _ _

theorem getViewRec_set_other (c : Cas) (n w : String) (v : View) (h : w ≠ n) :
    getViewRec (setViewRec c n v) w = getViewRec c w :=
  alistGet?_set_other _ _ _ _ h

theorem cur_ok {c : Cas} {h : Handle} {v : View} (hc : cur c h = .ok v) : getViewRec c h.view = some v := by
  unfold cur at hc
  split at hc
  · cases hc; assumption
  · cases hc

theorem cur_of_get {c : Cas} {h : Handle} {v : View} (hc : getViewRec c h.view = some v) : cur c h = .ok v := by
  unfold cur; rw [hc]

/-- the sofa identity of every view: what the invariants read off the views -/
def sig (c : Cas) : List (String × String × Int × Int) :=
  c.views.map (fun p => (p.1, p.2.sofa.sofaID, p.2.sofa.xid, p.2.sofa.sofaNum))

theorem keys_of_sig (c : Cas) : c.views.map (·.1) = (sig c).map (·.1) := by
  unfold sig; rw [List.map_map]; rfl

theorem sofaIds_of_sig (c : Cas) : sofaIds c = (sig c).map (·.2.2.1) := by
  unfold sig sofaIds; rw [List.map_map]; rfl

theorem sofaNums_of_sig (c : Cas) : sofaNums c = (sig c).map (·.2.2.2) := by
  unfold sig sofaNums; rw [List.map_map]; rfl

/-- replacing a view by one with the same sofa identity -/
theorem sig_setViewRec (c : Cas) (n : String) (v v' : View) (h : getViewRec c n = some v)
    (h1 : v'.sofa.sofaID = v.sofa.sofaID) (h2 : v'.sofa.xid = v.sofa.xid)
    (h3 : v'.sofa.sofaNum = v.sofa.sofaNum) : sig (setViewRec c n v') = sig c := by
  unfold sig setViewRec
  exact alistSet_map_same _ _ _ v v' h (by simp only [h1, h2, h3])

/-! ### Characterisation of the operations -/

theorem updSofa_ok {c c' : Cas} {h : Handle} {f : Sofa → Sofa} (hu : updSofa c h f = .ok c') :
    ∃ v, getViewRec c h.view = some v ∧ c' = setViewRec c h.view { v with sofa := f v.sofa } := by
  unfold updSofa at hu
  simp only [bind, Except.bind, pure, Except.pure] at hu
  split at hu
  · cases hu
  · rename_i v hv
    cases hu
    exact ⟨v, cur_ok hv, rfl⟩

theorem remove_ok {c c' : Cas} {hp : Heap} {h : Handle} {addr : Nat} (hr : remove c hp h addr = .ok c') :
    ∃ v idx', getViewRec c h.view = some v ∧ c' = setViewRec c h.view { v with idx := idx' } := by
  unfold remove at hr
  simp only [bind, Except.bind, pure, Except.pure, throw, throwThe, MonadExceptOf.throw] at hr
  cases ho : hp[addr]? with
  | none => simp only [ho] at hr; cases hr
  | some o =>
    simp only [ho] at hr
    cases hv : cur c h with
    | error e => simp only [hv] at hr; cases hr
    | ok v =>
      simp only [hv] at hr
      cases he : entryOf o addr with
      | error e => simp only [he] at hr; cases hr
      | ok e =>
        simp only [he] at hr
        cases hi : Index.rem v.idx o.ty e with
        | none => simp only [hi] at hr; cases hr
        | some idx' =>
          simp only [hi] at hr
          cases hr
          exact ⟨v, idx', cur_ok hv, rfl⟩

theorem entryOf_oid {o : Obj} {addr : Nat} {e : Index.Entry} (h : entryOf o addr = .ok e) : e.oid = addr := by
  unfold entryOf at h
  repeat' split at h
  all_goals first | (cases h; rfl) | cases h

/-- the object `add` writes back -/
def addObj (cas : Nat) (h : Handle) (o : Obj) (x : Int) : Obj :=
  { o with xid := some x,
           slots := if (alistGet? o.slots "sofa").isSome then alistSet o.slots "sofa" (.sofa cas h.view) else o.slots }

theorem add_cases {ts : TS.TypeSystem} {cas : Nat} {c c' : Cas} {hp hp' : Heap} {h : Handle} {addr : Nat}
    {keep : Bool} (hadd : add ts cas c hp h addr keep = .ok (c', hp')) :
    ∃ o v x c1 e, hp[addr]? = some o ∧ (h.lenient = true ∨ TS.containsType ts o.ty = true) ∧
      getViewRec c h.view = some v ∧
      ((keep = true ∧ o.xid = some x ∧ c1 = c) ∨
       ((keep = false ∨ o.xid = none) ∧ x = c.nextXid ∧ c1 = { c with nextXid := c.nextXid + 1 })) ∧
      entryOf (addObj cas h o x) addr = .ok e ∧
      c' = setViewRec c1 h.view { v with idx := Index.add v.idx o.ty e } ∧
      hp' = hp.set addr (addObj cas h o x) := by
  unfold add at hadd
  simp only [bind, Except.bind, pure, Except.pure, throw, throwThe, MonadExceptOf.throw] at hadd
  cases ho : hp[addr]? with
  | none => simp only [ho] at hadd; cases hadd
  | some o =>
    simp only [ho] at hadd
    have hlen' : h.lenient = true ∨ TS.containsType ts o.ty = true := by
      cases hl : h.lenient
      · cases hct : TS.containsType ts o.ty
        · simp [hl, hct] at hadd
        · exact Or.inr rfl
      · exact Or.inl rfl
    split at hadd
    · cases hadd
    · cases hv : cur c h with
      | error e => simp only [hv] at hadd; cases hadd
      | ok v =>
        simp only [hv] at hadd
        cases keep <;> cases hx : o.xid <;> simp only [hx] at hadd <;> split at hadd <;>
          first
          | (cases hadd; done)
          | (rename_i e he
             split at hadd
             · cases hadd
             · cases hadd
               first
               | exact ⟨o, v, _, _, e, rfl, hlen', cur_ok hv, Or.inl ⟨rfl, hx, rfl⟩, he, rfl, rfl⟩
               | exact ⟨o, v, _, _, e, rfl, hlen', cur_ok hv, Or.inr ⟨Or.inl rfl, rfl, rfl⟩, he, rfl, rfl⟩
               | exact ⟨o, v, _, _, e, rfl, hlen', cur_ok hv, Or.inr ⟨Or.inr hx, rfl, rfl⟩, he, rfl, rfl⟩)

theorem keys_setViewRec (c : Cas) (n : String) (v v' : View) (h : getViewRec c n = some v) :
    (setViewRec c n v').views.map (·.1) = c.views.map (·.1) :=
  alistSet_map_same (·.1) _ _ v v' h rfl

/-! ### C08: frames and read-back -/

theorem add_frame_aux (ts : TS.TypeSystem) (cas : Nat) (c c' : Cas) (hp hp' : Heap) (h : Handle) (addr : Nat)
    (keep : Bool) (hadd : add ts cas c hp h addr keep = .ok (c', hp')) :
    (∀ w, w ≠ h.view → getViewRec c' w = getViewRec c w) ∧
    (∃ v v' o e, getViewRec c h.view = some v ∧ getViewRec c' h.view = some v' ∧ hp[addr]? = some o ∧
      v'.sofa = v.sofa ∧ v'.idx = Index.add v.idx o.ty e ∧ e.oid = addr) ∧
    (c'.views.map (·.1)) = (c.views.map (·.1)) := by
  obtain ⟨o, v, x, c1, e, ho, _, hv, hx, he, rfl, rfl⟩ := add_cases hadd
  have hc1 : c1.views = c.views := by
    rcases hx with ⟨_, _, rfl⟩ | ⟨_, _, rfl⟩ <;> rfl
  have hv1 : getViewRec c1 h.view = some v := by
    unfold getViewRec at hv ⊢; rw [hc1]; exact hv
  refine ⟨?_, ?_, ?_⟩
  · intro w hw
    rw [getViewRec_set_other _ _ _ _ hw]
    unfold getViewRec; rw [hc1]
  · exact ⟨v, _, o, e, hv, getViewRec_set_same _ _ _, ho, rfl, rfl, entryOf_oid he⟩
  · rw [keys_setViewRec c1 _ v _ hv1, hc1]

theorem add_heap_aux (ts : TS.TypeSystem) (cas : Nat) (c c' : Cas) (hp hp' : Heap) (h : Handle) (addr : Nat)
    (keep : Bool) (hadd : add ts cas c hp h addr keep = .ok (c', hp')) :
    hp'.length = hp.length ∧ (∀ b, b ≠ addr → hp'[b]? = hp[b]?) ∧
    ∃ o o', hp[addr]? = some o ∧ hp'[addr]? = some o' ∧ o'.ty = o.ty ∧
      (∀ n, n ≠ "sofa" → alistGet? o'.slots n = alistGet? o.slots n) ∧
      ((alistGet? o.slots "sofa").isSome = true → alistGet? o'.slots "sofa" = some (.sofa cas h.view)) ∧
      ((alistGet? o.slots "sofa") = none → alistGet? o'.slots "sofa" = none) := by
  obtain ⟨o, v, x, c1, e, ho, _, hv, hx, he, rfl, rfl⟩ := add_cases hadd
  have hlt : addr < hp.length := (List.getElem?_eq_some_iff.mp ho).1
  refine ⟨List.length_set, ?_, o, addObj cas h o x, ho, List.getElem?_set_self hlt, rfl, ?_, ?_, ?_⟩
  · intro b hb
    exact List.getElem?_set_ne (fun e => hb e.symm)
  · intro n hn
    unfold addObj
    simp only
    split
    · exact alistGet?_set_other _ _ _ _ hn
    · rfl
  · intro hs
    unfold addObj
    simp only [hs, if_true]
    exact alistGet?_set_same _ _ _
  · intro hs
    unfold addObj
    simp only [hs, Option.isSome_none, Bool.false_eq_true, if_false]

theorem remove_frame_aux (c c' : Cas) (hp : Heap) (h : Handle) (addr : Nat) (hr : remove c hp h addr = .ok c') :
    (∀ w, w ≠ h.view → getViewRec c' w = getViewRec c w) ∧
    (∃ v v', getViewRec c h.view = some v ∧ getViewRec c' h.view = some v' ∧ v'.sofa = v.sofa) ∧
    c'.nextXid = c.nextXid ∧ c'.nextSofaNum = c.nextSofaNum := by
  obtain ⟨v, idx', hv, rfl⟩ := remove_ok hr
  exact ⟨fun w hw => getViewRec_set_other _ _ _ _ hw, ⟨v, _, hv, getViewRec_set_same _ _ _, rfl⟩, rfl, rfl⟩

theorem sofa_readback_aux (c c' : Cas) (h : Handle) (f : Sofa → Sofa) (hu : updSofa c h f = .ok c') :
    (∃ v, getViewRec c h.view = some v ∧ getViewRec c' h.view = some { v with sofa := f v.sofa }) ∧
    (∀ w, w ≠ h.view → getViewRec c' w = getViewRec c w) ∧
    c'.nextXid = c.nextXid ∧ c'.nextSofaNum = c.nextSofaNum := by
  obtain ⟨v, hv, rfl⟩ := updSofa_ok hu
  exact ⟨⟨v, hv, getViewRec_set_same _ _ _⟩, fun w hw => getViewRec_set_other _ _ _ _ hw, rfl, rfl⟩

theorem setSofaString_reads_aux (c c' : Cas) (h : Handle) (t : Option (List Nat)) (hs : setSofaString c h t = .ok c') :
    ∃ v v', getViewRec c h.view = some v ∧ getViewRec c' h.view = some v' ∧ v'.sofa.text = t ∧
      v'.sofa.conv = Offsets.createMapping v.sofa.conv t ∧ v'.sofa.mime = v.sofa.mime ∧
      v'.sofa.uri = v.sofa.uri ∧ v'.sofa.arr = v.sofa.arr ∧ v'.sofa.xid = v.sofa.xid ∧
      v'.sofa.sofaNum = v.sofa.sofaNum ∧ v'.idx = v.idx := by
  unfold setSofaString at hs
  obtain ⟨v, hv, rfl⟩ := updSofa_ok hs
  exact ⟨v, _, hv, getViewRec_set_same _ _ _, rfl, rfl, rfl, rfl, rfl, rfl, rfl, rfl⟩

theorem coveredText_spec_aux (cass : List Cas) (hp : Heap) (addr : Nat) (o : Obj) (ci : Nat) (vn : String)
    (c : Cas) (v : View) (b e : Int) (t : List Nat)
    (ho : hp[addr]? = some o) (hs : alistGet? o.slots "sofa" = some (.sofa ci vn))
    (hb : alistGet? o.slots "begin" = some (.int b)) (he : alistGet? o.slots "end" = some (.int e))
    (hc : cass[ci]? = some c) (hv : getViewRec c vn = some v) (ht : v.sofa.text = some t)
    (hb0 : 0 ≤ b) (he0 : 0 ≤ e) :
    coveredText cass hp addr = .ok (some (Offsets.slice t b.toNat e.toNat)) := by
  unfold coveredText
  simp only [bind, Except.bind, pure, Except.pure, throw, throwThe, MonadExceptOf.throw, ho, hs, hb, he, hc,
    hv, ht]
  have h1 : ¬ b < 0 := by omega
  have h2 : ¬ e < 0 := by omega
  simp [h1, h2]

theorem docAnn_existing_aux (ts : TS.TypeSystem) (ti cas : Nat) (c : Cas) (hp : Heap) (h : Handle)
    (e : Index.Entry) (rest : List Index.Entry)
    (hsel : select ts c h TS.DOCUMENT_ANNOTATION = .ok (e :: rest)) :
    getDocumentAnnotation ts ti cas c hp h = .ok (c, hp, e.oid) := by
  unfold getDocumentAnnotation
  simp only [bind, Except.bind, pure, Except.pure, hsel]

/-! ### The document annotation -/

theorem construct_ok {t : TS.TypeRec} {ti : Nat} {x : Option Int} {kw : List (String × Val)} {o : Obj}
    (h : construct t ti x kw = .ok o) : o.ty = t.name ∧ o.xid = x := by
  unfold construct at h
  simp only at h
  split at h
  · cases h
  · cases h; exact ⟨rfl, rfl⟩

theorem docAnn_cases {ts : TS.TypeSystem} {ti cas : Nat} {c c' : Cas} {hp hp' : Heap} {h : Handle} {a : Nat}
    (hd : getDocumentAnnotation ts ti cas c hp h = .ok (c', hp', a)) :
    (∃ e rest, select ts c h TS.DOCUMENT_ANNOTATION = .ok (e :: rest) ∧ c' = c ∧ hp' = hp ∧ a = e.oid) ∨
    (select ts c h TS.DOCUMENT_ANNOTATION = .ok [] ∧ ∃ t o, TS.getType ts TS.DOCUMENT_ANNOTATION = .ok t ∧
      construct t ti none [] = .ok o ∧ add ts cas c (hp ++ [o]) h hp.length true = .ok (c', hp') ∧
      a = hp.length) := by
  unfold getDocumentAnnotation at hd
  simp only [bind, Except.bind, pure, Except.pure] at hd
  cases hsel : select ts c h TS.DOCUMENT_ANNOTATION with
  | error e => simp only [hsel] at hd; cases hd
  | ok sel =>
    simp only [hsel] at hd
    cases sel with
    | cons e rest =>
      simp only at hd
      cases hd
      exact Or.inl ⟨e, rest, rfl, rfl, rfl, rfl⟩
    | nil =>
      simp only at hd
      cases ht : TS.getType ts TS.DOCUMENT_ANNOTATION with
      | error e => simp only [ht] at hd; cases hd
      | ok t =>
        simp only [ht] at hd
        cases hc : construct t ti none [] with
        | error e => simp only [hc] at hd; cases hd
        | ok o =>
          simp only [hc] at hd
          cases hadd : add ts cas c (hp ++ [o]) h hp.length true with
          | error e => simp only [hadd] at hd; cases hd
          | ok r =>
            obtain ⟨c2, hp2⟩ := r
            simp only [hadd] at hd
            cases hd
            exact Or.inr ⟨rfl, t, o, rfl, hc, hadd, rfl⟩

theorem select_cases {ts : TS.TypeSystem} {c : Cas} {h : Handle} {n : String} {l : List Index.Entry}
    (hs : select ts c h n = .ok l) :
    ∃ t v, TS.getType ts n = .ok t ∧ getViewRec c h.view = some v ∧
      l = Index.selectNames v.idx (TS.descendantsOf ts t.name) := by
  unfold select at hs
  simp only [bind, Except.bind, pure, Except.pure] at hs
  cases ht : TS.getType ts n with
  | error e => simp only [ht] at hs; cases hs
  | ok t =>
    simp only [ht] at hs
    cases hv : cur c h with
    | error e => simp only [hv] at hs; cases hs
    | ok v =>
      simp only [hv] at hs
      cases hs
      exact ⟨t, v, rfl, cur_ok hv, rfl⟩

theorem select_of {ts : TS.TypeSystem} {c : Cas} {h : Handle} {n : String} {t : TS.TypeRec} {v : View}
    (ht : TS.getType ts n = .ok t) (hv : getViewRec c h.view = some v) :
    select ts c h n = .ok (Index.selectNames v.idx (TS.descendantsOf ts t.name)) := by
  unfold select
  simp only [bind, Except.bind, pure, Except.pure, ht, cur_of_get hv]

theorem flatMap_head_of_single {names : List String} {f : String → List Index.Entry} {ty : String}
    {e : Index.Entry} (hf : ∀ n ∈ names, f n = if n = ty then [e] else []) (hm : ty ∈ names) :
    ∃ r, names.flatMap f = e :: r := by
  induction names with
  | nil => cases hm
  | cons n rest ih =>
    rw [List.flatMap_cons, hf n List.mem_cons_self]
    by_cases hn : n = ty
    · simp only [hn, if_true]
      exact ⟨_, rfl⟩
    · simp only [hn, if_false, List.nil_append]
      have hm' : ty ∈ rest := by
        rcases List.mem_cons.mp hm with e | e
        · exact absurd e.symm hn
        · exact e
      exact ih (fun m hm2 => hf m (List.mem_cons_of_mem _ hm2)) hm'

theorem self_mem_descendantsOf {ts : TS.TypeSystem} (hcs : TS.Consistent ts) {n : String} {t : TS.TypeRec}
    (ht : TS.getType ts n = .ok t) : t.name ∈ TS.descendantsOf ts t.name := by
  have hm : t ∈ ts.types := TS.getType_mem ht
  have hx : TS.hasExact ts t.name = true :=
    (TS.hasExact_iff_mem ts t.name).mpr (List.mem_map.mpr ⟨t, hm, rfl⟩)
  exact (TS.descendants_eq_closure_aux ts hcs t.name t.name hx).mpr (TS.Anc.refl _ hx)

theorem docAnn_creates_once_aux (ts : TS.TypeSystem) (hcs : TS.Consistent ts) (ti cas : Nat) (c c' : Cas)
    (hp hp' : Heap) (h : Handle) (a : Nat)
    (hsel : select ts c h TS.DOCUMENT_ANNOTATION = .ok [])
    (hd : getDocumentAnnotation ts ti cas c hp h = .ok (c', hp', a)) :
    a = hp.length ∧ hp'.length = hp.length + 1 ∧
    getDocumentAnnotation ts ti cas c' hp' h = .ok (c', hp', a) := by
  rcases docAnn_cases hd with ⟨e, rest, hs, _⟩ | ⟨_, t, o, ht, hc, hadd, ha⟩
  · rw [hsel] at hs; cases hs
  obtain ⟨t0, v0, ht0, hv0, hnil⟩ := select_cases hsel
  rw [ht] at ht0
  cases ht0
  obtain ⟨o1, v, x, c1, e, ho1, _, hv, hx, he, rfl, rfl⟩ := add_cases hadd
  rw [hv0] at hv
  cases hv
  have ho : o1 = o := by
    have : (hp ++ [o])[hp.length]? = some o := by simp
    rw [this] at ho1
    cases ho1; rfl
  subst ho
  have hty : o1.ty = t.name := (construct_ok hc).1
  subst ha
  have hempty : ∀ n ∈ TS.descendantsOf ts t.name, Index.get v0.idx n = [] := by
    intro n hn
    unfold Index.selectNames at hnil
    exact List.flatMap_eq_nil_iff.mp hnil.symm n hn
  have hself := self_mem_descendantsOf hcs ht
  have hget : ∀ n ∈ TS.descendantsOf ts t.name,
      Index.get (Index.add v0.idx o1.ty e) n = if n = t.name then [e] else [] := by
    intro n hn
    unfold Index.add
    rw [get_alistSet, hty, hempty _ hself, hempty n hn]
    rfl
  obtain ⟨r, hr⟩ := flatMap_head_of_single hget hself
  refine ⟨rfl, ?_, ?_⟩
  · rw [List.length_set, List.length_append]; rfl
  · have hs2 : select ts (setViewRec c1 h.view { v0 with idx := Index.add v0.idx o1.ty e }) h
        TS.DOCUMENT_ANNOTATION = .ok (e :: r) := by
      rw [select_of ht (getViewRec_set_same _ _ _)]
      unfold Index.selectNames
      simp only
      rw [hr]
    rw [docAnn_existing_aux ts ti cas _ _ h e r hs2, entryOf_oid he]

/-! ### Ids: an index-based form of `Bounded ∧ UniqueIds` -/

theorem mem_fsIds {hp : Heap} {x : Int} : x ∈ fsIds hp ↔ ∃ (i : Nat) (o : Obj), hp[i]? = some o ∧ o.xid = some x := by
  unfold fsIds
  rw [List.mem_filterMap]
  constructor
  · rintro ⟨o, hm, hx⟩
    obtain ⟨i, hi⟩ := List.mem_iff_getElem?.mp hm
    exact ⟨i, o, hi, hx⟩
  · rintro ⟨i, o, hi, hx⟩
    exact ⟨o, List.mem_of_getElem? hi, hx⟩

/-- no two heap objects share an id -/
def FsUniq (hp : Heap) : Prop :=
  ∀ (i j : Nat) (oi oj : Obj) (x : Int), i ≠ j → hp[i]? = some oi → hp[j]? = some oj → oi.xid = some x → oj.xid ≠ some x

theorem fsIds_nodup_iff (hp : Heap) : (fsIds hp).Nodup ↔ FsUniq hp := by
  unfold fsIds List.Nodup FsUniq
  rw [List.pairwise_filterMap, List.pairwise_iff_getElem]
  constructor
  · intro h i j oi oj x hij hi hj hxi hxj
    obtain ⟨hi', rfl⟩ := List.getElem?_eq_some_iff.mp hi
    obtain ⟨hj', rfl⟩ := List.getElem?_eq_some_iff.mp hj
    rcases Nat.lt_or_gt_of_ne hij with hlt | hlt
    · exact h i j hi' hj' hlt x hxi x hxj rfl
    · exact h j i hj' hi' hlt x hxj x hxi rfl
  · intro h i j hi hj hlt b hb b' hb' e
    subst e
    exact h i j _ _ b (Nat.ne_of_lt hlt) (List.getElem?_eq_getElem hi) (List.getElem?_eq_getElem hj) hb hb'

/-- sofa ids `S`, heap `hp` and generator value `nx` fit together -/
def IdsOk (S : List Int) (hp : Heap) (nx : Int) : Prop :=
  S.Nodup ∧ (∀ x ∈ S, x < nx) ∧
  (∀ (i : Nat) (o : Obj) (x : Int), hp[i]? = some o → o.xid = some x → x < nx ∧ x ∉ S) ∧
  FsUniq hp

def NumsOk (N : List Int) (nn : Int) : Prop := N.Nodup ∧ ∀ n ∈ N, n < nn

theorem good_iff (s : CState) : Bounded s ∧ UniqueIds s ↔
    IdsOk (sofaIds s.cas) s.heap s.cas.nextXid ∧ NumsOk (sofaNums s.cas) s.cas.nextSofaNum := by
  unfold Bounded UniqueIds IdsOk NumsOk
  rw [List.nodup_append, fsIds_nodup_iff]
  constructor
  · rintro ⟨⟨b1, b2, b3⟩, ⟨n1, n2, n3⟩, hn⟩
    refine ⟨⟨n1, b1, ?_, n2⟩, hn, b2⟩
    intro i o x hi hx
    have hm : x ∈ fsIds s.heap := mem_fsIds.mpr ⟨i, o, hi, hx⟩
    exact ⟨b3 x hm, fun hs => n3 x hs x hm rfl⟩
  · rintro ⟨⟨n1, b1, h3, n2⟩, hn, b2⟩
    refine ⟨⟨b1, b2, ?_⟩, ⟨n1, n2, ?_⟩, hn⟩
    · intro x hm
      obtain ⟨i, o, hi, hx⟩ := mem_fsIds.mp hm
      exact (h3 i o x hi hx).1
    · intro a ha b hb e
      subst e
      obtain ⟨i, o, hi, hx⟩ := mem_fsIds.mp hb
      exact (h3 i o a hi hx).2 ha

/-- a heap all of whose ids already occurred at the same address -/
theorem IdsOk.of_xid_sub {S : List Int} {hp hp' : Heap} {nx : Int} (h : IdsOk S hp nx)
    (hsub : ∀ (i : Nat) (o' : Obj) (x : Int), hp'[i]? = some o' → o'.xid = some x →
      ∃ o : Obj, hp[i]? = some o ∧ o.xid = some x) :
    IdsOk S hp' nx := by
  obtain ⟨h1, h2, h3, h4⟩ := h
  refine ⟨h1, h2, ?_, ?_⟩
  · intro i o' x hi hx
    obtain ⟨o, hi0, hx0⟩ := hsub i o' x hi hx
    exact h3 i o x hi0 hx0
  · intro i j oi oj x hij hi hj hxi hxj
    obtain ⟨oi0, hi0, hxi0⟩ := hsub i oi x hi hxi
    obtain ⟨oj0, hj0, hxj0⟩ := hsub j oj x hj hxj
    exact h4 i j oi0 oj0 x hij hi0 hj0 hxi0 hxj0

theorem getElem?_append_single {α} {l : List α} {a b : α} {i : Nat} (h : (l ++ [a])[i]? = some b) :
    l[i]? = some b ∨ (i = l.length ∧ b = a) := by
  rw [List.getElem?_append] at h
  split at h
  · exact Or.inl h
  · rename_i hlt
    right
    have hi : i - l.length = 0 := by
      cases hk : i - l.length with
      | zero => rfl
      | succ k => rw [hk] at h; simp at h
    rw [hi] at h
    simp only [List.getElem?_cons_zero, Option.some.injEq] at h
    exact ⟨by omega, h.symm⟩

theorem IdsOk.append_none {S : List Int} {hp : Heap} {nx : Int} (h : IdsOk S hp nx) {o : Obj}
    (ho : o.xid = none) : IdsOk S (hp ++ [o]) nx := by
  apply h.of_xid_sub
  intro i o' x hi hx
  rcases getElem?_append_single hi with h1 | ⟨_, rfl⟩
  · exact ⟨o', h1, hx⟩
  · rw [ho] at hx; cases hx

theorem getElem?_set_cases {α} {l : List α} {a : Nat} {v b : α} {i : Nat} (h : (l.set a v)[i]? = some b) :
    (i = a ∧ b = v) ∨ (i ≠ a ∧ l[i]? = some b) := by
  rw [List.getElem?_set] at h
  split at h
  · rename_i e
    split at h
    · cases h; exact Or.inl ⟨e.symm, rfl⟩
    · cases h
  · rename_i e
    exact Or.inr ⟨fun e' => e e'.symm, h⟩

theorem IdsOk.set_keep {S : List Int} {hp : Heap} {nx : Int} (h : IdsOk S hp nx) {a : Nat} {o o' : Obj}
    (hget : hp[a]? = some o) (hx : o'.xid = o.xid) : IdsOk S (hp.set a o') nx := by
  apply h.of_xid_sub
  intro i o2 x hi hx2
  rcases getElem?_set_cases hi with ⟨rfl, rfl⟩ | ⟨_, h1⟩
  · exact ⟨o, hget, by rw [← hx]; exact hx2⟩
  · exact ⟨o2, h1, hx2⟩

theorem IdsOk.set_fresh {S : List Int} {hp : Heap} {nx : Int} (h : IdsOk S hp nx) {a : Nat} {o' : Obj}
    (hx : o'.xid = some nx) : IdsOk S (hp.set a o') (nx + 1) := by
  obtain ⟨h1, h2, h3, h4⟩ := h
  have hfresh : ∀ (i : Nat) (o : Obj), hp[i]? = some o → o.xid ≠ some nx := by
    intro i o hi hxo
    have := (h3 i o nx hi hxo).1
    omega
  refine ⟨h1, ?_, ?_, ?_⟩
  · intro x hm; have := h2 x hm; omega
  · intro i o2 x hi hx2
    rcases getElem?_set_cases hi with ⟨rfl, rfl⟩ | ⟨_, hi0⟩
    · rw [hx] at hx2
      cases hx2
      exact ⟨by omega, fun hm => by have := h2 _ hm; omega⟩
    · have := h3 i o2 x hi0 hx2
      exact ⟨by omega, this.2⟩
  · intro i j oi oj x hij hi hj hxi hxj
    rcases getElem?_set_cases hi with ⟨rfl, rfl⟩ | ⟨hia, hi0⟩
    · rcases getElem?_set_cases hj with ⟨rfl, rfl⟩ | ⟨_, hj0⟩
      · exact hij rfl
      · rw [hx] at hxi; cases hxi
        exact hfresh j oj hj0 hxj
    · rcases getElem?_set_cases hj with ⟨rfl, rfl⟩ | ⟨_, hj0⟩
      · rw [hx] at hxj; cases hxj
        exact hfresh i oi hi0 hxi
      · exact h4 i j oi oj x hij hi0 hj0 hxi hxj

theorem IdsOk.new_sofa {S : List Int} {hp : Heap} {nx : Int} (h : IdsOk S hp nx) :
    IdsOk (S ++ [nx]) hp (nx + 1) := by
  obtain ⟨h1, h2, h3, h4⟩ := h
  refine ⟨?_, ?_, ?_, h4⟩
  · rw [List.nodup_append]
    refine ⟨h1, List.pairwise_singleton _ _, ?_⟩
    intro a ha b hb e
    simp only [List.mem_singleton] at hb
    have := h2 a ha
    omega
  · intro x hm
    rcases List.mem_append.mp hm with hm | hm
    · have := h2 x hm; omega
    · simp only [List.mem_singleton] at hm; omega
  · intro i o x hi hx
    have := h3 i o x hi hx
    refine ⟨by omega, fun hm => ?_⟩
    rcases List.mem_append.mp hm with hm | hm
    · exact this.2 hm
    · simp only [List.mem_singleton] at hm; omega

theorem NumsOk.new {N : List Int} {nn : Int} (h : NumsOk N nn) : NumsOk (N ++ [nn]) (nn + 1) := by
  obtain ⟨h1, h2⟩ := h
  refine ⟨?_, ?_⟩
  · rw [List.nodup_append]
    refine ⟨h1, List.pairwise_singleton _ _, ?_⟩
    intro a ha b hb e
    simp only [List.mem_singleton] at hb
    have := h2 a ha
    omega
  · intro x hm
    rcases List.mem_append.mp hm with hm | hm
    · have := h2 x hm; omega
    · simp only [List.mem_singleton] at hm; omega

end Cassis.Cas

/-! ### The traversal assigns ids from the generator only

Any relation between heap and generator value that is kept by "give the object at `a`, which has no id,
the id `nx` and advance the generator" is kept by `findAllFs`. -/
namespace Cassis.Traverse
open Cassis.TS

theorem step_pres (P : Heap → Int → Prop)
    (hset : ∀ hp nx a ob, P hp nx → hp[a]? = some ob → ob.xid = none →
      P (hp.set a { ob with xid := some nx }) (nx + 1))
    (K : Consts) (ts : TypeSystem) (o : Opts) (lf : Nat) (s : St) (a : Nat) (rest : List Nat) (s' : St)
    (hP : P s.heap s.nextXid) (h : step K ts o lf s a rest = .ok s') : P s'.heap s'.nextXid := by
  unfold step at h
  simp only [bind, Except.bind, pure, Except.pure, throw, throwThe, MonadExceptOf.throw] at h
  split at h
  case h_2 => cases h
  rename_i ob hob
  repeat' split at h
  all_goals first
    | (cases h; done)
    | (cases h; exact hP)
    | (cases h; exact hset _ _ _ _ hP hob (by assumption))

theorem run_pres (P : Heap → Int → Prop)
    (hset : ∀ hp nx a ob, P hp nx → hp[a]? = some ob → ob.xid = none →
      P (hp.set a { ob with xid := some nx }) (nx + 1))
    (K : Consts) (ts : TypeSystem) (o : Opts) (lf : Nat) (f : Nat) (s s' : St)
    (hP : P s.heap s.nextXid) (h : run K ts o lf f s = .ok s') : P s'.heap s'.nextXid := by
  induction f generalizing s with
  | zero =>
    unfold run at h
    split at h
    · cases h; exact hP
    · cases h
  | succ f ih =>
    unfold run at h
    split at h
    · cases h; exact hP
    · rename_i a rest ho
      cases hs : step K ts o lf s a rest with
      | error e => rw [hs] at h; cases h
      | ok s1 =>
        rw [hs] at h
        exact ih s1 (step_pres P hset K ts o lf s a rest s1 hP hs) h

theorem findAllFs_pres (P : Heap → Int → Prop)
    (hset : ∀ hp nx a ob, P hp nx → hp[a]? = some ob → ob.xid = none →
      P (hp.set a { ob with xid := some nx }) (nx + 1))
    (K : Consts) (ts : TypeSystem) (o : Opts) (hp : Heap) (nx : Int) (seeds : List Nat) (s' : St)
    (hP : P hp nx) (h : findAllFs K ts o hp nx seeds = .ok s') : P s'.heap s'.nextXid :=
  run_pres P hset K ts o _ _ _ s' hP h

end Cassis.Traverse

namespace Cassis.Cas

/-! ### One step of a history -/

theorem isSome_iff_keys (c : Cas) (n : String) :
    (getViewRec c n).isSome = true ↔ n ∈ c.views.map (·.1) := alistGet?_isSome_iff _ _

theorem viewsOk_iff_sig (s : CState) :
    ViewsOk s ↔ ((sig s.cas).map (·.1)).Nodup ∧ ∀ q ∈ sig s.cas, q.2.1 = q.1 := by
  unfold ViewsOk
  rw [keys_of_sig]
  constructor
  · rintro ⟨h1, h2⟩
    refine ⟨h1, ?_⟩
    intro q hq
    obtain ⟨p, hp, rfl⟩ := List.mem_map.mp hq
    exact h2 p hp
  · rintro ⟨h1, h2⟩
    refine ⟨h1, ?_⟩
    intro p hp
    exact h2 _ (List.mem_map.mpr ⟨p, hp, rfl⟩)

/-- the invariant carried along histories -/
def Good (s : CState) : Prop :=
  IdsOk (sofaIds s.cas) s.heap s.cas.nextXid ∧ NumsOk (sofaNums s.cas) s.cas.nextSofaNum ∧ ViewsOk s

theorem good_iff' (s : CState) : Good s ↔ Bounded s ∧ UniqueIds s ∧ ViewsOk s := by
  unfold Good
  constructor
  · rintro ⟨h1, h2, h3⟩
    have := (good_iff s).mpr ⟨h1, h2⟩
    exact ⟨this.1, this.2, h3⟩
  · rintro ⟨h1, h2, h3⟩
    have := (good_iff s).mp ⟨h1, h2⟩
    exact ⟨this.1, this.2, h3⟩

/-- view names only grow; a new handle copies the leniency of an old one and names an existing view -/
def Ext (s s' : CState) : Prop :=
  (∀ n, n ∈ s.cas.views.map (·.1) → n ∈ s'.cas.views.map (·.1)) ∧
  ∀ hd ∈ s'.handles, hd ∈ s.handles ∨
    ((∃ h0 ∈ s.handles, hd.lenient = h0.lenient) ∧ hd.view ∈ s'.cas.views.map (·.1))

theorem Ext.refl (s : CState) : Ext s s := ⟨fun _ h => h, fun _ h => Or.inl h⟩

theorem Ext.trans {s1 s2 s3 : CState} (h12 : Ext s1 s2) (h23 : Ext s2 s3) (hh : s2.handles = s1.handles) :
    Ext s1 s3 := by
  refine ⟨fun n h => h23.1 n (h12.1 n h), ?_⟩
  intro hd hm
  rcases h23.2 hd hm with h | ⟨⟨h0, hm0, hl⟩, hv⟩
  · left; rw [← hh]; exact h
  · right; exact ⟨⟨h0, by rw [← hh]; exact hm0, hl⟩, hv⟩

theorem good_update {s s' : CState} (hg : Good s) (hsig : sig s'.cas = sig s.cas)
    (hnum : s'.cas.nextSofaNum = s.cas.nextSofaNum) (hh : s'.handles = s.handles)
    (hids : IdsOk (sofaIds s.cas) s'.heap s'.cas.nextXid) : Good s' ∧ Ext s s' := by
  obtain ⟨_, h2, h3⟩ := hg
  refine ⟨⟨?_, ?_, ?_⟩, ?_, ?_⟩
  · rw [sofaIds_of_sig, hsig, ← sofaIds_of_sig]; exact hids
  · rw [sofaNums_of_sig, hsig, ← sofaNums_of_sig, hnum]; exact h2
  · rw [viewsOk_iff_sig, hsig, ← viewsOk_iff_sig]; exact h3
  · intro n hn
    rw [keys_of_sig, hsig, ← keys_of_sig]; exact hn
  · intro hd hm
    left; rw [← hh]; exact hm

theorem setView_good {s : CState} (hg : Good s) {n : String} {v v' : View}
    (hv : getViewRec s.cas n = some v)
    (h1 : v'.sofa.sofaID = v.sofa.sofaID) (h2 : v'.sofa.xid = v.sofa.xid)
    (h3 : v'.sofa.sofaNum = v.sofa.sofaNum) :
    Good { s with cas := setViewRec s.cas n v' } ∧ Ext s { s with cas := setViewRec s.cas n v' } :=
  good_update hg (sig_setViewRec _ _ v v' hv h1 h2 h3) rfl rfl hg.1

theorem add_good {ts : TS.TypeSystem} {cas : Nat} {s : CState} {h : Handle} {addr : Nat} {keep : Bool}
    {c' : Cas} {hp' : Heap} (hg : Good s) (hadd : add ts cas s.cas s.heap h addr keep = .ok (c', hp')) :
    Good { s with cas := c', heap := hp' } ∧ Ext s { s with cas := c', heap := hp' } := by
  obtain ⟨o, v, x, c1, e, ho, _, hv, hx, he, rfl, rfl⟩ := add_cases hadd
  rcases hx with ⟨_, hxo, rfl⟩ | ⟨_, rfl, rfl⟩
  · refine good_update hg (sig_setViewRec _ _ v _ hv rfl rfl rfl) rfl rfl ?_
    exact hg.1.set_keep ho (by rw [hxo]; rfl)
  · refine good_update hg (sig_setViewRec _ _ v _ hv rfl rfl rfl) rfl rfl ?_
    exact hg.1.set_fresh rfl

def newView (c : Cas) (name : String) : View :=
  { sofa := { sofaID := name, sofaNum := c.nextSofaNum, xid := c.nextXid } }

theorem createView_ok {c c' : Cas} {h h' : Handle} {name : String}
    (hc : createView c h name = .ok (c', h')) :
    getViewRec c name = none ∧
    c' = { views := c.views ++ [(name, newView c name)], nextXid := c.nextXid + 1,
           nextSofaNum := c.nextSofaNum + 1 } ∧ h' = { h with view := name } := by
  unfold createView at hc
  split at hc
  · cases hc
  · rename_i hn
    have hnone : getViewRec c name = none := by
      cases hg : getViewRec c name with
      | none => rfl
      | some v => rw [hg] at hn; exact absurd rfl hn
    cases hc
    refine ⟨hnone, ?_, rfl⟩
    simp only [addView, setViewRec]
    rw [alistSet_of_none _ _ _ hnone]
    rfl

theorem getView_ok {c : Cas} {h h' : Handle} {name : String} (hc : getView c h name = .ok h') :
    (getViewRec c name).isSome = true ∧ h' = { h with view := name } := by
  unfold getView at hc
  split at hc
  · rename_i hn; cases hc; exact ⟨hn, rfl⟩
  · cases hc

theorem updSofa_good {s : CState} (hg : Good s) {h : Handle} {f : Sofa → Sofa} {c' : Cas}
    (hf1 : ∀ x, (f x).sofaID = x.sofaID) (hf2 : ∀ x, (f x).xid = x.xid) (hf3 : ∀ x, (f x).sofaNum = x.sofaNum)
    (hu : updSofa s.cas h f = .ok c') : Good { s with cas := c' } ∧ Ext s { s with cas := c' } := by
  obtain ⟨v, hv, rfl⟩ := updSofa_ok hu
  exact setView_good hg hv (hf1 _) (hf2 _) (hf3 _)

theorem step_good (K : TS.Consts) (ts : TS.TypeSystem) (s : CState) (op : COp) (hg : Good s) :
    Good (cstep K ts s op) ∧ Ext s (cstep K ts s op) := by
  have hrefl : Good s ∧ Ext s s := ⟨hg, Ext.refl s⟩
  cases op with
  | createView h name =>
    simp only [cstep]
    cases hh : s.handles[h]? with
    | none => exact hrefl
    | some hd =>
      simp only
      cases hc : createView s.cas hd name with
      | error e => exact hrefl
      | ok r =>
        obtain ⟨c', h'⟩ := r
        simp only
        obtain ⟨hnone, rfl, rfl⟩ := createView_ok hc
        obtain ⟨g1, g2, g3⟩ := hg
        have hnk : name ∉ s.cas.views.map (·.1) := by
          intro hm
          have := (isSome_iff_keys s.cas name).mpr hm
          rw [hnone] at this
          cases this
        refine ⟨⟨?_, ?_, ?_, ?_⟩, ?_, ?_⟩
        · show IdsOk (sofaIds _) s.heap (s.cas.nextXid + 1)
          simp only [sofaIds, List.map_append, List.map_cons, List.map_nil, newView]
          exact g1.new_sofa
        · show NumsOk (sofaNums _) (s.cas.nextSofaNum + 1)
          simp only [sofaNums, List.map_append, List.map_cons, List.map_nil, newView]
          exact g2.new
        · show ((s.cas.views ++ [(name, newView s.cas name)]).map (·.1)).Nodup
          rw [List.map_append, List.nodup_append]
          refine ⟨g3.1, List.pairwise_singleton _ _, ?_⟩
          intro a ha b hb e
          simp only [List.map_cons, List.map_nil, List.mem_singleton] at hb
          subst e; subst hb
          exact hnk ha
        · show ∀ p ∈ s.cas.views ++ [(name, newView s.cas name)], p.2.sofa.sofaID = p.1
          intro p hp
          rcases List.mem_append.mp hp with hp | hp
          · exact g3.2 p hp
          · simp only [List.mem_singleton] at hp
            subst hp; rfl
        · intro n hn
          show n ∈ (s.cas.views ++ [(name, newView s.cas name)]).map (·.1)
          rw [List.map_append]
          exact List.mem_append_left _ hn
        · intro hd' hm
          have hm' : hd' ∈ s.handles ++ [{ hd with view := name }] := hm
          rcases List.mem_append.mp hm' with hm' | hm'
          · exact Or.inl hm'
          · simp only [List.mem_singleton] at hm'
            subst hm'
            right
            refine ⟨⟨hd, List.mem_of_getElem? hh, rfl⟩, ?_⟩
            show name ∈ (s.cas.views ++ [(name, newView s.cas name)]).map (·.1)
            simp
  | getView h name =>
    simp only [cstep]
    cases hh : s.handles[h]? with
    | none => exact hrefl
    | some hd =>
      simp only
      cases hc : getView s.cas hd name with
      | error e => exact hrefl
      | ok h' =>
        simp only
        obtain ⟨hsome, rfl⟩ := getView_ok hc
        refine ⟨hg, fun n hn => hn, ?_⟩
        intro hd' hm
        have hm' : hd' ∈ s.handles ++ [{ hd with view := name }] := hm
        rcases List.mem_append.mp hm' with hm' | hm'
        · exact Or.inl hm'
        · simp only [List.mem_singleton] at hm'
          subst hm'
          right
          exact ⟨⟨hd, List.mem_of_getElem? hh, rfl⟩, (isSome_iff_keys s.cas name).mp hsome⟩
  | newFs ty feats =>
    simp only [cstep]
    cases ht : TS.getType ts ty with
    | error e => exact hrefl
    | ok t =>
      simp only
      cases hc : construct t 0 none feats with
      | error e => exact hrefl
      | ok o =>
        simp only
        exact good_update hg rfl rfl rfl (hg.1.append_none (construct_ok hc).2)
  | add h addr keep =>
    simp only [cstep]
    cases hh : s.handles[h]? with
    | none => exact hrefl
    | some hd =>
      simp only
      cases hc : add ts 0 s.cas s.heap hd addr keep with
      | error e => exact hrefl
      | ok r =>
        obtain ⟨c', hp'⟩ := r
        exact add_good hg hc
  | remove h addr =>
    simp only [cstep]
    cases hh : s.handles[h]? with
    | none => exact hrefl
    | some hd =>
      simp only
      cases hc : remove s.cas s.heap hd addr with
      | error e => exact hrefl
      | ok c' =>
        obtain ⟨v, idx', hv, rfl⟩ := remove_ok hc
        exact setView_good hg hv rfl rfl rfl
  | setSofaString h t =>
    simp only [cstep]
    cases hh : s.handles[h]? with
    | none => exact hrefl
    | some hd =>
      simp only
      cases hc : setSofaString s.cas hd t with
      | error e => exact hrefl
      | ok c' => refine updSofa_good hg ?_ ?_ ?_ hc <;> intro _ <;> rfl
  | setSofaMime h t =>
    simp only [cstep]
    cases hh : s.handles[h]? with
    | none => exact hrefl
    | some hd =>
      simp only
      cases hc : setSofaMime s.cas hd t with
      | error e => exact hrefl
      | ok c' => refine updSofa_good hg ?_ ?_ ?_ hc <;> intro _ <;> rfl
  | setSofaUri h t =>
    simp only [cstep]
    cases hh : s.handles[h]? with
    | none => exact hrefl
    | some hd =>
      simp only
      cases hc : setSofaUri s.cas hd t with
      | error e => exact hrefl
      | ok c' => refine updSofa_good hg ?_ ?_ ?_ hc <;> intro _ <;> rfl
  | setSofaArray h t =>
    simp only [cstep]
    cases hh : s.handles[h]? with
    | none => exact hrefl
    | some hd =>
      simp only
      cases hc : setSofaArray s.cas hd t with
      | error e => exact hrefl
      | ok c' => refine updSofa_good hg ?_ ?_ ?_ hc <;> intro _ <;> rfl
  | docAnn h =>
    simp only [cstep]
    cases hh : s.handles[h]? with
    | none => exact hrefl
    | some hd =>
      simp only
      cases hc : getDocumentAnnotation ts 0 0 s.cas s.heap hd with
      | error e => exact hrefl
      | ok r =>
        obtain ⟨c', hp', a⟩ := r
        simp only
        rcases docAnn_cases hc with ⟨e, rest, _, rfl, rfl, _⟩ | ⟨_, t, o, _, hcon, hadd, _⟩
        · exact hrefl
        · obtain ⟨g1, e1⟩ : Good { s with heap := s.heap ++ [o] } ∧ Ext s { s with heap := s.heap ++ [o] } :=
            good_update hg rfl rfl rfl (hg.1.append_none (construct_ok hcon).2)
          obtain ⟨g2, e2⟩ := add_good (s := { s with heap := s.heap ++ [o] }) g1 hadd
          exact ⟨g2, e1.trans e2 rfl⟩
  | assignIds h =>
    simp only [cstep]
    cases hc : Traverse.findAllFs K ts {} s.heap s.cas.nextXid (Traverse.defaultSeeds s.cas) with
    | error e => exact hrefl
    | ok st =>
      simp only
      refine good_update hg rfl rfl rfl ?_
      exact Traverse.findAllFs_pres (IdsOk (sofaIds s.cas))
        (fun hp nx a ob hP _ _ => hP.set_fresh rfl) K ts {} s.heap s.cas.nextXid _ st hg.1 hc

end Cassis.Cas

namespace Cassis.Cas

/-! ### Histories -/

theorem empty_eq : Cas.empty =
    { views := [(INITIAL_VIEW, { sofa := { sofaID := INITIAL_VIEW, sofaNum := 1, xid := 1 } })],
      nextXid := 2, nextSofaNum := 2 } := rfl

theorem good_init (lenient : Bool) : Good (init lenient) := by
  unfold Good init
  simp only [empty_eq]
  refine ⟨⟨?_, ?_, ?_, ?_⟩, ⟨?_, ?_⟩, ?_, ?_⟩
  · simp [sofaIds]
  · intro x hx
    simp only [sofaIds, List.map_cons, List.map_nil, List.mem_singleton] at hx
    omega
  · intro i o x hi
    simp at hi
  · intro i j oi oj x _ hi
    simp at hi
  · simp [sofaNums]
  · intro x hx
    simp only [sofaNums, List.map_cons, List.map_nil, List.mem_singleton] at hx
    omega
  · simp
  · intro p hp
    simp only [List.mem_singleton] at hp
    subst hp; rfl

theorem handlesOk_init (lenient : Bool) : HandlesOk lenient (init lenient) := by
  intro hd hm
  simp only [init, List.mem_singleton] at hm
  subst hm
  refine ⟨rfl, ?_⟩
  simp only [init, empty_eq, getViewRec, alistGet?, if_true, Option.isSome_some]

theorem handlesOk_ext {lenient : Bool} {s s' : CState} (hh : HandlesOk lenient s) (he : Ext s s') :
    HandlesOk lenient s' := by
  intro hd hm
  rcases he.2 hd hm with h | ⟨⟨h0, hm0, hl⟩, hv⟩
  · obtain ⟨h1, h2⟩ := hh hd h
    exact ⟨h1, (isSome_iff_keys _ _).mpr (he.1 _ ((isSome_iff_keys _ _).mp h2))⟩
  · exact ⟨by rw [hl]; exact (hh h0 hm0).1, (isSome_iff_keys _ _).mpr hv⟩

theorem history_from (K : TS.Consts) (ts : TS.TypeSystem) (lenient : Bool) (ops : List COp) (s : CState)
    (hg : Good s) (hh : HandlesOk lenient s) :
    Good (ops.foldl (cstep K ts) s) ∧ HandlesOk lenient (ops.foldl (cstep K ts) s) := by
  induction ops generalizing s with
  | nil => exact ⟨hg, hh⟩
  | cons op ops ih =>
    obtain ⟨g1, e1⟩ := step_good K ts s op hg
    exact ih _ g1 (handlesOk_ext hh e1)

theorem handles_history_aux (K : TS.Consts) (ts : TS.TypeSystem) (lenient : Bool) (ops : List COp) :
    HandlesOk lenient (ops.foldl (cstep K ts) (init lenient)) ∧ ViewsOk (ops.foldl (cstep K ts) (init lenient)) := by
  obtain ⟨g, h⟩ := history_from K ts lenient ops _ (good_init lenient) (handlesOk_init lenient)
  exact ⟨h, g.2.2⟩

/-! ### C09 -/

theorem ids_history_aux (K : TS.Consts) (ts : TS.TypeSystem) (lenient : Bool) (ops : List COp) :
    Bounded (ops.foldl (cstep K ts) (init lenient)) ∧ UniqueIds (ops.foldl (cstep K ts) (init lenient)) := by
  obtain ⟨g, _⟩ := history_from K ts lenient ops _ (good_init lenient) (handlesOk_init lenient)
  have := (good_iff' _).mp g
  exact ⟨this.1, this.2.1⟩

theorem ids_step_aux (K : TS.Consts) (ts : TS.TypeSystem) (s : CState) (op : COp)
    (hb : Bounded s) (hu : UniqueIds s) (hv : ViewsOk s) :
    Bounded (cstep K ts s op) ∧ UniqueIds (cstep K ts s op) ∧ ViewsOk (cstep K ts s op) :=
  (good_iff' _).mp (step_good K ts s op ((good_iff' s).mpr ⟨hb, hu, hv⟩)).1

theorem generated_id_fresh_aux (ts : TS.TypeSystem) (cas : Nat) (s : CState) (h : Handle) (addr : Nat) (keep : Bool)
    (c' : Cas) (hp' : Heap) (o : Obj) (hb : Bounded s) (ho : s.heap[addr]? = some o)
    (hgen : keep = false ∨ o.xid = none)
    (hadd : add ts cas s.cas s.heap h addr keep = .ok (c', hp')) :
    ∃ o', hp'[addr]? = some o' ∧ o'.xid = some s.cas.nextXid ∧
      s.cas.nextXid ∉ sofaIds s.cas ∧ s.cas.nextXid ∉ fsIds s.heap ∧ c'.nextXid = s.cas.nextXid + 1 := by
  obtain ⟨o1, v, x, c1, e, ho1, _, hv, hx, he, rfl, rfl⟩ := add_cases hadd
  rw [ho] at ho1
  cases ho1
  have hlt : addr < s.heap.length := (List.getElem?_eq_some_iff.mp ho).1
  obtain ⟨b1, _, b3⟩ := hb
  rcases hx with ⟨hk, hxo, _⟩ | ⟨_, rfl, rfl⟩
  · rcases hgen with hgen | hgen
    · rw [hk] at hgen; cases hgen
    · rw [hxo] at hgen; cases hgen
  · refine ⟨_, List.getElem?_set_self hlt, rfl, ?_, ?_, rfl⟩
    · intro hm; have := b1 _ hm; omega
    · intro hm; have := b3 _ hm; omega

theorem kept_id_persists_aux (ts : TS.TypeSystem) (cas : Nat) (c c' : Cas) (hp hp' : Heap) (h : Handle) (addr : Nat)
    (o : Obj) (x : Int) (ho : hp[addr]? = some o) (hx : o.xid = some x)
    (hadd : add ts cas c hp h addr true = .ok (c', hp')) :
    ∃ o', hp'[addr]? = some o' ∧ o'.xid = some x ∧ c'.nextXid = c.nextXid := by
  obtain ⟨o1, v, x1, c1, e, ho1, _, hv, hx1, he, rfl, rfl⟩ := add_cases hadd
  rw [ho] at ho1
  cases ho1
  have hlt : addr < hp.length := (List.getElem?_eq_some_iff.mp ho).1
  rcases hx1 with ⟨_, hxo, rfl⟩ | ⟨hk, _, _⟩
  · rw [hx] at hxo
    cases hxo
    exact ⟨_, List.getElem?_set_self hlt, rfl, rfl⟩
  · rcases hk with hk | hk
    · cases hk
    · rw [hx] at hk; cases hk

theorem createView_fresh_aux (s : CState) (h : Handle) (name : String) (c' : Cas) (h' : Handle)
    (hb : Bounded s) (hc : createView s.cas h name = .ok (c', h')) :
    ∃ v, getViewRec c' name = some v ∧ v.sofa.xid = s.cas.nextXid ∧ v.sofa.sofaNum = s.cas.nextSofaNum ∧
      s.cas.nextXid ∉ sofaIds s.cas ++ fsIds s.heap ∧ s.cas.nextSofaNum ∉ sofaNums s.cas ∧ v.idx = [] := by
  obtain ⟨hnone, rfl, rfl⟩ := createView_ok hc
  obtain ⟨b1, b2, b3⟩ := hb
  refine ⟨newView s.cas name, ?_, rfl, rfl, ?_, ?_, rfl⟩
  · have := alistGet?_set_same s.cas.views name (newView s.cas name)
    rw [alistSet_of_none _ _ _ hnone] at this
    exact this
  · intro hm
    rcases List.mem_append.mp hm with hm | hm
    · have := b1 _ hm; omega
    · have := b3 _ hm; omega
  · intro hm; have := b2 _ hm; omega

end Cassis.Cas

namespace Cassis.Cas

/-! ### Kernel evaluation of concrete histories

`TS.hasDot` is `String.contains`, which the kernel does not unfold, so the type check of a non-lenient
`add` blocks `decide`.  When the type of the added structure is known to be registered the check passes,
and the call equals the one through a lenient copy of the handle, which evaluates. -/

theorem hasDot_eq (n : String) : TS.hasDot n = decide ('.' ∈ n.toList) := String.contains_char_eq

theorem containsType_of_hasExact {ts : TS.TypeSystem} {n : String} (hd : TS.hasDot n = true)
    (he : TS.hasExact ts n = true) : TS.containsType ts n = true := by
  unfold TS.containsType
  simp only [hd, he, Bool.true_or, if_true]

theorem add_lenient_eq {ts : TS.TypeSystem} {cas : Nat} {c : Cas} {hp : Heap} {h : Handle} {addr : Nat}
    {keep : Bool} (hc : ∀ o : Obj, hp[addr]? = some o → TS.containsType ts o.ty = true) :
    add ts cas c hp h addr keep = add ts cas c hp { h with lenient := true } addr keep := by
  unfold add
  cases ho : hp[addr]? with
  | none => rfl
  | some o =>
    have := hc o ho
    simp only [bind, Except.bind, pure, Except.pure, this, Bool.not_true, Bool.and_false, cur]

theorem getType_name_of_hasDot {ts : TS.TypeSystem} {n : String} {t : TS.TypeRec} (hd : TS.hasDot n = true)
    (h : TS.getType ts n = .ok t) : t.name = n := by
  unfold TS.getType at h
  split at h
  · rename_i t' hf; cases h; exact TS.find?_name hf
  · simp only [hd, if_true] at h; cases h

theorem docAnn_lenient_eq {ts : TS.TypeSystem} {ti cas : Nat} {c : Cas} {hp : Heap} {h : Handle}
    (hd : TS.hasDot TS.DOCUMENT_ANNOTATION = true)
    (hc : TS.containsType ts TS.DOCUMENT_ANNOTATION = true) :
    getDocumentAnnotation ts ti cas c hp h = getDocumentAnnotation ts ti cas c hp { h with lenient := true } := by
  unfold getDocumentAnnotation
  have hs : select ts c { h with lenient := true } TS.DOCUMENT_ANNOTATION =
      select ts c h TS.DOCUMENT_ANNOTATION := rfl
  rw [hs]
  simp only [bind, Except.bind, pure, Except.pure]
  cases select ts c h TS.DOCUMENT_ANNOTATION with
  | error e => rfl
  | ok sel =>
    cases sel with
    | cons e rest => rfl
    | nil =>
      simp only
      cases ht : TS.getType ts TS.DOCUMENT_ANNOTATION with
      | error e => rfl
      | ok t =>
        simp only
        cases hcon : construct t ti none [] with
        | error e => rfl
        | ok o =>
          simp only
          rw [add_lenient_eq]
          intro o' ho'
          rw [List.getElem?_concat_length] at ho'
          cases ho'
          rw [(construct_ok hcon).1, getType_name_of_hasDot hd ht]
          exact hc

/-- `cstep` with the leniency of the handle overridden in `add` -/
theorem cstep_add_strict (K : TS.Consts) (ts : TS.TypeSystem) (s : CState) (h addr : Nat) (keep : Bool)
    (L : List String) (hL : ∀ n ∈ L, TS.containsType ts n = true)
    (ho : (s.heap[addr]?).all (fun o => L.contains o.ty) = true) :
    cstep K ts s (.add h addr keep) =
      match s.handles[h]? with
      | none => s
      | some hd => match add ts 0 s.cas s.heap { hd with lenient := true } addr keep with
        | .ok (c', hp') => { s with cas := c', heap := hp' }
        | .error _ => s := by
  simp only [cstep]
  cases s.handles[h]? with
  | none => rfl
  | some hd =>
    simp only
    have hc : ∀ o : Obj, s.heap[addr]? = some o → TS.containsType ts o.ty = true := by
      intro o ho'
      rw [ho'] at ho
      simp only [Option.all_some, List.contains_iff_mem] at ho
      exact hL _ ho
    rw [add_lenient_eq hc]
    try rfl

theorem cstep_docAnn_strict (K : TS.Consts) (ts : TS.TypeSystem) (s : CState) (h : Nat)
    (hd : TS.hasDot TS.DOCUMENT_ANNOTATION = true)
    (hc : TS.containsType ts TS.DOCUMENT_ANNOTATION = true) :
    cstep K ts s (.docAnn h) =
      match s.handles[h]? with
      | none => s
      | some hd => match getDocumentAnnotation ts 0 0 s.cas s.heap { hd with lenient := true } with
        | .ok (c', hp', _) => { s with cas := c', heap := hp' }
        | .error _ => s := by
  simp only [cstep]
  cases s.handles[h]? with
  | none => rfl
  | some hd' =>
    simp only
    rw [docAnn_lenient_eq hd hc]
    try rfl

theorem hasDot_annotation : TS.hasDot TS.ANNOTATION = true := by rw [hasDot_eq]; decide
theorem hasDot_docAnn : TS.hasDot TS.DOCUMENT_ANNOTATION = true := by rw [hasDot_eq]; decide

end Cassis.Cas
