/-
C20 across the JSON round trip, whole format: `cas_to_comparable_text` of the loaded CAS is that of the written one
(`render_json_roundtrip_coll_aux`).  Assembly of
* the reader part of the JSON round trip with the heap relation kept (`json_core_coll_weak`, `Proofs/ChainCollJsonCore.lean`);
* the two default traversals (`DCtx.traversal`, `Proofs/ComparableIsoJsonCollTrav.lean`);
* `isoR_of_dctx` (`Proofs/ComparableIsoJsonCollIso.lean`) and `renderFrom_isoR` (`Proofs/ComparableIsoR.lean`).
-/
import CassisModel.Proofs.ComparableIsoJsonCollIso
import CassisModel.Proofs.ComparableIsoJson
import CassisModel.Proofs.ChainCollJsonCore

namespace Cassis.Comparable
open Cassis.TS Cassis.Traverse Cassis.Xmi Cassis.Json Cassis.ChainC

/-- the JSON round trip on the whole format: the loaded CAS and its relation to the written one -/
theorem json_roundtrip_coll_jw (K : Consts) (ts : TypeSystem) (cass : List Cas) (ci : Nat) (c : Cas) (hp : Heap)
    (tsIdx : Nat) (doc : JDoc) (st : St)
    (hc : cass[ci]? = some c) (hwf : RTWf c hp)
    (hsave : saveJson K ts cass ci hp .none = .ok (doc, st))
    (hcoll : ∀ q ∈ st.allFs, JCollFs K ts c ci st.heap q.2)
    (hids : ∀ nv ∈ c.views, ∀ e ∈ Index.all nv.2.idx, (xidOf hp e.oid).isSome = true)
    (hdis : ∀ q ∈ st.allFs, ∀ nv ∈ c.views, q.1 ≠ nv.2.sofa.xid)
    (hmem : ∀ nv ∈ c.views, ∀ e ∈ Index.all nv.2.idx, Xmi.slot st.heap e.oid "sofa" ≠ some .none)
    (hmok : MembersOk c st.heap) :
    ∃ (ld : Json.Loaded),
      loadJson K ts tsIdx cass.length false false st.heap doc = .ok ld ∧ 0 < ld.cas.nextXid ∧
      JW K ts c ci st.heap (sortById st.allFs) cass.length ld.heap ∧ SameShape hp st.heap ∧
      ViewsRelJ st.heap (naOf st.heap (sortById st.allFs)) c.views ld.cas.views := by
  have harr0 : ∀ nv ∈ c.views, nv.2.sofa.arr = .none := fun nv hnv => (hwf.text_sofa nv hnv).1
  obtain ⟨hfa, fsElems, hr, hdfss, hdviews, _⟩ := saveJson_parts hc harr0 hsave
  have hLJ : LOkJ K ts c ci st.heap (sortById st.allFs) := trav_collJ K ts ci c hp st hwf hfa hcoll
  have hdisL : ∀ q ∈ sortById st.allFs, ∀ nv ∈ c.views, q.1 ≠ nv.2.sofa.xid :=
    fun q hq => hdis q (mem_sortById.mp hq)
  have g : GCtxJ K ts cass c ci hp st.heap (sortById st.allFs) := ⟨hc, hwf, hLJ, hdisL⟩
  have hfs : fsElems = (sortById st.allFs).map (elemOfJ K ts cass st.heap) :=
    renderAll_eq_mapJ K ts cass st.heap _ _ fsElems hr
      (fun q hq e he => writer_collJ K ts cass c ci hp st.heap _ g q hq e he)
  subst hfs
  have hviewsJ : doc.views = c.views.map (jviewH st.heap) := by
    rw [hdviews]
    apply List.map_congr_left
    intro nv hnv
    unfold jviewOf jviewH pviewOf
    congr 2
    apply filterMap_congr'
    intro e he
    obtain ⟨y, hy⟩ := Option.isSome_iff_exists.mp (hids nv hnv e he)
    show xidOf hp e.oid = xidOf st.heap e.oid
    rw [hy, jst_ids_kept hwf hfa e.oid y hy]
  obtain ⟨ld, hload, hrel, _, hvrelJ, m, hnx, hm0, _, _⟩ :=
    json_core_coll_weak K ts cass ci c hp st.heap (sortById st.allFs) tsIdx cass.length doc hc hwf hLJ hdisL hmem hmok
      hdfss hviewsJ
  have sh : SameShape hp st.heap := (findAllFs_inv K ts _ hp c.nextXid _ st hfa).1.shape
  exact ⟨ld, hload, by omega, ⟨hLJ, hrel⟩, sh, hvrelJ⟩

/-- … with the default traversal of the original: the situation `DCtx` -/
theorem json_roundtrip_coll_dctx (K : Consts) (ts : TypeSystem) (cass : List Cas) (ci : Nat) (c : Cas) (hp : Heap)
    (tsIdx : Nat) (doc : JDoc) (st std : St)
    (hc : cass[ci]? = some c) (hwf : RTWf c hp)
    (hsave : saveJson K ts cass ci hp .none = .ok (doc, st))
    (hcoll : ∀ q ∈ st.allFs, JCollFs K ts c ci st.heap q.2)
    (hids : ∀ nv ∈ c.views, ∀ e ∈ Index.all nv.2.idx, (xidOf hp e.oid).isSome = true)
    (hdis : ∀ q ∈ st.allFs, ∀ nv ∈ c.views, q.1 ≠ nv.2.sofa.xid)
    (hmem : ∀ nv ∈ c.views, ∀ e ∈ Index.all nv.2.idx, Xmi.slot st.heap e.oid "sofa" ≠ some .none)
    (hmok : MembersOk c st.heap)
    (hD : findAllFs K ts {} hp c.nextXid (defaultSeeds c) = .ok std) :
    ∃ (ld : Json.Loaded),
      loadJson K ts tsIdx cass.length false false st.heap doc = .ok ld ∧ 0 < ld.cas.nextXid ∧
      DCtx K ts c ci hp st.heap (sortById st.allFs) cass.length ld.heap ld.cas std := by
  obtain ⟨ld, hload, hnx, jw, sh, hv⟩ :=
    json_roundtrip_coll_jw K ts cass ci c hp tsIdx doc st hc hwf hsave hcoll hids hdis hmem hmok
  exact ⟨ld, hload, hnx, ⟨jw, hwf, sh, hv, hD⟩⟩

/-- the JSON round trip on the whole format produces a CAS whose default traversal collects structures isomorphic (in
    the sense `IsoR`) to what the default traversal of the original collects -/
theorem json_roundtrip_coll_isoR (K : Consts) (ts : TypeSystem) (cass : List Cas) (ci : Nat) (c : Cas) (hp : Heap)
    (tsIdx : Nat) (doc : JDoc) (st std : St)
    (hc : cass[ci]? = some c) (hwf : RTWf c hp)
    (hsave : saveJson K ts cass ci hp .none = .ok (doc, st))
    (hcoll : ∀ q ∈ st.allFs, JCollFs K ts c ci st.heap q.2)
    (hids : ∀ nv ∈ c.views, ∀ e ∈ Index.all nv.2.idx, (xidOf hp e.oid).isSome = true)
    (hdis : ∀ q ∈ st.allFs, ∀ nv ∈ c.views, q.1 ≠ nv.2.sofa.xid)
    (hmem : ∀ nv ∈ c.views, ∀ e ∈ Index.all nv.2.idx, Xmi.slot st.heap e.oid "sofa" ≠ some .none)
    (hmok : MembersOk c st.heap)
    (hD : findAllFs K ts {} hp c.nextXid (defaultSeeds c) = .ok std) :
    ∃ (ld : Json.Loaded) (φ : Nat → Nat) (st' : St),
      loadJson K ts tsIdx cass.length false false st.heap doc = .ok ld ∧
      findAllFs K ts {} ld.heap ld.cas.nextXid (defaultSeeds ld.cas) = .ok st' ∧ st'.heap = ld.heap ∧
      (∀ a ∈ std.allFs.map (·.2), ∃ q ∈ st.allFs, q.2 = a) ∧
      IsoR K cass (cass ++ [ld.cas]) std.heap ld.heap (defaultSeeds c) (defaultSeeds ld.cas)
        (std.allFs.map (·.2)) (st'.allFs.map (·.2)) φ := by
  obtain ⟨ld, hload, hnx, X⟩ :=
    json_roundtrip_coll_dctx K ts cass ci c hp tsIdx doc st std hc hwf hsave hcoll hids hdis hmem hmok hD
  have hc' : (cass ++ [ld.cas])[cass.length]? = some ld.cas := List.getElem?_concat_length
  obtain ⟨st', hfa', hheap, hperm⟩ := X.traversal hnx
  have hnd : (st'.allFs.map (·.2)).Nodup := (findAllFs_inv K ts {} ld.heap ld.cas.nextXid _ st' hfa').1.nodupA
  refine ⟨ld, _, st', hload, hfa', hheap, ?_, isoR_of_dctx X hc hc' (viewsSame_of_relJ X.views) _ hnd hperm⟩
  intro a ha
  obtain ⟨q, hq, h2, _⟩ := inL_pair (X.sub ha)
  exact ⟨q, mem_sortById.mp hq, h2⟩

/-- **C20 across the JSON round trip (whole format)** -/
theorem render_json_roundtrip_coll_aux (K : Consts) (ts : TypeSystem) (cass : List Cas) (ci : Nat) (c : Cas) (hp : Heap)
    (tsIdx : Nat) (doc : JDoc) (st std : St) (o : Opts) (hsh hsh' : Nat → Int)
    (hc : cass[ci]? = some c) (hwf : RTWf c hp)
    (hsave : saveJson K ts cass ci hp .none = .ok (doc, st))
    (hcoll : ∀ q ∈ st.allFs, JCollFs K ts c ci st.heap q.2)
    (hids : ∀ nv ∈ c.views, ∀ e ∈ Index.all nv.2.idx, (xidOf hp e.oid).isSome = true)
    (hdis : ∀ q ∈ st.allFs, ∀ nv ∈ c.views, q.1 ≠ nv.2.sofa.xid)
    (hmem : ∀ nv ∈ c.views, ∀ e ∈ Index.all nv.2.idx, Xmi.slot st.heap e.oid "sofa" ≠ some .none)
    (hmok : MembersOk c st.heap)
    (hD : findAllFs K ts {} hp c.nextXid (defaultSeeds c) = .ok std)
    (hd : Distinct std.heap (std.allFs.map (·.2))) :
    ∃ ld : Json.Loaded,
      loadJson K ts tsIdx cass.length false false st.heap doc = .ok ld ∧
      (render K ts (cass ++ [ld.cas]) cass.length ld.heap o hsh' none).map (·.1)
        = (render K ts cass ci hp o hsh none).map (·.1) := by
  obtain ⟨ld, φ, st', hload, hfa', hheap, _, hiso⟩ :=
    json_roundtrip_coll_isoR K ts cass ci c hp tsIdx doc st std hc hwf hsave hcoll hids hdis hmem hmok hD
  have hc' : (cass ++ [ld.cas])[cass.length]? = some ld.cas := List.getElem?_concat_length
  refine ⟨ld, hload, ?_⟩
  rw [render_eq o hsh hc hD, render_eq o hsh' hc' hfa', hheap]
  exact renderFrom_isoR K ts cass (cass ++ [ld.cas]) std.heap ld.heap o hsh hsh' _ _ _ _ _ hiso hd

end Cassis.Comparable
