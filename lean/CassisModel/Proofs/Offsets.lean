/-
Helper lemmas for `Properties/C03.lean` (offset conversion between code points and UTF-16 code units).
Core Lean only.
-/
import CassisModel.Model.Offsets

namespace Cassis.Offsets

/-- `IsScalar` is a decidable arithmetic condition (needed by the closed `decide` instances) -/
instance (cp : Nat) : Decidable (IsScalar cp) :=
  inferInstanceAs (Decidable (cp < 0xD800 ∨ (0xE000 ≤ cp ∧ cp < 0x110000)))

/-! ### widths -/

theorem width_pos (c : Nat) : 1 ≤ width c := by
  unfold width; split <;> omega

theorem width_pos_of_mem {cps : List Nat} : ∀ w ∈ cps.map width, 1 ≤ w := by
  intro w hw
  rw [List.mem_map] at hw
  obtain ⟨c, _, rfl⟩ := hw
  exact width_pos c

/-! ### the accumulated table -/

theorem accum_length (ws : List Nat) (a : Nat) : (accum ws a).length = ws.length + 1 := by
  induction ws generalizing a with
  | nil => simp [accum]
  | cons w ws ih => simp [accum, ih]

theorem accum_get (ws : List Nat) (a i : Nat) (h : i ≤ ws.length) :
    (accum ws a)[i]? = some (a + (ws.take i).sum) := by
  induction ws generalizing a i with
  | nil => simp at h; subst h; simp [accum]
  | cons w ws ih =>
    cases i with
    | zero => simp [accum]
    | succ i =>
      simp at h
      simp [accum, ih _ _ h]; omega

theorem table_get (cps : List Nat) (i : Nat) (h : i ≤ cps.length) :
    (table cps)[i]? = some (((cps.map width).take i).sum) := by
  have := accum_get (cps.map width) 0 i (by simpa using h)
  simpa [table] using this

theorem table_length (cps : List Nat) : (table cps).length = cps.length + 1 := by
  simp [table, accum_length]

theorem p2e_eq_sum (cps : List Nat) (i : Nat) (h : i ≤ cps.length) :
    p2e cps i = ((cps.map width).take i).sum := by
  simp [p2e, p2eTab, table_get cps i h]

theorem take_sum_lt (ws : List Nat) (hpos : ∀ w ∈ ws, 1 ≤ w) (i j : Nat) (hij : i < j)
    (hj : j ≤ ws.length) : (ws.take i).sum < (ws.take j).sum := by
  induction ws generalizing i j with
  | nil => simp at hj; omega
  | cons w ws ih =>
    cases j with
    | zero => omega
    | succ j =>
      have hw : 1 ≤ w := hpos w (by simp)
      have hpos' : ∀ w ∈ ws, 1 ≤ w := fun x hx => hpos x (by simp [hx])
      simp at hj
      cases i with
      | zero => simp; omega
      | succ i =>
        have := ih hpos' i j (by omega) hj
        simp; omega

theorem take_sum_bmp (cps : List Nat) (hb : ∀ c ∈ cps, c < 0x10000) (i : Nat)
    (h : i ≤ cps.length) : ((cps.map width).take i).sum = i := by
  induction cps generalizing i with
  | nil => simp at h; subst h; simp
  | cons c cs ih =>
    cases i with
    | zero => simp
    | succ i =>
      have hc : c < 0x10000 := hb c (by simp)
      have hb' : ∀ c ∈ cs, c < 0x10000 := fun x hx => hb x (by simp [hx])
      have hi : i ≤ cs.length := by simpa using h
      have hw : width c = 1 := by simp [width, hc]
      have := ih hb' i hi
      simp only [List.map_cons, List.take_succ_cons, List.sum_cons, hw, this]
      omega

/-! ### the table has no duplicates -/

theorem accum_ge (ws : List Nat) (a x : Nat) (hx : x ∈ accum ws a) : a ≤ x := by
  induction ws generalizing a with
  | nil => simp [accum] at hx; omega
  | cons w ws ih =>
    simp only [accum, List.mem_cons] at hx
    cases hx with
    | inl h => omega
    | inr h => have := ih _ h; omega

theorem accum_nodup (ws : List Nat) (hpos : ∀ w ∈ ws, 1 ≤ w) (a : Nat) : (accum ws a).Nodup := by
  induction ws generalizing a with
  | nil => simp [accum]
  | cons w ws ih =>
    have hw : 1 ≤ w := hpos w (by simp)
    have hpos' : ∀ w ∈ ws, 1 ≤ w := fun x hx => hpos x (by simp [hx])
    simp only [accum, List.nodup_cons]
    refine ⟨?_, ih hpos' _⟩
    intro hmem
    have := accum_ge ws (a + w) a hmem
    omega

theorem table_nodup (cps : List Nat) : (table cps).Nodup :=
  accum_nodup (cps.map width) width_pos_of_mem 0

/-! ### dictionary lookup -/

theorem lookupLastAux_not_mem (keys : List Nat) (k s : Nat) (best : Option Nat) (h : k ∉ keys) :
    lookupLastAux keys k s best = best := by
  induction keys generalizing s best with
  | nil => rfl
  | cons x xs ih =>
    have hx : ¬ x = k := fun e => h (by simp [e])
    have hxs : k ∉ xs := fun e => h (by simp [e])
    simp only [lookupLastAux, if_neg hx]
    exact ih _ _ hxs

theorem lookupLastAux_get (keys : List Nat) (hnd : keys.Nodup) (k s idx : Nat) (best : Option Nat)
    (h : keys[idx]? = some k) : lookupLastAux keys k s best = some (s + idx) := by
  induction keys generalizing s best idx with
  | nil => simp at h
  | cons x xs ih =>
    rw [List.nodup_cons] at hnd
    cases idx with
    | zero =>
      have hx : x = k := by simpa using h
      subst hx
      simp only [lookupLastAux, if_true]
      rw [lookupLastAux_not_mem xs x (s + 1) (some s) hnd.1]
      rfl
    | succ idx =>
      have h' : xs[idx]? = some k := by simpa using h
      simp only [lookupLastAux]
      rw [ih hnd.2 (s + 1) idx _ h']
      congr 1; omega

theorem lookupLast_get (keys : List Nat) (hnd : keys.Nodup) (k idx : Nat)
    (h : keys[idx]? = some k) : lookupLast keys k = some idx := by
  unfold lookupLast
  rw [lookupLastAux_get keys hnd k 0 idx none h]
  congr 1; omega

theorem lookupLast_not_mem (keys : List Nat) (k : Nat) (h : k ∉ keys) : lookupLast keys k = none :=
  lookupLastAux_not_mem keys k 0 none h

/-! ### inverse laws -/

theorem e2p_of_get (cps : List Nat) (i j : Nat) (h : (table cps)[i]? = some j) : e2p cps j = i := by
  simp [e2p, e2pTab, lookupLast_get (table cps) (table_nodup cps) j i h]

theorem p2e_of_get (cps : List Nat) (i j : Nat) (h : (table cps)[i]? = some j) : p2e cps i = j := by
  simp [p2e, p2eTab, h]

theorem e2p_p2e_aux (cps : List Nat) (i : Nat) (h : i ≤ cps.length) : e2p cps (p2e cps i) = i := by
  have hg := table_get cps i h
  rw [p2e_of_get cps i _ hg]
  exact e2p_of_get cps i _ hg

theorem p2e_e2p_aux (cps : List Nat) (j : Nat) (h : j ∈ boundaries cps) :
    p2e cps (e2p cps j) = j := by
  obtain ⟨i, hi⟩ := List.getElem?_of_mem h
  have hi' : (table cps)[i]? = some j := hi
  rw [e2p_of_get cps i j hi']
  exact p2e_of_get cps i j hi'

theorem e2p_passthrough_aux (cps : List Nat) (j : Nat) (h : j ∉ boundaries cps) : e2p cps j = j := by
  have h' : j ∉ table cps := h
  simp [e2p, e2pTab, lookupLast_not_mem (table cps) j h']

/-! ### the UTF-16 encoder -/

theorem encodeCp_length (c : Nat) : (encodeCp c).length = width c := by
  unfold encodeCp width
  split <;> simp

theorem utf16Encode_nil : utf16Encode [] = [] := rfl

theorem utf16Encode_cons (c : Nat) (l : List Nat) :
    utf16Encode (c :: l) = encodeCp c ++ utf16Encode l := by
  simp [utf16Encode]

theorem utf16Encode_append (xs ys : List Nat) :
    utf16Encode (xs ++ ys) = utf16Encode xs ++ utf16Encode ys := by
  simp [utf16Encode]

theorem utf16Encode_length (l : List Nat) : (utf16Encode l).length = (l.map width).sum := by
  induction l with
  | nil => rfl
  | cons c l ih =>
    rw [utf16Encode_cons, List.length_append, encodeCp_length, ih]
    simp

theorem p2e_eq_len (cps : List Nat) (i : Nat) (h : i ≤ cps.length) :
    p2e cps i = (utf16Encode (cps.take i)).length := by
  rw [p2e_eq_sum cps i h, utf16Encode_length, List.map_take]

theorem mem_boundaries_aux (cps : List Nat) (j : Nat) :
    j ∈ boundaries cps ↔ ∃ i, i ≤ cps.length ∧ j = (utf16Encode (cps.take i)).length := by
  constructor
  · intro h
    obtain ⟨i, hi⟩ := List.getElem?_of_mem h
    have hi' : (table cps)[i]? = some j := hi
    have hlt : i < (table cps).length := by
      apply Nat.lt_of_not_le
      intro hn
      have : (table cps)[i]? = none := List.getElem?_eq_none hn
      rw [this] at hi'
      cases hi'
    rw [table_length] at hlt
    have hle : i ≤ cps.length := by omega
    refine ⟨i, hle, ?_⟩
    rw [← p2e_eq_len cps i hle]
    exact (p2e_of_get cps i j hi').symm
  · rintro ⟨i, hle, rfl⟩
    have hg := table_get cps i hle
    rw [utf16Encode_length, List.map_take]
    exact List.mem_of_getElem? hg

/-! ### decoding -/

theorem utf16Decode_encodeCp_append (c : Nat) (hc : IsScalar c) (rest : List Nat) :
    utf16Decode (encodeCp c ++ rest) = c :: utf16Decode rest := by
  unfold IsScalar at hc
  unfold encodeCp
  by_cases hlt : c < 0x10000
  · rw [if_pos hlt]
    cases rest with
    | nil => simp [utf16Decode]
    | cons v r =>
      have hcond : ¬ (0xD800 ≤ c ∧ c < 0xDC00 ∧ 0xDC00 ≤ v ∧ v < 0xE000) := by omega
      simp only [List.cons_append, List.nil_append, utf16Decode, if_neg hcond]
  · rw [if_neg hlt]
    have hcond : 0xD800 ≤ 0xD800 + (c - 0x10000) / 0x400 ∧ 0xD800 + (c - 0x10000) / 0x400 < 0xDC00 ∧
        0xDC00 ≤ 0xDC00 + (c - 0x10000) % 0x400 ∧ 0xDC00 + (c - 0x10000) % 0x400 < 0xE000 := by
      omega
    have harith : 0x10000 + (0xD800 + (c - 0x10000) / 0x400 - 0xD800) * 0x400 +
        (0xDC00 + (c - 0x10000) % 0x400 - 0xDC00) = c := by omega
    simp only [List.cons_append, List.nil_append, utf16Decode, if_pos hcond, harith]

theorem utf16Decode_encode (l : List Nat) (hs : ∀ c ∈ l, IsScalar c) :
    utf16Decode (utf16Encode l) = l := by
  induction l with
  | nil => simp [utf16Encode_nil, utf16Decode]
  | cons c l ih =>
    have hc : IsScalar c := hs c (by simp)
    have hs' : ∀ c ∈ l, IsScalar c := fun x hx => hs x (by simp [hx])
    rw [utf16Encode_cons, utf16Decode_encodeCp_append c hc, ih hs']

/-! ### slices -/

theorem slice_append3 {α} (A B C : List α) : slice (A ++ B ++ C) A.length (A ++ B).length = B := by
  unfold slice
  rw [List.take_left' rfl, List.drop_left' rfl]

theorem split3 {α} (l : List α) (b e : Nat) (hbe : b ≤ e) :
    l = l.take b ++ slice l b e ++ l.drop e := by
  unfold slice
  have h1 : (l.take e).take b = l.take b := by
    rw [List.take_take, Nat.min_eq_left hbe]
  have h2 : l.take b ++ (l.take e).drop b = l.take e := by
    rw [← h1, List.take_append_drop]
  rw [h2, List.take_append_drop]

theorem take_eq_take_append_slice {α} (l : List α) (b e : Nat) (hbe : b ≤ e) :
    l.take e = l.take b ++ slice l b e := by
  unfold slice
  have h1 : (l.take e).take b = l.take b := by
    rw [List.take_take, Nat.min_eq_left hbe]
  rw [← h1, List.take_append_drop]

theorem mem_slice {α} {l : List α} {b e : Nat} {x : α} (h : x ∈ slice l b e) : x ∈ l :=
  List.mem_of_mem_take (List.mem_of_mem_drop h)

theorem covered_text_roundtrip_aux (cps : List Nat) (hs : ∀ c ∈ cps, IsScalar c) (b e : Nat)
    (hbe : b ≤ e) (he : e ≤ cps.length) :
    utf16Decode (slice (utf16Encode cps) (p2e cps b) (p2e cps e)) = slice cps b e := by
  have hb : b ≤ cps.length := by omega
  have henc : slice (utf16Encode cps) (p2e cps b) (p2e cps e) = utf16Encode (slice cps b e) := by
    rw [p2e_eq_len cps b hb, p2e_eq_len cps e he]
    have hsplit : utf16Encode cps =
        utf16Encode (cps.take b) ++ utf16Encode (slice cps b e) ++ utf16Encode (cps.drop e) := by
      rw [← utf16Encode_append, ← utf16Encode_append, ← split3 cps b e hbe]
    have hlen : (utf16Encode (cps.take e)).length =
        (utf16Encode (cps.take b) ++ utf16Encode (slice cps b e)).length := by
      rw [← utf16Encode_append, ← take_eq_take_append_slice cps b e hbe]
    rw [hlen, hsplit]
    exact slice_append3 _ _ _
  rw [henc]
  exact utf16Decode_encode _ (fun c hc => hs c (mem_slice hc))

/-! ### the sofa-string setter -/

theorem set_invariant (s : SofaText) (v : Option (List Nat)) :
    ∀ t, (s.set v).text = some t → (s.set v).conv = some (table t) := by
  intro t ht
  simp only [SofaText.set] at ht ⊢
  subst ht
  rfl

theorem foldl_set_invariant (vs : List (Option (List Nat))) (s : SofaText)
    (hinv : ∀ t, s.text = some t → s.conv = some (table t)) :
    ∀ t, (vs.foldl SofaText.set s).text = some t →
      (vs.foldl SofaText.set s).conv = some (table t) := by
  induction vs generalizing s with
  | nil => simpa using hinv
  | cons v vs ih =>
    simp only [List.foldl_cons]
    exact ih (s.set v) (set_invariant s v)

theorem setText_remaps_aux (vs : List (Option (List Nat))) (t : List Nat)
    (h : (vs.foldl SofaText.set SofaText.init).text = some t) :
    (vs.foldl SofaText.set SofaText.init).conv = some (table t) :=
  foldl_set_invariant vs SofaText.init (by intro t ht; simp [SofaText.init] at ht) t h

end Cassis.Offsets
