/-
JSON round trip, layer 1: the sofa pass of the reader over the written document.
-/
import CassisModel.Proofs.RoundTripJsonDefs

namespace Cassis.Json
open Cassis.TS Cassis.Traverse Cassis.Lex Cassis.Xmi

/-! ### view records: setting the same key repeatedly -/

theorem aset_aset {β} (l : List (String × β)) (k : String) (v v' : β) :
    alistSet (alistSet l k v) k v' = alistSet l k v' := by
  induction l with
  | nil => simp [alistSet]
  | cons p rest ih =>
    obtain ⟨k', w⟩ := p
    by_cases hk : k' = k
    · simp [alistSet, hk]
    · simp [alistSet, hk, ih]

theorem setViewRec_setViewRec (c : Cas) (n : String) (v v' : View) :
    Cas.setViewRec (Cas.setViewRec c n v) n v' = Cas.setViewRec c n v' := by
  unfold Cas.setViewRec
  simp only [aset_aset]

theorem updSofa_set (c : Cas) (n : String) (l : Bool) (v : View) (f : Sofa → Sofa) :
    Cas.updSofa (Cas.setViewRec c n v) { view := n, lenient := l } f
      = .ok (Cas.setViewRec c n { v with sofa := f v.sofa }) := by
  unfold Cas.updSofa Cas.cur
  simp only [Cas.getViewRec_set_same, bind, Except.bind, pure, Except.pure, setViewRec_setViewRec]

theorem cur_set (c : Cas) (n : String) (l : Bool) (v : View) :
    Cas.cur (Cas.setViewRec c n v) { view := n, lenient := l } = .ok v := by
  unfold Cas.cur
  simp only [Cas.getViewRec_set_same]

/-- the four setters of `parseSofa` and the final read on a CAS whose view `n` was just written -/
theorem sofa_setters (c : Cas) (n : String) (l : Bool) (v : View) (text : Option (List Nat))
    (m u : Option String) (a : Val) {α} (k : Cas → View → Except Err α) :
    (do
      let c1 ← Cas.setSofaString (Cas.setViewRec c n v) { view := n, lenient := l } text
      let c2 ← Cas.setSofaMime c1 { view := n, lenient := l } m
      let c3 ← Cas.setSofaUri c2 { view := n, lenient := l } u
      let c4 ← Cas.setSofaArray c3 { view := n, lenient := l } a
      let w ← Cas.cur c4 { view := n, lenient := l }
      k c4 w) =
    (let w : View := { v with sofa :=
        { v.sofa with text := text, conv := Offsets.createMapping v.sofa.conv text, mime := m, uri := u, arr := a } }
     k (Cas.setViewRec c n w) w) := by
  unfold Cas.setSofaString Cas.setSofaMime Cas.setSofaUri Cas.setSofaArray
  simp only [updSofa_set, cur_set, bind, Except.bind]

theorem empty_eq : Cas.empty = Cas.setViewRec { views := [], nextXid := 2, nextSofaNum := 2 } Cas.INITIAL_VIEW
    { sofa := { sofaID := Cas.INITIAL_VIEW, sofaNum := 1, xid := 1 } } := rfl

theorem map_toNat_ofNat (t : List Nat) (hs : ∀ cp ∈ t, Offsets.IsScalar cp) :
    List.map (Char.toNat ∘ Char.ofNat) t = t := by
  induction t with
  | nil => rfl
  | cons c t ih =>
    rw [List.map_cons, ih (fun x hx => hs x (List.mem_cons_of_mem _ hx))]
    show (Char.ofNat c).toNat :: t = _
    rw [toNat_ofNat_scalar c (hs c List.mem_cons_self)]

/-- `parseSofa` on a written text sofa whose view does not exist yet -/
theorem parseSofa_later (hp : Heap) (ci : Nat) (s : Sofa) (st : RState)
    (harr : s.arr = .none) (huri : s.uri = none) (hconv : s.conv = Offsets.createMapping none s.text)
    (hsc : ∀ t, s.text = some t → ∀ cp ∈ t, Offsets.IsScalar cp)
    (hni : s.sofaID ≠ Cas.INITIAL_VIEW) (hnew : Cas.getViewRec st.cas s.sofaID = none) :
    parseSofa ci st (renderSofa hp s) =
      .ok { st with cas := Cas.setViewRec st.cas s.sofaID { sofa := s, idx := [] },
                    fss := setFs st.fss s.xid (.sofa ci s.sofaID),
                    maxId := max st.maxId s.xid, maxNum := max st.maxNum s.sofaNum } := by
  obtain ⟨sid, num, xid, text, mime, uri, arr, conv⟩ := s
  simp only at harr huri hconv hni hnew hsc
  subst harr huri hconv
  have h1 : (sid == Cas.INITIAL_VIEW) = false := by simpa using hni
  have hm : ∀ t, text = some t → List.map (Char.toNat ∘ Char.ofNat) t = t :=
    fun t ht => map_toNat_ofNat t (hsc t ht)
  cases mime <;> cases text <;>
    simp [parseSofa, renderSofa, List.find?, h1, hnew, Cas.createView, Cas.addView, Offsets.createMapping,
      Cas.setSofaString, Cas.setSofaMime, Cas.setSofaUri, Cas.setSofaArray, updSofa_set, cur_set,
      bind, Except.bind, pure, Except.pure, hm]

/-- `parseSofa` on the written sofa of the initial view, in the fresh CAS -/
theorem parseSofa_first (hp : Heap) (ci : Nat) (s : Sofa) (st : RState)
    (harr : s.arr = .none) (huri : s.uri = none) (hconv : s.conv = Offsets.createMapping none s.text)
    (hsc : ∀ t, s.text = some t → ∀ cp ∈ t, Offsets.IsScalar cp)
    (hid : s.sofaID = Cas.INITIAL_VIEW) (hcas : st.cas = Cas.empty) :
    parseSofa ci st (renderSofa hp s) =
      .ok { st with cas := Cas.setViewRec { views := [], nextXid := 2, nextSofaNum := 2 } Cas.INITIAL_VIEW
                             { sofa := s, idx := [] },
                    fss := setFs st.fss s.xid (.sofa ci s.sofaID),
                    maxId := max st.maxId s.xid, maxNum := max st.maxNum s.sofaNum } := by
  obtain ⟨sid, num, xid, text, mime, uri, arr, conv⟩ := s
  simp only at harr huri hconv hid hsc
  subst harr huri hconv hid
  have hm : ∀ t, text = some t → List.map (Char.toNat ∘ Char.ofNat) t = t :=
    fun t ht => map_toNat_ofNat t (hsc t ht)
  cases mime <;> cases text <;>
    simp [parseSofa, renderSofa, List.find?, hcas, empty_eq, Offsets.createMapping,
      Cas.setSofaString, Cas.setSofaMime, Cas.setSofaUri, Cas.setSofaArray, updSofa_set, cur_set,
      bind, Except.bind, pure, Except.pure, hm]

/-! ### the pass -/

theorem renderSofa_noArray (hp : Heap) (s : Sofa) (harr : s.arr = .none) (huri : s.uri = none) :
    (((renderSofa hp s).feats.find? (fun p => p.1 == "@sofaArray")).map (·.2) : Option JV) = none := by
  obtain ⟨sid, num, xid, text, mime, uri, arr, conv⟩ := s
  simp only at harr huri
  subst harr huri
  cases mime <;> cases text <;> simp [renderSofa, List.find?]

/-- one step of the sofa pass on a written text sofa -/
theorem sofaPass_sofa (K : Consts) (ts : TypeSystem) (tsIdx ci : Nat) (all : List JFs) (hp : Heap) (s : Sofa)
    (harr : s.arr = .none) (huri : s.uri = none) (rest : List JFs) (st : RState) :
    sofaPass K ts tsIdx ci all (renderSofa hp s :: rest) st =
      match parseSofa ci st (renderSofa hp s) with
      | .error e => .error e
      | .ok s2 => sofaPass K ts tsIdx ci all rest s2 := by
  rw [sofaPass]
  have hty : ((renderSofa hp s).ty == SOFA) = true := by simp [renderSofa]
  simp only [hty, if_true, renderSofa_noArray hp s harr huri]
  rfl

/-- structures that are not sofas are skipped -/
theorem sofaPass_skip (K : Consts) (ts : TypeSystem) (tsIdx ci : Nat) (all : List JFs) :
    ∀ (l : List JFs) (st : RState), (∀ e ∈ l, e.ty ≠ SOFA) → sofaPass K ts tsIdx ci all l st = .ok st
  | [], st, _ => by rw [sofaPass]
  | e :: l, st, h => by
    rw [sofaPass]
    have hty : (e.ty == SOFA) = false := by simpa using h e List.mem_cons_self
    simp only [hty, Bool.false_eq_true, if_false]
    exact sofaPass_skip K ts tsIdx ci all l st (fun x hx => h x (List.mem_cons_of_mem _ hx))

theorem setFs_new (l : List (Int × Val)) (i : Int) (v : Val) (h : i ∉ l.map (·.1)) :
    setFs l i v = l ++ [(i, v)] := by
  induction l with
  | nil => rfl
  | cons p rest ih =>
    obtain ⟨k, w⟩ := p
    simp only [List.map_cons, List.mem_cons, not_or] at h
    have hk : (k == i) = false := by simpa using fun e => h.1 (Eq.symm e)
    simp only [setFs, hk, Bool.false_eq_true, if_false, ih h.2, List.cons_append]

/-- what the sofa pass needs of one written view -/
structure SofaOk (nv : String × View) : Prop where
  name : nv.2.sofa.sofaID = nv.1
  arr : nv.2.sofa.arr = .none
  uri : nv.2.sofa.uri = none
  conv : nv.2.sofa.conv = Offsets.createMapping none nv.2.sofa.text
  scalar : ∀ t, nv.2.sofa.text = some t → ∀ cp ∈ t, Offsets.IsScalar cp

theorem sofaOk_of_wf {c : Cas} {hp : Heap} (hwf : RTWf c hp) : ∀ nv ∈ c.views, SofaOk nv := by
  intro nv hnv
  refine ⟨hwf.names nv hnv, (hwf.text_sofa nv hnv).1, (hwf.text_sofa nv hnv).2, ?_, hwf.scalar nv hnv⟩
  cases ht : nv.2.sofa.text with
  | none => exact hwf.conv_none nv hnv ht
  | some t => exact hwf.conv nv hnv t ht

/-- the reader state after the sofas of the views `done` -/
structure SofaInv (ci' : Nat) (H : Heap) (done : List (String × View)) (st : RState) : Prop where
  heap : st.heap = H
  fss : st.fss = sofaEntries ci' done
  deferred : st.deferred = []
  views : st.cas.views = bareViews done
  maxId : 0 ≤ st.maxId
  maxNum : 0 ≤ st.maxNum
  bound : ∀ nv ∈ done, nv.2.sofa.xid ≤ st.maxId ∧ nv.2.sofa.sofaNum ≤ st.maxNum

theorem bareViews_keys (l : List (String × View)) : (bareViews l).map (·.1) = l.map (·.1) := by
  unfold bareViews; rw [List.map_map]; rfl

theorem sofaEntries_keys (ci' : Nat) (l : List (String × View)) :
    (sofaEntries ci' l).map (·.1) = l.map (·.2.sofa.xid) := by
  unfold sofaEntries; rw [List.map_map]; rfl

theorem sofaPass_todo (K : Consts) (ts : TypeSystem) (tsIdx ci' : Nat) (all : List JFs) (hp H : Heap)
    (views : List (String × View)) (hok : ∀ nv ∈ views, SofaOk nv)
    (hn : (views.map (·.1)).Nodup) (hx : (views.map (·.2.sofa.xid)).Nodup)
    (fsElems : List JFs) (hns : ∀ e ∈ fsElems, e.ty ≠ SOFA) :
    ∀ (todo done : List (String × View)) (st : RState), views = done ++ todo →
      (∀ nv ∈ todo, nv.1 ≠ Cas.INITIAL_VIEW) → SofaInv ci' H done st →
      ∃ s1, sofaPass K ts tsIdx ci' all (todo.map (fun p => renderSofa hp p.2.sofa) ++ fsElems) st = .ok s1 ∧
        SofaInv ci' H views s1
  | [], done, st, hsplit, _, hinv => by
    refine ⟨st, ?_, ?_⟩
    · rw [List.map_nil, List.nil_append]
      exact sofaPass_skip K ts tsIdx ci' all fsElems st hns
    · rw [hsplit, List.append_nil]; exact hinv
  | nv :: todo, done, st, hsplit, hlater, hinv => by
    have hnv : nv ∈ views := by rw [hsplit]; simp
    have ok := hok nv hnv
    have hkey : nv.1 ∉ done.map (·.1) := by
      rw [hsplit, List.map_append, List.map_cons] at hn
      intro hmem
      exact (List.nodup_append.mp hn).2.2 _ hmem _ List.mem_cons_self rfl
    have hxid : nv.2.sofa.xid ∉ done.map (·.2.sofa.xid) := by
      rw [hsplit, List.map_append, List.map_cons] at hx
      intro hmem
      exact (List.nodup_append.mp hx).2.2 _ hmem _ List.mem_cons_self rfl
    have hnew : Cas.getViewRec st.cas nv.2.sofa.sofaID = none := by
      rw [ok.name]
      unfold Cas.getViewRec
      rw [Cassis.Xmi.RTB.aget_none_iff, hinv.views, bareViews_keys]
      exact hkey
    have hstep := parseSofa_later hp ci' nv.2.sofa st ok.arr ok.uri ok.conv ok.scalar
      (by rw [ok.name]; exact hlater nv List.mem_cons_self) hnew
    obtain ⟨s1, h1, hinv1⟩ := sofaPass_todo K ts tsIdx ci' all hp H views hok hn hx fsElems hns todo (done ++ [nv])
      { st with cas := Cas.setViewRec st.cas nv.2.sofa.sofaID { sofa := nv.2.sofa, idx := [] },
                fss := setFs st.fss nv.2.sofa.xid (.sofa ci' nv.2.sofa.sofaID),
                maxId := max st.maxId nv.2.sofa.xid, maxNum := max st.maxNum nv.2.sofa.sofaNum }
      (by rw [hsplit, List.append_assoc]; rfl) (fun x hx' => hlater x (List.mem_cons_of_mem _ hx'))
      (by
        refine ⟨hinv.heap, ?_, hinv.deferred, ?_, ?_, ?_, ?_⟩
        · show setFs st.fss _ _ = _
          rw [setFs_new _ _ _ (by rw [hinv.fss, sofaEntries_keys]; exact hxid), hinv.fss, ok.name]
          unfold sofaEntries
          rw [List.map_append]; rfl
        · show (Cas.setViewRec st.cas _ _).views = _
          unfold Cas.setViewRec
          show alistSet st.cas.views _ _ = _
          rw [ok.name, Cassis.Xmi.RTB.aset_new _ _ _ (by rw [hinv.views, bareViews_keys]; exact hkey), hinv.views]
          unfold bareViews
          rw [List.map_append]; rfl
        · show 0 ≤ max st.maxId _
          have := hinv.maxId; omega
        · show 0 ≤ max st.maxNum _
          have := hinv.maxNum; omega
        · intro x hx'
          show _ ≤ max st.maxId _ ∧ _ ≤ max st.maxNum _
          rcases List.mem_append.mp hx' with hd | hl
          · have := hinv.bound x hd; omega
          · rw [List.mem_singleton] at hl; subst hl; omega)
    refine ⟨s1, ?_, hinv1⟩
    rw [List.map_cons, List.cons_append, sofaPass_sofa K ts tsIdx ci' all hp nv.2.sofa ok.arr ok.uri, hstep]
    exact h1

theorem sofaPass_flat (K : Consts) (ts : TypeSystem) (tsIdx ci' : Nat) (c : Cas) (hp H : Heap) (hwf : RTWf c hp)
    (fsElems all : List JFs) (hns : ∀ e ∈ fsElems, e.ty ≠ SOFA) :
    ∃ s1 : RState,
      sofaPass K ts tsIdx ci' all (c.views.map (fun p => renderSofa hp p.2.sofa) ++ fsElems)
        { cas := Cas.empty, heap := H } = .ok s1 ∧
      s1.heap = H ∧ s1.fss = sofaEntries ci' c.views ∧ s1.deferred = [] ∧
      s1.cas.views = bareViews c.views ∧
      0 ≤ s1.maxId ∧ 0 ≤ s1.maxNum ∧
      (∀ nv ∈ c.views, nv.2.sofa.xid ≤ s1.maxId ∧ nv.2.sofa.sofaNum ≤ s1.maxNum) := by
  have hok := sofaOk_of_wf hwf
  have hinit := hwf.init_first
  have hn := hwf.names_nodup
  have hx := hwf.sofa_ids_nodup
  cases hv : c.views with
  | nil => rw [hv] at hinit; simp at hinit
  | cons nv rest =>
    rw [hv] at hinit hok hn hx
    have hname : nv.1 = Cas.INITIAL_VIEW := by simpa using hinit
    have ok := hok nv List.mem_cons_self
    have hlater : ∀ x ∈ rest, x.1 ≠ Cas.INITIAL_VIEW := by
      intro x hx' he
      rw [List.map_cons, List.nodup_cons] at hn
      exact hn.1 (by rw [hname, ← he]; exact List.mem_map_of_mem hx')
    have hstep := parseSofa_first hp ci' nv.2.sofa { cas := Cas.empty, heap := H } ok.arr ok.uri ok.conv ok.scalar
      (by rw [ok.name]; exact hname) rfl
    obtain ⟨s1, h1, hinv⟩ := sofaPass_todo K ts tsIdx ci' all hp H (nv :: rest) hok hn hx fsElems hns rest [nv]
      { cas := Cas.setViewRec { views := [], nextXid := 2, nextSofaNum := 2 } Cas.INITIAL_VIEW
                 { sofa := nv.2.sofa, idx := [] },
        heap := H,
        fss := setFs [] nv.2.sofa.xid (.sofa ci' nv.2.sofa.sofaID),
        maxId := max 0 nv.2.sofa.xid, maxNum := max 0 nv.2.sofa.sofaNum }
      rfl hlater
      (by
        refine ⟨rfl, ?_, rfl, ?_, ?_, ?_, ?_⟩
        · show [(nv.2.sofa.xid, Val.sofa ci' nv.2.sofa.sofaID)] = _
          rw [ok.name]; rfl
        · show [(Cas.INITIAL_VIEW, ({ sofa := nv.2.sofa, idx := [] } : View))] = _
          rw [← hname]; rfl
        · show (0 : Int) ≤ max 0 _
          omega
        · show (0 : Int) ≤ max 0 _
          omega
        · intro x hx'
          rw [List.mem_singleton] at hx'; subst hx'
          show _ ≤ max (0 : Int) _ ∧ _ ≤ max (0 : Int) _
          omega)
    refine ⟨s1, ?_, hinv.heap, hinv.fss, hinv.deferred, hinv.views, hinv.maxId, hinv.maxNum, hinv.bound⟩
    rw [List.map_cons, List.cons_append, sofaPass_sofa K ts tsIdx ci' all hp nv.2.sofa ok.arr ok.uri, hstep]
    exact h1

end Cassis.Json
