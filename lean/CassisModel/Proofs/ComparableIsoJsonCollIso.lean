/-
C20 across the JSON round trip, whole format, layer 4: what the default traversal of the original collects (in the heap
`std.heap` it leaves behind) and what the default traversal of the loaded CAS collects are isomorphic in the semantic
sense `IsoR` (`Proofs/ComparableIsoR.lean`), through the address map the ids of the JSON writer induce.

The simulation relation on addresses (`ARj`) is simply "a structure the JSON writer collected and its counterpart": JSON
restores every collection object under its id, so arrays are related as *objects* (then compared by content), and a
reference to a structure the default traversal does not collect (an inlined list node, say) finds no anchor on either
side (`DCtx.sameKey`).
-/
import CassisModel.Proofs.ComparableIsoJsonCollTrav
import CassisModel.Proofs.ComparableIsoCollIso

namespace Cassis.Comparable
open Cassis.TS Cassis.Traverse Cassis.Xmi Cassis.Json Cassis.Json.CC

/-- related addresses: a collected structure and its counterpart -/
def ARj (H : Heap) (L : List (Int × Nat)) (a a' : Nat) : Prop := ∃ q ∈ L, q.2 = a ∧ a' = naOf H L q.1

theorem tyOf_shape {hp hp' : Heap} (sh : SameShape hp hp') (a : Nat) : tyOf hp' a = tyOf hp a := by
  unfold tyOf
  cases h : hp[a]? with
  | none =>
    have : hp'[a]? = none := by
      apply List.getElem?_eq_none
      rw [sh.1]
      exact List.getElem?_eq_none_iff.mp h
    rw [this]
  | some ob =>
    obtain ⟨ob', e, t, _, _⟩ := sh.2 a ob h
    rw [e]
    exact t

section
variable {K : Consts} {ts : TypeSystem} {c : Cas} {ci : Nat} {hp H : Heap} {L : List (Int × Nat)} {ci' : Nat}
  {HF : Heap} {c' : Cas} {std : St}

theorem DCtx.slotD (X : DCtx K ts c ci hp H L ci' HF c' std) (a : Nat) (n : String) :
    Traverse.slot std.heap a n = Traverse.slot H a n := by
  rw [X.shapeD.slot a n, X.shape.slot a n]

theorem DCtx.tyD (X : DCtx K ts c ci hp H L ci' HF c' std) (a : Nat) : tyOf std.heap a = tyOf H a := by
  rw [tyOf_shape X.shapeD, tyOf_shape X.shape]

theorem DCtx.tyOf_new (X : DCtx K ts c ci hp H L ci' HF c' std) {q : Int × Nat} (hq : q ∈ L) :
    tyOf HF (naOf H L q.1) = tyOf std.heap q.2 := by
  rw [X.tyD]
  obtain ⟨o, o', ho, ho', hty, _⟩ := X.jw.obj hq
  unfold tyOf
  rw [ho, ho']
  exact hty

theorem DCtx.isArrayFs_new (X : DCtx K ts c ci hp H L ci' HF c' std) {q : Int × Nat} (hq : q ∈ L) :
    isArrayFs K HF (naOf H L q.1) = isArrayFs K std.heap q.2 := by
  unfold isArrayFs
  rw [X.tyOf_new hq]

/-- the slots of a counterpart -/
theorem DCtx.slot_new (X : DCtx K ts c ci hp H L ci' HF c' std) {q : Int × Nat} (hq : q ∈ L) (n : String) :
    Traverse.slot HF (naOf H L q.1) n = (Traverse.slot std.heap q.2 n).map (exp3J H (naOf H L) ci') := by
  rw [X.slotD]
  exact CC.slot_new X.jw.rel hq n

/-- **anchor keys**: a structure of `L` and its counterpart share their ids with corresponding collected structures
    (with none, when the default traversal does not collect them) -/
theorem DCtx.sameKey (X : DCtx K ts c ci hp H L ci' HF c' std) {q : Int × Nat} (hq : q ∈ L) :
    SameKey std.heap HF (std.allFs.map (·.2)) (phiOf H (naOf H L)) q.2 (naOf H L q.1) := by
  intro b hb
  obtain ⟨qb, hqb, rfl, _⟩ := inL_pair (X.sub hb)
  rw [X.jw.phi hqb, xid_new X.jw.rel hqb, xid_new X.jw.rel hq]
  constructor
  · intro h
    have e := X.key hq hb h
    have : qb = q := by
      apply pair_eq_of_nodup_fst L X.jw.lok.nodup qb hqb q hq
      have h1 := (X.jw.lok.ids qb hqb).1
      rw [e, (X.jw.lok.ids q hq).1] at h1
      exact (Option.some.inj h1).symm
    rw [this]
  · intro h
    rw [pair_eq_of_nodup_fst L X.jw.lok.nodup qb hqb q hq (Option.some.inj h)]

/-! ### values -/

theorem refsRel_expJ : ∀ (l : List (Option Nat)), (∀ b, some b ∈ l → InL H L b) →
    RefsRel (ARj H L) l (l.map (fun r => r.bind (fun b => (xidOf H b).map (naOf H L))))
  | [], _ => trivial
  | none :: l, hl => by
    simp only [List.map_cons, Option.bind_none, RefsRel]
    exact refsRel_expJ l (fun b hb => hl b (List.mem_cons_of_mem _ hb))
  | some a :: l, hl => by
    obtain ⟨y, hy, hyl⟩ := hl a List.mem_cons_self
    simp only [List.map_cons, Option.bind_some, hy, Option.map_some, RefsRel]
    exact ⟨⟨(y, a), hyl, rfl, rfl⟩, refsRel_expJ l (fun b hb => hl b (List.mem_cons_of_mem _ hb))⟩

/-- a raw element list and what the reader makes of it -/
theorem vrof_elemsJ {ev : Val} (hl : isListV ev = true) (hr : ∀ l, ev = .refs l → ∀ b, some b ∈ l → InL H L b) :
    VRof (ARj H L) ev (exp3J H (naOf H L) ci' ev) ∧ ev ≠ .none ∧ exp3J H (naOf H L) ci' ev ≠ .none := by
  cases ev with
  | refs l =>
    refine ⟨Or.inr (Or.inr (Or.inr ⟨l, _, rfl, rfl, refsRel_expJ l (hr l rfl)⟩)), (by intro e; cases e), ?_⟩
    simp only [exp3J, elemsExpJ]; intro e; cases e
  | ints l =>
    cases l with
    | nil => exact ⟨Or.inr (Or.inl ⟨Or.inr (Or.inl rfl), Or.inl rfl⟩), (by intro e; cases e), (by intro e; cases e)⟩
    | cons i l => exact ⟨Or.inl ⟨_, rfl, rfl⟩, (by intro e; cases e), (by intro e; cases e)⟩
  | floats l =>
    cases l with
    | nil => exact ⟨Or.inr (Or.inl ⟨Or.inr (Or.inr (Or.inl rfl)), Or.inl rfl⟩), (by intro e; cases e), (by intro e; cases e)⟩
    | cons i l => exact ⟨Or.inl ⟨_, rfl, rfl⟩, (by intro e; cases e), (by intro e; cases e)⟩
  | bools l =>
    cases l with
    | nil =>
      exact ⟨Or.inr (Or.inl ⟨Or.inr (Or.inr (Or.inr (Or.inl rfl))), Or.inl rfl⟩), (by intro e; cases e), (by intro e; cases e)⟩
    | cons i l => exact ⟨Or.inl ⟨_, rfl, rfl⟩, (by intro e; cases e), (by intro e; cases e)⟩
  | strs l =>
    cases l with
    | nil =>
      exact ⟨Or.inr (Or.inl ⟨Or.inr (Or.inr (Or.inr (Or.inr rfl))), Or.inl rfl⟩), (by intro e; cases e), (by intro e; cases e)⟩
    | cons i l => exact ⟨Or.inl ⟨_, rfl, rfl⟩, (by intro e; cases e), (by intro e; cases e)⟩
  | _ => cases hl

/-- the only slot of an array object -/
theorem JW.arr_elems (x : JW K ts c ci H L ci' HF) {q : Int × Nat} (hq : q ∈ L) (ha : JArrFs K ts H q.2) :
    ∃ (o : Obj) (ev : Val), H[q.2]? = some o ∧ o.slots = [("elements", ev)] ∧ isListV ev = true ∧
      ∀ l, ev = .refs l → ∀ b, some b ∈ l → InL H L b := by
  obtain ⟨o, t, f, ev, ho, _, _, _, _, _, _, hsl, _, _, hcase⟩ := ha
  have hel : alistGet? o.slots "elements" = some ev := by rw [hsl]; simp [alistGet?]
  refine ⟨o, ev, ho, hsl, ?_, ?_⟩
  · rcases hcase with ⟨_, _, l, rfl⟩ | ⟨_, _, hp⟩
    · rfl
    · rcases hp with rfl | ⟨_, l, rfl⟩ | ⟨_, l, rfl⟩ | ⟨_, _, ⟨l, rfl⟩ | ⟨l, rfl⟩ | ⟨l, rfl⟩⟩ <;> rfl
  · intro l hl b hb
    subst hl
    exact x.lok.closedE q hq o ho l hel b hb

theorem jgen_not_array {a : Nat} (hg : JGenFs K ts c ci H a) : isArrayFs K H a = false := by
  obtain ⟨o, t, ho, _, _, harr, _⟩ := hg
  unfold isArrayFs tyOf
  rw [ho]
  exact harr

/-- **related slot values**: every slot of a collected structure, against the slot of its counterpart -/
theorem DCtx.slot_vrof (X : DCtx K ts c ci hp H L ci' HF c' std) {q : Int × Nat} (hq : q ∈ L) (n : String) :
    VRof (ARj H L) ((Traverse.slot std.heap q.2 n).getD .none) ((Traverse.slot HF (naOf H L q.1) n).getD .none) := by
  have hnew := CC.slot_new_getD X.jw.rel hq n
  simp only [Xmi.slot] at hnew
  rw [hnew, X.slotD]
  cases hs : Traverse.slot H q.2 n with
  | none => exact vrof_none
  | some v =>
    simp only [Option.getD_some]
    rcases (X.jw.lok.coll q hq).1 with hg | ha
    · obtain ⟨o, t, ho, _, _, _, _, _, _, _, _, _, _, _, hsl, hfeat, _⟩ := hg
      have hv : alistGet? o.slots n = some v := by
        unfold Traverse.slot at hs; rw [ho] at hs; exact hs
      obtain ⟨f, hf, rfl⟩ := flat_slot_feature hsl hv
      obtain ⟨_, _, _, _, _, v0, hv0, hcase⟩ := hfeat f hf
      rw [hv] at hv0; cases hv0
      rcases hcase with ⟨_, h1⟩ | ⟨_, _, h1⟩ | ⟨_, _, _, _, _, h1⟩
      · rcases h1 with ⟨vn, rfl, _⟩ | ⟨rfl, _⟩
        · exact Or.inl ⟨.none, rfl, rfl⟩
        · exact vrof_none
      · rcases h1 with rfl | ⟨_, i, rfl⟩ | ⟨_, s, rfl⟩ | ⟨_, b, rfl⟩ | ⟨_, t, rfl⟩
        · exact vrof_none
        all_goals exact Or.inl ⟨_, rfl, rfl⟩
      · rcases h1 with rfl | ⟨b, rfl, _⟩
        · exact vrof_none
        · obtain ⟨y, hy, hyl⟩ := X.jw.slot_ref hq hs
          rw [exp3J_ref hy]
          exact Or.inr (Or.inr (Or.inl ⟨b, _, rfl, rfl, (y, b), hyl, rfl, rfl⟩))
    · obtain ⟨o, ev, ho, hsl, hlv, hrefs⟩ := X.jw.arr_elems hq ha
      have hv : alistGet? o.slots n = some v := by
        unfold Traverse.slot at hs; rw [ho] at hs; exact hs
      rw [hsl] at hv
      obtain ⟨_, rfl⟩ := alistGet?_single hv
      exact (vrof_elemsJ hlv hrefs).1

/-- the relation is closed under one step of `_render_feature_value` -/
theorem DCtx.simStep (X : DCtx K ts c ci hp H L ci' HF c' std) {byId byId' : List (Option Int × String)}
    (hA : AnchRel std.heap HF (std.allFs.map (·.2)) (phiOf H (naOf H L)) byId byId') :
    SimStep K std.heap HF byId byId' (ARj H L) := by
  rintro a a' ⟨q, hq, rfl, rfl⟩
  have harr := X.isArrayFs_new (K := K) hq
  cases hk : isArrayFs K std.heap q.2 with
  | false =>
    rw [hk] at harr
    exact Or.inl ⟨rfl, harr, hA _ _ (X.sameKey hq)⟩
  | true =>
    rw [hk] at harr
    refine Or.inr ⟨rfl, harr, ?_⟩
    have hkH : isArrayFs K H q.2 = true := by
      unfold isArrayFs at hk ⊢
      rw [← X.tyD]; exact hk
    rcases (X.jw.lok.coll q hq).1 with hg | ha
    · rw [jgen_not_array hg] at hkH; cases hkH
    · obtain ⟨o, ev, ho, hsl, hlv, hrefs⟩ := X.jw.arr_elems hq ha
      have hs : Traverse.slot H q.2 "elements" = some ev := by
        unfold Traverse.slot; rw [ho]; simp [hsl, alistGet?]
      obtain ⟨h1, h2, h3⟩ := vrof_elemsJ (ci' := ci') hlv hrefs
      refine Or.inr (Or.inr ⟨ev, _, ?_, ?_, h2, h3, h1⟩)
      · rw [X.slotD, hs]
      · rw [X.slot_new hq, X.slotD, hs]; rfl

/-! ### views, covered text -/

/-- the `sofa` slot of a collected structure -/
theorem JW.sofa_slot (x : JW K ts c ci H L ci' HF) {q : Int × Nat} (hq : q ∈ L) {o : Obj}
    (ho : H[q.2]? = some o) {v : Val} (hv : alistGet? o.slots "sofa" = some v) :
    (∃ vn, v = .sofa ci vn ∧ (Cas.getViewRec c vn).isSome = true) ∨ v = .none := by
  rcases (x.lok.coll q hq).1 with hg | ha
  · obtain ⟨o1, t, ho1, _, _, _, _, _, _, _, _, _, _, _, hsl, hfeat, _⟩ := hg
    rw [ho] at ho1; cases ho1
    obtain ⟨f, hf, hfn⟩ := flat_slot_feature hsl hv
    obtain ⟨_, _, _, _, _, v0, hv0, hcase⟩ := hfeat f hf
    rw [hfn, hv] at hv0; cases hv0
    rcases hcase with ⟨_, hs⟩ | ⟨hne, _⟩ | ⟨hne, _⟩
    · rcases hs with ⟨vn, rfl, h⟩ | ⟨rfl, _⟩
      · exact Or.inl ⟨vn, rfl, h⟩
      · exact Or.inr rfl
    · exact absurd hfn hne
    · exact absurd hfn hne
  · obtain ⟨o1, ev, ho1, hsl, _⟩ := x.arr_elems hq ha
    rw [ho] at ho1; cases ho1
    rw [hsl] at hv
    have := (alistGet?_single hv).1
    exact absurd this (by decide)

/-- the object of a structure of `L` in the heap the default traversal leaves behind: same slots -/
theorem DCtx.objD (X : DCtx K ts c ci hp H L ci' HF c' std) {a : Nat} {o : Obj} (ho : H[a]? = some o) :
    ∃ oD : Obj, std.heap[a]? = some oD ∧ oD.slots = o.slots := by
  obtain ⟨ob, hob, _, hsl⟩ := X.shape.get_back ho
  obtain ⟨oD, hoD, _, hslD, _⟩ := X.shapeD.2 a ob hob
  exact ⟨oD, hoD, by rw [hslD, hsl]⟩

theorem DCtx.viewTag (X : DCtx K ts c ci hp H L ci' HF c' std) {cass cass' : List Cas}
    (hc : cass[ci]? = some c) (hc' : cass'[ci']? = some c') (hviews : ViewsSame c c') {q : Int × Nat} (hq : q ∈ L) :
    viewTag cass' HF (naOf H L q.1) = Comparable.viewTag cass std.heap q.2 := by
  obtain ⟨o, o', ho, ho', _⟩ := X.jw.rel q hq
  unfold Comparable.viewTag
  rw [X.slot_new hq "sofa", X.slotD]
  cases hs : Traverse.slot H q.2 "sofa" with
  | none => rfl
  | some v =>
    have hv : alistGet? o.slots "sofa" = some v := by
      unfold Traverse.slot at hs; rw [ho] at hs; exact hs
    rcases X.jw.sofa_slot hq ho hv with ⟨vn, rfl, hsome⟩ | rfl
    · cases hg : Cas.getViewRec c vn with
      | none => rw [hg] at hsome; cases hsome
      | some w =>
        obtain ⟨w', hw', hid, _⟩ := hviews vn w hg
        simp only [Option.map_some, exp3J, exp3, hc, hc', hg, hw', hid]
    · rfl

theorem DCtx.coveredText (X : DCtx K ts c ci hp H L ci' HF c' std) {cass cass' : List Cas}
    (hc : cass[ci]? = some c) (hc' : cass'[ci']? = some c') (hviews : ViewsSame c c') {q : Int × Nat} (hq : q ∈ L)
    (hann : isAnnot std.heap q.2 = true) :
    Cas.coveredText cass' HF (naOf H L q.1) = Cas.coveredText cass std.heap q.2 := by
  obtain ⟨o, o', ho, ho', _, _, hkeys, hslots⟩ := X.jw.rel q hq
  obtain ⟨oD, hoD, hslD⟩ := X.objD ho
  obtain ⟨b, e, hb, he⟩ := isAnnot_slots_x hoD hann
  have hb' : alistGet? o'.slots "begin" = some (.int b) := hslots _ _ (by rw [← hslD]; exact hb)
  have he' : alistGet? o'.slots "end" = some (.int e) := hslots _ _ (by rw [← hslD]; exact he)
  unfold Cas.coveredText
  simp only [hoD, ho', hb, he, hb', he', bind, Except.bind, pure, Except.pure]
  rw [hslD]
  cases hs : alistGet? o.slots "sofa" with
  | none =>
    have hs' : alistGet? o'.slots "sofa" = none := by
      cases h' : alistGet? o'.slots "sofa" with
      | none => rfl
      | some w =>
        obtain ⟨v, hv⟩ := alistGet?_of_keys o.slots o'.slots "sofa" w hkeys.symm h'
        rw [hs] at hv; cases hv
    rw [hs']
  | some v =>
    have hs' : alistGet? o'.slots "sofa" = some (E3J H (naOf H L) ci' o "sofa" v) := hslots _ _ hs
    rw [hs']
    rcases X.jw.sofa_slot hq ho hs with ⟨vn, rfl, hsome⟩ | rfl
    · cases hg : Cas.getViewRec c vn with
      | none => rw [hg] at hsome; cases hsome
      | some w =>
        obtain ⟨w', hw', _, htext⟩ := hviews vn w hg
        simp only [E3J, exp3J, exp3, hc, hc', hg, hw', htext]
    · rfl

/-! ### the isomorphism -/

/-- **the default traversals of the original and of the CAS loaded from JSON collect isomorphic structures** -/
theorem isoR_of_dctx (X : DCtx K ts c ci hp H L ci' HF c' std) {cass cass' : List Cas}
    (hc : cass[ci]? = some c) (hc' : cass'[ci']? = some c') (hviews : ViewsSame c c')
    (addrs' : List Nat) (hnd : addrs'.Nodup)
    (hperm' : addrs'.Perm ((std.allFs.map (·.2)).map (phiOf H (naOf H L)))) :
    IsoR K cass cass' std.heap HF (defaultSeeds c) (defaultSeeds c') (std.allFs.map (·.2)) addrs'
      (phiOf H (naOf H L)) := by
  have haddrs : ∀ a ∈ std.allFs.map (·.2), ∃ q ∈ L, q.2 = a := by
    intro a ha
    obtain ⟨q, hq, h2, _⟩ := inL_pair (X.sub ha)
    exact ⟨q, hq, h2⟩
  refine ⟨hperm'.symm, hnd, ?_, ?_, ?_, ?_, ?_, ?_, ?_, ?_⟩
  · intro a ha
    obtain ⟨q, hq, rfl⟩ := haddrs a ha
    rw [X.jw.phi hq]
    constructor
    · exact X.seed_bwd hq
    · intro h
      obtain ⟨q', hq', e, hs⟩ := X.seed_fwd h
      rw [X.jw.na_inj hq hq' e]
      exact hs
  · intro a ha
    obtain ⟨q, hq, rfl⟩ := haddrs a ha
    rw [X.jw.phi hq]
    exact X.tyOf_new hq
  · intro a ha
    obtain ⟨q, hq, rfl⟩ := haddrs a ha
    rw [X.jw.phi hq]
    exact X.sameKey hq
  · intro a ha
    obtain ⟨q, hq, rfl⟩ := haddrs a ha
    rw [X.jw.phi hq]
    exact X.viewTag hc hc' hviews hq
  · intro a ha hann
    obtain ⟨q, hq, rfl⟩ := haddrs a ha
    rw [X.jw.phi hq]
    exact X.coveredText hc hc' hviews hq hann
  · intro a ha n _
    obtain ⟨q, hq, rfl⟩ := haddrs a ha
    rw [X.jw.phi hq]
    have hr := X.slot_vrof hq n
    apply Option.ext
    intro i
    rw [intOf_eq_some, intOf_eq_some]
    exact (vrof_int hr i).symm
  · intro byId byId' hA a ha n _
    obtain ⟨q, hq, rfl⟩ := haddrs a ha
    rw [X.jw.phi hq]
    exact sim_eq K std.heap HF byId byId' _ (X.simStep hA) (X.slot_vrof hq n)
  · intro a ha _
    obtain ⟨q, hq, rfl⟩ := haddrs a ha
    rw [X.jw.phi hq, X.slot_new hq]
    cases Traverse.slot std.heap q.2 "elements" <;> rfl

end

end Cassis.Comparable
