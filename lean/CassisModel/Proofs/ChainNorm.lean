/-
The normalised CAS (`normCas`, `ChainDefs.lean`: every sofa gets the converter the sofa setter builds for its text)
is in the fragment when the CAS is, and is written as the same JSON elements, provided the converters agree on the
offsets inside the texts (true for what the XMI reader installs: `conv_p2e_eq`).
-/
import CassisModel.Proofs.ChainDefs

namespace Cassis.Chain
open Cassis.TS Cassis.Traverse Cassis.Xmi Cassis.Json

theorem getViewRec_norm (c : Cas) (vn : String) :
    Cas.getViewRec (normCas c) vn = (Cas.getViewRec c vn).map normView := by
  unfold Cas.getViewRec normCas
  show alistGet? (c.views.map _) vn = _
  induction c.views with
  | nil => rfl
  | cons p r ih =>
    obtain ⟨k, v⟩ := p
    simp only [List.map_cons, alistGet?]
    by_cases hk : k = vn
    · rw [if_pos hk, if_pos hk]; rfl
    · rw [if_neg hk, if_neg hk]; exact ih

theorem defaultSeeds_norm (c : Cas) : defaultSeeds (normCas c) = defaultSeeds c := by
  unfold defaultSeeds normCas
  show (c.views.map _).flatMap _ = _
  rw [List.flatMap_map]
  rfl

theorem flatFeat_norm {K : Consts} {ts : TypeSystem} {c : Cas} {ci : Nat} {H : Heap} {isAnn : Bool} {o : Obj}
    {f : Feature} (h : FlatFeat K ts c ci H isAnn o f) : FlatFeat K ts (normCas c) ci H isAnn o f := by
  obtain ⟨h1, h2, h3, h4, h5, h6, h7, h8, h9, h10, h11, v, hv, hcase⟩ := h
  refine ⟨h1, h2, h3, h4, h5, h6, h7, h8, h9, h10, h11, v, hv, ?_⟩
  rcases hcase with ⟨hn, hs⟩ | hr
  · refine Or.inl ⟨hn, ?_⟩
    rcases hs with ⟨vn, hvn, hsome⟩ | hs
    · refine Or.inl ⟨vn, hvn, ?_⟩
      rw [getViewRec_norm, Option.isSome_map]; exact hsome
    · exact Or.inr hs
  · exact Or.inr hr

theorem flatFs_norm {K : Consts} {ts : TypeSystem} {c : Cas} {ci : Nat} {H : Heap} {a : Nat}
    (h : FlatFs K ts c ci H a) : FlatFs K ts (normCas c) ci H a := by
  obtain ⟨o, t, h1, h2, h3, h4, h5, h6, h7, h8, h9, h10, h11, h12, h13, hfeat, hann⟩ := h
  refine ⟨o, t, h1, h2, h3, h4, h5, h6, h7, h8, h9, h10, h11, h12, h13, fun f hf => flatFeat_norm (hfeat f hf), ?_⟩
  intro hA
  obtain ⟨vn, v, text, b, e, ha, hb, hc, hd⟩ := hann hA
  refine ⟨vn, normView v, text, b, e, ha, ?_, hc, hd⟩
  rw [getViewRec_norm, hb]; rfl

theorem lok_norm {K : Consts} {ts : TypeSystem} {c : Cas} {ci : Nat} {H : Heap} {L : List (Int × Nat)}
    (h : LOk K ts c ci H L) : LOk K ts (normCas c) ci H L := by
  refine ⟨fun q hq => flatFs_norm (h.flat q hq), h.ids, h.nodup, h.closed, ?_⟩
  intro nv hnv
  obtain ⟨nv0, hnv0, rfl⟩ := List.mem_map.mp hnv
  exact h.members nv0 hnv0

theorem membersOk_norm {c : Cas} {H : Heap} (h : MembersOk c H) : MembersOk (normCas c) H := by
  intro nv hnv
  obtain ⟨nv0, hnv0, rfl⟩ := List.mem_map.mp hnv
  exact h nv0 hnv0

theorem mem_sofa_norm {c : Cas} {H : Heap}
    (h : ∀ nv ∈ c.views, ∀ e ∈ Index.all nv.2.idx, Xmi.slot H e.oid "sofa" ≠ some .none) :
    ∀ nv ∈ (normCas c).views, ∀ e ∈ Index.all nv.2.idx, Xmi.slot H e.oid "sofa" ≠ some .none := by
  intro nv hnv
  obtain ⟨nv0, hnv0, rfl⟩ := List.mem_map.mp hnv
  exact h nv0 hnv0

theorem dis_norm {c : Cas} {L : List (Int × Nat)} (h : ∀ q ∈ L, ∀ nv ∈ c.views, q.1 ≠ nv.2.sofa.xid) :
    ∀ q ∈ L, ∀ nv ∈ (normCas c).views, q.1 ≠ nv.2.sofa.xid := by
  intro q hq nv hnv
  obtain ⟨nv0, hnv0, rfl⟩ := List.mem_map.mp hnv
  exact h q hq nv0 hnv0

theorem viewContent_norm (H : Heap) (c : Cas) :
    (normCas c).views.map (viewContent H) = c.views.map (viewContent H) := by
  unfold normCas
  show (c.views.map _).map _ = _
  rw [List.map_map]
  rfl

/-- the sofas are rendered alike (the converter is not part of the document; without a byte array the heap is not
    consulted) -/
theorem renderSofa_norm (hp hp' : Heap) (c : Cas) (harr : ∀ nv ∈ c.views, nv.2.sofa.arr = .none) :
    (normCas c).views.map (fun p => Json.renderSofa hp' p.2.sofa) = c.views.map (fun p => Json.renderSofa hp p.2.sofa) := by
  unfold normCas
  show (c.views.map _).map _ = _
  rw [List.map_map]
  apply List.map_congr_left
  intro nv hnv
  have := harr nv hnv
  show Json.renderSofa hp' (normView nv.2).sofa = Json.renderSofa hp nv.2.sofa
  unfold Json.renderSofa normView
  simp only [this]

theorem jviews_norm (H : Heap) (c : Cas) : (normCas c).views.map (jviewH H) = c.views.map (jviewOf H) := by
  unfold normCas
  show (c.views.map _).map _ = _
  rw [List.map_map]
  rfl

/-- well-formedness of the views of the normalised CAS, against the empty heap -/
theorem rtwf_norm {c : Cas}
    (init_first : (c.views.head?).map (·.1) = some Cas.INITIAL_VIEW)
    (names : ∀ nv ∈ c.views, nv.2.sofa.sofaID = nv.1)
    (names_nodup : (c.views.map (·.1)).Nodup)
    (sofa_ids_nodup : (c.views.map (·.2.sofa.xid)).Nodup)
    (text_sofa : ∀ nv ∈ c.views, nv.2.sofa.arr = .none ∧ nv.2.sofa.uri = none)
    (scalar : ∀ nv ∈ c.views, ∀ t, nv.2.sofa.text = some t → ∀ cp ∈ t, Offsets.IsScalar cp)
    (next_pos : 0 < c.nextXid)
    (sofa_ids : ∀ nv ∈ c.views, 0 < nv.2.sofa.xid ∧ nv.2.sofa.xid < c.nextXid) :
    RTWf (normCas c) [] := by
  have hmem : ∀ nv ∈ (normCas c).views, ∃ nv0 ∈ c.views, nv = (nv0.1, normView nv0.2) := by
    intro nv hnv
    obtain ⟨nv0, hnv0, rfl⟩ := List.mem_map.mp hnv
    exact ⟨nv0, hnv0, rfl⟩
  refine
    { init_first := ?_, names := ?_, names_nodup := ?_, sofa_ids_nodup := ?_, text_sofa := ?_, conv := ?_,
      conv_none := ?_, scalar := ?_, next_pos := next_pos, ids_below := ?_, sofa_ids := ?_, ids_pos := ?_ }
  · show ((c.views.map _).head?).map _ = _
    rw [List.head?_map, Option.map_map]
    exact init_first
  · intro nv hnv
    obtain ⟨nv0, hnv0, rfl⟩ := hmem nv hnv
    exact names nv0 hnv0
  · show ((c.views.map _).map _).Nodup
    rw [List.map_map]
    exact names_nodup
  · show ((c.views.map _).map _).Nodup
    rw [List.map_map]
    exact sofa_ids_nodup
  · intro nv hnv
    obtain ⟨nv0, hnv0, rfl⟩ := hmem nv hnv
    exact text_sofa nv0 hnv0
  · intro nv hnv t ht
    obtain ⟨nv0, hnv0, rfl⟩ := hmem nv hnv
    have ht' : nv0.2.sofa.text = some t := ht
    show Offsets.createMapping none nv0.2.sofa.text = _
    rw [ht']; rfl
  · intro nv hnv ht
    obtain ⟨nv0, hnv0, rfl⟩ := hmem nv hnv
    have ht' : nv0.2.sofa.text = none := ht
    show Offsets.createMapping none nv0.2.sofa.text = _
    rw [ht']; rfl
  · intro nv hnv t ht
    obtain ⟨nv0, hnv0, rfl⟩ := hmem nv hnv
    exact scalar nv0 hnv0 t ht
  · intro a ob x hob
    simp at hob
  · intro nv hnv
    obtain ⟨nv0, hnv0, rfl⟩ := hmem nv hnv
    exact sofa_ids nv0 hnv0
  · intro a ob x hob
    simp at hob

theorem extInt_norm {cassA cassB : List Cas} {c : Cas} {ci : Nat} {o : Obj} {isAnn : Bool}
    (hcA : cassA[ci]? = some c) (hcB : cassB[ci]? = some (normCas c))
    (hconv : ∀ nv ∈ c.views, ∀ t, nv.2.sofa.text = some t → ∀ k, k ≤ t.length →
      Offsets.pythonToExternal nv.2.sofa.conv k = Offsets.pythonToExternal (some (Offsets.table t)) k)
    (hann : isAnn = true →
      ∃ (vn : String) (v : View) (text : List Nat) (b e : Nat),
        alistGet? o.slots "sofa" = some (.sofa ci vn) ∧ Cas.getViewRec c vn = some v ∧ v.sofa.text = some text ∧
        alistGet? o.slots "begin" = some (.int b) ∧ alistGet? o.slots "end" = some (.int e) ∧
        b ≤ text.length ∧ e ≤ text.length)
    (n : String) (i : Int) (hi : alistGet? o.slots n = some (.int i)) :
    extInt cassB isAnn o n i = extInt cassA isAnn o n i := by
  unfold extInt
  by_cases hcond : (isAnn && (n == "begin" || n == "end")) = true
  · rw [if_pos hcond, if_pos hcond]
    rw [Bool.and_eq_true, Bool.or_eq_true, beq_iff_eq, beq_iff_eq] at hcond
    obtain ⟨hA, hn⟩ := hcond
    obtain ⟨vn, v, text, b, e, hs, hv, ht, hb, he, hbl, hel⟩ := hann hA
    have hmem : (vn, v) ∈ c.views := alistGet?_mem c.views vn v hv
    have key : ∀ k : Nat, k ≤ text.length → i = (k : Int) →
        (if i < 0 then i else (Offsets.pythonToExternal (normView v).sofa.conv i.toNat : Nat)) =
        (if i < 0 then i else (Offsets.pythonToExternal v.sofa.conv i.toNat : Nat)) := by
      intro k hk hik
      subst hik
      have hnn : ¬ ((k : Int) < 0) := by omega
      rw [if_neg hnn, if_neg hnn, Int.toNat_natCast]
      rw [hconv (vn, v) hmem text ht k hk]
      show ((Offsets.pythonToExternal (Offsets.createMapping none v.sofa.text) k : Nat) : Int) = _
      rw [ht]; rfl
    simp only [hs, hcB, hcA, Option.bind_some, getViewRec_norm, hv, Option.map_some]
    rcases hn with hn | hn
    · subst hn
      rw [hb] at hi
      cases hi
      exact key b hbl rfl
    · subst hn
      rw [he] at hi
      cases hi
      exact key e hel rfl
  · rw [if_neg hcond, if_neg hcond]

/-- the elements of flat structures do not change: only offsets inside the text of the sofa are converted -/
theorem elemOf_norm {K : Consts} {ts : TypeSystem} {cassA cassB : List Cas} {c : Cas} {ci : Nat} {H : Heap}
    (hcA : cassA[ci]? = some c) (hcB : cassB[ci]? = some (normCas c))
    (hconv : ∀ nv ∈ c.views, ∀ t, nv.2.sofa.text = some t → ∀ k, k ≤ t.length →
      Offsets.pythonToExternal nv.2.sofa.conv k = Offsets.pythonToExternal (some (Offsets.table t)) k)
    (q : Int × Nat) (hflat : FlatFs K ts c ci H q.2) :
    elemOf ts cassB H q = elemOf ts cassA H q := by
  obtain ⟨o, t, ho, ht, _, _, _, _, _, _, _, _, _, _, _, hfeat, hann⟩ := hflat
  unfold elemOf
  simp only [ho, ht]
  unfold flatJFs
  congr 1
  apply flatMap_congrFix
  intro f hf
  obtain ⟨hres, _, _, _, _, _, _, _, _, _, _, v, hv, hcase⟩ := hfeat f hf
  unfold jmemF
  rw [hv, Option.getD_some]
  rcases hcase with ⟨_, ⟨vn, rfl, hsome⟩ | ⟨rfl, _⟩⟩ | ⟨_, _, hp⟩ | ⟨_, _, _, _, _, _, _, hr⟩
  · unfold jmem
    simp only [hcB, hcA, Option.bind_some, getViewRec_norm]
    cases hview : Cas.getViewRec c vn with
    | none => rfl
    | some view => rfl
  · rfl
  · rcases hp with rfl | ⟨_, i, rfl⟩ | ⟨_, s, rfl⟩ | ⟨_, b, rfl⟩ | ⟨_, t, rfl⟩
    · rfl
    · unfold jmem
      simp only
      rw [Json.extInt_xmlName cassB _ o f hres, Json.extInt_xmlName cassA _ o f hres,
        extInt_norm hcA hcB hconv hann f.name i hv]
    · rfl
    · rfl
    · rfl
  · rcases hr with rfl | ⟨b, rfl, _⟩
    · rfl
    · rfl

end Cassis.Chain
