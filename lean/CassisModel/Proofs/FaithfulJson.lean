/-
C04, faithfulness of the JSON writer on the flat fragment (`Properties/C04FaithfulJson.lean`): two CASes that are written
to the same JSON document have the same content.

Method as for XMI (`Proofs/Faithful.lean`, `Proofs/FaithfulPad.lean`): both written heaps are padded by blank objects to a
common length and the document is loaded over one base heap of that length.  The layers of the JSON round trip
(`Proofs/RoundTripJsonCore.lean`) know the written heap `H` only through its length (the `k`-th structure of the document
is built at `H.length + k`) and its contents, and the sofa pass starts from any heap; `load_base` reassembles them over
a base heap `hb` of the length of `H`.  The ids are read off the document (`docIds`).
-/
import CassisModel.Proofs.FaithfulPad
import CassisModel.Proofs.RoundTripJson
import CassisModel.Proofs.RoundTripJsonDemo

namespace Cassis.Json
open Cassis.TS Cassis.Traverse Cassis.Lex Cassis.Xmi Cassis.Xmi.RTB

namespace Faithful

/-! ### the ids of the structures of a document -/

/-- the ids of the elements of the document that are not sofas -/
def docIds (fss : List JFs) : List (Option Int) := (fss.filter (fun e => e.ty != SOFA)).map (·.id)

theorem docIds_eq (hp : Heap) (views : List (String × View)) (L : List (Int × Nat)) (el : Int × Nat → JFs)
    (hel : ∀ q ∈ L, (el q).ty ≠ SOFA ∧ (el q).id = some q.1) :
    docIds (views.map (fun p => renderSofa hp p.2.sofa) ++ L.map el) = (L.map (·.1)).map some := by
  unfold docIds
  rw [List.filter_append]
  have h1 : (views.map (fun p => renderSofa hp p.2.sofa)).filter (fun e => e.ty != SOFA) = [] := by
    rw [List.filter_eq_nil_iff]
    intro e he
    obtain ⟨nv, _, rfl⟩ := List.mem_map.mp he
    simp [renderSofa]
  have h2 : (L.map el).filter (fun e => e.ty != SOFA) = L.map el := by
    rw [List.filter_eq_self]
    intro e he
    obtain ⟨q, hq, rfl⟩ := List.mem_map.mp he
    simpa using (hel q hq).1
  rw [h1, h2, List.nil_append, List.map_map, List.map_map]
  apply List.map_congr_left
  intro q hq
  exact (hel q hq).2

theorem map_some_inj : ∀ {l l' : List Int}, l.map some = l'.map some → l = l'
  | [], [], _ => rfl
  | [], _ :: _, h => by cases h
  | _ :: _, [], h => by cases h
  | a :: l, b :: l', h => by
    rw [List.map_cons, List.map_cons] at h
    obtain ⟨h1, h2⟩ := List.cons.inj h
    rw [Option.some.inj h1, map_some_inj h2]

/-- the position of an id depends on the ids only -/
theorem posOf_congr (x : Int) : ∀ {L L' : List (Int × Nat)}, L.map (·.1) = L'.map (·.1) → posOf x L = posOf x L'
  | [], [], _ => rfl
  | [], _ :: _, h => by cases h
  | _ :: _, [], h => by cases h
  | q :: L, q' :: L', h => by
    rw [List.map_cons, List.map_cons] at h
    obtain ⟨h1, h2⟩ := List.cons.inj h
    unfold posOf
    rw [h1, posOf_congr x h2]

/-! ### the written document over the padded heap -/

theorem jmem_pad (cass : List Cas) (H : Heap) (n : Nat) (isAnn : Bool) (o : Obj) (k : String) (v : Val) :
    jmem cass (H ++ Pad.pad n) isAnn o k v = jmem cass H isAnn o k v := by
  cases v <;> simp only [jmem, Pad.xidOf_pad]

theorem flatJFs_pad (ts : TypeSystem) (cass : List Cas) (H : Heap) (n : Nat) (x : Int) (o : Obj) (t : TypeRec) :
    flatJFs ts cass (H ++ Pad.pad n) x o t = flatJFs ts cass H x o t := by
  unfold flatJFs jmemF
  simp only [jmem_pad]

theorem elemOf_pad (ts : TypeSystem) (cass : List Cas) {H : Heap} (n : Nat) {q : Int × Nat} {o : Obj}
    (ho : H[q.2]? = some o) : elemOf ts cass (H ++ Pad.pad n) q = elemOf ts cass H q := by
  unfold elemOf
  rw [Pad.get_some n ho, ho]
  dsimp only
  cases find? ts o.ty with
  | none => rfl
  | some t => exact flatJFs_pad ts cass H n q.1 o t

theorem jviewH_pad (H : Heap) (n : Nat) (nv : String × View) : jviewH (H ++ Pad.pad n) nv = jviewH H nv := by
  unfold jviewH
  rw [Pad.pviewOf_pad]

theorem jsonFs_pad {ts : TypeSystem} {H : Heap} (n : Nat) {a : Nat} {o : Obj} (ho : H[a]? = some o)
    (h : JsonFs ts H a) : JsonFs ts (H ++ Pad.pad n) a := by
  intro o' t ho' ht
  have := Pad.get_eq n ho ho'
  subst this
  exact h o' t ho ht

theorem featContent_pad (H : Heap) (n : Nat) (a : Nat) (k : String) :
    featContent (H ++ Pad.pad n) a k = featContent H a k := by
  unfold featContent
  rw [Pad.slot_pad]
  cases (Xmi.slot H a k).getD .none <;> simp only [dvalOf, Pad.xidOf_pad]

theorem gctx_pad {K : Consts} {ts : TypeSystem} {cass : List Cas} {c : Cas} {ci : Nat} {hp H : Heap}
    {L : List (Int × Nat)} (n : Nat) (g : GCtx K ts cass c ci hp H L) : GCtx K ts cass c ci hp (H ++ Pad.pad n) L := by
  refine ⟨g.hc, g.wf, Xmi.Faithful.lok_append (Pad.pad n) g.lok, g.dis, fun q hq => ?_⟩
  obtain ⟨o, _, ho, _⟩ := g.lok.flat q hq
  exact jsonFs_pad n ho (g.json q hq)

/-! ### the reader over a base heap of the length of the written heap -/

/-- the passes of the reader (cf. `json_core`) on the document written from `H`, over a base heap `hb` as long as `H` -/
theorem load_base (K : Consts) (ts : TypeSystem) (cass : List Cas) (ci : Nat) (c : Cas) (hp H hb : Heap)
    (L : List (Int × Nat)) (tsIdx ci' : Nat) (doc : JDoc)
    (g : GCtx K ts cass c ci hp H L)
    (hdfss : doc.fss = c.views.map (fun p => renderSofa hp p.2.sofa) ++ L.map (elemOf ts cass H))
    (hviews : doc.views = c.views.map (jviewH H))
    (hlen : hb.length = H.length)
    (hmem : ∀ nv ∈ c.views, ∀ e ∈ Index.all nv.2.idx, Xmi.slot H e.oid "sofa" ≠ some .none)
    (hmok : MembersOk c H) :
    ∃ ld : Loaded, loadJson K ts tsIdx ci' false false hb doc = .ok ld ∧
      HeapRel H L (naOf H L) (E3 H (naOf H L) ci') ld.heap ∧
      ld.cas.views.map (viewContent ld.heap) = c.views.map (viewContent H) := by
  have hwf := g.wf
  have hL := g.lok
  -- the sofa pass
  obtain ⟨s1, hs1, h1heap, h1fss, h1def, h1views, _, _, _⟩ :=
    sofaPass_flat K ts tsIdx ci' c hp hb hwf (L.map (elemOf ts cass H)) doc.fss (by
      intro e he
      obtain ⟨q, hq, rfl⟩ := List.mem_map.mp he
      obtain ⟨o, t, _, _, he', hns⟩ := elemOf_flat g q hq
      rw [he']; exact hns)
  -- the structure pass
  have inv0 : FInv c H L ci' s1.cas s1.maxNum s1.maxId [] s1 := by
    refine ⟨rfl, rfl, by rw [h1heap, hlen]; rfl, by rw [h1fss]; unfold fsEntries; simp, ⟨Int.le_refl _, ?_⟩, ?_, ?_⟩
    · intro q hq; cases hq
    · intro q hq; cases hq
    · intro d hd; rw [h1def] at hd; cases hd
  obtain ⟨s2, hs2, inv⟩ := fsPass_flat g tsIdx ci' s1.cas h1views s1.maxNum s1.maxId L [] s1 rfl inv0
  -- the deferred references
  have hfss : ∀ q ∈ L, lookup s2.fss q.1 = some (.ref (naOf H L q.1)) := by
    intro q hq
    rw [inv.fss, lookup_append]
    have : lookup (sofaEntries ci' c.views) q.1 = none := by
      apply lookup_none_of_not_mem
      rw [sofaEntries_keys]
      intro hin
      obtain ⟨nv, hnv, e⟩ := List.mem_map.mp hin
      exact g.dis q hq nv hnv e.symm
    rw [this]
    apply lookup_of_mem_nodup
    · rw [fsEntries_keys]; exact hL.nodup
    · unfold fsEntries
      exact List.mem_map.mpr ⟨q, hq, rfl⟩
  obtain ⟨HF, hfix, hrel⟩ := fixUps_flat g ci' s2.fss hfss s2.deferred s2.heap inv.defs inv.rel
  -- the views pass
  obtain ⟨v, hvp, hvheap, _, _, _, hvcontent⟩ :=
    viewsPass_flat K ts c ci H L (naOf H L) ci' hwf.names hwf.names_nodup
      hL hmem hmok HF hrel s2.fss hfss { s2.cas with nextXid := s2.maxId + 1, nextSofaNum := s2.maxNum + 1 }
      (by show s2.cas.views = _; rw [inv.cas]; exact h1views)
  have hload : loadJson K ts tsIdx ci' false false hb doc = .ok { ts := ts, cas := v.cas, heap := v.heap } := by
    unfold loadJson loadTs
    simp only [Bool.false_eq_true, if_false]
    rw [hdfss] at hs1
    rw [hdfss, hs1]
    dsimp only
    rw [fsPass_skip_sofas tsIdx _ s1 _ (by
      intro e he
      obtain ⟨nv, _, rfl⟩ := List.mem_map.mp he
      rfl), hs2]
    dsimp only
    rw [hfix]
    dsimp only
    rw [hviews, hvp]
  refine ⟨_, hload, ?_, ?_⟩
  · show HeapRel _ _ _ _ v.heap
    rw [hvheap]; exact hrel
  · show v.cas.views.map (viewContent v.heap) = _
    rw [hvheap]; exact hvcontent

/-- the round trip of a CAS written in `H`, the document being read over a base heap as long as `H` padded by `n`
    blank objects; the structure with id `x` is built at `hb.length + posOf x L` -/
theorem concl_pad (K : Consts) (ts : TypeSystem) (cass : List Cas) (ci : Nat) (c : Cas) (hp H hb : Heap) (n : Nat)
    (L : List (Int × Nat)) (tsIdx ci' : Nat) (doc : JDoc)
    (g : GCtx K ts cass c ci hp H L)
    (hdfss : doc.fss = c.views.map (fun p => renderSofa hp p.2.sofa) ++ L.map (elemOf ts cass H))
    (hviews : doc.views = c.views.map (jviewH H))
    (hlen : hb.length = H.length + n)
    (hmem : ∀ nv ∈ c.views, ∀ e ∈ Index.all nv.2.idx, Xmi.slot H e.oid "sofa" ≠ some .none)
    (hmok : MembersOk c H) :
    ∃ ld : Loaded, loadJson K ts tsIdx ci' false false hb doc = .ok ld ∧
      docIds doc.fss = (L.map (·.1)).map some ∧
      (∀ q ∈ L, ∃ (o o' : Obj), H[q.2]? = some o ∧ ld.heap[hb.length + posOf q.1 L]? = some o' ∧ o'.ty = o.ty ∧
          ∀ t : TypeRec, find? ts o.ty = some t → ∀ f ∈ allFeatures t,
            featContent ld.heap (hb.length + posOf q.1 L) f.name = featContent H q.2 f.name) ∧
      ld.cas.views.map (viewContent ld.heap) = c.views.map (viewContent H) := by
  have hL := g.lok
  have hids : docIds doc.fss = (L.map (·.1)).map some := by
    rw [hdfss]
    apply docIds_eq
    intro q hq
    obtain ⟨o, t, _, _, he, hns⟩ := elemOf_flat g q hq
    rw [he]
    exact ⟨hns, rfl⟩
  have g' := gctx_pad n g
  have hdfss' : doc.fss = c.views.map (fun p => renderSofa hp p.2.sofa) ++ L.map (elemOf ts cass (H ++ Pad.pad n)) := by
    rw [hdfss]
    congr 1
    apply List.map_congr_left
    intro q hq
    obtain ⟨o, _, ho, _⟩ := hL.flat q hq
    exact (elemOf_pad ts cass n ho).symm
  have hviews' : doc.views = c.views.map (jviewH (H ++ Pad.pad n)) := by
    rw [hviews]
    apply List.map_congr_left
    intro nv _
    exact (jviewH_pad H n nv).symm
  obtain ⟨ld, hload, hrel, hvc⟩ :=
    load_base K ts cass ci c hp (H ++ Pad.pad n) hb L tsIdx ci' doc g' hdfss' hviews'
      (by rw [Pad.length_pad]; exact hlen) (Pad.hmem_pad n hmem) (Pad.membersOk_pad n hmok)
  have hna : ∀ x, naOf (H ++ Pad.pad n) L x = hb.length + posOf x L := by
    intro x
    unfold naOf
    rw [Pad.length_pad, hlen]
  have hL' := g'.lok
  have hxid : ∀ q ∈ L, xidOf ld.heap (naOf (H ++ Pad.pad n) L q.1) = some q.1 := by
    intro q hq
    obtain ⟨o, o', _, ho', _, hx, _⟩ := hrel q hq
    unfold xidOf; rw [ho']; exact hx
  refine ⟨ld, hload, hids, ?_, ?_⟩
  · intro q hq
    obtain ⟨o, o', ho, ho', hty, _, _, hslots⟩ := hrel q hq
    obtain ⟨oH, _, hoH, _⟩ := hL.flat q hq
    have := Pad.get_eq n hoH ho
    subst this
    rw [hna] at ho'
    refine ⟨o, o', hoH, ho', hty, ?_⟩
    intro t ht f hf
    rw [← hna, ← featContent_pad H n q.2 f.name]
    obtain ⟨o2, t2, ho2, ht2, _, _, _, _, _, _, _, _, _, _, _, hfeat, _⟩ := hL'.flat q hq
    rw [ho] at ho2; cases ho2
    rw [ht] at ht2; cases ht2
    have hff := hfeat f hf
    obtain ⟨_, _, _, _, _, _, _, _, _, _, _, v, hv, _⟩ := hfeat f hf
    have h1 : featContent (H ++ Pad.pad n) q.2 f.name = dvalOf (H ++ Pad.pad n) v := by
      unfold featContent Xmi.slot Traverse.slot
      rw [ho]; simp only [Option.bind_some, hv, Option.getD_some]
    have h2 : featContent ld.heap (naOf (H ++ Pad.pad n) L q.1) f.name =
        dvalOf ld.heap (exp3 (H ++ Pad.pad n) (naOf (H ++ Pad.pad n) L) ci' v) := by
      unfold featContent Xmi.slot Traverse.slot
      rw [← hna] at ho'
      rw [ho']; simp only [Option.bind_some, hslots f.name v hv, Option.getD_some, E3]
    rw [h1, h2]
    apply dval_exp3 hff v hv
    intro b hb
    subst hb
    obtain ⟨x, hxb, hxl⟩ := hL'.closed q hq o ho f.name b hv
    exact ⟨x, hxb, hxid (x, b) hxl⟩
  · rw [hvc]
    apply List.map_congr_left
    intro nv _
    exact Pad.viewContent_pad H n nv

end Faithful

/-- **faithfulness of the JSON writer on the flat fragment**: the same document, hence the same content -/
theorem saveJson_faithful_flat_aux (K : Consts) (ts : TypeSystem)
    (cass₁ cass₂ : List Cas) (ci₁ ci₂ : Nat) (c₁ c₂ : Cas) (hp₁ hp₂ : Heap) (doc : JDoc) (st₁ st₂ : St)
    (hc₁ : cass₁[ci₁]? = some c₁) (hwf₁ : RTWf c₁ hp₁) (hsave₁ : saveJson K ts cass₁ ci₁ hp₁ .none = .ok (doc, st₁))
    (hflat₁ : ∀ q ∈ st₁.allFs, FlatFs K ts c₁ ci₁ st₁.heap q.2)
    (hjson₁ : ∀ q ∈ st₁.allFs, JsonFs ts st₁.heap q.2)
    (hids₁ : ∀ nv ∈ c₁.views, ∀ e ∈ Index.all nv.2.idx, (xidOf hp₁ e.oid).isSome = true)
    (hdis₁ : ∀ q ∈ st₁.allFs, ∀ nv ∈ c₁.views, q.1 ≠ nv.2.sofa.xid)
    (hmem₁ : ∀ nv ∈ c₁.views, ∀ e ∈ Index.all nv.2.idx, Xmi.slot st₁.heap e.oid "sofa" ≠ some .none)
    (hmok₁ : MembersOk c₁ st₁.heap)
    (hc₂ : cass₂[ci₂]? = some c₂) (hwf₂ : RTWf c₂ hp₂) (hsave₂ : saveJson K ts cass₂ ci₂ hp₂ .none = .ok (doc, st₂))
    (hflat₂ : ∀ q ∈ st₂.allFs, FlatFs K ts c₂ ci₂ st₂.heap q.2)
    (hjson₂ : ∀ q ∈ st₂.allFs, JsonFs ts st₂.heap q.2)
    (hids₂ : ∀ nv ∈ c₂.views, ∀ e ∈ Index.all nv.2.idx, (xidOf hp₂ e.oid).isSome = true)
    (hdis₂ : ∀ q ∈ st₂.allFs, ∀ nv ∈ c₂.views, q.1 ≠ nv.2.sofa.xid)
    (hmem₂ : ∀ nv ∈ c₂.views, ∀ e ∈ Index.all nv.2.idx, Xmi.slot st₂.heap e.oid "sofa" ≠ some .none)
    (hmok₂ : MembersOk c₂ st₂.heap) :
    (sortById st₁.allFs).map (·.1) = (sortById st₂.allFs).map (·.1) ∧
    (∀ q₁ ∈ st₁.allFs, ∀ q₂ ∈ st₂.allFs, q₁.1 = q₂.1 →
      ∃ o₁ o₂ : Obj, st₁.heap[q₁.2]? = some o₁ ∧ st₂.heap[q₂.2]? = some o₂ ∧ o₁.ty = o₂.ty ∧
        ∀ t : TypeRec, find? ts o₁.ty = some t → ∀ f ∈ allFeatures t,
          featContent st₁.heap q₁.2 f.name = featContent st₂.heap q₂.2 f.name) ∧
    c₁.views.map (viewContent st₁.heap) = c₂.views.map (viewContent st₂.heap) := by
  obtain ⟨_, _, _, _, g₁, hdf₁, hdv₁, _⟩ :=
    json_core K ts cass₁ ci₁ c₁ hp₁ 0 0 doc st₁ hc₁ hwf₁ hsave₁ hflat₁ hjson₁ hids₁ hdis₁ hmem₁ hmok₁
  obtain ⟨_, _, _, _, g₂, hdf₂, hdv₂, _⟩ :=
    json_core K ts cass₂ ci₂ c₂ hp₂ 0 0 doc st₂ hc₂ hwf₂ hsave₂ hflat₂ hjson₂ hids₂ hdis₂ hmem₂ hmok₂
  -- both documents are read over the same base heap, as long as both padded heaps
  obtain ⟨ld, hload, hi₁, hq₁, hv₁⟩ :=
    Faithful.concl_pad K ts cass₁ ci₁ c₁ hp₁ st₁.heap (st₁.heap ++ st₂.heap) st₂.heap.length (sortById st₁.allFs)
      0 0 doc g₁ hdf₁ hdv₁ (by rw [List.length_append]) hmem₁ hmok₁
  obtain ⟨ld', hload', hi₂, hq₂, hv₂⟩ :=
    Faithful.concl_pad K ts cass₂ ci₂ c₂ hp₂ st₂.heap (st₁.heap ++ st₂.heap) st₁.heap.length (sortById st₂.allFs)
      0 0 doc g₂ hdf₂ hdv₂ (by rw [List.length_append, Nat.add_comm]) hmem₂ hmok₂
  rw [hload] at hload'
  cases hload'
  have hids : (sortById st₁.allFs).map (·.1) = (sortById st₂.allFs).map (·.1) :=
    Faithful.map_some_inj (hi₁.symm.trans hi₂)
  refine ⟨hids, ?_, ?_⟩
  · intro q₁ hm₁ q₂ hm₂ hid
    obtain ⟨o₁, o₁', ho₁, ho₁', hty₁, hfc₁⟩ := hq₁ q₁ (mem_sortById.mpr hm₁)
    obtain ⟨o₂, o₂', ho₂, ho₂', hty₂, hfc₂⟩ := hq₂ q₂ (mem_sortById.mpr hm₂)
    have hpos : posOf q₁.1 (sortById st₁.allFs) = posOf q₂.1 (sortById st₂.allFs) := by
      rw [hid]; exact Faithful.posOf_congr q₂.1 hids
    rw [hpos, ho₂'] at ho₁'
    cases ho₁'
    have hty : o₁.ty = o₂.ty := hty₁.symm.trans hty₂
    refine ⟨o₁, o₂, ho₁, ho₂, hty, ?_⟩
    intro t ht f hf
    have e₁ := hfc₁ t ht f hf
    rw [hpos] at e₁
    exact e₁.symm.trans (hfc₂ t (by rw [← hty]; exact ht) f hf)
  · rw [← hv₁, hv₂]

end Cassis.Json
