/-
Element-order independence of the XMI reader on the whole format: the first pass over ANY permutation of the written
document (`pass1_permC`).

As in `LoadPermPass1.lean` the elements of the document are tagged (`ItemC`): an object element (the `cas:NULL` element
or the element of a collected structure), a sofa element or a view element.  With collections one structure element may
produce several heap objects — objects without id for inlined string arrays / string lists, then the object itself —
and what it produces depends on the heap it is parsed on (the addresses inside the list nodes), so an object item only
records what `parseFsElem` does on ANY heap (`ItemC.Ok`, cf. `Elem1Stmt`); the new addresses are read off the id table
the loop builds (`CAS.naOf`, as in `pass1_coll`).
-/
import CassisModel.Proofs.LoadPermCollDefs
import CassisModel.Proofs.LoadPermPass1
import CassisModel.Proofs.RoundTripCollAsm

namespace Cassis.Xmi.LPC
open Cassis.TS Cassis.Traverse Cassis.Lex Cassis.Xmi Cassis.Xmi.LP Cassis.Xmi.CAS

set_option linter.unusedSimpArgs false

/-! ### tagged elements -/

inductive ItemC where
  | obj (x : Int) (e : XElem)
  | sofa (nv : String × View)
  | view (nv : String × View)

def ItemC.elem (H : Heap) : ItemC → XElem
  | .obj _ e => e
  | .sofa nv => renderSofa nv.2.sofa
  | .view nv => renderView H nv.2

def ItemC.okey : ItemC → Option Int
  | .obj x _ => some x
  | .sofa _ => none
  | .view _ => none

def ItemC.sofaE : ItemC → Option (Int × PSofa)
  | .obj _ _ => none
  | .sofa nv => some (nv.2.sofa.xid, psofaOf nv)
  | .view _ => none

def ItemC.viewE (H : Heap) : ItemC → Option (Int × PView)
  | .obj _ _ => none
  | .sofa _ => none
  | .view nv => some (nv.2.sofa.xid, pviewOf H nv)

/-- the reader turns the element of an object item, on any heap, into some objects without id followed by an object
    that satisfies `R` -/
def ItemC.Ok (K : Consts) (ts : TypeSystem) (tsIdx : Nat) (R : Int → Heap → Obj → Prop) : ItemC → Prop
  | .obj x e => e.ty ≠ SOFA ∧ e.ty ≠ VIEW_T ∧
      ∀ hpCur : Heap, ∃ (ext : List Obj) (o1 : Obj),
        parseFsElem K ts tsIdx hpCur e = .ok (hpCur ++ ext ++ [o1], x, (hpCur ++ ext).length) ∧
        (∀ ob ∈ ext, ob.xid = none) ∧ R x (hpCur ++ ext ++ [o1]) o1
  | .sofa _ => True
  | .view _ => True

/-! ### the first pass over a list of items -/

theorem pass1_itemsC (K : Consts) (ts : TypeSystem) (tsIdx : Nat) (H : Heap) (R : Int → Heap → Obj → Prop)
    (hR : ∀ x hpX o1 (tl : List Obj), R x hpX o1 → R x (hpX ++ tl) o1) : ∀ (its : List ItemC) (s : Pass1),
    (∀ it ∈ its, it.Ok K ts tsIdx R) →
    (s.fss.map (·.1) ++ its.filterMap ItemC.okey).Nodup →
    (s.sofas.map (·.1) ++ (its.filterMap ItemC.sofaE).map (·.1)).Nodup →
    (s.views.map (·.1) ++ (its.filterMap (ItemC.viewE H)).map (·.1)).Nodup →
    ∃ (tl : List Obj) (A : List (Int × Nat)) (m m' : Int),
      pass1 K ts tsIdx false (its.map (ItemC.elem H)) s = .ok
        { s with heap := s.heap ++ tl, fss := s.fss ++ A, sofas := s.sofas ++ its.filterMap ItemC.sofaE,
                 views := s.views ++ its.filterMap (ItemC.viewE H), maxId := m, maxNum := m' } ∧
      A.map (·.1) = its.filterMap ItemC.okey ∧
      (∀ p ∈ A, s.heap.length ≤ p.2) ∧
      (∀ p ∈ A, ∀ p' ∈ A, p.2 = p'.2 → p.1 = p'.1) ∧
      (∀ x e, ItemC.obj x e ∈ its → ∃ (a : Nat) (o1 : Obj), (x, a) ∈ A ∧ (s.heap ++ tl)[a]? = some o1 ∧
        R x (s.heap ++ tl) o1)
  | [], s, _, _, _, _ =>
    ⟨[], [], s.maxId, s.maxNum, by simp [pass1_nil], rfl, fun _ h => (by cases h), fun _ h => (by cases h),
      fun _ _ h => (by cases h)⟩
  | .obj x e :: r, s, hok, hf, hs, hv => by
    obtain ⟨h1, h2, h3⟩ := hok _ List.mem_cons_self
    obtain ⟨ext, o1, hparse, _, hR1⟩ := h3 s.heap
    have e1 : (ItemC.obj x e :: r).filterMap ItemC.okey = x :: r.filterMap ItemC.okey := by
      simp [List.filterMap_cons, ItemC.okey]
    rw [e1] at hf
    obtain ⟨hx, hf'⟩ := nodup_mid hf
    have hstep := step1_fsC K ts tsIdx e s _ x _ h1 h2 hparse hx
    obtain ⟨tl, A, m, m', hm, hkeys, hge, hinj, hobjs⟩ := pass1_itemsC K ts tsIdx H R hR r
      { s with heap := s.heap ++ ext ++ [o1], fss := s.fss ++ [(x, (s.heap ++ ext).length)], maxId := max s.maxId x }
      (fun it hit => hok it (List.mem_cons_of_mem _ hit))
      (by simpa using hf')
      (by simpa [List.filterMap_cons, ItemC.sofaE] using hs)
      (by simpa [List.filterMap_cons, ItemC.viewE] using hv)
    dsimp only at hm hge hobjs
    have heq : s.heap ++ (ext ++ [o1] ++ tl) = s.heap ++ ext ++ [o1] ++ tl := by
      simp only [List.append_assoc]
    have hlen1 : (s.heap ++ ext).length < (s.heap ++ ext ++ [o1]).length := by
      rw [List.length_append (as := s.heap ++ ext), List.length_singleton]; omega
    have hlen0 : s.heap.length ≤ (s.heap ++ ext).length := by
      rw [List.length_append]; omega
    refine ⟨ext ++ [o1] ++ tl, (x, (s.heap ++ ext).length) :: A, m, m', ?_, ?_, ?_, ?_, ?_⟩
    · rw [List.map_cons, pass1_cons]
      show (step1 K ts tsIdx false e s).bind _ = _
      rw [hstep]
      show pass1 K ts tsIdx false (r.map (ItemC.elem H)) _ = _
      rw [hm]
      simp [List.filterMap_cons, ItemC.sofaE, ItemC.viewE]
    · rw [List.map_cons, e1, hkeys]
    · intro p hp
      rcases List.mem_cons.1 hp with rfl | hp
      · exact hlen0
      · exact Nat.le_trans (Nat.le_trans hlen0 (Nat.le_of_lt hlen1)) (hge p hp)
    · intro p hp p' hp' he
      rcases List.mem_cons.1 hp with rfl | hp <;> rcases List.mem_cons.1 hp' with rfl | hp'
      · rfl
      · have := hge p' hp'
        dsimp only at he
        omega
      · have := hge p hp
        dsimp only at he
        omega
      · exact hinj p hp p' hp' he
    · intro x' e' hmem
      rw [heq]
      rcases List.mem_cons.1 hmem with hc | hmem
      · cases hc
        exact ⟨_, o1, List.mem_cons_self, getElem?_block s.heap ext o1 tl, hR _ _ _ tl hR1⟩
      · obtain ⟨a, o1', hmemA, hget, hr⟩ := hobjs x' e' hmem
        exact ⟨a, o1', List.mem_cons_of_mem _ hmemA, hget, hr⟩
  | .sofa nv :: r, s, hok, hf, hs, hv => by
    have e1 : ((ItemC.sofa nv :: r).filterMap ItemC.sofaE).map (·.1) =
        nv.2.sofa.xid :: (r.filterMap ItemC.sofaE).map (·.1) := by
      simp [List.filterMap_cons, ItemC.sofaE]
    rw [e1] at hs
    obtain ⟨hx, hs'⟩ := nodup_mid hs
    have hstep := step1_sofa' K ts tsIdx nv s hx
    obtain ⟨tl, A, m, m', hm, hkeys, hge, hinj, hobjs⟩ := pass1_itemsC K ts tsIdx H R hR r
      { s with sofas := s.sofas ++ [(nv.2.sofa.xid, psofaOf nv)], maxId := max s.maxId nv.2.sofa.xid,
               maxNum := max s.maxNum nv.2.sofa.sofaNum }
      (fun it hit => hok it (List.mem_cons_of_mem _ hit))
      (by simpa [List.filterMap_cons, ItemC.okey] using hf)
      (by simpa using hs')
      (by simpa [List.filterMap_cons, ItemC.viewE] using hv)
    dsimp only at hm hge hobjs
    refine ⟨tl, A, m, m', ?_, ?_, hge, hinj, ?_⟩
    · rw [List.map_cons, pass1_cons]
      show (step1 K ts tsIdx false (renderSofa nv.2.sofa) s).bind _ = _
      rw [hstep]
      show pass1 K ts tsIdx false (r.map (ItemC.elem H)) _ = _
      rw [hm]
      simp [List.filterMap_cons, ItemC.sofaE, ItemC.viewE]
    · rw [hkeys]; simp [List.filterMap_cons, ItemC.okey]
    · intro x' e' hmem
      exact hobjs x' e' (by simpa using hmem)
  | .view nv :: r, s, hok, hf, hs, hv => by
    have e1 : ((ItemC.view nv :: r).filterMap (ItemC.viewE H)).map (·.1) =
        nv.2.sofa.xid :: (r.filterMap (ItemC.viewE H)).map (·.1) := by
      simp [List.filterMap_cons, ItemC.viewE]
    rw [e1] at hv
    obtain ⟨hx, hv'⟩ := nodup_mid hv
    have hstep := step1_view K ts tsIdx H nv s hx
    obtain ⟨tl, A, m, m', hm, hkeys, hge, hinj, hobjs⟩ := pass1_itemsC K ts tsIdx H R hR r
      { s with views := s.views ++ [(nv.2.sofa.xid, pviewOf H nv)] }
      (fun it hit => hok it (List.mem_cons_of_mem _ hit))
      (by simpa [List.filterMap_cons, ItemC.okey] using hf)
      (by simpa [List.filterMap_cons, ItemC.sofaE] using hs)
      (by simpa using hv')
    dsimp only at hm hge hobjs
    refine ⟨tl, A, m, m', ?_, ?_, hge, hinj, ?_⟩
    · rw [List.map_cons, pass1_cons]
      show (step1 K ts tsIdx false (renderView H nv.2) s).bind _ = _
      rw [hstep]
      show pass1 K ts tsIdx false (r.map (ItemC.elem H)) _ = _
      rw [hm]
      simp [List.filterMap_cons, ItemC.sofaE, ItemC.viewE]
    · rw [hkeys]; simp [List.filterMap_cons, ItemC.okey]
    · intro x' e' hmem
      exact hobjs x' e' (by simpa using hmem)

/-! ### the items of the written document -/

/-- the object the reader makes from the element with id `x`: the `cas:NULL` object or the counterpart (`Obj1`) of a
    collected structure -/
def RC (K : Consts) (ts : TypeSystem) (cass : List Cas) (H : Heap) (L : List (Int × Nat)) (x : Int) (hpX : Heap)
    (o1 : Obj) : Prop :=
  (x = 0 ∧ o1.ty = NULL_T ∧ o1.xid = some 0 ∧ o1.slots = []) ∨
  (∃ q ∈ L, q.1 = x ∧ ∃ o : Obj, H[q.2]? = some o ∧ Obj1 K ts cass H hpX o o1 x)

theorem RC.mono {K : Consts} {ts : TypeSystem} {cass : List Cas} {H : Heap} {L : List (Int × Nat)} (x : Int)
    (hpX : Heap) (o1 : Obj) (tl : List Obj) (h : RC K ts cass H L x hpX o1) : RC K ts cass H L x (hpX ++ tl) o1 := by
  rcases h with h | ⟨q, hq, e, o, ho, hobj⟩
  · exact .inl h
  · exact .inr ⟨q, hq, e, o, ho, hobj.frz (Frz.append _ tl)⟩

/-- what is known about the tagged elements of (a permutation of) the written document -/
structure ItemsOkC (K : Consts) (ts : TypeSystem) (cass : List Cas) (c : Cas) (H : Heap) (L : List (Int × Nat))
    (tsIdx : Nat) (its : List ItemC) : Prop where
  keys : (its.filterMap ItemC.okey).Perm (0 :: L.map (·.1))
  sofas : (its.filterMap ItemC.sofaE).Perm (c.views.map (fun nv => (nv.2.sofa.xid, psofaOf nv)))
  views : (its.filterMap (ItemC.viewE H)).Perm (c.views.map (fun nv => (nv.2.sofa.xid, pviewOf H nv)))
  ok : ∀ it ∈ its, it.Ok K ts tsIdx (RC K ts cass H L)
  null : ∃ e0 : XElem, ItemC.obj 0 e0 ∈ its
  mem : ∀ q ∈ L, ∃ e : XElem, ItemC.obj q.1 e ∈ its

theorem ItemsOkC.perm {K : Consts} {ts : TypeSystem} {cass : List Cas} {c : Cas} {H : Heap} {L : List (Int × Nat)}
    {tsIdx : Nat} {its its' : List ItemC} (h : ItemsOkC K ts cass c H L tsIdx its) (hp : its'.Perm its) :
    ItemsOkC K ts cass c H L tsIdx its' where
  keys := (hp.filterMap _).trans h.keys
  sofas := (hp.filterMap _).trans h.sofas
  views := (hp.filterMap _).trans h.views
  ok := fun it hit => h.ok it (hp.mem_iff.mp hit)
  null := by
    obtain ⟨e0, hm⟩ := h.null
    exact ⟨e0, hp.mem_iff.mpr hm⟩
  mem := by
    intro q hq
    obtain ⟨e, hm⟩ := h.mem q hq
    exact ⟨e, hp.mem_iff.mpr hm⟩

theorem pair_items (K : Consts) (ts : TypeSystem) (cass : List Cas) (H : Heap) (L : List (Int × Nat)) (tsIdx : Nat) :
    ∀ (Ls : List (Int × Nat)) (es : List XElem), (∀ q ∈ Ls, q ∈ L) → Pair (ElemC K ts cass H tsIdx) Ls es →
    ∃ its : List ItemC, its.map (ItemC.elem H) = es ∧ its.filterMap ItemC.okey = Ls.map (·.1) ∧
      its.filterMap ItemC.sofaE = [] ∧ its.filterMap (ItemC.viewE H) = [] ∧
      (∀ it ∈ its, it.Ok K ts tsIdx (RC K ts cass H L)) ∧ ∀ q ∈ Ls, ∃ e : XElem, ItemC.obj q.1 e ∈ its
  | [], [], _, _ => by
    refine ⟨[], rfl, rfl, rfl, rfl, ?_, ?_⟩
    · intro it h; cases h
    · intro q h; cases h
  | q :: Ls, e :: es, hsub, h => by
    obtain ⟨⟨h1, h2, o, ho, h3⟩, ht⟩ := h
    obtain ⟨its, a1, a2, a3, a4, a5, a6⟩ := pair_items K ts cass H L tsIdx Ls es
      (fun q' hq' => hsub q' (List.mem_cons_of_mem _ hq')) ht
    refine ⟨.obj q.1 e :: its, ?_, ?_, ?_, ?_, ?_, ?_⟩
    · rw [List.map_cons, a1]; rfl
    · simp [List.filterMap_cons, ItemC.okey, a2]
    · simp [List.filterMap_cons, ItemC.sofaE, a3]
    · simp [List.filterMap_cons, ItemC.viewE, a4]
    · intro it hit
      rcases List.mem_cons.mp hit with rfl | hit
      · refine ⟨h1, h2, fun hpCur => ?_⟩
        obtain ⟨ext, o1, g1, g2, g3⟩ := h3 hpCur
        exact ⟨ext, o1, g1, g2, .inr ⟨q, hsub q List.mem_cons_self, rfl, o, ho, g3⟩⟩
      · exact a5 it hit
    · intro q' hq'
      rcases List.mem_cons.mp hq' with rfl | hq'
      · exact ⟨e, List.mem_cons_self⟩
      · obtain ⟨e', hm⟩ := a6 q' hq'
        exact ⟨e', List.mem_cons_of_mem _ hm⟩
  | [], _ :: _, _, h => by cases h
  | _ :: _, [], _, h => by cases h

/-- the written document is a list of items -/
theorem items_of_docC (K : Consts) (ts : TypeSystem) (cass : List Cas) (ci : Nat) (c : Cas) (hp : Heap) (tsIdx : Nat)
    (doc : XDoc) (st : St) (hc : cass[ci]? = some c)
    (hsave : saveXmi K ts cass ci hp = .ok (doc, st)) (hnull : NullOk ts)
    (hL : LOkC K ts c ci st.heap (sortById st.allFs))
    (helem : Elem1Stmt K ts cass st.heap tsIdx (CollFs K ts c ci st.heap)) :
    ∃ its : List ItemC, doc = its.map (ItemC.elem st.heap) ∧
      ItemsOkC K ts cass c st.heap (sortById st.allFs) tsIdx its := by
  obtain ⟨fsElems, hr, hdoc⟩ := saveXmi_doc K ts cass ci c hp doc st hc hsave
  generalize hLd : sortById st.allFs = L at hL hr ⊢
  generalize hHd : st.heap = H at hL hr hdoc helem ⊢
  obtain ⟨es, hes, hpair⟩ := renderAll_pair K ts cass H tsIdx _ helem L hL.coll (fun q hq => (hL.ids q hq).1)
  rw [hr] at hes
  cases hes
  obtain ⟨o0, h0ty, h0x, h0s, h0p⟩ := null_elem K ts tsIdx hnull
  obtain ⟨itsF, f1, f2, f3, f4, f5, f6⟩ := pair_items K ts cass H L tsIdx L fsElems (fun _ h => h) hpair
  have s1 : (c.views.map ItemC.sofa).map (ItemC.elem H) = c.views.map (fun p => renderSofa p.2.sofa) := by
    rw [List.map_map]; rfl
  have v1 : (c.views.map ItemC.view).map (ItemC.elem H) = c.views.map (fun p => renderView H p.2) := by
    rw [List.map_map]; rfl
  have s2 := filterMap_map_none ItemC.sofa ItemC.okey (fun _ => rfl) c.views
  have v2 := filterMap_map_none ItemC.view ItemC.okey (fun _ => rfl) c.views
  have s3 := filterMap_map_some ItemC.sofa ItemC.sofaE (fun nv => (nv.2.sofa.xid, psofaOf nv)) (fun _ => rfl) c.views
  have v3 := filterMap_map_none ItemC.view ItemC.sofaE (fun _ => rfl) c.views
  have s4 := filterMap_map_none ItemC.sofa (ItemC.viewE H) (fun _ => rfl) c.views
  have v4 := filterMap_map_some ItemC.view (ItemC.viewE H) (fun nv => (nv.2.sofa.xid, pviewOf H nv)) (fun _ => rfl)
    c.views
  refine ⟨ItemC.obj 0 { ty := NULL_T, attrs := [(ID, "0")] } ::
    (itsF ++ (c.views.map ItemC.sofa ++ c.views.map ItemC.view)), ?_, ?_, ?_, ?_, ?_, ?_, ?_⟩
  · rw [hdoc, List.map_cons, List.map_append, List.map_append, f1, s1, v1]
    simp [ItemC.elem]
  · rw [List.filterMap_cons, List.filterMap_append, List.filterMap_append, f2, s2, v2]
    simp [ItemC.okey]
  · rw [List.filterMap_cons, List.filterMap_append, List.filterMap_append, f3, s3, v3]
    simp [ItemC.sofaE]
  · rw [List.filterMap_cons, List.filterMap_append, List.filterMap_append, f4, s4, v4]
    simp [ItemC.viewE]
  · intro it hit
    rcases List.mem_cons.mp hit with rfl | hit
    · refine ⟨by decide, by decide, fun hpCur => ⟨[], o0, ?_, fun _ h => (by cases h), .inl ⟨rfl, h0ty, h0x, h0s⟩⟩⟩
      rw [List.append_nil]
      exact h0p hpCur
    · rcases List.mem_append.mp hit with hit | hit
      · exact f5 it hit
      · rcases List.mem_append.mp hit with hit | hit
        · obtain ⟨nv, _, rfl⟩ := List.mem_map.mp hit
          trivial
        · obtain ⟨nv, _, rfl⟩ := List.mem_map.mp hit
          trivial
  · exact ⟨_, List.mem_cons_self⟩
  · intro q hq
    obtain ⟨e, hm⟩ := f6 q hq
    exact ⟨e, List.mem_cons_of_mem _ (List.mem_append_left _ hm)⟩

/-! ### the first pass over any list of items that is a permutation of the items of the written document -/

theorem pass1_of_itemsC (K : Consts) (ts : TypeSystem) (cass : List Cas) (c : Cas) (H : Heap)
    (L : List (Int × Nat)) (tsIdx : Nat) (its : List ItemC) (hnd : (c.views.map (·.2.sofa.xid)).Nodup)
    (hL : IdsOk L) (h : ItemsOkC K ts cass c H L tsIdx its) :
    ∃ (na : Int → Nat) (n0 : Nat) (p : Pass1), pass1 K ts tsIdx false (its.map (ItemC.elem H)) { heap := H } = .ok p ∧
      NaOkP n0 L na ∧ P1WP c H L na n0 p ∧ HeapRelP H L na (Obj1 K ts cass H p.heap) p.heap := by
  have hk0 : ((0 : Int) :: L.map (·.1)).Nodup := by
    rw [List.nodup_cons]
    refine ⟨?_, hL.nodup⟩
    intro h0
    obtain ⟨q, hq, e⟩ := List.mem_map.mp h0
    exact hL.ne0 q hq e
  have hkn : (its.filterMap ItemC.okey).Nodup := h.keys.nodup_iff.mpr hk0
  have hsn : ((its.filterMap ItemC.sofaE).map (·.1)).Nodup := by
    rw [(h.sofas.map (·.1)).nodup_iff, List.map_map]
    exact hnd
  have hvn : ((its.filterMap (ItemC.viewE H)).map (·.1)).Nodup := by
    rw [(h.views.map (·.1)).nodup_iff, List.map_map]
    exact hnd
  obtain ⟨tl, A, m, m', hrun, hkeys, _, hinj, hobjs⟩ := pass1_itemsC K ts tsIdx H (RC K ts cass H L) RC.mono its
    { heap := H } h.ok (by simpa using hkn) (by simpa using hsn) (by simpa using hvn)
  dsimp only at hrun hobjs
  have hAn : (A.map (·.1)).Nodup := by rw [hkeys]; exact hkn
  have hA : A = (A.map (·.1)).map (fun x => (x, naOf A x)) := by
    have := naOf_table A A hAn rfl
    rw [List.map_map]
    exact this
  -- the entries of the table
  obtain ⟨e0, hm0⟩ := h.null
  obtain ⟨a0, o0, hmA0, hget0, hr0⟩ := hobjs 0 e0 hm0
  have hna0 : naOf A 0 = a0 := naOf_mem A hAn 0 a0 hmA0
  have hq : ∀ q ∈ L, ∃ (o o1 : Obj), (q.1, naOf A q.1) ∈ A ∧ H[q.2]? = some o ∧ (H ++ tl)[naOf A q.1]? = some o1 ∧
      Obj1 K ts cass H (H ++ tl) o o1 q.1 := by
    intro q hq
    obtain ⟨e, hme⟩ := h.mem q hq
    obtain ⟨a, o1, hmA, hget, hr⟩ := hobjs q.1 e hme
    have hna : naOf A q.1 = a := naOf_mem A hAn q.1 a hmA
    rcases hr with ⟨e0, _⟩ | ⟨q', hq', e', o, ho, hobj⟩
    · exact absurd e0 (hL.ne0 q hq)
    · have : q' = q := nodup_map_inj (fun q : Int × Nat => q.1) hL.nodup q' hq' q hq e'
      subst this
      exact ⟨o, o1, by rw [hna]; exact hmA, ho, by rw [hna]; exact hget, hobj⟩
  refine ⟨naOf A, naOf A 0, _, hrun, ⟨?_, ?_⟩, ⟨?_, h.sofas, h.views, rfl, ?_⟩, ?_⟩
  · intro q hq1 q' hq2 e
    obtain ⟨_, _, m1, _⟩ := hq q hq1
    obtain ⟨_, _, m2, _⟩ := hq q' hq2
    exact hinj (q.1, naOf A q.1) m1 (q'.1, naOf A q'.1) m2 e
  · intro q hq1 e
    obtain ⟨_, _, m1, _⟩ := hq q hq1
    have := hinj (0, a0) hmA0 (q.1, naOf A q.1) m1 (by rw [← hna0]; exact e)
    exact hL.ne0 q hq1 this.symm
  · show ([] ++ A).Perm _
    rw [List.nil_append]
    have h1 := h.keys.map (fun x => (x, naOf A x))
    rw [← hkeys, ← hA, List.map_cons, List.map_map] at h1
    exact h1
  · rcases hr0 with ⟨_, r⟩ | ⟨q', hq', e', _⟩
    · exact ⟨o0, by rw [hna0]; exact hget0, r⟩
    · exact absurd e' (hL.ne0 q' hq')
  · intro q hq1
    obtain ⟨o, o1, _, ho, ho1, hobj⟩ := hq q hq1
    exact ⟨o, o1, ho, ho1, hobj⟩

theorem pass1_permC (K : Consts) (ts : TypeSystem) (cass : List Cas) (ci : Nat) (c : Cas) (hp : Heap) (tsIdx : Nat)
    (doc doc' : XDoc) (st : St) (hc : cass[ci]? = some c) (hnd : (c.views.map (·.2.sofa.xid)).Nodup)
    (hsave : saveXmi K ts cass ci hp = .ok (doc, st)) (hnull : NullOk ts)
    (hL : LOkC K ts c ci st.heap (sortById st.allFs))
    (helem : Elem1Stmt K ts cass st.heap tsIdx (CollFs K ts c ci st.heap)) (hperm : doc'.Perm doc) :
    ∃ (na : Int → Nat) (n0 : Nat) (p : Pass1), pass1 K ts tsIdx false doc' { heap := st.heap } = .ok p ∧
      NaOkP n0 (sortById st.allFs) na ∧ P1WP c st.heap (sortById st.allFs) na n0 p ∧
      HeapRelP st.heap (sortById st.allFs) na (Obj1 K ts cass st.heap p.heap) p.heap := by
  obtain ⟨its, hdoc, hits⟩ := items_of_docC K ts cass ci c hp tsIdx doc st hc hsave hnull hL helem
  rw [hdoc] at hperm
  obtain ⟨its', hp', hdoc'⟩ := perm_map_inv (ItemC.elem st.heap) doc' its hperm
  rw [hdoc']
  exact pass1_of_itemsC K ts cass c st.heap _ tsIdx its' hnd (idsOk_of_lokC hL) (hits.perm hp')

end Cassis.Xmi.LPC
