/-
Round trip with collections, layer G1: the first pass on one general structure (`gen_elem1`).
Writer layer: `RoundTripCollElemGenW.lean`; reader layer: `RoundTripCollElemGenR.lean`; shared definitions:
`RoundTripCollElemGenDefs.lean`.
-/
import CassisModel.Proofs.RoundTripCollElemGenDefs
import CassisModel.Proofs.RoundTripCollElemGenW
import CassisModel.Proofs.RoundTripCollElemGenR
import CassisModel.Proofs.RoundTripCollElemGenRen

namespace Cassis.Xmi.CG1
open Cassis.TS Cassis.Traverse Cassis.Lex

/-! ### the contributions as functions of the feature, read off the writer -/

def fAttr (K : Consts) (ts : TypeSystem) (cass : List Cas) (H : Heap) (a : Nat) (isAnn : Bool) (f : Feature) :
    Option String :=
  match renderFeature K ts cass H a isAnn f with
  | .ok (as, _) => as.head?.map (·.2)
  | .error _ => none

def fKids (K : Consts) (ts : TypeSystem) (cass : List Cas) (H : Heap) (a : Nat) (isAnn : Bool) (f : Feature) :
    List (Option String) :=
  match renderFeature K ts cass H a isAnn f with
  | .ok (_, ks) => ks.map (·.2)
  | .error _ => []

theorem fAttr_of {K : Consts} {ts : TypeSystem} {cass : List Cas} {H : Heap} {a : Nat} {isAnn : Bool} {f : Feature}
    {av : Option String} {ks : List (Option String)}
    (h : renderFeature K ts cass H a isAnn f = .ok (featOut f av ks)) : fAttr K ts cass H a isAnn f = av := by
  unfold fAttr; rw [h]; unfold featOut
  cases av <;> rfl

theorem fKids_of {K : Consts} {ts : TypeSystem} {cass : List Cas} {H : Heap} {a : Nat} {isAnn : Bool} {f : Feature}
    {av : Option String} {ks : List (Option String)}
    (h : renderFeature K ts cass H a isAnn f = .ok (featOut f av ks)) : fKids K ts cass H a isAnn f = ks := by
  unfold fKids; rw [h]; unfold featOut
  dsimp only
  rw [List.map_map]
  exact List.map_id _

theorem renderFeatures_gen (K : Consts) (ts : TypeSystem) (cass : List Cas) (H : Heap) (a : Nat) (isAnn : Bool) :
    ∀ (fs : List Feature),
      (∀ f ∈ fs, ∃ av ks, renderFeature K ts cass H a isAnn f = .ok (featOut f av ks)) →
      renderFeatures K ts cass H a isAnn fs =
        .ok (gAttrsW (fAttr K ts cass H a isAnn) fs, gKidsW (fKids K ts cass H a isAnn) fs)
  | [], _ => rfl
  | f :: fs, h => by
    obtain ⟨av, ks, hr⟩ := h f List.mem_cons_self
    rw [renderFeatures, hr, renderFeatures_gen K ts cass H a isAnn fs (fun g hg => h g (List.mem_cons_of_mem _ hg))]
    show _ = Except.ok ((match fAttr K ts cass H a isAnn f with | some s => [(xmlName f, s)] | none => []) ++
        gAttrsW (fAttr K ts cass H a isAnn) fs,
      (fKids K ts cass H a isAnn f).map (fun e => (xmlName f, e)) ++ gKidsW (fKids K ts cass H a isAnn) fs)
    rw [fAttr_of hr, fKids_of hr]
    rfl

theorem renderFs_gen (K : Consts) (ts : TypeSystem) (cass : List Cas) (H : Heap) (a : Nat) (x : Int)
    (o : Obj) (t : TypeRec) (ho : H[a]? = some o) (ht : find? ts o.ty = some t)
    (hx : o.xid = some x) (hpa : isPrimitiveArray K o.ty = false) (hfa : o.ty ≠ FS_ARRAY)
    (hf : ∀ f ∈ allFeatures t, ∃ av ks,
      renderFeature K ts cass H a (isInstanceOf ts o.ty ANNOTATION) f = .ok (featOut f av ks)) :
    renderFs K ts cass H a = .ok (gElemW o.ty x (fAttr K ts cass H a (isInstanceOf ts o.ty ANNOTATION))
      (fKids K ts cass H a (isInstanceOf ts o.ty ANNOTATION)) (allFeatures t)) := by
  have hgt : getType ts o.ty = .ok t := by unfold getType; rw [ht]
  have hfa' : (o.ty == FS_ARRAY) = false := by simp [hfa]
  unfold renderFs
  simp only [ho, pure, Except.pure, bind, Except.bind, hpa, hfa', Bool.or_self, Bool.false_eq_true, if_false, hgt,
    renderFeatures_gen K ts cass H a _ (allFeatures t) hf, hx]
  rfl

/-! ### the written element and the element under the stored names -/

theorem gAttrsW_ren (ca : Feature → Option String) :
    ∀ (fs : List Feature), (∀ f ∈ fs, ResOk f ∧ f.name ≠ "self" ∧ f.name ≠ "type") →
      renKeys (gAttrsW ca fs) = gAttrs ca fs
  | [], _ => rfl
  | f :: fs, h => by
    obtain ⟨h1, h2, h3⟩ := h f List.mem_cons_self
    unfold gAttrsW gAttrs renKeys
    rw [List.map_append]
    congr 1
    · cases ca f with
      | none => rfl
      | some s =>
        show [(renRes (xmlName f), s)] = [(f.name, s)]
        rw [renRes_xmlName f h1 h2 h3]
    · exact gAttrsW_ren ca fs (fun g hg => h g (List.mem_cons_of_mem _ hg))

theorem gKidsW_ren (ck : Feature → List (Option String)) :
    ∀ (fs : List Feature), (∀ f ∈ fs, ResOk f ∧ f.name ≠ "self" ∧ f.name ≠ "type") →
      renKeys (gKidsW ck fs) = gKids ck fs
  | [], _ => rfl
  | f :: fs, h => by
    obtain ⟨h1, h2, h3⟩ := h f List.mem_cons_self
    unfold gKidsW gKids renKeys
    rw [List.map_append, List.map_map]
    congr 1
    · apply List.map_congr_left
      intro e _
      show (renRes (xmlName f), e) = (f.name, e)
      rw [renRes_xmlName f h1 h2 h3]
    · exact gKidsW_ren ck fs (fun g hg => h g (List.mem_cons_of_mem _ hg))

theorem gAttrsW_keys (ca : Feature → Option String) :
    ∀ (fs : List Feature) (k : String), k ∈ (gAttrsW ca fs).map (·.1) → ∃ f ∈ fs, k = xmlName f
  | [], k, h => by cases h
  | f :: fs, k, h => by
    unfold gAttrsW at h
    rw [List.map_append, List.mem_append] at h
    rcases h with h | h
    · refine ⟨f, List.mem_cons_self, ?_⟩
      cases hc : ca f with
      | none => rw [hc] at h; cases h
      | some s => rw [hc] at h; simpa using h
    · obtain ⟨g, hg, hk⟩ := gAttrsW_keys ca fs k h
      exact ⟨g, List.mem_cons_of_mem _ hg, hk⟩

theorem gKidsW_keys (ck : Feature → List (Option String)) :
    ∀ (fs : List Feature) (k : String), k ∈ (gKidsW ck fs).map (·.1) → ∃ f ∈ fs, k = xmlName f
  | [], k, h => by cases h
  | f :: fs, k, h => by
    unfold gKidsW at h
    rw [List.map_append, List.mem_append] at h
    rcases h with h | h
    · refine ⟨f, List.mem_cons_self, ?_⟩
      rw [List.map_map] at h
      obtain ⟨e, _, he⟩ := List.mem_map.mp h
      exact he.symm
    · obtain ⟨g, hg, hk⟩ := gKidsW_keys ck fs k h
      exact ⟨g, List.mem_cons_of_mem _ hg, hk⟩

/-- reading the written element is reading the element under the stored names -/
theorem parse_gElemW (K : Consts) (ts : TypeSystem) (tsIdx : Nat) (hp : Heap) (ty : String) (x : Int)
    (ca : Feature → Option String) (ck : Feature → List (Option String)) (fs : List Feature)
    (hnd : (fs.map (·.name)).Nodup)
    (h : ∀ f ∈ fs, ResOk f ∧ f.name ≠ "self" ∧ f.name ≠ "type" ∧ f.name ≠ ID) :
    parseFsElem K ts tsIdx hp (gElemW ty x ca ck fs) = parseFsElem K ts tsIdx hp (gElem ty x ca ck fs) := by
  have h' : ∀ f ∈ fs, ResOk f ∧ f.name ≠ "self" ∧ f.name ≠ "type" :=
    fun f hf => ⟨(h f hf).1, (h f hf).2.1, (h f hf).2.2.1⟩
  have hren : renElem (gElemW ty x ca ck fs) = gElem ty x ca ck fs := by
    unfold renElem gElemW gElem
    simp only [renKeys_cons, gAttrsW_ren ca fs h', gKidsW_ren ck fs h']
    congr 2
  rw [← hren]
  symm
  apply parseFsElem_ren
  -- every name of the element is the id or the written name of a feature
  have hkey : ∀ k ∈ (gElemW ty x ca ck fs).attrs.map (·.1) ++ (gElemW ty x ca ck fs).kids.map (·.1),
      k = ID ∨ ∃ f ∈ fs, k = xmlName f := by
    intro k hk
    unfold gElemW at hk
    simp only [List.map_cons, List.cons_append, List.mem_cons, List.mem_append] at hk
    rcases hk with hk | hk | hk
    · exact Or.inl hk
    · exact Or.inr (gAttrsW_keys ca fs k hk)
    · exact Or.inr (gKidsW_keys ck fs k hk)
  intro k hk k' hk' he
  rcases hkey k hk with rfl | ⟨f, hf, rfl⟩ <;> rcases hkey k' hk' with rfl | ⟨g, hg, rfl⟩
  · rfl
  · rw [renRes_xmlName g (h g hg).1 (h g hg).2.1 (h g hg).2.2.1, (renRes_id ID).mpr rfl] at he
    exact absurd he.symm (h g hg).2.2.2
  · rw [renRes_xmlName f (h f hf).1 (h f hf).2.1 (h f hf).2.2.1, (renRes_id ID).mpr rfl] at he
    exact absurd he (h f hf).2.2.2
  · rw [renRes_xmlName f (h f hf).1 (h f hf).2.1 (h f hf).2.2.1,
      renRes_xmlName g (h g hg).1 (h g hg).2.1 (h g hg).2.2.1] at he
    rw [feat_inj_of_nodup fs hnd f hf g hg he]

/-! ### what is known per feature -/

/-- the facts about one feature `f` of the structure `o`: slot value `v`, contribution `av`/`ks` -/
def FeatCase (K : Consts) (ts : TypeSystem) (cass : List Cas) (c : Cas) (ci : Nat) (H : Heap) (isAnn : Bool) (o : Obj)
    (f : Feature) (v : Val) (av : Option String) (ks : List (Option String)) : Prop :=
  (FlatFeat K ts c ci H isAnn o f ∧ av = flatTok cass H isAnn o f.name v ∧ ks = [])
  ∨ (NameOk f ∧ f.multi = some true ∧ (v = .none ∨ ∃ b : Nat, v = .ref b) ∧
      av = flatTok cass H isAnn o f.name v ∧ ks = [])
  ∨ (NameOk f ∧ isInline K f = true ∧ InlW K H f v av ks)

theorem inline_isInline {K : Consts} {ts : TypeSystem} {H : Heap} {o : Obj} {f : Feature}
    (h : InlineFeat K ts H o f) : isInline K f = true := by
  obtain ⟨hm, v, _, hc⟩ := h
  unfold isInline
  rw [hm]
  rcases hc with ⟨_, rk, _⟩ | ⟨_, rk, _⟩ | ⟨_, rk, _⟩ | ⟨_, rk, _⟩ | ⟨_, rk, _⟩ | ⟨_, rk, _⟩ | ⟨_, rk, _⟩ <;>
    simp only [rk.arr, rk.list, Bool.not_false, Bool.true_and, Bool.or_true, Bool.or_false]

theorem feat_case (K : Consts) (ts : TypeSystem) (cass : List Cas) (c : Cas) (ci : Nat) (H : Heap) (a : Nat)
    (isAnn : Bool) (o : Obj) (f : Feature) (hc : cass[ci]? = some c) (ho : H[a]? = some o)
    (hann : AnnSofa cass isAnn o) (hf : CollFeat K ts c ci H isAnn o f) :
    ∃ (v : Val) (av : Option String) (ks : List (Option String)), alistGet? o.slots f.name = some v ∧
      renderFeature K ts cass H a isAnn f = .ok (featOut f av ks) ∧ FeatCase K ts cass c ci H isAnn o f v av ks := by
  rcases hf with hf | ⟨hn, hs | hi⟩
  · obtain ⟨v, hv, _⟩ := hf.2.2.2.2.2.2.2.2.2.2.2
    refine ⟨v, flatTok cass H isAnn o f.name v, [], hv, ?_, Or.inl ⟨hf, rfl, rfl⟩⟩
    rw [renderFeature_flat K ts cass c ci H a isAnn f o hc ho hf hann, hv]
    rfl
  · obtain ⟨v, hv, hshape, hr⟩ := render_shared K ts cass H a isAnn f o ho hn hs hann
    exact ⟨v, _, [], hv, hr, Or.inr (Or.inl ⟨hn, hs.1, hshape, rfl, rfl⟩)⟩
  · obtain ⟨v, av, ks, hv, hr, hw⟩ := render_inline K ts cass H a isAnn f o ho hn hi hann
    exact ⟨v, av, ks, hv, hr, Or.inr (Or.inr ⟨hn, inline_isInline hi, hw⟩)⟩

/-! ### consequences of `FeatCase` -/

section
variable {K : Consts} {ts : TypeSystem} {cass : List Cas} {c : Cas} {ci : Nat} {H : Heap} {isAnn : Bool} {o : Obj}
  {f : Feature} {v : Val} {av : Option String} {ks : List (Option String)}

theorem FeatCase.names (h : FeatCase K ts cass c ci H isAnn o f v av ks) :
    f.name ≠ ID ∧ f.name ≠ "self" ∧ f.name ≠ "type" := by
  rcases h with ⟨hf, _⟩ | ⟨hn, _⟩ | ⟨hn, _⟩
  · exact ⟨hf.2.2.2.2.1, hf.2.2.2.1, hf.2.2.1⟩
  · exact ⟨hn.2.2.2.2.1, hn.2.2.2.1, hn.2.2.1⟩
  · exact ⟨hn.2.2.2.2.1, hn.2.2.2.1, hn.2.2.1⟩

theorem FeatCase.res (h : FeatCase K ts cass c ci H isAnn o f v av ks) : ResOk f := by
  rcases h with ⟨hf, _⟩ | ⟨hn, _⟩ | ⟨hn, _⟩
  · exact hf.1
  · exact hn.1
  · exact hn.1

theorem InlW.kids (h : InlW K H f v av ks) (hk : ks ≠ []) :
    av = none ∧ (isPrimitiveArray K f.range = true ∨ (isPrimitiveList K f.range = true ∧ f.range = STRING_LIST)) := by
  rcases h with ⟨_, _, h⟩ | ⟨c, _, ⟨s, _, h, _⟩ | ⟨h1, _, _, h2, _⟩ | ⟨h1, _, h2, _, h3, _⟩⟩
  · exact absurd h hk
  · exact absurd h hk
  · exact ⟨h1, Or.inl h2⟩
  · exact ⟨h1, Or.inr ⟨h3, h2⟩⟩

theorem FeatCase.kids (h : FeatCase K ts cass c ci H isAnn o f v av ks) (hk : ks ≠ []) :
    av = none ∧ f.name ≠ "sofa" ∧
      (isPrimitiveArray K f.range = true ∨ (isPrimitiveList K f.range = true ∧ f.range = STRING_LIST)) := by
  rcases h with ⟨_, _, h⟩ | ⟨_, _, _, _, h⟩ | ⟨hn, _, hw⟩
  · exact absurd h hk
  · exact absurd h hk
  · exact ⟨(hw.kids hk).1, hn.2.2.2.2.2, (hw.kids hk).2⟩

theorem FeatCase.sofa (hc : cass[ci]? = some c) (h : FeatCase K ts cass c ci H isAnn o f v av ks)
    (hv : alistGet? o.slots f.name = some v) (hn : f.name = "sofa")
    (s : String) (hs : av = some s) : (parseInt s).isSome = true := by
  rcases h with ⟨hf, hav, _⟩ | ⟨hnm, _⟩ | ⟨hnm, _⟩
  · obtain ⟨v', hv', hcase⟩ := hf.2.2.2.2.2.2.2.2.2.2.2
    rw [hv] at hv'; cases hv'
    rcases hcase with ⟨_, hsofa⟩ | ⟨hne, _⟩ | ⟨hne, _⟩
    · rcases hsofa with ⟨vn, rfl, hsome⟩ | ⟨rfl, _⟩
      · cases hg' : Cas.getViewRec c vn with
        | none => rw [hg'] at hsome; cases hsome
        | some view =>
          have hview : (cass[ci]?).bind (fun c => Cas.getViewRec c vn) = some view := by
            rw [hc]; exact hg'
          rw [hs] at hav
          unfold flatTok at hav
          simp only [hview, Option.map_some, Option.some.injEq] at hav
          rw [hav, parseInt_showInt_aux]; rfl
      · rw [hs] at hav; cases hav
    · exact absurd hn hne
    · exact absurd hn hne
  · exact absurd hn hnm.2.2.2.2.2
  · exact absurd hn hnm.2.2.2.2.2

end

/-! ### `inlineSlot` -/

theorem find_name_nodup : ∀ (fs : List Feature), (fs.map (·.name)).Nodup → ∀ f ∈ fs,
    fs.find? (fun g => g.name == f.name) = some f
  | [], _, f, hf => by cases hf
  | g :: fs, hn, f, hf => by
    rw [List.map_cons, List.nodup_cons] at hn
    by_cases hgf : g.name = f.name
    · rw [List.find?_cons_of_pos (by simp [hgf])]
      rcases List.mem_cons.mp hf with h | h
      · rw [h]
      · exact absurd (hgf ▸ List.mem_map_of_mem h : g.name ∈ fs.map (·.name)) hn.1
    · rw [List.find?_cons_of_neg (by simp [hgf])]
      rcases List.mem_cons.mp hf with h | h
      · exact absurd (by rw [h]) hgf
      · exact find_name_nodup fs hn.2 f h

theorem inlineSlot_eq (K : Consts) (ts : TypeSystem) (o : Obj) (t : TypeRec) (f : Feature)
    (ht : find? ts o.ty = some t) (hnd : (ctorFields t).Nodup) (hf : f ∈ allFeatures t) :
    inlineSlot K ts o f.name = isInline K f := by
  unfold inlineSlot
  rw [ht]
  dsimp only
  rw [find_name_nodup (allFeatures t) hnd f hf]

/-! ### the slot of one feature after the first pass -/

theorem slot1_feat (K : Consts) (ts : TypeSystem) (cass : List Cas) (c : Cas) (ci : Nat) (H hpX : Heap) (o : Obj)
    (t : TypeRec) (f : Feature) (v w : Val) (av : Option String) (ks : List (Option String))
    (A : List (String × String)) (hc : cass[ci]? = some c)
    (ht : find? ts o.ty = some t) (hnd : (ctorFields t).Nodup) (hf : f ∈ allFeatures t)
    (hv : alistGet? o.slots f.name = some v)
    (hcase : FeatCase K ts cass c ci H (isInstanceOf ts o.ty ANNOTATION) o f v av ks)
    (hA : alistGet? A f.name = av)
    (hw1 : ks = [] → w = (alistGet? (mergedOf A) f.name).getD .none)
    (hw2 : ks ≠ [] → KidAt K hpX f ks w) :
    Slot1 K ts cass H hpX o f.name v w := by
  have hin := inlineSlot_eq K ts o t f ht hnd hf
  rcases hcase with ⟨hff, hav, hks⟩ | ⟨hn, hm, hshape, hav, hks⟩ | ⟨hn, hil, hw⟩
  · -- flat
    have hwe : w = E1 ts cass H o f.name v := by
      rw [hw1 hks]
      exact flat_slot_val K ts cass c ci H _ o f A v hc hff hv (by rw [hA, hav])
    obtain ⟨v', hv', hcs⟩ := hff.2.2.2.2.2.2.2.2.2.2.2
    rw [hv] at hv'; cases hv'
    refine ⟨?_, ?_, fun _ _ => hwe⟩
    · intro b hb hi
      rw [hin] at hi
      subst hb
      rcases hcs with ⟨_, ⟨vn, h, _⟩ | ⟨h, _⟩⟩ | ⟨_, _, hprim⟩ | ⟨_, _, har, hli, _⟩
      · cases h
      · cases h
      · rcases hprim with h | ⟨_, i, h⟩ | ⟨_, s, h⟩ | ⟨_, b', h⟩ | ⟨_, t', h⟩ <;> cases h
      · unfold isInline at hi
        rw [har, hli] at hi
        simp at hi
    · intro hl
      rcases hcs with ⟨_, ⟨vn, h, _⟩ | ⟨h, _⟩⟩ | ⟨_, _, hprim⟩ | ⟨_, _, _, _, _, _, _, href⟩
      · subst h; cases hl
      · subst h; cases hl
      · rcases hprim with h | ⟨_, i, h⟩ | ⟨_, s, h⟩ | ⟨_, b', h⟩ | ⟨_, t', h⟩ <;> subst h <;> cases hl
      · rcases href with h | ⟨b, h, _⟩ <;> subst h <;> cases hl
  · -- shared
    have hni : isInline K f = false := by
      unfold isInline; rw [hm]; rfl
    have hwe : w = E1 ts cass H o f.name v := by
      rw [hw1 hks, mergedOf_get_ne A f.name hn.2.2.2.2.2, hA, hav]
      apply exp1_of_flatTok
      intro ci' vn hh
      rcases hshape with h | ⟨b, h⟩ <;> rw [h] at hh <;> cases hh
    refine ⟨?_, ?_, fun _ _ => hwe⟩
    · intro b _ hi
      rw [hin, hni] at hi
      cases hi
    · intro hl
      rcases hshape with h | ⟨b, h⟩ <;> subst h <;> cases hl
  · -- inline
    rcases hw with ⟨rfl, rfl, rfl⟩ | ⟨cc, rfl, hrest⟩
    · refine ⟨fun b hb _ => (by cases hb), fun hl => (by cases hl), fun _ _ => ?_⟩
      rw [hw1 rfl, mergedOf_get_ne A f.name hn.2.2.2.2.2, hA]
      rfl
    · refine ⟨?_, fun hl => (by cases hl), fun hh _ => ?_⟩
      · intro b hb _
        cases hb
        refine ⟨t, f, ht, hf, rfl, ?_⟩
        rcases hrest with ⟨s, rfl, rfl, hR⟩ | ⟨rfl, hk, hr, hpa, l, hsl, hl, rfl⟩ | ⟨rfl, hk, hr, hpa, hpl, hs, hcl, hne, rfl, hheads⟩
        · have : w = .str s := by
            rw [hw1 rfl, mergedOf_get_ne A f.name hn.2.2.2.2.2, hA]; rfl
          rw [this]
          exact hR hpX
        · obtain ⟨addr, hwa, hk2⟩ := hw2 hk
          rcases hk2 with ⟨_, harr⟩ | ⟨hpa', _⟩
          · right; left
            exact ⟨hr, _, hsl, Or.inr ⟨l, addr, rfl, hl, hwa, harr⟩⟩
          · rw [hpa] at hpa'; cases hpa'
        · obtain ⟨addr, hwa, hk2⟩ := hw2 hk
          rcases hk2 with ⟨hpa', _⟩ | ⟨_, hla, hlen⟩
          · rw [hpa] at hpa'; cases hpa'
          · right; right; right; right; left
            rw [hheads] at hla
            rw [List.length_map] at hlen
            exact ⟨hr, hs, addr, hcl, hne, hwa, hla, hlen⟩
      · have := hh cc rfl
        rw [hin, hil] at this
        cases this

/-! ### the main theorem -/

end Cassis.Xmi.CG1

namespace Cassis.Xmi
open Cassis.TS Cassis.Traverse Cassis.Lex CG1

theorem gen_elem1 (K : Consts) (ts : TypeSystem) (cass : List Cas) (ci : Nat) (c : Cas) (H : Heap) (tsIdx : Nat)
    (hc : cass[ci]? = some c) : Elem1Stmt K ts cass H tsIdx (GenFs K ts c ci H) := by
  intro a x hgen hid
  obtain ⟨o, t, ho, ht, htn, _, _, _, hpa, hfa, _, hns, hnv, hnd, hslots, hfeat, hann⟩ := hgen
  have hox : o.xid = some x := by
    unfold xidOf at hid; rw [ho] at hid; exact hid
  have hAnn : AnnSofa cass (isInstanceOf ts o.ty ANNOTATION) o := by
    intro h
    obtain ⟨vn, v, _, _, _, hs, hv, _⟩ := hann h
    exact ⟨ci, vn, v, hs, by rw [hc]; exact hv⟩
  have hgt : getTypeExact ts o.ty = .ok t := by unfold getTypeExact; rw [ht]
  -- per feature
  have hfc : ∀ f ∈ allFeatures t, ∃ (v : Val) (av : Option String) (ks : List (Option String)),
      alistGet? o.slots f.name = some v ∧
      renderFeature K ts cass H a (isInstanceOf ts o.ty ANNOTATION) f = .ok (featOut f av ks) ∧
      FeatCase K ts cass c ci H (isInstanceOf ts o.ty ANNOTATION) o f v av ks :=
    fun f hf => feat_case K ts cass c ci H a _ o f hc ho hAnn (hfeat f hf)
  let ca := fAttr K ts cass H a (isInstanceOf ts o.ty ANNOTATION)
  let ck := fKids K ts cass H a (isInstanceOf ts o.ty ANNOTATION)
  have hfc' : ∀ f ∈ allFeatures t, ∃ v : Val, alistGet? o.slots f.name = some v ∧
      FeatCase K ts cass c ci H (isInstanceOf ts o.ty ANNOTATION) o f v (ca f) (ck f) := by
    intro f hf
    obtain ⟨v, av, ks, hv, hr, hcase⟩ := hfc f hf
    refine ⟨v, hv, ?_⟩
    show FeatCase K ts cass c ci H _ o f v (fAttr K ts cass H a _ f) (fKids K ts cass H a _ f)
    rw [fAttr_of hr, fKids_of hr]
    exact hcase
  have hrok : ROk K t ca ck := by
    refine ⟨hnd, ?_, ?_, ?_, ?_⟩
    · intro f hf
      obtain ⟨v, _, hcase⟩ := hfc' f hf
      exact hcase.names
    · intro f hf hk
      obtain ⟨v, _, hcase⟩ := hfc' f hf
      exact (hcase.kids hk).1
    · intro f hf hk
      obtain ⟨v, _, hcase⟩ := hfc' f hf
      exact (hcase.kids hk).2
    · intro f hf hn s hs
      obtain ⟨v, hv, hcase⟩ := hfc' f hf
      exact hcase.sofa hc hv hn s hs
  refine ⟨o, gElemW o.ty x ca ck (allFeatures t), ho, ?_, hns, hnv, ?_⟩
  · exact renderFs_gen K ts cass H a x o t ho ht hox hpa hfa
      (fun f hf => by obtain ⟨v, av, ks, _, hr, _⟩ := hfc f hf; exact ⟨av, ks, hr⟩)
  · intro hpCur
    obtain ⟨ext, o1, hparse, hext, hty, hxid, hkeys, hslot⟩ := parse_gen K ts tsIdx t x o.ty ca ck hgt hpa hrok hpCur
    rw [← parse_gElemW K ts tsIdx hpCur o.ty x ca ck (allFeatures t) hnd (fun f hf => by
      obtain ⟨v, _, hcase⟩ := hfc' f hf
      exact ⟨hcase.res, hcase.names.2.1, hcase.names.2.2, hcase.names.1⟩)] at hparse
    refine ⟨ext, o1, hparse, hext, ⟨by rw [hty, htn], hxid, by rw [hkeys, hslots], ?_⟩⟩
    intro n v hv
    have hmem : n ∈ ctorFields t := by
      have : n ∈ o.slots.map (·.1) := (Cassis.Cas.alistGet?_isSome_iff o.slots n).mp (by rw [hv]; rfl)
      rw [hslots, List.mem_eraseDups] at this
      exact this
    obtain ⟨f, hf, hfn⟩ := List.mem_map.mp hmem
    subst hfn
    obtain ⟨w, hw, hw1, hw2⟩ := hslot f hf
    obtain ⟨v', hv', hcase⟩ := hfc' f hf
    rw [hv] at hv'; cases hv'
    refine ⟨w, hw, ?_⟩
    exact slot1_feat K ts cass c ci H _ o t f v w (ca f) (ck f) (gAttrs ca (allFeatures t)) hc ht hnd hf hv hcase
      (gAttrs_get ca (allFeatures t) hnd f hf) hw1
      (fun hk => (hw2 hk).frz (Frz.append _ _))

end Cassis.Xmi
