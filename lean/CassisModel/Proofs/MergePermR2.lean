/-
Helper lemmas for `Properties/C13Perm.lean`, part R2: re-parenting a leaf below a descendant of its supertype keeps the
feature bookkeeping invariant.
-/
import CassisModel.Proofs.MergePermR

namespace Cassis.TS

theorem allFeatures_relinkRec (c a x : String) (t : TypeRec) : allFeatures (relinkRec c a x t) = allFeatures t := by
  unfold allFeatures
  rw [relinkRec_own, relinkRec_inh]

theorem featInv_reparent_leaf (ts ts' : TypeSystem) (c a x : String) (t ns : TypeRec)
    (hc : Consistent ts) (hfi : FeatInv ts) (hc' : Consistent ts') (hf : find? ts c = some t)
    (hl : t.children = []) (hsa : t.super = some a) (hns : find? ts x = some ns) (hax : Anc ts a x)
    (hxc : x ≠ c) (h : reparent ts c a x = .ok ts') : FeatInv ts' := by
  obtain ⟨t', ht', hs', _, hown', hoth, hmono, hsrc, hrep, hcl, hnd⟩ :=
    reparent_leaf ts ts' c a x t ns hc.nodup hf hl hns h
  have htm : t ∈ ts.types := find?_mem hf
  obtain ⟨pa, hpa⟩ := (hasExact_iff_find ts a).mp (hc.superReg t htm a hsa)
  -- every record of `ts'` is `t'` or the relinked copy of a record of `ts`
  have hrec : ∀ r ∈ ts'.types, (r.name = c ∧ r = t') ∨
      (r.name ≠ c ∧ ∃ r0, find? ts r.name = some r0 ∧ r = relinkRec c a x r0) := by
    intro r hr
    have hfr := find?_of_mem hc'.nodup hr
    by_cases hrc : r.name = c
    · rw [hrc, ht'] at hfr
      exact Or.inl ⟨hrc, (Option.some.inj hfr).symm⟩
    · rw [hoth r.name hrc] at hfr
      cases hf0 : find? ts r.name with
      | none => rw [hf0] at hfr; cases hfr
      | some r0 =>
        rw [hf0] at hfr
        exact Or.inr ⟨hrc, r0, rfl, (Option.some.inj hfr).symm⟩
  -- no record of `ts` has the leaf as supertype
  have hnoc : ∀ r0 y, find? ts y = some r0 → r0.super ≠ some c := by
    intro r0 y hy hsc
    obtain ⟨ta, hta, hm⟩ := (hc.link c y).mpr ⟨r0, hy, hsc⟩
    rw [hf] at hta; cases hta
    rw [hl] at hm; cases hm
  -- the supertype's record of a relinked record
  have hsupr : ∀ s ps', s ≠ c → find? ts' s = some ps' →
      ∃ ps, find? ts s = some ps ∧ allFeatures ps' = allFeatures ps := by
    intro s ps' hsc hps'
    rw [hoth s hsc] at hps'
    cases hf0 : find? ts s with
    | none => rw [hf0] at hps'; cases hps'
    | some ps =>
      rw [hf0] at hps'
      simp only [Option.map_some, Option.some.injEq] at hps'
      exact ⟨ps, rfl, by rw [← hps', allFeatures_relinkRec]⟩
  have hsuper0 : ∀ r0 : TypeRec, r0.name ≠ c → (relinkRec c a x r0).super = r0.super := by
    intro r0 hr0
    rw [relinkRec_super, if_neg hr0]
  refine ⟨?_, ?_, ?_, ?_, ?_, ?_⟩
  · -- ownNodup
    intro r hr
    rcases hrec r hr with ⟨_, rfl⟩ | ⟨_, r0, hr0, rfl⟩
    · rw [hown']; exact hfi.ownNodup t htm
    · rw [relinkRec_own]; exact hfi.ownNodup r0 (find?_mem hr0)
  · -- inhNodup
    intro r hr
    rcases hrec r hr with ⟨_, rfl⟩ | ⟨_, r0, hr0, rfl⟩
    · exact hnd (hfi.inhNodup t htm)
    · rw [relinkRec_inh]; exact hfi.inhNodup r0 (find?_mem hr0)
  · -- compat
    intro r hr f hfo g hg e
    rcases hrec r hr with ⟨_, rfl⟩ | ⟨_, r0, hr0, rfl⟩
    · rw [hown'] at hfo
      rcases hsrc g hg with hg | hg
      · exact hfi.compat t htm f hfo g hg e
      · have hfind : t.own.find? (·.name == g.name) = some f := by
          rw [← e]; exact find_name_of_mem (hfi.ownNodup t htm) hfo
        exact hcl g hg f hfind
    · rw [relinkRec_own] at hfo
      rw [relinkRec_inh] at hg
      exact hfi.compat r0 (find?_mem hr0) f hfo g hg e
  · -- inherit
    intro r hr s ps' hs hps' n
    rcases hrec r hr with ⟨_, rfl⟩ | ⟨hrc, r0, hr0, rfl⟩
    · rw [hs'] at hs
      cases hs
      obtain ⟨ps, hps, hall⟩ := hsupr x ps' hxc hps'
      rw [hns] at hps; cases hps
      rw [hall]
      constructor
      · intro hn
        obtain ⟨g, hg, hgn⟩ := mem_fnames.mp hn
        rcases hsrc g hg with hg | hg
        · have h1 : n ∈ fnames (allFeatures pa) := by
            rw [← hfi.inherit t htm a pa hsa hpa n]
            exact mem_fnames.mpr ⟨g, hg, hgn⟩
          exact inherited_down_aux ts hfi a x pa ns hax hpa hns n h1
        · exact mem_fnames.mpr ⟨g, hg, hgn⟩
      · intro hn
        obtain ⟨f, hfm, hfn⟩ := mem_fnames.mp hn
        obtain ⟨g, hg, hgn, _⟩ := hrep f hfm
        exact mem_fnames.mpr ⟨g, hg, hgn.trans hfn⟩
    · rw [relinkRec_name] at hrc
      rw [hsuper0 r0 (by rw [find?_name hr0] at *; exact hrc)] at hs
      have hsc : s ≠ c := fun e => hnoc r0 _ hr0 (e ▸ hs)
      obtain ⟨ps, hps, hall⟩ := hsupr s ps' hsc hps'
      rw [hall, relinkRec_inh]
      exact hfi.inherit r0 (find?_mem hr0) s ps hs hps n
  · -- inheritEq
    intro r hr s ps' hs hps' g hg f hfm e
    rcases hrec r hr with ⟨_, rfl⟩ | ⟨hrc, r0, hr0, rfl⟩
    · rw [hs'] at hs
      cases hs
      obtain ⟨ps, hps, hall⟩ := hsupr x ps' hxc hps'
      rw [hns] at hps; cases hps
      rw [hall] at hfm
      obtain ⟨g', hg', hgn', hgf'⟩ := hrep f hfm
      have : g' = g := feat_inj_of_nodup _ (hnd (hfi.inhNodup t htm)) g' hg' g hg (hgn'.trans e)
      rw [this] at hgf'
      exact featureEq_symm hgf'
    · rw [relinkRec_name] at hrc
      rw [hsuper0 r0 (by rw [find?_name hr0] at *; exact hrc)] at hs
      have hsc : s ≠ c := fun e => hnoc r0 _ hr0 (e ▸ hs)
      obtain ⟨ps, hps, hall⟩ := hsupr s ps' hsc hps'
      rw [hall] at hfm
      rw [relinkRec_inh] at hg
      exact hfi.inheritEq r0 (find?_mem hr0) s ps hs hps g hg f hfm e
  · -- rootInh
    intro r hr hs
    rcases hrec r hr with ⟨_, rfl⟩ | ⟨hrc, r0, hr0, rfl⟩
    · rw [hs'] at hs; cases hs
    · rw [relinkRec_name] at hrc
      rw [hsuper0 r0 (by rw [find?_name hr0] at *; exact hrc)] at hs
      rw [relinkRec_inh]
      exact hfi.rootInh r0 (find?_mem hr0) hs

/-- a step that creates `d.name` below `d.super`, or adds features only, leaves the children of every other type alone -/
theorem processDecl_children (K : Consts) (s s' : MState) (d : Decl) (hc : Consistent s.ts) (hf : FeatInv s.ts)
    (h : processDecl K s d = .ok s')
    (hbr : hasExact s.ts d.name = false ∨ ∃ ex, find? s.ts d.name = some ex ∧ ex.super = some d.super)
    (hsup : hasExact s.ts d.super = true)
    (c : String) (t : TypeRec) (hct : find? s.ts c = some t) (hcs : c ≠ d.super) :
    ∃ t', find? s'.ts c = some t' ∧ t'.children = t.children := by
  have key : ∀ (ts1 : TypeSystem) (t1 : TypeRec), Consistent ts1 → find? ts1 c = some t1 →
      addOwnFeatures ts1 d.name d.own = .ok s'.ts → ∃ t', find? s'.ts c = some t' ∧ t'.children = t1.children := by
    intro ts1 t1 hc1 h1 hadd
    have hsk := skel_addOwnFeatures d.name d.own ts1 s'.ts hc1.nodup hadd
    obtain ⟨t', ht', he⟩ := find?_transfer hsk.symm h1
    rw [tr_eq_iff] at he
    exact ⟨t', ht', he.2.2⟩
  rcases hbr with hx | ⟨ex, he, hss⟩
  · obtain ⟨ts1, hct1, hadd⟩ := processDecl_new_aux K s s' d hx h
    obtain ⟨sup, hsupf⟩ := (hasExact_iff_find _ _).mp hsup
    obtain ⟨sup', hsup', _, hshape⟩ := createType_shape K s.ts ts1 d.name d.super d.descr hc hf hx hct1
    rw [getType_of_find hsupf] at hsup'
    have e : sup = sup' := by injection hsup'
    subst e
    have hsn : sup.name = d.super := find?_name hsupf
    have hfind := find_create s.ts s.ts.redeclared d.name sup.name
      { name := d.name, super := some sup.name, descr := d.descr, inh := allFeatures sup } rfl hx c
    have hcn : c ≠ d.name := by
      intro e
      rw [e, find?_none_of_not_has hx] at hct; cases hct
    rw [if_neg hcn, hct, Option.map_some] at hfind
    have hupd : upd sup.name d.name t = t := by
      unfold upd
      have : (t.name == sup.name) = false := by
        rw [find?_name hct, hsn]; simpa using hcs
      simp [this]
    rw [hupd, ← hshape] at hfind
    exact key ts1 t (consistent_createType_aux K s.ts ts1 d.name d.super _ hc hx hct1) hfind hadd
  · exact key s.ts t hc hct (processDecl_same_super_aux K s s' d ex he hss h)

theorem mem_merged_step {s s' : MState} {d : Decl}
    (hm : s'.merged = (if s.merged.contains d.name then s.merged else s.merged ++ [d.name])) (x : String) :
    x ∈ s'.merged ↔ x ∈ s.merged ∨ x = d.name := by
  rw [hm]
  split
  · rename_i hcn
    have : d.name ∈ s.merged := by simpa using hcn
    constructor
    · exact Or.inl
    · rintro (h | rfl)
      · exact h
      · exact this
  · simp

/-! ### Frames: what a step leaves alone -/

theorem addOwn_frame (ts ts' : TypeSystem) (n : String) (fs : List Feature) (hc : Consistent ts)
    (h : addOwnFeatures ts n fs = .ok ts') :
    (∀ y, hasExact ts' y = hasExact ts y) ∧
    (∀ y t, find? ts y = some t → ∃ t', find? ts' y = some t' ∧ t'.children = t.children ∧ t'.super = t.super) := by
  have hsk := skel_addOwnFeatures n fs ts ts' hc.nodup h
  refine ⟨fun y => hasExact_transfer hsk y, ?_⟩
  intro y t hy
  obtain ⟨t', ht', he⟩ := find?_transfer hsk.symm hy
  rw [tr_eq_iff] at he
  exact ⟨t', ht', he.2.2, he.2.1⟩

theorem create_frame (K : Consts) (ts ts' : TypeSystem) (n s : String) (dsc : Option String) (sup : TypeRec)
    (hc : Consistent ts) (hf : FeatInv ts) (hnew : hasExact ts n = false) (hsupf : find? ts s = some sup)
    (h : createType K ts n s dsc = .ok ts') :
    (∀ y, hasExact ts' y = true → hasExact ts y = true ∨ y = n) ∧
    (∃ t', find? ts' n = some t' ∧ t'.children = []) ∧
    (∀ y t, find? ts y = some t → y ≠ s → ∃ t', find? ts' y = some t' ∧ t'.children = t.children) := by
  obtain ⟨sup', hsup', _, hshape⟩ := createType_shape K ts ts' n s dsc hc hf hnew h
  rw [getType_of_find hsupf] at hsup'
  have e : sup = sup' := by injection hsup'
  subst e
  have hsn : sup.name = s := find?_name hsupf
  have hfind := find_create ts ts.redeclared n sup.name
    { name := n, super := some sup.name, descr := dsc, inh := allFeatures sup } rfl hnew
  rw [← hshape] at hfind
  refine ⟨?_, ⟨_, by rw [hfind n, if_pos rfl], rfl⟩, ?_⟩
  · intro y hy
    by_cases hyn : y = n
    · exact Or.inr hyn
    · left
      obtain ⟨t', ht'⟩ := (hasExact_iff_find _ _).mp hy
      rw [hfind y, if_neg hyn] at ht'
      cases hfy : find? ts y with
      | none => rw [hfy] at ht'; cases ht'
      | some t => exact (hasExact_iff_find _ _).mpr ⟨t, hfy⟩
  · intro y t hy hys
    have hyn : y ≠ n := by
      intro e
      rw [e, find?_none_of_not_has hnew] at hy; cases hy
    refine ⟨upd sup.name n t, by rw [hfind y, if_neg hyn, hy]; rfl, ?_⟩
    unfold upd
    have : (t.name == sup.name) = false := by
      rw [find?_name hy, hsn]; simpa using hys
    simp [this]

/-! ### The ancestor relation after re-parenting a leaf below a descendant of its supertype -/

theorem anc_reparent_leaf (ts ts1 : TypeSystem) (n c x : String) (t t' : TypeRec) (hc : Consistent ts)
    (hf : find? ts n = some t) (hl : t.children = []) (hts : t.super = some c) (hcx : Anc ts c x) (hxn : x ≠ n)
    (ht' : find? ts1 n = some t') (hs' : t'.super = some x)
    (hoth : ∀ y, y ≠ n → find? ts1 y = (find? ts y).map (relinkRec n c x)) :
    ∀ a b, Anc ts a b → Anc ts1 a b := by
  have hreg1 : ∀ y, hasExact ts y = true → hasExact ts1 y = true := by
    intro y hy
    by_cases hyn : y = n
    · rw [hyn]; exact (hasExact_iff_find _ _).mpr ⟨t', ht'⟩
    · obtain ⟨r0, hr0⟩ := (hasExact_iff_find _ _).mp hy
      exact (hasExact_iff_find _ _).mpr ⟨_, by rw [hoth y hyn, hr0]; rfl⟩
  -- chains that do not end in the leaf
  have avoid : ∀ a b, Anc ts a b → b ≠ n → Anc ts1 a b := by
    intro a b h
    induction h with
    | refl ha => intro _; exact Anc.refl _ (hreg1 _ ha)
    | step b s tb hfb hsb _ ih =>
      intro hbn
      have hsn : s ≠ n := by
        intro e
        obtain ⟨ta, hta, hm⟩ := (hc.link n b).mpr ⟨tb, hfb, by rw [← e]; exact hsb⟩
        rw [hf] at hta; cases hta
        rw [hl] at hm; cases hm
      refine Anc.step a b s (relinkRec n c x tb) (by rw [hoth b hbn, hfb]; rfl) ?_ (ih hsn)
      rw [relinkRec_super, if_neg (by rw [find?_name hfb]; exact hbn)]
      exact hsb
  have hcn : c ≠ n := by
    intro e
    exact not_anc_of_super hc hf hts (by rw [e]; exact Anc.refl _ ((hasExact_iff_find _ _).mpr ⟨t, hf⟩))
  intro a b h
  by_cases hbn : b = n
  · subst hbn
    rcases h.inv hf with e | ⟨s, hs, has⟩
    · rw [e]; exact Anc.refl _ ((hasExact_iff_find _ _).mpr ⟨t', ht'⟩)
    · rw [hts] at hs
      cases hs
      exact Anc.step a b x t' ht' hs' ((avoid a _ has hcn).trans (avoid _ x hcx hxn))
  · exact avoid a b h hbn

end Cassis.TS
