/-
Helper lemmas for `Properties/C09DocJson.lean`, part 4: a document without a member `@xmiID` keeps the id of every
structure to the end of the load (`loadJson_keeps_ids`).
-/
import CassisModel.Proofs.JsonIdsLoad

namespace Cassis.Json.Ids
open Cassis.TS Cassis.Lex Cassis.Xmi

/-! ### the slots of deferred references -/

theorem key_xmiID (k : String) (h1 : k.startsWith "@" = true)
    (h2 : renameReserved (String.ofList (k.toList.drop 1)) = "xmiID") : k = "@xmiID" := by
  have h3 : String.ofList (k.toList.drop 1) = "xmiID" := by
    unfold renameReserved at h2
    split at h2
    · exact absurd h2 (by decide)
    · split at h2
      · exact absurd h2 (by decide)
      · exact h2
  have h4 : k.toList.drop 1 = "xmiID".toList := by rw [← h3, String.toList_ofList]
  simp at h1
  cases hk : k.toList with
  | nil => rw [hk] at h1; simp at h1
  | cons c r =>
    rw [hk] at h1 h4
    simp at h1 h4
    have : k.toList = "@xmiID".toList := by rw [hk, ← h1, h4]; rfl
    exact String.toList_inj.mp this

theorem resolveRefs_deferred (rename : String → String) (fss : List (Int × Val)) (addr : Nat)
    (l : List (String × JV)) : ∀ (heap : Heap) (d : List Deferred) (heap' : Heap) (d' : List Deferred),
      resolveRefs rename fss addr l (heap, d) = .ok (heap', d') →
      ∀ x ∈ d', x ∈ d ∨ ∃ p ∈ l, x.slot = rename (String.ofList (p.1.toList.drop 1)) := by
  induction l with
  | nil =>
    intro heap d heap' d' h x hx
    rw [resolveRefs] at h
    cases h
    exact Or.inl hx
  | cons p rest ih =>
    intro heap d heap' d' h x hx
    rw [resolveRefs] at h
    split at h
    · split at h
      · cases h
      · rcases ih _ _ _ _ h x hx with h1 | ⟨q, hq, e⟩
        · exact Or.inl h1
        · exact Or.inr ⟨q, List.mem_cons_of_mem _ hq, e⟩
    · rcases ih _ _ _ _ h x hx with h1 | ⟨q, hq, e⟩
      · rcases List.mem_append.mp h1 with h1 | h1
        · exact Or.inl h1
        · rw [List.mem_singleton.mp h1]
          exact Or.inr ⟨p, List.mem_cons_self, rfl⟩
      · exact Or.inr ⟨q, List.mem_cons_of_mem _ hq, e⟩

/-- no deferred reference targets the id -/
def DefOk (s : RState) : Prop := ∀ d ∈ s.deferred, d.slot ≠ "xmiID"

theorem parseFs_defOk (K : Consts) (ts : TypeSystem) (tsIdx : Nat) (s s' : RState) (j : JFs)
    (hj : ∀ p ∈ j.feats, p.1 ≠ "@xmiID") (hs : DefOk s) (h : parseFs K ts tsIdx s j = .ok s') : DefOk s' := by
  unfold parseFs at h
  dsimp only at h
  split at h
  · cases h
  · split at h
    · cases h
    · split at h
      · cases h
      · split at h
        · cases h
        · rename_i kwargs deferred0 hr
          have h0 : ∀ d ∈ deferred0, d.slot ≠ "xmiID" := by
            split at hr
            · split at hr
              · cases hr
              · cases hr; exact hs
            · split at hr
              · cases hr
                intro d hd
                rcases List.mem_append.mp hd with hd | hd
                · exact hs d hd
                · rw [List.mem_singleton.mp hd]
                  show "elements" ≠ "xmiID"
                  decide
              · cases hr; exact hs
          split at h
          · cases h
          · split at h
            · cases h
            · rename_i heap1 deferred hres
              split at h
              · cases h
              · cases h
                intro d hd
                rcases resolveRefs_deferred renameReserved s.fss _ _ _ _ _ _ hres d hd with h1 | ⟨p, hp, e⟩
                · exact h0 d h1
                · intro hx
                  obtain ⟨hp1, hp2⟩ := List.mem_filter.mp hp
                  exact hj p hp1 (key_xmiID p.1 hp2 (e ▸ hx))

def RD (s r : RState) : Prop := DefOk s → DefOk r

theorem RD.stepRel (K : Consts) (ts : TypeSystem) (tsIdx ci : Nat) :
    StepRelP K ts tsIdx ci (fun j => ∀ p ∈ j.feats, p.1 ≠ "@xmiID") RD where
  refl := fun _ h => h
  trans := fun _ _ _ x y h => y (x h)
  sofa := by
    intro s s' j h hd
    obtain ⟨_, _, _, _, _, _, _, hdef, _⟩ := parseSofa_res ci s s' j h
    intro d hd'
    rw [hdef] at hd'
    exact hd d hd'
  fs := fun s s' j hj h hd => parseFs_defOk K ts tsIdx s s' j hj hd h

/-! ### deferred references and the views pass keep the ids -/

theorem fixUps_xsame (fss : List (Int × Val)) (ds : List Deferred) (hd : ∀ d ∈ ds, d.slot ≠ "xmiID") :
    ∀ heap heap', fixUps fss ds heap = .ok heap' → XSame heap heap' := by
  induction ds with
  | nil => intro heap heap' h; rw [fixUps] at h; cases h; exact XSame.refl _
  | cons d rest ih =>
    intro heap heap' h
    rw [fixUps] at h
    split at h
    · cases h
    · rename_i heap1 hs
      exact (setSlot_xsame_of_ne (hd d List.mem_cons_self) hs).trans
        (ih (fun x hx => hd x (List.mem_cons_of_mem _ hx)) _ _ h)

theorem fssIds_same {fss : List (Int × Val)} {hp hp' : Heap} (h : FssIds fss hp) (t : XSame hp hp') :
    FssIds fss hp' := by
  intro q hq a hqa
  obtain ⟨o, ho, hx⟩ := h q hq a hqa
  obtain ⟨o', ho', e⟩ := t.2 a o ho
  exact ⟨o', ho', e.trans hx⟩

theorem lookup_mem_ref {l : List (Int × Val)} {i : Int} {v : Val} (h : lookup l i = some v) : (i, v) ∈ l := by
  unfold lookup at h
  cases hf : l.find? (fun p => p.1 == i) with
  | none => rw [hf] at h; cases h
  | some q =>
    rw [hf] at h
    cases h
    have hk : q.1 = i := by simpa using List.find?_some hf
    have := List.mem_of_find?_eq_some hf
    rw [← hk]
    exact this

theorem addJMembers_xsame (ts : TypeSystem) (ci : Nat) (h : Handle) (fss : List (Int × Val)) (ms : List Int) :
    ∀ v v', FssIds fss v.heap → addJMembers ts ci h fss ms v = .ok v' → XSame v.heap v'.heap := by
  induction ms with
  | nil => intro v v' _ hm; rw [addJMembers] at hm; cases hm; exact XSame.refl _
  | cons m rest ih =>
    intro v v' hf hm
    cases hl : lookup fss m with
    | none => rw [addJMembers] at hm; simp only [hl] at hm; cases hm
    | some tv =>
      cases tv
      case ref a =>
        rw [addJMembers_cons_ref ts ci h fss m rest v hl] at hm
        split at hm
        · cases hm
        · rename_i c' heap' hadd
          obtain ⟨o, ho, hox⟩ := hf (m, .ref a) (lookup_mem_ref hl) a rfl
          obtain ⟨hx1, _⟩ := add_x ho hox hadd
          split at hm
          · cases hm
          · rename_i heap'' hwb
            have hx : XSame heap' heap'' := by
              unfold jWriteBack at hwb
              split at hwb
              · split at hwb
                · exact setSlot_xsame_of_ne (by decide) hwb
                · cases hwb; exact XSame.refl _
              · cases hwb; exact XSame.refl _
            have hx2 := hx1.trans hx
            exact hx2.trans (ih { cas := c', heap := heap'', memberSofas := (jOwnOf m a v).2 } v'
              (fssIds_same hf hx2) hm)
      all_goals (rw [addJMembers] at hm; simp only [hl] at hm; cases hm)

theorem viewsPass_xsame (ts : TypeSystem) (ci : Nat) (lenient : Bool) (fss : List (Int × Val)) (l : List JView) :
    ∀ v v', FssIds fss v.heap → viewsPass ts ci lenient fss l v = .ok v' → XSame v.heap v'.heap := by
  induction l with
  | nil => intro v v' _ h; rw [viewsPass] at h; cases h; exact XSame.refl _
  | cons jv rest ih =>
    intro v v' hf h
    rw [viewsPass] at h
    split at h
    · cases h
    · rename_i c hrc
      split at h
      · cases h
      · rename_i v1 hm
        have hx := addJMembers_xsame ts ci _ fss jv.members { v with cas := c } v1 hf hm
        exact hx.trans (ih v1 v' (fssIds_same hf hx) h)

theorem loadJson_keeps_ids_core (K : Consts) (tsArg : TypeSystem) (tsIdx ci : Nat) (lenient mergeTs : Bool) (hp : Heap)
    (doc : JDoc) (ld : Loaded) (ts : TypeSystem) (s1 s : RState)
    (hnox : ∀ j ∈ doc.fss, ∀ p ∈ j.feats, p.1 ≠ "@xmiID")
    (h : loadJson K tsArg tsIdx ci lenient mergeTs hp doc = .ok ld)
    (hts : loadTs K tsArg mergeTs doc = .ok ts)
    (hs1 : sofaPass K ts tsIdx ci doc.fss doc.fss { cas := Cas.empty, heap := hp } = .ok s1)
    (hs : fsPass K ts tsIdx doc.fss s1 = .ok s) :
    ∀ q ∈ s.fss, ∀ a : Nat, q.2 = .ref a → ∃ o : Obj, ld.heap[a]? = some o ∧ o.xid = some q.1 := by
  unfold loadJson at h
  rw [hts] at h
  dsimp only at h
  rw [hs1] at h
  dsimp only at h
  rw [hs] at h
  dsimp only at h
  split at h
  · cases h
  · rename_i heap hfix
    split at h
    · cases h
    · rename_i v hvp
      cases h
      have hV0 : FssVals ({ cas := Cas.empty, heap := hp } : RState).fss := fun q hq => by cases hq
      have hI0 : FssIds ({ cas := Cas.empty, heap := hp } : RState).fss hp := fun q hq => by cases hq
      obtain ⟨hV1, hI1⟩ := sofaPass_fss_ids_aux K ts tsIdx ci doc.fss doc.fss _ s1 hV0 hI0 hs1
      obtain ⟨_, hI⟩ := fsPass_fss_ids_aux K ts tsIdx doc.fss s1 s hV1 hI1 hs
      have hD0 : DefOk { cas := Cas.empty, heap := hp } := fun d hd => by cases hd
      have hD1 := sofaPass_relP (RD.stepRel K ts tsIdx ci) doc.fss hnox doc.fss _ s1 hs1 hD0
      have hD := fsPass_relP (RD.stepRel K ts tsIdx ci) doc.fss hnox s1 s hs hD1
      have hx1 := fixUps_xsame s.fss s.deferred hD s.heap heap hfix
      have hI2 := fssIds_same hI hx1
      have hx2 := viewsPass_xsame ts ci lenient s.fss doc.views _ v hI2 hvp
      exact fssIds_same hI2 hx2

theorem loadJson_keeps_ids_aux (K : Consts) (tsArg : TypeSystem) (tsIdx ci : Nat) (lenient mergeTs : Bool) (hp : Heap)
    (doc : JDoc) (ld : Loaded) (ts : TypeSystem) (s1 s : RState)
    (hnox : ∀ j ∈ doc.fss, ∀ p ∈ j.feats, p.1 ≠ "@xmiID")
    (h : loadJson K tsArg tsIdx ci lenient mergeTs hp doc = .ok ld)
    (hts : loadTs K tsArg mergeTs doc = .ok ts)
    (hs1 : sofaPass K ts tsIdx ci doc.fss doc.fss { cas := Cas.empty, heap := hp } = .ok s1)
    (hs : fsPass K ts tsIdx doc.fss s1 = .ok s) :
    ∀ q ∈ s.fss, ∀ a : Nat, q.2 = .ref a → ∃ o : Obj, ld.heap[a]? = some o ∧ o.xid = some q.1 ∧
      q.1 < ld.cas.nextXid := by
  intro q hq a hqa
  obtain ⟨o, ho, hx⟩ :=
    loadJson_keeps_ids_core K tsArg tsIdx ci lenient mergeTs hp doc ld ts s1 s hnox h hts hs1 hs q hq a hqa
  obtain ⟨ts', s1', s', hts', _, hs1', hs', _, _, _, _, hlt, _⟩ :=
    loadJson_reseeds_aux K tsArg tsIdx ci lenient mergeTs hp doc ld h
  rw [hts] at hts'
  cases hts'
  rw [hs1] at hs1'
  cases hs1'
  rw [hs] at hs'
  cases hs'
  exact ⟨o, ho, hx, hlt q hq⟩

end Cassis.Json.Ids
