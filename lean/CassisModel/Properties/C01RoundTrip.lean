/-
C01, end to end on the flat fragment — `load_cas_from_xmi(cas.to_xmi())` yields the same CAS.

For every CAS whose reachable feature structures are *flat* (`Spec/RoundTrip.lean`: primitive features, plain
references, sofa references; any graph shape, any number of views, astral text), writing it with the model's
`saveXmi` and reading the document back with the model's `loadXmi` (strict, same type system)

* succeeds,
* yields exactly the structures that were written, under the same xmi:ids and types,
* with the same content of every feature (references compared by the id of their target, offsets restored to
  code-point offsets, the sofa reference naming the same view),
* yields the same views: same names, sofa ids, sofaNums, texts, mime types, and the same member ids,
* and reseeds the id generators above everything (C09Doc).

A second theorem (`xmi_roundtrip_flat_fixpoint`): serialising the loaded CAS again gives the identical document.

Hypotheses (all are facts about the *input*: the CAS that is written, its heap, the type system):
* `RTWf c hp` — what `Cas(...)`/`create_view`/the sofa setter establish (first view = initial view, distinct names and
  sofa ids, text sofas with the converter of their text, scalar code points, ids positive and below the generator);
* `NullOk ts` — `uima.cas.NULL` is registered and has no features (the document starts with a `cas:NULL` element, which
  the reader parses like any structure: without the type, loading raises `TypeNotFoundError`);
* `FlatFs` for every collected structure (`Spec/RoundTrip.lean`);
* `hdis` — structure ids differ from sofa ids (not needed by the proofs; kept since it holds for every CAS built through the API);
* `hmem` — an indexed structure does not have `sofa = None` (`Cas.add` would set it, and the document cannot say so);
* `MembersOk` — the indexed structures can be indexed again (sort keys exist; no `None`/integer offset mix within one
  type of one view: `Cas.add` raises `TypeError` otherwise).
The third conjunct reads `0 :: ids`: the reader registers the `cas:NULL` element under id 0 like any other structure.

Not covered by this theorem (kept as per-run checks): array and list features, inlined or shared; byte-array
sofas; the byte level (lxml).  The statement is about the models; their tie to `/repo` is the correspondence check.
-/
import CassisModel.Proofs.RoundTrip
import CassisModel.Proofs.RoundTripDemo

namespace Cassis.Xmi
open Cassis.TS Cassis.Traverse

/-- **XMI round trip on the flat fragment** -/
theorem xmi_roundtrip_flat (K : Consts) (ts : TypeSystem) (cass : List Cas) (ci : Nat) (c : Cas) (hp : Heap)
    (tsIdx ci' : Nat) (doc : XDoc) (st : St)
    (hc : cass[ci]? = some c) (hwf : RTWf c hp) (hnull : NullOk ts)
    (hsave : saveXmi K ts cass ci hp = .ok (doc, st))
    (hflat : ∀ q ∈ st.allFs, FlatFs K ts c ci st.heap q.2)
    (hdis : ∀ q ∈ st.allFs, ∀ nv ∈ c.views, q.1 ≠ nv.2.sofa.xid)
    (hmem : ∀ nv ∈ c.views, ∀ e ∈ Index.all nv.2.idx, slot st.heap e.oid "sofa" ≠ some .none)
    (hmok : MembersOk c st.heap) :
    ∃ (p : Pass1) (ld : Loaded),
      pass1 K ts tsIdx false doc { heap := st.heap } = .ok p ∧
      loadXmi K ts tsIdx ci' false st.heap doc = .ok ld ∧
      -- the same structures under the same ids (id 0 is the `cas:NULL` element every document starts with; the
      -- reader registers it like any other structure)
      p.fss.map (·.1) = 0 :: (sortById st.allFs).map (·.1) ∧
      (∀ q ∈ st.allFs, ∃ (a' : Nat) (o o' : Obj), lookupFs p.fss q.1 = .ok a' ∧
          st.heap[q.2]? = some o ∧ ld.heap[a']? = some o' ∧ o'.ty = o.ty ∧ o'.xid = some q.1 ∧
          -- with the same content of every feature
          ∀ t : TypeRec, find? ts o.ty = some t → ∀ f ∈ allFeatures t,
            featContent ld.heap a' f.name = featContent st.heap q.2 f.name) ∧
      -- the same views
      ld.cas.views.map (viewContent ld.heap) = c.views.map (viewContent st.heap) ∧
      -- generators reseeded
      (∀ q ∈ st.allFs, q.1 < ld.cas.nextXid) ∧ (∀ nv ∈ c.views, nv.2.sofa.xid < ld.cas.nextXid ∧ nv.2.sofa.sofaNum < ld.cas.nextSofaNum) :=
  xmi_roundtrip_flat_aux K ts cass ci c hp tsIdx ci' doc st hc hwf hnull hsave hflat hdis hmem hmok

/-- serialising the loaded CAS again yields the identical document -/
theorem xmi_roundtrip_flat_fixpoint (K : Consts) (ts : TypeSystem) (cass : List Cas) (ci : Nat) (c : Cas) (hp : Heap)
    (tsIdx : Nat) (doc : XDoc) (st : St) (ld : Loaded)
    (hc : cass[ci]? = some c) (hwf : RTWf c hp) (hnull : NullOk ts)
    (hsave : saveXmi K ts cass ci hp = .ok (doc, st))
    (hflat : ∀ q ∈ st.allFs, FlatFs K ts c ci st.heap q.2)
    (hdis : ∀ q ∈ st.allFs, ∀ nv ∈ c.views, q.1 ≠ nv.2.sofa.xid)
    (hmem : ∀ nv ∈ c.views, ∀ e ∈ Index.all nv.2.idx, slot st.heap e.oid "sofa" ≠ some .none)
    (hmok : MembersOk c st.heap)
    (hload : loadXmi K ts tsIdx cass.length false st.heap doc = .ok ld) :
    ∃ st' : St, saveXmi K ts (cass ++ [ld.cas]) cass.length ld.heap = .ok (doc, st') :=
  xmi_roundtrip_flat_fixpoint_aux K ts cass ci c hp tsIdx doc st ld hc hwf hnull hsave hflat hdis hmem hmok hload

/-! ### Non-vacuity

The instance of `Proofs/RoundTripDemo.lean`: `Gen.builtinTS` extended (through `createType`/`createFeature`) by the
annotation type `x.Tok` with an Integer feature `n` and a reference feature `next`; one CAS built by `Cas.new` with the
text `a😀b` (an astral code point); two `x.Tok` structures referring to each other, the first one indexed through
`Cas.add`.  All hypotheses of `xmi_roundtrip_flat` hold for it (`Demo.demo_hyps`; `FlatFs` through a Boolean checker
proved sound and evaluated by the kernel), so the theorem applies; `Demo.demo_concl`/`Demo.demo_loaded` additionally
evaluate the conclusion on the instance (e.g. `end="3"` in the document is read back as the code-point offset 2). -/

example : ∃ (doc : XDoc) (st : St),
    saveXmi Demo.K Demo.demoTS [Demo.demo.1] 0 Demo.demo.2 = .ok (doc, st) ∧
    [Demo.demo.1][0]? = some Demo.demo.1 ∧ RTWf Demo.demo.1 Demo.demo.2 ∧ NullOk Demo.demoTS ∧
    (∀ q ∈ st.allFs, FlatFs Demo.K Demo.demoTS Demo.demo.1 0 st.heap q.2) ∧
    (∀ q ∈ st.allFs, ∀ nv ∈ Demo.demo.1.views, q.1 ≠ nv.2.sofa.xid) ∧
    (∀ nv ∈ Demo.demo.1.views, ∀ e ∈ Index.all nv.2.idx, slot st.heap e.oid "sofa" ≠ some .none) ∧
    MembersOk Demo.demo.1 st.heap := Demo.demo_hyps

/-- the theorem applied to the instance -/
example : ∃ (doc : XDoc) (st : St) (ld : Loaded),
    saveXmi Demo.K Demo.demoTS [Demo.demo.1] 0 Demo.demo.2 = .ok (doc, st) ∧
    loadXmi Demo.K Demo.demoTS 0 1 false st.heap doc = .ok ld ∧
    ld.cas.views.map (viewContent ld.heap) = Demo.demo.1.views.map (viewContent st.heap) := by
  obtain ⟨doc, st, hs, hc, hwf, hn, hf, hd, hm, hmo⟩ := Demo.demo_hyps
  obtain ⟨_, ld, _, hl, _, _, hv, _⟩ :=
    xmi_roundtrip_flat Demo.K Demo.demoTS [Demo.demo.1] 0 Demo.demo.1 Demo.demo.2 0 1 doc st hc hwf hn hs hf hd hm hmo
  exact ⟨doc, st, ld, hs, hl, hv⟩

/-- … and the fixpoint theorem applied to the instance: saving what was loaded gives the same document -/
example : ∃ (doc : XDoc) (st st' : St) (ld : Loaded),
    saveXmi Demo.K Demo.demoTS [Demo.demo.1] 0 Demo.demo.2 = .ok (doc, st) ∧
    loadXmi Demo.K Demo.demoTS 0 1 false st.heap doc = .ok ld ∧
    saveXmi Demo.K Demo.demoTS ([Demo.demo.1] ++ [ld.cas]) 1 ld.heap = .ok (doc, st') := by
  obtain ⟨doc, st, hs, hc, hwf, hn, hf, hd, hm, hmo⟩ := Demo.demo_hyps
  obtain ⟨_, ld, _, hl, _⟩ :=
    xmi_roundtrip_flat Demo.K Demo.demoTS [Demo.demo.1] 0 Demo.demo.1 Demo.demo.2 0 1 doc st hc hwf hn hs hf hd hm hmo
  obtain ⟨st', hs'⟩ :=
    xmi_roundtrip_flat_fixpoint Demo.K Demo.demoTS [Demo.demo.1] 0 Demo.demo.1 Demo.demo.2 0 doc st ld hc hwf hn hs hf hd hm hmo hl
  exact ⟨doc, st, st', ld, hs, hl, hs'⟩

#print axioms xmi_roundtrip_flat
#print axioms xmi_roundtrip_flat_fixpoint

end Cassis.Xmi
