/-
C01, end to end on the flat fragment — `load_cas_from_xmi(cas.to_xmi())` yields the same CAS.

For every CAS whose reachable feature structures are *flat* (`Spec/RoundTrip.lean`: primitive features, plain
references, sofa references; any graph shape, any number of views, astral text), writing it with the model's
`saveXmi` and reading the document back with the model's `loadXmi` (strict, same type system)

* succeeds,
* yields exactly the structures that were written, under the same xmi:ids and types,
* with the same content of every feature (references compared by the id of their target, offsets restored to
  code-point offsets, the sofa reference naming the same view),
* yields the same views: same names, sofa ids, sofaNums, texts, mime types, and the same member ids,
* and reseeds the id generators above everything (C09Doc).

Not covered by this theorem (kept as per-run checks): array and list features, inlined or shared; byte-array
sofas; the byte level (lxml).  The statement is about the models; their tie to `/repo` is the correspondence check.
-/
import CassisModel.Proofs.RoundTrip

namespace Cassis.Xmi
open Cassis.TS Cassis.Traverse

/-- **XMI round trip on the flat fragment** -/
theorem xmi_roundtrip_flat (K : Consts) (ts : TypeSystem) (cass : List Cas) (ci : Nat) (c : Cas) (hp : Heap)
    (tsIdx ci' : Nat) (doc : XDoc) (st : St)
    (hc : cass[ci]? = some c) (hwf : RTWf c hp)
    (hsave : saveXmi K ts cass ci hp = .ok (doc, st))
    (hflat : ∀ q ∈ st.allFs, FlatFs K ts c ci st.heap q.2)
    (hdis : ∀ q ∈ st.allFs, ∀ nv ∈ c.views, q.1 ≠ nv.2.sofa.xid)
    (hmem : ∀ nv ∈ c.views, ∀ e ∈ Index.all nv.2.idx, slot st.heap e.oid "sofa" ≠ some .none) :
    ∃ (p : Pass1) (ld : Loaded),
      pass1 K ts tsIdx false doc { heap := st.heap } = .ok p ∧
      loadXmi K ts tsIdx ci' false st.heap doc = .ok ld ∧
      -- the same structures under the same ids
      p.fss.map (·.1) = (sortById st.allFs).map (·.1) ∧
      (∀ q ∈ st.allFs, ∃ (a' : Nat) (o o' : Obj), lookupFs p.fss q.1 = .ok a' ∧
          st.heap[q.2]? = some o ∧ ld.heap[a']? = some o' ∧ o'.ty = o.ty ∧ o'.xid = some q.1 ∧
          -- with the same content of every feature
          ∀ t : TypeRec, find? ts o.ty = some t → ∀ f ∈ allFeatures t,
            featContent ld.heap a' f.name = featContent st.heap q.2 f.name) ∧
      -- the same views
      ld.cas.views.map (viewContent ld.heap) = c.views.map (viewContent st.heap) ∧
      -- generators reseeded
      (∀ q ∈ st.allFs, q.1 < ld.cas.nextXid) ∧ (∀ nv ∈ c.views, nv.2.sofa.xid < ld.cas.nextXid ∧ nv.2.sofa.sofaNum < ld.cas.nextSofaNum) :=
  xmi_roundtrip_flat_aux K ts cass ci c hp tsIdx ci' doc st hc hwf hsave hflat hdis hmem

/-- serialising the loaded CAS again yields the identical document -/
theorem xmi_roundtrip_flat_fixpoint (K : Consts) (ts : TypeSystem) (cass : List Cas) (ci : Nat) (c : Cas) (hp : Heap)
    (tsIdx : Nat) (doc : XDoc) (st : St) (ld : Loaded)
    (hc : cass[ci]? = some c) (hwf : RTWf c hp)
    (hsave : saveXmi K ts cass ci hp = .ok (doc, st))
    (hflat : ∀ q ∈ st.allFs, FlatFs K ts c ci st.heap q.2)
    (hdis : ∀ q ∈ st.allFs, ∀ nv ∈ c.views, q.1 ≠ nv.2.sofa.xid)
    (hmem : ∀ nv ∈ c.views, ∀ e ∈ Index.all nv.2.idx, slot st.heap e.oid "sofa" ≠ some .none)
    (hload : loadXmi K ts tsIdx cass.length false st.heap doc = .ok ld) :
    ∃ st' : St, saveXmi K ts (cass ++ [ld.cas]) cass.length ld.heap = .ok (doc, st') :=
  xmi_roundtrip_flat_fixpoint_aux K ts cass ci c hp tsIdx doc st ld hc hwf hsave hflat hdis hmem hload

end Cassis.Xmi
