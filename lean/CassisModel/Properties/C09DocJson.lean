/-
C09, document level, JSON — the JSON loader reseeds the generators above every id of the document and above the id of
every object it created; the JSON counterpart of `Properties/C09Doc.lean`, for all four flag combinations
(`lenient`, `mergeTs` arbitrary).

`JBounded` (`Spec/JsonDoc.lean`) is the invariant of the two parsing passes `sofaPass` / `fsPass`: every id registered in
the id table (`feature_structures`: structures and sofas) is at most `maxId`, and the view of every registered sofa has
a sofa id / sofaNum of at most `maxId` / `maxNum`.  After the deferred references the loader sets
`nextXid := maxId + 1`, `nextSofaNum := maxNum + 1`, and only then reads `%VIEWS`.

Differences from the XMI statement, forced by the JSON passes (evaluated instances in `Proofs/JsonIdsDemo.lean`):
* the generators may end *above* `maxId + 1` / `maxNum + 1` (`≤` instead of `=`): the views pass runs after the
  reseeding and consumes an id and a sofaNum for every view that is only named in `%VIEWS` (`docView`: `maxId = 5`,
  `nextXid = 7`), and an id for every member that has none (next item);
* a structure can lose its id: a member `"@xmiID": 99` whose target does not exist becomes the deferred
  `setattr(fs, "xmiID", None)` (`docDangling`: the heap object ends with `xid = none`; if it is indexed, `Cas.add` gives
  it a fresh id, `docDangling2`: 6).  The real code does the same.  Hence "every registered structure sits in the heap
  under its id" holds for the state after the structure pass (`fsPass_fss_ids`, the clause of `loadJson_reseeds` about
  `s.heap`), and for the final heap under the hypothesis that no element has a member `@xmiID` (`loadJson_keeps_ids`);
  the bound on the ids of all created objects (the clause about `ld.heap`) holds unconditionally;
* duplicate sofa names: a second sofa element with the name of an existing view other than `_InitialView` is applied to
  that view, which keeps its sofa id and sofaNum (`cas.get_view(name)` in `_get_or_create_view`; the sofa is registered
  again under its old id): neither the id nor the sofaNum of such an element is looked at.  `docDup` (sofa elements
  1 `_InitialView`, 2 `v`, 3 `v` with sofaNums 1, 2, 7): the view `v` keeps sofa id 2 / sofaNum 2, `nextXid = 3`,
  `nextSofaNum = 3` — model and Python agree (Python: `cas.add` of a new annotation then assigns id 3).  Hence
  - the bound on the ids of the *sofa* elements of the document needs `SofaNamesDistinct doc.fss` (`Spec/JsonDoc.lean`:
    two sofa elements with the same name name the initial view); the old unconditional clause
    `∀ j ∈ doc.fss, ∃ i, j.id = some i ∧ i < ld.cas.nextXid` is false on `docDup` (`IdsDemo.docDup_not_below`).  This is
    not a violation of C09: nothing that was loaded carries the ignored id 3 (the clauses about the id table, the heap
    and the views hold unconditionally), a fresh id 3 collides with nothing;
  - `nextSofaNum` is above the sofaNum of every *view* created from a sofa of the document, not above every sofaNum the
    document mentions;
  a second element for `_InitialView` replaces the sofa id and sofaNum of the initial view (`docDupInit`);
* as for XMI (finding I5) the implicit initial view of a document without an `_InitialView` sofa keeps sofa id 1 /
  sofaNum 1 (`docEmpty`: both generators restart at 1): the statement about views speaks about the sofas of the document.

Model history: until the repair of `parseSofa` (it now follows `_get_or_create_view`) the model overwrote the sofa id of an
existing non-initial view with the id of the second element (`docDup`: sofa id 3, `nextXid = 4`), which made the old
clause provable for the model but not true of the code.
-/
import CassisModel.Proofs.JsonIdsLoad
import CassisModel.Proofs.JsonIdsKeep
import CassisModel.Proofs.JsonIdsDemo

namespace Cassis.Json
open Cassis.TS Cassis.Json.Ids

/-! ### the passes -/

theorem sofaPass_bounded (K : Consts) (ts : TypeSystem) (tsIdx ci : Nat) (all l : List JFs) (s r : RState)
    (hs : JBounded s) (h : sofaPass K ts tsIdx ci all l s = .ok r) :
    JBounded r ∧ s.maxId ≤ r.maxId ∧ s.maxNum ≤ r.maxNum :=
  sofaPass_bounded_aux K ts tsIdx ci all l s r hs h

theorem fsPass_bounded (K : Consts) (ts : TypeSystem) (tsIdx : Nat) (l : List JFs) (s r : RState)
    (hs : JBounded s) (h : fsPass K ts tsIdx l s = .ok r) :
    JBounded r ∧ s.maxId ≤ r.maxId ∧ s.maxNum ≤ r.maxNum :=
  fsPass_bounded_aux K ts tsIdx l s r hs h

/-- every structure registered by the sofa pass (the byte arrays sofas refer to) sits in the heap under the id of its
    element; the id table holds heap addresses and sofas only (`FssVals`) -/
theorem sofaPass_fss_ids (K : Consts) (ts : TypeSystem) (tsIdx ci : Nat) (all l : List JFs) (s r : RState)
    (hv : FssVals s.fss) (hs : ∀ q ∈ s.fss, ∀ a : Nat, q.2 = .ref a → ∃ o : Obj, s.heap[a]? = some o ∧ o.xid = some q.1)
    (h : sofaPass K ts tsIdx ci all l s = .ok r) :
    FssVals r.fss ∧ ∀ q ∈ r.fss, ∀ a : Nat, q.2 = .ref a → ∃ o : Obj, r.heap[a]? = some o ∧ o.xid = some q.1 :=
  sofaPass_fss_ids_aux K ts tsIdx ci all l s r hv hs h

/-- every structure registered by the structure pass sits in the heap under the id of its element -/
theorem fsPass_fss_ids (K : Consts) (ts : TypeSystem) (tsIdx : Nat) (l : List JFs) (s r : RState)
    (hv : FssVals s.fss) (hs : ∀ q ∈ s.fss, ∀ a : Nat, q.2 = .ref a → ∃ o : Obj, s.heap[a]? = some o ∧ o.xid = some q.1)
    (h : fsPass K ts tsIdx l s = .ok r) :
    FssVals r.fss ∧ ∀ q ∈ r.fss, ∀ a : Nat, q.2 = .ref a → ∃ o : Obj, r.heap[a]? = some o ∧ o.xid = some q.1 :=
  fsPass_fss_ids_aux K ts tsIdx l s r hv hs h

/-! ### end to end -/

/-- **the JSON loader reseeds above everything the document mentions and everything it created** -/
theorem loadJson_reseeds (K : Consts) (tsArg : TypeSystem) (tsIdx ci : Nat) (lenient mergeTs : Bool) (hp : Heap)
    (doc : JDoc) (ld : Loaded) (h : loadJson K tsArg tsIdx ci lenient mergeTs hp doc = .ok ld) :
    ∃ (ts : TypeSystem) (s1 s : RState),
      loadTs K tsArg mergeTs doc = .ok ts ∧ ld.ts = ts ∧
      sofaPass K ts tsIdx ci doc.fss doc.fss { cas := Cas.empty, heap := hp } = .ok s1 ∧
      fsPass K ts tsIdx doc.fss s1 = .ok s ∧ JBounded s ∧
      -- the generators
      s.maxId + 1 ≤ ld.cas.nextXid ∧ s.maxNum + 1 ≤ ld.cas.nextSofaNum ∧
      -- every element of the document has an id; it is below the generator for the structures, and for the sofas if no
      -- two sofa elements name the same non-initial view
      -- (old clause, false on `docDup`: `∀ j ∈ doc.fss, ∃ i : Int, j.id = some i ∧ i < ld.cas.nextXid`)
      (∀ j ∈ doc.fss, ∃ i : Int, j.id = some i ∧ (j.ty ≠ SOFA ∨ SofaNamesDistinct doc.fss → i < ld.cas.nextXid)) ∧
      -- every id in the id table is below the generator
      (∀ q ∈ s.fss, q.1 < ld.cas.nextXid) ∧
      -- every registered structure was created under its id
      (∀ q ∈ s.fss, ∀ a : Nat, q.2 = .ref a → ∃ o : Obj, s.heap[a]? = some o ∧ o.xid = some q.1) ∧
      -- every object the load created carries no id or one below the generator
      (∀ (a : Nat) (o : Obj) (x : Int), hp.length ≤ a → ld.heap[a]? = some o → o.xid = some x →
        x < ld.cas.nextXid) ∧
      -- the view of every sofa of the document
      (∀ j ∈ doc.fss, j.ty = SOFA → ∃ (n : String) (v : View), sofaIdOf j = some n ∧
        Cas.getViewRec ld.cas n = some v ∧ v.sofa.xid < ld.cas.nextXid ∧ v.sofa.sofaNum < ld.cas.nextSofaNum) ∧
      (∀ q ∈ s.fss, ∀ (cI : Nat) (vn : String), q.2 = .sofa cI vn → ∃ v : View,
        Cas.getViewRec ld.cas vn = some v ∧ v.sofa.xid < ld.cas.nextXid ∧ v.sofa.sofaNum < ld.cas.nextSofaNum) :=
  loadJson_reseeds_aux K tsArg tsIdx ci lenient mergeTs hp doc ld h

/-- a document without a member `@xmiID`: every registered structure sits in the final heap under its id -/
theorem loadJson_keeps_ids (K : Consts) (tsArg : TypeSystem) (tsIdx ci : Nat) (lenient mergeTs : Bool) (hp : Heap)
    (doc : JDoc) (ld : Loaded) (ts : TypeSystem) (s1 s : RState)
    (hnox : ∀ j ∈ doc.fss, ∀ p ∈ j.feats, p.1 ≠ "@xmiID")
    (h : loadJson K tsArg tsIdx ci lenient mergeTs hp doc = .ok ld)
    (hts : loadTs K tsArg mergeTs doc = .ok ts)
    (hs1 : sofaPass K ts tsIdx ci doc.fss doc.fss { cas := Cas.empty, heap := hp } = .ok s1)
    (hs : fsPass K ts tsIdx doc.fss s1 = .ok s) :
    ∀ q ∈ s.fss, ∀ a : Nat, q.2 = .ref a → ∃ o : Obj, ld.heap[a]? = some o ∧ o.xid = some q.1 ∧
      q.1 < ld.cas.nextXid :=
  loadJson_keeps_ids_aux K tsArg tsIdx ci lenient mergeTs hp doc ld ts s1 s hnox h hts hs1 hs

/-! ### Instances (evaluated by the kernel, `Proofs/JsonIdsDemo.lean`)

`doc1`: two sofas (ids 1, 8; sofaNums 1, 3), two `x.Tok` structures (ids 5, 6) referring to each other, one indexed.
The load succeeds, `nextXid = 9`, `nextSofaNum = 4`; the hypothesis of `loadJson_keeps_ids` holds. -/

example : IdsDemo.summary (loadJson Xmi.Demo.K Xmi.Demo.demoTS' 0 0 true false [] IdsDemo.doc1) =
    some ⟨9, 4, [("_InitialView", 1, 1), ("v", 8, 3)], [some 5, some 6]⟩ := IdsDemo.doc1_loads
example : ∀ j ∈ IdsDemo.doc1.fss, ∀ p ∈ j.feats, p.1 ≠ "@xmiID" := IdsDemo.doc1_nox
example : SofaNamesDistinct IdsDemo.doc1.fss := IdsDemo.doc1_distinct

/-- the instances behind the differences listed in the header -/
example : IdsDemo.summary (loadJson Xmi.Demo.K Xmi.Demo.demoTS' 0 0 true false [] IdsDemo.docView) =
    some ⟨7, 3, [("_InitialView", 1, 1), ("w", 6, 2)], [some 5]⟩ := IdsDemo.docView_loads
example : IdsDemo.summary (loadJson Xmi.Demo.K Xmi.Demo.demoTS' 0 0 false false [] IdsDemo.docDangling) =
    some ⟨6, 2, [("_InitialView", 1, 1)], [none]⟩ := IdsDemo.docDangling_loads
example : IdsDemo.summary (loadJson Xmi.Demo.K Xmi.Demo.demoTS' 0 0 true false [] IdsDemo.docDangling2) =
    some ⟨7, 2, [("_InitialView", 1, 1)], [some 6]⟩ := IdsDemo.docDangling2_loads
example : IdsDemo.summary (loadJson Xmi.Demo.K Xmi.Demo.demoTS' 0 0 false false [] IdsDemo.docDup) =
    some ⟨3, 3, [("_InitialView", 1, 1), ("v", 2, 2)], []⟩ := IdsDemo.docDup_loads
example : ∃ ld, loadJson Xmi.Demo.K Xmi.Demo.demoTS' 0 0 false false [] IdsDemo.docDup = .ok ld ∧
    ∃ j ∈ IdsDemo.docDup.fss, j.id = some 3 ∧ ¬ (3 < ld.cas.nextXid) := IdsDemo.docDup_not_below
example : ¬ SofaNamesDistinct IdsDemo.docDup.fss := IdsDemo.docDup_not_distinct
example : IdsDemo.summary (loadJson Xmi.Demo.K Xmi.Demo.demoTS' 0 0 false false [] IdsDemo.docDupInit) =
    some ⟨6, 5, [("_InitialView", 5, 4)], []⟩ := IdsDemo.docDupInit_loads
example : IdsDemo.summary (loadJson Xmi.Demo.K Xmi.Demo.demoTS' 0 0 false false [] IdsDemo.docEmpty) =
    some ⟨1, 1, [("_InitialView", 1, 1)], []⟩ := IdsDemo.docEmpty_loads

#print axioms sofaPass_bounded
#print axioms fsPass_bounded
#print axioms sofaPass_fss_ids
#print axioms fsPass_fss_ids
#print axioms loadJson_reseeds
#print axioms loadJson_keeps_ids

end Cassis.Json
