/-
C13 — order (and grouping) independence of `merge_typesystems`, as a theorem, on the part of the input space where nothing
competes for a supertype.

`merge K base inputs` works on the concatenation of the inputs' declarations, so *grouping* independence holds by
construction (`merge_grouping`), and *order* independence is invariance under permutations of the declaration list — which
is more than permuting whole inputs.

`merge_perm_one_super`: for closed, acyclic declaration lists of user types in which every name is declared with one and the
same supertype throughout (`OneSuper`; features may be spread over the declarations in any way, repeated, added to a
supertype by a later input, …), any two orders of the declarations either both fail or both succeed, and then yield the
same types with the same supertypes, children and effective features (`SameHier`).

`merge_perm_leaf_compete` (proposed): the same when names are declared with *different* supertypes, as long as such names
have no declared subtypes, their supertypes are not final and the document annotation type is declared where a fresh type
system has it.  What remains checked by enumeration only: a name with competing supertypes that has declared subtypes
(the re-parenting of a whole subtree), every other name being declared with one supertype; finding M6 lies just outside
that.
-/
import CassisModel.Proofs.MergePerm

namespace Cassis.TS

/-- grouping is irrelevant: only the concatenation of the declarations matters -/
theorem merge_grouping (K : Consts) (base : TypeSystem) (xs ys : List (List TypeSystem)) (h : xs.flatten = ys.flatten) :
    merge K base xs.flatten = merge K base ys.flatten := by rw [h]

theorem merge_perm_one_super (decls decls' : List Decl) (hp : decls.Perm decls')
    (hc : ClosedDecls Gen.consts decls) (hu : UserDecls Gen.consts decls) (h1 : OneSuper decls) :
    match mergeDecls Gen.consts Gen.builtinTS decls, mergeDecls Gen.consts Gen.builtinTS decls' with
    | .ok ts, .ok ts' => SameHier ts ts'
    | .error _, .error _ => True
    | _, _ => False :=
  merge_perm_one_super_aux decls decls' hp hc hu h1

/-- **Proposed extension: competing supertypes on leaves.**  Names may be declared with different supertypes (the merge
    then moves the type below the most specific one, or raises `ValueError` if two of them are incomparable), provided

    * `LeafCompete`: a name declared with competing supertypes has no declared subtype.  Hence every declared supertype —
      every competing supertype and each of its ancestors — is declared with one supertype throughout, sits at its final
      place as soon as it is registered, and `subsumes` on the partially merged tree agrees with the final tree.  This is
      what excludes finding M6 ("merge success depends on order when an ancestor of a competing supertype is itself
      pending"): its witness has `x.C` declared below `uima.cas.TOP` and below `uima.tcas.Annotation` *and* as the
      supertype of `x.B`, a competing supertype of `x.A`.
    * `CompeteNonFinal`: no competing supertype is inheritance final.  Needed: `[x.X < uima.cas.ArrayBase,
      x.X < uima.cas.IntegerArray]` merges in this order (the re-parenting branch does not check finality) and raises in
      the other (`create_type` does), evaluated in `Proofs/MergePermXDemo.lean` (`demoFinal`).  Not reachable through the
      API, which refuses to create a type below a final one.
    * `BaseAgree`: the document annotation type is declared, if at all, below `uima.tcas.Annotation` (where a fresh type
      system has it).  A simplification of the proof, not known to be needed (`merge_perm_one_super` covers the document
      annotation type declared elsewhere, without competing supertypes).

    Enumeration over small pools (all permutations of up to five declarations) found no order dependence either when the
    name with competing supertypes has declared subtypes while every *other* name is declared with one supertype; the
    leaf condition is what the proof needs (only a leaf is re-parented, so `FeatInv` after re-parenting a subtree is not
    required), not a known boundary of the property. -/
theorem merge_perm_leaf_compete (decls decls' : List Decl) (hp : decls.Perm decls')
    (hc : ClosedDecls Gen.consts decls) (hu : UserDecls Gen.consts decls) (hb : BaseAgree decls)
    (hl : LeafCompete decls) (hnf : CompeteNonFinal Gen.consts decls) :
    match mergeDecls Gen.consts Gen.builtinTS decls, mergeDecls Gen.consts Gen.builtinTS decls' with
    | .ok ts, .ok ts' => SameHier ts ts'
    | .error _, .error _ => True
    | _, _ => False :=
  merge_perm_leaf_compete_aux decls decls' hp hc hu hb hl hnf

end Cassis.TS

#print axioms Cassis.TS.merge_perm_one_super
#print axioms Cassis.TS.merge_perm_leaf_compete
#print axioms Cassis.TS.merge_grouping
