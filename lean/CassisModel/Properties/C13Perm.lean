/-
C13 — order (and grouping) independence of `merge_typesystems`, as a theorem, on the part of the input space where nothing
competes for a supertype.

`merge K base inputs` works on the concatenation of the inputs' declarations, so *grouping* independence holds by
construction (`merge_grouping`), and *order* independence is invariance under permutations of the declaration list — which
is more than permuting whole inputs.

`merge_perm_one_super`: for closed, acyclic declaration lists of user types in which every name is declared with one and the
same supertype throughout (`OneSuper`; features may be spread over the declarations in any way, repeated, added to a
supertype by a later input, …), any two orders of the declarations either both fail or both succeed, and then yield the
same types with the same supertypes, children and effective features (`SameHier`).

The remaining part of the property's claim — a type declared with *different* supertypes of which one subsumes the other,
the competing supertypes being declared identically everywhere — involves the re-parenting branch and is still checked by
enumeration on implementation and model (finding M6 lies just outside its hypothesis).
-/
import CassisModel.Proofs.MergePerm

namespace Cassis.TS

/-- grouping is irrelevant: only the concatenation of the declarations matters -/
theorem merge_grouping (K : Consts) (base : TypeSystem) (xs ys : List (List TypeSystem)) (h : xs.flatten = ys.flatten) :
    merge K base xs.flatten = merge K base ys.flatten := by rw [h]

theorem merge_perm_one_super (decls decls' : List Decl) (hp : decls.Perm decls')
    (hc : ClosedDecls Gen.consts decls) (hu : UserDecls Gen.consts decls) (h1 : OneSuper decls) :
    match mergeDecls Gen.consts Gen.builtinTS decls, mergeDecls Gen.consts Gen.builtinTS decls' with
    | .ok ts, .ok ts' => SameHier ts ts'
    | .error _, .error _ => True
    | _, _ => False :=
  merge_perm_one_super_aux decls decls' hp hc hu h1

end Cassis.TS
