/-
C02 — the type system a JSON document carries is sufficient: loading a document written with `TypeSystemMode.FULL`
*without* supplying a type system reconstructs the original type system.

For every type system built through the API (any history of `create_type` / `create_feature` that declares features on user
types other than DocumentAnnotation), the type system the loader builds from the `%TYPES` section of a FULL document — the
embedded declarations are created supertypes first, then their features, and the result is merged into a fresh type system
— declares the same under every name: same supertype, description, children and effective features (`SameTs`,
`Spec/MergeSelf.lean`).  The MINIMAL counterpart is `closure_sufficient` (`C02Closure.lean`): the declared subset is closed.
-/
import CassisModel.Proofs.EmbeddedTs

namespace Cassis.Json
open Cassis.TS

/-- histories that also leave DocumentAnnotation alone (its features are not written: the type is implicit) -/
def UserOnlyNoDoc (K : Consts) (ops : List TsOp) : Prop :=
  UserOnly K ops ∧ ∀ op ∈ ops, match op with
    | .createFeature dom _ _ _ _ _ => dom ≠ DOCUMENT_ANNOTATION
    | .createType _ _ _ => True

/-- **the embedded FULL type system reproduces the original** -/
theorem json_full_ts_same (ops : List TsOp) (h : UserOnlyNoDoc Gen.consts ops)
    (cass : List Cas) (ci : Nat) (hp : Heap) (doc : JDoc) (st : Traverse.St)
    (hsave : saveJson Gen.consts (ops.foldl (applyOp Gen.consts) Gen.builtinTS) cass ci hp .full = .ok (doc, st)) :
    ∃ ts', loadTs Gen.consts Gen.builtinTS true doc = .ok ts' ∧
      SameTs (ops.foldl (applyOp Gen.consts) Gen.builtinTS) ts' :=
  json_full_ts_same_aux ops h cass ci hp doc st hsave

end Cassis.Json
