/-
C02 — the type system a JSON document carries is sufficient: loading a document written with `TypeSystemMode.FULL`
*without* supplying a type system reconstructs the original type system.

For every type system built through the API (any history of `create_type` / `create_feature` that declares features on
user types other than DocumentAnnotation) that the `%TYPES` format can carry (`Writable`, `Spec/EmbeddedTs.lean`: no
empty descriptions, no element type on primitive-array features, no primitive element type on FSArray features, no
non-array range named `…[]`, no type named `DocumentAnnotation` without namespace), the type system the loader builds
from the `%TYPES` section of a FULL document — the embedded declarations are created supertypes first, then their
features, and the result is merged into a fresh type system — declares the same under every name: same supertype,
description, children and effective features (`SameTs`, `Spec/MergeSelf.lean`).  The MINIMAL counterpart is
`closure_sufficient` (`C02Closure.lean`): the declared subset is closed.

The statement without the hypothesis `hw` is false:
`json_full_ts_same_as_given_false` below (kernel-checked, `Proofs/EmbeddedTsRefute.lean`); every clause of `Writable`
is forced by an evaluated counterexample (`Proofs/EmbeddedTsCounter.lean`), each reproduced on the implementation.
The hypothesis `hpc : NoPercentNames` (no feature name starts with `%`) is needed as well: a `%TYPES` entry is ONE JSON
object holding the reserved members `%NAME`, `%SUPER_TYPE`, `%DESCRIPTION` and one member per feature, and the reader skips
every member whose key starts with `%` when it creates the features.  A feature `%foo` is lost on load, a feature
`%DESCRIPTION` / `%SUPER_TYPE` replaces the description / the supertype name in the document (the reader then takes the
declaration for the description — the model stops there with `NotImplementedError`: it has no `dict` descriptions — or
raises `TypeError`), a feature `%NAME` makes `to_json` raise `TypeError`.  The model follows the code there
(`renderTypeDecl`, `renderTypeDecls`, `loadEmbeddedTs`); the instances are evaluated in `Proofs/EmbeddedTsPctDemo.lean`
(each satisfies `UserOnlyNoDoc` and `Writable`) and were reproduced on the implementation, modes FULL and MINIMAL.
-/
import CassisModel.Proofs.EmbeddedTs
import CassisModel.Proofs.EmbeddedTsDemo
import CassisModel.Proofs.EmbeddedTsRefute
import CassisModel.Proofs.EmbeddedTsCounter
import CassisModel.Proofs.EmbeddedTsPctDemo

namespace Cassis.Json
open Cassis.TS

/-- histories that also leave DocumentAnnotation alone (its features are not written: the type is implicit) -/
def UserOnlyNoDoc (K : Consts) (ops : List TsOp) : Prop :=
  UserOnly K ops ∧ ∀ op ∈ ops, match op with
    | .createFeature dom _ _ _ _ _ => dom ≠ DOCUMENT_ANNOTATION
    | .createType _ _ _ => True

/-- **the embedded FULL type system reproduces the original** (for type systems the `%TYPES` format can carry) -/
theorem json_full_ts_same (ops : List TsOp) (h : UserOnlyNoDoc Gen.consts ops)
    (hw : Writable Gen.consts (ops.foldl (applyOp Gen.consts) Gen.builtinTS))
    (hpc : NoPercentNames (ops.foldl (applyOp Gen.consts) Gen.builtinTS))
    (cass : List Cas) (ci : Nat) (hp : Heap) (doc : JDoc) (st : Traverse.St)
    (hsave : saveJson Gen.consts (ops.foldl (applyOp Gen.consts) Gen.builtinTS) cass ci hp .full = .ok (doc, st)) :
    ∃ ts', loadTs Gen.consts Gen.builtinTS true doc = .ok ts' ∧
      SameTs (ops.foldl (applyOp Gen.consts) Gen.builtinTS) ts' :=
  json_full_ts_same_aux ops h hw hpc cass ci hp doc st hsave

/-- without `Writable` the statement is false (`create_type("x.A", "uima.cas.TOP", description="")`: the empty
    description is not written) -/
theorem json_full_ts_same_needs_writable :
    ¬ (∀ (ops : List TsOp), UserOnlyNoDoc Gen.consts ops →
        ∀ (cass : List Cas) (ci : Nat) (hp : Heap) (doc : JDoc) (st : Traverse.St),
          saveJson Gen.consts (ops.foldl (applyOp Gen.consts) Gen.builtinTS) cass ci hp .full = .ok (doc, st) →
          ∃ ts', loadTs Gen.consts Gen.builtinTS true doc = .ok ts' ∧
            SameTs (ops.foldl (applyOp Gen.consts) Gen.builtinTS) ts') :=
  json_full_ts_same_as_given_false

/-! Non-vacuity: the hypotheses hold on a history with a chain, a type without namespace, a user subtype of
`uima.cas.String`, a subtype of DocumentAnnotation, a feature redefined identically on a subtype, the reserved feature
name `self`, array ranges with and without element type, `multipleReferencesAllowed` (`Proofs/EmbeddedTsDemo.lean`);
`Writable` and `NoPercentNames` are decidable and evaluated by the kernel. -/
example : UserOnlyNoDoc Gen.consts demoOps ∧
    Writable Gen.consts (demoOps.foldl (applyOp Gen.consts) Gen.builtinTS) ∧
    NoPercentNames (demoOps.foldl (applyOp Gen.consts) Gen.builtinTS) ∧
    ∃ doc st, saveJson Gen.consts (demoOps.foldl (applyOp Gen.consts) Gen.builtinTS) [Cas.empty] 0 [] .full = .ok (doc, st) := by
  rw [demo_eq]
  exact ⟨⟨demo_userOnly, demo_noDoc⟩, demo_writable, demo_noPct, demo_save⟩

example : ∃ doc st ts', saveJson Gen.consts demoTs [Cas.empty] 0 [] .full = .ok (doc, st) ∧
    loadTs Gen.consts Gen.builtinTS true doc = .ok ts' ∧ SameTs demoTs ts' := demo_full_ts_same

end Cassis.Json

#print axioms Cassis.Json.json_full_ts_same
#print axioms Cassis.Json.json_full_ts_same_needs_writable
