/-
C08 — Views are isolated, share ids and types, and every handle sees the same state.

The model keeps ONE `Cas` value for all handles of a CAS (`Model/Cas.lean`), so "every handle observes
and mutates the same state" is the shape of the model; that the code really shares `_views`, `_sofas`
and the generators between handles is what the correspondence check observes.  Proved here: frame
properties (an operation through a handle of view `v` changes nothing in any other view), leniency and
validity of every handle obtainable in any history, read-back of the four sofa fields, the sofa link
that `add` installs and the covered-text equation, and the create-once behaviour of the document annotation.
-/
import CassisModel.Proofs.Cas

namespace Cassis.Cas

/-- every handle ever obtained (create_view / get_view, repeatedly, in any history) keeps the CAS's
    leniency and points to an existing view; view names stay unique and each view has exactly one sofa,
    named after the view -/
theorem handles_history (K : TS.Consts) (ts : TS.TypeSystem) (lenient : Bool) (ops : List COp) :
    HandlesOk lenient (ops.foldl (cstep K ts) (init lenient)) ∧ ViewsOk (ops.foldl (cstep K ts) (init lenient)) :=
  handles_history_aux K ts lenient ops

/-- `add` through a handle of view `v`: every other view (index and sofa) is untouched, the sofa of `v`
    is untouched, and `v`'s index gains exactly the new entry under the structure's type name -/
theorem add_frame (ts : TS.TypeSystem) (cas : Nat) (c c' : Cas) (hp hp' : Heap) (h : Handle) (addr : Nat)
    (keep : Bool) (hadd : add ts cas c hp h addr keep = .ok (c', hp')) :
    (∀ w, w ≠ h.view → getViewRec c' w = getViewRec c w) ∧
    (∃ v v' o e, getViewRec c h.view = some v ∧ getViewRec c' h.view = some v' ∧ hp[addr]? = some o ∧
      v'.sofa = v.sofa ∧ v'.idx = Index.add v.idx o.ty e ∧ e.oid = addr) ∧
    (c'.views.map (·.1)) = (c.views.map (·.1)) :=
  add_frame_aux ts cas c c' hp hp' h addr keep hadd

/-- `add` changes one object only: its id (kept or generated) and its `sofa` slot, which now names the
    view it was added to -/
theorem add_heap (ts : TS.TypeSystem) (cas : Nat) (c c' : Cas) (hp hp' : Heap) (h : Handle) (addr : Nat)
    (keep : Bool) (hadd : add ts cas c hp h addr keep = .ok (c', hp')) :
    hp'.length = hp.length ∧ (∀ b, b ≠ addr → hp'[b]? = hp[b]?) ∧
    ∃ o o', hp[addr]? = some o ∧ hp'[addr]? = some o' ∧ o'.ty = o.ty ∧
      (∀ n, n ≠ "sofa" → alistGet? o'.slots n = alistGet? o.slots n) ∧
      ((alistGet? o.slots "sofa").isSome = true → alistGet? o'.slots "sofa" = some (.sofa cas h.view)) ∧
      ((alistGet? o.slots "sofa") = none → alistGet? o'.slots "sofa" = none) :=
  add_heap_aux ts cas c c' hp hp' h addr keep hadd

theorem remove_frame (c c' : Cas) (hp : Heap) (h : Handle) (addr : Nat) (hr : remove c hp h addr = .ok c') :
    (∀ w, w ≠ h.view → getViewRec c' w = getViewRec c w) ∧
    (∃ v v', getViewRec c h.view = some v ∧ getViewRec c' h.view = some v' ∧ v'.sofa = v.sofa) ∧
    c'.nextXid = c.nextXid ∧ c'.nextSofaNum = c.nextSofaNum :=
  remove_frame_aux c c' hp h addr hr

/-- the four sofa fields read back as last written; the setter of one field leaves the other fields, the
    index of the view and all other views alone; the text setter also recomputes the offset mapping -/
theorem sofa_readback (c c' : Cas) (h : Handle) (f : Sofa → Sofa) (hu : updSofa c h f = .ok c') :
    (∃ v, getViewRec c h.view = some v ∧ getViewRec c' h.view = some { v with sofa := f v.sofa }) ∧
    (∀ w, w ≠ h.view → getViewRec c' w = getViewRec c w) ∧
    c'.nextXid = c.nextXid ∧ c'.nextSofaNum = c.nextSofaNum :=
  sofa_readback_aux c c' h f hu

theorem setSofaString_reads (c c' : Cas) (h : Handle) (t : Option (List Nat)) (hs : setSofaString c h t = .ok c') :
    ∃ v v', getViewRec c h.view = some v ∧ getViewRec c' h.view = some v' ∧ v'.sofa.text = t ∧
      v'.sofa.conv = Offsets.createMapping v.sofa.conv t ∧ v'.sofa.mime = v.sofa.mime ∧
      v'.sofa.uri = v.sofa.uri ∧ v'.sofa.arr = v.sofa.arr ∧ v'.sofa.xid = v.sofa.xid ∧
      v'.sofa.sofaNum = v.sofa.sofaNum ∧ v'.idx = v.idx :=
  setSofaString_reads_aux c c' h t hs

/-- covered text = the `[begin:end)` slice of the text of the view named by the structure's sofa slot,
    i.e. (by `add_heap`) the view it was most recently added to -/
theorem coveredText_spec (cass : List Cas) (hp : Heap) (addr : Nat) (o : Obj) (ci : Nat) (vn : String)
    (c : Cas) (v : View) (b e : Int) (t : List Nat)
    (ho : hp[addr]? = some o) (hs : alistGet? o.slots "sofa" = some (.sofa ci vn))
    (hb : alistGet? o.slots "begin" = some (.int b)) (he : alistGet? o.slots "end" = some (.int e))
    (hc : cass[ci]? = some c) (hv : getViewRec c vn = some v) (ht : v.sofa.text = some t)
    (hb0 : 0 ≤ b) (he0 : 0 ≤ e) :
    coveredText cass hp addr = .ok (some (Offsets.slice t b.toNat e.toNat)) :=
  coveredText_spec_aux cass hp addr o ci vn c v b e t ho hs hb he hc hv ht hb0 he0

/-- document annotation: an indexed instance of the DocumentAnnotation subtree is returned and nothing
    changes … -/
theorem docAnn_existing (ts : TS.TypeSystem) (ti cas : Nat) (c : Cas) (hp : Heap) (h : Handle)
    (e : Index.Entry) (rest : List Index.Entry)
    (hsel : select ts c h TS.DOCUMENT_ANNOTATION = .ok (e :: rest)) :
    getDocumentAnnotation ts ti cas c hp h = .ok (c, hp, e.oid) :=
  docAnn_existing_aux ts ti cas c hp h e rest hsel

/-- … otherwise exactly one is created and indexed in this view, and a second call returns that one -/
theorem docAnn_creates_once (ts : TS.TypeSystem) (hcs : TS.Consistent ts) (ti cas : Nat) (c c' : Cas)
    (hp hp' : Heap) (h : Handle) (a : Nat)
    (hsel : select ts c h TS.DOCUMENT_ANNOTATION = .ok [])
    (hd : getDocumentAnnotation ts ti cas c hp h = .ok (c', hp', a)) :
    a = hp.length ∧ hp'.length = hp.length + 1 ∧
    getDocumentAnnotation ts ti cas c' hp' h = .ok (c', hp', a) :=
  docAnn_creates_once_aux ts hcs ti cas c c' hp hp' h a hsel hd

/-! Non-vacuity (test of a concrete history) -/
example : ((([COp.createView 0 "v2", .getView 1 "_InitialView", .setSofaString 1 (some [97, 98])].foldl
    (cstep Gen.consts Gen.builtinTS) (init true)).handles.map (·.lenient))) = [true, true, true] := by decide

end Cassis.Cas
