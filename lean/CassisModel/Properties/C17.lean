/-
C17 — Lenient loading drops exactly the unknown-typed FS; strict loading refuses.

Proved about the first pass of the XMI reader (`Model/Xmi.lean`, `pass1`), where leniency acts:
strict mode raises type-not-found at the first element of unknown type; lenient mode behaves on a document
exactly as (lenient or strict) mode behaves on the document without the elements of unknown type, except
that it remembers their ids (used later to skip view members); when every type is known the two modes
coincide.  Leniency of view handles is `handles_history` of C08.
The third pass skips exactly the remembered ids (`buildCas_skip_eq_dropped`), the flag itself is irrelevant for
structures of registered types (`buildCas_flag_irrelevant`), and end to end a lenient load of a document is the
strict load of the document without the unknown-typed elements and without their ids in the member lists
(`loadXmi_lenient_eq_strict_filtered`).

"Known" is exact: the reader resolves the type an element names with `get_type(name, match_exactly=True)`
(`getTypeExact`), so a name without namespace that merely matches the short name of a packaged type is unknown (finding L1:
with `get_type(name)` such an element was loaded as an instance of the packaged type — strict loading did not refuse,
lenient loading did not drop it).  Evaluated instance: `Spec/ExactTypeCheck.lean`.
-/
import CassisModel.Proofs.XmiLoad2
import CassisModel.Spec.ExactTypeCheck   -- evaluated instance: `Token` against a type system with `b.type.Token` only

namespace Cassis.Xmi
open Cassis.TS

/-- the elements the reader can parse: sofas, views, and structures whose type the type system defines *under the name
    the element gives* (`get_type(name, match_exactly=True)`; a document names types by their full names, a name without
    namespace that only matches the short name of a packaged type is unknown — finding L1) -/
def knownElem (ts : TypeSystem) (e : XElem) : Bool :=
  e.ty == SOFA || e.ty == VIEW_T || (find? ts e.ty).isSome

/-- strict loading refuses: if the first pass succeeds in strict mode, every element has a known type -/
theorem pass1_strict_all_known (K : Consts) (ts : TypeSystem) (tsIdx : Nat) (doc : XDoc) (s r : Pass1)
    (h : pass1 K ts tsIdx false doc s = .ok r) : ∀ e ∈ doc, knownElem ts e = true :=
  pass1_strict_all_known_aux K ts tsIdx doc s r h

/-- … and it raises type-not-found exactly at the first unknown-typed element -/
theorem pass1_strict_unknown_error (K : Consts) (ts : TypeSystem) (tsIdx : Nat) (pre post : XDoc) (e : XElem)
    (s s1 : Pass1) (hpre : pass1 K ts tsIdx false pre s = .ok s1) (hu : knownElem ts e = false) :
    pass1 K ts tsIdx false (pre ++ e :: post) s = .error .typeNotFound :=
  pass1_strict_unknown_error_aux K ts tsIdx pre post e s s1 hpre hu

/-- lenient loading = loading the document with the unknown-typed elements removed (in either mode),
    up to the remembered ids -/
theorem pass1_lenient_eq_filtered (K : Consts) (ts : TypeSystem) (tsIdx : Nat) (doc : XDoc) (s r : Pass1)
    (h : pass1 K ts tsIdx true doc s = .ok r) (strict : Bool) :
    pass1 K ts tsIdx (!strict) (doc.filter (knownElem ts)) s = .ok { r with lenientIds := s.lenientIds } :=
  pass1_lenient_eq_filtered_aux K ts tsIdx doc s r h strict

/-- leniency never alters how known structures are loaded -/
theorem pass1_known_same (K : Consts) (ts : TypeSystem) (tsIdx : Nat) (doc : XDoc) (s : Pass1)
    (hk : ∀ e ∈ doc, knownElem ts e = true) :
    pass1 K ts tsIdx true doc s = pass1 K ts tsIdx false doc s :=
  pass1_known_same_aux K ts tsIdx doc s hk

/-- the ids lenient loading remembers are exactly the ids of the dropped elements -/
theorem pass1_lenient_ids (K : Consts) (ts : TypeSystem) (tsIdx : Nat) (doc : XDoc) (s r : Pass1)
    (h : pass1 K ts tsIdx true doc s = .ok r) :
    r.lenientIds = s.lenientIds ++
      (doc.filter (fun e => !(knownElem ts e))).filterMap (fun e => (attr e ID).bind Lex.parseInt) :=
  pass1_lenient_ids_aux K ts tsIdx doc s r h

/-! ### the later passes and the end-to-end statement -/

/-- third pass: skipping the remembered ids = their absence from the member lists -/
theorem buildCas_skip_eq_dropped (K : Consts) (ts : TypeSystem) (ci : Nat) (lenient : Bool) (p : Pass1) (hp : Heap) :
    buildCas K ts ci lenient p hp = buildCas K ts ci lenient (dropMembers p.lenientIds p) hp :=
  buildCas_skip_eq_dropped_aux K ts ci lenient p hp

/-- the leniency flag only matters for structures whose type the type system lacks -/
theorem buildCas_flag_irrelevant (K : Consts) (ts : TypeSystem) (ci : Nat) (p : Pass1) (hp : Heap)
    (hk : ∀ q ∈ p.fss, ∀ o : Obj, hp[q.2]? = some o → containsType ts o.ty = true) :
    buildCas K ts ci true p hp = buildCas K ts ci false p hp :=
  buildCas_flag_irrelevant_aux K ts ci p hp hk

/-- **lenient loading = strict loading of the document without the unknown-typed elements and without their
    ids in the view member lists** (what remains may not refer to a dropped structure, or both sides fail) -/
theorem loadXmi_lenient_eq_strict_filtered (K : Consts) (ts : TypeSystem) (tsIdx ci : Nat) (hp : Heap) (doc : XDoc)
    (ld : Loaded) (h : loadXmi K ts tsIdx ci true hp doc = .ok ld) :
    ∃ r : Pass1, pass1 K ts tsIdx true doc { heap := hp } = .ok r ∧
      ∃ ld' : Loaded, loadXmi K ts tsIdx ci false hp ((doc.filter (knownElem ts)).map (dropMembersElem r.lenientIds)) = .ok ld' ∧
        ld'.cas = ld.cas ∧ ld'.heap = ld.heap :=
  loadXmi_lenient_eq_strict_filtered_aux K ts tsIdx ci hp doc ld h

/-- `knownElem` in terms of the lookup the reader performs -/
theorem knownElem_iff (ts : TypeSystem) (e : XElem) :
    knownElem ts e = true ↔ e.ty = SOFA ∨ e.ty = VIEW_T ∨ ∃ t, getTypeExact ts e.ty = .ok t := by
  unfold knownElem
  simp only [Bool.or_eq_true, beq_iff_eq, getTypeExact_isSome, or_assoc]

/-- an element of a registered type is known; an unregistered name is unknown even when `get_type(name)` would find a
    type by short name -/
theorem knownElem_false_of_find_none (ts : TypeSystem) (e : XElem) (h1 : e.ty ≠ SOFA) (h2 : e.ty ≠ VIEW_T)
    (h : find? ts e.ty = none) : knownElem ts e = false := by
  unfold knownElem
  simp [h1, h2, h]

end Cassis.Xmi

#print axioms Cassis.Xmi.pass1_strict_all_known
#print axioms Cassis.Xmi.pass1_strict_unknown_error
#print axioms Cassis.Xmi.pass1_lenient_eq_filtered
#print axioms Cassis.Xmi.pass1_known_same
#print axioms Cassis.Xmi.pass1_lenient_ids
#print axioms Cassis.Xmi.buildCas_skip_eq_dropped
#print axioms Cassis.Xmi.buildCas_flag_irrelevant
#print axioms Cassis.Xmi.loadXmi_lenient_eq_strict_filtered
#print axioms Cassis.Xmi.knownElem_iff
