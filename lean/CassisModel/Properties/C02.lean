/-
C02 — JSON save/load is lossless and carries a sufficient type system.

Proved here (about `Model/Json.lean`): the per-kind encode/decode pairs of the JSON codec (special float
values, array elements incl. the "absent %ELEMENTS = empty array" rule, the `<element>[]` encoding of array
ranges in the embedded type system), the shape of the written document (per view the sofa, then every
collected structure once, ascending distinct ids), the dependency order in which embedded types are
created, and — through C13 — that merging the embedded type system into the supplied one yields one tree.
NOT proved: the end-to-end statement `load (save c) ≈ c` over whole graphs (implementation oracle + model
correspondence, partial).
-/
import CassisModel.Proofs.Json
import CassisModel.Properties.C13

namespace Cassis.Json
open Cassis.TS

/-- NaN and the infinities travel as strings under a `#` key and come back as the same token -/
theorem parseFloatValue_special (t : String) (h : isSpecialFloat t = true) :
    parseFloatValue (floatElem t) = .ok (.float t) :=
  parseFloatValue_special_aux t h

/-- every float token written as an array element is read back (ordinary tokens as numbers) -/
theorem floatElem_roundtrip (t : String) : parseFloatValue (floatElem t) = .ok (.float t) :=
  floatElem_roundtrip_aux t

/-- an absent `%ELEMENTS` member denotes the empty array (the repaired J2/J5) -/
theorem parsePrimArray_absent (ty : String) : parsePrimArray ty none = .ok (.refs []) := by
  simp [parsePrimArray]

theorem intArray_roundtrip (hp : Heap) (ty : String) (l : List Int) (hne : l ≠ [])
    (hty : ty ≠ "uima.cas.ByteArray" ∧ ty ≠ "uima.cas.DoubleArray" ∧ ty ≠ "uima.cas.FloatArray" ∧ ty ≠ FS_ARRAY) :
    ∃ e, arrayElements hp ty (some (.ints l)) = .ok e ∧ parsePrimArray ty e = .ok (.ints l) :=
  intArray_roundtrip_aux hp ty l hne hty

theorem floatArray_roundtrip (hp : Heap) (ty : String) (l : List String) (hne : l ≠ [])
    (hty : ty = "uima.cas.DoubleArray" ∨ ty = "uima.cas.FloatArray") :
    ∃ e, arrayElements hp ty (some (.floats l)) = .ok e ∧ parsePrimArray ty e = .ok (.floats l) :=
  floatArray_roundtrip_aux hp ty l hne hty

/-- the range of a primitive-array feature is written as `<element>[]` and decoded to the same array type
    with no element type (the repaired J3) -/
theorem range_roundtrip_primArray (f : Feature) (h : isPrimitiveArray Gen.consts f.range = true) :
    let jf := renderFeatDecl Gen.consts f
    jf.range.endsWith "[]" = true ∧
    arrayTypeNameFor (String.ofList (jf.range.toList.dropLast.dropLast)) = f.range ∧ jf.elem = none :=
  range_roundtrip_primArray_aux f h

/-- an FSArray feature with a declared element type `e` is written as `e[]`; without one as `uima.cas.TOP[]` -/
theorem range_roundtrip_fsArray (f : Feature) (h : f.range = FS_ARRAY) :
    (renderFeatDecl Gen.consts f).range = (f.elem.getD TOP) ++ "[]" ∧ (renderFeatDecl Gen.consts f).elem = none :=
  range_roundtrip_fsArray_aux f h

/-- every other range is written as it is, with its element type if declared -/
theorem range_roundtrip_other (f : Feature) (h : isArray Gen.consts f.range = false) :
    (renderFeatDecl Gen.consts f).range = f.range ∧ (renderFeatDecl Gen.consts f).elem = f.elem :=
  range_roundtrip_other_aux f h

/-- the written document: per view (the byte array, if any, and) the sofa, then the collected structures
    once each in ascending id order with pairwise distinct ids -/
theorem saveJson_shape (K : Consts) (ts : TypeSystem) (cass : List Cas) (ci : Nat) (hp : Heap) (mode : Mode)
    (doc : JDoc) (st : Traverse.St) (h : saveJson K ts cass ci hp mode = .ok (doc, st)) :
    ∃ (c : Cas) (sofaFss fsElems : List JFs), cass[ci]? = some c ∧ doc.fss = sofaFss ++ fsElems ∧
      fsElems.map (·.id) = (Xmi.sortById st.allFs).map (fun p => some p.1) ∧
      ((Xmi.sortById st.allFs).map (·.1)).Nodup ∧
      doc.views.map (·.name) = c.views.map (fun p => p.2.sofa.sofaID) ∧
      (mode = .none → doc.types = none) :=
  saveJson_shape_aux K ts cass ci hp mode doc st h

/-- embedded types are created supertypes first, whatever the order of the declarations -/
theorem toposort_sound (types : List JType) (order : List String) (h : toposort types = .ok order) :
    (∀ t ∈ types, t.name ∈ order) ∧
    ∀ t ∈ types, t.super ≠ t.name → ∀ i j : Nat, order[i]? = some t.name → order[j]? = some t.super → j < i :=
  toposort_sound_aux types order h

/-! Non-vacuity (tests of concrete instances) -/
example : toposort [{ name := "x.B", super := "x.A" }, { name := "x.A", super := "uima.tcas.Annotation" }] =
    .ok ["uima.tcas.Annotation", "x.A", "x.B"] := by
  unfold toposort
  simp only []
  rw [toposort_go_step1 _ _ 3 _ _ "uima.tcas.Annotation" (by decide) (by decide) (by decide)]
  rw [toposort_go_step1 _ _ 2 _ _ "x.A" (by decide) (by decide) (by decide)]
  rw [toposort_go_step1 _ _ 1 _ _ "x.B" (by decide) (by decide) (by decide)]
  rfl
example : parseFloatValue (floatElem "-Infinity") = .ok (.float "-Infinity") := by rfl
example : (renderFeatDecl Gen.consts { name := "a", domain := "x.T", range := "uima.cas.IntegerArray" }).range = "uima.cas.Integer[]" := by
  decide +kernel

end Cassis.Json
