/-
C09, document level — the XMI loader reseeds the generators above every id and sofaNum of the document.

`P1Bounded` is the invariant of the first pass: every sofa id / sofaNum and every structure id seen so far is at
most `maxId` / `maxNum`.  The third pass sets `nextXid := maxId + 1`, `nextSofaNum := maxNum + 1`.  Consequently,
after a load every id the document mentions, and every id carried by an object the load created, is below the
generator: ids generated afterwards are fresh (this is the `Bounded` precondition of `ids_step`, C09).
The implicit initial view of a document without an `_InitialView` sofa keeps id 1 / sofaNum 1 (finding I5): the
statement about views therefore speaks about the views created from sofas of the document.
-/
import CassisModel.Proofs.XmiIds

namespace Cassis.Xmi
open Cassis.TS

theorem pass1_bounded (K : Consts) (ts : TypeSystem) (tsIdx : Nat) (lenient : Bool) (doc : XDoc) (s r : Pass1)
    (hs : P1Bounded s) (h : pass1 K ts tsIdx lenient doc s = .ok r) :
    P1Bounded r ∧ s.maxId ≤ r.maxId ∧ s.maxNum ≤ r.maxNum :=
  pass1_bounded_aux K ts tsIdx lenient doc s r hs h

/-- every structure registered by the first pass sits in the heap under the id of its element -/
theorem pass1_fss_ids (K : Consts) (ts : TypeSystem) (tsIdx : Nat) (lenient : Bool) (doc : XDoc) (s r : Pass1)
    (hs : ∀ q ∈ s.fss, ∃ o : Obj, s.heap[q.2]? = some o ∧ o.xid = some q.1)
    (h : pass1 K ts tsIdx lenient doc s = .ok r) :
    ∀ q ∈ r.fss, ∃ o : Obj, r.heap[q.2]? = some o ∧ o.xid = some q.1 :=
  pass1_fss_ids_aux K ts tsIdx lenient doc s r hs h

/-- **the loader reseeds above everything the document mentions and everything it created** -/
theorem loadXmi_reseeds (K : Consts) (ts : TypeSystem) (tsIdx ci : Nat) (lenient : Bool) (hp : Heap) (doc : XDoc)
    (ld : Loaded) (h : loadXmi K ts tsIdx ci lenient hp doc = .ok ld) :
    ∃ p : Pass1, pass1 K ts tsIdx lenient doc { heap := hp } = .ok p ∧ P1Bounded p ∧
      ld.cas.nextXid = p.maxId + 1 ∧ ld.cas.nextSofaNum = p.maxNum + 1 ∧
      (∀ q ∈ p.fss, ∃ o : Obj, ld.heap[q.2]? = some o ∧ o.xid = some q.1 ∧ q.1 < ld.cas.nextXid) ∧
      (∀ (a : Nat) (o : Obj) (x : Int), hp.length ≤ a → ld.heap[a]? = some o → o.xid = some x → x < ld.cas.nextXid) ∧
      (∀ q ∈ p.sofas, ∃ v : View, Cas.getViewRec ld.cas q.2.sofaID = some v ∧
        v.sofa.xid < ld.cas.nextXid ∧ v.sofa.sofaNum < ld.cas.nextSofaNum) :=
  loadXmi_reseeds_aux K ts tsIdx ci lenient hp doc ld h

end Cassis.Xmi
