/-
C20 — the comparable text of two *different heaps* that hold isomorphic CASes is the same, and a save/load round trip
produces such a heap.

`Properties/C20.lean` (order) and `Properties/C20Ids.lean` (ids) speak about one heap.  Here:

* `renderFrom_iso` — **invariance under isomorphism**: if the structures collected in `(cass, hp)` and those collected in
  `(cass', hp')` correspond through an address map `φ` (`Iso`, `Spec/ComparableIso.lean`: a bijection between the two
  collected lists that respects the indexed status, the type name, the view, the covered text and every slot value —
  primitives and primitive arrays equal, references to corresponding structures, array objects compared by their
  content, xmi:ids *not* preserved: only their coincidences, `SameKey`), then under the side condition `Distinct` (on one
  side; it transfers, `distinct_iso`) `renderFrom` gives the same result on both sides: the same table or the same
  exception.  The order of the two collected lists, the order and multiplicity of the two indexed lists and the two
  content-hash functions are arbitrary.
* `render_xmi_roundtrip_flat` — **the XMI round trip**: for a CAS in the flat fragment (the hypotheses of
  `xmi_roundtrip_flat`, `Properties/C01RoundTrip.lean`, without `hdis`) whose collected structures satisfy `Distinct`,
  `cas_to_comparable_text(load_cas_from_xmi(cas.to_xmi()))` is `cas_to_comparable_text(cas)`: `render` of the loaded CAS
  (its own traversal of the loaded heap included) and `render` of the original give the same table (or fail alike).
  `xmi_roundtrip_flat_iso` exhibits the isomorphism.
* `render_json_roundtrip_flat` — the same for `load_cas_from_json(cas.to_json())` (hypotheses of `json_roundtrip_flat`).

What the definitions had to get right (evaluated in `Spec/ComparableIsoCheck.lean`):
* ids: `SameKey` is what the anchor map needs — the map is keyed by xmi:id, a later structure with the same id
  overwrites the anchor of an earlier one, and a reference is rendered by looking up the id of its target.  Two collected
  structures that share an id on one side but not on the other give different tables (`cx_key`); a reference to a
  structure that is not collected renders as `None` unless its id is the id of a collected structure (`cx_stale_id`);
* nesting depth: `ValRel` is indexed by a nesting depth; `Iso.slots` asks for it at *some* depth (`∃ d`), with no
  reference to the sizes of the heaps: the recursion budget of the model, `2 * |heap| + 2` (two units per level of array
  nesting), is as good as any larger one (`renderVal_saturated`, `Proofs/ComparableFuel.lean`), so each side may run with
  its own budget.  (The budget used to be `|heap| + 1`, too small for `[[[]]]` in a heap of four objects, and `Iso` had
  to bound the depth by `isoDepth = min |heap| |heap'| + 1` — `cx_depth`, repaired in `Model/Comparable.lean`.)  A cyclic
  nesting of arrays is related to no finite depth, although both sides then fail alike (`RecursionError` in Python,
  `RuntimeError` in the model); `Properties/C20IsoColl.lean` covers that case with a semantic variant of `Iso`;
* arrays are compared by content, so an inlined array that comes back from a load as a new object without id is fine;
  `elements = None` (rendered as `None`) is kept apart from `<NULL>`.

A reachable difference found on the way (outside the flat fragment, and outside the fragment of `xmi_roundtrip_coll`
only through the known equivalence it states): an *empty string* element of a `StringArray` feature is read back from
XMI as `None`, so the comparable text changes from `''` to `'<NULL>'` across `load_cas_from_xmi(cas.to_xmi())`
(`cx_strarray_empty` in the check file; replayed on `/repo`).  `Properties/C20IsoColl.lean` extends the XMI corollary to the
whole format (`render_xmi_roundtrip_coll`) with this and two more hypotheses, each forced by a counterexample.
-/
import CassisModel.Proofs.ComparableIso
import CassisModel.Proofs.ComparableIsoXmi
import CassisModel.Proofs.ComparableIsoJson
import CassisModel.Proofs.ComparableIsoDemo
import CassisModel.Spec.ComparableIsoCheck

namespace Cassis.Comparable
open Cassis.TS Cassis.Traverse Cassis.Xmi

/-- **invariance under isomorphism**: the tables of two isomorphic sides are equal (both `.ok` with the same
    sections, or both the same exception) -/
theorem renderFrom_iso (K : Consts) (ts : TypeSystem) (cass cass' : List Cas) (hp hp' : Heap) (o : Opts)
    (hsh hsh' : Nat → Int) (indexed indexed' addrs addrs' : List Nat) (φ : Nat → Nat)
    (hiso : Iso K cass cass' hp hp' indexed indexed' addrs addrs' φ) (hd : Distinct hp addrs) :
    renderFrom K ts cass' hp' o hsh' indexed' addrs' = renderFrom K ts cass hp o hsh indexed addrs :=
  renderFrom_iso_aux K ts cass cass' hp hp' o hsh hsh' indexed indexed' addrs addrs' φ hiso hd

/-- the side condition holds on one side iff … it transfers along an isomorphism -/
theorem distinct_iso (K : Consts) (cass cass' : List Cas) (hp hp' : Heap) (indexed indexed' addrs addrs' : List Nat)
    (φ : Nat → Nat) (hiso : Iso K cass cass' hp hp' indexed indexed' addrs addrs' φ) (hd : Distinct hp addrs) :
    Distinct hp' addrs' :=
  distinct_iso_aux K cass cass' hp hp' indexed indexed' addrs addrs' φ hiso hd

/-- the condition on ids (`Iso.key`) when the collected ids are pairwise distinct on both sides (what every traversal
    delivers: `findAllFs` gives every collected structure an id of its own): no condition at all -/
theorem sameKey_of_ids_distinct (hp hp' : Heap) (addrs : List Nat) (φ : Nat → Nat)
    (h1 : ∀ a ∈ addrs, ∀ b ∈ addrs, xidOf hp a = xidOf hp b → a = b)
    (h2 : ∀ a ∈ addrs, ∀ b ∈ addrs, xidOf hp' (φ a) = xidOf hp' (φ b) → a = b) :
    ∀ a ∈ addrs, SameKey hp hp' addrs φ a (φ a) :=
  sameKey_of_ids_distinct_aux hp hp' addrs φ h1 h2

/-- a reference to a structure that is not collected and whose id is not the id of a collected structure, on both
    sides (both render as `None`) -/
theorem sameKey_fresh (hp hp' : Heap) (addrs : List Nat) (φ : Nat → Nat) (a a' : Nat)
    (h1 : ∀ b ∈ addrs, xidOf hp b ≠ xidOf hp a) (h2 : ∀ b ∈ addrs, xidOf hp' (φ b) ≠ xidOf hp' a') :
    SameKey hp hp' addrs φ a a' :=
  sameKey_fresh_aux hp hp' addrs φ a a' h1 h2

/-- the XMI round trip on the flat fragment produces an isomorphic CAS: the traversal of the loaded CAS succeeds without
    touching the loaded heap, and what it collects is isomorphic to what the writer collected -/
theorem xmi_roundtrip_flat_iso (K : Consts) (ts : TypeSystem) (cass : List Cas) (ci : Nat) (c : Cas) (hp : Heap)
    (tsIdx : Nat) (doc : XDoc) (st : St)
    (hc : cass[ci]? = some c) (hwf : RTWf c hp) (hnull : NullOk ts)
    (hsave : saveXmi K ts cass ci hp = .ok (doc, st))
    (hflat : ∀ q ∈ st.allFs, FlatFs K ts c ci st.heap q.2)
    (hmem : ∀ nv ∈ c.views, ∀ e ∈ Index.all nv.2.idx, Xmi.slot st.heap e.oid "sofa" ≠ some .none)
    (hmok : MembersOk c st.heap) :
    ∃ (ld : Loaded) (φ : Nat → Nat) (st' : St),
      loadXmi K ts tsIdx cass.length false st.heap doc = .ok ld ∧
      findAllFs K ts {} ld.heap ld.cas.nextXid (defaultSeeds ld.cas) = .ok st' ∧ st'.heap = ld.heap ∧
      Iso K cass (cass ++ [ld.cas]) st.heap ld.heap (defaultSeeds c) (defaultSeeds ld.cas)
        (st.allFs.map (·.2)) (st'.allFs.map (·.2)) φ :=
  xmi_roundtrip_flat_iso_aux K ts cass ci c hp tsIdx doc st hc hwf hnull hsave hflat hmem hmok

/-- **C20 across the XMI round trip (flat fragment)**: the comparable text of the loaded CAS is that of the original.
    The loaded CAS is registered behind the existing ones (`cass ++ [ld.cas]`, index `cass.length`) and lives in the heap
    the loader extended (`ld.heap`); both sides run the whole function, traversal included; options and the two
    content-hash functions are arbitrary.  `Except.map (·.1)` drops the traversal state: equal tables or equal exceptions. -/
theorem render_xmi_roundtrip_flat (K : Consts) (ts : TypeSystem) (cass : List Cas) (ci : Nat) (c : Cas) (hp : Heap)
    (tsIdx : Nat) (doc : XDoc) (st : St) (o : Opts) (hsh hsh' : Nat → Int)
    (hc : cass[ci]? = some c) (hwf : RTWf c hp) (hnull : NullOk ts)
    (hsave : saveXmi K ts cass ci hp = .ok (doc, st))
    (hflat : ∀ q ∈ st.allFs, FlatFs K ts c ci st.heap q.2)
    (hmem : ∀ nv ∈ c.views, ∀ e ∈ Index.all nv.2.idx, Xmi.slot st.heap e.oid "sofa" ≠ some .none)
    (hmok : MembersOk c st.heap)
    (hd : Distinct st.heap (st.allFs.map (·.2))) :
    ∃ ld : Loaded,
      loadXmi K ts tsIdx cass.length false st.heap doc = .ok ld ∧
      (render K ts (cass ++ [ld.cas]) cass.length ld.heap o hsh' none).map (·.1)
        = (render K ts cass ci hp o hsh none).map (·.1) :=
  render_xmi_roundtrip_flat_aux K ts cass ci c hp tsIdx doc st o hsh hsh' hc hwf hnull hsave hflat hmem hmok hd

/-- the JSON round trip on the flat fragment (no embedded type system, the original type system supplied) produces an
    isomorphic CAS.  The JSON writer traverses with `include_inlinable_arrays_and_lists=True`; on the flat fragment
    this is the run `cas_to_comparable_text` makes on the original (second conjunct). -/
theorem json_roundtrip_flat_iso (K : Consts) (ts : TypeSystem) (cass : List Cas) (ci : Nat) (c : Cas) (hp : Heap)
    (tsIdx : Nat) (doc : Json.JDoc) (st : St)
    (hc : cass[ci]? = some c) (hwf : RTWf c hp)
    (hsave : Json.saveJson K ts cass ci hp .none = .ok (doc, st))
    (hflat : ∀ q ∈ st.allFs, FlatFs K ts c ci st.heap q.2)
    (hjson : ∀ q ∈ st.allFs, Json.JsonFs ts st.heap q.2)
    (hids : ∀ nv ∈ c.views, ∀ e ∈ Index.all nv.2.idx, (xidOf hp e.oid).isSome = true)
    (hdis : ∀ q ∈ st.allFs, ∀ nv ∈ c.views, q.1 ≠ nv.2.sofa.xid)
    (hmem : ∀ nv ∈ c.views, ∀ e ∈ Index.all nv.2.idx, Xmi.slot st.heap e.oid "sofa" ≠ some .none)
    (hmok : MembersOk c st.heap) :
    ∃ (ld : Json.Loaded) (φ : Nat → Nat) (st' : St),
      Json.loadJson K ts tsIdx cass.length false false st.heap doc = .ok ld ∧
      findAllFs K ts {} hp c.nextXid (defaultSeeds c) = .ok st ∧
      findAllFs K ts {} ld.heap ld.cas.nextXid (defaultSeeds ld.cas) = .ok st' ∧ st'.heap = ld.heap ∧
      Iso K cass (cass ++ [ld.cas]) st.heap ld.heap (defaultSeeds c) (defaultSeeds ld.cas)
        (st.allFs.map (·.2)) (st'.allFs.map (·.2)) φ :=
  json_roundtrip_flat_iso_aux K ts cass ci c hp tsIdx doc st hc hwf hsave hflat hjson hids hdis hmem hmok

/-- **C20 across the JSON round trip (flat fragment)**: the hypotheses of `json_roundtrip_flat`
    (`Properties/C02RoundTrip.lean`) and `Distinct` -/
theorem render_json_roundtrip_flat (K : Consts) (ts : TypeSystem) (cass : List Cas) (ci : Nat) (c : Cas) (hp : Heap)
    (tsIdx : Nat) (doc : Json.JDoc) (st : St) (o : Opts) (hsh hsh' : Nat → Int)
    (hc : cass[ci]? = some c) (hwf : RTWf c hp)
    (hsave : Json.saveJson K ts cass ci hp .none = .ok (doc, st))
    (hflat : ∀ q ∈ st.allFs, FlatFs K ts c ci st.heap q.2)
    (hjson : ∀ q ∈ st.allFs, Json.JsonFs ts st.heap q.2)
    (hids : ∀ nv ∈ c.views, ∀ e ∈ Index.all nv.2.idx, (xidOf hp e.oid).isSome = true)
    (hdis : ∀ q ∈ st.allFs, ∀ nv ∈ c.views, q.1 ≠ nv.2.sofa.xid)
    (hmem : ∀ nv ∈ c.views, ∀ e ∈ Index.all nv.2.idx, Xmi.slot st.heap e.oid "sofa" ≠ some .none)
    (hmok : MembersOk c st.heap)
    (hd : Distinct st.heap (st.allFs.map (·.2))) :
    ∃ ld : Json.Loaded,
      Json.loadJson K ts tsIdx cass.length false false st.heap doc = .ok ld ∧
      (render K ts (cass ++ [ld.cas]) cass.length ld.heap o hsh' none).map (·.1)
        = (render K ts cass ci hp o hsh none).map (·.1) :=
  render_json_roundtrip_flat_aux K ts cass ci c hp tsIdx doc st o hsh hsh' hc hwf hsave hflat hjson hids hdis hmem hmok hd

/-! ### Non-vacuity

The instance of `Proofs/RoundTripDemo.lean` (two `x.Tok` annotations over the text `a😀b` that refer to each other, one
indexed): all hypotheses of `render_xmi_roundtrip_flat` hold (`Demo.demo_hyps`, `demo_distinct`), so the theorem applies;
the isomorphism it goes through is an instance of `Iso` with a non-empty collected list (two structures, references
between them, a view, covered text).  The evaluated table of the instance (both sides) is quoted in
`Spec/ComparableIsoCheck.lean`. -/

example : ∃ (doc : XDoc) (st : St),
    saveXmi Demo.K Demo.demoTS [Demo.demo.1] 0 Demo.demo.2 = .ok (doc, st) ∧
    [Demo.demo.1][0]? = some Demo.demo.1 ∧ RTWf Demo.demo.1 Demo.demo.2 ∧ NullOk Demo.demoTS ∧
    (∀ q ∈ st.allFs, FlatFs Demo.K Demo.demoTS Demo.demo.1 0 st.heap q.2) ∧
    (∀ nv ∈ Demo.demo.1.views, ∀ e ∈ Index.all nv.2.idx, Xmi.slot st.heap e.oid "sofa" ≠ some .none) ∧
    MembersOk Demo.demo.1 st.heap ∧ Distinct st.heap (st.allFs.map (·.2)) ∧ st.allFs.length = 2 := by
  obtain ⟨doc, st, hs, hc, hwf, hn, hf, _, hm, hmo⟩ := Demo.demo_hyps
  refine ⟨doc, st, hs, hc, hwf, hn, hf, hm, hmo, demo_distinct hs, ?_⟩
  have h := Demo.save_lit
  rw [Demo.demo_lit, Demo.demoTS_eq] at hs
  rw [hs] at h
  simp only [Except.toOption, Option.map_some, Option.some.injEq, Prod.mk.injEq] at h
  rw [h.2]
  rfl

/-- the theorem applied to the instance -/
example : ∃ (doc : XDoc) (st : St) (ld : Loaded),
    saveXmi Demo.K Demo.demoTS [Demo.demo.1] 0 Demo.demo.2 = .ok (doc, st) ∧
    loadXmi Demo.K Demo.demoTS 0 1 false st.heap doc = .ok ld ∧
    (render Demo.K Demo.demoTS ([Demo.demo.1] ++ [ld.cas]) 1 ld.heap {} (fun a => a) none).map (·.1)
      = (render Demo.K Demo.demoTS [Demo.demo.1] 0 Demo.demo.2 {} (fun _ => 0) none).map (·.1) := by
  obtain ⟨doc, st, hs, hc, hwf, hn, hf, _, hm, hmo⟩ := Demo.demo_hyps
  obtain ⟨ld, hl, hr⟩ := render_xmi_roundtrip_flat Demo.K Demo.demoTS [Demo.demo.1] 0 Demo.demo.1 Demo.demo.2 0 doc st
    {} (fun _ => 0) (fun a => a) hc hwf hn hs hf hm hmo (demo_distinct hs)
  exact ⟨doc, st, ld, hs, hl, hr⟩

/-- an instance of `Iso` together with `Distinct` (the hypotheses of `renderFrom_iso`): two different heaps, two
    collected structures -/
example : ∃ (cass cass' : List Cas) (hp hp' : Heap) (indexed indexed' addrs addrs' : List Nat) (φ : Nat → Nat),
    Iso Demo.K cass cass' hp hp' indexed indexed' addrs addrs' φ ∧ Distinct hp addrs ∧ addrs.length = 2 := by
  obtain ⟨doc, st, hs, hc, hwf, hn, hf, _, hm, hmo⟩ := Demo.demo_hyps
  obtain ⟨ld, φ, st', _, _, _, hiso⟩ := xmi_roundtrip_flat_iso Demo.K Demo.demoTS [Demo.demo.1] 0 Demo.demo.1
    Demo.demo.2 0 doc st hc hwf hn hs hf hm hmo
  refine ⟨_, _, _, _, _, _, _, _, φ, hiso, demo_distinct hs, ?_⟩
  have h := Demo.save_lit
  rw [Demo.demo_lit, Demo.demoTS_eq] at hs
  rw [hs] at h
  simp only [Except.toOption, Option.map_some, Option.some.injEq, Prod.mk.injEq] at h
  rw [h.2]
  rfl

/-- the JSON theorem applied to the instance (all hypotheses: `Json.Demo.demo_hypsJ`, `demo_distinctJ`) -/
example : ∃ (doc : Json.JDoc) (st : St) (ld : Json.Loaded),
    Json.saveJson Demo.K Demo.demoTS [Demo.demo.1] 0 Demo.demo.2 .none = .ok (doc, st) ∧
    Distinct st.heap (st.allFs.map (·.2)) ∧
    Json.loadJson Demo.K Demo.demoTS 0 1 false false st.heap doc = .ok ld ∧
    (render Demo.K Demo.demoTS ([Demo.demo.1] ++ [ld.cas]) 1 ld.heap {} (fun a => a) none).map (·.1)
      = (render Demo.K Demo.demoTS [Demo.demo.1] 0 Demo.demo.2 {} (fun _ => 0) none).map (·.1) := by
  obtain ⟨doc, st, hs, hc, hwf, hf, hj, hi, hd, hm, hmo⟩ := Json.Demo.demo_hypsJ
  obtain ⟨ld, hl, hr⟩ := render_json_roundtrip_flat Demo.K Demo.demoTS [Demo.demo.1] 0 Demo.demo.1 Demo.demo.2 0 doc st
    {} (fun _ => 0) (fun a => a) hc hwf hs hf hj hi hd hm hmo (demo_distinctJ hs)
  exact ⟨doc, st, ld, hs, demo_distinctJ hs, hl, hr⟩

#print axioms renderFrom_iso
#print axioms distinct_iso
#print axioms sameKey_of_ids_distinct
#print axioms sameKey_fresh
#print axioms xmi_roundtrip_flat_iso
#print axioms render_xmi_roundtrip_flat
#print axioms json_roundtrip_flat_iso
#print axioms render_json_roundtrip_flat

end Cassis.Comparable
