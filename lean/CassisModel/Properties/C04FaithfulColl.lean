/-
C04 — the written document is faithful: it determines the content of the CAS (XMI, the whole format: arrays and lists,
inlined or shared, included).

The extension of `saveXmi_faithful_flat` (`C04Faithful.lean`) from the flat fragment to the fragment `CollFs`
(`Spec/RoundTripCollFrag.lean`) of the round trip theorem `xmi_roundtrip_coll` (`C01RoundTripColl.lean`), of which it is
a consequence (the reader recovers the content from the document alone, over whatever heap it builds the CAS): if two
CASes of the fragment — possibly in different heaps, at different addresses, built in different orders, in different
lists of CASes — are written to the *same* document, then they have

* the same ids,
* under each id the same type and the same *deep* content of every feature (`featContentC`, `Spec/RoundTripColl.lean`:
  an inlined array or list is its sequence of elements, a shared one a reference to the collection object — which is a
  structure of its own, compared under its id like any other; references are compared by the id of their target),
* the same views (names, sofa ids and numbers, texts, mime types, member ids).

What the content function identifies is exactly what XMI cannot tell apart and what `xmi_roundtrip_coll` recovers: the
identity of *inlined* collection objects, and inside string arrays and string lists a null element and `""`
(`elemVals`, `headVal`).  The non-vacuity instance below contains such a pair: two heaps that differ there (and in their
layout and length) and are written to one document.

Hypotheses: those of `xmi_roundtrip_coll` for each of the two CASes (see `C01RoundTrip.lean`, `C01RoundTripColl.lean`);
`collAppliesB` (`C01AppliesColl.lean`) is a sound computable test for them.
-/
import CassisModel.Proofs.FaithfulColl

namespace Cassis.Xmi
open Cassis.TS Cassis.Traverse

/-- **faithfulness of the XMI writer, collections included** -/
theorem saveXmi_faithful_coll (K : Consts) (ts : TypeSystem)
    (cass₁ cass₂ : List Cas) (ci₁ ci₂ : Nat) (c₁ c₂ : Cas) (hp₁ hp₂ : Heap) (doc : XDoc) (st₁ st₂ : St)
    (hnull : NullOk ts)
    (hc₁ : cass₁[ci₁]? = some c₁) (hwf₁ : RTWf c₁ hp₁) (hsave₁ : saveXmi K ts cass₁ ci₁ hp₁ = .ok (doc, st₁))
    (hcoll₁ : ∀ q ∈ st₁.allFs, CollFs K ts c₁ ci₁ st₁.heap q.2)
    (hdis₁ : ∀ q ∈ st₁.allFs, ∀ nv ∈ c₁.views, q.1 ≠ nv.2.sofa.xid)
    (hmem₁ : ∀ nv ∈ c₁.views, ∀ e ∈ Index.all nv.2.idx, slot st₁.heap e.oid "sofa" ≠ some .none)
    (hmok₁ : MembersOk c₁ st₁.heap)
    (hc₂ : cass₂[ci₂]? = some c₂) (hwf₂ : RTWf c₂ hp₂) (hsave₂ : saveXmi K ts cass₂ ci₂ hp₂ = .ok (doc, st₂))
    (hcoll₂ : ∀ q ∈ st₂.allFs, CollFs K ts c₂ ci₂ st₂.heap q.2)
    (hdis₂ : ∀ q ∈ st₂.allFs, ∀ nv ∈ c₂.views, q.1 ≠ nv.2.sofa.xid)
    (hmem₂ : ∀ nv ∈ c₂.views, ∀ e ∈ Index.all nv.2.idx, slot st₂.heap e.oid "sofa" ≠ some .none)
    (hmok₂ : MembersOk c₂ st₂.heap) :
    -- the same ids
    (sortById st₁.allFs).map (·.1) = (sortById st₂.allFs).map (·.1) ∧
    -- under each id the same type and the same deep content of every feature
    (∀ q₁ ∈ st₁.allFs, ∀ q₂ ∈ st₂.allFs, q₁.1 = q₂.1 →
      ∃ o₁ o₂ : Obj, st₁.heap[q₁.2]? = some o₁ ∧ st₂.heap[q₂.2]? = some o₂ ∧ o₁.ty = o₂.ty ∧
        ∀ t : TypeRec, find? ts o₁.ty = some t → ∀ f ∈ allFeatures t,
          featContentC K st₁.heap q₁.2 f = featContentC K st₂.heap q₂.2 f) ∧
    -- the same views
    c₁.views.map (viewContent st₁.heap) = c₂.views.map (viewContent st₂.heap) :=
  saveXmi_faithful_coll_aux K ts cass₁ cass₂ ci₁ ci₂ c₁ c₂ hp₁ hp₂ doc st₁ st₂ hnull
    hc₁ hwf₁ hsave₁ hcoll₁ hdis₁ hmem₁ hmok₁ hc₂ hwf₂ hsave₂ hcoll₂ hdis₂ hmem₂ hmok₂

/-! ### Non-vacuity

`CollDemo.hp` (`Spec/RoundTripCollCheck.lean`: an annotation with an inlined feature of every array and list kind and
shared arrays and lists, a second structure, one view) and `CollDemo.hpB` (`Proofs/FaithfulColl.lean`): the same CAS in
another heap layout — two inlined array objects have changed places, the inlined StringArray `["a b", "", null, "c"]`
is `["a b", null, "", "c"]`, and the heap is longer by an unreachable object.  The heaps differ, both satisfy all
hypotheses (`CollDemo.two_layouts`; Boolean checkers proved sound, evaluated by the kernel), and both are written to
the same document.  The theorem applies to the pair. -/

example : CollDemo.hp ≠ CollDemo.hpB ∧ CollDemo.hpB.length = CollDemo.hp.length + 1 :=
  ⟨CollDemo.hpB_ne, CollDemo.hpB_length⟩

/-- the two string arrays that differ in null / `""` have the same content -/
example : elemVals CollDemo.hp (.strs [some "a b", some "", none, some "c"]) =
    elemVals CollDemo.hpB (.strs [some "a b", none, some "", some "c"]) := by simp [elemVals]

example : ∃ (doc : XDoc) (st₁ st₂ : St),
    saveXmi CollDemo.K CollDemo.ts [CollDemo.cas] 0 CollDemo.hp = .ok (doc, st₁) ∧
    saveXmi CollDemo.K CollDemo.ts [CollDemo.cas] 0 CollDemo.hpB = .ok (doc, st₂) ∧
    (sortById st₁.allFs).map (·.1) = (sortById st₂.allFs).map (·.1) ∧
    (∀ q₁ ∈ st₁.allFs, ∀ q₂ ∈ st₂.allFs, q₁.1 = q₂.1 →
      ∃ o₁ o₂ : Obj, st₁.heap[q₁.2]? = some o₁ ∧ st₂.heap[q₂.2]? = some o₂ ∧ o₁.ty = o₂.ty ∧
        ∀ t : TypeRec, find? CollDemo.ts o₁.ty = some t → ∀ f ∈ allFeatures t,
          featContentC CollDemo.K st₁.heap q₁.2 f = featContentC CollDemo.K st₂.heap q₂.2 f) ∧
    CollDemo.cas.views.map (viewContent st₁.heap) = CollDemo.cas.views.map (viewContent st₂.heap) := by
  obtain ⟨doc, st₁, st₂, hs₁, hs₂, hn, hwf₁, hf₁, hd₁, hm₁, hmo₁, hwf₂, hf₂, hd₂, hm₂, hmo₂⟩ := CollDemo.two_layouts
  exact ⟨doc, st₁, st₂, hs₁, hs₂,
    saveXmi_faithful_coll CollDemo.K CollDemo.ts [CollDemo.cas] [CollDemo.cas] 0 0 CollDemo.cas CollDemo.cas
      CollDemo.hp CollDemo.hpB doc st₁ st₂ hn rfl hwf₁ hs₁ hf₁ hd₁ hm₁ hmo₁ rfl hwf₂ hs₂ hf₂ hd₂ hm₂ hmo₂⟩

#print axioms saveXmi_faithful_coll
#print axioms CollDemo.two_layouts

end Cassis.Xmi
