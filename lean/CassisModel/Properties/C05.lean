/-
C05 — Loading depends on what a document says, not on how it is laid out.

Proved: both loaders resolve references through id-keyed maps, and looking an id up does not depend on
the order in which the entries were recorded (distinct ids); the sofa and view records the XMI reader
collects are the same maps for every order of the elements; embedded JSON types are created supertypes
first whatever the order of declaration (`toposort_sound`, C02).
NOT proved: equality of the whole loaded CAS across layouts (checked per run, partial).  Prefixes,
attribute order, whitespace, escaping, JSON member order are not part of the abstract documents.
-/
import CassisModel.Proofs.XmiLoad
import CassisModel.Properties.C02

namespace Cassis.Xmi
open Cassis.TS

/-- looking a structure up by id does not depend on the order of the recorded pairs -/
theorem lookupFs_perm (fss fss' : List (Int × Nat)) (hp : fss.Perm fss') (hn : (fss.map (·.1)).Nodup) (i : Int) :
    lookupFs fss i = lookupFs fss' i :=
  lookupFs_perm_aux fss fss' hp hn i

/-- hence neither does the resolution of a list of references -/
theorem resolveIds_perm (fss fss' : List (Int × Nat)) (hp : fss.Perm fss') (hn : (fss.map (·.1)).Nodup) (toks : List String) :
    resolveIds fss toks = resolveIds fss' toks :=
  resolveIds_perm_aux fss fss' hp hn toks

/-- sofa elements anywhere in the document: the recorded sofas, as a map from xmi:id, do not depend on the
    order of the elements (documents with pairwise distinct sofa ids) -/
theorem pass1_sofas_perm (K : Consts) (ts : TypeSystem) (tsIdx : Nat) (lenient : Bool) (doc doc' : XDoc)
    (hperm : doc.Perm doc') (s r r' : Pass1)
    (h : pass1 K ts tsIdx lenient doc s = .ok r) (h' : pass1 K ts tsIdx lenient doc' s = .ok r')
    (hs : s.sofas = []) (hn : (r.sofas.map (·.1)).Nodup) (hlen : r.sofas.length = (doc.filter (fun e => e.ty == SOFA)).length) :
    r.sofas.Perm r'.sofas :=
  pass1_sofas_perm_aux K ts tsIdx lenient doc doc' hperm s r r' h h' hs hn hlen

end Cassis.Xmi

namespace Cassis.Json

/-- the JSON loader's id-keyed map: lookup does not depend on the order of recording -/
theorem lookup_perm (fss fss' : List (Int × Val)) (hp : fss.Perm fss') (hn : (fss.map (·.1)).Nodup) (i : Int) :
    lookup fss i = lookup fss' i :=
  lookup_perm_aux fss fss' hp hn i

end Cassis.Json
