/-
C20, sensitivity half — the comparable table is different whenever the content differs — and totality.

`Properties/C20.lean` and `C20Ids.lean` prove that `renderFrom` (everything `cas_to_comparable_text` does after the
traversal) ignores ids, creation order and the content hash.  Here the converse, at the level of the **complete table**:
two successful runs of `renderFrom` on inputs that differ in one point give different tables.  "Differ in one point" is
a point update: the second heap is the first after one `setattr` (`Heap.setSlot`), or the second indexed list differs in
the membership of one structure.  Beyond that point the second run may use any order of the collected list, any order
/ multiplicity of the indexed list and any content hash (the hash of a structure changes with its content): the side
condition `Distinct` makes these irrelevant (`renderFrom_perm_invariant`).

One theorem per clause of the property:

1. `renderFrom_prim_sensitive`            a primitive feature value (not an offset) of a collected structure;
2. `renderFrom_offset_sensitive`          `begin` or `end` of a collected annotation;
3. `renderFrom_ref_sensitive`             the target of a reference feature;
4. `renderFrom_fsarray_elem_sensitive`    an element of an FSArray shown in a feature column, `…_own`: of an FSArray that is
                                          itself collected; `renderFrom_primarray_sensitive`, `…_own`: the elements of a
                                          primitive array;
5. `renderFrom_view_sensitive`            the view (`sofa` slot);
6. `renderFrom_indexed_sensitive`         the indexed status (with `mark_indexed`).

Hypotheses that are not in the property text, each forced by an evaluated counterexample (`Spec/ComparableSensCheck.lean`):

* the type of the changed structure is not in `exclude_types`                         (all clauses; `cex_excluded`);
* `XidInj`: collected structures have pairwise different ids                          (2–6; holds for what `_find_all_fs`
  delivers: `xidInj_of_findAllFs`; `cex_xid`);
* `PrimDiffer`: `None` and the string `<NULL>` are written alike                      (1; documented; `cex_null`);
* clause 3/4: both targets are collected (`cex_uncollected`), are not arrays (a reference to an array is shown as the
  array's elements, not as its anchor: `cex_array_target`) and their anchor texts do not end in `)` (`AnchorPlain`;
  `cex_ref`, `cex_fsarray`);
* clause 5: neither sofaID ends in `)` (`NoParenEnd`; `cex_view`).

The last two are needed because the disambiguation counter `(n)` is appended to the anchor text without a separator:
with two types of the same short name, `a.T`@`V` second of its text gets the anchor `T[0-1]*@V(1)`, which is also the
anchor of a `T[0-1]` in a view called `V(1)`.  **The counterexamples `cex_view`, `cex_ref` and `cex_array_target` are
reachable through the public API on CASes that satisfy the side condition of C20 and were replayed on the Python code:
the property text fails there** (see the header of `Spec/ComparableSensCheck.lean` for the Python snippets).

Totality: `renderFrom_total` — no exception when every collected structure has a registered type, a `sofa` slot that is
absent or points to an existing view, non-negative offsets where covered text is shown, and arrays have their `elements`
slot and are nested within the recursion budget of the model (`WellNested`, `RowOk`; the budget is `2 * |heap| + 2`,
two units per level of array nesting, which every acyclic nesting fits into — it used to be `|heap| + 1`, see
`Spec/ComparableSensCheck.lean` §C).
-/
import CassisModel.Proofs.ComparableSens
import CassisModel.Proofs.ComparableSensTotal
import CassisModel.Proofs.ComparableSensIds
import CassisModel.Proofs.ComparableSensDemo
import CassisModel.Spec.ComparableSensCheck

namespace Cassis.Comparable
open Cassis.TS Cassis.Traverse

/-- **1. primitive feature value.**  `a` is a collected structure of a shown type that is not an array, `f` one of its
    feature columns other than the offsets, holding `p`; the second heap is the first after `a.f = p'`, where `p` and `p'`
    are two values the table can tell apart (`PrimDiffer`).  Then the two tables differ. -/
theorem renderFrom_prim_sensitive (K : Consts) (ts : TypeSystem) (cass : List Cas) (hp hp' : Heap) (o : Opts)
    (hsh hsh' : Nat → Int) (indexed indexed' addrs addrs' : List Nat)
    (hperm : addrs.Perm addrs') (hidx : ∀ x, x ∈ indexed ↔ x ∈ indexed') (hn : addrs.Nodup) (hd : Distinct hp addrs)
    (a : Nat) (f : String) (p p' : Val) (t : TypeRec)
    (ha : a ∈ addrs) (hex : o.exclude.contains (tyOf hp a) = false) (harr : isArrayFs K hp a = false)
    (ht : getType ts (tyOf hp a) = .ok t) (hf : f ∈ columns t) (hfb : f ≠ "begin") (hfe : f ≠ "end")
    (hs : slot hp a f = some p) (hset : Heap.setSlot hp a f p' = .ok hp') (hdiff : PrimDiffer p p')
    (secs secs' : List Section)
    (h : renderFrom K ts cass hp o hsh indexed addrs = .ok secs)
    (h' : renderFrom K ts cass hp' o hsh' indexed' addrs' = .ok secs') : secs ≠ secs' :=
  renderFrom_prim_sensitive_aux K ts cass hp hp' o hsh hsh' indexed indexed' addrs addrs' hperm hidx hn hd a f p p' t
    ha hex harr ht hf hfb hfe hs hset hdiff secs secs' h h'

/-- **2. offset.**  `a` is a collected annotation (it has integer `begin` and `end`) of a shown type; the second heap is
    the first after `a.begin = p'` or `a.end = p'` with `p' ≠ p`; both heaps satisfy the side condition.  Then the two
    tables differ (the row of `a` may also move). -/
theorem renderFrom_offset_sensitive (K : Consts) (ts : TypeSystem) (cass : List Cas) (hp hp' : Heap) (o : Opts)
    (hsh hsh' : Nat → Int) (indexed indexed' addrs addrs' : List Nat)
    (hperm : addrs.Perm addrs') (hidx : ∀ x, x ∈ indexed ↔ x ∈ indexed') (hn : addrs.Nodup)
    (hd : Distinct hp addrs) (hd' : Distinct hp' addrs) (hx : XidInj hp addrs)
    (a : Nat) (f : String) (p p' : Int)
    (ha : a ∈ addrs) (hex : o.exclude.contains (tyOf hp a) = false) (hann : isAnnot hp a = true)
    (hf : f = "begin" ∨ f = "end")
    (hs : slot hp a f = some (.int p)) (hset : Heap.setSlot hp a f (.int p') = .ok hp') (hne : p ≠ p')
    (secs secs' : List Section)
    (h : renderFrom K ts cass hp o hsh indexed addrs = .ok secs)
    (h' : renderFrom K ts cass hp' o hsh' indexed' addrs' = .ok secs') : secs ≠ secs' :=
  renderFrom_offset_sensitive_aux K ts cass hp hp' o hsh hsh' indexed indexed' addrs addrs' hperm hidx hn hd hd' hx
    a f p p' ha hex hann hf hs hset hne secs secs' h h'

/-- **3. reference target.**  The feature column `f` of the collected structure `a` refers to `x`; the second heap is
    the first after `a.f = y`.  `x ≠ y` are collected, not arrays, and their anchor texts do not end in `)`.  Then the
    two tables differ. -/
theorem renderFrom_ref_sensitive (K : Consts) (ts : TypeSystem) (cass : List Cas) (hp hp' : Heap) (o : Opts)
    (hsh hsh' : Nat → Int) (indexed indexed' addrs addrs' : List Nat)
    (hperm : addrs.Perm addrs') (hidx : ∀ x, x ∈ indexed ↔ x ∈ indexed') (hn : addrs.Nodup) (hd : Distinct hp addrs)
    (hx : XidInj hp addrs)
    (a : Nat) (f : String) (x y : Nat) (t : TypeRec)
    (ha : a ∈ addrs) (hex : o.exclude.contains (tyOf hp a) = false) (harr : isArrayFs K hp a = false)
    (ht : getType ts (tyOf hp a) = .ok t) (hf : f ∈ columns t) (hfb : f ≠ "begin") (hfe : f ≠ "end")
    (hs : slot hp a f = some (.ref x)) (hset : Heap.setSlot hp a f (.ref y) = .ok hp')
    (hxy : x ≠ y) (hxa : x ∈ addrs) (hya : y ∈ addrs)
    (hxarr : isArrayFs K hp x = false) (hyarr : isArrayFs K hp y = false)
    (px : AnchorPlain cass hp indexed o x) (py : AnchorPlain cass hp indexed o y)
    (secs secs' : List Section)
    (h : renderFrom K ts cass hp o hsh indexed addrs = .ok secs)
    (h' : renderFrom K ts cass hp' o hsh' indexed' addrs' = .ok secs') : secs ≠ secs' :=
  renderFrom_ref_sensitive_aux K ts cass hp hp' o hsh hsh' indexed indexed' addrs addrs' hperm hidx hn hd hx
    a f x y t ha hex harr ht hf hfb hfe hs hset hxy hxa hya hxarr hyarr px py secs secs' h h'

/-- **4a. FSArray element, array shown in a feature column.**  The feature column `f` of the collected structure `a`
    refers to the array object `arr` whose `elements` are `l`, with `x` at position `i`; the second heap is the first
    after `arr.elements[i] = y`.  `x ≠ y` as in clause 3.  Then the two tables differ. -/
theorem renderFrom_fsarray_elem_sensitive (K : Consts) (ts : TypeSystem) (cass : List Cas) (hp hp' : Heap) (o : Opts)
    (hsh hsh' : Nat → Int) (indexed indexed' addrs addrs' : List Nat)
    (hperm : addrs.Perm addrs') (hidx : ∀ x, x ∈ indexed ↔ x ∈ indexed') (hn : addrs.Nodup) (hd : Distinct hp addrs)
    (hx : XidInj hp addrs)
    (a : Nat) (f : String) (arr : Nat) (l : List (Option Nat)) (i x y : Nat) (t : TypeRec)
    (ha : a ∈ addrs) (hex : o.exclude.contains (tyOf hp a) = false) (harr : isArrayFs K hp a = false)
    (ht : getType ts (tyOf hp a) = .ok t) (hf : f ∈ columns t)
    (hs : slot hp a f = some (.ref arr)) (hisarr : isArrayFs K hp arr = true)
    (hel : slot hp arr "elements" = some (.refs l)) (hi : l[i]? = some (some x))
    (hset : Heap.setSlot hp arr "elements" (.refs (l.set i (some y))) = .ok hp')
    (hxy : x ≠ y) (hxa : x ∈ addrs) (hya : y ∈ addrs)
    (hxarr : isArrayFs K hp x = false) (hyarr : isArrayFs K hp y = false)
    (px : AnchorPlain cass hp indexed o x) (py : AnchorPlain cass hp indexed o y)
    (secs secs' : List Section)
    (h : renderFrom K ts cass hp o hsh indexed addrs = .ok secs)
    (h' : renderFrom K ts cass hp' o hsh' indexed' addrs' = .ok secs') : secs ≠ secs' :=
  renderFrom_fsarray_elem_sensitive_aux K ts cass hp hp' o hsh hsh' indexed indexed' addrs addrs' hperm hidx hn hd hx
    a f arr l i x y t ha hex harr ht hf hs hisarr hel hi hset hxy hxa hya hxarr hyarr px py secs secs' h h'

/-- **4b. FSArray element, the array is itself collected** (an indexed array, or one reached through a feature that
    allows multiple references) and its type is shown. -/
theorem renderFrom_fsarray_elem_sensitive_own (K : Consts) (ts : TypeSystem) (cass : List Cas) (hp hp' : Heap)
    (o : Opts) (hsh hsh' : Nat → Int) (indexed indexed' addrs addrs' : List Nat)
    (hperm : addrs.Perm addrs') (hidx : ∀ x, x ∈ indexed ↔ x ∈ indexed') (hn : addrs.Nodup) (hd : Distinct hp addrs)
    (hx : XidInj hp addrs)
    (arr : Nat) (l : List (Option Nat)) (i x y : Nat)
    (ha : arr ∈ addrs) (hex : o.exclude.contains (tyOf hp arr) = false) (hisarr : isArrayFs K hp arr = true)
    (hel : slot hp arr "elements" = some (.refs l)) (hi : l[i]? = some (some x))
    (hset : Heap.setSlot hp arr "elements" (.refs (l.set i (some y))) = .ok hp')
    (hxy : x ≠ y) (hxa : x ∈ addrs) (hya : y ∈ addrs)
    (hxarr : isArrayFs K hp x = false) (hyarr : isArrayFs K hp y = false)
    (px : AnchorPlain cass hp indexed o x) (py : AnchorPlain cass hp indexed o y)
    (secs secs' : List Section)
    (h : renderFrom K ts cass hp o hsh indexed addrs = .ok secs)
    (h' : renderFrom K ts cass hp' o hsh' indexed' addrs' = .ok secs') : secs ≠ secs' :=
  renderFrom_fsarray_elem_sensitive_own_aux K ts cass hp hp' o hsh hsh' indexed indexed' addrs addrs' hperm hidx hn hd hx
    arr l i x y ha hex hisarr hel hi hset hxy hxa hya hxarr hyarr px py secs secs' h h'

/-- **4c. primitive array, shown in a feature column.**  The `elements` of the array object `arr` referred to by the
    feature column `f` of `a` are replaced by a different list of the same element type (`PrimArrDiffer`: any change of
    any element, or of the length). -/
theorem renderFrom_primarray_sensitive (K : Consts) (ts : TypeSystem) (cass : List Cas) (hp hp' : Heap) (o : Opts)
    (hsh hsh' : Nat → Int) (indexed indexed' addrs addrs' : List Nat)
    (hperm : addrs.Perm addrs') (hidx : ∀ x, x ∈ indexed ↔ x ∈ indexed') (hn : addrs.Nodup) (hd : Distinct hp addrs)
    (a : Nat) (f : String) (arr : Nat) (v v' : Val) (t : TypeRec)
    (ha : a ∈ addrs) (hex : o.exclude.contains (tyOf hp a) = false) (harr : isArrayFs K hp a = false)
    (ht : getType ts (tyOf hp a) = .ok t) (hf : f ∈ columns t)
    (hs : slot hp a f = some (.ref arr)) (hisarr : isArrayFs K hp arr = true)
    (hel : slot hp arr "elements" = some v)
    (hset : Heap.setSlot hp arr "elements" v' = .ok hp') (hdiff : PrimArrDiffer v v')
    (secs secs' : List Section)
    (h : renderFrom K ts cass hp o hsh indexed addrs = .ok secs)
    (h' : renderFrom K ts cass hp' o hsh' indexed' addrs' = .ok secs') : secs ≠ secs' :=
  renderFrom_primarray_sensitive_aux K ts cass hp hp' o hsh hsh' indexed indexed' addrs addrs' hperm hidx hn hd
    a f arr v v' t ha hex harr ht hf hs hisarr hel hset hdiff secs secs' h h'

/-- **4d. primitive array that is itself collected.** -/
theorem renderFrom_primarray_sensitive_own (K : Consts) (ts : TypeSystem) (cass : List Cas) (hp hp' : Heap)
    (o : Opts) (hsh hsh' : Nat → Int) (indexed indexed' addrs addrs' : List Nat)
    (hperm : addrs.Perm addrs') (hidx : ∀ x, x ∈ indexed ↔ x ∈ indexed') (hn : addrs.Nodup) (hd : Distinct hp addrs)
    (arr : Nat) (v v' : Val)
    (ha : arr ∈ addrs) (hex : o.exclude.contains (tyOf hp arr) = false) (hisarr : isArrayFs K hp arr = true)
    (hel : slot hp arr "elements" = some v)
    (hset : Heap.setSlot hp arr "elements" v' = .ok hp') (hdiff : PrimArrDiffer v v')
    (secs secs' : List Section)
    (h : renderFrom K ts cass hp o hsh indexed addrs = .ok secs)
    (h' : renderFrom K ts cass hp' o hsh' indexed' addrs' = .ok secs') : secs ≠ secs' :=
  renderFrom_primarray_sensitive_own_aux K ts cass hp hp' o hsh hsh' indexed indexed' addrs addrs' hperm hidx hn hd
    arr v v' ha hex hisarr hel hset hdiff secs secs' h h'

/-- **5. view.**  The `sofa` slot of the collected structure `a` (of a shown type) holds the sofa of view `vn` of CAS `ci`;
    the second heap is the first after `a.sofa = <sofa of view vn' of CAS ci'>`; the two views have different sofaIDs,
    neither of which ends in `)`.  Then the two tables differ. -/
theorem renderFrom_view_sensitive (K : Consts) (ts : TypeSystem) (cass : List Cas) (hp hp' : Heap) (o : Opts)
    (hsh hsh' : Nat → Int) (indexed indexed' addrs addrs' : List Nat)
    (hperm : addrs.Perm addrs') (hidx : ∀ x, x ∈ indexed ↔ x ∈ indexed') (hn : addrs.Nodup) (hd : Distinct hp addrs)
    (hx : XidInj hp addrs)
    (a ci ci' : Nat) (vn vn' : String) (c c' : Cas) (v v' : View)
    (ha : a ∈ addrs) (hex : o.exclude.contains (tyOf hp a) = false)
    (hs : slot hp a "sofa" = some (.sofa ci vn)) (hset : Heap.setSlot hp a "sofa" (.sofa ci' vn') = .ok hp')
    (hc : cass[ci]? = some c) (hv : Cas.getViewRec c vn = some v)
    (hc' : cass[ci']? = some c') (hv' : Cas.getViewRec c' vn' = some v')
    (hne : v.sofa.sofaID ≠ v'.sofa.sofaID) (hp1 : NoParenEnd v.sofa.sofaID) (hp2 : NoParenEnd v'.sofa.sofaID)
    (secs secs' : List Section)
    (h : renderFrom K ts cass hp o hsh indexed addrs = .ok secs)
    (h' : renderFrom K ts cass hp' o hsh' indexed' addrs' = .ok secs') : secs ≠ secs' :=
  renderFrom_view_sensitive_aux K ts cass hp hp' o hsh hsh' indexed indexed' addrs addrs' hperm hidx hn hd hx
    a ci ci' vn vn' c c' v v' ha hex hs hset hc hv hc' hv' hne hp1 hp2 secs secs' h h'

/-- **6. indexed status.**  With `mark_indexed`, a collected structure `a` of a shown type that is indexed in one call
    and not in the other makes the tables differ — whatever else differs between the two indexed lists. -/
theorem renderFrom_indexed_sensitive (K : Consts) (ts : TypeSystem) (cass : List Cas) (hp : Heap) (o : Opts)
    (hsh hsh' : Nat → Int) (indexed indexed' addrs addrs' : List Nat)
    (hperm : addrs.Perm addrs') (hn : addrs.Nodup) (hd : Distinct hp addrs) (hx : XidInj hp addrs)
    (a : Nat) (ha : a ∈ addrs) (hex : o.exclude.contains (tyOf hp a) = false)
    (hmark : o.markIndexed = true) (hin : a ∈ indexed) (hnin : a ∉ indexed')
    (secs secs' : List Section)
    (h : renderFrom K ts cass hp o hsh indexed addrs = .ok secs)
    (h' : renderFrom K ts cass hp o hsh' indexed' addrs' = .ok secs') : secs ≠ secs' :=
  renderFrom_indexed_sensitive_aux K ts cass hp o hsh hsh' indexed indexed' addrs addrs' hperm hn hd hx
    a ha hex hmark hin hnin secs secs' h h'

/-- **totality.**  `renderFrom` does not raise on well-formed input: arrays are nested without a cycle and within the
    recursion budget `2 * |heap| + 2` (`need` is the certificate, `WellNested`), and every collected structure has a registered type, a
    `sofa` slot that is absent or points to an existing view, a sofa and non-negative offsets where covered text is
    shown, and — if it is an array — an `elements` slot (`RowOk`). -/
theorem renderFrom_total (K : Consts) (ts : TypeSystem) (cass : List Cas) (hp : Heap) (o : Opts) (hsh : Nat → Int)
    (indexed addrs : List Nat) (need : Nat → Nat) (wn : WellNested K hp need)
    (hrow : ∀ a ∈ addrs, RowOk K ts cass hp o need a) :
    ∃ secs, renderFrom K ts cass hp o hsh indexed addrs = .ok secs :=
  renderFrom_total_aux K ts cass hp o hsh indexed addrs need wn hrow

/-- the side condition `XidInj` holds for the list `cas_to_comparable_text` passes on (`render` calls `renderFrom` with
    `st.heap` and `st.allFs.map (·.2)` of a successful `findAllFs`) -/
theorem xidInj_of_findAllFs (K : Consts) (ts : TypeSystem) (o : Traverse.Opts) (hp : Heap) (nx : Int)
    (seeds : List Nat) (st : St) (h : findAllFs K ts o hp nx seeds = .ok st) :
    XidInj st.heap (st.allFs.map (·.2)) :=
  xidInj_of_findAllFs_aux K ts o hp nx seeds st h

/-- a structure with a sofa whose id does not end in `)` has a plain anchor text (a decidable sufficient condition for
    `AnchorPlain`) -/
theorem anchorPlain_of_sofaID (cass : List Cas) (hp : Heap) (indexed : List Nat) (o : Opts) (a ci : Nat) (vn : String)
    (c : Cas) (v : View) (hs : slot hp a "sofa" = some (.sofa ci vn)) (hc : cass[ci]? = some c)
    (hv : Cas.getViewRec c vn = some v) (hp' : NoParenEnd v.sofa.sofaID) : AnchorPlain cass hp indexed o a :=
  anchorPlain_of_sofa hs hc hv hp'

/-! ### Non-vacuity

One instance for all theorems (`Proofs/ComparableSensDemo.lean`): the built-in type system plus `x.Tok` (an annotation
type with an Integer feature `n`, a reference feature `r`, an FSArray feature `arr` and an IntegerArray feature `ia`), a
CAS with the views `V` and `W`, four `x.Tok` annotations (three in `V`, one in `W`), an FSArray and an IntegerArray; all
six collected.  The hypotheses are checked by the kernel (Boolean checkers, `decide +kernel`); that both runs succeed
follows from `renderFrom_total` (the anchor computation itself does not evaluate in the kernel: `String.splitOn`). -/

section NonVacuity
open SensDemo

/-- 1: `n` of structure 0 changed from 7 to 8; second run with another order, indexed list and hash -/
example : ∃ secs secs', renderFrom K tsD [casD] hpD {} hshD idxD addrsD = .ok secs ∧
    renderFrom K tsD [casD] hpPrim {} hshD' idxD' addrsD' = .ok secs' ∧ secs ≠ secs' := by
  obtain ⟨secs, h⟩ := total_first hshD idxD
  obtain ⟨secs', h'⟩ := total_hpPrim hshD' idxD'
  exact ⟨secs, secs', h, h', renderFrom_prim_sensitive K tsD [casD] hpD hpPrim {} hshD hshD' idxD idxD' addrsD addrsD'
    perm_addrs idx_iff nodup_addrs distinct_hpD 0 "n" (.int 7) (.int 8) tokT mem0 (notExcl 0) notArr0 getType0 n_col
    (by decide) (by decide) slot_n set_prim (by decide) secs secs' h h'⟩

/-- 2: `end` of structure 1 changed from 2 to 3 -/
example : ∃ secs secs', renderFrom K tsD [casD] hpD {} hshD idxD addrsD = .ok secs ∧
    renderFrom K tsD [casD] hpOff {} hshD' idxD' addrsD' = .ok secs' ∧ secs ≠ secs' := by
  obtain ⟨secs, h⟩ := total_first hshD idxD
  obtain ⟨secs', h'⟩ := total_hpOff hshD' idxD'
  exact ⟨secs, secs', h, h', renderFrom_offset_sensitive K tsD [casD] hpD hpOff {} hshD hshD' idxD idxD' addrsD addrsD'
    perm_addrs idx_iff nodup_addrs distinct_hpD distinct_hpOff xidInj_hpD 1 "end" 2 3 mem1 (notExcl 1) annot1
    (Or.inr rfl) slot_end1 set_off (by decide) secs secs' h h'⟩

/-- 3: `r` of structure 0 redirected from 1 to 2 -/
example : ∃ secs secs', renderFrom K tsD [casD] hpD {} hshD idxD addrsD = .ok secs ∧
    renderFrom K tsD [casD] hpRef {} hshD' idxD' addrsD' = .ok secs' ∧ secs ≠ secs' := by
  obtain ⟨secs, h⟩ := total_first hshD idxD
  obtain ⟨secs', h'⟩ := total_hpRef hshD' idxD'
  exact ⟨secs, secs', h, h', renderFrom_ref_sensitive K tsD [casD] hpD hpRef {} hshD hshD' idxD idxD' addrsD addrsD'
    perm_addrs idx_iff nodup_addrs distinct_hpD xidInj_hpD 0 "r" 1 2 tokT mem0 (notExcl 0) notArr0 getType0 r_col
    (by decide) (by decide) slot_r set_ref (by decide) mem1 mem2 notArr1 notArr2 (plain1 idxD) (plain2 idxD)
    secs secs' h h'⟩

/-- 4a: element 0 of the FSArray 4 (shown in column `arr` of structure 0) replaced: 1 becomes 3 -/
example : ∃ secs secs', renderFrom K tsD [casD] hpD {} hshD idxD addrsD = .ok secs ∧
    renderFrom K tsD [casD] hpFsa {} hshD' idxD' addrsD' = .ok secs' ∧ secs ≠ secs' := by
  obtain ⟨secs, h⟩ := total_first hshD idxD
  obtain ⟨secs', h'⟩ := total_hpFsa hshD' idxD'
  exact ⟨secs, secs', h, h', renderFrom_fsarray_elem_sensitive K tsD [casD] hpD hpFsa {} hshD hshD' idxD idxD' addrsD
    addrsD' perm_addrs idx_iff nodup_addrs distinct_hpD xidInj_hpD 0 "arr" 4 [some 1, some 2] 0 1 3 tokT mem0
    (notExcl 0) notArr0 getType0 arr_col slot_arr isArr4 slot_el4 rfl set_fsa (by decide) mem1 mem3 notArr1 notArr3
    (plain1 idxD) (plain3 idxD) secs secs' h h'⟩

/-- 4b: the same change seen in the row of the (collected) FSArray itself -/
example : ∃ secs secs', renderFrom K tsD [casD] hpD {} hshD idxD addrsD = .ok secs ∧
    renderFrom K tsD [casD] hpFsa {} hshD' idxD' addrsD' = .ok secs' ∧ secs ≠ secs' := by
  obtain ⟨secs, h⟩ := total_first hshD idxD
  obtain ⟨secs', h'⟩ := total_hpFsa hshD' idxD'
  exact ⟨secs, secs', h, h', renderFrom_fsarray_elem_sensitive_own K tsD [casD] hpD hpFsa {} hshD hshD' idxD idxD'
    addrsD addrsD' perm_addrs idx_iff nodup_addrs distinct_hpD xidInj_hpD 4 [some 1, some 2] 0 1 3 mem4
    (notExcl 4) isArr4 slot_el4 rfl set_fsa (by decide) mem1 mem3 notArr1 notArr3
    (plain1 idxD) (plain3 idxD) secs secs' h h'⟩

/-- 4c: the IntegerArray 5 (shown in column `ia` of structure 0) changed from `[1, 2]` to `[1, 3]` -/
example : ∃ secs secs', renderFrom K tsD [casD] hpD {} hshD idxD addrsD = .ok secs ∧
    renderFrom K tsD [casD] hpIa {} hshD' idxD' addrsD' = .ok secs' ∧ secs ≠ secs' := by
  obtain ⟨secs, h⟩ := total_first hshD idxD
  obtain ⟨secs', h'⟩ := total_hpIa hshD' idxD'
  exact ⟨secs, secs', h, h', renderFrom_primarray_sensitive K tsD [casD] hpD hpIa {} hshD hshD' idxD idxD' addrsD
    addrsD' perm_addrs idx_iff nodup_addrs distinct_hpD 0 "ia" 5 (.ints [1, 2]) (.ints [1, 3]) tokT mem0
    (notExcl 0) notArr0 getType0 ia_col slot_ia isArr5 slot_el5 set_ia (by decide) secs secs' h h'⟩

/-- 4d: the same change seen in the row of the (collected) IntegerArray itself -/
example : ∃ secs secs', renderFrom K tsD [casD] hpD {} hshD idxD addrsD = .ok secs ∧
    renderFrom K tsD [casD] hpIa {} hshD' idxD' addrsD' = .ok secs' ∧ secs ≠ secs' := by
  obtain ⟨secs, h⟩ := total_first hshD idxD
  obtain ⟨secs', h'⟩ := total_hpIa hshD' idxD'
  exact ⟨secs, secs', h, h', renderFrom_primarray_sensitive_own K tsD [casD] hpD hpIa {} hshD hshD' idxD idxD' addrsD
    addrsD' perm_addrs idx_iff nodup_addrs distinct_hpD 5 (.ints [1, 2]) (.ints [1, 3]) mem5
    (notExcl 5) isArr5 slot_el5 set_ia (by decide) secs secs' h h'⟩

/-- 5: structure 2 moved from view `V` to view `W` -/
example : ∃ secs secs', renderFrom K tsD [casD] hpD {} hshD idxD addrsD = .ok secs ∧
    renderFrom K tsD [casD] hpView {} hshD' idxD' addrsD' = .ok secs' ∧ secs ≠ secs' := by
  obtain ⟨secs, h⟩ := total_first hshD idxD
  obtain ⟨secs', h'⟩ := total_hpView hshD' idxD'
  exact ⟨secs, secs', h, h', renderFrom_view_sensitive K tsD [casD] hpD hpView {} hshD hshD' idxD idxD' addrsD addrsD'
    perm_addrs idx_iff nodup_addrs distinct_hpD xidInj_hpD 2 0 0 "V" "W" casD casD _ _ mem2 (notExcl 2) slot_sofa2
    set_view cas0 viewV cas0 viewW sofaIDs_ne plainV plainW secs secs' h h'⟩

/-- 6: structure 1 indexed in the first call, not in the second -/
example : ∃ secs secs', renderFrom K tsD [casD] hpD {} hshD idxD addrsD = .ok secs ∧
    renderFrom K tsD [casD] hpD {} hshD' idxD1 addrsD' = .ok secs' ∧ secs ≠ secs' := by
  obtain ⟨secs, h⟩ := total_first hshD idxD
  obtain ⟨secs', h'⟩ := total_second hshD' idxD1
  exact ⟨secs, secs', h, h', renderFrom_indexed_sensitive K tsD [casD] hpD {} hshD hshD' idxD idxD1 addrsD addrsD'
    perm_addrs nodup_addrs distinct_hpD xidInj_hpD 1 mem1 (notExcl 1) rfl (by decide) (by decide) secs secs' h h'⟩

/-- totality: the hypotheses of `renderFrom_total` hold on the instance (this is how the runs above are known to
    succeed) -/
example : ∃ need, WellNested K hpD need ∧ ∀ a ∈ addrsD, RowOk K tsD [casD] hpD {} need a :=
  ⟨needD, wellNested_of_check needD_pos (by decide +kernel) (by decide +kernel),
    fun a ha => rowOkB_sound ((List.all_eq_true.1 (by decide +kernel : addrsD.all (rowOkB K tsD [casD] hpD {} needD) = true)) a ha)⟩

end NonVacuity

end Cassis.Comparable

section Axioms
open Cassis.Comparable
#print axioms renderFrom_prim_sensitive
#print axioms renderFrom_offset_sensitive
#print axioms renderFrom_ref_sensitive
#print axioms renderFrom_fsarray_elem_sensitive
#print axioms renderFrom_fsarray_elem_sensitive_own
#print axioms renderFrom_primarray_sensitive
#print axioms renderFrom_primarray_sensitive_own
#print axioms renderFrom_view_sensitive
#print axioms renderFrom_indexed_sensitive
#print axioms renderFrom_total
#print axioms xidInj_of_findAllFs
#print axioms anchorPlain_of_sofaID
end Axioms
