/-
C07 — select_covered / select_covering implement the containment definitions.

Theorems are about `Model/Index.lean`; hypotheses: the per-type list is sorted by (begin,end)
(an invariant of every reachable index, `Properties/C06.lean`) and annotations are well formed
(`begin ≤ end`), exactly the precondition the property states.
-/
import CassisModel.Proofs.Index

namespace Cassis.Index

/-- **C07 (covered, one per-type list)**: the bisect window followed by the filter returns exactly
    the entries with `cb ≤ begin ∧ end ≤ ce`, in index order.  No hypothesis on the query span. -/
theorem selectCovered1_eq_spec (l : List Entry) (cb ce : Int)
    (hs : SortedBE l) (hwf : ∀ a ∈ l, a.b ≤ a.e) :
    selectCovered1 l cb ce = l.filter (fun a => decide (cb ≤ a.b) && decide (a.e ≤ ce)) := by
  have hspec : (fun a : Entry => decide (cb ≤ a.b) && decide (a.e ≤ ce)) = coveredP cb ce := by
    funext a; simp [coveredP]
  rw [hspec]
  unfold selectCovered1 window bisectLeft bisectRight
  apply takeWhile_window_filter
  · apply sorted_downward hs
    intro x y hxy hx
    rw [bool_false_iff, ltProbe2_iff] at *
    rw [beLeE_iff] at hxy
    omega
  · apply sorted_downward hs
    intro x y hxy hx
    rw [bool_false_iff, leProbeInf_iff] at *
    rw [beLeE_iff] at hxy
    omega
  · intro a ha hf
    have := hwf a ha
    rw [coveredP_iff] at hf
    rw [bool_false_iff, ltProbe2_iff]
    omega
  · intro a ha hf
    have := hwf a ha
    rw [coveredP_iff] at hf
    rw [leProbeInf_iff]
    omega

/-- **C07 (covering, one per-type list)**: a linear filter, so the equation is definitional; stated
    so that a change of the model's filter breaks it. -/
theorem selectCovering1_eq_spec (l : List Entry) (cb ce : Int) :
    selectCovering1 l cb ce = l.filter (fun a => decide (a.b ≤ cb) && decide (ce ≤ a.e)) := by
  unfold selectCovering1
  congr 1

/-- membership form: an entry is returned iff it is indexed and contained in the span -/
theorem mem_selectCovered1 (l : List Entry) (cb ce : Int) (hs : SortedBE l) (hwf : ∀ a ∈ l, a.b ≤ a.e)
    (x : Entry) : x ∈ selectCovered1 l cb ce ↔ x ∈ l ∧ cb ≤ x.b ∧ x.e ≤ ce := by
  rw [selectCovered1_eq_spec l cb ce hs hwf]
  simp [List.mem_filter]

theorem mem_selectCovering1 (l : List Entry) (cb ce : Int) (x : Entry) :
    x ∈ selectCovering1 l cb ce ↔ x ∈ l ∧ x.b ≤ cb ∧ ce ≤ x.e := by
  rw [selectCovering1_eq_spec]
  simp [List.mem_filter]

/-- duplicates of a span are all returned: multiplicities agree with the index -/
theorem selectCovered1_count (l : List Entry) (cb ce : Int) (hs : SortedBE l) (hwf : ∀ a ∈ l, a.b ≤ a.e)
    (x : Entry) (hx : cb ≤ x.b ∧ x.e ≤ ce) : (selectCovered1 l cb ce).count x = l.count x := by
  rw [selectCovered1_eq_spec l cb ce hs hwf]
  rw [List.count_filter]
  simp [hx.1, hx.2]

/-- **C07 lifted to a type subtree**: over any iteration order `names` of the descendant set, the result
    is the concatenation of the per-type specifications — nothing from types outside `names`. -/
theorem selectCoveredNames_eq_spec (idx : Idx) (names : List String) (cb ce : Int)
    (hs : ∀ n ∈ names, SortedBE (get idx n)) (hwf : ∀ n ∈ names, ∀ a ∈ get idx n, a.b ≤ a.e) :
    selectCoveredNames idx names cb ce =
      names.flatMap (fun n => (get idx n).filter (fun a => decide (cb ≤ a.b) && decide (a.e ≤ ce))) := by
  unfold selectCoveredNames
  apply flatMap_congr'
  intro n hn
  exact selectCovered1_eq_spec _ cb ce (hs n hn) (hwf n hn)

theorem selectCoveringNames_eq_spec (idx : Idx) (names : List String) (cb ce : Int) :
    selectCoveringNames idx names cb ce =
      names.flatMap (fun n => (get idx n).filter (fun a => decide (a.b ≤ cb) && decide (ce ≤ a.e))) := by
  unfold selectCoveringNames
  apply flatMap_congr'
  intro n _
  exact selectCovering1_eq_spec _ cb ce

/-! Non-vacuity and the regression for the repaired defect (zero-width annotation at the span end):
    these are tests of concrete instances, not the unbounded claim. -/
example : SortedBE [⟨2,2,0⟩, ⟨2,5,1⟩, ⟨5,5,2⟩] ∧ ∀ a ∈ ([⟨2,2,0⟩, ⟨2,5,1⟩, ⟨5,5,2⟩] : List Entry), a.b ≤ a.e := by
  constructor
  · unfold SortedBE; decide
  · decide
example : selectCovered1 [⟨2,2,0⟩, ⟨2,5,1⟩, ⟨5,5,2⟩] 2 5 = [⟨2,2,0⟩, ⟨2,5,1⟩, ⟨5,5,2⟩] := by decide
example : selectCovered1 [⟨0,9,0⟩, ⟨2,2,1⟩, ⟨2,5,2⟩, ⟨3,3,3⟩, ⟨5,5,4⟩, ⟨5,6,5⟩] 2 5 =
    [⟨2,2,1⟩, ⟨2,5,2⟩, ⟨3,3,3⟩, ⟨5,5,4⟩] := by decide
example : selectCovering1 [⟨0,9,0⟩, ⟨2,2,1⟩, ⟨2,5,2⟩, ⟨3,3,3⟩] 2 5 = [⟨0,9,0⟩, ⟨2,5,2⟩] := by decide

end Cassis.Index
