/-
C16 — XMI ⇄ JSON conversion preserves the CAS, on the whole format (arrays and lists included).

Composition of `xmi_roundtrip_coll` and `json_roundtrip_coll` on the common fragment of both formats
(`CollFs ∧ JsonFs`, array objects carrying an element list): the conversion chain succeeds and the CAS at the end has the
same views, member ids, structures, ids, types and (deep) feature contents as the CAS written first.  The content is
compared with `featContentC` (`Spec/RoundTripColl.lean`): an inlined collection is its sequence of elements, null and `""`
coincide inside string arrays and lists (XMI identifies them; JSON keeps what the XMI reader made of them).

Hypotheses: the union of those of the two round-trip theorems, stated for the CAS that is written first, `hsr` as in
`chain_xmi_json_flat` (`Properties/C16Chain.lean`), and two more than in the statement as first given — each forced by a
counterexample evaluated on the model (`Spec/ChainCollCheck.lean`, `#eval`; the tests are also checked by the kernel in
`Proofs/ChainCollDemo.lean`):

* `harr` — an array *object* has `elements ≠ None` ((J1) of `Spec/RoundTripJsonCollFrag.lean`, `ArrElemsSome`).  XMI
  restores `None` for an array object of a non-string type written without `elements` attribute, the JSON writer omits
  `%ELEMENTS`, the JSON reader makes `[]` of that.  Counterexample `ChainDemo.cx_obj_elements_none`: the demo CAS with
  the shared IntegerArray (resp. FSArray) object holding `elements = None`; every other hypothesis holds, the chain
  succeeds, and `featContentC` of the feature `elements` of that object is `.none` at the start, `.elems []` at the end.
* `htys` — `CollTypesOk K ts` (`Spec/ChainCollFrag.lean`): the built-in array and list-node types are declared the way
  `TypeSystem()` declares them.  The XMI reader makes the objects of *inlined* collections by type name; in the first CAS
  they are not structures of their own, so no other hypothesis speaks about their types, and `K`, `ts` are arbitrary
  records in the theorem.  Counterexample `ChainDemo.cx_missing_node_type`: the demo type system without
  `uima.cas.NonEmptyIntegerList`; every other hypothesis holds, and `saveJson` on the loaded CAS raises
  `TypeNotFoundError`.  (Not reachable in Python: a `TypeSystem` always contains the built-in types.)
  `Json.builtin_types`, `Json.collDemo_types`: it holds for the generated constants with the built-in type system and
  with the demo type system.

The converse chain `chain_json_xmi_coll` (JSON → CAS → XMI → CAS) has the same shape, with one difference forced by the
formats: the JSON writer collects *every* collection object as a structure of its own (`st.allFs`), the XMI writer does
not collect the inlined ones, which therefore are not structures of the XMI document and get no id back.  The
conclusion speaks about the structures the XMI writer collects from the CAS written first — `stx`, the traversal with
the options of the XMI writer on the heap after the JSON writer's id assignment (`hx`; on the demo instance 11 of the 32
structures).  Hypotheses: those of `json_roundtrip_coll` with the fragment `CollFs ∧ JsonFs ∧ ArrElemsSome` for every
structure the JSON writer collects (inlined collection objects included: array objects and list nodes are structures of
the XMI fragment), `NullOk`, and `hx`.  `CollTypesOk` is not needed (the JSON reader takes the types from the document).
(J1) `harr` is needed here too (`ChainDemo.cxjx_obj_elements_none`, evaluated).

Nothing is assumed about intermediate or final loader outputs.  As in the flat case (`Properties/C16Chain.lean`) the
public round-trip theorems do not apply to the loaded CAS as they stand (`RTWf.ids_below` / `ids_pos` / `conv` fail for
a loader's heap); in addition the JSON writer assigns fresh ids to the collection objects the XMI reader made for
inlined collections, so the heap changes between loading and writing — handled inside the proof
(`Proofs/ChainColl*.lean`, overview in `Proofs/ChainColl.lean`).
-/
import CassisModel.Proofs.ChainColl
import CassisModel.Proofs.ChainCollJx
import CassisModel.Proofs.ChainCollDemo

namespace Cassis
open Cassis.TS Cassis.Traverse Cassis.Xmi

/-- XMI → CAS → JSON → CAS -/
theorem chain_xmi_json_coll (K : Consts) (ts : TypeSystem) (cass : List Cas) (ci : Nat) (c : Cas) (hp : Heap)
    (tsIdx : Nat) (doc : XDoc) (st : St)
    (hc : cass[ci]? = some c) (hwf : RTWf c hp) (hnull : NullOk ts)
    (hsave : saveXmi K ts cass ci hp = .ok (doc, st))
    (hcoll : ∀ q ∈ st.allFs, CollFs K ts c ci st.heap q.2)
    (hjson : ∀ q ∈ st.allFs, Json.JsonFs ts st.heap q.2)
    (hsr : ∀ q ∈ st.allFs, ∀ o t, st.heap[q.2]? = some o → find? ts o.ty = some t → ∀ f ∈ allFeatures t,
      f.name = "sofa" → (alistGet? o.slots f.name).getD .none ≠ .none →
      f.range ≠ "uima.cas.Double" ∧ f.range ≠ "uima.cas.Float" ∧ isPrimitive K ts f.range = false)
    (hdis : ∀ q ∈ st.allFs, ∀ nv ∈ c.views, q.1 ≠ nv.2.sofa.xid)
    (hmem : ∀ nv ∈ c.views, ∀ e ∈ Index.all nv.2.idx, Xmi.slot st.heap e.oid "sofa" ≠ some .none)
    (hmok : MembersOk c st.heap)
    (harr : ∀ q ∈ st.allFs, Json.ArrElemsSome st.heap q.2)
    (htys : Json.CollTypesOk K ts) :
    ∃ (ld1 : Xmi.Loaded) (docj : Json.JDoc) (st2 : St) (ld2 : Json.Loaded) (fss2 : List (Int × Val)),
      loadXmi K ts tsIdx cass.length false st.heap doc = .ok ld1 ∧
      Json.saveJson K ts (cass ++ [ld1.cas]) cass.length ld1.heap .none = .ok (docj, st2) ∧
      Json.loadJson K ts tsIdx (cass.length + 1) false false st2.heap docj = .ok ld2 ∧
      ld2.cas.views.map (viewContent ld2.heap) = c.views.map (viewContent st.heap) ∧
      (∀ q ∈ st.allFs, ∃ (a2 : Nat) (o o2 : Obj), Json.lookup fss2 q.1 = some (.ref a2) ∧
          st.heap[q.2]? = some o ∧ ld2.heap[a2]? = some o2 ∧ o2.ty = o.ty ∧ o2.xid = some q.1 ∧
          ∀ t : TypeRec, find? ts o.ty = some t → ∀ f ∈ allFeatures t,
            featContentC K ld2.heap a2 f = featContentC K st.heap q.2 f) :=
  chain_xmi_json_coll_aux K ts cass ci c hp tsIdx doc st hc hwf hnull hsave hcoll hjson hsr hdis hmem hmok harr htys

/-- JSON → CAS → XMI → CAS -/
theorem chain_json_xmi_coll (K : Consts) (ts : TypeSystem) (cass : List Cas) (ci : Nat) (c : Cas) (hp : Heap)
    (tsIdx : Nat) (docj : Json.JDoc) (st stx : St)
    (hc : cass[ci]? = some c) (hwf : RTWf c hp) (hnull : NullOk ts)
    (hsave : Json.saveJson K ts cass ci hp .none = .ok (docj, st))
    (hcoll : ∀ q ∈ st.allFs, CollFs K ts c ci st.heap q.2)
    (hjson : ∀ q ∈ st.allFs, Json.JsonFs ts st.heap q.2)
    (harr : ∀ q ∈ st.allFs, Json.ArrElemsSome st.heap q.2)
    (hids : ∀ nv ∈ c.views, ∀ e ∈ Index.all nv.2.idx, (xidOf hp e.oid).isSome = true)
    (hdis : ∀ q ∈ st.allFs, ∀ nv ∈ c.views, q.1 ≠ nv.2.sofa.xid)
    (hmem : ∀ nv ∈ c.views, ∀ e ∈ Index.all nv.2.idx, Xmi.slot st.heap e.oid "sofa" ≠ some .none)
    (hmok : MembersOk c st.heap)
    (hx : findAllFs K ts {} st.heap c.nextXid (defaultSeeds c) = .ok stx) :
    ∃ (ld1 : Json.Loaded) (docx : XDoc) (st2 : St) (p2 : Pass1) (ld2 : Xmi.Loaded),
      Json.loadJson K ts tsIdx cass.length false false st.heap docj = .ok ld1 ∧
      saveXmi K ts (cass ++ [ld1.cas]) cass.length ld1.heap = .ok (docx, st2) ∧
      pass1 K ts tsIdx false docx { heap := st2.heap } = .ok p2 ∧
      loadXmi K ts tsIdx (cass.length + 1) false st2.heap docx = .ok ld2 ∧
      ld2.cas.views.map (viewContent ld2.heap) = c.views.map (viewContent st.heap) ∧
      (∀ q ∈ stx.allFs, ∃ (a2 : Nat) (o o2 : Obj), lookupFs p2.fss q.1 = .ok a2 ∧
          st.heap[q.2]? = some o ∧ ld2.heap[a2]? = some o2 ∧ o2.ty = o.ty ∧ o2.xid = some q.1 ∧
          ∀ t : TypeRec, find? ts o.ty = some t → ∀ f ∈ allFeatures t,
            featContentC K ld2.heap a2 f = featContentC K st.heap q.2 f) :=
  chain_json_xmi_coll_aux K ts cass ci c hp tsIdx docj st stx hc hwf hnull hsave hcoll hjson harr hids hdis hmem hmok hx

/-! ### Non-vacuity

The instance `CollDemo` of `Spec/RoundTripCollCheck.lean` (type `x.Doc` with one feature per collection kind, inlined and
shared, text `a😀b`, two structures referring to each other, one of them indexed): every hypothesis of the theorem holds
(`Json.chainCollDemo_applies`, checked by the kernel, and `Json.chainCollAppliesB_hyps`), so the theorem applies. -/

/-- `chain_xmi_json_coll` applied to the instance -/
example : ∃ (doc : XDoc) (st : St) (ld1 : Xmi.Loaded) (docj : Json.JDoc) (st2 : St) (ld2 : Json.Loaded),
    saveXmi CollDemo.K CollDemo.ts [CollDemo.cas] 0 CollDemo.hp = .ok (doc, st) ∧
    loadXmi CollDemo.K CollDemo.ts 0 1 false st.heap doc = .ok ld1 ∧
    Json.saveJson CollDemo.K CollDemo.ts ([CollDemo.cas] ++ [ld1.cas]) 1 ld1.heap .none = .ok (docj, st2) ∧
    Json.loadJson CollDemo.K CollDemo.ts 0 2 false false st2.heap docj = .ok ld2 ∧
    ld2.cas.views.map (viewContent ld2.heap) = CollDemo.cas.views.map (viewContent st.heap) := by
  obtain ⟨c, doc, st, hc, hs, hwf, hn, hf, hj, hsr, hd, hm, hmo, ha, ht⟩ :=
    Json.chainCollAppliesB_hyps _ _ _ _ _ Json.chainCollDemo_applies
  have hcc : c = CollDemo.cas := by
    have : [CollDemo.cas][0]? = some CollDemo.cas := rfl
    rw [this] at hc
    exact (Option.some.inj hc).symm
  subst hcc
  obtain ⟨ld1, docj, st2, ld2, _, h1, h2, h3, h4, _⟩ :=
    chain_xmi_json_coll CollDemo.K CollDemo.ts [CollDemo.cas] 0 CollDemo.cas CollDemo.hp 0 doc st
      hc hwf hn hs hf hj hsr hd hm hmo ha ht
  exact ⟨doc, st, ld1, docj, st2, ld2, hs, h1, h2, h3, h4⟩

/-- `chain_json_xmi_coll` applied to the instance (`Json.chainJXDemo_applies`, checked by the kernel) -/
example : ∃ (docj : Json.JDoc) (st : St) (ld1 : Json.Loaded) (docx : XDoc) (st2 : St) (ld2 : Xmi.Loaded),
    Json.saveJson CollDemo.K CollDemo.ts [CollDemo.cas] 0 CollDemo.hp .none = .ok (docj, st) ∧
    Json.loadJson CollDemo.K CollDemo.ts 0 1 false false st.heap docj = .ok ld1 ∧
    saveXmi CollDemo.K CollDemo.ts ([CollDemo.cas] ++ [ld1.cas]) 1 ld1.heap = .ok (docx, st2) ∧
    loadXmi CollDemo.K CollDemo.ts 0 2 false st2.heap docx = .ok ld2 ∧
    ld2.cas.views.map (viewContent ld2.heap) = CollDemo.cas.views.map (viewContent st.heap) := by
  obtain ⟨c, docj, st, stx, hc, hs, hx, hwf, hn, hf, hj, ha, hi, hd, hm, hmo⟩ :=
    Json.chainJXAppliesB_hyps _ _ _ _ _ Json.chainJXDemo_applies
  have hcc : c = CollDemo.cas := by
    have : [CollDemo.cas][0]? = some CollDemo.cas := rfl
    rw [this] at hc
    exact (Option.some.inj hc).symm
  subst hcc
  obtain ⟨ld1, docx, st2, _, ld2, h1, h2, _, h3, h4, _⟩ :=
    chain_json_xmi_coll CollDemo.K CollDemo.ts [CollDemo.cas] 0 CollDemo.cas CollDemo.hp 0 docj st stx
      hc hwf hn hs hf hj ha hi hd hm hmo hx
  exact ⟨docj, st, ld1, docx, st2, ld2, hs, h1, h2, h3, h4⟩

#print axioms chain_xmi_json_coll
#print axioms chain_json_xmi_coll
#print axioms Json.collTypesOkB_sound
#print axioms Json.chainCollAppliesB_hyps

end Cassis
