/-
C16 — XMI ⇄ JSON conversion preserves the CAS, on the whole format (arrays and lists included).

Composition of `xmi_roundtrip_coll` and `json_roundtrip_coll` on the common fragment of both formats
(`CollFs ∧ JsonFs`, array objects carrying an element list): both conversion chains succeed and the CAS at the end has the
same views, member ids, structures, ids, types and (deep) feature contents as the CAS written first.
-/
import CassisModel.Proofs.ChainColl

namespace Cassis
open Cassis.TS Cassis.Traverse Cassis.Xmi

/-- XMI → CAS → JSON → CAS -/
theorem chain_xmi_json_coll (K : Consts) (ts : TypeSystem) (cass : List Cas) (ci : Nat) (c : Cas) (hp : Heap)
    (tsIdx : Nat) (doc : XDoc) (st : St)
    (hc : cass[ci]? = some c) (hwf : RTWf c hp) (hnull : NullOk ts)
    (hsave : saveXmi K ts cass ci hp = .ok (doc, st))
    (hcoll : ∀ q ∈ st.allFs, CollFs K ts c ci st.heap q.2)
    (hjson : ∀ q ∈ st.allFs, Json.JsonFs ts st.heap q.2)
    (hsr : ∀ q ∈ st.allFs, ∀ o t, st.heap[q.2]? = some o → find? ts o.ty = some t → ∀ f ∈ allFeatures t,
      f.name = "sofa" → (alistGet? o.slots f.name).getD .none ≠ .none →
      f.range ≠ "uima.cas.Double" ∧ f.range ≠ "uima.cas.Float" ∧ isPrimitive K ts f.range = false)
    (hdis : ∀ q ∈ st.allFs, ∀ nv ∈ c.views, q.1 ≠ nv.2.sofa.xid)
    (hmem : ∀ nv ∈ c.views, ∀ e ∈ Index.all nv.2.idx, Xmi.slot st.heap e.oid "sofa" ≠ some .none)
    (hmok : MembersOk c st.heap) :
    ∃ (ld1 : Xmi.Loaded) (docj : Json.JDoc) (st2 : St) (ld2 : Json.Loaded) (fss2 : List (Int × Val)),
      loadXmi K ts tsIdx cass.length false st.heap doc = .ok ld1 ∧
      Json.saveJson K ts (cass ++ [ld1.cas]) cass.length ld1.heap .none = .ok (docj, st2) ∧
      Json.loadJson K ts tsIdx (cass.length + 1) false false st2.heap docj = .ok ld2 ∧
      ld2.cas.views.map (viewContent ld2.heap) = c.views.map (viewContent st.heap) ∧
      (∀ q ∈ st.allFs, ∃ (a2 : Nat) (o o2 : Obj), Json.lookup fss2 q.1 = some (.ref a2) ∧
          st.heap[q.2]? = some o ∧ ld2.heap[a2]? = some o2 ∧ o2.ty = o.ty ∧ o2.xid = some q.1 ∧
          ∀ t : TypeRec, find? ts o.ty = some t → ∀ f ∈ allFeatures t,
            featContentC K ld2.heap a2 f = featContentC K st.heap q.2 f) :=
  chain_xmi_json_coll_aux K ts cass ci c hp tsIdx doc st hc hwf hnull hsave hcoll hjson hsr hdis hmem hmok

end Cassis
