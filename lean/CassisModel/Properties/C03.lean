/-
C03 — Offsets: code points in memory, UTF-16 code units in every document.

Theorems about `Model/Offsets.lean` (the converter `Utf16CodepointOffsetConverter` and the sofa-string
setter).  The independent specification is the real UTF-16 encoder `utf16Encode` with surrogate arithmetic.
-/
import CassisModel.Proofs.Offsets

namespace Cassis.Offsets

/-- internal → external is the UTF-16 length of the prefix -/
theorem p2e_eq_utf16_len (cps : List Nat) (i : Nat) (h : i ≤ cps.length) :
    p2e cps i = (utf16Encode (cps.take i)).length := by
  rw [p2e_eq_sum cps i h, utf16Encode_length, List.map_take]

/-- strictly monotone on valid offsets -/
theorem p2e_strictMono (cps : List Nat) (i j : Nat) (hij : i < j) (hj : j ≤ cps.length) :
    p2e cps i < p2e cps j := by
  rw [p2e_eq_sum cps i (by omega), p2e_eq_sum cps j hj]
  exact take_sum_lt (cps.map width) width_pos_of_mem i j hij (by simpa using hj)

/-- identity on BMP-only text -/
theorem p2e_id_of_bmp (cps : List Nat) (hb : ∀ c ∈ cps, c < 0x10000) (i : Nat) (h : i ≤ cps.length) :
    p2e cps i = i := by
  rw [p2e_eq_sum cps i h]
  exact take_sum_bmp cps hb i h

/-- an internal offset beyond the text is passed through unchanged (the `KeyError` branch) -/
theorem p2e_passthrough (cps : List Nat) (i : Nat) (h : cps.length < i) : p2e cps i = i := by
  unfold p2e p2eTab
  have : (table cps)[i]? = none := by
    apply List.getElem?_eq_none
    simp [table, accum_length]; omega
  simp [this]

/-- the two directions are mutually inverse on valid offsets (1) -/
theorem e2p_p2e (cps : List Nat) (i : Nat) (h : i ≤ cps.length) : e2p cps (p2e cps i) = i :=
  e2p_p2e_aux cps i h

/-- the two directions are mutually inverse on valid offsets (2): `j` on a code-point boundary -/
theorem p2e_e2p (cps : List Nat) (j : Nat) (h : j ∈ boundaries cps) : p2e cps (e2p cps j) = j :=
  p2e_e2p_aux cps j h

/-- an external offset that is not on a code-point boundary is passed through unchanged -/
theorem e2p_passthrough (cps : List Nat) (j : Nat) (h : j ∉ boundaries cps) : e2p cps j = j :=
  e2p_passthrough_aux cps j h

/-- the boundaries are exactly the UTF-16 lengths of the prefixes -/
theorem mem_boundaries (cps : List Nat) (j : Nat) :
    j ∈ boundaries cps ↔ ∃ i, i ≤ cps.length ∧ j = (utf16Encode (cps.take i)).length :=
  mem_boundaries_aux cps j

/-- `get_covered_text` commutes with the conversion: slicing the UTF-16 text at the external offsets and
    decoding gives the code-point slice at the internal offsets -/
theorem covered_text_roundtrip (cps : List Nat) (hs : ∀ c ∈ cps, IsScalar c) (b e : Nat)
    (hbe : b ≤ e) (he : e ≤ cps.length) :
    utf16Decode (slice (utf16Encode cps) (p2e cps b) (p2e cps e)) = slice cps b e :=
  covered_text_roundtrip_aux cps hs b e hbe he

/-- history form of "the setter recomputes the mapping": after any sequence of assignments, if the
    current text is not `None` the converter is the mapping of the *current* text -/
theorem setText_remaps (vs : List (Option (List Nat))) (t : List Nat)
    (h : (vs.foldl SofaText.set SofaText.init).text = some t) :
    (vs.foldl SofaText.set SofaText.init).conv = some (table t) :=
  setText_remaps_aux vs t h

/-- converter-level corollary: with a non-`None` current text, conversion is `p2e`/`e2p` of that text -/
theorem converter_tracks_text (vs : List (Option (List Nat))) (t : List Nat)
    (h : (vs.foldl SofaText.set SofaText.init).text = some t) (i : Nat) :
    pythonToExternal (vs.foldl SofaText.set SofaText.init).conv i = p2e t i ∧
    externalToPython (vs.foldl SofaText.set SofaText.init).conv i = e2p t i := by
  rw [setText_remaps vs t h]
  exact ⟨rfl, rfl⟩

/-! Non-vacuity: concrete instances (tests, not the unbounded claim). 0x1F600 = 😀 -/
example : p2e [0x61, 0x1F600, 0x62] 2 = 3 := by decide
example : e2p [0x61, 0x1F600, 0x62] 3 = 2 := by decide
example : e2p [0x61, 0x1F600, 0x62] 2 = 2 := by decide   -- inside the surrogate pair: passed through
example : (2 : Nat) ∉ boundaries [0x61, 0x1F600, 0x62] := by decide
example : ∀ c ∈ [0x61, 0x1F600, 0x62], IsScalar c := by decide
example : utf16Decode (slice (utf16Encode [0x61, 0x1F600, 0x62]) 1 3) = [0x1F600] := by decide

end Cassis.Offsets
