/-
C04 — the written document is faithful: it determines the content of the CAS (JSON; the flat fragment and the whole
format).

The JSON counterparts of `saveXmi_faithful_flat` (`C04Faithful.lean`) and `saveXmi_faithful_coll` (`C04FaithfulColl.lean`),
for the configuration of the JSON round trip theorems (`TypeSystemMode.NONE`: no embedded type system).  Consequences
of `json_roundtrip_flat` (`C02RoundTrip.lean`) and `json_roundtrip_coll` (`C02RoundTripColl.lean`) — the reader recovers
the content from the document alone, over whatever heap it builds the CAS: if two CASes of the fragment — possibly in
different heaps, at different addresses, built in different orders, members of different lists of CASes at different
indices — are written to the *same* JSON document, then they have

* the same ids,
* under each id the same type and the same content of every feature — `featContent` (`Spec/RoundTrip.lean`) on the flat
  fragment; the deep content `featContentC` (`Spec/RoundTripColl.lean`) on the whole format: the function both round
  trip theorems with collections recover (an inlined array or list is its sequence of elements, references are compared
  by the id of their target; the collection objects themselves are structures of their own in JSON, compared under their
  ids like every structure),
* the same views (names, sofa ids and numbers, texts, mime types, member ids).

`featContentC` identifies a null element and `""` inside string arrays and lists (XMI cannot tell them apart).  JSON can:
two CASes that differ in this way are written to different documents (`CollDemoJ.docs_differ`); the theorem is an
implication, the content function is (for JSON) coarser than the document.

Hypotheses: those of the respective round trip theorem for each of the two CASes (see `C02RoundTrip.lean`,
`C02RoundTripColl.lean`); `jflatAppliesB` (`Proofs/FaithfulJsonDemo.lean`) and `jcollAppliesB` (`C02AppliesColl.lean`)
are sound computable tests for them.
-/
import CassisModel.Proofs.FaithfulJson
import CassisModel.Proofs.FaithfulJsonColl
import CassisModel.Proofs.FaithfulJsonDemo

namespace Cassis.Json
open Cassis.TS Cassis.Traverse Cassis.Xmi

/-- **faithfulness of the JSON writer on the flat fragment** -/
theorem saveJson_faithful_flat (K : Consts) (ts : TypeSystem)
    (cass₁ cass₂ : List Cas) (ci₁ ci₂ : Nat) (c₁ c₂ : Cas) (hp₁ hp₂ : Heap) (doc : JDoc) (st₁ st₂ : St)
    (hc₁ : cass₁[ci₁]? = some c₁) (hwf₁ : RTWf c₁ hp₁) (hsave₁ : saveJson K ts cass₁ ci₁ hp₁ .none = .ok (doc, st₁))
    (hflat₁ : ∀ q ∈ st₁.allFs, FlatFs K ts c₁ ci₁ st₁.heap q.2)
    (hjson₁ : ∀ q ∈ st₁.allFs, JsonFs ts st₁.heap q.2)
    (hids₁ : ∀ nv ∈ c₁.views, ∀ e ∈ Index.all nv.2.idx, (xidOf hp₁ e.oid).isSome = true)
    (hdis₁ : ∀ q ∈ st₁.allFs, ∀ nv ∈ c₁.views, q.1 ≠ nv.2.sofa.xid)
    (hmem₁ : ∀ nv ∈ c₁.views, ∀ e ∈ Index.all nv.2.idx, Xmi.slot st₁.heap e.oid "sofa" ≠ some .none)
    (hmok₁ : MembersOk c₁ st₁.heap)
    (hc₂ : cass₂[ci₂]? = some c₂) (hwf₂ : RTWf c₂ hp₂) (hsave₂ : saveJson K ts cass₂ ci₂ hp₂ .none = .ok (doc, st₂))
    (hflat₂ : ∀ q ∈ st₂.allFs, FlatFs K ts c₂ ci₂ st₂.heap q.2)
    (hjson₂ : ∀ q ∈ st₂.allFs, JsonFs ts st₂.heap q.2)
    (hids₂ : ∀ nv ∈ c₂.views, ∀ e ∈ Index.all nv.2.idx, (xidOf hp₂ e.oid).isSome = true)
    (hdis₂ : ∀ q ∈ st₂.allFs, ∀ nv ∈ c₂.views, q.1 ≠ nv.2.sofa.xid)
    (hmem₂ : ∀ nv ∈ c₂.views, ∀ e ∈ Index.all nv.2.idx, Xmi.slot st₂.heap e.oid "sofa" ≠ some .none)
    (hmok₂ : MembersOk c₂ st₂.heap) :
    -- the same ids
    (sortById st₁.allFs).map (·.1) = (sortById st₂.allFs).map (·.1) ∧
    -- under each id the same type and the same content of every feature
    (∀ q₁ ∈ st₁.allFs, ∀ q₂ ∈ st₂.allFs, q₁.1 = q₂.1 →
      ∃ o₁ o₂ : Obj, st₁.heap[q₁.2]? = some o₁ ∧ st₂.heap[q₂.2]? = some o₂ ∧ o₁.ty = o₂.ty ∧
        ∀ t : TypeRec, find? ts o₁.ty = some t → ∀ f ∈ allFeatures t,
          featContent st₁.heap q₁.2 f.name = featContent st₂.heap q₂.2 f.name) ∧
    -- the same views
    c₁.views.map (viewContent st₁.heap) = c₂.views.map (viewContent st₂.heap) :=
  saveJson_faithful_flat_aux K ts cass₁ cass₂ ci₁ ci₂ c₁ c₂ hp₁ hp₂ doc st₁ st₂
    hc₁ hwf₁ hsave₁ hflat₁ hjson₁ hids₁ hdis₁ hmem₁ hmok₁ hc₂ hwf₂ hsave₂ hflat₂ hjson₂ hids₂ hdis₂ hmem₂ hmok₂

/-- **faithfulness of the JSON writer, collections included** -/
theorem saveJson_faithful_coll (K : Consts) (ts : TypeSystem)
    (cass₁ cass₂ : List Cas) (ci₁ ci₂ : Nat) (c₁ c₂ : Cas) (hp₁ hp₂ : Heap) (doc : JDoc) (st₁ st₂ : St)
    (hc₁ : cass₁[ci₁]? = some c₁) (hwf₁ : RTWf c₁ hp₁) (hsave₁ : saveJson K ts cass₁ ci₁ hp₁ .none = .ok (doc, st₁))
    (hcoll₁ : ∀ q ∈ st₁.allFs, JCollFs K ts c₁ ci₁ st₁.heap q.2)
    (hids₁ : ∀ nv ∈ c₁.views, ∀ e ∈ Index.all nv.2.idx, (xidOf hp₁ e.oid).isSome = true)
    (hdis₁ : ∀ q ∈ st₁.allFs, ∀ nv ∈ c₁.views, q.1 ≠ nv.2.sofa.xid)
    (hmem₁ : ∀ nv ∈ c₁.views, ∀ e ∈ Index.all nv.2.idx, Xmi.slot st₁.heap e.oid "sofa" ≠ some .none)
    (hmok₁ : MembersOk c₁ st₁.heap)
    (hc₂ : cass₂[ci₂]? = some c₂) (hwf₂ : RTWf c₂ hp₂) (hsave₂ : saveJson K ts cass₂ ci₂ hp₂ .none = .ok (doc, st₂))
    (hcoll₂ : ∀ q ∈ st₂.allFs, JCollFs K ts c₂ ci₂ st₂.heap q.2)
    (hids₂ : ∀ nv ∈ c₂.views, ∀ e ∈ Index.all nv.2.idx, (xidOf hp₂ e.oid).isSome = true)
    (hdis₂ : ∀ q ∈ st₂.allFs, ∀ nv ∈ c₂.views, q.1 ≠ nv.2.sofa.xid)
    (hmem₂ : ∀ nv ∈ c₂.views, ∀ e ∈ Index.all nv.2.idx, Xmi.slot st₂.heap e.oid "sofa" ≠ some .none)
    (hmok₂ : MembersOk c₂ st₂.heap) :
    -- the same ids
    (sortById st₁.allFs).map (·.1) = (sortById st₂.allFs).map (·.1) ∧
    -- under each id the same type and the same deep content of every feature
    (∀ q₁ ∈ st₁.allFs, ∀ q₂ ∈ st₂.allFs, q₁.1 = q₂.1 →
      ∃ o₁ o₂ : Obj, st₁.heap[q₁.2]? = some o₁ ∧ st₂.heap[q₂.2]? = some o₂ ∧ o₁.ty = o₂.ty ∧
        ∀ t : TypeRec, find? ts o₁.ty = some t → ∀ f ∈ allFeatures t,
          featContentC K st₁.heap q₁.2 f = featContentC K st₂.heap q₂.2 f) ∧
    -- the same views
    c₁.views.map (viewContent st₁.heap) = c₂.views.map (viewContent st₂.heap) :=
  saveJson_faithful_coll_aux K ts cass₁ cass₂ ci₁ ci₂ c₁ c₂ hp₁ hp₂ doc st₁ st₂
    hc₁ hwf₁ hsave₁ hcoll₁ hids₁ hdis₁ hmem₁ hmok₁ hc₂ hwf₂ hsave₂ hcoll₂ hids₂ hdis₂ hmem₂ hmok₂

/-! ### Non-vacuity (`Proofs/FaithfulJsonDemo.lean`)

Flat: the CAS `ResDemo.flatCas` over `ResDemo.flatHp` as CAS 0 of `[flatCas]`, and `FlatDemo.flatCas2` over
`FlatDemo.flatHp2` as CAS 1 of a list of two CASes — the same two annotations in the opposite order behind an unreachable
object, so heap, CAS (index entries), list of CASes, index and sofa references all differ.  Both satisfy every hypothesis
(Boolean checkers proved sound, evaluated by the kernel) and are written to the same document: the theorem applies. -/

example : ResDemo.flatHp ≠ FlatDemo.flatHp2 ∧ ResDemo.flatCas ≠ FlatDemo.flatCas2 :=
  ⟨FlatDemo.heaps_ne, FlatDemo.cas_ne⟩

example : ∃ (doc : JDoc) (st₁ st₂ : St),
    saveJson CollDemo.K ResDemo.flatTs [ResDemo.flatCas] 0 ResDemo.flatHp .none = .ok (doc, st₁) ∧
    saveJson CollDemo.K ResDemo.flatTs [CollDemo.cas, FlatDemo.flatCas2] 1 FlatDemo.flatHp2 .none = .ok (doc, st₂) ∧
    (sortById st₁.allFs).map (·.1) = (sortById st₂.allFs).map (·.1) ∧
    (∀ q₁ ∈ st₁.allFs, ∀ q₂ ∈ st₂.allFs, q₁.1 = q₂.1 →
      ∃ o₁ o₂ : Obj, st₁.heap[q₁.2]? = some o₁ ∧ st₂.heap[q₂.2]? = some o₂ ∧ o₁.ty = o₂.ty ∧
        ∀ t : TypeRec, find? ResDemo.flatTs o₁.ty = some t → ∀ f ∈ allFeatures t,
          featContent st₁.heap q₁.2 f.name = featContent st₂.heap q₂.2 f.name) ∧
    ResDemo.flatCas.views.map (viewContent st₁.heap) = FlatDemo.flatCas2.views.map (viewContent st₂.heap) := by
  obtain ⟨doc, st₁, st₂, hs₁, hs₂, hwf₁, hf₁, hj₁, hi₁, hd₁, hm₁, hmo₁, hwf₂, hf₂, hj₂, hi₂, hd₂, hm₂, hmo₂⟩ :=
    FlatDemo.two_layouts
  exact ⟨doc, st₁, st₂, hs₁, hs₂,
    saveJson_faithful_flat CollDemo.K ResDemo.flatTs [ResDemo.flatCas] [CollDemo.cas, FlatDemo.flatCas2] 0 1
      ResDemo.flatCas FlatDemo.flatCas2 ResDemo.flatHp FlatDemo.flatHp2 doc st₁ st₂
      rfl hwf₁ hs₁ hf₁ hj₁ hi₁ hd₁ hm₁ hmo₁ rfl hwf₂ hs₂ hf₂ hj₂ hi₂ hd₂ hm₂ hmo₂⟩

/-! With collections: `CollDemo.hp` (every collection kind, inlined and shared) and `CollDemoJ.hpJ` — two array objects
have changed places and the heap is longer by an unreachable object.  Both satisfy every hypothesis (`jcollAppliesB`,
evaluated by the kernel) and are written to the same document. -/

example : CollDemo.hp ≠ CollDemoJ.hpJ ∧ CollDemoJ.hpJ.length = CollDemo.hp.length + 1 :=
  ⟨CollDemoJ.hpJ_ne, CollDemoJ.hpJ_length⟩

example : ∃ (doc : JDoc) (st₁ st₂ : St),
    saveJson CollDemo.K CollDemo.ts [CollDemo.cas] 0 CollDemo.hp .none = .ok (doc, st₁) ∧
    saveJson CollDemo.K CollDemo.ts [CollDemo.cas] 0 CollDemoJ.hpJ .none = .ok (doc, st₂) ∧
    (sortById st₁.allFs).map (·.1) = (sortById st₂.allFs).map (·.1) ∧
    (∀ q₁ ∈ st₁.allFs, ∀ q₂ ∈ st₂.allFs, q₁.1 = q₂.1 →
      ∃ o₁ o₂ : Obj, st₁.heap[q₁.2]? = some o₁ ∧ st₂.heap[q₂.2]? = some o₂ ∧ o₁.ty = o₂.ty ∧
        ∀ t : TypeRec, find? CollDemo.ts o₁.ty = some t → ∀ f ∈ allFeatures t,
          featContentC CollDemo.K st₁.heap q₁.2 f = featContentC CollDemo.K st₂.heap q₂.2 f) ∧
    CollDemo.cas.views.map (viewContent st₁.heap) = CollDemo.cas.views.map (viewContent st₂.heap) := by
  obtain ⟨doc, st₁, st₂, hs₁, hs₂, hwf₁, hf₁, hi₁, hd₁, hm₁, hmo₁, hwf₂, hf₂, hi₂, hd₂, hm₂, hmo₂⟩ :=
    CollDemoJ.two_layouts
  exact ⟨doc, st₁, st₂, hs₁, hs₂,
    saveJson_faithful_coll CollDemo.K CollDemo.ts [CollDemo.cas] [CollDemo.cas] 0 0 CollDemo.cas CollDemo.cas
      CollDemo.hp CollDemoJ.hpJ doc st₁ st₂ rfl hwf₁ hs₁ hf₁ hi₁ hd₁ hm₁ hmo₁ rfl hwf₂ hs₂ hf₂ hi₂ hd₂ hm₂ hmo₂⟩

#print axioms saveJson_faithful_flat
#print axioms saveJson_faithful_coll
#print axioms FlatDemo.two_layouts
#print axioms CollDemoJ.two_layouts
#print axioms CollDemoJ.docs_differ

end Cassis.Json
