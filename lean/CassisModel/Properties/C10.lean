/-
C10 — Type hierarchy queries agree with the declared single-inheritance tree.

`Consistent ts` is the invariant "one tree rooted at uima.cas.TOP": names unique, TOP the only root,
every supertype registered, `b ∈ children a ↔ super b = a`, children lists duplicate free, parents
registered before children.  It holds for the built-in table regenerated from the source, is preserved
by `create_type` (of a *new* name — re-creating a predefined name is the recorded finding T3) and by
`create_feature`, hence holds after every history; under it the five query implementations agree with
the ancestor relation `Anc` defined directly from the `super` fields.
-/
import CassisModel.Proofs.TypeSystem

namespace Cassis.TS

/-! ### The invariant holds initially and is preserved -/

/-- the built-in table as introspected from `/repo` on this run (both constructor variants) -/
theorem consistent_builtins : Consistent Gen.builtinTS ∧ Consistent Gen.builtinTSNoDoc :=
  consistent_builtins_aux

/-- the model's `createType`/`createFeature`, replayed over the creation script derived from the
    introspected table, rebuild exactly that table: the model of type creation agrees with the code on
    the code's own built-in set-up -/
theorem builtins_replay : Gen.replay Gen.consts Gen.builtinScript = some Gen.builtinTS :=
  builtins_replay_aux

theorem consistent_createType (K : Consts) (ts ts' : TypeSystem) (n s : String) (d : Option String)
    (hc : Consistent ts) (hnew : hasExact ts n = false)
    (h : createType K ts n s d = .ok ts') : Consistent ts' :=
  consistent_createType_aux K ts ts' n s d hc hnew h

theorem consistent_addFeature (ts ts' : TypeSystem) (dom : String) (f : Feature)
    (hc : Consistent ts) (h : addFeature ts dom f = .ok ts') : Consistent ts' :=
  consistent_addFeature_aux ts ts' dom f hc h

theorem consistent_createFeature (ts ts' : TypeSystem) (dom name range : String) (elem descr : Option String)
    (multi : Option Bool) (hc : Consistent ts)
    (h : createFeature ts dom name range elem descr multi = .ok ts') : Consistent ts' :=
  consistent_createFeature_aux ts ts' dom name range elem descr multi hc h

/-- **every type system reachable through the API is one tree** -/
theorem consistent_history (K : Consts) (ops : List TsOp) :
    Consistent (ops.foldl (applyOp K) Gen.builtinTS) := by
  have : ∀ ts, Consistent ts → Consistent (ops.foldl (applyOp K) ts) := by
    induction ops with
    | nil => intro ts h; exact h
    | cons op ops ih =>
      intro ts h
      apply ih
      cases op with
      | createType n s d =>
        simp only [applyOp]
        cases hn : hasExact ts n with
        | true => simpa using h
        | false =>
          simp only [Bool.false_eq_true, if_false]
          cases hts : createType K ts n s d with
          | ok ts' => exact consistent_createType K ts ts' n s d h hn hts
          | error e => exact h
      | createFeature dom n r e d m =>
        simp only [applyOp]
        cases hts : createFeature ts dom n r e d m with
        | ok ts' => exact consistent_createFeature ts ts' dom n r e d m h hts
        | error e => exact h
  exact this _ consistent_builtins.1

/-! ### Under the invariant, all queries describe the same tree -/

/-- `descendants` is the reflexive-transitive closure of `children` = everything below in `Anc` -/
theorem descendants_eq_closure (ts : TypeSystem) (hc : Consistent ts) (a b : String)
    (ha : hasExact ts a = true) : b ∈ descendantsOf ts a ↔ Anc ts a b :=
  descendants_eq_closure_aux ts hc a b ha

/-- each type occurs once in `descendants` (so `select` returns each structure once) -/
theorem descendants_nodup (ts : TypeSystem) (hc : Consistent ts) (a : String) :
    (descendantsOf ts a).Nodup :=
  descendants_nodup_aux ts hc a

theorem subsumes_iff_ancestor (ts : TypeSystem) (hc : Consistent ts) (a b : String)
    (ha : hasExact ts a = true) (hb : hasExact ts b = true) : subsumes ts a b = true ↔ Anc ts a b :=
  subsumes_iff_ancestor_aux ts hc a b ha hb

theorem isInstanceOf_iff_ancestor (ts : TypeSystem) (hc : Consistent ts) (a b : String)
    (ha : hasExact ts a = true) (hb : hasExact ts b = true) : isInstanceOf ts b a = true ↔ Anc ts a b :=
  isInstanceOf_iff_ancestor_aux ts hc a b ha hb

/-- hence the three relational queries coincide -/
theorem subsumes_iff_mem_descendants (ts : TypeSystem) (hc : Consistent ts) (a b : String)
    (ha : hasExact ts a = true) (hb : hasExact ts b = true) :
    subsumes ts a b = true ↔ b ∈ descendantsOf ts a := by
  rw [subsumes_iff_ancestor ts hc a b ha hb, descendants_eq_closure ts hc a b ha]

/-- a type is among its supertype's children and nowhere else -/
theorem child_of_super_only (ts : TypeSystem) (hc : Consistent ts) (a b : String) (ta tb : TypeRec)
    (hta : find? ts a = some ta) (htb : find? ts b = some tb) : b ∈ ta.children ↔ tb.super = some a := by
  have := hc.link a b
  constructor
  · intro hb
    obtain ⟨tb', h1, h2⟩ := this.mp ⟨ta, hta, hb⟩
    rw [htb] at h1; cases h1; exact h2
  · intro hs
    obtain ⟨ta', h1, h2⟩ := this.mpr ⟨tb, htb, hs⟩
    rw [hta] at h1; cases h1; exact h2

/-! ### Lookup -/

theorem getType_full (ts : TypeSystem) (n : String) (t : TypeRec) (h : find? ts n = some t) :
    getType ts n = .ok t := by
  simp [getType, h]

theorem getType_short_unique (ts : TypeSystem) (n : String) (t : TypeRec)
    (h0 : find? ts n = none) (hd : hasDot n = false)
    (h1 : ts.types.filter (fun t => shortName t.name == n) = [t]) : getType ts n = .ok t := by
  simp [getType, h0, hd, h1]

theorem getType_unknown_or_ambiguous (ts : TypeSystem) (n : String) (h0 : find? ts n = none)
    (h1 : hasDot n = true ∨ (ts.types.filter (fun t => shortName t.name == n)).length ≠ 1) :
    getType ts n = .error .typeNotFound :=
  getType_unknown_or_ambiguous_aux ts n h0 h1

theorem containsType_iff (ts : TypeSystem) (n : String) :
    containsType ts n = true ↔ ∃ t, getType ts n = .ok t :=
  containsType_iff_aux ts n

/-! ### Rejections -/

theorem createType_final_error (K : Consts) (ts : TypeSystem) (n s : String) (d : Option String)
    (h : K.finalTypes.contains s = true) : createType K ts n s d = .error .valueError := by
  unfold createType
  simp only [h, if_true, bind, Except.bind, throw, throwThe, MonadExceptOf.throw]

theorem createType_duplicate_user_error (K : Consts) (ts : TypeSystem) (n s : String) (d : Option String)
    (hs : K.finalTypes.contains s = false) (h : hasExact ts n = true) (hp : K.predefined.contains n = false) :
    createType K ts n s d = .error .valueError := by
  unfold createType
  simp only [hs, h, hp, Bool.false_eq_true, if_false, Bool.not_false, Bool.and_self, if_true,
    bind, Except.bind, throw, throwThe, MonadExceptOf.throw, pure, Except.pure]

/-! Non-vacuity (tests of concrete instances) -/
example : hasExact Gen.builtinTS "uima.tcas.Annotation" = true := by decide
example : subsumes Gen.builtinTS "uima.cas.AnnotationBase" "uima.tcas.DocumentAnnotation" = true := by decide
example : subsumes Gen.builtinTS "uima.cas.FSList" "uima.tcas.DocumentAnnotation" = false := by decide

end Cassis.TS
