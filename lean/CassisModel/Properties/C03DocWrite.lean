/-
C03, written-document level, both formats — what the documents `saveXmi` / `saveJson` produce carry for `begin` / `end`.

The round-trip theorems say that loading restores the offsets; these theorems say WHAT the document carries, as
statements about the writers' output that do not depend on the round-trip fragments.

* The oracle `extOffset t i` (`Spec/OffsetsDoc.lean`): for `0 ≤ i ≤ |t|` the UTF-16 length of the prefix of `i` code
  points of `t` (`extOffset_inside`); a negative offset and an offset beyond the text are carried as they are
  (`extOffset_neg`, `extOffset_beyond`: the `if i < 0 then i` of the model and the converter's `KeyError` branch; the
  real code does the same, with a warning — replayed on `/repo`).
* Which converter: the one of the view the structure's `sofa` slot names (of whatever CAS of the world), and it belongs
  to the CURRENT text of that view (`SofaConvOk`): in every state reachable by the client operations, whatever the
  history of `sofa_string = …` assignments (`convIs_history`, `convOk_run`, `setSofaString_conv`), and in every CAS a
  loader returns (`loadXmi_convOk`, `Json.loadJson_convIs`).  Nothing is claimed for a sofa without text: assigning
  `None` to a sofa that had a text leaves the old table in place (`createMapping c none = c`; the real code too), so
  the documents then carry offsets converted by the table of the text that is gone, and no `sofaString`.
* Per feature (`Xmi.renderFeature_offset`, `Json.renderFeature_offset` in `C03DocJson.lean`) and per structure of the
  saved document (`saveXmi_annotation_offsets`, `saveJson_annotation_offsets`): the attribute token (`showInt`) / the
  member (`.int`) written for `begin` / `end` of an annotation is `extOffset t i`.
* `*_nonannotation_plain`: integer features named `begin` / `end` of a structure that is not an annotation (XMI: whose
  type is not a subtype of `uima.tcas.Annotation`; JSON: features not declared by `uima.tcas.Annotation`) are written
  unchanged.

The XMI writer tests the range of a feature for the collection kinds before it looks at the value; `IntFeat K ts f`
(`Spec/OffsetsDoc.lean`) says that `f` is an integer feature in that sense; it holds for the four built-in integer
ranges with the generated constants (`intFeat_builtin`).
-/
import CassisModel.Proofs.OffsetsDocFinal
import CassisModel.Proofs.OffsetsDocXmiC
import CassisModel.Proofs.OffsetsDocJsonC
import CassisModel.Proofs.OffsetsDocXmiR
import CassisModel.Proofs.OffsetsDocXmiP
import CassisModel.Proofs.OffsetsDocDemo

namespace Cassis.OffsetsDoc
open Cassis.Offsets Cassis.TS Cassis.Cas

/-! ### the oracle -/

theorem extOffset_inside' (t : List Nat) (i : Nat) (h : i ≤ t.length) :
    extOffset t (i : Int) = Int.ofNat (utf16Encode (t.take i)).length :=
  extOffset_inside t i h

theorem extOffset_neg' (t : List Nat) (i : Int) (h : i < 0) : extOffset t i = i := extOffset_neg t i h

theorem extOffset_beyond' (t : List Nat) (i : Int) (h : (t.length : Int) < i) : extOffset t i = i :=
  extOffset_beyond t i h

/-- both writers compute `if i < 0 then i else pythonToExternal conv i`; with a converter that belongs to the text
    this is the oracle -/
theorem writer_formula_is_oracle (s : Sofa) (t : List Nat) (ht : s.text = some t) (hok : SofaConvOk s) (i : Int) :
    (if i < 0 then i else ((pythonToExternal s.conv i.toNat : Nat) : Int)) = extOffset t i :=
  conv_ext s t ht hok i

/-! ### the converter belongs to the current text -/

/-- after `cas.sofa_string = t` the view has the text `t` and the table of `t`, whatever it had before -/
theorem setSofaString_conv (c c' : Cas) (h : Handle) (t : List Nat) (hs : setSofaString c h (some t) = .ok c') :
    ∃ v', getViewRec c' h.view = some v' ∧ v'.sofa.text = some t ∧ v'.sofa.conv = some (table t) :=
  setSofaString_conv_aux c c' h t hs

/-- **every reachable state**: after any history of client operations on a new CAS (views created, structures added
    and removed, texts assigned and REPLACED, …) the converter of every sofa with text is the table of its current text -/
theorem convIs_history (K : Consts) (ts : TypeSystem) (lenient : Bool) (ops : List COp) :
    ConvIs (ops.foldl (cstep K ts) (init lenient)).cas :=
  convIs_history_aux K ts lenient ops

/-- the same from any state that satisfies `ConvOk`, e.g. a loaded CAS -/
theorem convOk_run (K : Consts) (ts : TypeSystem) (ops : List COp) (s : CState) (h : ConvOk s.cas) :
    ConvOk (ops.foldl (cstep K ts) s).cas :=
  convOk_run_aux K ts ops s h

theorem convIs_convOk (c : Cas) (h : ConvIs c) : ConvOk c := h.ok

/-- every CAS the XMI loader returns satisfies `ConvOk` (for the empty text the XMI reader installs no converter) -/
theorem loadXmi_convOk (K : Consts) (ts : TypeSystem) (tsIdx ci : Nat) (lenient : Bool) (hp : Heap) (doc : Xmi.XDoc)
    (ld : Xmi.Loaded) (h : Xmi.loadXmi K ts tsIdx ci lenient hp doc = .ok ld) : ConvOk ld.cas :=
  Xmi.loadXmi_convOk_aux K ts tsIdx ci lenient hp doc ld h

/-- non-vacuity (an evaluated history): text `ab`, then replaced by `a😀b`: the converter is the table of `a😀b` -/
example : ((([COp.setSofaString 0 (some [97, 98]), .setSofaString 0 (some [97, 0x1F600, 98])].foldl
    (cstep Gen.consts Gen.builtinTS) (init true)).cas.views.map (fun nv => (nv.2.sofa.text, nv.2.sofa.conv)))) =
    [(some [97, 0x1F600, 98], some [0, 1, 3, 4])] := by decide +kernel

/-- the boundary of the claim (model = code, replayed on `/repo`): the text `a😀b` of the demo CAS is replaced by `None`;
    the old table stays (`SofaConvOk` says nothing about a sofa without text), the document carries `(0, 3)`, `(3, 4)`
    for the in-memory `(0, 2)`, `(2, 3)` and no `sofaString`, so it is read back as `(0, 3)`, `(3, 4)` -/
example :
    let casN := match setSofaString Xmi.Demo.casL { view := "_InitialView", lenient := false } none with
      | .ok c => c | .error _ => Xmi.Demo.casL
    casN.views.map (fun nv => (nv.2.sofa.text, nv.2.sofa.conv)) = [(none, some [0, 1, 3, 4])] ∧
    ((Xmi.saveXmi Xmi.Demo.K Xmi.Demo.demoTS' [casN] 0 Xmi.Demo.hpL).toOption.bind (fun r =>
      (Xmi.loadXmi Xmi.Demo.K Xmi.Demo.demoTS' 0 1 true r.2.heap r.1).toOption.map (fun ld =>
        [3, 4].map (fun k => (Traverse.slot ld.heap k "begin", Traverse.slot ld.heap k "end"))))) =
      some [(some (.int 0), some (.int 3)), (some (.int 3), some (.int 4))] := by decide +kernel

end Cassis.OffsetsDoc

namespace Cassis.Xmi
open Cassis.Offsets Cassis.TS Cassis.OffsetsDoc Cassis.Lex Cassis.Traverse

/-! ### XMI, per feature -/

/-- the four built-in integer types, declared directly under TOP, with the generated constants -/
theorem intFeat_builtin (ts : TypeSystem) (f : Feature) (hres : f.reserved = false)
    (hr : isIntRange f.range = true) (hsup : superOf ts f.range = some TOP) : IntFeat Gen.consts ts f :=
  intFeat_builtin_aux ts f hres hr hsup

/-- **the attribute written for `begin` / `end` of an annotation is the token of the oracle** (`isAnn = true`: the type
    of the structure is a subtype of `uima.tcas.Annotation`, `renderFs`) -/
theorem renderFeature_offset (K : Consts) (ts : TypeSystem) (cass : List Cas) (hp : Heap) (a : Nat) (f : Feature)
    (ci : Nat) (vn : String) (c : Cas) (view : View) (t : List Nat) (i : Int)
    (hf : IntFeat K ts f) (hname : f.name = "begin" ∨ f.name = "end")
    (hsofa : slot hp a "sofa" = some (.sofa ci vn)) (hc : cass[ci]? = some c)
    (hv : Cas.getViewRec c vn = some view) (ht : view.sofa.text = some t) (hok : SofaConvOk view.sofa)
    (hval : slot hp a f.name = some (.int i)) :
    renderFeature K ts cass hp a true f = .ok ([(f.name, showInt (extOffset t i))], []) :=
  renderFeature_offset_aux K ts cass hp a f ci vn c view t i hf hname hsofa hc hv ht hok hval

/-- **`writer_nonannotation_plain`, XMI**: for a structure whose type is not a subtype of Annotation (`isAnn = false`)
    an integer feature named `begin` / `end` is written unchanged -/
theorem renderFeature_plain (K : Consts) (ts : TypeSystem) (cass : List Cas) (hp : Heap) (a : Nat) (f : Feature)
    (i : Int) (hf : IntFeat K ts f) (hname : f.name = "begin" ∨ f.name = "end")
    (hval : slot hp a f.name = some (.int i)) :
    renderFeature K ts cass hp a false f = .ok ([(f.name, showInt i)], []) :=
  renderFeature_plain_aux K ts cass hp a f i hf hname hval

/-- non-vacuity: `end = 2` of the indexed `x.Tok` over `a😀b` is written as `"3"` -/
example : renderFeature Demo.K Demo.demoTS' [Demo.casL] Demo.hpL 0 true OffsetsDoc.Demo.fEnd = .ok ([("end", "3")], []) :=
  renderFeature_offset Demo.K Demo.demoTS' [Demo.casL] Demo.hpL 0 OffsetsDoc.Demo.fEnd 0 "_InitialView" Demo.casL
    OffsetsDoc.Demo.viewL Demo.txt 2 (intFeat_builtin _ _ rfl rfl OffsetsDoc.Demo.int_super) (Or.inr rfl)
    (by decide +kernel) rfl OffsetsDoc.Demo.viewL_get OffsetsDoc.Demo.viewL_text OffsetsDoc.Demo.sofaL_ok
    (by decide +kernel)

/-! ### XMI, the saved document -/

/-- the element written for a collected structure (not an array): it carries the id and the type, and every feature of
    the type contributes the attributes and child elements `renderFeature` returns for it, read from the slots the
    structure has in the heap given to the writer -/
theorem saveXmi_element (K : Consts) (ts : TypeSystem) (cass : List Cas) (ci : Nat) (hp : Heap)
    (doc : XDoc) (st : St) (hs : saveXmi K ts cass ci hp = .ok (doc, st))
    (p : Int × Nat) (hp' : p ∈ st.allFs) (o : Obj) (ho : hp[p.2]? = some o)
    (hna : isPrimitiveArray K o.ty = false) (hnf : o.ty ≠ FS_ARRAY) (tr : TypeRec) (htr : getType ts o.ty = .ok tr) :
    ∃ e ∈ doc, attr e ID = some (showInt p.1) ∧ e.ty = o.ty ∧ (∀ n, slot st.heap p.2 n = alistGet? o.slots n) ∧
      (∀ f ∈ allFeatures tr, ∃ out, renderFeature K ts cass st.heap p.2 (isInstanceOf ts o.ty ANNOTATION) f = .ok out ∧
        (∀ m ∈ out.1, m ∈ e.attrs) ∧ ∀ m ∈ out.2, m ∈ e.kids) ∧
      (∀ m ∈ e.attrs, m.1 = ID ∨ ∃ f ∈ allFeatures tr, ∃ out,
        renderFeature K ts cass st.heap p.2 (isInstanceOf ts o.ty ANNOTATION) f = .ok out ∧ m ∈ out.1) :=
  saveXmi_element_aux hs hp' ho hna hnf htr

/-- a feature contributes at most one attribute, under the name it is written with -/
theorem renderFeature_attr (K : Consts) (ts : TypeSystem) (cass : List Cas) (hp : Heap) (a : Nat) (isAnn : Bool)
    (f : Feature) (out : List (String × String) × List (String × Option String))
    (h : renderFeature K ts cass hp a isAnn f = .ok out) :
    out.1 = [] ∨ ∃ s, out.1 = [(xmlName f, s)] :=
  renderFeature_attr_aux K ts cass hp a isAnn f out h

/-- **nothing else is carried, XMI**: every attribute named `begin` / `end` of the element written for a collected
    structure is the single attribute that a feature of its type, written under that name, contributes (its value is
    then given by `renderFeature_offset` / `renderFeature_plain`) -/
theorem saveXmi_offset_attrs (K : Consts) (ts : TypeSystem) (cass : List Cas) (ci : Nat) (hp : Heap)
    (doc : XDoc) (st : St) (hs : saveXmi K ts cass ci hp = .ok (doc, st))
    (p : Int × Nat) (hp' : p ∈ st.allFs) (o : Obj) (ho : hp[p.2]? = some o)
    (hna : isPrimitiveArray K o.ty = false) (hnf : o.ty ≠ FS_ARRAY) (tr : TypeRec) (htr : getType ts o.ty = .ok tr) :
    ∃ e ∈ doc, attr e ID = some (showInt p.1) ∧ e.ty = o.ty ∧ (∀ n, slot st.heap p.2 n = alistGet? o.slots n) ∧
      ∀ m ∈ e.attrs, (m.1 = "begin" ∨ m.1 = "end") →
        ∃ f ∈ allFeatures tr, xmlName f = m.1 ∧ ∃ out,
          renderFeature K ts cass st.heap p.2 (isInstanceOf ts o.ty ANNOTATION) f = .ok out ∧ out.1 = [m] :=
  saveXmi_offset_attrs_aux K ts cass ci hp doc st hs p hp' o ho hna hnf tr htr

/-- **written document, XMI**: for every structure `p` the writer collected whose type is a subtype of Annotation and
    whose `sofa` slot names a view (of any CAS of the world) with text `t`: the element written for it carries, for the
    integer feature `f` named `begin` / `end` with value `i` in memory, the attribute `showInt (extOffset t i)` — the
    UTF-16 prefix length w.r.t. the current text of THAT view -/
theorem saveXmi_annotation_offsets (K : Consts) (ts : TypeSystem) (cass : List Cas) (ci : Nat) (hp : Heap)
    (doc : XDoc) (st : St) (hs : saveXmi K ts cass ci hp = .ok (doc, st))
    (p : Int × Nat) (hp' : p ∈ st.allFs) (o : Obj) (ho : hp[p.2]? = some o)
    (hna : isPrimitiveArray K o.ty = false) (hnf : o.ty ≠ FS_ARRAY) (tr : TypeRec) (htr : getType ts o.ty = .ok tr)
    (hann : isInstanceOf ts o.ty ANNOTATION = true)
    (f : Feature) (hf : f ∈ allFeatures tr) (hif : IntFeat K ts f) (hname : f.name = "begin" ∨ f.name = "end")
    (cj : Nat) (vn : String) (c' : Cas) (view : View) (t : List Nat) (i : Int)
    (hsofa : alistGet? o.slots "sofa" = some (.sofa cj vn)) (hc : cass[cj]? = some c')
    (hv : Cas.getViewRec c' vn = some view) (ht : view.sofa.text = some t) (hok : SofaConvOk view.sofa)
    (hval : alistGet? o.slots f.name = some (.int i)) :
    ∃ e ∈ doc, attr e ID = some (showInt p.1) ∧ e.ty = o.ty ∧ (f.name, showInt (extOffset t i)) ∈ e.attrs :=
  saveXmi_annotation_offsets_aux K ts cass ci hp doc st hs p hp' o ho hna hnf tr htr hann f hf hif hname cj vn c' view
    t i hsofa hc hv ht hok hval

/-- **`writer_nonannotation_plain`, written document, XMI** -/
theorem saveXmi_nonannotation_plain (K : Consts) (ts : TypeSystem) (cass : List Cas) (ci : Nat) (hp : Heap)
    (doc : XDoc) (st : St) (hs : saveXmi K ts cass ci hp = .ok (doc, st))
    (p : Int × Nat) (hp' : p ∈ st.allFs) (o : Obj) (ho : hp[p.2]? = some o)
    (hna : isPrimitiveArray K o.ty = false) (hnf : o.ty ≠ FS_ARRAY) (tr : TypeRec) (htr : getType ts o.ty = .ok tr)
    (hann : isInstanceOf ts o.ty ANNOTATION = false)
    (f : Feature) (hf : f ∈ allFeatures tr) (hif : IntFeat K ts f) (hname : f.name = "begin" ∨ f.name = "end")
    (i : Int) (hval : alistGet? o.slots f.name = some (.int i)) :
    ∃ e ∈ doc, attr e ID = some (showInt p.1) ∧ e.ty = o.ty ∧ (f.name, showInt i) ∈ e.attrs :=
  saveXmi_nonannotation_plain_aux K ts cass ci hp doc st hs p hp' o ho hna hnf tr htr hann f hf hif hname i hval

/-- non-vacuity: the demo CAS over `a😀b`; the `x.Tok` that is only referenced (id 3, `begin = 2`) is written with
    `begin="3"` -/
example : ∃ doc st, saveXmi Demo.K Demo.demoTS' [Demo.casL] 0 Demo.hpL = .ok (doc, st) ∧
    ∃ e ∈ doc, attr e ID = some "3" ∧ e.ty = "x.Tok" ∧ ("begin", "3") ∈ e.attrs := by
  obtain ⟨doc, st, hs⟩ := OffsetsDoc.Demo.saveXmi_ok
  refine ⟨doc, st, hs, ?_⟩
  exact saveXmi_annotation_offsets Demo.K Demo.demoTS' [Demo.casL] 0 Demo.hpL doc st hs (3, 1)
    (by rw [OffsetsDoc.Demo.allFs_xmi hs]; decide) _ rfl OffsetsDoc.Demo.tok_noarr.1 OffsetsDoc.Demo.tok_noarr.2
    _ OffsetsDoc.Demo.tok_getType OffsetsDoc.Demo.tok_ann OffsetsDoc.Demo.fBegin OffsetsDoc.Demo.tok_begin
    (intFeat_builtin _ _ rfl rfl OffsetsDoc.Demo.int_super) (Or.inl rfl) 0 "_InitialView" Demo.casL
    OffsetsDoc.Demo.viewL Demo.txt 2 rfl rfl OffsetsDoc.Demo.viewL_get OffsetsDoc.Demo.viewL_text
    OffsetsDoc.Demo.sofaL_ok rfl

/-- non-vacuity: `x.Span` under TOP with its own `begin = 2` over the same text: written as `begin="2"` -/
example : ∃ doc st, saveXmi Demo.K OffsetsDoc.Demo.tsP [OffsetsDoc.Demo.casP] 0 OffsetsDoc.Demo.hpP = .ok (doc, st) ∧
    ∃ e ∈ doc, attr e ID = some "3" ∧ e.ty = "x.Span" ∧ ("begin", "2") ∈ e.attrs := by
  cases h : saveXmi Demo.K OffsetsDoc.Demo.tsP [OffsetsDoc.Demo.casP] 0 OffsetsDoc.Demo.hpP with
  | error e => have := OffsetsDoc.Demo.saveP_xmi; rw [h] at this; cases this
  | ok r =>
    obtain ⟨doc, st⟩ := r
    have hall : st.allFs = [(3, 0)] := by
      have := OffsetsDoc.Demo.saveP_xmi
      rw [h] at this
      simpa [Except.toOption] using this
    refine ⟨doc, st, rfl, ?_⟩
    exact saveXmi_nonannotation_plain Demo.K _ _ 0 _ doc st h (3, 0) (by rw [hall]; decide) _ rfl
      OffsetsDoc.Demo.span_noarr.1 OffsetsDoc.Demo.span_noarr.2 _ OffsetsDoc.Demo.span_getType
      OffsetsDoc.Demo.span_notann OffsetsDoc.Demo.gBegin OffsetsDoc.Demo.span_begin
      (intFeat_builtin _ _ rfl rfl OffsetsDoc.Demo.intP_super) (Or.inl rfl) 2 rfl

/-! ### XMI, the reader never converts a structure that is not an annotation

(the JSON counterpart is the last clause of `Json.parseFs_converts` together with `Json.viewsPass_keeps_offsets`) -/

/-- offsets are converted in the third pass of the XMI loader only (`buildCas`: the members of the views, `rehome`, the
    annotations that are only referenced); a structure whose type is not a subtype of Annotation leaves that pass with
    every slot but `sofa` as it entered it — integer features named `begin` / `end` included -/
theorem loadXmi_nonannotation_plain (K : Consts) (ts : TypeSystem) (tsIdx ci : Nat) (lenient : Bool) (hp : Heap)
    (doc : XDoc) (ld : Loaded) (h : loadXmi K ts tsIdx ci lenient hp doc = .ok ld) :
    ∃ (p : Pass1) (hp2 : Heap), pass1 K ts tsIdx lenient doc { heap := hp } = .ok p ∧
      postAll K ts tsIdx ci p.sofas p.fss p.fss p.heap = .ok hp2 ∧
      ∀ (a : Nat) (o : Obj), hp2[a]? = some o → isInstanceOf ts o.ty ANNOTATION = false →
        ∀ n, n ≠ "sofa" → Traverse.slot ld.heap a n = alistGet? o.slots n :=
  loadXmi_plain_aux K ts tsIdx ci lenient hp doc ld h

/-- evaluated: the XMI document of the demo CAS (annotations written as `(0, 3)`, `(3, 4)`) and the one of the `x.Span`
    instance (written as `(2, 3)`) are read back with the in-memory offsets; the loaded structures follow the
    `cas:NULL` object in the heap -/
example : ((saveXmi Demo.K Demo.demoTS' [Demo.casL] 0 Demo.hpL).toOption.bind (fun r =>
    (loadXmi Demo.K Demo.demoTS' 0 1 true r.2.heap r.1).toOption.map (fun ld =>
      [3, 4].map (fun k => (Traverse.slot ld.heap k "begin", Traverse.slot ld.heap k "end"))))) =
    some [(some (.int 0), some (.int 2)), (some (.int 2), some (.int 3))] := by decide +kernel

example : ((saveXmi Demo.K OffsetsDoc.Demo.tsP [OffsetsDoc.Demo.casP] 0 OffsetsDoc.Demo.hpP).toOption.bind (fun r =>
    (loadXmi Demo.K OffsetsDoc.Demo.tsP 0 1 true r.2.heap r.1).toOption.map (fun ld =>
      [2].map (fun k => (Traverse.slot ld.heap k "begin", Traverse.slot ld.heap k "end"))))) =
    some [(some (.int 2), some (.int 3))] := by decide +kernel

end Cassis.Xmi

namespace Cassis.Json
open Cassis.Offsets Cassis.TS Cassis.OffsetsDoc Cassis.Traverse

/-! ### JSON (the per-feature statement for annotations is `Json.renderFeature_offset`, `C03DocJson.lean`) -/

/-- **`writer_nonannotation_plain`, JSON, per feature**: a feature that `uima.tcas.Annotation` does not declare is
    never converted, whatever its name -/
theorem renderFeature_plain (K : Consts) (ts : TypeSystem) (cass : List Cas) (hp : Heap) (a : Nat) (f : Feature)
    (i : Int) (hdom : f.domain ≠ ANNOTATION) (hname : xmlName f = "begin" ∨ xmlName f = "end")
    (hval : Xmi.slot hp a f.name = some (.int i)) :
    (isPrimitive K ts f.range = true ∨ f.range = "uima.cas.Double" ∨ f.range = "uima.cas.Float" →
      renderFeature K ts cass hp a f = .ok [(xmlName f, .int i)]) ∧
    (∀ out, renderFeature K ts cass hp a f = .ok out → out = [(xmlName f, .int i)]) :=
  renderFeature_plain_aux K ts cass hp a f i hdom hname hval

/-- the element written for a collected structure (not an array): its members are exactly what `renderFeature` returns
    for the features of the type, read from the slots the structure has in the heap given to the writer -/
theorem saveJson_element (K : Consts) (ts : TypeSystem) (cass : List Cas) (ci : Nat) (hp : Heap) (mode : Mode)
    (doc : JDoc) (st : St) (hs : saveJson K ts cass ci hp mode = .ok (doc, st))
    (p : Int × Nat) (hp' : p ∈ st.allFs) (o : Obj) (ho : hp[p.2]? = some o)
    (hna : isPrimitiveArray K o.ty = false) (hnf : o.ty ≠ FS_ARRAY) (tr : TypeRec) (htr : getType ts o.ty = .ok tr) :
    ∃ j ∈ doc.fss, j.id = some p.1 ∧ j.ty = o.ty ∧ (∀ n, Xmi.slot st.heap p.2 n = alistGet? o.slots n) ∧
      (∀ f ∈ allFeatures tr, ∃ out, renderFeature K ts cass st.heap p.2 f = .ok out ∧ ∀ m ∈ out, m ∈ j.feats) ∧
      (∀ m ∈ j.feats, ∃ f ∈ allFeatures tr, ∃ out, renderFeature K ts cass st.heap p.2 f = .ok out ∧ m ∈ out) :=
  saveJson_element_aux hs hp' ho hna hnf htr

/-- **nothing else is carried, JSON**: every member named `begin` / `end` of the element written for a collected
    structure is the single member that a feature of its type, written under that name, contributes (its value is then
    given by the second clauses of `renderFeature_offset` / `renderFeature_plain`) -/
theorem saveJson_offset_members (K : Consts) (ts : TypeSystem) (cass : List Cas) (ci : Nat) (hp : Heap)
    (mode : Mode) (doc : JDoc) (st : St) (hs : saveJson K ts cass ci hp mode = .ok (doc, st))
    (p : Int × Nat) (hp' : p ∈ st.allFs) (o : Obj) (ho : hp[p.2]? = some o)
    (hna : isPrimitiveArray K o.ty = false) (hnf : o.ty ≠ FS_ARRAY) (tr : TypeRec) (htr : getType ts o.ty = .ok tr) :
    ∃ j ∈ doc.fss, j.id = some p.1 ∧ j.ty = o.ty ∧ (∀ n, Xmi.slot st.heap p.2 n = alistGet? o.slots n) ∧
      ∀ m ∈ j.feats, (m.1 = "begin" ∨ m.1 = "end") →
        ∃ f ∈ allFeatures tr, xmlName f = m.1 ∧ renderFeature K ts cass st.heap p.2 f = .ok [m] :=
  saveJson_offset_members_aux K ts cass ci hp mode doc st hs p hp' o ho hna hnf tr htr

/-- **written document, JSON** (every mode): for every structure `p` the writer collected whose `sofa` slot names a
    view with text `t`: the element written for it carries, for the feature `f` of `uima.tcas.Annotation` written as
    `begin` / `end` with value `i` in memory, the member `.int (extOffset t i)` -/
theorem saveJson_annotation_offsets (K : Consts) (ts : TypeSystem) (cass : List Cas) (ci : Nat) (hp : Heap)
    (mode : Mode) (doc : JDoc) (st : St) (hs : saveJson K ts cass ci hp mode = .ok (doc, st))
    (p : Int × Nat) (hp' : p ∈ st.allFs) (o : Obj) (ho : hp[p.2]? = some o)
    (hna : isPrimitiveArray K o.ty = false) (hnf : o.ty ≠ FS_ARRAY) (tr : TypeRec) (htr : getType ts o.ty = .ok tr)
    (f : Feature) (hf : f ∈ allFeatures tr) (hdom : f.domain = ANNOTATION)
    (hname : xmlName f = "begin" ∨ xmlName f = "end")
    (cj : Nat) (vn : String) (c' : Cas) (view : View) (t : List Nat) (i : Int)
    (hsofa : alistGet? o.slots "sofa" = some (.sofa cj vn)) (hc : cass[cj]? = some c')
    (hv : Cas.getViewRec c' vn = some view) (ht : view.sofa.text = some t) (hok : SofaConvOk view.sofa)
    (hval : alistGet? o.slots f.name = some (.int i)) :
    ∃ j ∈ doc.fss, j.id = some p.1 ∧ j.ty = o.ty ∧ (xmlName f, JV.int (extOffset t i)) ∈ j.feats :=
  saveJson_annotation_offsets_aux K ts cass ci hp mode doc st hs p hp' o ho hna hnf tr htr f hf hdom hname cj vn c'
    view t i hsofa hc hv ht hok hval

/-- **`writer_nonannotation_plain`, written document, JSON** -/
theorem saveJson_nonannotation_plain (K : Consts) (ts : TypeSystem) (cass : List Cas) (ci : Nat) (hp : Heap)
    (mode : Mode) (doc : JDoc) (st : St) (hs : saveJson K ts cass ci hp mode = .ok (doc, st))
    (p : Int × Nat) (hp' : p ∈ st.allFs) (o : Obj) (ho : hp[p.2]? = some o)
    (hna : isPrimitiveArray K o.ty = false) (hnf : o.ty ≠ FS_ARRAY) (tr : TypeRec) (htr : getType ts o.ty = .ok tr)
    (f : Feature) (hf : f ∈ allFeatures tr) (hdom : f.domain ≠ ANNOTATION)
    (hname : xmlName f = "begin" ∨ xmlName f = "end") (i : Int)
    (hval : alistGet? o.slots f.name = some (.int i)) :
    ∃ j ∈ doc.fss, j.id = some p.1 ∧ j.ty = o.ty ∧ (xmlName f, JV.int i) ∈ j.feats :=
  saveJson_nonannotation_plain_aux K ts cass ci hp mode doc st hs p hp' o ho hna hnf tr htr f hf hdom hname i hval

/-- non-vacuity: the referenced-only `x.Tok` (id 3, `begin = 2` over `a😀b`) is written with `"begin": 3` -/
example : ∃ doc st, saveJson Xmi.Demo.K Xmi.Demo.demoTS' [Xmi.Demo.casL] 0 Xmi.Demo.hpL .none = .ok (doc, st) ∧
    ∃ j ∈ doc.fss, j.id = some 3 ∧ j.ty = "x.Tok" ∧ ("begin", JV.int 3) ∈ j.feats := by
  obtain ⟨doc, st, hs⟩ := OffsetsDoc.Demo.saveJson_ok
  refine ⟨doc, st, hs, ?_⟩
  exact saveJson_annotation_offsets Xmi.Demo.K Xmi.Demo.demoTS' [Xmi.Demo.casL] 0 Xmi.Demo.hpL .none doc st hs (3, 1)
    (by rw [OffsetsDoc.Demo.allFs_json hs]; decide) _ rfl OffsetsDoc.Demo.tok_noarr.1 OffsetsDoc.Demo.tok_noarr.2
    _ OffsetsDoc.Demo.tok_getType OffsetsDoc.Demo.fBegin OffsetsDoc.Demo.tok_begin rfl (Or.inl rfl)
    0 "_InitialView" Xmi.Demo.casL OffsetsDoc.Demo.viewL Xmi.Demo.txt 2 rfl rfl OffsetsDoc.Demo.viewL_get
    OffsetsDoc.Demo.viewL_text OffsetsDoc.Demo.sofaL_ok rfl

/-- non-vacuity: `x.Span` under TOP with its own `begin = 2` over the same text: written as `"begin": 2` -/
example : ∃ doc st, saveJson Xmi.Demo.K OffsetsDoc.Demo.tsP [OffsetsDoc.Demo.casP] 0 OffsetsDoc.Demo.hpP .none = .ok (doc, st) ∧
    ∃ j ∈ doc.fss, j.id = some 3 ∧ j.ty = "x.Span" ∧ ("begin", JV.int 2) ∈ j.feats := by
  cases h : saveJson Xmi.Demo.K OffsetsDoc.Demo.tsP [OffsetsDoc.Demo.casP] 0 OffsetsDoc.Demo.hpP .none with
  | error e => have := OffsetsDoc.Demo.saveP_json; rw [h] at this; cases this
  | ok r =>
    obtain ⟨doc, st⟩ := r
    have hall : st.allFs = [(3, 0)] := by
      have := OffsetsDoc.Demo.saveP_json
      rw [h] at this
      simpa [Except.toOption] using this
    refine ⟨doc, st, rfl, ?_⟩
    exact saveJson_nonannotation_plain Xmi.Demo.K _ _ 0 _ .none doc st h (3, 0) (by rw [hall]; decide) _ rfl
      OffsetsDoc.Demo.span_noarr.1 OffsetsDoc.Demo.span_noarr.2 _ OffsetsDoc.Demo.span_getType
      OffsetsDoc.Demo.gBegin OffsetsDoc.Demo.span_begin (by decide) (Or.inl rfl) 2 rfl

end Cassis.Json

#print axioms Cassis.OffsetsDoc.writer_formula_is_oracle
#print axioms Cassis.OffsetsDoc.setSofaString_conv
#print axioms Cassis.OffsetsDoc.convIs_history
#print axioms Cassis.OffsetsDoc.convOk_run
#print axioms Cassis.OffsetsDoc.loadXmi_convOk
#print axioms Cassis.Xmi.intFeat_builtin
#print axioms Cassis.Xmi.renderFeature_offset
#print axioms Cassis.Xmi.renderFeature_plain
#print axioms Cassis.Xmi.saveXmi_element
#print axioms Cassis.Xmi.renderFeature_attr
#print axioms Cassis.Xmi.saveXmi_offset_attrs
#print axioms Cassis.Xmi.saveXmi_annotation_offsets
#print axioms Cassis.Xmi.saveXmi_nonannotation_plain
#print axioms Cassis.Xmi.loadXmi_nonannotation_plain
#print axioms Cassis.Json.renderFeature_plain
#print axioms Cassis.Json.saveJson_element
#print axioms Cassis.Json.saveJson_offset_members
#print axioms Cassis.Json.saveJson_annotation_offsets
#print axioms Cassis.Json.saveJson_nonannotation_plain
