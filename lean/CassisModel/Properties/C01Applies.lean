/-
C01, applicability of the end-to-end theorem — a computable test for the hypotheses of `xmi_roundtrip_flat`.

`rtAppliesB K ts cass ci hp` (`Spec/RoundTripCheck.lean`) is a Boolean function of the inputs of `saveXmi`: it runs
`saveXmi` and evaluates one Boolean checker per hypothesis of `xmi_roundtrip_flat` (`Properties/C01RoundTrip.lean`):

* `rtWfB`      — `RTWf c hp`,
* `nullOkB`    — `NullOk ts`,
* `flatFsB`    — `FlatFs K ts c ci st.heap a` for every collected structure,
* `disjointB`  — `hdis` (structure ids differ from sofa ids),
* `memSofaB`   — `hmem` (no indexed structure has `sofa = None`),
* `membersOkB` — `MembersOk c st.heap`.

Each checker is proved sound in `Proofs/RoundTripCheck.lean` (`… = true → the hypothesis`).  Hence, whenever the
compiled model answers `true` for a generated CAS, the round-trip theorem applies to that CAS (`rtAppliesB_sound`):
the harness can count the generated inputs the theorem covers.  The checkers are sound, and they are meant to be
exact (every hypothesis is a finite statement about the inputs), but only soundness is proved and needed.
-/
import CassisModel.Properties.C01RoundTrip
import CassisModel.Proofs.RoundTripCheck

namespace Cassis.Xmi
open Cassis.TS Cassis.Traverse

/-- whenever the Boolean test says so, the round-trip theorem applies: writing and reading back succeed and preserve
    the structures (ids, types, the content of every feature) and the views -/
theorem rtAppliesB_sound (K : Consts) (ts : TypeSystem) (cass : List Cas) (ci : Nat) (hp : Heap) (tsIdx ci' : Nat)
    (h : rtAppliesB K ts cass ci hp = true) :
    ∃ (c : Cas) (doc : XDoc) (st : Traverse.St) (p : Pass1) (ld : Loaded),
      cass[ci]? = some c ∧ saveXmi K ts cass ci hp = .ok (doc, st) ∧
      pass1 K ts tsIdx false doc { heap := st.heap } = .ok p ∧
      loadXmi K ts tsIdx ci' false st.heap doc = .ok ld ∧
      (∀ q ∈ st.allFs, ∃ (a' : Nat) (o o' : Obj), lookupFs p.fss q.1 = .ok a' ∧
          st.heap[q.2]? = some o ∧ ld.heap[a']? = some o' ∧ o'.ty = o.ty ∧ o'.xid = some q.1 ∧
          ∀ t : TypeRec, find? ts o.ty = some t → ∀ f ∈ allFeatures t,
            featContent ld.heap a' f.name = featContent st.heap q.2 f.name) ∧
      ld.cas.views.map (viewContent ld.heap) = c.views.map (viewContent st.heap) := by
  obtain ⟨c, doc, st, hc, hs, hwf, hn, hf, hd, hm, hmo⟩ := rtAppliesB_hyps K ts cass ci hp h
  obtain ⟨p, ld, hp1, hl, _, hfs, hv, _⟩ :=
    xmi_roundtrip_flat K ts cass ci c hp tsIdx ci' doc st hc hwf hn hs hf hd hm hmo
  exact ⟨c, doc, st, p, ld, hc, hs, hp1, hl, hfs, hv⟩

/-- … and then serialising the loaded CAS again yields the identical document -/
theorem rtAppliesB_fixpoint (K : Consts) (ts : TypeSystem) (cass : List Cas) (ci : Nat) (hp : Heap) (tsIdx : Nat)
    (h : rtAppliesB K ts cass ci hp = true) :
    ∃ (doc : XDoc) (st st' : Traverse.St) (ld : Loaded),
      saveXmi K ts cass ci hp = .ok (doc, st) ∧
      loadXmi K ts tsIdx cass.length false st.heap doc = .ok ld ∧
      saveXmi K ts (cass ++ [ld.cas]) cass.length ld.heap = .ok (doc, st') := by
  obtain ⟨c, doc, st, hc, hs, hwf, hn, hf, hd, hm, hmo⟩ := rtAppliesB_hyps K ts cass ci hp h
  obtain ⟨_, ld, _, hl, _⟩ :=
    xmi_roundtrip_flat K ts cass ci c hp tsIdx cass.length doc st hc hwf hn hs hf hd hm hmo
  obtain ⟨st', hs'⟩ :=
    xmi_roundtrip_flat_fixpoint K ts cass ci c hp tsIdx doc st ld hc hwf hn hs hf hd hm hmo hl
  exact ⟨doc, st, st', ld, hs, hl, hs'⟩

/-! ### The test on the instance of `Proofs/RoundTripDemo.lean`

`Demo.demoTS` and `Demo.demo` are rewritten to the forms the kernel can evaluate (`Demo.demoTS_eq`: `createFeature`
uses well-founded recursion; `Demo.demo_eq`/`Demo.demo'_lit`: `Cas.add` goes through `String.contains`); the test
itself, including `saveXmi`, is then evaluated by the kernel. -/

/-- the test answers `true` on the demo instance -/
theorem demo_applies : rtAppliesB Demo.K Demo.demoTS [Demo.demo.1] 0 Demo.demo.2 = true := by
  rw [Demo.demo_eq, Demo.demo'_lit, Demo.demoTS_eq]
  decide +kernel

example : rtAppliesB Demo.K Demo.demoTS [Demo.demo.1] 0 Demo.demo.2 = true := demo_applies

/-- the test is not constantly `true`: the same CAS with the generator below an id in use is rejected -/
example : rtAppliesB Demo.K Demo.demoTS' [{ Demo.casL with nextXid := 2 }] 0 Demo.hpL = false := by
  decide +kernel

-- #eval rtAppliesB Demo.K Demo.demoTS [Demo.demo.1] 0 Demo.demo.2        -- true
#eval rtAppliesB Demo.K Demo.demoTS [Demo.demo.1] 0 Demo.demo.2

#print axioms rtAppliesB_sound
#print axioms rtAppliesB_fixpoint
#print axioms demo_applies

end Cassis.Xmi
