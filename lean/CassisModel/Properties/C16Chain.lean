/-
C16 — XMI ⇄ JSON conversion preserves the CAS, on the flat fragment.

Composition of the two end-to-end theorems (`C01RoundTrip`, `C02RoundTrip`): for a CAS in the flat fragment, the chain
XMI → CAS → JSON → CAS and the chain JSON → CAS → XMI → CAS (original type system supplied at every step) succeed, and
the CAS at the end has the same views, sofa data, member ids, feature structures, ids, types and feature contents as the
CAS that was written first.  What makes the composition go through is that a loaded CAS is again in the fragment and
well-formed (`FlatFs`, `JsonFs`, `MembersOk`, the view part of `RTWf`, … hold for what the loaders produce).

Hypotheses: the union of those of the two round-trip theorems, stated for the CAS that is written first.  Nothing is
assumed about intermediate or final loader outputs.  One hypothesis is added to `chain_xmi_json_flat`:
* `hsr` — a feature named `sofa` that holds a sofa has a range that is not primitive (nor `Float`/`Double`).  The flat
  fragment lets a feature named `sofa` of *any* non-collection range hold the sofa reference; the XMI codec treats the
  name specially, the JSON writer goes by the range and raises `TypeError` for a primitive one.  In
  `chain_json_xmi_flat` this follows from the success of the first `saveJson`; in `chain_xmi_json_flat` the first
  writer is the XMI one, so it has to be assumed.
  Counterexample without it (evaluated with `#eval`): `Gen.builtinTS` plus the type `x.T` (child of `uima.cas.TOP`) with
  the feature `sofa : uima.cas.Integer`; `Cas.new (some [97]) none`; one `x.T` whose `sofa` slot is
  `.sofa 0 "_InitialView"`, indexed with `Cas.add`.  Every other hypothesis holds (`rtAppliesB … = true`,
  `jsonFsB` on the collected structure), `saveXmi` and `loadXmi` succeed, and `saveJson` on the
  loaded CAS returns `typeError`.

Two obstacles were met that are *not* obstacles to the conclusions and are handled inside the proof
(`Proofs/ChainDefs.lean`): `RTWf.ids_below`/`ids_pos` do not hold for a loaded CAS together with the loader's heap (the
heap still contains the structures of the CAS written first — possibly with larger ids — and the `cas:NULL` object with
id 0 of the XMI reader), and `RTWf.conv` does not hold after the XMI reader for the empty text (no converter is
installed).  An `#eval` of the chain on an instance with the empty text, an annotation at (0, 0) and an unreachable
structure with id 100 shows the conclusion to hold there.
-/
import CassisModel.Proofs.Chain
import CassisModel.Proofs.ChainDemo

namespace Cassis
open Cassis.TS Cassis.Traverse Cassis.Xmi

/-- XMI → CAS → JSON → CAS -/
theorem chain_xmi_json_flat (K : Consts) (ts : TypeSystem) (cass : List Cas) (ci : Nat) (c : Cas) (hp : Heap)
    (tsIdx : Nat) (doc : XDoc) (st : St)
    (hc : cass[ci]? = some c) (hwf : RTWf c hp) (hnull : NullOk ts)
    (hsave : saveXmi K ts cass ci hp = .ok (doc, st))
    (hflat : ∀ q ∈ st.allFs, FlatFs K ts c ci st.heap q.2)
    (hjson : ∀ q ∈ st.allFs, Json.JsonFs ts st.heap q.2)
    (hsr : ∀ q ∈ st.allFs, ∀ (o : Obj) (t : TypeRec), st.heap[q.2]? = some o → find? ts o.ty = some t →
      ∀ f ∈ allFeatures t, f.name = "sofa" → (alistGet? o.slots f.name).getD .none ≠ .none →
        f.range ≠ "uima.cas.Double" ∧ f.range ≠ "uima.cas.Float" ∧ isPrimitive K ts f.range = false)
    (hdis : ∀ q ∈ st.allFs, ∀ nv ∈ c.views, q.1 ≠ nv.2.sofa.xid)
    (hmem : ∀ nv ∈ c.views, ∀ e ∈ Index.all nv.2.idx, Xmi.slot st.heap e.oid "sofa" ≠ some .none)
    (hmok : MembersOk c st.heap) :
    ∃ (ld1 : Xmi.Loaded) (docj : Json.JDoc) (st2 : St) (ld2 : Json.Loaded) (fss2 : List (Int × Val)),
      loadXmi K ts tsIdx cass.length false st.heap doc = .ok ld1 ∧
      Json.saveJson K ts (cass ++ [ld1.cas]) cass.length ld1.heap .none = .ok (docj, st2) ∧
      Json.loadJson K ts tsIdx (cass.length + 1) false false st2.heap docj = .ok ld2 ∧
      ld2.cas.views.map (viewContent ld2.heap) = c.views.map (viewContent st.heap) ∧
      (∀ q ∈ st.allFs, ∃ (a2 : Nat) (o o2 : Obj), Json.lookup fss2 q.1 = some (.ref a2) ∧
          st.heap[q.2]? = some o ∧ ld2.heap[a2]? = some o2 ∧ o2.ty = o.ty ∧ o2.xid = some q.1 ∧
          ∀ t : TypeRec, find? ts o.ty = some t → ∀ f ∈ allFeatures t,
            featContent ld2.heap a2 f.name = featContent st.heap q.2 f.name) :=
  chain_xmi_json_flat_aux K ts cass ci c hp tsIdx doc st hc hwf hnull hsave hflat hjson hsr hdis hmem hmok

/-- JSON → CAS → XMI → CAS -/
theorem chain_json_xmi_flat (K : Consts) (ts : TypeSystem) (cass : List Cas) (ci : Nat) (c : Cas) (hp : Heap)
    (tsIdx : Nat) (docj : Json.JDoc) (st : St)
    (hc : cass[ci]? = some c) (hwf : RTWf c hp) (hnull : NullOk ts)
    (hsave : Json.saveJson K ts cass ci hp .none = .ok (docj, st))
    (hflat : ∀ q ∈ st.allFs, FlatFs K ts c ci st.heap q.2)
    (hjson : ∀ q ∈ st.allFs, Json.JsonFs ts st.heap q.2)
    (hids : ∀ nv ∈ c.views, ∀ e ∈ Index.all nv.2.idx, (xidOf hp e.oid).isSome = true)
    (hdis : ∀ q ∈ st.allFs, ∀ nv ∈ c.views, q.1 ≠ nv.2.sofa.xid)
    (hmem : ∀ nv ∈ c.views, ∀ e ∈ Index.all nv.2.idx, Xmi.slot st.heap e.oid "sofa" ≠ some .none)
    (hmok : MembersOk c st.heap) :
    ∃ (ld1 : Json.Loaded) (docx : XDoc) (st2 : St) (p2 : Pass1) (ld2 : Xmi.Loaded),
      Json.loadJson K ts tsIdx cass.length false false st.heap docj = .ok ld1 ∧
      saveXmi K ts (cass ++ [ld1.cas]) cass.length ld1.heap = .ok (docx, st2) ∧
      pass1 K ts tsIdx false docx { heap := st2.heap } = .ok p2 ∧
      loadXmi K ts tsIdx (cass.length + 1) false st2.heap docx = .ok ld2 ∧
      ld2.cas.views.map (viewContent ld2.heap) = c.views.map (viewContent st.heap) ∧
      (∀ q ∈ st.allFs, ∃ (a2 : Nat) (o o2 : Obj), lookupFs p2.fss q.1 = .ok a2 ∧
          st.heap[q.2]? = some o ∧ ld2.heap[a2]? = some o2 ∧ o2.ty = o.ty ∧ o2.xid = some q.1 ∧
          ∀ t : TypeRec, find? ts o.ty = some t → ∀ f ∈ allFeatures t,
            featContent ld2.heap a2 f.name = featContent st.heap q.2 f.name) :=
  chain_json_xmi_flat_aux K ts cass ci c hp tsIdx docj st hc hwf hnull hsave hflat hjson hids hdis hmem hmok

/-! ### Non-vacuity

The instance of `Proofs/RoundTripDemo.lean` (type `x.Tok` with an Integer and a reference feature, text `a😀b`, two
structures referring to each other, one of them indexed): every hypothesis of both theorems holds
(`Chain.Demo.demo_hyps_chain`, `Json.Demo.demo_hypsJ` and `NullOk`), so both theorems apply. -/

example : ∃ (doc : XDoc) (st : St),
    saveXmi Demo.K Demo.demoTS [Demo.demo.1] 0 Demo.demo.2 = .ok (doc, st) ∧
    [Demo.demo.1][0]? = some Demo.demo.1 ∧ RTWf Demo.demo.1 Demo.demo.2 ∧ NullOk Demo.demoTS ∧
    (∀ q ∈ st.allFs, FlatFs Demo.K Demo.demoTS Demo.demo.1 0 st.heap q.2) ∧
    (∀ q ∈ st.allFs, Json.JsonFs Demo.demoTS st.heap q.2) ∧
    (∀ q ∈ st.allFs, ∀ (o : Obj) (t : TypeRec), st.heap[q.2]? = some o → find? Demo.demoTS o.ty = some t →
      ∀ f ∈ allFeatures t, f.name = "sofa" → (alistGet? o.slots f.name).getD .none ≠ .none →
        f.range ≠ "uima.cas.Double" ∧ f.range ≠ "uima.cas.Float" ∧ isPrimitive Demo.K Demo.demoTS f.range = false) ∧
    (∀ q ∈ st.allFs, ∀ nv ∈ Demo.demo.1.views, q.1 ≠ nv.2.sofa.xid) ∧
    (∀ nv ∈ Demo.demo.1.views, ∀ e ∈ Index.all nv.2.idx, Xmi.slot st.heap e.oid "sofa" ≠ some .none) ∧
    MembersOk Demo.demo.1 st.heap := Chain.Demo.demo_hyps_chain

/-- `chain_xmi_json_flat` applied to the instance -/
example : ∃ (doc : XDoc) (st : St) (ld1 : Xmi.Loaded) (docj : Json.JDoc) (st2 : St) (ld2 : Json.Loaded),
    saveXmi Demo.K Demo.demoTS [Demo.demo.1] 0 Demo.demo.2 = .ok (doc, st) ∧
    loadXmi Demo.K Demo.demoTS 0 1 false st.heap doc = .ok ld1 ∧
    Json.saveJson Demo.K Demo.demoTS ([Demo.demo.1] ++ [ld1.cas]) 1 ld1.heap .none = .ok (docj, st2) ∧
    Json.loadJson Demo.K Demo.demoTS 0 2 false false st2.heap docj = .ok ld2 ∧
    ld2.cas.views.map (viewContent ld2.heap) = Demo.demo.1.views.map (viewContent st.heap) := by
  obtain ⟨doc, st, hs, hc, hwf, hn, hf, hj, hsr, hd, hm, hmo⟩ := Chain.Demo.demo_hyps_chain
  obtain ⟨ld1, docj, st2, ld2, _, h1, h2, h3, h4, _⟩ :=
    chain_xmi_json_flat Demo.K Demo.demoTS [Demo.demo.1] 0 Demo.demo.1 Demo.demo.2 0 doc st
      hc hwf hn hs hf hj hsr hd hm hmo
  exact ⟨doc, st, ld1, docj, st2, ld2, hs, h1, h2, h3, h4⟩

/-- `chain_json_xmi_flat` applied to the instance -/
example : ∃ (docj : Json.JDoc) (st : St) (ld1 : Json.Loaded) (docx : XDoc) (st2 : St) (ld2 : Xmi.Loaded),
    Json.saveJson Demo.K Demo.demoTS [Demo.demo.1] 0 Demo.demo.2 .none = .ok (docj, st) ∧
    Json.loadJson Demo.K Demo.demoTS 0 1 false false st.heap docj = .ok ld1 ∧
    saveXmi Demo.K Demo.demoTS ([Demo.demo.1] ++ [ld1.cas]) 1 ld1.heap = .ok (docx, st2) ∧
    loadXmi Demo.K Demo.demoTS 0 2 false st2.heap docx = .ok ld2 ∧
    ld2.cas.views.map (viewContent ld2.heap) = Demo.demo.1.views.map (viewContent st.heap) := by
  obtain ⟨docj, st, hs, hc, hwf, hf, hj, hi, hd, hm, hmo⟩ := Json.Demo.demo_hypsJ
  obtain ⟨_, _, _, _, _, hn, _⟩ := Demo.demo_hyps
  obtain ⟨ld1, docx, st2, _, ld2, h1, h2, _, h3, h4, _⟩ :=
    chain_json_xmi_flat Demo.K Demo.demoTS [Demo.demo.1] 0 Demo.demo.1 Demo.demo.2 0 docj st
      hc hwf hn hs hf hj hi hd hm hmo
  exact ⟨docj, st, ld1, docx, st2, ld2, hs, h1, h2, h3, h4⟩

#print axioms chain_xmi_json_flat
#print axioms chain_json_xmi_flat

end Cassis
