/-
C16 — XMI ⇄ JSON conversion preserves the CAS, on the flat fragment.

Composition of the two end-to-end theorems (`C01RoundTrip`, `C02RoundTrip`): for a CAS in the flat fragment, the chain
XMI → CAS → JSON → CAS and the chain JSON → CAS → XMI → CAS (original type system supplied at every step) succeed, and
the CAS at the end has the same views, sofa data, member ids, feature structures, ids, types and feature contents as the
CAS that was written first.  What makes the composition go through is that a loaded CAS is again in the fragment and
well-formed (`RTWf`, `FlatFs`, `JsonFs`, `MembersOk`, … hold for what the loaders produce).
-/
import CassisModel.Proofs.Chain

namespace Cassis
open Cassis.TS Cassis.Traverse Cassis.Xmi

/-- XMI → CAS → JSON → CAS -/
theorem chain_xmi_json_flat (K : Consts) (ts : TypeSystem) (cass : List Cas) (ci : Nat) (c : Cas) (hp : Heap)
    (tsIdx : Nat) (doc : XDoc) (st : St)
    (hc : cass[ci]? = some c) (hwf : RTWf c hp) (hnull : NullOk ts)
    (hsave : saveXmi K ts cass ci hp = .ok (doc, st))
    (hflat : ∀ q ∈ st.allFs, FlatFs K ts c ci st.heap q.2)
    (hjson : ∀ q ∈ st.allFs, Json.JsonFs ts st.heap q.2)
    (hdis : ∀ q ∈ st.allFs, ∀ nv ∈ c.views, q.1 ≠ nv.2.sofa.xid)
    (hmem : ∀ nv ∈ c.views, ∀ e ∈ Index.all nv.2.idx, Xmi.slot st.heap e.oid "sofa" ≠ some .none)
    (hmok : MembersOk c st.heap) :
    ∃ (ld1 : Xmi.Loaded) (docj : Json.JDoc) (st2 : St) (ld2 : Json.Loaded) (fss2 : List (Int × Val)),
      loadXmi K ts tsIdx cass.length false st.heap doc = .ok ld1 ∧
      Json.saveJson K ts (cass ++ [ld1.cas]) cass.length ld1.heap .none = .ok (docj, st2) ∧
      Json.loadJson K ts tsIdx (cass.length + 1) false false st2.heap docj = .ok ld2 ∧
      ld2.cas.views.map (viewContent ld2.heap) = c.views.map (viewContent st.heap) ∧
      (∀ q ∈ st.allFs, ∃ (a2 : Nat) (o o2 : Obj), Json.lookup fss2 q.1 = some (.ref a2) ∧
          st.heap[q.2]? = some o ∧ ld2.heap[a2]? = some o2 ∧ o2.ty = o.ty ∧ o2.xid = some q.1 ∧
          ∀ t : TypeRec, find? ts o.ty = some t → ∀ f ∈ allFeatures t,
            featContent ld2.heap a2 f.name = featContent st.heap q.2 f.name) :=
  chain_xmi_json_flat_aux K ts cass ci c hp tsIdx doc st hc hwf hnull hsave hflat hjson hdis hmem hmok

/-- JSON → CAS → XMI → CAS -/
theorem chain_json_xmi_flat (K : Consts) (ts : TypeSystem) (cass : List Cas) (ci : Nat) (c : Cas) (hp : Heap)
    (tsIdx : Nat) (docj : Json.JDoc) (st : St)
    (hc : cass[ci]? = some c) (hwf : RTWf c hp) (hnull : NullOk ts)
    (hsave : Json.saveJson K ts cass ci hp .none = .ok (docj, st))
    (hflat : ∀ q ∈ st.allFs, FlatFs K ts c ci st.heap q.2)
    (hjson : ∀ q ∈ st.allFs, Json.JsonFs ts st.heap q.2)
    (hids : ∀ nv ∈ c.views, ∀ e ∈ Index.all nv.2.idx, (xidOf hp e.oid).isSome = true)
    (hdis : ∀ q ∈ st.allFs, ∀ nv ∈ c.views, q.1 ≠ nv.2.sofa.xid)
    (hmem : ∀ nv ∈ c.views, ∀ e ∈ Index.all nv.2.idx, Xmi.slot st.heap e.oid "sofa" ≠ some .none)
    (hmok : MembersOk c st.heap) :
    ∃ (ld1 : Json.Loaded) (docx : XDoc) (st2 : St) (p2 : Pass1) (ld2 : Xmi.Loaded),
      Json.loadJson K ts tsIdx cass.length false false st.heap docj = .ok ld1 ∧
      saveXmi K ts (cass ++ [ld1.cas]) cass.length ld1.heap = .ok (docx, st2) ∧
      pass1 K ts tsIdx false docx { heap := st2.heap } = .ok p2 ∧
      loadXmi K ts tsIdx (cass.length + 1) false st2.heap docx = .ok ld2 ∧
      ld2.cas.views.map (viewContent ld2.heap) = c.views.map (viewContent st.heap) ∧
      (∀ q ∈ st.allFs, ∃ (a2 : Nat) (o o2 : Obj), lookupFs p2.fss q.1 = .ok a2 ∧
          st.heap[q.2]? = some o ∧ ld2.heap[a2]? = some o2 ∧ o2.ty = o.ty ∧ o2.xid = some q.1 ∧
          ∀ t : TypeRec, find? ts o.ty = some t → ∀ f ∈ allFeatures t,
            featContent ld2.heap a2 f.name = featContent st.heap q.2 f.name) :=
  chain_json_xmi_flat_aux K ts cass ci c hp tsIdx docj st hc hwf hnull hsave hflat hjson hids hdis hmem hmok

end Cassis
