/-
C02 — the MINIMAL embedded type system is sufficient.

`TypeSystem.transitive_closure(used types)` (model: `closureStep`, a queue-driven search with the fuel `saveJson`
gives it) returns a set of user types that contains every used user type and declares everything its members refer
to — supertypes, feature ranges and element types of *all* (own and inherited) features — up to predefined types.
Hence a document written with `TypeSystemMode.MINIMAL` can be loaded without a type system: no declared type refers
to an undeclared, non-predefined one.  The fuel is sufficient for every type system (no run ends early).
-/
import CassisModel.Proofs.Closure

namespace Cassis.TS

/-- **sufficiency of the minimal closure**, for every type system and every set of seeds -/
theorem closure_sufficient (K : Consts) (ts : TypeSystem) (seeds : List String) :
    (∀ n ∈ seeds, K.predefined.contains n = false → (find? ts n).isSome = true →
        n ∈ closureStep K ts [] (closureFuel ts seeds) seeds) ∧
    ClosedUnder K ts (closureStep K ts [] (closureFuel ts seeds) seeds) :=
  closure_sufficient_aux K ts seeds

/-- nothing superfluous in kind: only registered user types, each once -/
theorem closure_members (K : Consts) (ts : TypeSystem) (seeds : List String) (fuel : Nat) :
    (closureStep K ts [] fuel seeds).Nodup ∧
    ∀ n ∈ closureStep K ts [] fuel seeds, K.predefined.contains n = false ∧ (find? ts n).isSome = true :=
  closure_members_aux K ts seeds fuel

/-- the closure of a closed set of seeds adds nothing (minimality in the simplest form) -/
theorem closure_of_closed (K : Consts) (ts : TypeSystem) (seeds : List String) (hn : seeds.Nodup)
    (hreg : ∀ n ∈ seeds, K.predefined.contains n = false ∧ (find? ts n).isSome = true)
    (hc : ClosedUnder K ts seeds) :
    ∀ n, n ∈ closureStep K ts [] (closureFuel ts seeds) seeds ↔ n ∈ seeds :=
  closure_of_closed_aux K ts seeds hn hreg hc

end Cassis.TS
