/-
C05 — loading depends on what a document says, not on the order of its entries (JSON, flat fragment).

The JSON counterpart of `C05Perm.lean` (`xmi_load_perm_flat`).  For a document written by `saveJson` for a CAS in the
flat fragment (the hypotheses of `json_roundtrip_flat`, `Properties/C02RoundTrip.lean`), *every* document `doc'` whose
`%FEATURE_STRUCTURES` list is a permutation of the written one (structures before the structures they refer to or after
them, sofas anywhere — also behind the structures and members that refer to them) and whose `%VIEWS` entries are a
permutation of the written ones loads, and loads to the same content as the round-trip theorem states for `doc` itself:

* the reader registers exactly the written ids (`s.fss`, the id-keyed map of the reader after its two passes over
  `%FEATURE_STRUCTURES`, which are part of the statement);
* every written structure is found under its id, with the same type and the same content of every feature
  (`featContent`: primitives by value, references by the id of the target, the sofa reference by the view name); every
  sofa id is mapped to its view;
* the same views with the same sofa data and member ids (`viewContent`), as a *permutation* of the written views with
  the initial view first: the reader creates the views in the order of the sofas in the document (`_InitialView`
  exists from the start), so the order of `Cas.views` follows the order of the sofas in `doc'`, not the written order
  (`LPJ.sofaPass_anyOrder`; evaluated on the instance below: the reversed document yields `_InitialView, v3, v2`;
  the Python code behaves in the same way);
* the generators are reseeded above every id and sofa number.

`doc'.types` is arbitrary: the configuration of the round-trip theorem (`merge_typesystem = False`, the type system
supplied) does not read it.  The identity permutation is `json_roundtrip_flat`.  Key order inside a JSON object,
whitespace and escaping do not exist in the abstract documents of the model (the `json` module's business) and are
exercised per run.
-/
import CassisModel.Proofs.LoadPermJson
import CassisModel.Proofs.LoadPermJsonDemo

namespace Cassis.Json
open Cassis.TS Cassis.Traverse Cassis.Xmi

/-- **entry-order independence of the JSON reader** -/
theorem json_load_perm_flat (K : Consts) (ts : TypeSystem) (cass : List Cas) (ci : Nat) (c : Cas) (hp : Heap)
    (tsIdx ci' : Nat) (doc doc' : JDoc) (st : St)
    (hc : cass[ci]? = some c) (hwf : RTWf c hp)
    (hsave : saveJson K ts cass ci hp .none = .ok (doc, st))
    (hflat : ∀ q ∈ st.allFs, FlatFs K ts c ci st.heap q.2)
    (hjson : ∀ q ∈ st.allFs, JsonFs ts st.heap q.2)
    (hids : ∀ nv ∈ c.views, ∀ e ∈ Index.all nv.2.idx, (xidOf hp e.oid).isSome = true)
    (hdis : ∀ q ∈ st.allFs, ∀ nv ∈ c.views, q.1 ≠ nv.2.sofa.xid)
    (hmem : ∀ nv ∈ c.views, ∀ e ∈ Index.all nv.2.idx, Xmi.slot st.heap e.oid "sofa" ≠ some .none)
    (hmok : MembersOk c st.heap)
    (hpf : doc'.fss.Perm doc.fss) (hpv : doc'.views.Perm doc.views) :
    ∃ (s1 s : RState) (ld' : Loaded),
      -- the two passes over `%FEATURE_STRUCTURES` and the whole reader succeed
      sofaPass K ts tsIdx ci' doc'.fss doc'.fss { cas := Cas.empty, heap := st.heap } = .ok s1 ∧
      fsPass K ts tsIdx doc'.fss s1 = .ok s ∧
      loadJson K ts tsIdx ci' false false st.heap doc' = .ok ld' ∧ ld'.ts = ts ∧
      -- the reader registered exactly the written ids
      (s.fss.map (·.1)).Perm (c.views.map (·.2.sofa.xid) ++ (sortById st.allFs).map (·.1)) ∧
      -- the same structures under the same ids
      (∀ q ∈ st.allFs, ∃ (a' : Nat) (o o' : Obj), lookup s.fss q.1 = some (.ref a') ∧
          st.heap[q.2]? = some o ∧ ld'.heap[a']? = some o' ∧ o'.ty = o.ty ∧ o'.xid = some q.1 ∧
          ∀ t : TypeRec, find? ts o.ty = some t → ∀ f ∈ allFeatures t,
            featContent ld'.heap a' f.name = featContent st.heap q.2 f.name) ∧
      (∀ nv ∈ c.views, lookup s.fss nv.2.sofa.xid = some (.sofa ci' nv.1)) ∧
      -- the same views (the initial view first)
      (ld'.cas.views.map (viewContent ld'.heap)).Perm (c.views.map (viewContent st.heap)) ∧
      (ld'.cas.views.head?).map (·.1) = some Cas.INITIAL_VIEW ∧
      -- generators reseeded
      (∀ q ∈ st.allFs, q.1 < ld'.cas.nextXid) ∧
      (∀ nv ∈ c.views, nv.2.sofa.xid < ld'.cas.nextXid ∧ nv.2.sofa.sofaNum < ld'.cas.nextSofaNum) :=
  json_load_perm_flat_aux K ts cass ci c hp tsIdx ci' doc doc' st hc hwf hsave hflat hjson hids hdis hmem hmok hpf hpv

/-! ### Non-vacuity

The instance of `Proofs/LoadPermJsonDemo.lean`: the type system of `RoundTripDemo.lean` (annotation type `x.Tok` with an
Integer and a reference feature), a CAS with THREE views (`_InitialView` over `a😀b`, `v2` over `😀bc`, `v3` over `d`),
five `x.Tok` structures (references across views, a cycle, a self reference, one structure that is only reachable and
gets its id from the writer).  All hypotheses hold (`PermDemo.demoP_hyps`, kernel evaluation of sound Boolean checkers),
and the written document with `%FEATURE_STRUCTURES` REVERSED (all structures before the sofas they name, every structure
before the one it refers to or after it, `v3` before `v2` before `_InitialView`) and `%VIEWS` REVERSED is a permutation
of it, so the theorem applies: the reversed document loads, to the same view content.  The order of the loaded views is
`_InitialView, v3, v2` (`PermDemo.reversed_view_order`), i.e. NOT the written order: "permutation, initial view first"
cannot be strengthened to equality of the lists. -/

example : ∃ (doc : JDoc) (st : St),
    saveJson PermDemo.K PermDemo.tsP [PermDemo.casP] 0 PermDemo.hpP .none = .ok (doc, st) ∧
    [PermDemo.casP][0]? = some PermDemo.casP ∧ RTWf PermDemo.casP PermDemo.hpP ∧
    (∀ q ∈ st.allFs, FlatFs PermDemo.K PermDemo.tsP PermDemo.casP 0 st.heap q.2) ∧
    (∀ q ∈ st.allFs, JsonFs PermDemo.tsP st.heap q.2) ∧
    (∀ nv ∈ PermDemo.casP.views, ∀ e ∈ Index.all nv.2.idx, (xidOf PermDemo.hpP e.oid).isSome = true) ∧
    (∀ q ∈ st.allFs, ∀ nv ∈ PermDemo.casP.views, q.1 ≠ nv.2.sofa.xid) ∧
    (∀ nv ∈ PermDemo.casP.views, ∀ e ∈ Index.all nv.2.idx, Xmi.slot st.heap e.oid "sofa" ≠ some .none) ∧
    MembersOk PermDemo.casP st.heap := PermDemo.demoP_hyps

/-- the theorem applied to the instance and the reversed document -/
example : ∃ (doc : JDoc) (st : St) (s1 s : RState) (ld' : Loaded),
    saveJson PermDemo.K PermDemo.tsP [PermDemo.casP] 0 PermDemo.hpP .none = .ok (doc, st) ∧
    doc.fss.reverse.Perm doc.fss ∧ doc.views.reverse.Perm doc.views ∧
    sofaPass PermDemo.K PermDemo.tsP 0 1 doc.fss.reverse doc.fss.reverse { cas := Cas.empty, heap := st.heap } = .ok s1 ∧
    fsPass PermDemo.K PermDemo.tsP 0 doc.fss.reverse s1 = .ok s ∧
    loadJson PermDemo.K PermDemo.tsP 0 1 false false st.heap
      { doc with fss := doc.fss.reverse, views := doc.views.reverse } = .ok ld' ∧
    (s.fss.map (·.1)).Perm (PermDemo.casP.views.map (·.2.sofa.xid) ++ (sortById st.allFs).map (·.1)) ∧
    (ld'.cas.views.map (viewContent ld'.heap)).Perm (PermDemo.casP.views.map (viewContent st.heap)) ∧
    (ld'.cas.views.head?).map (·.1) = some Cas.INITIAL_VIEW := by
  obtain ⟨doc, st, hs, hc, hwf, hf, hj, hi, hd, hm, hmo⟩ := PermDemo.demoP_hyps
  obtain ⟨s1, s, ld', h1, h2, hl, _, hids, _, _, hv, hh, _⟩ :=
    json_load_perm_flat PermDemo.K PermDemo.tsP [PermDemo.casP] 0 PermDemo.casP PermDemo.hpP 0 1 doc
      { doc with fss := doc.fss.reverse, views := doc.views.reverse } st
      hc hwf hs hf hj hi hd hm hmo (List.reverse_perm _) (List.reverse_perm _)
  exact ⟨doc, st, s1, s, ld', hs, List.reverse_perm _, List.reverse_perm _, h1, h2, hl, hids, hv, hh⟩

#print axioms json_load_perm_flat
#print axioms PermDemo.demoP_hyps
#print axioms PermDemo.reversed_view_order

end Cassis.Json
