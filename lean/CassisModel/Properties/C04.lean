/-
C04 — Written documents are complete, closed under reachability and faithful.

Proved here, about the traversal both serialisers are built on (`Model/Traverse.lean`): the collected
set is exactly the set of structures reachable from the indexed ones (through references, array elements,
list heads, inlined or not), each collected once under its own id; everything a collected structure
refers to is collected as well (closure), so every reference written as an id resolves.
The faithfulness of the rendering itself (types by namespace, values, element order, sofa data, view
membership) is checked by an independent reader in the correspondence check; the written document's shape
(ascending distinct ids, sofas, views) is `saveXmi_shape` of C01.
-/
import CassisModel.Proofs.Reach

namespace Cassis.Traverse
open Cassis.TS

/-- closure: whatever a collected structure refers to is collected too (or is the NULL object) -/
theorem findAllFs_closed (K : Consts) (ts : TypeSystem) (o : Opts) (hp : Heap) (nx : Int) (seeds : List Nat)
    (st : St) (hnx : 0 < nx) (h : findAllFs K ts o hp nx seeds = .ok st) (x : Int) (a b : Nat)
    (ha : (x, a) ∈ st.allFs) (hb : b ∈ succsOf K ts o st.heap (hp.length + 1) a) (hnull : xidOf st.heap b ≠ some 0) :
    b ∈ st.allFs.map (·.2) :=
  findAllFs_closed_aux K ts o hp nx seeds st hnx h x a b ha hb hnull

/-- completeness: every structure reachable from the seeds (here: the indexed structures) is collected -/
theorem findAllFs_complete (K : Consts) (ts : TypeSystem) (o : Opts) (hp : Heap) (nx : Int) (seeds : List Nat)
    (st : St) (hnx : 0 < nx) (h : findAllFs K ts o hp nx seeds = .ok st) (a : Nat)
    (hr : Reach K ts o st.heap (hp.length + 1) seeds a) (hnull : xidOf st.heap a ≠ some 0) :
    a ∈ st.allFs.map (·.2) :=
  findAllFs_complete_aux K ts o hp nx seeds st hnx h a hr hnull

/-- soundness: nothing else is collected -/
theorem findAllFs_sound (K : Consts) (ts : TypeSystem) (o : Opts) (hp : Heap) (nx : Int) (seeds : List Nat)
    (st : St) (hnx : 0 < nx) (h : findAllFs K ts o hp nx seeds = .ok st) (a : Nat) (ha : a ∈ st.allFs.map (·.2)) :
    Reach K ts o st.heap (hp.length + 1) seeds a :=
  findAllFs_sound_aux K ts o hp nx seeds st hnx h a ha

/-- each collected structure carries the id it is listed under, and none is the NULL object -/
theorem findAllFs_ids (K : Consts) (ts : TypeSystem) (o : Opts) (hp : Heap) (nx : Int) (seeds : List Nat)
    (st : St) (hnx : 0 < nx) (h : findAllFs K ts o hp nx seeds = .ok st) (x : Int) (a : Nat) (ha : (x, a) ∈ st.allFs) :
    xidOf st.heap a = some x ∧ x ≠ 0 :=
  findAllFs_ids_aux K ts o hp nx seeds st hnx h x a ha

end Cassis.Traverse
