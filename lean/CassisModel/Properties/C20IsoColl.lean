/-
C20 — `cas_to_comparable_text` is invariant under the XMI round trip, on the whole format (arrays and lists included).

`render_xmi_roundtrip_coll` extends `render_xmi_roundtrip_flat` (`Properties/C20Iso.lean`) from the flat fragment to the
fragment `CollFs` of `xmi_roundtrip_coll` (`Properties/C01RoundTripColl.lean`): structures with array and list features,
inlined or shared, and the collection objects written as structures of their own.  For such a CAS whose collected
structures satisfy `Distinct`,

    cas_to_comparable_text(load_cas_from_xmi(cas.to_xmi())) = cas_to_comparable_text(cas)

— `render` of the loaded CAS (its own traversal of the loaded heap included) and `render` of the original give the same
table, or fail with the same exception.

Hypotheses beyond those of `xmi_roundtrip_coll` (without `hdis`) and `Distinct` (`Spec/ComparableIsoColl.lean`); each is
forced by a counterexample evaluated on the model (`Spec/ComparableIsoCollCheck.lean`) in which every other hypothesis
holds, save and load succeed, and the comparable text changes:

* `InlOk.strs` / `InlOk.arr` (second part) — no string array (inlined, or a StringArray object written as a structure of
  its own) has the element `""`: XMI reads `<sa></sa>` and `<sa/>` alike, the element comes back as null and is shown
  as `<NULL>` (`cx_strarray_empty`, `cx_strarray_obj_empty`; both replayed on `/repo`: the text changes from
  `['p', '']` to `['p', '<NULL>']`).  `xmi_roundtrip_coll` states this equivalence (`featContentC`); the comparable text
  tells the two apart.
* `InlOk.arr` (first part) — the object inlined in an array feature is of an array type.  `_render_feature_value` shows a
  reference to an array object by its elements and any other reference by the anchor of its target; `CollFs` looks at
  the `elements` of the inlined object only, and the reader makes an object of the range type of the feature
  (`cx_inl_not_array`).  True on every well-typed CAS.
* `InlOk.list` — the first node of an inlined list is not of an array type (`cx_list_node_array`) and does not carry the
  id of a collected structure.  An inlined list is shown by the anchor of its first node, which is not collected and
  has no anchor (`None`) — unless it is *also* reachable as a structure of its own (through a feature with
  `multipleReferencesAllowed`), in which case it is collected and shown as `NonEmpty…List`; the reader makes a new node
  for the inlined feature, shown as `None` (`cx_list_shared`; replayed on `/repo`: the cell changes from
  `NonEmptyFloatList` to empty).  Likewise for a node with a stale id (`cx_list_stale_id`).
* `NodeTysNotArr K` — the constants do not classify a list-node type as an array type (`cx_node_array`).  `K` is an
  arbitrary record in the theorem; true for the generated constants, not reachable in Python.

A cyclic nesting of arrays (an FSArray that contains itself) is inside the hypotheses: both sides exhaust their
recursion budgets and fail alike (`RuntimeError`; Python: `RecursionError`) — `ok_cyclic`.  The two budgets differ (the
loaded heap is larger), so this needs `renderVal_saturated`: the budget `2 * |heap| + 2` of the model is as good as any
larger one.  Proof structure: `Proofs/ComparableFuel.lean` (saturation), `ComparableSim.lean` (a simulation between the
array objects of two heaps gives equal cells), `ComparableIsoR.lean` (`renderFrom_iso` for a semantic notion of
isomorphism, `IsoR`), `ComparableIsoColl{Rel,Slots,Iso,Xmi}.lean` (the round-trip relation `E3c`/`CollsAt` of
`xmi_roundtrip_coll` together with the typing invariant of the reader, `XLd.typed`, is such an isomorphism).

`renderCollAppliesB` is a sound computable test for all hypotheses (`renderCollAppliesB_sound`).
-/
import CassisModel.Proofs.ComparableIsoCollXmi
import CassisModel.Proofs.ComparableIsoCollChk
import CassisModel.Proofs.ComparableIsoCollDemo

namespace Cassis.Comparable
open Cassis.TS Cassis.Traverse Cassis.Xmi

/-- **C20 across the XMI round trip (whole format)**: the comparable text of the loaded CAS is that of the original.
    The loaded CAS is registered behind the existing ones (`cass ++ [ld.cas]`, index `cass.length`) and lives in the heap
    the loader extended (`ld.heap`); both sides run the whole function, traversal included; options and the two
    content-hash functions are arbitrary.  `Except.map (·.1)` drops the traversal state: equal tables or equal exceptions. -/
theorem render_xmi_roundtrip_coll (K : Consts) (ts : TypeSystem) (cass : List Cas) (ci : Nat) (c : Cas) (hp : Heap)
    (tsIdx : Nat) (doc : XDoc) (st : St) (o : Opts) (hsh hsh' : Nat → Int)
    (hc : cass[ci]? = some c) (hwf : RTWf c hp) (hnull : NullOk ts)
    (hsave : saveXmi K ts cass ci hp = .ok (doc, st))
    (hcoll : ∀ q ∈ st.allFs, CollFs K ts c ci st.heap q.2)
    (hmem : ∀ nv ∈ c.views, ∀ e ∈ Index.all nv.2.idx, Xmi.slot st.heap e.oid "sofa" ≠ some .none)
    (hmok : MembersOk c st.heap)
    (hd : Distinct st.heap (st.allFs.map (·.2)))
    (hnodes : NodeTysNotArr K)
    (hinl : ∀ q ∈ st.allFs, InlOk K ts st.heap (st.allFs.map (·.2)) q.2) :
    ∃ ld : Loaded,
      loadXmi K ts tsIdx cass.length false st.heap doc = .ok ld ∧
      (render K ts (cass ++ [ld.cas]) cass.length ld.heap o hsh' none).map (·.1)
        = (render K ts cass ci hp o hsh none).map (·.1) :=
  render_xmi_roundtrip_coll_aux K ts cass ci c hp tsIdx doc st o hsh hsh' hc hwf hnull hsave hcoll hmem hmok hd hnodes hinl

/-- **the recursion budget of the model is as good as no budget**: `renderCols` / `renderRow` call `renderVal` with
    `2 * |heap| + 2` levels; every larger budget gives the same result (a cell, or an exception — `RuntimeError` exactly
    when the nesting of arrays is cyclic, where Python raises `RecursionError`) -/
theorem renderVal_budget_saturated (K : Consts) (hp : Heap) (byId : List (Option Int × String)) (F : Nat)
    (hF : 2 * hp.length + 2 ≤ F) (v : Val) :
    renderVal K hp byId F v = renderVal K hp byId (2 * hp.length + 2) v :=
  renderVal_saturated K hp byId F hF v

/-- whenever the Boolean test says so, the comparable text survives the XMI round trip -/
theorem renderCollAppliesB_sound (K : Consts) (ts : TypeSystem) (cass : List Cas) (ci : Nat) (hp : Heap) (tsIdx : Nat)
    (o : Opts) (hsh hsh' : Nat → Int) (h : renderCollAppliesB K ts cass ci hp = true) :
    ∃ (doc : XDoc) (st : St) (ld : Loaded),
      saveXmi K ts cass ci hp = .ok (doc, st) ∧
      loadXmi K ts tsIdx cass.length false st.heap doc = .ok ld ∧
      (render K ts (cass ++ [ld.cas]) cass.length ld.heap o hsh' none).map (·.1)
        = (render K ts cass ci hp o hsh none).map (·.1) := by
  obtain ⟨c, doc, st, hc, hs, hwf, hn, hf, hm, hmo, hd, hk, hi⟩ := renderCollAppliesB_hyps K ts cass ci hp h
  obtain ⟨ld, hl, hr⟩ := render_xmi_roundtrip_coll K ts cass ci c hp tsIdx doc st o hsh hsh' hc hwf hn hs hf hm hmo hd hk hi
  exact ⟨doc, st, ld, hs, hl, hr⟩

/-! ### Non-vacuity

`IsoCollCheck.good` (`Spec/ComparableIsoCollCheck.lean`): the instance `CollDemo` (type `x.Doc` with one feature per
collection kind — seven primitive array types, StringArray, FSArray, FSList, IntegerList, FloatList, StringList inlined;
FSArray, IntegerArray, StringArray, FSList, IntegerList, StringList shared —, text `a😀b`, two structures referring to each
other, one of them indexed, eleven collected structures) without the empty string element.  Every hypothesis holds
(`collGood_applies`, checked by the kernel), so the theorem applies; the evaluated table of the instance (both sides) is
`ok_good` in the check file. -/

/-- all hypotheses of `render_xmi_roundtrip_coll` hold on the instance, which has eleven collected structures -/
example : ∃ (doc : XDoc) (st : St),
    saveXmi CollDemo.K CollDemo.ts [CollDemo.cas] 0 IsoCollCheck.good = .ok (doc, st) ∧
    RTWf CollDemo.cas IsoCollCheck.good ∧ NullOk CollDemo.ts ∧
    (∀ q ∈ st.allFs, CollFs CollDemo.K CollDemo.ts CollDemo.cas 0 st.heap q.2) ∧
    (∀ nv ∈ CollDemo.cas.views, ∀ e ∈ Index.all nv.2.idx, Xmi.slot st.heap e.oid "sofa" ≠ some .none) ∧
    MembersOk CollDemo.cas st.heap ∧ Distinct st.heap (st.allFs.map (·.2)) ∧ NodeTysNotArr CollDemo.K ∧
    (∀ q ∈ st.allFs, InlOk CollDemo.K CollDemo.ts st.heap (st.allFs.map (·.2)) q.2) := by
  obtain ⟨c, doc, st, hc, hs, hwf, hn, hf, hm, hmo, hd, hk, hi⟩ := collGood_hyps
  have hcc : c = CollDemo.cas := by
    have : [CollDemo.cas][0]? = some CollDemo.cas := rfl
    rw [this] at hc
    exact (Option.some.inj hc).symm
  subst hcc
  exact ⟨doc, st, hs, hwf, hn, hf, hm, hmo, hd, hk, hi⟩

/-- the theorem applied to the instance -/
example : ∃ (doc : XDoc) (st : St) (ld : Loaded),
    saveXmi CollDemo.K CollDemo.ts [CollDemo.cas] 0 IsoCollCheck.good = .ok (doc, st) ∧
    loadXmi CollDemo.K CollDemo.ts 0 1 false st.heap doc = .ok ld ∧
    (render CollDemo.K CollDemo.ts ([CollDemo.cas] ++ [ld.cas]) 1 ld.heap {} (fun a => a) none).map (·.1)
      = (render CollDemo.K CollDemo.ts [CollDemo.cas] 0 IsoCollCheck.good {} (fun _ => 0) none).map (·.1) :=
  renderCollAppliesB_sound CollDemo.K CollDemo.ts [CollDemo.cas] 0 IsoCollCheck.good 0 {} (fun _ => 0) (fun a => a)
    collGood_applies

/-- the test is not constantly true: the instance with the element `""` (`cx_strarray_empty`) is rejected -/
example : renderCollAppliesB CollDemo.K CollDemo.ts [CollDemo.cas] 0 CollDemo.hp = false := collDemo_rejected

#print axioms render_xmi_roundtrip_coll
#print axioms renderVal_budget_saturated
#print axioms renderCollAppliesB_sound
#print axioms collGood_applies

end Cassis.Comparable
