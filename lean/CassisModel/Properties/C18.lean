/-
C18 — Feature paths read and write exactly what step-by-step attribute access does.

Theorems about `Model/Heap.lean` (`getPath`, `setPath` over the already split path), for every heap
(cycles included), every reserved-attribute list `RA` and every behaviour `ext` of non-FS values that
answers `None` on `None`.
-/
import CassisModel.Proofs.Heap

namespace Cassis.Heap

/-- `get(path)` = plain step-by-step access; the early exit on `None` is unobservable -/
theorem get_eq_stepwise (RA : List String) (ext : Val → String → Val) (hext : ∀ p, ext .none p = .none)
    (h : Heap) (a : Nat) (parts : List String) :
    getPath RA ext h a parts = follow RA ext h (.ref a) parts :=
  get_eq_stepwise_aux RA ext hext h a parts

/-- `None` as soon as a step is `None` … -/
theorem get_none_of_prefix_none (RA : List String) (ext : Val → String → Val) (h : Heap) (a : Nat)
    (pre post : List String) (hne : pre ≠ []) (hp : getPath RA ext h a pre = .none) :
    getPath RA ext h a (pre ++ post) = .none :=
  get_none_of_prefix_none_aux RA ext h a pre post hne hp

/-- … or names no feature (nor reserved attribute) of the structure reached so far -/
theorem get_none_of_unknown (RA : List String) (ext : Val → String → Val) (h : Heap) (a t : Nat)
    (pre : List String) (p : String) (post : List String)
    (hp : getPath RA ext h a pre = .ref t) (hu : getattr RA h t p = none) :
    getPath RA ext h a (pre ++ p :: post) = .none :=
  get_none_of_unknown_aux RA ext h a t pre p post hp hu

/-- one more segment = one more `getattr` -/
theorem get_snoc (RA : List String) (ext : Val → String → Val) (hext : ∀ p, ext .none p = .none)
    (h : Heap) (a : Nat) (pre : List String) (p : String) :
    getPath RA ext h a (pre ++ [p]) = stepGet RA ext h (getPath RA ext h a pre) p :=
  get_snoc_aux RA ext hext h a pre p

/-- `set(path, v)` assigns the last feature on the structure reached by the prefix -/
theorem set_spec (RA : List String) (ext : Val → String → Val) (h h' : Heap) (a : Nat)
    (pre : List String) (last : String) (v : Val)
    (hs : setPath RA ext h a (pre ++ [last]) v = .ok h') :
    ∃ t, (if pre = [] then t = a else getPath RA ext h a pre = .ref t) ∧ setSlot h t last v = .ok h' :=
  set_spec_aux RA ext h h' a pre last v hs

/-- after a successful `setSlot`, reading that slot gives `v` … -/
theorem setSlot_get (RA : List String) (h h' : Heap) (t : Nat) (name : String) (v : Val)
    (hn : name ≠ "xmiID") (hs : setSlot h t name v = .ok h') : getattr RA h' t name = some v :=
  setSlot_get_aux RA h h' t name v hn hs

/-- … and no other slot of any object changes (frame) -/
theorem setSlot_frame (RA : List String) (h h' : Heap) (t : Nat) (name : String) (v : Val)
    (hs : setSlot h t name v = .ok h') (b : Nat) (n : String) (hne : b ≠ t ∨ n ≠ name) :
    getattr RA h' b n = getattr RA h b n ∧ h'.length = h.length :=
  setSlot_frame_aux RA h h' t name v hs b n hne

/-- `set` then `get` returns `v`, provided the prefix still leads to the same structure after the
    assignment (always the case when the assigned slot is not on the prefix walk; with a cyclic alias such
    as `a.next = a; a.set("next.next", b)` the real code, too, returns `b.next` — recorded finding A2) -/
theorem set_then_get (RA : List String) (ext : Val → String → Val) (hext : ∀ p, ext .none p = .none)
    (h h' : Heap) (a : Nat) (pre : List String) (last : String) (v : Val) (hn : last ≠ "xmiID")
    (hs : setPath RA ext h a (pre ++ [last]) v = .ok h')
    (hstable : getPath RA ext h' a pre = getPath RA ext h a pre) :
    getPath RA ext h' a (pre ++ [last]) = v :=
  set_then_get_aux RA ext hext h h' a pre last v hn hs hstable

/-- raising leaves the heap untouched is built into the `Except` model; *when* it raises: the prefix
    leads to `None` (or to a non-structure) … -/
theorem set_error_of_prefix (RA : List String) (ext : Val → String → Val) (h : Heap) (a : Nat)
    (pre : List String) (last : String) (v : Val) (hne : pre ≠ [])
    (hp : ∀ t, getPath RA ext h a pre ≠ .ref t) :
    setPath RA ext h a (pre ++ [last]) v = .error .attributeError :=
  set_error_of_prefix_aux RA ext h a pre last v hne hp

/-- … or the last name is not a slot of the structure reached -/
theorem set_error_of_unknown_last (RA : List String) (ext : Val → String → Val) (h : Heap) (a t : Nat)
    (pre : List String) (last : String) (v : Val) (hl : last ≠ "xmiID")
    (ht : if pre = [] then t = a else getPath RA ext h a pre = .ref t)
    (hslot : ∀ o, h[t]? = some o → alistGet? o.slots last = none) :
    setPath RA ext h a (pre ++ [last]) v = .error .attributeError :=
  set_error_of_unknown_last_aux RA ext h a t pre last v hl ht hslot

/-! Non-vacuity: a two-node cycle (tests of concrete instances) -/
def demoHeap : Heap :=
  [ { ty := "x.N", ts := 0, xid := none, slots := [("next", .ref 1), ("val", .int 7)] },
    { ty := "x.N", ts := 0, xid := none, slots := [("next", .ref 0), ("val", .none)] } ]

example : getPath [] (fun _ _ => .none) demoHeap 0 ["next", "next", "val"] = .int 7 := by decide
example : getPath [] (fun _ _ => .none) demoHeap 0 ["next", "val", "val"] = .none := by decide
example : getPath [] (fun _ _ => .none) demoHeap 0 ["nope", "val"] = .none := by decide
example : (setPath [] (fun _ _ => .none) demoHeap 0 ["next", "val"] (.int 3)).toOption.map
    (fun h => getPath [] (fun _ _ => .none) h 0 ["next", "val"]) = some (.int 3) := by decide
example : setPath [] (fun _ _ => .none) demoHeap 0 ["next", "val", "x"] (.int 3) = .error .attributeError := by rfl

end Cassis.Heap
