/-
C06 — select / select_all return exactly the indexed instances of a type subtree.

Refinement: after any history of index operations, each view's concrete index (`Model/Index.lean`,
sorted per-type lists in a dictionary) represents exactly the abstract bag of `(type, entry)` pairs of
`Spec/Index.lean` (`add` = insert into the bag, `remove` = erase or raise, other views untouched), and
`select` over the descendant names of a type returns — as a permutation, whatever the set iteration
order — exactly the pairs whose type lies in the subtree (`Anc`, via C10).
-/
import CassisModel.Proofs.Index
import CassisModel.Proofs.IndexHistory
import CassisModel.Properties.C10

namespace Cassis.Index

/-! ### One step -/

theorem keysNodup_add (idx : Idx) (ty : String) (x : Entry) (h : KeysNodup idx) : KeysNodup (add idx ty x) :=
  keysNodup_add_aux idx ty x h

theorem allSorted_add (idx : Idx) (ty : String) (x : Entry) (h : AllSorted idx) : AllSorted (add idx ty x) :=
  allSorted_add_aux idx ty x h

theorem pairs_add_perm (idx : Idx) (ty : String) (x : Entry) (h : KeysNodup idx) :
    (pairs (add idx ty x)).Perm ((ty, x) :: pairs idx) :=
  pairs_add_perm_aux idx ty x h

/-- removing something that is not indexed (under that type, in this view) raises … -/
theorem rem_none_iff (idx : Idx) (ty : String) (x : Entry) (h : KeysNodup idx) :
    rem idx ty x = none ↔ (ty, x) ∉ pairs idx :=
  rem_none_iff_aux idx ty x h

/-- … and a successful remove takes out exactly one occurrence, keeping everything else -/
theorem rem_some_perm (idx idx' : Idx) (ty : String) (x : Entry) (h : KeysNodup idx)
    (hr : rem idx ty x = some idx') :
    (pairs idx).Perm ((ty, x) :: pairs idx') ∧ KeysNodup idx' ∧ (AllSorted idx → AllSorted idx') :=
  rem_some_perm_aux idx idx' ty x h hr

/-! ### Queries against the abstract bag -/

/-- `select_all` is the whole bag -/
theorem all_eq_pairs (idx : Idx) : all idx = (pairs idx).map (·.2) :=
  all_eq_pairs_aux idx

/-- `select` over a duplicate-free set of names, in any order, returns exactly the pairs filed under
    those names: none missing, none twice, none from other types -/
theorem selectNames_perm (idx : Idx) (names : List String) (hk : KeysNodup idx) (hn : names.Nodup) :
    (selectNames idx names).Perm (((pairs idx).filter (fun p => names.contains p.1)).map (·.2)) :=
  selectNames_perm_aux idx names hk hn

/-- the result is a concatenation of per-type chunks, each in non-decreasing `(begin, end)` order -/
theorem selectNames_chunks_sorted (idx : Idx) (names : List String) (hs : AllSorted idx) :
    selectNames idx names = names.flatMap (get idx) ∧ ∀ n ∈ names, SortedBE (get idx n) := by
  refine ⟨rfl, ?_⟩
  intro n _
  exact Sorted.sortedBE (hs n)

/-! ### Histories -/

/-- the representation invariant relating a concrete and an abstract state -/
def Rep (c : Views) (a : SpecViews) : Prop :=
  (c.map (·.1)) = (a.map (·.1)) ∧
  ∀ v, match viewIdx c v, specView a v with
    | some idx, some bag => KeysNodup idx ∧ AllSorted idx ∧ (pairs idx).Perm bag
    | none, none => True
    | _, _ => False

theorem rep_init : Rep initViews initSpec := rep_init_aux

theorem rep_step (c : Views) (a : SpecViews) (op : IOp) (h : Rep c a) : Rep (istep c op) (sstep a op) :=
  rep_step_aux c a op h

/-- **refinement for every history** -/
theorem rep_history (ops : List IOp) : Rep (ops.foldl istep initViews) (ops.foldl sstep initSpec) := by
  have : ∀ c a, Rep c a → Rep (ops.foldl istep c) (ops.foldl sstep a) := by
    induction ops with
    | nil => intro c a h; exact h
    | cons op ops ih => intro c a h; exact ih _ _ (rep_step c a op h)
  exact this _ _ rep_init

/-- frame: an operation on view `v` leaves the abstract bag of every other view unchanged -/
theorem sstep_frame (a : SpecViews) (op : IOp) (w : String)
    (hw : match op with | .add v _ _ => v ≠ w | .remove v _ _ => v ≠ w | .createView v => v ≠ w) :
    specView (sstep a op) w = specView a w :=
  sstep_frame_aux a op w hw

/-- **C06**: after any history, for any consistent type system and any registered type `T`, `select(T)` on
    view `v` — whatever order the descendant-name set is iterated in (`names` is any permutation of
    `descendantsOf ts T`) — is a permutation of the entries of the abstract bag of `v` whose type is `T` or
    a transitive subtype of it. -/
theorem select_history (ops : List IOp) (ts : TS.TypeSystem) (hc : TS.Consistent ts) (T : String)
    (hT : TS.hasExact ts T = true) (names : List String) (hp : names.Perm (TS.descendantsOf ts T))
    (isSub : String → Bool) (hsub : ∀ n, isSub n = true ↔ TS.Anc ts T n)
    (v : String) (idx : Idx) (bag : List (String × Entry))
    (hi : viewIdx (ops.foldl istep initViews) v = some idx)
    (hb : specView (ops.foldl sstep initSpec) v = some bag) :
    (selectNames idx names).Perm ((bag.filter (fun p => isSub p.1)).map (·.2)) :=
  select_history_core ops names (TS.descendantsOf ts T) hp (TS.descendants_nodup ts hc T) isSub
    (fun n => by rw [hsub n, TS.descendants_eq_closure ts hc T n hT]) v idx bag hi hb

/-! Non-vacuity: a concrete history (test) -/
example : viewIdx ([IOp.add "_InitialView" "x.T" ⟨1,2,0⟩, .createView "v2", .add "v2" "x.T" ⟨0,1,1⟩,
    .remove "_InitialView" "x.T" ⟨1,2,0⟩, .remove "v2" "x.U" ⟨0,1,1⟩].foldl istep initViews) "v2"
    = some [("x.T", [⟨0,1,1⟩])] := by decide

end Cassis.Index
