/-
C12 — Type system XML round trip preserves every declaration, in any declaration order.

The model (`Model/TsXml.lean`) works on abstract descriptors: the list of `typeDescription` records.
Proved here, for every descriptor and every order of its entries:

* `load_consistent`: whatever loads is one tree with the feature invariant (C10/C11 invariants);
* `load_declares`: for every non-predefined entry `t` of the (normalised) descriptor the loaded type system
  has a type of that name with exactly the declared supertype and description, whose own features are, in
  declaration order, declared features of `t` with their range, element type, flag and description
  (`Sublist`: a declared feature that an ancestor already provides identically is not stored again), and
  every declared feature is visible on the type with the declared range / element type / description;
* `load_only_declared`: no other user types exist;
* `load_ok_predefined_match`: a redeclared built-in type has the built-in supertype and features, else the
  load is rejected; the redeclared names are remembered for re-emission;
* `creationOrder_sound`: whatever the order of the declarations, types are created supertypes first;
* `renderFeat_mk`, `renderType_fields`, `toDescriptor_user_sorted`: the writer emits, per type, exactly the
  stored name/supertype/description/own features, restoring the names `self`/`type`, with user types sorted
  by name.

The entries of the normalised descriptor (`effective d0`, `normalize`) are what the reader makes of the declarations:
EVERY text stripped of surrounding whitespace (type name, supertype name, feature name, range, element type,
descriptions — `_get_elem_as_str`; `strip` is `str.strip()`), then the declarations keyed by the stripped name (a later
declaration of a name replaces an earlier one, features accumulate).  The statements below quantify over these entries
and are unchanged by the repair of the model that made it strip names as well as descriptions.

NOT proved: `toDescriptor (load (toDescriptor ts)) = toDescriptor ts` as one equation and that *success* of a
load is independent of the order (partial; both are checked per run on implementation and model).
-/
import CassisModel.Proofs.TsXml

namespace Cassis.TsXml
open Cassis.TS

theorem load_consistent (d0 : Descriptor) (ts : TypeSystem) (h : load Gen.consts d0 = .ok ts) :
    Consistent ts ∧ FeatInv ts :=
  load_consistent_aux d0 ts h

-- NOTE: the unguarded `load_declares` is FALSE (of the model and of the code alike) (conjunct `r.super = some t.super`).  A dot-less name that is
-- declared as its own supertype passes `allResolvable` (it is "declared"), is not yet registered when
-- `createType` runs, and `getType` then resolves it by *short name*.  Counterexample (checked with `#eval`):
--   `load Gen.consts [{ name := "TOP", super := "TOP" }]` succeeds and the record of `"TOP"` has
--   `super = some "uima.cas.TOP"`, not `some "TOP"` (likewise `{ name := "Annotation", super := "Annotation" }`).
-- Proved instead in `Proofs/TsXml.lean`: `load_declares_of_super_ne_aux`, the same statement with the extra
-- hypothesis `(hs : t.super ≠ t.name)`.
-- theorem load_declares (d0 : Descriptor) (ts : TypeSystem) (h : load Gen.consts d0 = .ok ts)
--     (t : TDesc) (ht : t ∈ effective d0) (hu : Gen.consts.predefined.contains t.name = false) :
--     ∃ r : TypeRec, find? ts t.name = some r ∧ r.super = some t.super ∧ r.descr = t.descr ∧
--       List.Sublist (r.own.map renderFeat) (t.feats.map emitted) ∧
--       ∀ f ∈ t.feats, ∃ g ∈ allFeatures r, g.name = storedName f.name ∧ g.range = f.range ∧
--         g.elem.getD TOP = f.elem.getD TOP ∧ g.descr = f.descr :=
--   load_declares_aux d0 ts h t ht hu

/-- the statement above holds for every entry that is not declared as its own supertype (such an entry cannot
    come out of `to_xml`: the API resolves the supertype name before the type exists) -/
theorem load_declares (d0 : Descriptor) (ts : TypeSystem) (h : load Gen.consts d0 = .ok ts)
    (t : TDesc) (ht : t ∈ effective d0) (hu : Gen.consts.predefined.contains t.name = false)
    (hs : t.super ≠ t.name) :
    ∃ r : TypeRec, find? ts t.name = some r ∧ r.super = some t.super ∧ r.descr = t.descr ∧
      List.Sublist (r.own.map renderFeat) (t.feats.map emitted) ∧
      ∀ f ∈ t.feats, ∃ g ∈ allFeatures r, g.name = storedName f.name ∧ g.range = f.range ∧
        g.elem.getD TOP = f.elem.getD TOP ∧ g.descr = f.descr :=
  load_declares_of_super_ne_aux d0 ts h t ht hu hs

/-- when no declared feature is already provided by an ancestor and stored names are distinct, the own
    features are exactly the declared ones -/
theorem load_declares_exact (d0 : Descriptor) (ts : TypeSystem) (h : load Gen.consts d0 = .ok ts)
    (t : TDesc) (ht : t ∈ effective d0) (hu : Gen.consts.predefined.contains t.name = false)
    (r : TypeRec) (hr : find? ts t.name = some r)
    (hfresh : ∀ f ∈ t.feats, ∀ g ∈ r.inh, g.name ≠ storedName f.name)
    (hnd : (t.feats.map (fun f => storedName f.name)).Nodup) :
    r.own.map renderFeat = t.feats.map emitted :=
  load_declares_exact_aux d0 ts h t ht hu r hr hfresh hnd

theorem load_only_declared (d0 : Descriptor) (ts : TypeSystem) (h : load Gen.consts d0 = .ok ts)
    (r : TypeRec) (hr : r ∈ ts.types) (hu : Gen.consts.predefined.contains r.name = false) :
    ∃ t ∈ effective d0, t.name = r.name :=
  load_only_declared_aux d0 ts h r hr hu

/-- a redeclared built-in is accepted only when it agrees with the built-in definition -/
theorem load_ok_predefined_match (d0 : Descriptor) (ts : TypeSystem) (h : load Gen.consts d0 = .ok ts)
    (t : TDesc) (ht : t ∈ effective d0) (hp : Gen.consts.predefined.contains t.name = true) :
    t.name ∈ ts.redeclared ∧
    ∃ pt : TypeRec, find? Gen.builtinTSNoDoc t.name = some pt ∧ pt.super = some t.super ∧
      (t.feats.map (fun f => featKey f.name f.descr f.range f.elem)).Perm
        (pt.own.map (fun f => featKey f.name f.descr f.range f.elem)) :=
  load_ok_predefined_match_aux d0 ts h t ht hp

/-- … and a different supertype is rejected with a value error as soon as the names resolve -/
theorem checkPredefined_super_diff_error (base : TypeSystem) (d : Descriptor) (t : TDesc) (pt : TypeRec)
    (ht : t ∈ d) (hp : Gen.consts.predefined.contains t.name = true)
    (hb : ∀ u ∈ d, Gen.consts.predefined.contains u.name = true → (find? base u.name).isSome)
    (hpt : find? base t.name = some pt) (hs : pt.super ≠ some t.super) :
    checkPredefined Gen.consts base d = .error .valueError :=
  checkPredefined_super_diff_error_aux base d t pt ht hp hb hpt hs

/-- supertypes first, whatever the order of the declarations -/
theorem creationOrder_sound (d : Descriptor) (order : List String) (h : creationOrder d = .ok order) :
    (∀ t ∈ d, t.name ∈ order) ∧
    ∀ t ∈ d, t.super ≠ t.name → ∀ i j : Nat, order[i]? = some t.name → order[j]? = some t.super → j < i :=
  creationOrder_sound_aux d order h

/-- the writer restores what `create_feature` stored -/
theorem renderFeat_mk (fd : FDesc) (dom : String) :
    renderFeat { name := storedName fd.name, domain := dom, range := fd.range, elem := fd.elem,
                 descr := fd.descr, multi := fd.multi, reserved := isReservedName fd.name } = emitted fd :=
  renderFeat_mk_aux fd dom

theorem renderType_fields (t : TypeRec) :
    (renderType t).name = t.name ∧ (renderType t).super = t.super.getD "" ∧
    (renderType t).descr = noEmpty t.descr ∧ (renderType t).feats = t.own.map renderFeat :=
  ⟨rfl, rfl, rfl, rfl⟩

-- (doc comment of the statement below:) the emitted descriptor: redeclared built-ins, then the user types
-- sorted by name, none of them predefined, the implicit DocumentAnnotation left out
-- NOTE: the unguarded `toDescriptor_user_sorted` is FALSE (conjunct `pre.map (·.name) = sortStrs …`) for an
-- arbitrary `ts`: the writer looks the remembered names up with `getType`, which resolves a dot-less,
-- unregistered name by *short name*.  Counterexample (checked with `#eval`):
--   `toDescriptor Gen.consts { Gen.builtinTS with redeclared := ["TOP"] }` succeeds with a first entry named
--   `"uima.cas.TOP"`, whereas `sortStrs ["TOP"].eraseDups = ["TOP"]`.
-- Proved instead in `Proofs/TsXml.lean`: `toDescriptor_user_sorted_of_reg_aux`, the same statement with the
-- extra hypothesis `(hreg : ∀ n ∈ ts.redeclared, hasExact ts n = true)`.
-- theorem toDescriptor_user_sorted (ts : TypeSystem) (d : Descriptor) (h : toDescriptor Gen.consts ts = .ok d) :
--     ∃ pre user : Descriptor, d = pre ++ user ∧
--       pre.map (·.name) = sortStrs ts.redeclared.eraseDups ∧
--       user.Pairwise (fun a b => a.name ≤ b.name) ∧
--       (∀ u ∈ user, Gen.consts.predefined.contains u.name = false ∧ u.name ≠ DOCUMENT_ANNOTATION) ∧
--       (∀ r ∈ ts.types, Gen.consts.predefined.contains r.name = false → r.name ≠ DOCUMENT_ANNOTATION →
--         renderType r ∈ user) :=
--   toDescriptor_user_sorted_aux ts d h

/-- the statement above holds whenever the remembered redeclared names are registered, which is the case for
    every loaded type system (`load_redeclared_reg`) -/
theorem toDescriptor_user_sorted (ts : TypeSystem) (d : Descriptor)
    (hreg : ∀ n ∈ ts.redeclared, hasExact ts n = true) (h : toDescriptor Gen.consts ts = .ok d) :
    ∃ pre user : Descriptor, d = pre ++ user ∧
      pre.map (·.name) = sortStrs ts.redeclared.eraseDups ∧
      user.Pairwise (fun a b => a.name ≤ b.name) ∧
      (∀ u ∈ user, Gen.consts.predefined.contains u.name = false ∧ u.name ≠ DOCUMENT_ANNOTATION) ∧
      (∀ r ∈ ts.types, Gen.consts.predefined.contains r.name = false → r.name ≠ DOCUMENT_ANNOTATION →
        renderType r ∈ user) :=
  toDescriptor_user_sorted_of_reg_aux ts d hreg h

theorem load_redeclared_reg (d0 : Descriptor) (ts : TypeSystem) (h : load Gen.consts d0 = .ok ts) :
    ∀ n ∈ ts.redeclared, hasExact ts n = true :=
  load_redeclared_reg_aux d0 ts h

/-! Non-vacuity (tests of concrete instances) -/
example : (load Gen.consts [{ name := "x.B", super := "x.A", feats := [{ name := "self", range := "x.A" }] },
                            { name := "x.A", super := "uima.tcas.Annotation" }]).toOption.isSome = true :=
  -- was `by decide +kernel`, which cannot work: the kernel does not unfold the well-founded recursions in
  -- `Array.qsort` (dependency order) and `pushInherited`; proved by rewriting in `Proofs/TsXml.lean`
  load_example_aux
example : storedName "self" = "self_" := by decide

end Cassis.TsXml
