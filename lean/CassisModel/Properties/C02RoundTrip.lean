/-
C02, end to end on the flat fragment — `load_cas_from_json(cas.to_json(...), typesystem=ts)` yields the same CAS.

The JSON counterpart of `C01RoundTrip.lean`, for the configuration "no embedded type system, the original type system
supplied, no merge" (`TypeSystemMode.NONE`, `merge_typesystem=False`): for every CAS whose reachable feature structures are
flat (`Spec/RoundTrip.lean`), writing it with the model's `saveJson` and reading the document back with the model's
`loadJson` succeeds, yields the written structures under the same ids and types with the same content of every feature,
the same views, and reseeds the generators above everything (the JSON half of C09's document level).
The other configurations (embedded FULL / MINIMAL type systems, merged into or replacing the supplied one) are covered
by the per-kind lemmas of C02, by `closure_sufficient` and per run by the correspondence check.

Two hypotheses go beyond those of the XMI theorem; both are needed (counterexamples in the comments below):
* `hjson` (`JsonFs`, `Spec/RoundTripJson.lean`): the names of the types and features of the written structures can be
  carried by the format (no type name ending in `[]`, no feature name starting with `@`, `#`, `%`), and `begin`/`end` are
  declared by `uima.tcas.Annotation` exactly for annotations;
* `hids`: every indexed structure carries an id already in the heap that is handed to the writer (`Cas.add` assigns
  one): the writer lists the members of the views *before* it assigns the missing ids.
-/
import CassisModel.Proofs.RoundTripJson

namespace Cassis.Json
open Cassis.TS Cassis.Traverse Cassis.Xmi

/-- **JSON round trip on the flat fragment** -/
theorem json_roundtrip_flat (K : Consts) (ts : TypeSystem) (cass : List Cas) (ci : Nat) (c : Cas) (hp : Heap)
    (tsIdx ci' : Nat) (doc : JDoc) (st : St)
    (hc : cass[ci]? = some c) (hwf : RTWf c hp)
    (hsave : saveJson K ts cass ci hp .none = .ok (doc, st))
    (hflat : ∀ q ∈ st.allFs, FlatFs K ts c ci st.heap q.2)
    (hjson : ∀ q ∈ st.allFs, JsonFs ts st.heap q.2)
    (hids : ∀ nv ∈ c.views, ∀ e ∈ Index.all nv.2.idx, (xidOf hp e.oid).isSome = true)
    (hdis : ∀ q ∈ st.allFs, ∀ nv ∈ c.views, q.1 ≠ nv.2.sofa.xid)
    (hmem : ∀ nv ∈ c.views, ∀ e ∈ Index.all nv.2.idx, Xmi.slot st.heap e.oid "sofa" ≠ some .none)
    (hmok : MembersOk c st.heap) :
    ∃ (ld : Loaded) (fss : List (Int × Val)),
      loadJson K ts tsIdx ci' false false st.heap doc = .ok ld ∧ ld.ts = ts ∧
      -- the written structures, under the same ids
      (∀ q ∈ st.allFs, ∃ (a' : Nat) (o o' : Obj), lookup fss q.1 = some (.ref a') ∧
          st.heap[q.2]? = some o ∧ ld.heap[a']? = some o' ∧ o'.ty = o.ty ∧ o'.xid = some q.1 ∧
          ∀ t : TypeRec, find? ts o.ty = some t → ∀ f ∈ allFeatures t,
            featContent ld.heap a' f.name = featContent st.heap q.2 f.name) ∧
      -- nothing else was created: every structure the loader registered is a written one or a sofa
      (∀ p ∈ fss, (∃ q ∈ st.allFs, q.1 = p.1) ∨ (∃ nv ∈ c.views, nv.2.sofa.xid = p.1)) ∧
      -- the same views
      ld.cas.views.map (viewContent ld.heap) = c.views.map (viewContent st.heap) ∧
      -- generators reseeded
      (∀ q ∈ st.allFs, q.1 < ld.cas.nextXid) ∧
      (∀ nv ∈ c.views, nv.2.sofa.xid < ld.cas.nextXid ∧ nv.2.sofa.sofaNum < ld.cas.nextSofaNum) :=
  json_roundtrip_flat_aux K ts cass ci c hp tsIdx ci' doc st hc hwf hsave hflat hjson hids hdis hmem hmok

/-- serialising the loaded CAS again yields the identical JSON document -/
theorem json_roundtrip_flat_fixpoint (K : Consts) (ts : TypeSystem) (cass : List Cas) (ci : Nat) (c : Cas) (hp : Heap)
    (tsIdx : Nat) (doc : JDoc) (st : St) (ld : Loaded)
    (hc : cass[ci]? = some c) (hwf : RTWf c hp)
    (hsave : saveJson K ts cass ci hp .none = .ok (doc, st))
    (hflat : ∀ q ∈ st.allFs, FlatFs K ts c ci st.heap q.2)
    (hjson : ∀ q ∈ st.allFs, JsonFs ts st.heap q.2)
    (hids : ∀ nv ∈ c.views, ∀ e ∈ Index.all nv.2.idx, (xidOf hp e.oid).isSome = true)
    (hdis : ∀ q ∈ st.allFs, ∀ nv ∈ c.views, q.1 ≠ nv.2.sofa.xid)
    (hmem : ∀ nv ∈ c.views, ∀ e ∈ Index.all nv.2.idx, Xmi.slot st.heap e.oid "sofa" ≠ some .none)
    (hmok : MembersOk c st.heap)
    (hload : loadJson K ts tsIdx cass.length false false st.heap doc = .ok ld) :
    ∃ st' : St, saveJson K ts (cass ++ [ld.cas]) cass.length ld.heap .none = .ok (doc, st') :=
  json_roundtrip_flat_fixpoint_aux K ts cass ci c hp tsIdx doc st ld hc hwf hsave hflat hjson hids hdis hmem hmok hload

end Cassis.Json
