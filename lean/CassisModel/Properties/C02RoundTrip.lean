/-
C02, end to end on the flat fragment — `load_cas_from_json(cas.to_json(...), typesystem=ts)` yields the same CAS.

The JSON counterpart of `C01RoundTrip.lean`, for the configuration "no embedded type system, the original type system
supplied, no merge" (`TypeSystemMode.NONE`, `merge_typesystem=False`): for every CAS whose reachable feature structures are
flat (`Spec/RoundTrip.lean`), writing it with the model's `saveJson` and reading the document back with the model's
`loadJson` succeeds, yields the written structures under the same ids and types with the same content of every feature,
the same views, and reseeds the generators above everything (the JSON half of C09's document level).
The other configurations (embedded FULL / MINIMAL type systems, merged into or replacing the supplied one) are covered
by the per-kind lemmas of C02, by `closure_sufficient` and per run by the correspondence check.

Two hypotheses go beyond those of the XMI theorem; both are needed (counterexamples in the comments below):
* `hjson` (`JsonFs`, `Spec/RoundTripJson.lean`): the names of the types and features of the written structures can be
  carried by the format (no type name ending in `[]`, no feature name starting with `@`, `#`, `%`), and `begin`/`end` are
  declared by `uima.tcas.Annotation` exactly for annotations;
* `hids`: every indexed structure carries an id already in the heap that is handed to the writer (`Cas.add` assigns
  one): the writer lists the members of the views *before* it assigns the missing ids.

Counterexamples without them (evaluated with `#eval`: `saveJson … .none`, then `loadJson … false false`; `demoTS`,
`casL`, `hp0`, `c0` of `Proofs/RoundTripDemo.lean`, text `a😀b`):
* without `hids`: `casL` with the heap `hp0` (the indexed `x.Tok` has no id yet): the document's view has
  `members := []`, the loaded view has no member, the written one has member 3;
* type `x.T[]` (child of TOP, one Integer feature): `loadJson` fails with `typeError` (the name is read as an array type);
* a feature `@n : Integer` with value 5: `attributeError`; `#n`: `valueError`; `%n`: loads, but the value is lost (`None`);
* a type under TOP whose `begin`/`end`/`sofa` features claim the domain `uima.tcas.Annotation`: offsets (2, 3) are
  written as (3, 4) and read back unconverted; the annotation `x.Tok` with `begin`/`end` re-declared with domain
  `x.Tok`: offsets are written unconverted and converted by the reader ((2, 3) comes back as (2, 2)).
-/
import CassisModel.Proofs.RoundTripJson
import CassisModel.Proofs.RoundTripJsonFix
import CassisModel.Proofs.RoundTripJsonDemo

namespace Cassis.Json
open Cassis.TS Cassis.Traverse Cassis.Xmi

/-- **JSON round trip on the flat fragment** -/
theorem json_roundtrip_flat (K : Consts) (ts : TypeSystem) (cass : List Cas) (ci : Nat) (c : Cas) (hp : Heap)
    (tsIdx ci' : Nat) (doc : JDoc) (st : St)
    (hc : cass[ci]? = some c) (hwf : RTWf c hp)
    (hsave : saveJson K ts cass ci hp .none = .ok (doc, st))
    (hflat : ∀ q ∈ st.allFs, FlatFs K ts c ci st.heap q.2)
    (hjson : ∀ q ∈ st.allFs, JsonFs ts st.heap q.2)
    (hids : ∀ nv ∈ c.views, ∀ e ∈ Index.all nv.2.idx, (xidOf hp e.oid).isSome = true)
    (hdis : ∀ q ∈ st.allFs, ∀ nv ∈ c.views, q.1 ≠ nv.2.sofa.xid)
    (hmem : ∀ nv ∈ c.views, ∀ e ∈ Index.all nv.2.idx, Xmi.slot st.heap e.oid "sofa" ≠ some .none)
    (hmok : MembersOk c st.heap) :
    ∃ (ld : Loaded) (fss : List (Int × Val)),
      loadJson K ts tsIdx ci' false false st.heap doc = .ok ld ∧ ld.ts = ts ∧
      -- the written structures, under the same ids
      (∀ q ∈ st.allFs, ∃ (a' : Nat) (o o' : Obj), lookup fss q.1 = some (.ref a') ∧
          st.heap[q.2]? = some o ∧ ld.heap[a']? = some o' ∧ o'.ty = o.ty ∧ o'.xid = some q.1 ∧
          ∀ t : TypeRec, find? ts o.ty = some t → ∀ f ∈ allFeatures t,
            featContent ld.heap a' f.name = featContent st.heap q.2 f.name) ∧
      -- nothing else was created: every structure the loader registered is a written one or a sofa
      (∀ p ∈ fss, (∃ q ∈ st.allFs, q.1 = p.1) ∨ (∃ nv ∈ c.views, nv.2.sofa.xid = p.1)) ∧
      -- the same views
      ld.cas.views.map (viewContent ld.heap) = c.views.map (viewContent st.heap) ∧
      -- generators reseeded
      (∀ q ∈ st.allFs, q.1 < ld.cas.nextXid) ∧
      (∀ nv ∈ c.views, nv.2.sofa.xid < ld.cas.nextXid ∧ nv.2.sofa.sofaNum < ld.cas.nextSofaNum) :=
  json_roundtrip_flat_aux K ts cass ci c hp tsIdx ci' doc st hc hwf hsave hflat hjson hids hdis hmem hmok

/-- serialising the loaded CAS again yields the identical JSON document -/
theorem json_roundtrip_flat_fixpoint (K : Consts) (ts : TypeSystem) (cass : List Cas) (ci : Nat) (c : Cas) (hp : Heap)
    (tsIdx : Nat) (doc : JDoc) (st : St) (ld : Loaded)
    (hc : cass[ci]? = some c) (hwf : RTWf c hp)
    (hsave : saveJson K ts cass ci hp .none = .ok (doc, st))
    (hflat : ∀ q ∈ st.allFs, FlatFs K ts c ci st.heap q.2)
    (hjson : ∀ q ∈ st.allFs, JsonFs ts st.heap q.2)
    (hids : ∀ nv ∈ c.views, ∀ e ∈ Index.all nv.2.idx, (xidOf hp e.oid).isSome = true)
    (hdis : ∀ q ∈ st.allFs, ∀ nv ∈ c.views, q.1 ≠ nv.2.sofa.xid)
    (hmem : ∀ nv ∈ c.views, ∀ e ∈ Index.all nv.2.idx, Xmi.slot st.heap e.oid "sofa" ≠ some .none)
    (hmok : MembersOk c st.heap)
    (hload : loadJson K ts tsIdx cass.length false false st.heap doc = .ok ld) :
    ∃ st' : St, saveJson K ts (cass ++ [ld.cas]) cass.length ld.heap .none = .ok (doc, st') :=
  json_roundtrip_flat_fixpoint_aux K ts cass ci c hp tsIdx doc st ld hc hwf hsave hflat hjson hids hdis hmem hmok hload

/-! ### Non-vacuity

The instance of `Proofs/RoundTripDemo.lean` (see `Proofs/RoundTripJsonDemo.lean`): every hypothesis holds, by
kernel evaluation of sound Boolean checkers. -/

example : ∃ (doc : JDoc) (st : St),
    saveJson Xmi.Demo.K Xmi.Demo.demoTS [Xmi.Demo.demo.1] 0 Xmi.Demo.demo.2 .none = .ok (doc, st) ∧
    [Xmi.Demo.demo.1][0]? = some Xmi.Demo.demo.1 ∧ RTWf Xmi.Demo.demo.1 Xmi.Demo.demo.2 ∧
    (∀ q ∈ st.allFs, FlatFs Xmi.Demo.K Xmi.Demo.demoTS Xmi.Demo.demo.1 0 st.heap q.2) ∧
    (∀ q ∈ st.allFs, JsonFs Xmi.Demo.demoTS st.heap q.2) ∧
    (∀ nv ∈ Xmi.Demo.demo.1.views, ∀ e ∈ Index.all nv.2.idx, (xidOf Xmi.Demo.demo.2 e.oid).isSome = true) ∧
    (∀ q ∈ st.allFs, ∀ nv ∈ Xmi.Demo.demo.1.views, q.1 ≠ nv.2.sofa.xid) ∧
    (∀ nv ∈ Xmi.Demo.demo.1.views, ∀ e ∈ Index.all nv.2.idx, Xmi.slot st.heap e.oid "sofa" ≠ some .none) ∧
    MembersOk Xmi.Demo.demo.1 st.heap := Demo.demo_hypsJ

/-- the theorem applied to the instance -/
example : ∃ (doc : JDoc) (st : St) (ld : Loaded),
    saveJson Xmi.Demo.K Xmi.Demo.demoTS [Xmi.Demo.demo.1] 0 Xmi.Demo.demo.2 .none = .ok (doc, st) ∧
    loadJson Xmi.Demo.K Xmi.Demo.demoTS 0 1 false false st.heap doc = .ok ld ∧
    ld.cas.views.map (viewContent ld.heap) = Xmi.Demo.demo.1.views.map (viewContent st.heap) := by
  obtain ⟨doc, st, hs, hc, hwf, hf, hj, hi, hd, hm, hmo⟩ := Demo.demo_hypsJ
  obtain ⟨ld, _, hl, _, _, _, hv, _⟩ :=
    json_roundtrip_flat Xmi.Demo.K Xmi.Demo.demoTS [Xmi.Demo.demo.1] 0 Xmi.Demo.demo.1 Xmi.Demo.demo.2 0 1 doc st
      hc hwf hs hf hj hi hd hm hmo
  exact ⟨doc, st, ld, hs, hl, hv⟩

/-- … and the fixpoint theorem applied to the instance: saving what was loaded gives the same document -/
example : ∃ (doc : JDoc) (st st' : St) (ld : Loaded),
    saveJson Xmi.Demo.K Xmi.Demo.demoTS [Xmi.Demo.demo.1] 0 Xmi.Demo.demo.2 .none = .ok (doc, st) ∧
    loadJson Xmi.Demo.K Xmi.Demo.demoTS 0 1 false false st.heap doc = .ok ld ∧
    saveJson Xmi.Demo.K Xmi.Demo.demoTS ([Xmi.Demo.demo.1] ++ [ld.cas]) 1 ld.heap .none = .ok (doc, st') := by
  obtain ⟨doc, st, hs, hc, hwf, hf, hj, hi, hd, hm, hmo⟩ := Demo.demo_hypsJ
  obtain ⟨ld, _, hl, _⟩ :=
    json_roundtrip_flat Xmi.Demo.K Xmi.Demo.demoTS [Xmi.Demo.demo.1] 0 Xmi.Demo.demo.1 Xmi.Demo.demo.2 0 1 doc st
      hc hwf hs hf hj hi hd hm hmo
  obtain ⟨st', hs'⟩ :=
    json_roundtrip_flat_fixpoint Xmi.Demo.K Xmi.Demo.demoTS [Xmi.Demo.demo.1] 0 Xmi.Demo.demo.1 Xmi.Demo.demo.2 0 doc st ld
      hc hwf hs hf hj hi hd hm hmo hl
  exact ⟨doc, st, st', ld, hs, hl, hs'⟩

#print axioms json_roundtrip_flat
#print axioms json_roundtrip_flat_fixpoint

end Cassis.Json
