/-
C02, end to end for the *embedded* configuration — `load_cas_from_json(cas.to_json(type_system_mode=FULL))` without a
type system yields the same CAS.

Composition of
* `json_roundtrip_flat` / `json_roundtrip_coll` (`C02RoundTrip.lean`, `C02RoundTripColl.lean`): the round trip in
  configuration NONE with the original type system supplied,
* `json_full_ts_same` (`C02EmbeddedTs.lean`): the type system rebuilt from the `%TYPES` section of a FULL document is
  `SameTs` to the original (API-built, `Writable` type systems),
through two new facts:
* `saveJson_to_none` / `saveJson_mode_fss`: the type-system mode of the writer influences the `%TYPES` section only — same
  `%FEATURE_STRUCTURES`, same `%VIEWS`, same traversal state (ids) in every mode;
* `loadJson_congr` / `loadJson_congr_sameTs` (the key lemma): the reader consults the type system only through
  (i) `get_type(name)` for the `%TYPE` of every structure of the document, of whose answer it uses the *name* and the
  *set of feature names* (the constructor fields), (ii) `is_instance_of(type, uima.tcas.Annotation)` (offset conversion),
  (iii) `contains_type(type)` in `Cas.add`.  It never looks at ranges, element types, `multipleReferencesAllowed`,
  domains, descriptions, children: the document says through its key prefixes (`@`, `#`) what is a reference or a
  special float.  So `SameTs` (which forgets domain / `multi` / `reserved` and the order of features) is more than
  enough; what is needed is `TypeAgree` (`Spec/ReaderSim.lean`) on the type names of the document.

"The same CAS" for two type systems that are `SameTs` but not equal: the same `Cas` value (views, sofas, indexes with
their keys and addresses, generators) and the same heap *up to the order of the slots of each object* (`HeapSim`).
The order is a representation detail of the model (slots are kept in `all_features` order; Python instances are accessed
by name) but it cannot be dropped from the statement: with a chain `x.A > x.B > x.C` whose features are declared
bottom-up the original lists the features of `x.C` as `fc, begin, end, sofa, fb, fa, self_`, the rebuilt type system as
`fc, fb, fa, self_, begin, end, sofa` (instance `EmbDemo` of `Proofs/RoundTripJsonEmbDemo.lean`, evaluated:
`casEq=true heapEq=false heapEqUpToSlotOrder=true`; on the implementation: `all_features` of the reloaded `x.C` is
`['fc','fb','fa','self_','begin','end','sofa']`, contents equal, `cas_to_comparable_text` equal).  A visible consequence
on the implementation, not a defect w.r.t. C02: serialising the reloaded CAS again gives the same JSON *value* but not
the same *text* (member order inside a structure follows the feature order), so the fixpoint statement
`json_roundtrip_flat_fixpoint` does not carry over to the embedded configuration literally.

MINIMAL: `json_roundtrip_embedded_flat_of_agree` / `…_coll_of_agree` is the composition step for any mode — it needs "the
rebuilt type system agrees with the original on the type names of the document".  For FULL that follows from
`json_full_ts_same`; for MINIMAL it is `json_minimal_ts_agree` (new; `Proofs/EmbeddedTsMin{A,B,C}.lean`): the written
records are a closed subset (`closure_sufficient`), the two passes of the `%TYPES` reader are replayed inside the
original for any closed subset (generalising the FULL proof), the result is a *part* of the original that agrees with
it, feature set and annotation-ness, on every declared or built-in name — not `SameTs`: the types outside the closure
and the corresponding children are missing.  Hence `json_roundtrip_minimal_flat` / `json_roundtrip_minimal_coll`.
Evaluated beforehand on the demo instances (`#eval`, FULL and MINIMAL, also an instance where MINIMAL drops three of
five user types): loads succeed and agree with the NONE round trip; the same on the implementation.
-/
import CassisModel.Properties.C02RoundTrip
import CassisModel.Properties.C02RoundTripColl
import CassisModel.Properties.C02EmbeddedTs
import CassisModel.Proofs.RoundTripJsonEmb
import CassisModel.Proofs.RoundTripJsonEmbMin
import CassisModel.Proofs.RoundTripJsonEmbDemo

namespace Cassis.Json
open Cassis.TS Cassis.Traverse Cassis.Xmi

/-! ### The writer -/

/-- **the mode influences the `%TYPES` section only**: every successful `to_json` also succeeds in mode NONE, with the same
    traversal result (collected structures, assigned ids, heap) and the same feature structures and views -/
theorem saveJson_to_none (K : Consts) (ts : TypeSystem) (cass : List Cas) (ci : Nat) (hp : Heap) (m : Mode)
    (doc : JDoc) (st : Traverse.St) (h : saveJson K ts cass ci hp m = .ok (doc, st)) :
    ∃ doc', saveJson K ts cass ci hp .none = .ok (doc', st) ∧ doc'.fss = doc.fss ∧ doc'.views = doc.views :=
  saveJson_to_none_aux K ts cass ci hp m doc st h

/-- … and between any two modes when no feature name starts with `%`.  (Without the hypothesis the direction NONE → FULL
    fails: a feature named `%NAME` makes the `%TYPES` writer raise `TypeError` while mode NONE succeeds — finding of
    `C02EmbeddedTs.lean`, instance in `Proofs/EmbeddedTsPctDemo.lean`.) -/
theorem saveJson_mode_fss (K : Consts) (ts : TypeSystem) (hnp : NoPercentNames ts) (cass : List Cas) (ci : Nat)
    (hp : Heap) (m m' : Mode) (doc : JDoc) (st : Traverse.St) (h : saveJson K ts cass ci hp m = .ok (doc, st)) :
    ∃ doc', saveJson K ts cass ci hp m' = .ok (doc', st) ∧ doc'.fss = doc.fss ∧ doc'.views = doc.views :=
  saveJson_mode_fss_aux K ts hnp cass ci hp m m' doc st h

/-! ### The reader -/

/-- **key lemma**: two type systems that agree (`TypeAgree`: `get_type` fails alike or finds types of the same name
    with the same feature names that are annotation types in both or neither) on the `%TYPE` names of a document
    load it alike — the same exception, or the same CAS and the same heap up to slot order (`LoadSim`).
    Any document (not only written ones), any start heap, lenient or not. -/
theorem loadJson_congr (K : Consts) (ts ts' : TypeSystem) (tsIdx ci : Nat) (lenient : Bool) (hp : Heap) (doc : JDoc)
    (hag : ∀ j ∈ doc.fss, TypeAgree ts ts' (fsTypeName j)) :
    LoadSim (loadJson K ts tsIdx ci lenient false hp doc) (loadJson K ts' tsIdx ci lenient false hp doc) :=
  loadJson_congr_aux K ts ts' tsIdx ci lenient hp doc hag

/-- `SameTs` type systems (each name registered once) agree under every name -/
theorem typeAgree_sameTs (ts ts' : TypeSystem) (h : SameTs ts ts') (hc : Consistent ts) (hc' : Consistent ts')
    (n : String) : TypeAgree ts ts' n :=
  typeAgree_of_sameTs h hc hc' n

/-- **the reader cannot tell `SameTs` type systems apart** -/
theorem loadJson_congr_sameTs (K : Consts) (ts ts' : TypeSystem) (tsIdx ci : Nat) (lenient : Bool) (hp : Heap)
    (doc : JDoc) (hs : SameTs ts ts') (hc : Consistent ts) (hc' : Consistent ts') :
    match loadJson K ts tsIdx ci lenient false hp doc, loadJson K ts' tsIdx ci lenient false hp doc with
    | .ok ld, .ok ld' => ld.ts = ts ∧ ld'.ts = ts' ∧ ld'.cas = ld.cas ∧ HeapSim ld.heap ld'.heap
    | .error e, .error e' => e' = e
    | _, _ => False := by
  have h := loadJson_congr_sameTs_aux K ts ts' tsIdx ci lenient hp doc hs hc hc'
  cases h1 : loadJson K ts tsIdx ci lenient false hp doc with
  | error e =>
    cases h2 : loadJson K ts' tsIdx ci lenient false hp doc with
    | error e' => rw [h1, h2] at h; exact h
    | ok ld' => rw [h1, h2] at h; exact h
  | ok ld =>
    cases h2 : loadJson K ts' tsIdx ci lenient false hp doc with
    | error e' => rw [h1, h2] at h; exact h
    | ok ld' => rw [h1, h2] at h; exact ⟨loadJson_ts h1, loadJson_ts h2, h.1, h.2⟩

/-- loading with `merge_typesystem=True` is loading with the type system `loadTs` builds -/
theorem loadJson_merge (K : Consts) (tsArg ts' : TypeSystem) (tsIdx ci : Nat) (lenient : Bool) (hp : Heap) (doc : JDoc)
    (h : loadTs K tsArg true doc = .ok ts') :
    loadJson K tsArg tsIdx ci lenient true hp doc = loadJson K ts' tsIdx ci lenient false hp doc :=
  loadJson_merge_eq K tsArg ts' tsIdx ci lenient hp doc h

/-! ### The round trip with the embedded FULL type system -/

/-- **JSON round trip, FULL type system embedded, no type system supplied — flat fragment.**
    Hypotheses: those of `json_full_ts_same` on the type system (API history on user types other than DocumentAnnotation,
    `Writable`, `NoPercentNames`) and those of `json_roundtrip_flat` on the CAS; `saveJson … .full` instead of `.none`.
    Conclusion: `loadJson` started from a fresh type system (`Gen.builtinTS`) with `merge_typesystem = true` succeeds, its
    type system declares the same as the original (`SameTs`), and the content is what `json_roundtrip_flat` states. -/
theorem json_roundtrip_full_flat (ops : List TsOp) (ts : TypeSystem)
    (hts : ts = ops.foldl (applyOp Gen.consts) Gen.builtinTS)
    (hu : UserOnlyNoDoc Gen.consts ops) (hw : Writable Gen.consts ts) (hpc : NoPercentNames ts)
    (cass : List Cas) (ci : Nat) (c : Cas) (hp : Heap) (tsIdx ci' : Nat) (doc : JDoc) (st : St)
    (hc : cass[ci]? = some c) (hwf : RTWf c hp)
    (hsave : saveJson Gen.consts ts cass ci hp .full = .ok (doc, st))
    (hflat : ∀ q ∈ st.allFs, FlatFs Gen.consts ts c ci st.heap q.2)
    (hjson : ∀ q ∈ st.allFs, JsonFs ts st.heap q.2)
    (hids : ∀ nv ∈ c.views, ∀ e ∈ Index.all nv.2.idx, (xidOf hp e.oid).isSome = true)
    (hdis : ∀ q ∈ st.allFs, ∀ nv ∈ c.views, q.1 ≠ nv.2.sofa.xid)
    (hmem : ∀ nv ∈ c.views, ∀ e ∈ Index.all nv.2.idx, Xmi.slot st.heap e.oid "sofa" ≠ some .none)
    (hmok : MembersOk c st.heap) :
    ∃ (ld : Loaded) (fss : List (Int × Val)),
      loadJson Gen.consts Gen.builtinTS tsIdx ci' false true st.heap doc = .ok ld ∧ SameTs ts ld.ts ∧
      -- the written structures, under the same ids
      (∀ q ∈ st.allFs, ∃ (a' : Nat) (o o' : Obj), lookup fss q.1 = some (.ref a') ∧
          st.heap[q.2]? = some o ∧ ld.heap[a']? = some o' ∧ o'.ty = o.ty ∧ o'.xid = some q.1 ∧
          ∀ t : TypeRec, find? ts o.ty = some t → ∀ f ∈ allFeatures t,
            featContent ld.heap a' f.name = featContent st.heap q.2 f.name) ∧
      -- nothing else was created
      (∀ p ∈ fss, (∃ q ∈ st.allFs, q.1 = p.1) ∨ (∃ nv ∈ c.views, nv.2.sofa.xid = p.1)) ∧
      -- the same views
      ld.cas.views.map (viewContent ld.heap) = c.views.map (viewContent st.heap) ∧
      -- generators reseeded
      (∀ q ∈ st.allFs, q.1 < ld.cas.nextXid) ∧
      (∀ nv ∈ c.views, nv.2.sofa.xid < ld.cas.nextXid ∧ nv.2.sofa.sofaNum < ld.cas.nextSofaNum) :=
  json_roundtrip_full_flat_aux ops ts hts hu hw hpc cass ci c hp tsIdx ci' doc st hc hwf hsave hflat hjson hids hdis hmem hmok

/-- **JSON round trip, FULL type system embedded, no type system supplied — collections included**
    (the fragment of `json_roundtrip_coll`) -/
theorem json_roundtrip_full_coll (ops : List TsOp) (ts : TypeSystem)
    (hts : ts = ops.foldl (applyOp Gen.consts) Gen.builtinTS)
    (hu : UserOnlyNoDoc Gen.consts ops) (hw : Writable Gen.consts ts) (hpc : NoPercentNames ts)
    (cass : List Cas) (ci : Nat) (c : Cas) (hp : Heap) (tsIdx ci' : Nat) (doc : JDoc) (st : St)
    (hc : cass[ci]? = some c) (hwf : RTWf c hp)
    (hsave : saveJson Gen.consts ts cass ci hp .full = .ok (doc, st))
    (hcoll : ∀ q ∈ st.allFs, JCollFs Gen.consts ts c ci st.heap q.2)
    (hids : ∀ nv ∈ c.views, ∀ e ∈ Index.all nv.2.idx, (xidOf hp e.oid).isSome = true)
    (hdis : ∀ q ∈ st.allFs, ∀ nv ∈ c.views, q.1 ≠ nv.2.sofa.xid)
    (hmem : ∀ nv ∈ c.views, ∀ e ∈ Index.all nv.2.idx, Xmi.slot st.heap e.oid "sofa" ≠ some .none)
    (hmok : MembersOk c st.heap) :
    ∃ (ld : Loaded) (fss : List (Int × Val)),
      loadJson Gen.consts Gen.builtinTS tsIdx ci' false true st.heap doc = .ok ld ∧ SameTs ts ld.ts ∧
      (∀ q ∈ st.allFs, ∃ (a' : Nat) (o o' : Obj), lookup fss q.1 = some (.ref a') ∧
          st.heap[q.2]? = some o ∧ ld.heap[a']? = some o' ∧ o'.ty = o.ty ∧ o'.xid = some q.1 ∧
          ∀ t : TypeRec, find? ts o.ty = some t → ∀ f ∈ allFeatures t,
            featContentC Gen.consts ld.heap a' f = featContentC Gen.consts st.heap q.2 f) ∧
      (∀ p ∈ fss, (∃ q ∈ st.allFs, q.1 = p.1) ∨ (∃ nv ∈ c.views, nv.2.sofa.xid = p.1)) ∧
      ld.cas.views.map (viewContent ld.heap) = c.views.map (viewContent st.heap) ∧
      (∀ q ∈ st.allFs, q.1 < ld.cas.nextXid) ∧
      (∀ nv ∈ c.views, nv.2.sofa.xid < ld.cas.nextXid ∧ nv.2.sofa.sofaNum < ld.cas.nextSofaNum) :=
  json_roundtrip_full_coll_aux ops ts hts hu hw hpc cass ci c hp tsIdx ci' doc st hc hwf hsave hcoll hids hdis hmem hmok

/-! ### The composition step for any mode -/

/-- **the embedded type system is sufficient as soon as the rebuilt type system agrees with the original on the type
    names of the document** (any mode, any supplied type system `tsArg`, any constants).  For FULL the hypothesis
    `hlts`/`hag` is `json_full_ts_same` + `typeAgree_sameTs`; for MINIMAL it is `json_minimal_ts_agree`. -/
theorem json_roundtrip_embedded_flat_of_agree (K : Consts) (ts tsArg ts' : TypeSystem) (mode : Mode)
    (cass : List Cas) (ci : Nat) (c : Cas) (hp : Heap) (tsIdx ci' : Nat) (doc : JDoc) (st : St)
    (hc : cass[ci]? = some c) (hwf : RTWf c hp)
    (hsave : saveJson K ts cass ci hp mode = .ok (doc, st))
    (hlts : loadTs K tsArg true doc = .ok ts')
    (hag : ∀ j ∈ doc.fss, TypeAgree ts ts' (fsTypeName j))
    (hflat : ∀ q ∈ st.allFs, FlatFs K ts c ci st.heap q.2)
    (hjson : ∀ q ∈ st.allFs, JsonFs ts st.heap q.2)
    (hids : ∀ nv ∈ c.views, ∀ e ∈ Index.all nv.2.idx, (xidOf hp e.oid).isSome = true)
    (hdis : ∀ q ∈ st.allFs, ∀ nv ∈ c.views, q.1 ≠ nv.2.sofa.xid)
    (hmem : ∀ nv ∈ c.views, ∀ e ∈ Index.all nv.2.idx, Xmi.slot st.heap e.oid "sofa" ≠ some .none)
    (hmok : MembersOk c st.heap) :
    ∃ (ld : Loaded) (fss : List (Int × Val)),
      loadJson K tsArg tsIdx ci' false true st.heap doc = .ok ld ∧ ld.ts = ts' ∧
      (∀ q ∈ st.allFs, ∃ (a' : Nat) (o o' : Obj), lookup fss q.1 = some (.ref a') ∧
          st.heap[q.2]? = some o ∧ ld.heap[a']? = some o' ∧ o'.ty = o.ty ∧ o'.xid = some q.1 ∧
          ∀ t : TypeRec, find? ts o.ty = some t → ∀ f ∈ allFeatures t,
            featContent ld.heap a' f.name = featContent st.heap q.2 f.name) ∧
      (∀ p ∈ fss, (∃ q ∈ st.allFs, q.1 = p.1) ∨ (∃ nv ∈ c.views, nv.2.sofa.xid = p.1)) ∧
      ld.cas.views.map (viewContent ld.heap) = c.views.map (viewContent st.heap) ∧
      (∀ q ∈ st.allFs, q.1 < ld.cas.nextXid) ∧
      (∀ nv ∈ c.views, nv.2.sofa.xid < ld.cas.nextXid ∧ nv.2.sofa.sofaNum < ld.cas.nextSofaNum) :=
  json_roundtrip_embedded_flat_of_agree_aux K ts tsArg ts' mode cass ci c hp tsIdx ci' doc st hc hwf hsave hlts hag
    hflat hjson hids hdis hmem hmok

/-- the composition step, collections included -/
theorem json_roundtrip_embedded_coll_of_agree (K : Consts) (ts tsArg ts' : TypeSystem) (mode : Mode)
    (cass : List Cas) (ci : Nat) (c : Cas) (hp : Heap) (tsIdx ci' : Nat) (doc : JDoc) (st : St)
    (hc : cass[ci]? = some c) (hwf : RTWf c hp)
    (hsave : saveJson K ts cass ci hp mode = .ok (doc, st))
    (hlts : loadTs K tsArg true doc = .ok ts')
    (hag : ∀ j ∈ doc.fss, TypeAgree ts ts' (fsTypeName j))
    (hcoll : ∀ q ∈ st.allFs, JCollFs K ts c ci st.heap q.2)
    (hids : ∀ nv ∈ c.views, ∀ e ∈ Index.all nv.2.idx, (xidOf hp e.oid).isSome = true)
    (hdis : ∀ q ∈ st.allFs, ∀ nv ∈ c.views, q.1 ≠ nv.2.sofa.xid)
    (hmem : ∀ nv ∈ c.views, ∀ e ∈ Index.all nv.2.idx, Xmi.slot st.heap e.oid "sofa" ≠ some .none)
    (hmok : MembersOk c st.heap) :
    ∃ (ld : Loaded) (fss : List (Int × Val)),
      loadJson K tsArg tsIdx ci' false true st.heap doc = .ok ld ∧ ld.ts = ts' ∧
      (∀ q ∈ st.allFs, ∃ (a' : Nat) (o o' : Obj), lookup fss q.1 = some (.ref a') ∧
          st.heap[q.2]? = some o ∧ ld.heap[a']? = some o' ∧ o'.ty = o.ty ∧ o'.xid = some q.1 ∧
          ∀ t : TypeRec, find? ts o.ty = some t → ∀ f ∈ allFeatures t,
            featContentC K ld.heap a' f = featContentC K st.heap q.2 f) ∧
      (∀ p ∈ fss, (∃ q ∈ st.allFs, q.1 = p.1) ∨ (∃ nv ∈ c.views, nv.2.sofa.xid = p.1)) ∧
      ld.cas.views.map (viewContent ld.heap) = c.views.map (viewContent st.heap) ∧
      (∀ q ∈ st.allFs, q.1 < ld.cas.nextXid) ∧
      (∀ nv ∈ c.views, nv.2.sofa.xid < ld.cas.nextXid ∧ nv.2.sofa.sofaNum < ld.cas.nextSofaNum) :=
  json_roundtrip_embedded_coll_of_agree_aux K ts tsArg ts' mode cass ci c hp tsIdx ci' doc st hc hwf hsave hlts hag
    hcoll hids hdis hmem hmok

/-! ### The round trip with the embedded MINIMAL type system -/

/-- **the MINIMAL type system a document carries is sufficient** (the counterpart of `json_full_ts_same`): for an
    API-built, `Writable` type system and a CAS with text sofas whose collected structures have registered types not
    named `…[]`, the type system `loadTs` builds from the `%TYPES` section of the MINIMAL document — the transitive
    closure of the used types, merged into a fresh type system — exists, is consistent, and agrees with the original
    (`TypeAgree`: found alike, same name, same feature names, annotation or not) on every `%TYPE` of the document -/
theorem json_minimal_ts_agree (ops : List TsOp) (hu : UserOnlyNoDoc Gen.consts ops)
    (hw : Writable Gen.consts (ops.foldl (applyOp Gen.consts) Gen.builtinTS))
    (hpc : NoPercentNames (ops.foldl (applyOp Gen.consts) Gen.builtinTS))
    (cass : List Cas) (ci : Nat) (c : Cas) (hp : Heap) (doc : JDoc) (st : Traverse.St)
    (hc : cass[ci]? = some c) (harr : ∀ nv ∈ c.views, nv.2.sofa.arr = .none)
    (hsave : saveJson Gen.consts (ops.foldl (applyOp Gen.consts) Gen.builtinTS) cass ci hp .minimal = .ok (doc, st))
    (hreg : ∀ q ∈ st.allFs, ∀ ob : Obj, st.heap[q.2]? = some ob →
      (find? (ops.foldl (applyOp Gen.consts) Gen.builtinTS) ob.ty).isSome = true ∧ ob.ty.endsWith "[]" = false) :
    ∃ ts', loadTs Gen.consts Gen.builtinTS true doc = .ok ts' ∧ Consistent ts' ∧
      ∀ j ∈ doc.fss, TypeAgree (ops.foldl (applyOp Gen.consts) Gen.builtinTS) ts' (fsTypeName j) :=
  json_minimal_ts_agree_aux ops hu hw hpc cass ci c hp doc st hc harr hsave hreg

/-- **JSON round trip, MINIMAL type system embedded, no type system supplied — flat fragment.**
    Same hypotheses as `json_roundtrip_full_flat` with `saveJson … .minimal`; the loaded type system is a part of the
    original (it lacks the types the document does not need), so instead of `SameTs` the conclusion says that it agrees
    with the original on every `%TYPE` of the document. -/
theorem json_roundtrip_minimal_flat (ops : List TsOp) (ts : TypeSystem)
    (hts : ts = ops.foldl (applyOp Gen.consts) Gen.builtinTS)
    (hu : UserOnlyNoDoc Gen.consts ops) (hw : Writable Gen.consts ts) (hpc : NoPercentNames ts)
    (cass : List Cas) (ci : Nat) (c : Cas) (hp : Heap) (tsIdx ci' : Nat) (doc : JDoc) (st : St)
    (hc : cass[ci]? = some c) (hwf : RTWf c hp)
    (hsave : saveJson Gen.consts ts cass ci hp .minimal = .ok (doc, st))
    (hflat : ∀ q ∈ st.allFs, FlatFs Gen.consts ts c ci st.heap q.2)
    (hjson : ∀ q ∈ st.allFs, JsonFs ts st.heap q.2)
    (hids : ∀ nv ∈ c.views, ∀ e ∈ Index.all nv.2.idx, (xidOf hp e.oid).isSome = true)
    (hdis : ∀ q ∈ st.allFs, ∀ nv ∈ c.views, q.1 ≠ nv.2.sofa.xid)
    (hmem : ∀ nv ∈ c.views, ∀ e ∈ Index.all nv.2.idx, Xmi.slot st.heap e.oid "sofa" ≠ some .none)
    (hmok : MembersOk c st.heap) :
    ∃ (ld : Loaded) (fss : List (Int × Val)),
      loadJson Gen.consts Gen.builtinTS tsIdx ci' false true st.heap doc = .ok ld ∧
      (∀ j ∈ doc.fss, TypeAgree ts ld.ts (fsTypeName j)) ∧
      (∀ q ∈ st.allFs, ∃ (a' : Nat) (o o' : Obj), lookup fss q.1 = some (.ref a') ∧
          st.heap[q.2]? = some o ∧ ld.heap[a']? = some o' ∧ o'.ty = o.ty ∧ o'.xid = some q.1 ∧
          ∀ t : TypeRec, find? ts o.ty = some t → ∀ f ∈ allFeatures t,
            featContent ld.heap a' f.name = featContent st.heap q.2 f.name) ∧
      (∀ p ∈ fss, (∃ q ∈ st.allFs, q.1 = p.1) ∨ (∃ nv ∈ c.views, nv.2.sofa.xid = p.1)) ∧
      ld.cas.views.map (viewContent ld.heap) = c.views.map (viewContent st.heap) ∧
      (∀ q ∈ st.allFs, q.1 < ld.cas.nextXid) ∧
      (∀ nv ∈ c.views, nv.2.sofa.xid < ld.cas.nextXid ∧ nv.2.sofa.sofaNum < ld.cas.nextSofaNum) :=
  json_roundtrip_minimal_flat_aux ops ts hts hu hw hpc cass ci c hp tsIdx ci' doc st hc hwf hsave hflat hjson hids hdis hmem hmok

/-- **JSON round trip, MINIMAL type system embedded, no type system supplied — collections included** -/
theorem json_roundtrip_minimal_coll (ops : List TsOp) (ts : TypeSystem)
    (hts : ts = ops.foldl (applyOp Gen.consts) Gen.builtinTS)
    (hu : UserOnlyNoDoc Gen.consts ops) (hw : Writable Gen.consts ts) (hpc : NoPercentNames ts)
    (cass : List Cas) (ci : Nat) (c : Cas) (hp : Heap) (tsIdx ci' : Nat) (doc : JDoc) (st : St)
    (hc : cass[ci]? = some c) (hwf : RTWf c hp)
    (hsave : saveJson Gen.consts ts cass ci hp .minimal = .ok (doc, st))
    (hcoll : ∀ q ∈ st.allFs, JCollFs Gen.consts ts c ci st.heap q.2)
    (hids : ∀ nv ∈ c.views, ∀ e ∈ Index.all nv.2.idx, (xidOf hp e.oid).isSome = true)
    (hdis : ∀ q ∈ st.allFs, ∀ nv ∈ c.views, q.1 ≠ nv.2.sofa.xid)
    (hmem : ∀ nv ∈ c.views, ∀ e ∈ Index.all nv.2.idx, Xmi.slot st.heap e.oid "sofa" ≠ some .none)
    (hmok : MembersOk c st.heap) :
    ∃ (ld : Loaded) (fss : List (Int × Val)),
      loadJson Gen.consts Gen.builtinTS tsIdx ci' false true st.heap doc = .ok ld ∧
      (∀ j ∈ doc.fss, TypeAgree ts ld.ts (fsTypeName j)) ∧
      (∀ q ∈ st.allFs, ∃ (a' : Nat) (o o' : Obj), lookup fss q.1 = some (.ref a') ∧
          st.heap[q.2]? = some o ∧ ld.heap[a']? = some o' ∧ o'.ty = o.ty ∧ o'.xid = some q.1 ∧
          ∀ t : TypeRec, find? ts o.ty = some t → ∀ f ∈ allFeatures t,
            featContentC Gen.consts ld.heap a' f = featContentC Gen.consts st.heap q.2 f) ∧
      (∀ p ∈ fss, (∃ q ∈ st.allFs, q.1 = p.1) ∨ (∃ nv ∈ c.views, nv.2.sofa.xid = p.1)) ∧
      ld.cas.views.map (viewContent ld.heap) = c.views.map (viewContent st.heap) ∧
      (∀ q ∈ st.allFs, q.1 < ld.cas.nextXid) ∧
      (∀ nv ∈ c.views, nv.2.sofa.xid < ld.cas.nextXid ∧ nv.2.sofa.sofaNum < ld.cas.nextSofaNum) :=
  json_roundtrip_minimal_coll_aux ops ts hts hu hw hpc cass ci c hp tsIdx ci' doc st hc hwf hsave hcoll hids hdis hmem hmok

/-! ### Non-vacuity

Instance `EmbDemo` (`Proofs/RoundTripJsonEmbDemo.lean`): the history `x.A < Annotation`, `x.B < x.A` (with description),
`x.C < x.B`, then `fc : Integer` on `x.C`, `fb : String` on `x.B` (with description), `fa : x.C` and the reserved name
`self : Boolean` on `x.A` (for the collection theorem also `ia : IntegerArray` on `x.A` and a shared
`fsa : FSArray<x.C>` on `x.B`); text `a😀b`; two `x.C` that refer to each other (one indexed, one only referenced, without
id), an indexed `x.B`.  Every hypothesis is evaluated by the kernel through sound Boolean tests. -/

/-- the hypotheses of `json_roundtrip_full_flat` hold on the instance … -/
example : ∃ (doc : JDoc) (st : Traverse.St),
    UserOnlyNoDoc Gen.consts EmbDemo.embOps ∧ Writable Gen.consts EmbDemo.embTs ∧ NoPercentNames EmbDemo.embTs ∧
    [EmbDemo.cas][0]? = some EmbDemo.cas ∧ RTWf EmbDemo.cas EmbDemo.hpF ∧
    saveJson Gen.consts EmbDemo.embTs [EmbDemo.cas] 0 EmbDemo.hpF .full = .ok (doc, st) ∧
    (∀ q ∈ st.allFs, FlatFs Gen.consts EmbDemo.embTs EmbDemo.cas 0 st.heap q.2) ∧
    (∀ q ∈ st.allFs, JsonFs EmbDemo.embTs st.heap q.2) ∧
    (∀ nv ∈ EmbDemo.cas.views, ∀ e ∈ Index.all nv.2.idx, (xidOf EmbDemo.hpF e.oid).isSome = true) ∧
    (∀ q ∈ st.allFs, ∀ nv ∈ EmbDemo.cas.views, q.1 ≠ nv.2.sofa.xid) ∧
    (∀ nv ∈ EmbDemo.cas.views, ∀ e ∈ Index.all nv.2.idx, Xmi.slot st.heap e.oid "sofa" ≠ some .none) ∧
    MembersOk EmbDemo.cas st.heap := by
  obtain ⟨doc, st, hu, hn, hw, hpc, hc, hwf, hs, hf, hj, hi, hd, hm, hmo⟩ := EmbDemo.full_flat_hyps
  exact ⟨doc, st, ⟨hu, hn⟩, hw, hpc, hc, hwf, hs, hf, hj, hi, hd, hm, hmo⟩

/-- … hence its conclusion: the FULL document loads without a type system, the loaded type system declares the same as
    the original (written as the history here: a *used* hypothesis `SameTs <closed term> _` makes the elaborator
    evaluate the closed term), with the same views -/
example : ∃ (doc : JDoc) (st : Traverse.St) (ld : Loaded),
    saveJson Gen.consts EmbDemo.embTs [EmbDemo.cas] 0 EmbDemo.hpF .full = .ok (doc, st) ∧
    loadJson Gen.consts Gen.builtinTS 0 1 false true st.heap doc = .ok ld ∧
    SameTs (EmbDemo.embOps.foldl (applyOp Gen.consts) Gen.builtinTS) ld.ts ∧
    ld.cas.views.map (viewContent ld.heap) = EmbDemo.cas.views.map (viewContent st.heap) := by
  obtain ⟨doc, st, hu, hn, hw, hpc, hc, hwf, hs, hf, hj, hi, hd, hm, hmo⟩ := EmbDemo.full_flat_hyps
  obtain ⟨ld, _, hl, hsame, _, _, hv, _⟩ :=
    json_roundtrip_full_flat EmbDemo.embOps EmbDemo.embTs EmbDemo.embTs_eq.symm ⟨hu, hn⟩ hw hpc [EmbDemo.cas] 0 EmbDemo.cas
      EmbDemo.hpF 0 1 doc st hc hwf hs hf hj hi hd hm hmo
  rw [← EmbDemo.embTs_eq] at hsame
  exact ⟨doc, st, ld, hs, hl, hsame, hv⟩

/-- the hypotheses of `json_roundtrip_full_coll` hold on the instance with an inlined and a shared array, hence … -/
example : ∃ (doc : JDoc) (st : Traverse.St) (ld : Loaded),
    saveJson Gen.consts EmbDemo.embTsC [EmbDemo.cas] 0 EmbDemo.hpC .full = .ok (doc, st) ∧
    loadJson Gen.consts Gen.builtinTS 0 1 false true st.heap doc = .ok ld ∧
    SameTs (EmbDemo.embOpsC.foldl (applyOp Gen.consts) Gen.builtinTS) ld.ts ∧
    ld.cas.views.map (viewContent ld.heap) = EmbDemo.cas.views.map (viewContent st.heap) := by
  obtain ⟨doc, st, hu, hn, hw, hpc, hc, hwf, hs, hf, hi, hd, hm, hmo⟩ := EmbDemo.full_coll_hyps
  obtain ⟨ld, _, hl, hsame, _, _, hv, _⟩ :=
    json_roundtrip_full_coll EmbDemo.embOpsC EmbDemo.embTsC EmbDemo.embTsC_eq.symm ⟨hu, hn⟩ hw hpc [EmbDemo.cas] 0 EmbDemo.cas
      EmbDemo.hpC 0 1 doc st hc hwf hs hf hi hd hm hmo
  rw [← EmbDemo.embTsC_eq] at hsame
  exact ⟨doc, st, ld, hs, hl, hsame, hv⟩

/-- the hypotheses of `loadJson_congr_sameTs` hold for the original and the rebuilt type system of the instance (two
    different type systems: the feature orders of `x.C` differ, see the header) -/
example : ∃ (doc : JDoc) (st : Traverse.St) (ts' : TypeSystem),
    saveJson Gen.consts EmbDemo.embTs [EmbDemo.cas] 0 EmbDemo.hpF .full = .ok (doc, st) ∧
    loadTs Gen.consts Gen.builtinTS true doc = .ok ts' ∧
    SameTs EmbDemo.embTs ts' ∧ Consistent EmbDemo.embTs ∧ Consistent ts' := EmbDemo.congr_hyps

/-- the hypotheses of `json_roundtrip_minimal_flat` hold on the instance extended by a type `x.Z` the CAS does not use
    (the FULL document declares `x.A, x.B, x.C, x.Z`, the MINIMAL one `x.A, x.B, x.C`: `EmbDemo.typesZ`), hence its
    conclusion: the MINIMAL document loads without a type system, with the same views -/
example : ∃ (doc : JDoc) (st : Traverse.St) (ld : Loaded),
    saveJson Gen.consts EmbDemo.embTsZ [EmbDemo.cas] 0 EmbDemo.hpF .minimal = .ok (doc, st) ∧
    loadJson Gen.consts Gen.builtinTS 0 1 false true st.heap doc = .ok ld ∧
    ld.cas.views.map (viewContent ld.heap) = EmbDemo.cas.views.map (viewContent st.heap) := by
  obtain ⟨doc, st, hu, hn, hw, hpc, hc, hwf, hs, hf, hj, hi, hd, hm, hmo⟩ := EmbDemo.minZ_flat_hyps
  obtain ⟨ld, _, hl, _, _, _, hv, _⟩ :=
    json_roundtrip_minimal_flat EmbDemo.embOpsZ EmbDemo.embTsZ EmbDemo.embTsZ_eq.symm ⟨hu, hn⟩ hw hpc [EmbDemo.cas] 0
      EmbDemo.cas EmbDemo.hpF 0 1 doc st hc hwf hs hf hj hi hd hm hmo
  exact ⟨doc, st, ld, hs, hl, hv⟩

/-- … and those of `json_roundtrip_minimal_coll` on the instance with arrays -/
example : ∃ (doc : JDoc) (st : Traverse.St) (ld : Loaded),
    saveJson Gen.consts EmbDemo.embTsC [EmbDemo.cas] 0 EmbDemo.hpC .minimal = .ok (doc, st) ∧
    loadJson Gen.consts Gen.builtinTS 0 1 false true st.heap doc = .ok ld ∧
    ld.cas.views.map (viewContent ld.heap) = EmbDemo.cas.views.map (viewContent st.heap) := by
  obtain ⟨doc, st, hu, hn, hw, hpc, hc, hwf, hs, hf, hi, hd, hm, hmo⟩ := EmbDemo.min_coll_hyps
  obtain ⟨ld, _, hl, _, _, _, hv, _⟩ :=
    json_roundtrip_minimal_coll EmbDemo.embOpsC EmbDemo.embTsC EmbDemo.embTsC_eq.symm ⟨hu, hn⟩ hw hpc [EmbDemo.cas] 0 EmbDemo.cas
      EmbDemo.hpC 0 1 doc st hc hwf hs hf hi hd hm hmo
  exact ⟨doc, st, ld, hs, hl, hv⟩

/- Evaluated (`#eval`, compiled model; `scratch` runs of the proof agent, reproducible with the definitions of
   `Proofs/RoundTripJsonEmbDemo.lean`): save FULL / MINIMAL, load with `Gen.builtinTS` and `mergeTs = true`, compare with the
   NONE round trip (`loadJson K ts … false false`):
     EmbDemo flat, FULL     types=[x.A, x.B, x.C]  casEq=true heapEq=false heapEqUpToSlotOrder=true
     EmbDemo flat, MINIMAL  types=[x.A, x.B, x.C]  casEq=true heapEq=false heapEqUpToSlotOrder=true
       slots of the reloaded x.C: [fc, begin, end, sofa, fb, fa, self_] (original ts) / [fc, fb, fa, self_, begin, end, sofa]
     EmbDemo coll, FULL / MINIMAL                   casEq=true heapEq=false heapEqUpToSlotOrder=true
     EmbDemo with `x.Z`, FULL    types=[x.A, x.B, x.C, x.Z]  casEq=true heapEq=false heapEqUpToSlotOrder=true
     EmbDemo with `x.Z`, MINIMAL types=[x.A, x.B, x.C]       casEq=true heapEq=false heapEqUpToSlotOrder=true
     RoundTripDemo (x.Tok), FULL / MINIMAL          casEq=true heapEq=true
     EmbeddedTsDemo type system, a `Plain` and an `x.D` indexed:
       FULL    types=[Plain, x.A, x.B, x.D, x.S]    casEq=true heapEq=true
       MINIMAL types=[Plain, x.D]                   casEq=true heapEq=true
   Implementation (`load_cas_from_json(cas.to_json(type_system_mode=FULL | MINIMAL))`, no type system), same instances
   incl. the one with `x.Z`: `%TYPES` keys as in the model, `cas_to_comparable_text` equal, feature-wise dump equal,
   `select_all` equal; `all_features` of the reloaded `x.C` in the rebuilt order; re-serialised JSON equal as a value, not
   as text. -/

#print axioms saveJson_to_none
#print axioms saveJson_mode_fss
#print axioms loadJson_congr
#print axioms typeAgree_sameTs
#print axioms loadJson_congr_sameTs
#print axioms loadJson_merge
#print axioms json_roundtrip_full_flat
#print axioms json_roundtrip_full_coll
#print axioms json_roundtrip_embedded_flat_of_agree
#print axioms json_roundtrip_embedded_coll_of_agree
#print axioms json_minimal_ts_agree
#print axioms json_roundtrip_minimal_flat
#print axioms json_roundtrip_minimal_coll

end Cassis.Json
