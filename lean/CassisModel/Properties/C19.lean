/-
C19 — typecheck reports exactly the FSArray element-type violations.

Per structure: `typecheck` returns one error carrying the owner's xmi:id for each non-null element of an
FSArray-valued feature whose type is not subsumed by the declared element type (absent = TOP), nothing
else, and does not raise on unset features, empty arrays, missing element lists or null elements.
Per CAS: the concatenation over everything `_find_all_fs` collects (indexed or merely reachable).
Under `Consistent` (C10) "not subsumed" is "not a descendant" of the declared element type.
-/
import CassisModel.Proofs.Typecheck

namespace Cassis.Traverse
open Cassis.TS

/-- exactness for one structure -/
theorem typecheckFs_exact (ts : TypeSystem) (hp : Heap) (a : Nat) (errs : List (Option Int))
    (hw : WfArrays ts hp a) (h : typecheckFs ts hp a = .ok errs) :
    ∃ ob t, hp[a]? = some ob ∧ getType ts ob.ty = .ok t ∧ errs = expectedErrors ts hp a ob t :=
  typecheckFs_exact_aux ts hp a errs hw h

/-- totality: with well-formed FSArray features it never raises — in particular not on unset features,
    empty arrays, arrays without element list, or null elements -/
theorem typecheckFs_total (ts : TypeSystem) (hp : Heap) (a : Nat) (hw : WfArrays ts hp a) :
    ∃ errs, typecheckFs ts hp a = .ok errs :=
  typecheckFs_total_aux ts hp a hw

/-- empty result iff there is no offending element -/
theorem typecheckFs_nil_iff (ts : TypeSystem) (hp : Heap) (a : Nat) (errs : List (Option Int))
    (hw : WfArrays ts hp a) (h : typecheckFs ts hp a = .ok errs) :
    errs = [] ↔ ∀ ob t, hp[a]? = some ob → getType ts ob.ty = .ok t →
      ∀ f ∈ fsArrayFeatures t, offending ts hp (f.elem.getD TOP) (elementsOf hp a f) = [] :=
  typecheckFs_nil_iff_aux ts hp a errs hw h

/-- every reported error carries the owner's id, and there are as many as offending elements -/
theorem typecheckFs_count (ts : TypeSystem) (hp : Heap) (a : Nat) (errs : List (Option Int)) (ob : Obj) (t : TypeRec)
    (hw : WfArrays ts hp a) (h : typecheckFs ts hp a = .ok errs) (ho : hp[a]? = some ob) (ht : getType ts ob.ty = .ok t) :
    (∀ e ∈ errs, e = ob.xid) ∧
    errs.length = ((fsArrayFeatures t).map (fun f => (offending ts hp (f.elem.getD TOP) (elementsOf hp a f)).length)).sum :=
  typecheckFs_count_aux ts hp a errs ob t hw h ho ht

/-- an element offends iff its type is not the declared element type or a transitive subtype of it -/
theorem offending_iff_not_anc (ts : TypeSystem) (hc : Consistent ts) (hp : Heap) (elemTy : String)
    (l : List (Option Nat)) (ea : Nat) (eo : Obj) (he : hp[ea]? = some eo)
    (h1 : hasExact ts elemTy = true) (h2 : hasExact ts eo.ty = true) :
    ea ∈ offending ts hp elemTy l ↔ (some ea ∈ l ∧ ¬ Anc ts elemTy eo.ty) :=
  offending_iff_not_anc_aux ts hc hp elemTy l ea eo he h1 h2

/-- the whole CAS: the errors of every collected structure, in collection order, nothing else -/
theorem typecheckCas_exact (K : Consts) (ts : TypeSystem) (c : Cas) (hp : Heap) (s : St)
    (errs : List (Option Int)) (h : typecheckCas K ts c hp = .ok (s, errs)) :
    findAllFs K ts {} hp c.nextXid (defaultSeeds c) = .ok s ∧
    ∃ per : List (List (Option Int)),
      per.length = s.allFs.length ∧ errs = per.flatten ∧
      ∀ i (hi : i < s.allFs.length) (hj : i < per.length), typecheckFs ts s.heap (s.allFs[i]).2 = .ok per[i] :=
  typecheckCas_exact_aux K ts c hp s errs h

/-- it completes whenever the traversal completes and every collected structure has well-formed arrays -/
theorem typecheckCas_total (K : Consts) (ts : TypeSystem) (c : Cas) (hp : Heap) (s : St)
    (hf : findAllFs K ts {} hp c.nextXid (defaultSeeds c) = .ok s)
    (hw : ∀ p ∈ s.allFs, WfArrays ts s.heap p.2) :
    ∃ errs, typecheckCas K ts c hp = .ok (s, errs) :=
  typecheckCas_total_aux K ts c hp s hf hw

/-! Non-vacuity (tests of concrete instances): elements [Annotation instance, null, TOP-typed instance]
    under declared element type Annotation -/
def demoHp : Heap :=
  [ { ty := "uima.tcas.Annotation", ts := 0, xid := some 5, slots := [] },
    { ty := "uima.cas.Sofa", ts := 0, xid := some 6, slots := [] } ]

example : offending Gen.builtinTS demoHp "uima.tcas.Annotation" [some 0, none, some 1] = [1] := by decide
example : elemErrors Gen.builtinTS demoHp "uima.tcas.Annotation" (some 9) [some 0, none, some 1] = .ok [some 9] := by rfl

end Cassis.Traverse
