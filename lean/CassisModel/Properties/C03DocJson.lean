/-
C03, document level, JSON — offsets are code points in memory and UTF-16 code units in a JSON document.

The JSON counterpart of `Properties/C03Doc.lean`.

* Writer (`Json.renderFeature`): the value of a feature declared by `uima.tcas.Annotation` (`f.domain`) and written under
  the name `begin` / `end` goes through `pythonToExternal` of the converter of the view the structure's `sofa` slot names.
  With a converter that belongs to the text of that view (`SofaConvOk`, `Spec/OffsetsDoc.lean`; holds in every
  reachable state, `Properties/C03DocWrite.lean`) the member written is the oracle `extOffset t i`: the UTF-16 length
  of the prefix of `i` code points for an offset inside the text, the offset itself when it is negative or beyond
  the text (the converter's `KeyError` branch; the real code does the same and warns).
* Reader: `parseSofa` applies the sofa *setter* to the `sofaString` member, so the reader's converter is the setter's
  (`parseSofa_conv`, also for the empty text — unlike the XMI reader, which installs no converter then).  Every
  annotation is converted when its element is parsed (`parseFs`), with the converter of the view its `sofa` member
  names, whether or not it is a member of a view (`parseFs_converts`); the views pass (`viewsPass`, which indexes the
  members) changes no slot but `sofa` (`viewsPass_keeps_offsets`).  Reader ∘ writer is the identity on every offset
  inside the text (`json_offset_roundtrip`, on heap objects `json_convertOffsets_restores`, `parseFs_restores`).

Note (model = code, evaluated in `Properties/C02RoundTrip.lean`): the JSON *writer* decides by the declaring type of
the feature (`f.domain = uima.tcas.Annotation`), the JSON *reader* (and both XMI sides) by the type of the structure
(`is_instance_of(fs.type, Annotation)`).  The two agree on every type system made through the API: `begin`/`end` of
an annotation type are the features inherited from `uima.tcas.Annotation`.
-/
import CassisModel.Proofs.OffsetsDocJsonW
import CassisModel.Proofs.OffsetsDocJsonP
import CassisModel.Proofs.OffsetsDocDemo

namespace Cassis.Json
open Cassis.Offsets Cassis.TS Cassis.OffsetsDoc

/-! ### the reader's converter -/

/-- the converter the JSON reader installs for a sofa element with `sofaString = docText t` is the table the sofa
    setter builds for `t` (counterpart of `Xmi.convOfText_docText`; the empty text included) -/
theorem parseSofa_conv (ci : Nat) (s s' : RState) (j : JFs) (n : String) (t : List Nat)
    (hs : ∀ c ∈ t, IsScalar c) (hn : sofaIdOf j = some n)
    (ht : (j.feats.find? (fun p => p.1 == "sofaString")).map (·.2) = some (.str (Xmi.docText t)))
    (h : parseSofa ci s j = .ok s') :
    ∃ v : View, Cas.getViewRec s'.cas n = some v ∧ v.sofa.text = some t ∧
      v.sofa.conv = createMapping none (some t) :=
  parseSofa_conv_aux ci s s' j n t hs hn ht h

/-- non-vacuity: the sofa element written for the text `a😀b`, parsed into the empty CAS -/
example : ∃ s', parseSofa 0 Demo.s0 Demo.jSofa = .ok s' ∧
    ∃ v : View, Cas.getViewRec s'.cas "_InitialView" = some v ∧ v.sofa.conv = some [0, 1, 3, 4] := by
  cases h : parseSofa 0 Demo.s0 Demo.jSofa with
  | error e => have := Demo.jSofa_ok; rw [h] at this; cases this
  | ok s' =>
    obtain ⟨v, hv, _, hc⟩ := parseSofa_conv 0 _ s' _ _ _ Demo.txt_scalar Demo.jSofa_id Demo.jSofa_text h
    exact ⟨s', rfl, v, hv, hc⟩

/-- every CAS the JSON loader returns: the converter of every sofa with text is the table of that text -/
theorem loadJson_convIs (K : Consts) (tsArg : TypeSystem) (tsIdx ci : Nat) (lenient mergeTs : Bool) (hp : Heap)
    (doc : JDoc) (ld : Loaded) (h : loadJson K tsArg tsIdx ci lenient mergeTs hp doc = .ok ld) : ConvIs ld.cas :=
  loadJson_convIs_aux K tsArg tsIdx ci lenient mergeTs hp doc ld h

/-! ### what the writer emits -/

/-- **the member written for `begin` / `end` of an annotation is the oracle**: `f` is declared by
    `uima.tcas.Annotation` and written under the name `begin` / `end` (`xmlName`: the stored name, without the
    underscore of a reserved name), the `sofa` slot of the structure names a view with text `t` whose converter belongs
    to `t`, the slot of `f` holds the integer `i`.  Then the writer emits exactly the member `(name, extOffset t i)`:
    it does when the range is primitive (first clause), and whenever it succeeds it emits nothing else (second clause). -/
theorem renderFeature_offset (K : Consts) (ts : TypeSystem) (cass : List Cas) (hp : Heap) (a : Nat) (f : Feature)
    (ci : Nat) (vn : String) (c : Cas) (view : View) (t : List Nat) (i : Int)
    (hdom : f.domain = ANNOTATION) (hname : xmlName f = "begin" ∨ xmlName f = "end")
    (hsofa : Xmi.slot hp a "sofa" = some (.sofa ci vn)) (hc : cass[ci]? = some c)
    (hv : Cas.getViewRec c vn = some view) (ht : view.sofa.text = some t) (hok : SofaConvOk view.sofa)
    (hval : Xmi.slot hp a f.name = some (.int i)) :
    (isPrimitive K ts f.range = true ∨ f.range = "uima.cas.Double" ∨ f.range = "uima.cas.Float" →
      renderFeature K ts cass hp a f = .ok [(xmlName f, .int (extOffset t i))]) ∧
    (∀ out, renderFeature K ts cass hp a f = .ok out → out = [(xmlName f, .int (extOffset t i))]) :=
  renderFeature_offset_aux K ts cass hp a f ci vn c view t i hdom hname hsofa hc hv ht hok hval

/-- the JSON counterpart of `Xmi.written_offset_is_utf16`, as a statement about the writer: for a code-point offset
    `b` inside the text the member carries the number of UTF-16 code units before it -/
theorem written_offset_is_utf16 (K : Consts) (ts : TypeSystem) (cass : List Cas) (hp : Heap) (a : Nat) (f : Feature)
    (ci : Nat) (vn : String) (c : Cas) (view : View) (t : List Nat) (b : Nat)
    (hdom : f.domain = ANNOTATION) (hname : xmlName f = "begin" ∨ xmlName f = "end")
    (hprim : isPrimitive K ts f.range = true)
    (hsofa : Xmi.slot hp a "sofa" = some (.sofa ci vn)) (hc : cass[ci]? = some c)
    (hv : Cas.getViewRec c vn = some view) (ht : view.sofa.text = some t) (hok : SofaConvOk view.sofa)
    (hval : Xmi.slot hp a f.name = some (.int (b : Nat))) (hb : b ≤ t.length) :
    renderFeature K ts cass hp a f = .ok [(xmlName f, .int (Int.ofNat (utf16Encode (t.take b)).length))] := by
  rw [← extOffset_inside t b hb]
  exact (renderFeature_offset K ts cass hp a f ci vn c view t b hdom hname hsofa hc hv ht hok hval).1 (Or.inl hprim)

/-- non-vacuity: the referenced-only `x.Tok` at address 1 has `begin = 2` over `a😀b`; the member written is `3` -/
example : renderFeature Xmi.Demo.K Xmi.Demo.demoTS' [Xmi.Demo.casL] Xmi.Demo.hpL 1 Demo.fBegin = .ok [("begin", .int 3)] :=
  written_offset_is_utf16 Xmi.Demo.K Xmi.Demo.demoTS' [Xmi.Demo.casL] Xmi.Demo.hpL 1 Demo.fBegin 0 "_InitialView"
    Xmi.Demo.casL Demo.viewL Xmi.Demo.txt 2 rfl (Or.inl rfl) Demo.int_prim (by decide +kernel) rfl Demo.viewL_get
    Demo.viewL_text Demo.sofaL_ok (by decide +kernel) (by decide)

/-! ### reader ∘ writer -/

/-- **offset round trip through a JSON document**: the reader's converter (the setter's table for the text read from the
    `sofaString` member, whatever converter `c0` the sofa had before) maps the written offset back, for every offset
    inside the text, the empty text included -/
theorem json_offset_roundtrip (t : List Nat) (hs : ∀ c ∈ t, IsScalar c) (c0 : Conv) (i : Nat) (hi : i ≤ t.length) :
    externalToPython (createMapping c0 (some ((Xmi.docText t).toList.map Char.toNat)))
      (pythonToExternal (createMapping none (some t)) i) = i :=
  json_offset_roundtrip_aux t hs c0 i hi

/-- the same on heap objects, with the converter of the view (`parseSofa_conv`) -/
theorem json_convertOffsets_restores (t : List Nat) (view : View)
    (hconv : view.sofa.conv = createMapping none (some t)) (hp : Heap) (a : Nat) (o : Obj)
    (b e : Nat) (hb : b ≤ t.length) (he : e ≤ t.length) (ha : hp[a]? = some o)
    (hsb : alistGet? o.slots "begin" = some (.int (pythonToExternal (createMapping none (some t)) b : Nat)))
    (hse : alistGet? o.slots "end" = some (.int (pythonToExternal (createMapping none (some t)) e : Nat))) :
    ∃ hp' : Heap, Xmi.convertOffsets view.sofa.conv hp a = .ok hp' ∧
      Traverse.slot hp' a "begin" = some (.int b) ∧ Traverse.slot hp' a "end" = some (.int e) :=
  json_convertOffsets_restores_aux t view hconv hp a o b e hb he ha hsb hse

example : ∃ hp', Xmi.convertOffsets Demo.viewL.sofa.conv
      [{ ty := "x.Tok", ts := 0, xid := some 3, slots := [("begin", .int 3), ("end", .int 4)] }] 0 = .ok hp' ∧
    Traverse.slot hp' 0 "begin" = some (.int 2) ∧ Traverse.slot hp' 0 "end" = some (.int 3) :=
  json_convertOffsets_restores Xmi.Demo.txt Demo.viewL Demo.viewL_conv _ 0 _ 2 3 (by decide) (by decide) rfl rfl rfl

/-- **where the JSON reader converts**: when the element of a structure is parsed — not when it is indexed.  The
    structure is constructed from the members (`construct`), its references that can be resolved at once are set
    (`resolveRefs`, among them `sofa`), giving the heap `heap1`; if the type is an annotation type the offsets are then
    converted with the converter of the view the `sofa` slot names, else the heap is left as it is.  This is the path
    of members of views and of annotations that are only referenced alike. -/
theorem parseFs_converts (K : Consts) (ts : TypeSystem) (tsIdx : Nat) (s s' : RState) (j : JFs)
    (h : parseFs K ts tsIdx s j = .ok s') :
    ∃ (t : TypeRec) (fsId : Int) (o : Obj) (kwargs : List (String × Val)) (d0 d : List Deferred) (heap1 : Heap),
      getType ts (if j.ty.endsWith "[]" then arrayTypeNameFor j.ty else j.ty) = .ok t ∧ j.id = some fsId ∧
      construct t tsIdx (some fsId) kwargs = .ok o ∧
      resolveRefs renameReserved s.fss s.heap.length (j.feats.filter (fun p => p.1.startsWith "@"))
        (s.heap ++ [o], d0) = .ok (heap1, d) ∧
      s'.cas = s.cas ∧
      (isInstanceOf ts t.name ANNOTATION = true →
        ∃ (cI : Nat) (vn : String) (view : View), Xmi.slot heap1 s.heap.length "sofa" = some (.sofa cI vn) ∧
          Cas.getViewRec s.cas vn = some view ∧
          Xmi.convertOffsets view.sofa.conv heap1 s.heap.length = .ok s'.heap) ∧
      (isInstanceOf ts t.name ANNOTATION = false → s'.heap = heap1) :=
  parseFs_converts_aux K ts tsIdx s s' j h

/-- **reader ∘ writer on a parsed annotation**: if before the conversion the `begin`/`end` slots held the offsets
    written for `b`, `e` over the text `t` of the view the `sofa` slot names (whose converter is the one `parseSofa`
    installed), the parsed structure has `begin = b`, `end = e`; a structure that is not an annotation is not converted -/
theorem parseFs_restores (K : Consts) (ts : TypeSystem) (tsIdx : Nat) (s s' : RState) (j : JFs)
    (h : parseFs K ts tsIdx s j = .ok s') :
    ∃ (t0 : TypeRec) (heap1 : Heap),
      getType ts (if j.ty.endsWith "[]" then arrayTypeNameFor j.ty else j.ty) = .ok t0 ∧
      (isInstanceOf ts t0.name ANNOTATION = true →
        ∃ (cI : Nat) (vn : String) (view : View), Xmi.slot heap1 s.heap.length "sofa" = some (.sofa cI vn) ∧
          Cas.getViewRec s.cas vn = some view ∧
          ∀ (t : List Nat) (b e : Nat), view.sofa.conv = createMapping none (some t) → b ≤ t.length → e ≤ t.length →
            Xmi.slot heap1 s.heap.length "begin" = some (.int (pythonToExternal (createMapping none (some t)) b : Nat)) →
            Xmi.slot heap1 s.heap.length "end" = some (.int (pythonToExternal (createMapping none (some t)) e : Nat)) →
            Xmi.slot s'.heap s.heap.length "begin" = some (.int b) ∧
            Xmi.slot s'.heap s.heap.length "end" = some (.int e)) ∧
      (isInstanceOf ts t0.name ANNOTATION = false → s'.heap = heap1) :=
  parseFs_restores_aux K ts tsIdx s s' j h

/-- the views pass indexes the members; it changes no slot but `sofa` of any object: offsets are not converted again -/
theorem viewsPass_keeps_offsets (ts : TypeSystem) (ci : Nat) (lenient : Bool) (fss : List (Int × Val))
    (l : List JView) (v v' : VState) (h : viewsPass ts ci lenient fss l v = .ok v') :
    ∀ (a : Nat) (n : String), n ≠ "sofa" → Traverse.slot v'.heap a n = Traverse.slot v.heap a n :=
  (viewsPass_keeps (P := fun _ => True) ts ci lenient fss (fun _ _ _ => trivial) l v v' h).1

/-! ### end-to-end instance: the document written for the demo CAS (offsets `(0, 3)` and `(3, 4)` over `a😀b`) is read
back with the in-memory offsets; the loaded structures sit at addresses 2 (the indexed `x.Tok`) and 3 (the one that
is only referenced) -/
example : ((saveJson Xmi.Demo.K Xmi.Demo.demoTS' [Xmi.Demo.casL] 0 Xmi.Demo.hpL .none).toOption.bind (fun r =>
    (loadJson Xmi.Demo.K Xmi.Demo.demoTS' 0 1 true false r.2.heap r.1).toOption.map (fun ld =>
      [2, 3].map (fun k => (Traverse.slot ld.heap k "begin", Traverse.slot ld.heap k "end"))))) =
    some [(some (.int 0), some (.int 2)), (some (.int 2), some (.int 3))] := by decide +kernel

end Cassis.Json

#print axioms Cassis.Json.parseSofa_conv
#print axioms Cassis.Json.loadJson_convIs
#print axioms Cassis.Json.renderFeature_offset
#print axioms Cassis.Json.written_offset_is_utf16
#print axioms Cassis.Json.json_offset_roundtrip
#print axioms Cassis.Json.json_convertOffsets_restores
#print axioms Cassis.Json.parseFs_converts
#print axioms Cassis.Json.parseFs_restores
#print axioms Cassis.Json.viewsPass_keeps_offsets
