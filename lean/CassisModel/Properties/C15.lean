/-
C15 — Every operation terminates on every reference-graph shape.

The worklist loop of `Cas._find_all_fs` (`Model/Traverse.lean`, counters included) performs at most
`|seeds| + Σ_a outdeg a` iterations on *every* heap: cycles, self references, diamonds, repeated, visited
and null elements.  `outdeg a` is the number of references `a` holds directly or through its inlined
arrays/lists, so the bound is linear in the size of the CAS as it is serialised.  The only
hypothesis for termination is that inline list spines are finite.  (Bounded recursion of
`descendants` / `subsumes` / `is_instance_of` on type trees of any depth is `descendants_eq_closure`,
`subsumes_iff_ancestor`, `isInstanceOf_iff_ancestor` of C10: fuel `|types| + 1` always suffices.)
-/
import CassisModel.Proofs.Traverse

namespace Cassis.Traverse
open Cassis.TS

/-- **iteration bound**: whenever the traversal returns, it has popped at most `|seeds| + Σ outdeg`
    entries, pushed at most `Σ outdeg`, and the open list is empty -/
theorem findAllFs_steps_bound (K : Consts) (ts : TypeSystem) (o : Opts) (hp : Heap) (nx : Int)
    (seeds : List Nat) (s' : St) (h : findAllFs K ts o hp nx seeds = .ok s') :
    s'.pops ≤ seeds.length + totalOut K ts o hp (hp.length + 1) ∧
    s'.pushes ≤ totalOut K ts o hp (hp.length + 1) ∧
    s'.pops = seeds.length + s'.pushes ∧
    s'.openl = [] :=
  findAllFs_steps_bound_aux K ts o hp nx seeds s' h

/-- **termination**: with finite list spines the loop never runs out of the fuel `|seeds| + Σ outdeg`
    (any other error is a Python exception the model reproduces, never divergence) -/
theorem findAllFs_terminates (K : Consts) (ts : TypeSystem) (o : Opts) (hp : Heap) (nx : Int)
    (seeds : List Nat) (hfin : FiniteSpines hp) :
    findAllFs K ts o hp nx seeds ≠ .error .outOfFuel :=
  findAllFs_terminates_aux K ts o hp nx seeds hfin

/-- each structure is collected once and under one id (shared with C04 / C09) -/
theorem findAllFs_nodup (K : Consts) (ts : TypeSystem) (o : Opts) (hp : Heap) (nx : Int)
    (seeds : List Nat) (s' : St) (h : findAllFs K ts o hp nx seeds = .ok s') :
    (s'.allFs.map (·.1)).Nodup ∧ (s'.allFs.map (·.2)).Nodup :=
  findAllFs_nodup_aux K ts o hp nx seeds s' h

/-- the traversal changes nothing in the heap except assigning ids to structures that had none -/
theorem findAllFs_heap_frame (K : Consts) (ts : TypeSystem) (o : Opts) (hp : Heap) (nx : Int)
    (seeds : List Nat) (s' : St) (h : findAllFs K ts o hp nx seeds = .ok s') :
    s'.heap.length = hp.length ∧
    ∀ (a : Nat) (ob : Obj), hp[a]? = some ob → ∃ ob' : Obj, s'.heap[a]? = some ob' ∧ ob'.ty = ob.ty ∧ ob'.slots = ob.slots ∧
      (ob.xid ≠ none → ob'.xid = ob.xid) :=
  findAllFs_heap_frame_aux K ts o hp nx seeds s' h

/-! Non-vacuity (tests of concrete instances): a diamond `0 → {1,2} → 3` plus a self loop on 3 -/
def demoTS : TypeSystem :=
  match (do
    let ts ← createType Gen.consts Gen.builtinTS "x.N" "uima.cas.TOP" none
    let ts ← createFeature ts "x.N" "l" "x.N"
    createFeature ts "x.N" "r" "x.N") with
  | .ok ts => ts
  | .error _ => Gen.builtinTS

def demoHeap : Heap :=
  [ { ty := "x.N", ts := 0, xid := none, slots := [("l", .ref 1), ("r", .ref 2)] },
    { ty := "x.N", ts := 0, xid := none, slots := [("l", .ref 3), ("r", .none)] },
    { ty := "x.N", ts := 0, xid := none, slots := [("l", .ref 3), ("r", .none)] },
    { ty := "x.N", ts := 0, xid := none, slots := [("l", .ref 3), ("r", .ref 0)] } ]

example : (findAllFs Gen.consts demoTS {} demoHeap 1 [0]).toOption.map (fun s => (s.pops, s.pushes, s.allFs.length))
    = some (5, 4, 4) := by
  -- `createFeature` goes through the well-founded `pushInherited`, which the kernel cannot unfold;
  -- on the childless type `x.N` it equals the kernel-evaluable `createFeatureLeaf`
  unfold demoTS
  rw [createType_createFeature2_leaf _ _ _ _ _ _ _ _ _ _ (by decide +kernel) (by decide +kernel)]
  decide +kernel
example : totalOut Gen.consts demoTS {} demoHeap 5 = 6 := by
  -- `createFeature` goes through the well-founded `pushInherited`, which the kernel cannot unfold;
  -- on the childless type `x.N` it equals the kernel-evaluable `createFeatureLeaf`
  unfold demoTS
  rw [createType_createFeature2_leaf _ _ _ _ _ _ _ _ _ _ (by decide +kernel) (by decide +kernel)]
  decide +kernel

end Cassis.Traverse
