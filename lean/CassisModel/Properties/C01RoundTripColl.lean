/-
C01, end to end on the whole format — arrays and lists included.

`xmi_roundtrip_coll` extends `xmi_roundtrip_flat` (`C01RoundTrip.lean`) from the flat fragment to structures with array and
list features, inlined or shared: primitive arrays of every kind, FSArrays, FSLists and primitive lists, the collection
objects and list nodes that are written as structures of their own.  The content of a feature is compared deeply
(`featContentC`, `Spec/RoundTripColl.lean`): an inlined collection is its sequence of elements, a shared one a reference to
the collection object; inside string arrays and lists null and `""` coincide (the only equivalence XMI forces besides the
identity of inlined collection objects).

`CollFs` (`Spec/RoundTripCollFrag.lean`) is the fragment: what a structure must look like for the theorem to apply.  It
contains the flat fragment and every collection kind; the conditions beyond "well typed" are exactly the things XMI cannot
express (null elements of FSArrays, …), each justified by a counterexample in that file.  `collAppliesB`
(`Properties/C01AppliesColl.lean`) is a sound computable test for all hypotheses; the correspondence check reports for how
many generated CASes it holds.
-/
import CassisModel.Proofs.RoundTripColl

namespace Cassis.Xmi
open Cassis.TS Cassis.Traverse

/-- **XMI round trip, collections included** -/
theorem xmi_roundtrip_coll (K : Consts) (ts : TypeSystem) (cass : List Cas) (ci : Nat) (c : Cas) (hp : Heap)
    (tsIdx ci' : Nat) (doc : XDoc) (st : St)
    (hc : cass[ci]? = some c) (hwf : RTWf c hp) (hnull : NullOk ts)
    (hsave : saveXmi K ts cass ci hp = .ok (doc, st))
    (hcoll : ∀ q ∈ st.allFs, CollFs K ts c ci st.heap q.2)
    (hdis : ∀ q ∈ st.allFs, ∀ nv ∈ c.views, q.1 ≠ nv.2.sofa.xid)
    (hmem : ∀ nv ∈ c.views, ∀ e ∈ Index.all nv.2.idx, slot st.heap e.oid "sofa" ≠ some .none)
    (hmok : MembersOk c st.heap) :
    ∃ (p : Pass1) (ld : Loaded),
      pass1 K ts tsIdx false doc { heap := st.heap } = .ok p ∧
      loadXmi K ts tsIdx ci' false st.heap doc = .ok ld ∧
      p.fss.map (·.1) = 0 :: (sortById st.allFs).map (·.1) ∧
      (∀ q ∈ st.allFs, ∃ (a' : Nat) (o o' : Obj), lookupFs p.fss q.1 = .ok a' ∧
          st.heap[q.2]? = some o ∧ ld.heap[a']? = some o' ∧ o'.ty = o.ty ∧ o'.xid = some q.1 ∧
          ∀ t : TypeRec, find? ts o.ty = some t → ∀ f ∈ allFeatures t,
            featContentC K ld.heap a' f = featContentC K st.heap q.2 f) ∧
      ld.cas.views.map (viewContent ld.heap) = c.views.map (viewContent st.heap) ∧
      (∀ q ∈ st.allFs, q.1 < ld.cas.nextXid) ∧
      (∀ nv ∈ c.views, nv.2.sofa.xid < ld.cas.nextXid ∧ nv.2.sofa.sofaNum < ld.cas.nextSofaNum) :=
  xmi_roundtrip_coll_aux K ts cass ci c hp tsIdx ci' doc st hc hwf hnull hsave hcoll hdis hmem hmok

/-- the flat fragment is part of it -/
theorem collFs_of_flatFs (K : Consts) (ts : TypeSystem) (c : Cas) (ci : Nat) (hp : Heap) (a : Nat)
    (h : FlatFs K ts c ci hp a) : CollFs K ts c ci hp a :=
  collFs_of_flatFs_aux K ts c ci hp a h

end Cassis.Xmi
