/-
C12 — the descriptor round trip as ONE statement, for every declaration order.

For every type system built through the API (any history of `create_type` / `create_feature` that declares features on
user types other than DocumentAnnotation) in which no type re-declares a feature it inherits (`NoShadow`, see
`Spec/TsXmlRoundTrip.lean` and finding X12): let `d` be the descriptor `to_xml` emits.  Then **every permutation** `d'` of
its declarations (subtypes before supertypes, features referring to later types)

* loads (`load_typesystem` succeeds),
* to a type system that declares the same under every name: same supertype, same description (trimmed), the same own
  features in the same order with the same range, element type, multiple-references flag and description, the same
  children and the same effective features (`SameXml`),
* and re-emitting the loaded type system reproduces the descriptor (`to_xml (load d') = d` with descriptions trimmed) —
  in particular the result does not depend on the declaration order.

`tsxml_roundtrip_redeclared`: the same when the permuted descriptor additionally redeclares built-in types exactly as the
library defines them (the re-emitted descriptor then starts with those redeclarations).
-/
import CassisModel.Proofs.TsXmlRoundTrip

namespace Cassis.TsXml
open Cassis.TS

theorem tsxml_roundtrip (ops : List TsOp) (h : UserOnlyNoDoc Gen.consts ops)
    (hns : NoShadow (ops.foldl (applyOp Gen.consts) Gen.builtinTS))
    (d d' : Descriptor) (hd : toDescriptor Gen.consts (ops.foldl (applyOp Gen.consts) Gen.builtinTS) = .ok d)
    (hp : d'.Perm d) :
    ∃ ts', load Gen.consts d' = .ok ts' ∧
      SameXml (ops.foldl (applyOp Gen.consts) Gen.builtinTS) ts' ∧
      toDescriptor Gen.consts ts' = .ok (d.map trimT) :=
  tsxml_roundtrip_aux ops h hns d d' hd hp

/-- a built-in type redeclared exactly as the library defines it -/
def builtinEntry (n : String) : Option TDesc :=
  (find? Gen.builtinTSNoDoc n).map renderType

theorem tsxml_roundtrip_redeclared (ops : List TsOp) (h : UserOnlyNoDoc Gen.consts ops)
    (hns : NoShadow (ops.foldl (applyOp Gen.consts) Gen.builtinTS))
    (d d' pre : Descriptor) (hd : toDescriptor Gen.consts (ops.foldl (applyOp Gen.consts) Gen.builtinTS) = .ok d)
    (hpre : ∀ e ∈ pre, Gen.consts.predefined.contains e.name = true ∧ e.name ≠ DOCUMENT_ANNOTATION ∧
      builtinEntry e.name = some e)
    (hp : d'.Perm (pre ++ d)) :
    ∃ ts' preOut, load Gen.consts d' = .ok ts' ∧
      SameXml (ops.foldl (applyOp Gen.consts) Gen.builtinTS) ts' ∧
      toDescriptor Gen.consts ts' = .ok (preOut ++ d.map trimT) ∧
      preOut.map (·.name) = sortStrs (pre.map (·.name)).eraseDups ∧ ∀ e ∈ preOut, builtinEntry e.name = some e :=
  tsxml_roundtrip_redeclared_aux ops h hns d d' pre hd hpre hp

end Cassis.TsXml
